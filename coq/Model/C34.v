(** C34 — Configuration sizes and durations round-trip exactly.

    Byte-level mirror of /repo/toml/toml.go (SizeV1, SSizeV1, SizeV2, SSizeV2, Duration;
    [Size = SizeV2], [SSize = SSizeV2] on this branch, toml/size_alias.go) together with the
    library code they call:
      - strconv.ParseUint / ParseInt (base 10, 64 bits), strconv.AppendUint / AppendInt;
      - github.com/dustin/go-humanize ParseBytes: strconv.ParseFloat of the numeric
        prefix, multiplication by the unit IN FLOAT64, comparison with 2^64, truncation;
        binary64 arithmetic is modelled exactly: a float is a fraction [(num, den)] with a
        power-of-two denominator and [rnd p q] is round-to-nearest-even of p/q to 53 bits
        (exponent range not modelled: inputs have fewer than 300 digits);
      - the two regular expressions of toml.go as hand-written recognisers;
      - time.Duration.String and time.ParseDuration (integer arithmetic, plus the float64
        expression [uint64(float64(f) * (float64(unit) / scale))] for fractions).
    Strings are lists of byte codes.  Inputs are ASCII plus bytes >= 128 that are not part of
    a Unicode space or digit (the driver only generates such).  Values are [Z].
    [None] = the implementation returned an error.  No proofs in this file. *)
From Verif Require Import Base.Prelude.
From Coq Require Import String Ascii.
Local Open Scope N_scope.
Local Open Scope list_scope.
(* [String] shadows [length]; this file only ever means the list one. *)
Local Notation length := (@List.length _) (only parsing).

Definition B (s : string) : list N := map N_of_ascii (list_ascii_of_string s).

(* ------------------------------------------------------------------ *)
(** * Characters and list helpers *)
Definition is_digit (c : N) : bool := (48 <=? c) && (c <=? 57).
(** Go regexp [\s] (ASCII only): [\t\n\f\r ]. *)
Definition is_re_space (c : N) : bool :=
  (c =? 9) || (c =? 10) || (c =? 12) || (c =? 13) || (c =? 32).
(** unicode.IsSpace restricted to single bytes below 128: also [\v]. *)
Definition is_space (c : N) : bool := is_re_space c || (c =? 11).
Definition to_lower (c : N) : N := if (65 <=? c) && (c <=? 90) then c + 32 else c.

Fixpoint drop_while (f : N -> bool) (l : list N) : list N :=
  match l with
  | [] => []
  | c :: r => if f c then drop_while f r else l
  end.
Fixpoint take_while (f : N -> bool) (l : list N) : list N :=
  match l with
  | [] => []
  | c :: r => if f c then c :: take_while f r else []
  end.
Definition rstrip (f : N -> bool) (l : list N) : list N := rev (drop_while f (rev l)).
Definition trim_space (l : list N) : list N := rstrip is_space (drop_while is_space l).

Definition bytes_eqb := list_eqb N.eqb.
Fixpoint lookup (k : list N) (tbl : list (list N * N)) : option N :=
  match tbl with
  | [] => None
  | (k', v) :: r => if bytes_eqb k k' then Some v else lookup k r
  end.

(* ------------------------------------------------------------------ *)
(** * Decimal printing (strconv.AppendUint/AppendInt base 10, time.fmtInt) and parsing *)
Fixpoint dec_aux (fuel : nat) (n : N) (acc : list N) : list N :=
  match fuel with
  | O => acc
  | S f => let acc' := (48 + n mod 10) :: acc in
           if n / 10 =? 0 then acc' else dec_aux f (n / 10) acc'
  end.
Definition dec (n : N) : list N := dec_aux (S (N.to_nat (N.log2 n))) n [].
Definition dec_z (z : Z) : list N :=
  if (z <? 0)%Z then 45 :: dec (Z.to_N (- z)) else dec (Z.to_N z).

Definition dec_value (s : list N) : N := fold_left (fun a c => a * 10 + (c - 48)) s 0.

(** The loop of strconv.ParseUint(s, 10, 64); [None] = syntax or range error. *)
Definition cutoff64 : N := 1844674407370955162.   (* maxUint64/10 + 1 *)
Fixpoint pu_loop (acc : N) (s : list N) : option N :=
  match s with
  | [] => Some acc
  | c :: r =>
      if negb (is_digit c) then None
      else if cutoff64 <=? acc then None
      else let n1 := acc * 10 + (c - 48) in
           if 2 ^ 64 <=? n1 then None else pu_loop n1 r
  end.
Definition parse_uint (s : list N) : option N :=
  match s with [] => None | _ => pu_loop 0 s end.

(** strconv.ParseUint(s, 10, 64) with its error class: a range error is reported as soon
    as the accumulator overflows, even when a non-digit follows later. *)
Inductive pures := PuOk (n : N) | PuSyntax | PuRange.
Fixpoint pu3 (acc : N) (s : list N) : pures :=
  match s with
  | [] => PuOk acc
  | c :: r =>
      if negb (is_digit c) then PuSyntax
      else if cutoff64 <=? acc then PuRange
      else let n1 := acc * 10 + (c - 48) in
           if 2 ^ 64 <=? n1 then PuRange else pu3 n1 r
  end.
Definition parse_uint3 (s : list N) : pures :=
  match s with [] => PuSyntax | _ => pu3 0 s end.

(** strconv.ParseInt(s, 10, 64). *)
Definition parse_int (s : list N) : option Z :=
  match s with
  | [] => None
  | c :: r =>
      let '(neg, body) := if c =? 43 then (false, r) else if c =? 45 then (true, r) else (false, s) in
      match parse_uint body with
      | None => None
      | Some un =>
          if negb neg && (2 ^ 63 <=? un) then None
          else if neg && (2 ^ 63 <? un) then None
          else Some (if neg then (- Z.of_N un)%Z else Z.of_N un)
      end
  end.

(* ------------------------------------------------------------------ *)
(** * binary64 arithmetic on non-negative values, exactly *)
Definition fl := (N * N)%type.   (* num / den, den a power of two (den > 0) *)

(** p / (q * 2^e) as a fraction, for an integer exponent e. *)
Definition scale2 (p q : N) (e : Z) : N * N :=
  if (0 <=? e)%Z then (p, q * 2 ^ Z.to_N e) else (p * 2 ^ Z.to_N (- e), q).

(** Round p/q (q > 0) to the nearest binary64 (53-bit significand, ties to even). *)
Definition rnd (p q : N) : fl :=
  if p =? 0 then (0, 1) else
  let d := (Z.of_N (N.log2 p) - Z.of_N (N.log2 q))%Z in
  let '(a0, b0) := scale2 p q d in
  let fl2 := if b0 <=? a0 then d else (d - 1)%Z in       (* floor(log2(p/q)) *)
  let e := (fl2 - 52)%Z in
  let '(a, b) := scale2 p q e in
  let m0 := a / b in
  let r := a mod b in
  let m := if (b <? 2 * r) || ((2 * r =? b) && N.odd m0) then m0 + 1 else m0 in
  if (0 <=? e)%Z then (m * 2 ^ Z.to_N e, 1) else (m, 2 ^ Z.to_N (- e)).

Definition fl_of_N (n : N) : fl := rnd n 1.                 (* float64(n) *)
Definition fmul (x y : fl) : fl := rnd (fst x * fst y) (snd x * snd y).
Definition fdiv (x y : fl) : fl := rnd (fst x * snd y) (snd x * fst y).   (* y <> 0 *)
Definition fl_floor (x : fl) : N := fst x / snd x.          (* uint64(f) for 0 <= f < 2^64 *)
Definition fl_ge_pow2 (x : fl) (k : N) : bool := 2 ^ k * snd x <=? fst x.

(* ------------------------------------------------------------------ *)
(** * humanize.ParseBytes *)
Definition size_table : list (list N * N) :=
  [ (B "b", 1); (B "kib", 2 ^ 10); (B "kb", 10 ^ 3); (B "mib", 2 ^ 20); (B "mb", 10 ^ 6);
    (B "gib", 2 ^ 30); (B "gb", 10 ^ 9); (B "tib", 2 ^ 40); (B "tb", 10 ^ 12);
    (B "pib", 2 ^ 50); (B "pb", 10 ^ 15); (B "eib", 2 ^ 60); (B "eb", 10 ^ 18);
    ([], 1); (B "ki", 2 ^ 10); (B "k", 10 ^ 3); (B "mi", 2 ^ 20); (B "m", 10 ^ 6);
    (B "gi", 2 ^ 30); (B "g", 10 ^ 9); (B "ti", 2 ^ 40); (B "t", 10 ^ 12);
    (B "pi", 2 ^ 50); (B "p", 10 ^ 15); (B "ei", 2 ^ 60); (B "e", 10 ^ 18) ].

Definition is_numchar (c : N) : bool := is_digit c || (c =? 46) || (c =? 44).

(** strconv.ParseFloat on a string made of digits and dots only: the exact decimal value
    as a fraction (digits, 10^fraction-length); [None] = syntax error. *)
Definition parse_decimal (s : list N) : option (N * N) :=
  let ip := take_while is_digit s in
  let r := drop_while is_digit s in
  match r with
  | [] => match ip with [] => None | _ => Some (dec_value ip, 1) end
  | c :: r' =>
      if c =? 46 then
        let fp := take_while is_digit r' in
        match drop_while is_digit r' with
        | [] => match ip, fp with
                | [], [] => None
                | _, _ => Some (dec_value (ip ++ fp), 10 ^ N.of_nat (length fp))
                end
        | _ => None
        end
      else None
  end.

Definition parse_bytes (s : list N) : option N :=
  let num := take_while is_numchar s in
  let rest := drop_while is_numchar s in
  let num' := filter (fun c => negb (c =? 44)) num in
  match parse_decimal num' with
  | None => None
  | Some (p, q) =>
      let f := rnd p q in
      if fl_ge_pow2 f 1024 then None else      (* ParseFloat: +Inf, ErrRange *)
      let extra := map to_lower (trim_space rest) in
      match lookup extra size_table with
      | None => None
      | Some m =>
          let f2 := fmul f (fl_of_N m) in
          if fl_ge_pow2 f2 64 then None else Some (fl_floor f2)
      end
  end.

(** toml.parseBytesUnsigned: a plain decimal integer is parsed exactly by strconv.ParseUint
    (repair of finding size-above-2p53-not-representable); a range error rejects; only a
    syntax error falls back to humanize. *)
Definition parse_bytes_unsigned (text : list N) : option N :=
  match parse_uint3 text with
  | PuOk v => Some v
  | PuRange => None
  | PuSyntax => parse_bytes text
  end.

(** toml.parseBytesSigned *)
Definition parse_bytes_signed (text : list N) : option Z :=
  let t := trim_space text in
  let '(neg, t') := match t with
                    | c :: r => if c =? 45 then (true, r) else (false, t)
                    | [] => (false, t)
                    end in
  match parse_bytes_unsigned t' with
  | None => None
  | Some v =>
      if neg then
        if v =? 2 ^ 63 then Some (- 2 ^ 63)%Z
        else if 2 ^ 63 - 1 <? v then None else Some (- Z.of_N v)%Z
      else if 2 ^ 63 - 1 <? v then None else Some (Z.of_N v)
  end.

(* ------------------------------------------------------------------ *)
(** * SizeV1 / SSizeV1 *)
Definition is_bare_suffix (c : N) : bool :=
  (c =? 107) || (c =? 75) || (c =? 109) || (c =? 77) || (c =? 103) || (c =? 71).
Definition bare_mult (c : N) : N :=
  if (c =? 107) || (c =? 75) then 2 ^ 10
  else if (c =? 109) || (c =? 77) then 2 ^ 20 else 2 ^ 30.
Definition bare_canon (c : N) : list N :=
  if (c =? 107) || (c =? 75) then B "kib"
  else if (c =? 109) || (c =? 77) then B "mib" else B "gib".

(** Go int64 wrap-around. *)
Definition wrap64s (z : Z) : Z := ((z + 2 ^ 63) mod 2 ^ 64 - 2 ^ 63)%Z.

(** marshalSizeV1: largest whole binary suffix; Go's truncated [/] and [%]. *)
Definition marshal_v1 (z : Z) : list N :=
  let pick (sh : Z) := negb (Z.quot z (2 ^ sh) =? 0)%Z && (Z.rem z (2 ^ sh) =? 0)%Z in
  if pick 30%Z then dec_z (Z.quot z (2 ^ 30)) ++ [103]
  else if pick 20%Z then dec_z (Z.quot z (2 ^ 20)) ++ [109]
  else if pick 10%Z then dec_z (Z.quot z (2 ^ 10)) ++ [107]
  else dec_z z.

(** sizeV1Pattern [\A([0-9]+)\s*([kKmMgG]?)\z] / ssizeV1Pattern [\A([+-]?[0-9]+)\s*([kKmMgG]?)\z]:
    returns the two captures. *)
Definition match_v1 (signed : bool) (text : list N) : option (list N * option N) :=
  let '(sg, body) := match text with
                     | c :: r => if signed && ((c =? 43) || (c =? 45)) then ([c], r) else ([], text)
                     | [] => ([], text)
                     end in
  let ds := take_while is_digit body in
  match ds with
  | [] => None
  | _ =>
      match drop_while is_re_space (drop_while is_digit body) with
      | [] => Some (sg ++ ds, None)
      | [c] => if is_bare_suffix c then Some (sg ++ ds, Some c) else None
      | _ => None
      end
  end.

(** bareIECSuffixRe [(?s)\A(.*[0-9\s])\s*([kKmMgG])\s*\z] and rewriteBareIECSuffix
    (derived recogniser: the last non-space byte is the suffix letter; the prefix P before
    it is non-empty and its trailing [\s]-run is non-empty or preceded by a digit; the
    result is TrimSpace(P) + " " + canonical).  With the (?s) flag (repair of finding
    ssizev1-bare-suffix-after-newline-is-decimal) [.] also matches a newline. *)
Definition rewrite_bare (text : list N) : list N :=
  let t1 := rstrip is_re_space text in
  match rev t1 with
  | c :: rp =>
      if is_bare_suffix c then
        let P := rev rp in
        let Q := rstrip is_re_space P in
        let tail_ok := (Nat.ltb (length Q) (length P))
                       || match rev Q with d :: _ => is_digit d | [] => false end in
        match P with
        | [] => text
        | _ => if tail_ok then trim_space P ++ [32] ++ bare_canon c else text
        end
      else text
  | [] => text
  end.

Definition unmarshal_v1 (signed : bool) (text : list N) : option Z :=
  match match_v1 signed text with
  | Some (num, suf) =>
      let mult := match suf with Some c => bare_mult c | None => 1 end in
      if signed then
        match parse_int num with
        | None => None
        | Some n =>
            let result := wrap64s (n * Z.of_N mult) in
            if negb (Z.quot result (Z.of_N mult) =? n)%Z then None else Some result
        end
      else
        match parse_uint num with
        | None => None
        | Some n =>
            let result := (n * mult) mod 2 ^ 64 in
            if negb (result / mult =? n) then None else Some (Z.of_N result)
        end
  | None =>
      let rw := rewrite_bare text in
      if signed then parse_bytes_signed rw
      else option_map Z.of_N (parse_bytes_unsigned rw)
  end.

(** SizeV2 / SSizeV2: humanize only. *)
Definition unmarshal_v2 (signed : bool) (text : list N) : option Z :=
  if signed then parse_bytes_signed text else option_map Z.of_N (parse_bytes_unsigned text).

(* ------------------------------------------------------------------ *)
(** * time.Duration.String *)
(** fmtFrac: the digits written (most significant first, with the leading '.') and v / 10^prec. *)
Fixpoint fmt_frac (prec : nat) (v : N) (print : bool) (acc : list N) : list N * N :=
  match prec with
  | O => (if print then 46 :: acc else acc, v)
  | S p =>
      let digit := v mod 10 in
      let print' := print || negb (digit =? 0) in
      fmt_frac p (v / 10) print' (if print' then (48 + digit) :: acc else acc)
  end.

Definition SECOND : N := 1000000000.

Definition format_abs (u : N) : list N :=
  if u <? SECOND then
    if u =? 0 then B "0s"
    else if u <? 1000 then dec u ++ B "ns"
    else if u <? 1000000 then
      let '(fr, v) := fmt_frac 3 u false [] in dec v ++ fr ++ [194; 181; 115]   (* "µs" *)
    else
      let '(fr, v) := fmt_frac 6 u false [] in dec v ++ fr ++ B "ms"
  else
    let '(fr, v) := fmt_frac 9 u false [] in
    let secs := dec (v mod 60) ++ fr ++ B "s" in
    let u1 := v / 60 in
    if 0 <? u1 then
      let mins := dec (u1 mod 60) ++ B "m" in
      let u2 := u1 / 60 in
      if 0 <? u2 then dec u2 ++ B "h" ++ mins ++ secs else mins ++ secs
    else secs.

(** [u := uint64(d); if neg { u = -u }] — also correct for MinInt64. *)
Definition dur_format (d : Z) : list N :=
  if (d <? 0)%Z then 45 :: format_abs (Z.to_N (- d)) else format_abs (Z.to_N d).

(* ------------------------------------------------------------------ *)
(** * time.ParseDuration *)
Definition unit_table : list (list N * N) :=
  [ (B "ns", 1); (B "us", 1000); ([194; 181; 115], 1000); ([206; 188; 115], 1000);
    (B "ms", 1000000); (B "s", 1000000000); (B "m", 60000000000); (B "h", 3600000000000) ].

(** leadingInt: [None] = overflow error; otherwise (value, rest). *)
Fixpoint leading_int (x : N) (s : list N) : option (N * list N) :=
  match s with
  | [] => Some (x, [])
  | c :: r =>
      if negb (is_digit c) then Some (x, s)
      else if 2 ^ 63 / 10 <? x then None
      else let x' := x * 10 + (c - 48) in
           if 2 ^ 63 <? x' then None else leading_int x' r
  end.

(** leadingFraction: (value, number of digits accumulated = log10 scale, rest). *)
Fixpoint leading_fraction (x : N) (k : N) (overflow : bool) (s : list N) : N * N * list N :=
  match s with
  | [] => (x, k, [])
  | c :: r =>
      if negb (is_digit c) then (x, k, s)
      else if overflow then leading_fraction x k true r
      else if (2 ^ 63 - 1) / 10 <? x then leading_fraction x k true r
      else let y := x * 10 + (c - 48) in
           if 2 ^ 63 <? y then leading_fraction x k true r
           else leading_fraction y (k + 1) false r
  end.

Definition is_unit_stop (c : N) : bool := (c =? 46) || is_digit c.

(** The body of the [for s != ""] loop; [fuel] bounds the number of components by the
    length of the input (each iteration consumes at least one byte). *)
Fixpoint pd_loop (fuel : nat) (d : N) (s : list N) : option N :=
  match s with
  | [] => Some d
  | c0 :: _ =>
      match fuel with
      | O => None
      | S fuel' =>
          if negb ((c0 =? 46) || is_digit c0) then None else
          match leading_int 0 s with
          | None => None
          | Some (v, s1) =>
              let pre := negb (Nat.eqb (length s1) (length s)) in
              let '(f, k, s2, post) :=
                match s1 with
                | c1 :: r1 =>
                    if c1 =? 46 then
                      let '(f, k, s2) := leading_fraction 0 0 false r1 in
                      (f, k, s2, negb (Nat.eqb (length s2) (length r1)))
                    else (0, 0, s1, false)
                | [] => (0, 0, s1, false)
                end in
              if negb pre && negb post then None else
              let u := take_while (fun c => negb (is_unit_stop c)) s2 in
              let s3 := drop_while (fun c => negb (is_unit_stop c)) s2 in
              match u with
              | [] => None
              | _ =>
                  match lookup u unit_table with
                  | None => None
                  | Some unit =>
                      if 2 ^ 63 / unit <? v then None else
                      let v1 := v * unit in
                      let v2 := if 0 <? f
                                then v1 + fl_floor (fmul (fl_of_N f) (fdiv (fl_of_N unit) (fl_of_N (10 ^ k))))
                                else v1 in
                      if (0 <? f) && (2 ^ 63 <? v2) then None else
                      let d' := (d + v2) mod 2 ^ 64 in          (* uint64 addition *)
                      if 2 ^ 63 <? d' then None else pd_loop fuel' d' s3
                  end
              end
          end
      end
  end.

Definition parse_duration (s : list N) : option Z :=
  let '(neg, s1) := match s with
                    | c :: r => if (c =? 45) || (c =? 43) then (c =? 45, r) else (false, s)
                    | [] => (false, s)
                    end in
  if bytes_eqb s1 [48] then Some 0%Z
  else match s1 with
       | [] => None
       | _ => match pd_loop (S (length s1)) 0 s1 with
              | None => None
              | Some d =>
                  if neg then Some (wrap64s (- Z.of_N d))
                  else if 2 ^ 63 - 1 <? d then None else Some (Z.of_N d)
              end
       end.

(** toml.Duration.UnmarshalText on a fresh zero value: empty text is ignored. *)
Definition dur_unmarshal (text : list N) : option Z :=
  match text with [] => Some 0%Z | _ => parse_duration text end.

(* ------------------------------------------------------------------ *)
(** * The five types *)
Inductive ty := TV1 | TSV1 | TV2 | TSV2 | TDur.

Definition in_range (t : ty) (z : Z) : bool :=
  match t with
  | TV1 | TV2 => (0 <=? z)%Z && (z <? 2 ^ 64)%Z
  | _ => (- 2 ^ 63 <=? z)%Z && (z <? 2 ^ 63)%Z
  end.

(** What the configuration layer writes for a value: MarshalText for SizeV1/SSizeV1/Duration;
    SizeV2/SSizeV2 have no MarshalText, the TOML encoder writes the bare integer. *)
Definition marshal (t : ty) (z : Z) : list N :=
  match t with
  | TV1 | TSV1 => marshal_v1 z
  | TV2 | TSV2 => dec_z z
  | TDur => dur_format z
  end.

Definition unmarshal (t : ty) (text : list N) : option Z :=
  match t with
  | TV1 => unmarshal_v1 false text
  | TSV1 => unmarshal_v1 true text
  | TV2 => unmarshal_v2 false text
  | TSV2 => unmarshal_v2 true text
  | TDur => dur_unmarshal text
  end.

(** Reading the written text back through a BurntSushi/toml document: strings reach
    UnmarshalText verbatim; a bare integer is first parsed as a TOML integer (int64) and
    handed to UnmarshalText as strconv.FormatInt of it. *)
Definition unmarshal_toml (t : ty) (z : Z) (text : list N) : option Z :=
  match t with
  | TV2 | TSV2 => if (z <? 2 ^ 63)%Z then unmarshal t text else None
  | _ => unmarshal t text
  end.

(* ------------------------------------------------------------------ *)
(** * Independent oracles *)

(** Documented unit meanings (toml.go comments + humanize's table): 1.x bare k/m/g are
    binary for SizeV1/SSizeV1, SI for SizeV2/SSizeV2; explicit names as named. *)
Definition doc_table (v1 : bool) : list (list N * N) :=
  [ ([], 1); (B "b", 1);
    (B "k", if v1 then 1024 else 1000); (B "m", if v1 then 1048576 else 1000000);
    (B "g", if v1 then 1073741824 else 1000000000);
    (B "t", 1000000000000); (B "p", 1000000000000000); (B "e", 1000000000000000000);
    (B "kb", 1000); (B "mb", 1000000); (B "gb", 1000000000); (B "tb", 1000000000000);
    (B "pb", 1000000000000000); (B "eb", 1000000000000000000);
    (B "kib", 1024); (B "mib", 1048576); (B "gib", 1073741824); (B "tib", 1099511627776);
    (B "pib", 1125899906842624); (B "eib", 1152921504606846976);
    (B "ki", 1024); (B "mi", 1048576); (B "gi", 1073741824); (B "ti", 1099511627776);
    (B "pi", 1125899906842624); (B "ei", 1152921504606846976) ].

(** Exact meaning of "[ws][sign]digits[ws]unit[ws]" (ws = [\t\n\f\r ]); [None] = the
    text is not of that simple form (no opinion). *)
Definition doc_value (v1 : bool) (text : list N) : option Z :=
  let t := rstrip is_re_space (drop_while is_re_space text) in
  let '(neg, t1) := match t with
                    | c :: r => if c =? 45 then (true, r) else if c =? 43 then (false, r) else (false, t)
                    | [] => (false, t)
                    end in
  let ds := take_while is_digit t1 in
  match ds with
  | [] => None
  | _ =>
      let u := map to_lower (drop_while is_re_space (drop_while is_digit t1)) in
      match lookup u (doc_table v1) with
      | None => None
      | Some m => let v := Z.of_N (dec_value ds * m) in Some (if neg then (- v)%Z else v)
      end
  end.

(** Duration: per component the exact value (v + f/10^k) * unit lies in [lo, hi]; returns
    (negative?, sum of floors, sum of ceilings, number of components).  [None] = not in
    the grammar: optional sign, then one or more of (digits, optional '.' digits, unit). *)
Fixpoint dur_exact_loop (fuel : nat) (s : list N) (lo hi cnt : N) : option (N * N * N) :=
  match s with
  | [] => Some (lo, hi, cnt)
  | _ =>
      match fuel with
      | O => None
      | S fuel' =>
          let ip := take_while is_digit s in
          let s1 := drop_while is_digit s in
          let '(fp, s2) := match s1 with
                           | c :: r => if c =? 46 then (take_while is_digit r, drop_while is_digit r)
                                       else ([], s1)
                           | [] => ([], s1)
                           end in
          match ip, fp with
          | [], [] => None
          | _, _ =>
              let u := take_while (fun c => negb (is_unit_stop c)) s2 in
              let s3 := drop_while (fun c => negb (is_unit_stop c)) s2 in
              match lookup u unit_table with
              | None => None
              | Some unit =>
                  let sc := 10 ^ N.of_nat (length fp) in
                  let num := dec_value (ip ++ fp) * unit in
                  let fl_ := num / sc in
                  let ce := if num mod sc =? 0 then fl_ else fl_ + 1 in
                  dur_exact_loop fuel' s3 (lo + fl_) (hi + ce) (cnt + 1)
              end
          end
      end
  end.

Definition dur_exact (s : list N) : option (bool * N * N * N) :=
  let '(neg, s1) := match s with
                    | c :: r => if (c =? 45) || (c =? 43) then (c =? 45, r) else (false, s)
                    | [] => (false, s)
                    end in
  if bytes_eqb s1 [48] then Some (neg, 0, 0, 0)
  else match s1 with
       | [] => None
       | _ => match dur_exact_loop (S (length s1)) s1 0 0 0 with
              | Some (lo, hi, cnt) => Some (neg, lo, hi, cnt)
              | None => None
              end
       end.

(* ------------------------------------------------------------------ *)
(** * Correspondence cases *)
Inductive case :=
| CRt (t : ty) (via_toml : bool) (z : Z) (text : list N) (back : option Z)
    (* the value z as written by the implementation ([text]) and what reading it back gave:
       via_toml = false: MarshalText (or the integer text the TOML encoder writes for the V2
       types) then UnmarshalText; via_toml = true: BurntSushi encode of a struct, then Decode *)
| CParse (t : ty) (text : list N) (r : option Z).
    (* UnmarshalText of an arbitrary text *)

Definition optZ_eqb := option_eqb Z.eqb.

Definition parse_ok (t : ty) (text : list N) (r : option Z) : bool :=
  match t with
  | TDur =>
      match text with
      | [] => optZ_eqb r (Some 0%Z)
      | _ =>
        match dur_exact text, r with
        | None, None => true
        | None, Some _ => false                     (* outside the grammar: must be rejected *)
        | Some _, None => true
        | Some (neg, lo, hi, cnt), Some v =>
            in_range TDur v &&
            let a := Z.abs v in
            (Z.of_N lo - Z.of_N cnt <=? a)%Z && (a <=? Z.of_N hi + Z.of_N cnt)%Z &&
            ((v =? 0)%Z || Bool.eqb neg (v <? 0)%Z)
        end
      end
  | _ =>
      let v1 := match t with TV1 | TSV1 => true | _ => false end in
      match doc_value v1 text, r with
      | Some e, Some v => in_range t v && (v =? e)%Z     (* accepted: exactly the documented value *)
      | _, _ => true
      end
  end.

Definition check (c : case) : verdict :=
  match c with
  | CRt t via z text back =>
      let mt := marshal t z in
      let mb := if via then unmarshal_toml t z mt else unmarshal t mt in
      judge (bytes_eqb text mt && optZ_eqb back mb) (optZ_eqb back (Some z))
  | CParse t text r =>
      judge (optZ_eqb r (unmarshal t text)) (parse_ok t text r)
  end.
