(** C14 — IndexFiles.CompactTo of a run and LogFile.CompactTo of a log file can stand for the
    files they replace ([replaces] of Proofs/C14_compact.v), provided no tag KEY carries a
    tombstone in them (which holds in every crash-free history: the measurement tombstone that
    ends Partition.DropMeasurement wipes the key tombstones written just before it). *)
From Verif Require Import Base.Prelude Model.C14 Proofs.C14_sets Proofs.C14_compact.
Local Open Scope N_scope.

Definition no_key_tomb (run : list file) : Prop :=
  forall f m k x, In f run -> fkey f m k = Some x -> tk_del x = false.

Lemma str_mem_false x l : str_mem x l = false <-> ~ In x l.
Proof. rewrite <- str_mem_in. destruct (str_mem x l); split; congruence. Qed.

Lemma fmeas_merge lvl run m :
  fmeas (merge_run lvl run) m = if str_mem m (meas_names run) then Some (merge_meas run m) else None.
Proof. unfold fmeas, merge_run. cbn [f_meas]. apply aget_abuild. Qed.

Lemma fkey_merge lvl run m k :
  fkey (merge_run lvl run) m k = if str_mem k (key_names run m) then Some (merge_key run m k) else None.
Proof.
  unfold fkey. rewrite fmeas_merge. destruct (str_mem m (meas_names run)) eqn:E.
  - unfold merge_meas. cbn [m_keys]. apply aget_abuild.
  - destruct (str_mem k (key_names run m)) eqn:E2; [|reflexivity].
    apply str_mem_in, key_names_in in E2 as [f [x [Hf H]]].
    apply fkey_some_fmeas in H as [mm [H _]].
    apply str_mem_false in E. exfalso. apply E. apply meas_names_in. eauto.
Qed.

Lemma fval_merge lvl run m k v :
  fval (merge_run lvl run) m k v =
  if str_mem k (key_names run m) then
    (if str_mem v (val_names (until_deleted run m k) m k)
     then Some (merge_val run (until_deleted run m k) m k v) else None)
  else None.
Proof.
  unfold fval. rewrite fkey_merge. destruct (str_mem k (key_names run m)); [|reflexivity].
  unfold merge_key. cbn [tk_vals]. apply aget_abuild.
Qed.

Lemma fkey_none_fval f m k v : fkey f m k = None -> fval f m k v = None.
Proof. unfold fval. intros ->. reflexivity. Qed.

Lemma no_key_tomb_tl f r : no_key_tomb (f :: r) -> no_key_tomb r.
Proof. intros H g m k x Hg. apply H. cbn. auto. Qed.

Lemma until_deleted_nt run m k : no_key_tomb run ->
  forall f, In f (until_deleted run m k) <-> In f run /\ exists x, fkey f m k = Some x.
Proof.
  induction run as [|g r IH]; intros H f; cbn [until_deleted].
  - cbn. split; [tauto | intros [[] _]].
  - destruct (fkey g m k) as [x|] eqn:E.
    + rewrite (H g m k x) by (cbn; auto). cbn [In]. rewrite (IH (no_key_tomb_tl _ _ H)).
      split; [intros [<- | [A B]]; eauto | intros [[<- | A] B]; auto].
    + rewrite (IH (no_key_tomb_tl _ _ H)). cbn [In].
      split; [intros [A B]; auto | intros [[<- | A] [x B]]; [congruence | eauto]].
Qed.

Lemma first_some_until run m k v : no_key_tomb run ->
  first_some (fun f => fval f m k v) (until_deleted run m k) = first_some (fun f => fval f m k v) run.
Proof.
  induction run as [|g r IH]; intro H; cbn [until_deleted first_some]; [reflexivity|].
  destruct (fkey g m k) as [x|] eqn:E.
  - rewrite (H g m k x) by (cbn; auto). cbn [first_some].
    destruct (fval g m k v); [reflexivity|]. apply IH. exact (no_key_tomb_tl _ _ H).
  - rewrite (fkey_none_fval _ _ _ _ E). apply IH. exact (no_key_tomb_tl _ _ H).
Qed.

Lemma sunions_map_in {A} (g : A -> list N) l y : In y (sunions (map g l)) <-> exists a, In a l /\ In y (g a).
Proof.
  rewrite sunions_in. split.
  - intros [s [Hs Hy]]. apply in_map_iff in Hs as [a [<- Ha]]. eauto.
  - intros [a [Ha Hy]]. exists (g a). split; [apply in_map; exact Ha | exact Hy].
Qed.

Lemma merge_ts_sub y l : forall acc,
  In y (snd (fold_left (fun (acc : list N * list N) f =>
                          (sunion (sdiff (fst acc) (f_ts f)) (f_ss f), sdiff (sunion (snd acc) (f_ts f)) (f_ss f)))
                       l acc)) ->
  In y (snd acc) \/ exists f, In f l /\ In y (f_ts f).
Proof.
  induction l as [|f l IH]; intros acc H; cbn [fold_left] in H; [auto|].
  apply IH in H as [H | [g [Hg H]]].
  - cbn [snd] in H. apply sdiff_in in H as [H _]. apply sunion_in in H as [H | H]; [auto|].
    right. exists f. cbn. auto.
  - right. exists g. cbn. auto.
Qed.

Theorem merge_replaces lvl run : no_key_tomb run -> replaces (merge_run lvl run) run.
Proof.
  intro NT. constructor.
  - (* measurement flag *)
    intro m. rewrite fmeas_merge. destruct (first_some (fun f => fmeas f m) run) as [x|] eqn:F.
    + pose proof F as F'. apply first_some_in in F' as [f [Hf H]].
      replace (str_mem m (meas_names run)) with true by (symmetry; apply str_mem_in, meas_names_in; eauto).
      unfold merge_meas. cbn [option_map m_del]. rewrite F. reflexivity.
    + replace (str_mem m (meas_names run)) with false; [reflexivity|].
      symmetry. apply str_mem_false. intro H. apply meas_names_in in H as [f [x [Hf H]]].
      rewrite first_some_none in F. rewrite (F f Hf) in H. discriminate.
  - (* key flag *)
    intros m k. rewrite fkey_merge. destruct (first_some (fun f => fkey f m k) run) as [x|] eqn:F.
    + pose proof F as F'. apply first_some_in in F' as [f [Hf H]].
      replace (str_mem k (key_names run m)) with true by (symmetry; apply str_mem_in, key_names_in; eauto).
      unfold merge_key. cbn [option_map tk_del]. rewrite F. reflexivity.
    + replace (str_mem k (key_names run m)) with false; [reflexivity|].
      symmetry. apply str_mem_false. intro H. apply key_names_in in H as [f [x [Hf H]]].
      rewrite first_some_none in F. rewrite (F f Hf) in H. discriminate.
  - (* value flag *)
    intros m k v. rewrite fval_merge. destruct (first_some (fun f => fval f m k v) run) as [x|] eqn:F.
    + pose proof F as F'. apply first_some_in in F' as [f [Hf H]].
      pose proof H as Hk. apply fval_some_fkey in Hk as [tk [Hk _]].
      replace (str_mem k (key_names run m)) with true by (symmetry; apply str_mem_in, key_names_in; eauto).
      replace (str_mem v (val_names (until_deleted run m k) m k)) with true.
      2:{ symmetry. apply str_mem_in, val_names_in. exists f, x. split; [|exact H].
          apply until_deleted_nt; [exact NT|]. eauto. }
      unfold merge_val. cbn [option_map tv_del]. rewrite first_some_until by exact NT. rewrite F. reflexivity.
    + destruct (str_mem k (key_names run m)); [|reflexivity].
      replace (str_mem v (val_names (until_deleted run m k) m k)) with false; [reflexivity|].
      symmetry. apply str_mem_false. intro H. apply val_names_in in H as [f [x [Hf H]]].
      apply until_deleted_nt in Hf as [Hf _]; [|exact NT].
      rewrite first_some_none in F. rewrite (F f Hf) in H. discriminate.
  - (* measurement series *)
    intros m y. unfold mids_of at 1. rewrite fmeas_merge. destruct (str_mem m (meas_names run)) eqn:E.
    + split.
      * intros [mm [H Hy]]. inversion H; subst mm. unfold merge_meas in Hy. cbn [m_ids] in Hy.
        apply q_mseries_in in Hy. exact Hy.
      * intro H. eexists. split; [reflexivity|]. unfold merge_meas. cbn [m_ids]. apply q_mseries_in. exact H.
    + split; [intros [mm [H _]]; discriminate|].
      intros [f [Hf [mm [H _]]]]. apply str_mem_false in E. exfalso. apply E, meas_names_in. eauto.
  - (* tag value series *)
    intros m k v y. unfold vids_of at 1. rewrite fval_merge.
    assert (G : (exists f, In f run /\ vids_of f m k v y) ->
                str_mem k (key_names run m) = true /\ str_mem v (val_names (until_deleted run m k) m k) = true).
    { intros [f [Hf [tv [H _]]]]. pose proof H as Hk. apply fval_some_fkey in Hk as [tk [Hk _]]. split.
      - apply str_mem_in, key_names_in. eauto.
      - apply str_mem_in, val_names_in. exists f, tv. split; [|exact H]. apply until_deleted_nt; [exact NT|]. eauto. }
    assert (U : forall pre, In y (tv_ids (merge_val run pre m k v)) <-> exists f, In f run /\ vids_of f m k v y).
    { intro pre. unfold merge_val. cbn [tv_ids]. rewrite sunions_map_in. unfold vids_of. split.
      - intros [f [Hf Hy]]. destruct (fval f m k v) as [tv|] eqn:E; [eauto | destruct Hy].
      - intros [f [Hf [tv [E Hy]]]]. exists f. rewrite E. auto. }
    split.
    + intros [tv [H Hy]]. destruct (str_mem k (key_names run m)); [|discriminate].
      destruct (str_mem v (val_names (until_deleted run m k) m k)); [|discriminate].
      inversion H; subst tv. apply U in Hy. exact Hy.
    + intro H. destruct (G H) as [-> ->]. eexists. split; [reflexivity|]. apply U. exact H.
  - (* tombstones *)
    intros y H. unfold merge_run in H. cbn [f_ts] in H. unfold merge_sets in H.
    apply merge_ts_sub in H as [[] | [f [Hf H]]]. exists f. rewrite in_rev. auto.
Qed.

(** ** log compaction *)
Lemma aget_map {V W} (h : V -> W) k (l : list (str * V)) :
  aget k (map (fun kv => (fst kv, h (snd kv))) l) = option_map h (aget k l).
Proof.
  induction l as [|[k0 v0] l IH]; cbn [map aget fst snd]; [reflexivity|].
  destruct (str_eqb k k0); [reflexivity | exact IH].
Qed.

Definition conv_key (tk : tkey) : tkey :=
  {| tk_del := tk_del tk; tk_vals := if tk_del tk then [] else tk_vals tk |}.
Definition conv_meas (mm : meas) : meas :=
  {| m_del := m_del mm; m_ids := m_ids mm; m_keys := map (fun kk => (fst kk, conv_key (snd kk))) (m_keys mm) |}.

Lemma fmeas_log f m : fmeas (log_to_index f) m = option_map conv_meas (fmeas f m).
Proof. unfold fmeas, log_to_index. cbn [f_meas]. apply (aget_map conv_meas). Qed.
Lemma fkey_log f m k : fkey (log_to_index f) m k = option_map conv_key (fkey f m k).
Proof.
  unfold fkey. rewrite fmeas_log. destruct (fmeas f m) as [mm|]; [|reflexivity].
  cbn [option_map conv_meas m_keys]. apply (aget_map conv_key).
Qed.
Lemma fval_log f m k v : no_key_tomb [f] -> fval (log_to_index f) m k v = fval f m k v.
Proof.
  intro NT. unfold fval. rewrite fkey_log. destruct (fkey f m k) as [tk|] eqn:E; [|reflexivity].
  cbn [option_map]. unfold conv_key. cbn [tk_vals]. rewrite (NT f m k tk) by (cbn; auto). reflexivity.
Qed.

Theorem log_replaces f : no_key_tomb [f] -> replaces (log_to_index f) [f].
Proof.
  intro NT. constructor.
  - intro m. rewrite fmeas_log. cbn [first_some]. destruct (fmeas f m); reflexivity.
  - intros m k. rewrite fkey_log. cbn [first_some]. destruct (fkey f m k); reflexivity.
  - intros m k v. rewrite fval_log by exact NT. cbn [first_some]. destruct (fval f m k v); reflexivity.
  - intros m y. unfold mids_of. rewrite fmeas_log. split.
    + intros [mm [H Hy]]. destruct (fmeas f m) as [m0|] eqn:E; [|discriminate].
      inversion H; subst mm. exists f. split; [cbn; auto|]. exists m0. rewrite E. auto.
    + intros [g [[<- | []] [mm [H Hy]]]]. rewrite H. exists (conv_meas mm). auto.
  - intros m k v y. unfold vids_of. rewrite fval_log by exact NT. split.
    + intros H. exists f. cbn. auto.
    + intros [g [[<- | []] H]]. exact H.
  - intros y H. exists f. cbn. auto.
Qed.
