// C05 driver: the REAL tsm1.DefaultPlanner (tsdb/engine/tsm1/compact.go) driven through whole call
// histories PlanLevel / Plan / PlanOptimize / ForceFull / Release over a fake (structurally typed)
// fileStore.  One case = one history (file-store snapshots + every call with the groups the
// implementation returned and InUseCount() after it).  The Coq judge replays the history in the
// mirror model and checks the disjointness / contiguity oracle on the implementation's groups.
package main

import (
	"errors"
	"fmt"
	"sort"
	"strings"
	"time"

	"github.com/influxdata/influxdb/v2/tsdb"
	"github.com/influxdata/influxdb/v2/tsdb/engine/tsm1"
	"verifh/vh"
)

// ---------- case representation ----------

type jfile struct {
	Seq  int    `json:"seq"`
	Size uint32 `json:"size"`
	FBC  int    `json:"first_block_count"`
	Tomb bool   `json:"tombstone,omitempty"`
}
type jgen struct {
	ID    int     `json:"gen"`
	Files []jfile `json:"files"`
}
type jcall struct {
	Snap    int        `json:"snap"`
	Op      string     `json:"op"` // level | plan | optimize | forcefull | release
	Level   int        `json:"level,omitempty"`
	Past    bool       `json:"last_write_long_ago,omitempty"`         // lastWrite = now-24h (else now+24h)
	Recent  bool       `json:"filestore_modified_recently,omitempty"` // FileStore.LastModified() in the far future (else far past)
	Release [][]uint64 `json:"release,omitempty"`
	Diag    string     `json:"diagnosis,omitempty"` // driver-side explanation only (the verdict is the Coq judge's)
	Groups  [][]uint64 `json:"impl_groups"`
	InUse   int        `json:"impl_inuse_count"`
}
type jcase struct {
	DZero bool     `json:"write_cold_duration_zero,omitempty"` // compactFullWriteColdDuration = 0 (else 1h)
	Snaps [][]jgen `json:"snapshots"`
	Calls []jcall  `json:"calls"`
	Note  string   `json:"note,omitempty"`
}

func pid(gen, seq int) uint64 { return uint64(gen)*1000 + uint64(seq) }
func pname(id uint64) string {
	return fmt.Sprintf("/fake/%09d-%09d.%s", id/1000, id%1000, tsm1.TSMFileExtension)
}

// ---------- fake fileStore (the unexported interface of compact.go, structurally) ----------

type fakeFS struct {
	stats   []tsm1.ExtFileStat
	lastMod time.Time
	nextGen int
}

func (f *fakeFS) Stats() []tsm1.ExtFileStat { return f.stats }
func (f *fakeFS) LastModified() time.Time   { return f.lastMod }
func (f *fakeFS) ParseFileName(path string) (int, int, error) {
	return tsm1.DefaultParseFileName(path)
}
func (f *fakeFS) NextGeneration() int { f.nextGen++; return f.nextGen }
func (f *fakeFS) TSMReader(path string) (*tsm1.TSMReader, error) {
	return nil, errors.New("fake file store has no readers")
}
func (f *fakeFS) SupportsCompactionPlanning() bool { return true }

func statsOf(gens []jgen) []tsm1.ExtFileStat {
	var out []tsm1.ExtFileStat
	for _, g := range gens {
		for _, f := range g.Files {
			out = append(out, tsm1.ExtFileStat{
				FileStat: tsm1.FileStat{Path: pname(pid(g.ID, f.Seq)), HasTombstone: f.Tomb, Size: f.Size,
					Generation: g.ID, Sequence: f.Seq},
				FirstBlockCount: f.FBC,
			})
		}
	}
	return out
}

// ---------- running a history on the real planner ----------

type runner struct {
	c                      *jcase
	fs                     *fakeFS
	p                      *tsm1.DefaultPlanner
	names                  map[string]uint64
	held                   [][]uint64 // groups handed out and not released (driver-side tracking, for generation and shape tags)
	heldSet                map[uint64]bool
	ff                     bool // driver-side tracking of forceFull
	sig                    string
	failed                 string
	anyPlan, planWhileHeld bool
}

const coldDur = time.Hour

func newRunner(c *jcase) *runner {
	r := &runner{c: c, fs: &fakeFS{}, names: map[string]uint64{}, heldSet: map[uint64]bool{}}
	d := coldDur
	if c.DZero {
		d = 0
	}
	r.p = tsm1.NewDefaultPlanner(r.fs, d)
	for _, s := range c.Snaps {
		for _, g := range s {
			for _, f := range g.Files {
				id := pid(g.ID, f.Seq)
				r.names[pname(id)] = id
			}
		}
	}
	return r
}

func levelOf(g jgen) int {
	if g.Files[0].Seq < 4 {
		return g.Files[0].Seq
	}
	return 4
}
func sizeOf(g jgen) uint64 {
	var n uint64
	for _, f := range g.Files {
		n += uint64(f.Size)
	}
	return n
}
func tombOf(g jgen) bool {
	for _, f := range g.Files {
		if f.Tomb {
			return true
		}
	}
	return false
}
func (r *runner) genHeld(g jgen) bool {
	for _, f := range g.Files {
		if r.heldSet[pid(g.ID, f.Seq)] {
			return true
		}
	}
	return false
}

// fullNonContiguousShape: decided from the call's inputs and the planner state before the call
// (tracked by the driver): Plan() takes its full-compaction branch and the generations it keeps
// (not in use, not skipped as maxed-out) have a dropped generation strictly between two kept ones.
func (r *runner) fullNonContiguousShape(gens []jgen, k *jcall) bool {
	coldPlan := !r.c.DZero && k.Past
	if !(r.ff || (coldPlan && len(gens) > 1)) {
		return false
	}
	state := 0 // 0: no kept yet, 1: in kept run, 2: dropped after kept
	for i, g := range gens {
		dropped := r.genHeld(g)
		if !dropped {
			skip := len(gens) > 2 && sizeOf(g) > uint64(tsdb.MaxTSMFileSize) &&
				g.Files[0].FBC >= tsdb.DefaultMaxPointsPerBlock && !tombOf(g)
			if i < len(gens)-1 && levelOf(gens[i+1]) <= 3 {
				skip = false
			}
			dropped = skip
		}
		switch {
		case !dropped && state == 0:
			state = 1
		case dropped && state == 1:
			state = 2
		case !dropped && state == 2:
			return true
		}
	}
	return false
}

// diagnose explains (for replay files only) which part of the property a response breaks.
func (r *runner) diagnose(snap []jgen, groups [][]uint64) string {
	var out []string
	seen := map[uint64]bool{}
	for gi, g := range groups {
		in := map[uint64]bool{}
		for _, id := range g {
			if r.heldSet[id] {
				out = append(out, fmt.Sprintf("group %d hands out file %d which is still held by an earlier group", gi, id))
			}
			if seen[id] {
				out = append(out, fmt.Sprintf("file %d occurs twice in this response", id))
			}
			seen[id] = true
			in[id] = true
		}
		state := 0
		for _, gen := range snap {
			touched, whole := false, true
			for _, f := range gen.Files {
				if in[pid(gen.ID, f.Seq)] {
					touched = true
				} else {
					whole = false
				}
			}
			if touched && !whole {
				out = append(out, fmt.Sprintf("group %d contains only part of generation %d", gi, gen.ID))
			}
			switch {
			case touched && state == 0:
				state = 1
			case !touched && state == 1:
				state = 2
			case touched && state == 2:
				out = append(out, fmt.Sprintf("group %d is not contiguous: it skips a generation before generation %d", gi, gen.ID))
				state = 1
			}
		}
	}
	return strings.Join(out, "; ")
}

// do executes one call on the real planner and records the outputs in k.
func (r *runner) do(k *jcall) {
	if k.Snap < 0 || k.Snap >= len(r.c.Snaps) {
		r.failed = "bad snapshot index"
		return
	}
	snap := r.c.Snaps[k.Snap]
	r.fs.stats = statsOf(snap)
	if k.Recent {
		r.fs.lastMod = time.Now().Add(1000 * time.Hour)
	} else {
		r.fs.lastMod = time.Unix(1000, 0)
	}
	lastWrite := time.Now().Add(24 * time.Hour)
	if k.Past {
		lastWrite = time.Now().Add(-24 * time.Hour)
	}
	var groups []tsm1.CompactionGroup
	isPlan := false
	if k.Op == "plan" && r.fullNonContiguousShape(snap, k) {
		r.sig = "plan-full-noncontiguous"
	}
	pan := vh.Guard(func() {
		gens := r.p.FindGenerations()
		switch k.Op {
		case "level":
			groups, _ = r.p.PlanLevel(gens, k.Level)
			isPlan = true
		case "plan":
			groups, _ = r.p.Plan(gens, lastWrite)
			isPlan = true
			r.ff = false
		case "optimize":
			groups, _, _ = r.p.PlanOptimize(gens, lastWrite)
			isPlan = true
		case "forcefull":
			r.p.ForceFull()
			r.ff = true
		case "release":
			var rel []tsm1.CompactionGroup
			for _, g := range k.Release {
				var cg tsm1.CompactionGroup
				for _, id := range g {
					cg = append(cg, pname(id))
				}
				rel = append(rel, cg)
			}
			r.p.Release(rel)
		default:
			panic("unknown op " + k.Op)
		}
		k.InUse = r.p.InUseCount()
	})
	if pan != "" {
		r.failed = "panic in " + k.Op + ": " + pan
		return
	}
	k.Groups = [][]uint64{}
	for _, g := range groups {
		ids := []uint64{}
		for _, p := range g {
			id, ok := r.names[p]
			if !ok {
				r.failed = "planner returned a path that is not in the file store: " + p
				return
			}
			ids = append(ids, id)
		}
		k.Groups = append(k.Groups, ids)
	}
	// driver-side tracking
	if isPlan {
		k.Diag = r.diagnose(snap, k.Groups)
		r.anyPlan = r.anyPlan || len(k.Groups) > 0
		if len(r.heldSet) > 0 && len(k.Groups) > 0 {
			r.planWhileHeld = true
		}
		for _, g := range k.Groups {
			r.held = append(r.held, g)
			for _, id := range g {
				r.heldSet[id] = true
			}
		}
	}
	if k.Op == "release" {
		for _, g := range k.Release {
			for _, id := range g {
				delete(r.heldSet, id)
			}
		}
		var keep [][]uint64
		for _, g := range r.held {
			all := true
			for _, id := range g {
				if !r.heldSet[id] {
					all = false
				}
			}
			if all {
				keep = append(keep, g)
			}
		}
		r.held = keep
	}
}

// ---------- Gallina rendering ----------

func nsList(v []uint64) string {
	xs := make([]string, len(v))
	for i, x := range v {
		xs[i] = fmt.Sprint(x)
	}
	return "[" + strings.Join(xs, ";") + "]"
}
func groupsTerm(gs [][]uint64) string {
	xs := make([]string, len(gs))
	for i, g := range gs {
		xs[i] = nsList(g)
	}
	return "[" + strings.Join(xs, ";") + "]"
}
func caseTerm(c *jcase) string {
	var b strings.Builder
	b.WriteString("mkC [")
	for si, s := range c.Snaps {
		if si > 0 {
			b.WriteString(";")
		}
		b.WriteString("[")
		for gi, g := range s {
			if gi > 0 {
				b.WriteString(";")
			}
			fmt.Fprintf(&b, "mkG %d [", g.ID)
			for fi, f := range g.Files {
				if fi > 0 {
					b.WriteString(";")
				}
				fmt.Fprintf(&b, "mkF %d %d %d %d %s", pid(g.ID, f.Seq), f.Seq, f.Size, f.FBC, vh.Bool(f.Tomb))
			}
			b.WriteString("]")
		}
		b.WriteString("]")
	}
	b.WriteString("] [")
	for ki, k := range c.Calls {
		if ki > 0 {
			b.WriteString(";")
		}
		var op string
		switch k.Op {
		case "level":
			op = fmt.Sprintf("(OPlanLevel %d)", k.Level)
		case "plan":
			op = fmt.Sprintf("(OPlan %s %s)", vh.Bool(!c.DZero && k.Past), vh.Bool(k.Recent))
		case "optimize":
			op = fmt.Sprintf("(OOptimize %s)", vh.Bool(k.Past))
		case "forcefull":
			op = "OForceFull"
		case "release":
			op = "(ORelease " + groupsTerm(k.Release) + ")"
		}
		fmt.Fprintf(&b, "mkK %d%%nat %s %s %d", k.Snap, op, groupsTerm(k.Groups), k.InUse)
	}
	b.WriteString("]")
	return b.String()
}

func finishCase(w *vh.W, r *runner) {
	c := r.c
	idx := w.Add(caseTerm(c), c, r.anyPlan && r.planWhileHeld, r.sig)
	if r.failed != "" {
		w.Fail(idx, r.failed, "")
	}
	w.Count("snapshots", fmt.Sprint(len(c.Snaps)))
	w.Count("generations(first snapshot)", fmt.Sprint(len(c.Snaps[0])))
	w.Count("calls", fmt.Sprint(len(c.Calls)))
	for _, k := range c.Calls {
		key := k.Op
		if k.Op == "level" {
			key = fmt.Sprintf("level%d", k.Level)
		}
		res := "empty"
		if len(k.Groups) > 0 {
			res = fmt.Sprintf("%dgroups", min(len(k.Groups), 3))
		}
		if k.Op == "forcefull" || k.Op == "release" {
			res = "-"
		}
		w.Count("op/result", key+"/"+res)
	}
	if r.sig != "" {
		w.Count("shape", r.sig)
	} else {
		w.Count("shape", "plain")
	}
}

// replay of a recorded (or hand-written) history
func runFixed(w *vh.W, c *jcase) {
	r := newRunner(c)
	for i := range c.Calls {
		r.do(&c.Calls[i])
		if r.failed != "" {
			break
		}
	}
	finishCase(w, r)
}

// ---------- generators ----------

var sizesSmall = []uint32{1 << 20, 10 << 20, 50 << 20, 100 << 20, 400 << 20}
var sizesEdge = []uint32{1 << 30, 1<<31 - 1, 1 << 31, 1<<31 + 1, 3 << 30, 1<<32 - 1, 1100 << 20, 600 << 20}
var fbcs = []int{0, 1, 500, 999, 1000, 1001, 9999, 10000, 10001, 100000}

func genSnapshot(w *vh.W) []jgen {
	r := w.Rng
	n := 1 + r.IntN(12)
	if r.IntN(3) == 0 {
		n = 8 + r.IntN(5)
	} else if r.IntN(6) == 0 {
		n = 1 + r.IntN(3)
	}
	var gens []jgen
	id := 1 + r.IntN(3)
	realistic := r.IntN(2) == 0
	lvl := 4 + r.IntN(3) // first sequence of the current run
	bigBias := r.IntN(3) == 0
	for len(gens) < n {
		run := 1 + r.IntN(9)
		if realistic {
			switch {
			case lvl >= 4:
				run = 1 + r.IntN(5)
			case lvl >= 2:
				run = 2 + r.IntN(5)
			default:
				run = 3 + r.IntN(8)
			}
		}
		if !realistic {
			lvl = 1 + r.IntN(6)
			if r.IntN(3) == 0 {
				run = 1
			}
		}
		for j := 0; j < run && len(gens) < n; j++ {
			g := jgen{ID: id}
			id += 1 + r.IntN(5)/4
			nf := 1
			if r.IntN(5) == 0 {
				nf = 2 + r.IntN(2)
			}
			for f := 0; f < nf; f++ {
				var sz uint32
				if r.IntN(10) < 6 && !(bigBias && lvl >= 4) {
					sz = sizesSmall[r.IntN(len(sizesSmall))]
				} else {
					sz = sizesEdge[r.IntN(len(sizesEdge))]
				}
				if nf > 1 && f < nf-1 && r.IntN(2) == 0 {
					sz = 1 << 31
				}
				fb := fbcs[r.IntN(len(fbcs))]
				if lvl >= 4 && r.IntN(2) == 0 {
					fb = 1000
				}
				g.Files = append(g.Files, jfile{Seq: lvl + f, Size: sz, FBC: fb, Tomb: r.IntN(12) == 0})
			}
			if nf > 1 && r.IntN(8) == 0 { // unusual Stats() order inside a generation
				g.Files[0], g.Files[nf-1] = g.Files[nf-1], g.Files[0]
			}
			gens = append(gens, g)
		}
		if realistic {
			if lvl > 1 && r.IntN(4) != 0 {
				lvl--
			} else if r.IntN(6) == 0 {
				lvl = 1 + r.IntN(5) // nested odd level
			}
		}
	}
	return gens
}

// completeCompaction: a new snapshot in which the files of group are replaced by its output
// (highest generation of the group, next sequence), as the engine does before releasing the group.
func completeCompaction(w *vh.W, snap []jgen, group []uint64) []jgen {
	r := w.Rng
	in := map[uint64]bool{}
	for _, id := range group {
		in[id] = true
	}
	maxGen, maxSeq := -1, 0
	var total uint64
	var out []jgen
	for _, g := range snap {
		ng := jgen{ID: g.ID}
		for _, f := range g.Files {
			if in[pid(g.ID, f.Seq)] {
				if g.ID > maxGen {
					maxGen, maxSeq = g.ID, f.Seq
				} else if g.ID == maxGen && f.Seq > maxSeq {
					maxSeq = f.Seq
				}
				total += uint64(f.Size)
			} else {
				ng.Files = append(ng.Files, f)
			}
		}
		if len(ng.Files) > 0 {
			out = append(out, ng)
		}
	}
	if maxGen < 0 {
		return snap
	}
	res := jgen{ID: maxGen}
	seq := maxSeq + 1
	fb := []int{1000, 1000, 10000, 800}[r.IntN(4)]
	for total > 0 && len(res.Files) < 3 && seq < 999 {
		sz := total
		if sz > 1<<31 {
			sz = 1 << 31
		}
		res.Files = append(res.Files, jfile{Seq: seq, Size: uint32(sz), FBC: fb})
		total -= sz
		seq++
	}
	// merge with what is left of that generation (normally nothing), keep id order
	merged := false
	for i := range out {
		if out[i].ID == maxGen {
			out[i].Files = append(out[i].Files, res.Files...)
			merged = true
		}
	}
	if !merged {
		out = append(out, res)
		sort.SliceStable(out, func(i, j int) bool { return out[i].ID < out[j].ID })
	}
	return out
}

func snapPaths(s []jgen) []uint64 {
	var out []uint64
	for _, g := range s {
		for _, f := range g.Files {
			out = append(out, pid(g.ID, f.Seq))
		}
	}
	return out
}

func genHistory(w *vh.W) {
	rg := w.Rng
	c := &jcase{DZero: rg.IntN(8) == 0, Snaps: [][]jgen{genSnapshot(w)}}
	r := newRunner(c)
	cur := 0
	ncalls := 3 + rg.IntN(12)
	evolve := rg.IntN(3) == 0
	if rg.IntN(3) == 0 { // one engine round: planCompactionsInner calls level 1,2,3, Plan, PlanOptimize in this order
		past := rg.IntN(4) == 0
		for _, k := range []jcall{{Op: "level", Level: 1}, {Op: "level", Level: 2}, {Op: "level", Level: 3},
			{Op: "plan", Past: past, Recent: true}, {Op: "optimize", Past: past}} {
			k := k
			r.do(&k)
			c.Calls = append(c.Calls, k)
		}
		ncalls += 3
	}
	for len(c.Calls) < ncalls && r.failed == "" {
		k := jcall{Snap: cur}
		x := rg.IntN(100)
		switch {
		case x < 40:
			k.Op = "level"
			k.Level = 1 + rg.IntN(3)
			if rg.IntN(3) != 0 { // a level that is present among the generations not held
				s := c.Snaps[cur]
				for try := 0; try < 4; try++ {
					g := s[rg.IntN(len(s))]
					if !r.genHeld(g) && levelOf(g) >= 1 && levelOf(g) <= 3 {
						k.Level = levelOf(g)
						break
					}
				}
			}
			if rg.IntN(12) == 0 {
				k.Level = []int{0, 4, 5}[rg.IntN(3)]
			}
		case x < 62:
			k.Op = "plan"
			k.Past = rg.IntN(5) == 0
			k.Recent = rg.IntN(3) != 0
		case x < 74:
			k.Op = "optimize"
			k.Past = rg.IntN(2) == 0
		case x < 77:
			k.Op = "forcefull"
		case x < 94 || !evolve:
			k.Op = "release"
			y := rg.IntN(20)
			switch {
			case len(r.held) == 0 || y == 0: // files that are not held
				ps := snapPaths(c.Snaps[cur])
				k.Release = [][]uint64{{ps[rg.IntN(len(ps))]}}
			case y < 14: // one whole group, as the engine does
				k.Release = [][]uint64{r.held[rg.IntN(len(r.held))]}
			case y < 17: // everything
				k.Release = append([][]uint64{}, r.held...)
			default: // part of a group
				g := r.held[rg.IntN(len(r.held))]
				k.Release = [][]uint64{g[:1+rg.IntN(len(g))]}
			}
		default: // the file store changes: a held group's compaction completes, or a new snapshot file appears
			var ns []jgen
			if len(r.held) > 0 && rg.IntN(4) != 0 {
				ns = completeCompaction(w, c.Snaps[cur], r.held[rg.IntN(len(r.held))])
			} else {
				s := c.Snaps[cur]
				ns = append(append([]jgen{}, s...), jgen{ID: s[len(s)-1].ID + 1, Files: []jfile{{Seq: 1, Size: 10 << 20, FBC: 1000}}})
			}
			if len(c.Snaps) < 4 && len(ns) > 0 {
				c.Snaps = append(c.Snaps, ns)
				cur = len(c.Snaps) - 1
				for _, g := range ns {
					for _, f := range g.Files {
						r.names[pname(pid(g.ID, f.Seq))] = pid(g.ID, f.Seq)
					}
				}
			}
			continue
		}
		r.do(&k)
		c.Calls = append(c.Calls, k)
	}
	finishCase(w, r)
}

func mk(id, seq int, size uint32, fbc int) jgen {
	return jgen{ID: id, Files: []jfile{{Seq: seq, Size: size, FBC: fbc}}}
}

func handPicked(w *vh.W) {
	small := uint32(10 << 20)
	// 1. the full plan skipping an in-use middle generation (finding shape)
	eight := []jgen{}
	for i := 1; i <= 8; i++ {
		eight = append(eight, mk(i, 1, small, 1000))
	}
	runFixed(w, &jcase{Note: "force-full while a level-2 compaction holds the middle generations",
		Snaps: [][]jgen{{mk(1, 4, small, 1000), mk(2, 2, small, 1000), mk(3, 2, small, 1000), mk(4, 2, small, 1000), mk(5, 2, small, 1000), mk(6, 4, small, 1000), mk(7, 4, small, 1000)}},
		Calls: []jcall{{Op: "level", Level: 2}, {Op: "forcefull"}, {Op: "level", Level: 2}, {Op: "plan", Recent: true}}})
	// 2. the full plan skipping a maxed-out middle generation (cold shard, nothing in use)
	runFixed(w, &jcase{Note: "cold full plan skips a maxed-out generation between two small ones",
		Snaps: [][]jgen{{mk(1, 4, small, 1000), mk(2, 5, 1<<31+1, 1000), mk(3, 4, small, 1000), mk(4, 4, small, 1000)}},
		Calls: []jcall{{Op: "plan", Past: true, Recent: true}, {Op: "plan", Past: true, Recent: true}}})
	// 3. level 1 chunking: 8 + remainder, release, re-plan
	l1 := append(append([]jgen{}, eight...), mk(9, 1, small, 1000), mk(10, 1, small, 1000))
	runFixed(w, &jcase{Note: "level-1 chunk of 8 and a remainder of 2",
		Snaps: [][]jgen{l1},
		Calls: []jcall{{Op: "level", Level: 1}, {Op: "level", Level: 1}, {Op: "release", Release: [][]uint64{{1001, 2001, 3001, 4001, 5001, 6001, 7001, 8001}}}, {Op: "level", Level: 1}}})
	// 4. level-4 plan with lastPlanCheck / LastModified gating and optimize
	l4 := []jgen{}
	for i := 1; i <= 9; i++ {
		l4 = append(l4, mk(i, 4, small, 1000))
	}
	runFixed(w, &jcase{Note: "level-4 plan, unchanged-filestore gate, optimize",
		Snaps: [][]jgen{l4},
		Calls: []jcall{{Op: "plan", Recent: true}, {Op: "plan", Recent: false}, {Op: "optimize", Past: true}, {Op: "release", Release: [][]uint64{{1004, 2004, 3004, 4004}}}, {Op: "plan", Recent: false}, {Op: "plan", Recent: true}}})
	// 5. single generation with several small files: optimize only
	runFixed(w, &jcase{Note: "single generation, many files under max size",
		Snaps: [][]jgen{{{ID: 3, Files: []jfile{{Seq: 4, Size: small, FBC: 1000}, {Seq: 5, Size: small, FBC: 100000}, {Seq: 6, Size: small, FBC: 1000}}}}},
		Calls: []jcall{{Op: "level", Level: 1}, {Op: "plan", Recent: true}, {Op: "optimize", Past: true}, {Op: "optimize", Past: true}}})
}

func main() {
	w := vh.New("C05", "From Verif Require Import Base.Prelude Model.C05.\nOpen Scope N_scope.\nSet Printing Width 1000000." /* one-line R: ./check parses (idx, code) pairs with a regex that does not span line breaks */, "case", "check")
	w.Rule = "one case = one planner call history on tsm1.NewDefaultPlanner over a fake fileStore: 1-12 generations (levels from first-file sequence 1..6 in runs, sizes around MaxTSMFileSize=2GiB, FirstBlockCount around 1000/10000, tombstones, multi-file generations), 3-14 calls drawn from PlanLevel(1..3, rarely 0/4/5) / Plan(cold?, filestore modified?) / PlanOptimize(cold?) / ForceFull / Release(whole held group | all | part of a group | files not held), one third of the histories also change the file store (a held group's compaction completes, or a new level-1 file appears; up to 4 snapshots). 5 hand-picked histories first. Non-trivial: some planning call returned groups while files were already held. Distinct: distinct Gallina terms (inputs + observed outputs). Shape tag plan-full-noncontiguous: decided before the call from the inputs and the driver-tracked planner state (Plan() takes its full branch and a dropped generation lies strictly between two kept ones)."
	var rc jcase
	if w.ReplayCase(&rc) {
		runFixed(w, &rc)
		w.Finish()
		return
	}
	handPicked(w)
	for w.Len() < w.N {
		genHistory(w)
	}
	w.Finish()
}
