(** C41 — Flux window-aggregate tables have the right windows and values.

    Mirror of /repo/storage/flux/reader.go [windowAggregateIterator.handleRead] (choice of the
    table implementation) and of table.gen.go [*WindowTable] (createNextBufferTimes, nextAt,
    isInWindow, mergeValues, advance), [*WindowSelectorTable] (startTimes/stopTimes),
    [*EmptyWindowSelectorTable] (startStopTimes, advance), followed by window.go
    [splitWindows] when there is no time column — on top of the C20 model of the storage
    window cursors, which produce the arrays these tables read.

    A row is what a consumer of the flux tables sees: (_start, _stop, _time?, _value|null).
    No proofs in this file. *)
From Coq Require Import Floats.SpecFloat.
From Verif Require Import Base.Prelude Model.C20.
Open Scope Z_scope.

Inductive tcol := TNone | TStart | TStop.    (* spec.TimeColumn: "", "_start", "_stop" *)
Record row := R { r_start : Z; r_stop : Z; r_time : option Z; r_val : option val }.

Definition is_sel (k : aggk) : bool := match k with Min | Max | First | Last => true | _ => false end.

Section Table.
Variables (bs be : Z).          (* query bounds [bs, be) *)
Variables (every off : Z).      (* window every (= period) and offset, nanoseconds *)
Variable tc : tcol.

Definition wstart (t : Z) : Z := ns_start every off t.          (* GetLatestBounds(t).Start() *)
Definition clip_start (s : Z) : Z := if s <? bs then bs else s.
Definition clip_stop (e : Z) : Z := if be <? e then be else e.

(** the row for the window starting at [s] *)
Definition mk_row (s : Z) (tm : option Z) (v : option val) : row :=
  match tc with
  | TNone => R (clip_start s) (clip_stop (s + every)) tm v
  | TStart => R bs be (Some (clip_start s)) v
  | TStop => R bs be (Some (clip_stop (s + every))) v
  end.

(* ---------------- *WindowTable ---------------- *)
(** [isInWindow(stop, ts)]: the window is the one containing [stop - 1]. *)
Definition is_in_window (is_agg : bool) (stop ts : Z) : bool :=
  let s := wstart (stop - 1) in
  if is_agg then (s <? ts) && (ts <=? s + every) else (s <=? ts) && (ts <? s + every).

Definition fill (fillv : option val) (v : option val) : option val :=
  match v with Some _ => v | None => fillv end.

(** createEmpty: ONE buffer with every window from GetLatestBounds(bounds.Start) while the
    clipped start is below bounds.Stop; [nextAt] walks the cursor output. *)
Fixpoint wt_ce (fuel : nat) (is_agg : bool) (fillv : option val) (s : Z) (pts : list (Z * val)) : list row :=
  match fuel with
  | O => []
  | S f =>
      if be <=? clip_start s then []
      else
        let stop := clip_stop (s + every) in
        match pts with
        | p :: pts' =>
            if is_in_window is_agg stop (fst p)
            then mk_row s None (Some (snd p)) :: wt_ce f is_agg fillv (s + every) pts'
            else mk_row s None (fill fillv None) :: wt_ce f is_agg fillv (s + every) pts
        | [] => mk_row s None (fill fillv None) :: wt_ce f is_agg fillv (s + every) []
        end
  end.

(** not createEmpty: one buffer per cursor array; the windows come from the array's
    timestamps ([PrevBounds(GetLatestBounds(ts))] for an aggregate, [GetLatestBounds(ts)] for a
    selector), the values from [nextAt] over the SAME
    array.  Returns the rows and the number of values consumed. *)
Fixpoint wt_arr (is_agg : bool) (fillv : option val) (tss : list Z) (rest : list (Z * val)) : list row * nat :=
  match tss with
  | [] => ([], O)
  | ts :: tss' =>
      (* aggregate: [ts] is the stop of its window, i.e. the start of GetLatestBounds(ts), so the
         window is PrevBounds; selector (forced aggregate): [ts] is the point's time *)
      let s := if is_agg then wstart ts - every else wstart ts in
      let stop := clip_stop (s + every) in
      match rest with
      | p :: rest' =>
          if is_in_window is_agg stop (fst p)
          then let '(rs, n) := wt_arr is_agg fillv tss' rest' in (mk_row s None (Some (snd p)) :: rs, S n)
          else let '(rs, n) := wt_arr is_agg fillv tss' rest in (mk_row s None (fill fillv None) :: rs, n)
      | [] => let '(rs, n) := wt_arr is_agg fillv tss' [] in (mk_row s None (fill fillv None) :: rs, n)
      end
  end.

(** [None]: the array is not consumed completely, so [advance()] builds the same buffer
    again and again (the table never ends). *)
Fixpoint wt_nce (is_agg : bool) (fillv : option val) (arrs : list (list (Z * val))) : option (list row) :=
  match arrs with
  | [] => Some []
  | a :: arrs' =>
      let '(rs, n) := wt_arr is_agg fillv (map fst a) a in
      if Nat.eqb n (length a)
      then match wt_nce is_agg fillv arrs' with Some r => Some (rs ++ r) | None => None end
      else None
  end.

(* ---------------- *WindowSelectorTable ---------------- *)
Definition ws_rows (pts : list (Z * val)) : list row :=
  map (fun p => let s := wstart (fst p) in
                match tc with
                | TNone => R (clip_start s) (clip_stop (s + every)) (Some (fst p)) (Some (snd p))
                | _ => mk_row s None (Some (snd p))
                end) pts.

(* ---------------- *EmptyWindowSelectorTable (timeColumn = "") ---------------- *)
(** one [advance()]: up to [B] rows; returns rows, the next window start, remaining points *)
Fixpoint ews_block (fuel : nat) (n : N) (B : N) (s : Z) (pts : list (Z * val)) : list row * Z * list (Z * val) :=
  match fuel with
  | O => ([], s, pts)
  | S f =>
      if be <=? s then ([], s, pts)
      else
        let '(r, pts') :=
          match pts with
          | p :: pts' =>
              if (s <=? fst p) && (fst p <? s + every)
              then (R (clip_start s) (clip_stop (s + every)) (Some (fst p)) (Some (snd p)), pts')
              else (R (clip_start s) (clip_stop (s + every)) None None, pts)
          | [] => (R (clip_start s) (clip_stop (s + every)) None None, [])
          end in
        if (n + 1 =? B)%N then ([r], s + every, pts')
        else let '(rs, s', p') := ews_block f (n + 1)%N B (s + every) pts' in (r :: rs, s', p')
  end.

(** [advance()] until the window position reaches bounds.Stop (an exhausted cursor just gives
    null rows); a series without any point is an empty table ([flux_rows], [arrs = []]) *)
Fixpoint ews_rows (fuel : nat) (B : N) (s : Z) (pts : list (Z * val)) : list row :=
  match fuel with
  | O => []
  | S f =>
      if be <=? s then []
      else let '(rs, s', pts') := ews_block (N.to_nat B) 0%N B s pts in rs ++ ews_rows f B s' pts'
  end.

Definition nwin : Z := (be - wstart bs + every - 1) / every.
End Table.

(** handleRead: which table, on the arrays [arrs] the storage cursor returns. *)
Definition flux_rows (bs be every off : Z) (ce : bool) (tc : tcol) (k : aggk) (fa : bool)
           (arrs : list (list (Z * val))) : option (list row) :=
  let sel := is_sel k in
  match arrs with
  | [] => Some []                               (* table.Empty(): nothing is emitted *)
  | _ =>
      if negb sel || fa then
        let fillv := match k with Count => Some (VI 0) | _ => None end in
        if ce then Some (wt_ce bs be every off tc (Z.to_nat (nwin bs be every off) + 1) (negb sel) fillv
                           (wstart every off bs) (concat arrs))
        else wt_nce bs be every off tc (negb sel) fillv arrs
      else if ce && match tc with TNone => true | _ => false end then
        Some (ews_rows bs be every (Z.to_nat (nwin bs be every off) + 2) Bblock (wstart every off bs) (concat arrs))
      else Some (ws_rows bs be every off tc (concat arrs))
  end.

(* ------------------------------------------------------------------ *)
(** * The property as a specification: rows from the raw points *)
Definition in_range (bs be : Z) (p : Z * val) : bool := (bs <=? fst p) && (fst p <? be).

(** consecutive distinct window starts of the points *)
Fixpoint starts_of (every off : Z) (last : option Z) (pts : list (Z * val)) : list Z :=
  match pts with
  | [] => []
  | p :: r =>
      let s := ns_start every off (fst p) in
      match last with
      | Some s0 => if s0 =? s then starts_of every off last r else s :: starts_of every off (Some s) r
      | None => s :: starts_of every off (Some s) r
      end
  end.

Definition spec_rows (bs be every off : Z) (ce : bool) (tc : tcol) (t : ty) (k : aggk) (fa : bool)
           (all : list (Z * val)) : list row :=
  let pts := filter (in_range bs be) all in      (* what a filter read over the bounds returns *)
  match pts with
  | [] => []                                     (* a series without data produces no table *)
  | _ =>
      let sel := is_sel k in
      (* empty windows are produced for aggregates, for selectors that table.fill() forces to
         behave as aggregates, and for selectors without a time column *)
      let eff_ce := ce && (negb sel || fa || match tc with TNone => true | _ => false end) in
      let ws0 := ns_start every off bs in
      let starts := if eff_ce then map (fun i => ws0 + Z.of_nat i * every) (seq 0 (Z.to_nat (nwin bs be every off)))
                    else starts_of every off None pts in
      map (fun s =>
             let g := filter (fun p => (s <=? fst p) && (fst p <? s + every)) pts in
             let a := agg_spec t k (s + every) g in
             let v := match a with
                      | (_, v) :: _ => Some v
                      | [] => match k with Count => Some (VI 0) | _ => None end
                      end in
             let tm := match a with (tm, _) :: _ => Some tm | [] => None end in
             if sel && negb fa && match tc with TNone => true | _ => false end
             then R (clip_start bs s) (clip_stop be (s + every)) tm v
             else mk_row bs be every tc s None v)
          starts
  end.

(* ------------------------------------------------------------------ *)
(** * Correspondence case *)
Definition optZ_eqb := option_eqb Z.eqb.
Definition row_eqb (a b : row) : bool :=
  Z.eqb (r_start a) (r_start b) && Z.eqb (r_stop a) (r_stop b)
  && optZ_eqb (r_time a) (r_time b) && option_eqb val_eqb (r_val a) (r_val b).

Record case := {
  c_ty : ty; c_k : aggk;
  c_bs : Z; c_be : Z; c_every : Z; c_off : Z;
  c_ce : bool; c_tc : tcol; c_fa : bool;
  c_all : list (Z * val);                 (* every stored point of the series, ascending *)
  c_chunks : list (list (Z * val));       (* the arrays the mock cursor served for the request *)
  c_rows : option (list row)              (* rows of the flux tables; None = the table did not end *)
}.

Definition check (c : case) : verdict :=
  let st := ns_stop (c_every c) (c_off c) in
  let model :=
    match run_model st false Bblock (c_ty c) (c_k c) (c_chunks c) with
    | Some arrs => flux_rows (c_bs c) (c_be c) (c_every c) (c_off c) (c_ce c) (c_tc c) (c_k c) (c_fa c) arrs
    | None => None
    end in
  let same := option_eqb (list_eqb row_eqb) (c_rows c) model in
  let ok :=
    list_eqb pt_eqb (concat (c_chunks c)) (filter (in_range (c_bs c) (c_be c)) (c_all c))
    && match c_rows c with
       | Some rs => list_eqb row_eqb rs
                      (spec_rows (c_bs c) (c_be c) (c_every c) (c_off c) (c_ce c) (c_tc c) (c_ty c) (c_k c) (c_fa c) (c_all c))
       | None => false
       end in
  judge same ok.
