(** C37 — part 3: the finite-map view ([upsert]/[lookup]), [Merge] (both variants) and
    [Deduplicate]. *)
From Coq Require Import ZifyBool.
From Verif Require Import Base.Prelude Model.C37 Proofs.C37_search.
Local Open Scope Z_scope.

Section Proofs.
  Context {V : Type}.
  Notation arr := (arr V).
  Implicit Types (a b l acc : arr) (p q x y : Z * V).

  (** *** upsert *)
  Lemma upsert_above p acc : Forall (fun q => tm q < tm p) acc -> upsert p acc = acc ++ [p].
  Proof.
    induction 1 as [|q r Hq _ IH]; [reflexivity|]. cbn.
    replace (tm p <? tm q) with false by lia. replace (tm p =? tm q) with false by lia.
    rewrite IH. reflexivity.
  Qed.

  Lemma upsert_below p l : Forall (fun q => tm p < tm q) l -> upsert p l = p :: l.
  Proof.
    destruct 1 as [|q r Hq _]; [reflexivity|]. cbn. replace (tm p <? tm q) with true by lia. reflexivity.
  Qed.

  Lemma upsert_cons_gt p x l : tm x < tm p -> upsert p (x :: l) = x :: upsert p l.
  Proof.
    intro H. cbn. replace (tm p <? tm x) with false by lia. replace (tm p =? tm x) with false by lia.
    reflexivity.
  Qed.

  Lemma upsert_cons_eq p x l : tm p = tm x -> upsert p (x :: l) = p :: l.
  Proof.
    intro H. cbn. replace (tm p <? tm x) with false by lia. replace (tm p =? tm x) with true by lia.
    reflexivity.
  Qed.

  Lemma upsert_In p l q : In q (upsert p l) -> q = p \/ In q l.
  Proof.
    induction l as [|x r IH]; cbn.
    - intros [H|[]]; auto.
    - destruct (tm p <? tm x); [|destruct (tm p =? tm x)]; cbn; intros H.
      + destruct H as [H|[H|H]]; auto.
      + destruct H as [H|H]; auto.
      + destruct H as [H|H]; auto. apply IH in H as [H|H]; auto.
  Qed.

  Lemma ssorted_upsert p l : ssorted l -> ssorted (upsert p l).
  Proof.
    induction l as [|x r IH]; cbn [upsert]; [cbn; auto|]. intros [H1 H2].
    destruct (tm p <? tm x) eqn:E1; [|destruct (tm p =? tm x) eqn:E2].
    - cbn. repeat split; auto. constructor; [lia|].
      eapply Forall_impl; [|exact H1]. cbn; intros; lia.
    - cbn. split; auto. eapply Forall_impl; [|exact H1]. cbn; intros; lia.
    - cbn. split; [|auto]. apply Forall_forall. intros q Hq.
      apply upsert_In in Hq as [->|Hq]; [lia|]. rewrite Forall_forall in H1. auto.
  Qed.

  Lemma ssorted_union_rw b : forall a, ssorted a -> ssorted (union_rw a b).
  Proof.
    unfold union_rw. induction b as [|y b' IH]; cbn; auto. intros a H. apply IH, ssorted_upsert, H.
  Qed.

  Lemma union_rw_cons a y b : union_rw a (y :: b) = union_rw (upsert y a) b.
  Proof. reflexivity. Qed.

  (** a head below everything inserted stays the head *)
  Lemma union_rw_head x b : forall l,
    Forall (fun q => tm x < tm q) b -> union_rw (x :: l) b = x :: union_rw l b.
  Proof.
    induction b as [|y b' IH]; intros l H; [reflexivity|]. inversion H as [|? ? Hy Hb]; subst.
    rewrite !union_rw_cons, upsert_cons_gt by auto. apply IH; auto.
  Qed.

  Lemma union_rw_append b : forall acc, ssorted b ->
    (forall p q, In p acc -> In q b -> tm p < tm q) -> union_rw acc b = acc ++ b.
  Proof.
    induction b as [|y b' IH]; intros acc Hb Hlt; [cbn; rewrite app_nil_r; reflexivity|].
    destruct Hb as [H1 H2]. rewrite union_rw_cons, upsert_above.
    - rewrite IH; auto.
      + rewrite <- app_assoc. reflexivity.
      + intros p q Hp Hq. apply in_app_or in Hp as [Hp|[->|[]]].
        * apply Hlt; cbn; auto.
        * rewrite Forall_forall in H1. auto.
    - apply Forall_forall. intros q Hq. apply Hlt; cbn; auto.
  Qed.

  Lemma union_rw_prepend b : forall a, ssorted b ->
    (forall p q, In p b -> In q a -> tm p < tm q) -> union_rw a b = b ++ a.
  Proof.
    induction b as [|y b' IH]; intros a Hb Hlt; [reflexivity|].
    destruct Hb as [H1 H2]. rewrite union_rw_cons, upsert_below.
    - rewrite union_rw_head by auto. cbn. f_equal. apply IH; auto. intros; apply Hlt; cbn; auto.
    - apply Forall_forall. intros q Hq. apply Hlt; cbn; auto.
  Qed.

  Lemma union_rw_nil_l b : ssorted b -> union_rw [] b = b.
  Proof. intro H. rewrite union_rw_append; auto. intros p q []. Qed.

  (** *** lookup *)
  Lemma lookup_upsert t p l :
    lookup t (upsert p l) = if tm p =? t then Some (snd p) else lookup t l.
  Proof.
    induction l as [|x r IH]; cbn [upsert]; [reflexivity|].
    destruct (tm p <? tm x) eqn:E1; [|destruct (tm p =? tm x) eqn:E2]; cbn [lookup].
    - reflexivity.
    - destruct (tm p =? t) eqn:E3; [reflexivity|]. replace (tm x =? t) with false by lia. reflexivity.
    - rewrite IH. destruct (tm x =? t) eqn:E3; [|reflexivity].
      replace (tm p =? t) with false by lia. reflexivity.
  Qed.

  Lemma lookup_union_rw t b : forall a,
    lookup t (union_rw a b) =
    match lookup_last t b with Some v => Some v | None => lookup t a end.
  Proof.
    induction b as [|y b' IH]; intros a; [reflexivity|].
    rewrite union_rw_cons, IH, lookup_upsert. cbn [lookup_last].
    destruct (lookup_last t b'); [reflexivity|]. destruct (tm y =? t); reflexivity.
  Qed.

  Lemma lookup_none t l : Forall (fun q => tm q <> t) l -> lookup t l = None.
  Proof.
    induction 1 as [|q r Hq _ IH]; [reflexivity|]. cbn. replace (tm q =? t) with false by lia. exact IH.
  Qed.

  Lemma lookup_last_sorted t l : ssorted l -> lookup_last t l = lookup t l.
  Proof.
    induction l as [|p r IH]; [reflexivity|]. intros [H1 H2]. cbn. rewrite IH by auto.
    destruct (tm p =? t) eqn:E; [|destruct (lookup t r); reflexivity].
    rewrite lookup_none; [reflexivity|]. eapply Forall_impl; [|exact H1]. cbn; intros; lia.
  Qed.

  Lemma lookup_In t v l : ssorted l -> (lookup t l = Some v <-> In (t, v) l).
  Proof.
    induction l as [|p r IH]; [cbn; split; [discriminate|tauto]|]. intros [H1 H2]. cbn.
    destruct (tm p =? t) eqn:E.
    - split.
      + intros [= <-]. left. destruct p; cbn in *. f_equal. unfold tm in E; cbn in E. lia.
      + intros [Hp|Hin]; [subst p; reflexivity|]. exfalso. rewrite Forall_forall in H1.
        specialize (H1 _ Hin). unfold tm in *; cbn in *. lia.
    - rewrite IH by auto. split; [auto|]. intros [Hp|Hin]; [|auto]. subst p. unfold tm in E; cbn in E. lia.
  Qed.

  Lemma lookup_None_iff t l : lookup t l = None <-> ~ In t (times l).
  Proof.
    induction l as [|p r IH]; [cbn; tauto|]. cbn. destruct (tm p =? t) eqn:E.
    - split; [discriminate|]. intros H. exfalso. apply H. left. unfold tm in E. lia.
    - rewrite IH. unfold times. split; [|tauto]. intros H [Hc|Hc]; [unfold tm in E; lia|auto].
  Qed.

  (** a strictly sorted array is determined by its lookup function *)
  Lemma ssorted_ext l1 : forall l2, ssorted l1 -> ssorted l2 ->
    (forall t, lookup t l1 = lookup t l2) -> l1 = l2.
  Proof.
    assert (Hnone : forall p (r : arr), Forall (fun q => tm p < tm q) r -> lookup (tm p) r = None).
    { intros p r H. apply lookup_none. eapply Forall_impl; [|exact H]. cbn; intros; lia. }
    induction l1 as [|p r1 IH]; intros [|q r2] H1 H2 Hext.
    - reflexivity.
    - specialize (Hext (tm q)). cbn in Hext. rewrite Z.eqb_refl in Hext. discriminate.
    - specialize (Hext (tm p)). cbn in Hext. rewrite Z.eqb_refl in Hext. discriminate.
    - destruct H1 as [F1 S1], H2 as [F2 S2].
      assert (Et : tm p = tm q).
      { pose proof (Hext (tm p)) as Ep. pose proof (Hext (tm q)) as Eq. cbn in Ep, Eq.
        rewrite Z.eqb_refl in Ep, Eq.
        destruct (Z.lt_trichotomy (tm p) (tm q)) as [Hlt|[|Hgt]]; auto; exfalso.
        - replace (tm q =? tm p) with false in Ep by lia. rewrite lookup_none in Ep; [discriminate|].
          eapply Forall_impl; [|exact F2]. cbn; intros; lia.
        - replace (tm p =? tm q) with false in Eq by lia. rewrite lookup_none in Eq; [discriminate|].
          eapply Forall_impl; [|exact F1]. cbn; intros; lia. }
      assert (Epq : p = q).
      { pose proof (Hext (tm p)) as Ep. cbn in Ep. rewrite Z.eqb_refl in Ep.
        replace (tm q =? tm p) with true in Ep by lia. destruct p, q; unfold tm in *; cbn in *. congruence. }
      subst q. f_equal. apply IH; auto. intro t. specialize (Hext t). cbn in Hext.
      destruct (tm p =? t) eqn:E; [|exact Hext].
      replace t with (tm p) by lia. rewrite !Hnone; auto.
  Qed.

  (** *** the merge loops *)
  Lemma amerge_loop_spec a : forall b, ssorted a -> ssorted b -> amerge_loop a b = union_rw a b.
  Proof.
    induction a as [|x a' IHa]; intros b Ha Hb.
    - cbn [amerge_loop]. symmetry. apply union_rw_nil_l; auto.
    - destruct Ha as [Fa Sa]. induction b as [|y b' IHb]; [reflexivity|].
      destruct Hb as [Fb Sb]. cbn [amerge_loop].
      destruct (tm x <? tm y) eqn:E1; [|destruct (tm x =? tm y) eqn:E2].
      + rewrite IHa by (cbn; auto). symmetry. apply union_rw_head.
        constructor; [lia|]. eapply Forall_impl; [|exact Fb]. cbn; intros; lia.
      + rewrite IHa by auto. rewrite union_rw_cons, upsert_cons_eq by lia.
        symmetry. apply union_rw_head; auto.
      + change ((fix inner (b : C37.arr V) : C37.arr V :=
                   match b with
                   | [] => x :: a'
                   | y0 :: b'0 =>
                       if tm x <? tm y0 then x :: amerge_loop a' (y0 :: b'0)
                       else if tm x =? tm y0 then y0 :: amerge_loop a' b'0 else y0 :: inner b'0
                   end) b') with (amerge_loop (x :: a') b').
        rewrite IHb by auto. rewrite union_rw_cons, upsert_below.
        * symmetry. apply union_rw_head; auto.
        * constructor; [lia|]. eapply Forall_impl; [|exact Fa]. cbn; intros; lia.
  Qed.

  Lemma vmerge_loop_spec a : forall b, ssorted a -> ssorted b -> vmerge_loop a b = union_rw a b.
  Proof.
    induction a as [|x a' IHa]; intros b Ha Hb.
    - cbn [vmerge_loop]. symmetry. apply union_rw_nil_l; auto.
    - destruct Ha as [Fa Sa]. induction b as [|y b' IHb]; [reflexivity|].
      destruct Hb as [Fb Sb]. cbn [vmerge_loop].
      destruct (tm x <? tm y) eqn:E1; [|destruct (tm x =? tm y) eqn:E2].
      + rewrite IHa by (cbn; auto). symmetry. apply union_rw_head.
        constructor; [lia|]. eapply Forall_impl; [|exact Fb]. cbn; intros; lia.
      + rewrite IHa by (cbn; auto). rewrite !union_rw_cons, upsert_cons_eq by lia.
        rewrite upsert_below; [reflexivity|]. eapply Forall_impl; [|exact Fa]. cbn; intros; lia.
      + change ((fix inner (b : C37.arr V) : C37.arr V :=
                   match b with
                   | [] => x :: a'
                   | y0 :: b'0 =>
                       if tm x <? tm y0 then x :: vmerge_loop a' (y0 :: b'0)
                       else if tm x =? tm y0 then vmerge_loop a' (y0 :: b'0) else y0 :: inner b'0
                   end) b') with (vmerge_loop (x :: a') b').
        rewrite IHb by auto. rewrite union_rw_cons, upsert_below.
        * symmetry. apply union_rw_head; auto.
        * constructor; [lia|]. eapply Forall_impl; [|exact Fa]. cbn; intros; lia.
  Qed.

  (** the two fast paths ([append]) and the loop, as one statement *)
  Lemma merge_paths (loop : arr -> arr -> arr) a b :
    ssorted a -> ssorted b -> loop a b = union_rw a b ->
    (if Nat.eqb (length a) 0 then b
     else if Nat.eqb (length b) 0 then a
     else if max_time a <? min_time b then a ++ b
     else if max_time b <? min_time a then b ++ a
     else loop a b) = union_rw a b.
  Proof.
    intros Ha Hb Hloop.
    destruct a as [|x a'] eqn:Ea; [cbn; symmetry; apply union_rw_nil_l; auto|].
    destruct b as [|y b'] eqn:Eb; [reflexivity|].
    rewrite <- Ea, <- Eb in *.
    replace (Nat.eqb (length a) 0) with false by (rewrite Ea; reflexivity).
    replace (Nat.eqb (length b) 0) with false by (rewrite Eb; reflexivity).
    pose proof (ssorted_wsorted a Ha) as Wa. pose proof (ssorted_wsorted b Hb) as Wb.
    pose proof (max_time_ge a Wa) as MaxA. pose proof (min_time_le a Wa) as MinA.
    pose proof (max_time_ge b Wb) as MaxB. pose proof (min_time_le b Wb) as MinB.
    rewrite Forall_forall in MaxA, MinA, MaxB, MinB.
    destruct (max_time a <? min_time b) eqn:E1.
    - symmetry. apply union_rw_append; auto. intros p q Hp Hq.
      specialize (MaxA p Hp). specialize (MinB q Hq). cbn beta in *. lia.
    - destruct (max_time b <? min_time a) eqn:E2; [|exact Hloop].
      symmetry. apply union_rw_prepend; auto. intros p q Hp Hq.
      specialize (MaxB p Hp). specialize (MinA q Hq). cbn beta in *. lia.
  Qed.

  (** ** [cursors.*Array.Merge] *)
  Lemma arr_merge_union a b : ssorted a -> ssorted b -> arr_merge a b = union_rw a b.
  Proof. intros Ha Hb. unfold arr_merge. apply merge_paths; auto. apply amerge_loop_spec; auto. Qed.

  (** *** Deduplicate *)
  Lemma need_sort_from_spec l : forall prev, need_sort_from prev l = negb (ssorted_from_b prev l).
  Proof.
    induction l as [|p r IH]; intros prev; [reflexivity|]. cbn. rewrite IH.
    destruct (prev >=? tm p) eqn:E1; destruct (prev <? tm p) eqn:E2; try lia; reflexivity.
  Qed.

  Lemma need_sort_spec l : need_sort l = negb (ssorted_b l).
  Proof. destruct l; [reflexivity|]. apply need_sort_from_spec. Qed.

  Lemma compact_hd (r : arr) : forall cur : Z * V, exists h t, compact cur r = h :: t /\ tm h = tm cur.
  Proof.
    induction r as [|v r IH]; intros cur; cbn.
    - eauto.
    - destruct (tm v =? tm cur) eqn:E; [|eauto].
      destruct (IH v) as [h [t [H1 H2]]]. exists h, t. split; auto. lia.
  Qed.

  Lemma wsorted_ins p l : wsorted l -> wsorted (ins_stable p l).
  Proof.
    induction l as [|q r IH]; [cbn; auto|]. intros [H1 H2]. cbn [ins_stable].
    destruct (tm p <? tm q) eqn:E.
    - cbn. repeat split; auto. constructor; [lia|]. eapply Forall_impl; [|exact H1]. cbn; intros; lia.
    - cbn. split; [|auto]. clear IH H2. induction r as [|z r IHr]; cbn.
      + constructor; [lia|auto].
      + inversion H1; subst. destruct (tm p <? tm z); repeat constructor; auto; lia.
  Qed.

  Lemma compact_ins p (r : arr) : forall q, wsorted (q :: r) -> tm q <= tm p ->
    compact q (ins_stable p r) = upsert p (compact q r).
  Proof.
    induction r as [|q2 r2 IH]; intros q Hs Hle.
    - cbn. replace (tm p <? tm q) with false by lia. destruct (tm p =? tm q); reflexivity.
    - destruct Hs as [F1 [F2 S2]]. inversion F1 as [|? ? Hq2 F1']; subst.
      cbn [ins_stable]. destruct (tm p <? tm q2) eqn:E1.
      + cbn [compact]. replace (tm q2 =? tm p) with false by lia.
        replace (tm q2 =? tm q) with false by lia.
        destruct (compact_hd r2 q2) as [h [t [Hc Hh]]]. rewrite Hc.
        destruct (tm p =? tm q) eqn:E2.
        * rewrite upsert_cons_eq by lia. reflexivity.
        * rewrite upsert_cons_gt by lia. cbn. replace (tm p <? tm h) with true by lia. reflexivity.
      + cbn [compact]. rewrite IH by (cbn; auto; lia).
        destruct (tm q2 =? tm q) eqn:E2; [reflexivity|].
        rewrite upsert_cons_gt by lia. reflexivity.
  Qed.

  Lemma compact_list_ins p acc : wsorted acc ->
    compact_list (ins_stable p acc) = upsert p (compact_list acc).
  Proof.
    destruct acc as [|q r]; [reflexivity|]. intros Hs. cbn [ins_stable compact_list].
    destruct (tm p <? tm q) eqn:E.
    - cbn [compact_list compact]. replace (tm q =? tm p) with false by lia.
      destruct (compact_hd r q) as [h [t [Hc Hh]]]. rewrite Hc. cbn.
      replace (tm p <? tm h) with true by lia. reflexivity.
    - cbn [compact_list]. apply compact_ins; auto. lia.
  Qed.

  Lemma compact_sort_fold l : forall acc, wsorted acc ->
    compact_list (fold_left (fun acc p => ins_stable p acc) l acc)
    = fold_left (fun acc p => upsert p acc) l (compact_list acc).
  Proof.
    induction l as [|p r IH]; intros acc Hs; [reflexivity|]. cbn [fold_left].
    rewrite IH by (apply wsorted_ins; auto). rewrite compact_list_ins by auto. reflexivity.
  Qed.

  (** ** [Deduplicate], for ARBITRARY input: sorted by time, the last occurrence wins. *)
  Lemma dedup_last_wins l : vals_dedup l = last_wins_sorted l.
  Proof.
    unfold vals_dedup, last_wins_sorted.
    destruct (length l <=? 1)%nat eqn:E.
    - destruct l as [|p [|q r]]; try reflexivity. cbn in E. discriminate.
    - rewrite need_sort_spec. destruct (ssorted_b l) eqn:Es; cbn [negb].
      + symmetry. apply union_rw_nil_l. apply ssorted_b_spec; auto.
      + unfold stable_sort. rewrite compact_sort_fold by (cbn; auto). reflexivity.
  Qed.

  Lemma dedup_sorted_id l : ssorted l -> vals_dedup l = l.
  Proof. intro H. rewrite dedup_last_wins. apply union_rw_nil_l; auto. Qed.

  (** ** [tsm1 Values.Merge] *)
  Lemma vals_merge_union a b : ssorted a -> ssorted b -> vals_merge a b = union_rw a b.
  Proof.
    intros Ha Hb. unfold vals_merge. rewrite !dedup_sorted_id by auto.
    apply (merge_paths vmerge_loop); auto. apply vmerge_loop_spec; auto.
  Qed.

  (** on arbitrary input: what the code does *)
  Lemma vals_merge_general a b : vals_merge a b = vals_merge_spec_f a b.
  Proof.
    unfold vals_merge, vals_merge_spec_f.
    destruct a as [|x a'] eqn:Ea; [reflexivity|]. destruct b as [|y b'] eqn:Eb; [reflexivity|].
    rewrite <- Ea, <- Eb. replace (Nat.eqb (length a) 0) with false by (rewrite Ea; reflexivity).
    replace (Nat.eqb (length b) 0) with false by (rewrite Eb; reflexivity).
    rewrite !dedup_last_wins.
    assert (Sa : ssorted (last_wins_sorted a)) by (apply ssorted_union_rw; cbn; auto).
    assert (Sb : ssorted (last_wins_sorted b)) by (apply ssorted_union_rw; cbn; auto).
    assert (Na : Nat.eqb (length (last_wins_sorted a)) 0 = false).
    { rewrite Ea. unfold last_wins_sorted. rewrite union_rw_cons.
      destruct (union_rw (upsert x []) a') eqn:Eu; [|reflexivity].
      pose proof (lookup_union_rw (tm x) a' (upsert x [])) as Hl. rewrite Eu in Hl. cbn in Hl.
      rewrite Z.eqb_refl in Hl. destruct (lookup_last (tm x) a'); discriminate. }
    assert (Nb : Nat.eqb (length (last_wins_sorted b)) 0 = false).
    { rewrite Eb. unfold last_wins_sorted. rewrite union_rw_cons.
      destruct (union_rw (upsert y []) b') eqn:Eu; [|reflexivity].
      pose proof (lookup_union_rw (tm y) b' (upsert y [])) as Hl. rewrite Eu in Hl. cbn in Hl.
      rewrite Z.eqb_refl in Hl. destruct (lookup_last (tm y) b'); discriminate. }
    pose proof (merge_paths vmerge_loop _ _ Sa Sb (vmerge_loop_spec _ _ Sa Sb)) as Hm.
    rewrite Na, Nb in Hm. exact Hm.
  Qed.
End Proofs.
