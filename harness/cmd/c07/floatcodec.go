package main

import (
	"fmt"
	"math"
	"math/rand/v2"

	"github.com/influxdata/influxdb/v2/tsdb/engine/tsm1"
	"verifh/vh"
)

type fltCase struct {
	Bits                       []uint64               `json:"bits"` // IEEE-754 bit patterns
	SB                         []byte                 `json:"impl_scalar_bytes,omitempty"`
	SBOK                       bool                   `json:"impl_scalar_ok"`
	BB                         []byte                 `json:"impl_batch_bytes,omitempty"`
	BBOK                       bool                   `json:"impl_batch_ok"`
	DSS, DBS, DSB, DBB         []uint64               `json:"-"`
	DSSOK, DBSOK, DSBOK, DBBOK bool                   `json:"-"`
	Decoded                    map[string]interface{} `json:"impl_decoded,omitempty"`
	Floats                     []string               `json:"floats_for_humans,omitempty"`
}

func toF64(v []uint64) []float64 {
	o := make([]float64, len(v))
	for i, x := range v {
		o[i] = math.Float64frombits(x)
	}
	return o
}
func fromF64(v []float64) []uint64 {
	o := make([]uint64, len(v))
	for i, x := range v {
		o[i] = math.Float64bits(x)
	}
	return o
}

func floatScalarDecode(b []byte, limit int) ([]uint64, bool) {
	var d tsm1.FloatDecoder
	if err := d.SetBytes(b); err != nil {
		return nil, false
	}
	out := []uint64{}
	for d.Next() {
		out = append(out, math.Float64bits(d.Values()))
		if len(out) > limit {
			break
		}
	}
	return out, d.Error() == nil
}

func runFloat(w *vh.W, c *jcase) {
	s := c.Flt
	idx := w.Len()
	limit := len(s.Bits) + 1000
	p := vh.Guard(func() {
		enc := tsm1.NewFloatEncoder()
		for _, v := range toF64(s.Bits) {
			enc.Write(v)
		}
		enc.Flush()
		b, err := enc.Bytes()
		s.SB, s.SBOK = append([]byte{}, b...), err == nil
		bb, err := tsm1.FloatArrayEncodeAll(toF64(s.Bits), nil)
		s.BB, s.BBOK = append([]byte{}, bb...), err == nil
		batchDec := func(b []byte) ([]uint64, bool) {
			o, err := tsm1.FloatArrayDecodeAll(b, nil)
			return fromF64(o), err == nil
		}
		if s.SBOK {
			s.DSS, s.DSSOK = floatScalarDecode(s.SB, limit)
			s.DBS, s.DBSOK = batchDec(s.SB)
		}
		if s.BBOK {
			s.DSB, s.DSBOK = floatScalarDecode(s.BB, limit)
			s.DBB, s.DBBOK = batchDec(s.BB)
		}
	})
	if p != "" {
		w.Fail(idx, "panic in float codec: "+p, "")
	}
	s.Decoded = map[string]interface{}{}
	put := func(k string, v []uint64, ok bool) {
		if !ok {
			s.Decoded[k] = "error"
		} else if fmt.Sprint(v) == fmt.Sprint(s.Bits) {
			s.Decoded[k] = "== bits"
		} else {
			s.Decoded[k] = v
		}
	}
	put("scalar_dec(scalar_enc)", s.DSS, s.DSSOK)
	put("batch_dec(scalar_enc)", s.DBS, s.DBSOK)
	put("scalar_dec(batch_enc)", s.DSB, s.DSBOK)
	put("batch_dec(batch_enc)", s.DBB, s.DBBOK)
	s.Floats = nil
	for i, x := range s.Bits {
		if i < 12 {
			s.Floats = append(s.Floats, fmt.Sprint(math.Float64frombits(x)))
		}
	}
	// shape of the case, decided from the INPUT only
	hasNaN := false
	sum := 0.0
	for i, x := range toF64(s.Bits) {
		if math.IsNaN(x) {
			hasNaN = true
		}
		if i > 0 {
			sum += x
		}
	}
	// inputs whose running sum is NaN although no element is (+Inf and -Inf, overflow then -Inf):
	// the shape of the fixed finding float-batch-sum-nan; counted, no longer tolerated
	sumNaN := !hasNaN && math.IsNaN(sum)
	sig := ""
	var l lets
	t := l.wrap(fmt.Sprintf("CFloat %s %s %s %s %s %s %s", l.u64s(s.Bits), l.optBytes(s.SB, s.SBOK), l.optBytes(s.BB, s.BBOK),
		l.optU64s(s.DSS, s.DSSOK), l.optU64s(s.DBS, s.DBSOK), l.optU64s(s.DSB, s.DSBOK), l.optU64s(s.DBB, s.DBBOK)))
	w.Add(t, c, len(s.Bits) >= 2 || hasNaN, sig)
	w.Count("kind", "float")
	w.Count("float.len", lenClass(len(s.Bits)))
	w.Count("float.has_nan", fmt.Sprint(hasNaN))
	if sumNaN {
		w.Count("float.nan_free_sum_is_nan", "true")
	}
}

var floatSpecials = []uint64{
	0, 1 << 63, // +0, -0
	1, 2, 1<<52 - 1, 1<<63 | 1, // subnormals
	1 << 52, 0x7FEFFFFFFFFFFFFF, 0xFFEFFFFFFFFFFFFF, // min normal, +-max finite
	0x7FF0000000000000, 0xFFF0000000000000, // +-Inf
	0x3FF0000000000000, 0xBFF0000000000000, 0x4000000000000000, 0x3FE0000000000000, // 1, -1, 2, 0.5
	0x400921FB54442D18, 0x3FB999999999999A,
}
var nanPatterns = []uint64{
	0x7FF8000000000001,                     // math.NaN(), the sentinel itself
	0x7FF8000000000000, 0xFFF8000000000000, // quiet NaN
	0x7FF0000000000001, 0xFFF0000000000001, // signalling NaN
	0x7FFFFFFFFFFFFFFF, 0xFFFFFFFFFFFFFFFF, 0x7FF4000000000000, 0x7FF8000000000002,
}

func isNaNBits(x uint64) bool { return math.IsNaN(math.Float64frombits(x)) }

// xor delta with exactly l leading and t trailing zero bits (l+t <= 63)
func deltaLT(r *rand.Rand, l, t int) uint64 {
	n := 64 - l - t // significant bits, >= 1
	var d uint64
	if n == 1 {
		d = 1
	} else {
		d = 1<<(n-1) | 1 | r.Uint64()&(1<<(n-1)-1)
	}
	return d << uint(t)
}

func genFloatBits(r *rand.Rand, n int) []uint64 {
	v := make([]uint64, n)
	if n == 0 {
		return v
	}
	mode := r.IntN(10)
	v[0] = floatSpecials[r.IntN(len(floatSpecials))]
	if r.IntN(2) == 0 {
		v[0] = math.Float64bits(float64(r.IntN(2000)-1000) / float64(1+r.IntN(16)))
	}
	l0, t0 := r.IntN(40), r.IntN(24)
	for i := 1; i < n; i++ {
		switch mode {
		case 0: // constant (zero deltas)
			v[i] = v[i-1]
		case 1: // specials incl. +-Inf, +-0, subnormals
			v[i] = floatSpecials[r.IntN(len(floatSpecials))]
		case 2: // random patterns
			v[i] = r.Uint64()
		case 3: // small integers as floats (many trailing zeros)
			v[i] = math.Float64bits(float64(r.IntN(64)))
		case 4: // slowly varying: low mantissa bits change (>= 32 leading zeros in the delta)
			v[i] = v[i-1] + uint64(r.IntN(1<<uint(1+r.IntN(30))))
		case 5, 6: // deltas with chosen leading/trailing zero counts around the 5-bit mask boundary
			l := []int{0, 1, 30, 31, 32, 33, 40, 62, 63}[r.IntN(9)]
			t := 0
			if 63-l > 0 {
				t = r.IntN(64 - l)
			}
			if r.IntN(3) == 0 {
				t = 0
			}
			if r.IntN(5) == 0 {
				l, t = 0, 0 // 64 significant bits: the "0 means 64" rule
			}
			v[i] = v[i-1] ^ deltaLT(r, l, t)
		case 7: // deltas inside a fixed window (reuse of the previous leading/trailing), sometimes zero
			if r.IntN(4) == 0 {
				v[i] = v[i-1]
			} else {
				l := l0 + r.IntN(64-l0-t0)
				t := t0
				if 63-l-t0 > 0 {
					t = t0 + r.IntN(64-l-t0)
				}
				v[i] = v[i-1] ^ deltaLT(r, l, t)
			}
		case 8: // a gauge
			v[i] = math.Float64bits(math.Float64frombits(v[i-1]) + float64(r.IntN(21)-10)/8)
		default:
			v[i] = math.Float64bits(float64(r.IntN(1000)) * 0.1)
		}
		if isNaNBits(v[i]) && r.IntN(4) != 0 {
			v[i] = v[i-1] // keep most streams NaN-free
		}
	}
	return v
}

func fixedFloat() []jcase {
	mk := func(v ...uint64) jcase { return jcase{Kind: "float", Flt: &fltCase{Bits: v}} }
	pinf, ninf := uint64(0x7FF0000000000000), uint64(0xFFF0000000000000)
	one := uint64(0x3FF0000000000000)
	cs := []jcase{mk(), mk(0), mk(1 << 63), mk(one), mk(pinf), mk(ninf), mk(0, 1<<63, 0, 1<<63),
		mk(pinf, ninf), mk(ninf, pinf), mk(one, pinf, ninf), mk(one, ninf, pinf, one),
		mk(0, 0x7FEFFFFFFFFFFFFF, 0x7FEFFFFFFFFFFFFF, ninf), // sum overflows to +Inf, then -Inf
		mk(0, pinf, pinf), mk(one, pinf, one), mk(1, 2, 3, 1<<52-1, 1<<52),
		mk(0, 0xFFFFFFFFFFFFFFFF>>1&^(1<<62)), // exponent 0x3FF.. arbitrary
		mk(0x7FF7FFFFFFFFFFFF&^(1<<62), 0), mk(one, one, one, one, one, one, one, one, one),
		mk(0, 1), mk(0, 1<<63), mk(0, 1<<31), mk(0, 1<<32), mk(0, 1<<33), mk(0, 1<<63|1), mk(1<<63|1, 0),
		mk(0x7FF8000000000000&^(1<<51), 0x7FF8000000000001&^(1<<51)), // neighbours of the sentinel pattern
		mk(0x7FF0000000000000, 0x7FF8000000000001^1<<63^1<<63),       // +Inf then the sentinel (NaN): rejected
	}
	for _, nan := range nanPatterns {
		cs = append(cs, mk(nan), mk(one, nan), mk(nan, one), mk(one, nan, one), mk(one, one, nan))
	}
	return cs
}

func genFloat(r *rand.Rand, big bool) jcase {
	n := genLen(r, big)
	if n > 300 {
		n = 120 + r.IntN(180)
	}
	v := genFloatBits(r, n)
	if n > 0 && r.IntN(8) == 0 { // malformed stream: a NaN somewhere
		v[r.IntN(n)] = nanPatterns[r.IntN(len(nanPatterns))]
	}
	if n > 2 && r.IntN(25) == 0 { // +Inf and -Inf after the first value (the sum of src[1:] is NaN, no element is)
		i, j := 1+r.IntN(n-1), 1+r.IntN(n-1)
		if i != j && !isNaNBits(v[0]) {
			v[i], v[j] = 0x7FF0000000000000, 0xFFF0000000000000
		}
	}
	return jcase{Kind: "float", Flt: &fltCase{Bits: v}}
}
