(** C34 — time.Duration.String / time.ParseDuration round trip for every int64. *)
From Verif Require Import Base.Prelude Model.C34 Proofs.C34_dec Proofs.C34_float.
From Coq Require Import ZifyBool ZifyNat ZifyN String.
Ltac Zify.zify_post_hook ::= Z.to_euclidean_division_equations.
Local Open Scope N_scope.
Local Open Scope list_scope.
Local Notation length := (@List.length _) (only parsing).

Lemma pow10_pos k : 0 < 10 ^ k.
Proof. apply N.neq_0_lt_0, N.pow_nonzero. lia. Qed.

(** ** leadingInt / leadingFraction on digit strings *)
Lemma leading_int_digits ds : forall x r,
  forallb is_digit ds = true -> stops is_digit r ->
  x * 10 ^ N.of_nat (length ds) + dec_value ds <= 2 ^ 63 ->
  leading_int x (ds ++ r) = Some (x * 10 ^ N.of_nat (length ds) + dec_value ds, r).
Proof.
  induction ds as [|c ds IH]; intros x r Hd Hr Hb.
  - cbn [app length]. replace (x * 10 ^ N.of_nat 0 + dec_value []) with x by (cbn; lia).
    destruct r as [|c r]; [reflexivity|]. cbn in Hr. cbn [leading_int]. rewrite Hr. reflexivity.
  - cbn [forallb] in Hd. apply andb_true_iff in Hd as [Hc Hd].
    cbn [app leading_int]. rewrite Hc. cbn [negb].
    rewrite dec_value_cons in *. cbn [length] in *. rewrite pow10_S in *.
    pose proof (pow10_pos (N.of_nat (length ds))) as HP.
    set (P := 10 ^ N.of_nat (length ds)) in *.
    assert (Hcd : c - 48 < 10) by (unfold is_digit in Hc; lia).
    change (2 ^ 63) with 9223372036854775808 in *.
    destruct (9223372036854775808 / 10 <? x) eqn:E1; [exfalso; nia|].
    destruct (9223372036854775808 <? x * 10 + (c - 48)) eqn:E2; [exfalso; nia|].
    rewrite IH; [f_equal; f_equal; fold P; nia | exact Hd | exact Hr | fold P; nia].
Qed.

Lemma leading_fraction_digits ds : forall x k0 r,
  forallb is_digit ds = true -> stops is_digit r ->
  x * 10 ^ N.of_nat (length ds) + dec_value ds < 10 ^ 18 ->
  leading_fraction x k0 false (ds ++ r)
  = (x * 10 ^ N.of_nat (length ds) + dec_value ds, k0 + N.of_nat (length ds), r).
Proof.
  induction ds as [|c ds IH]; intros x k0 r Hd Hr Hb.
  - cbn [app length]. replace (x * 10 ^ N.of_nat 0 + dec_value []) with x by (cbn; lia).
    replace (k0 + N.of_nat 0) with k0 by lia.
    destruct r as [|c r]; [reflexivity|]. cbn in Hr. cbn [leading_fraction]. rewrite Hr. reflexivity.
  - cbn [forallb] in Hd. apply andb_true_iff in Hd as [Hc Hd].
    cbn [app leading_fraction]. rewrite Hc. cbn [negb].
    rewrite dec_value_cons in *. cbn [length] in *. rewrite pow10_S in *.
    pose proof (pow10_pos (N.of_nat (length ds))) as HP.
    set (P := 10 ^ N.of_nat (length ds)) in *.
    assert (Hcd : c - 48 < 10) by (unfold is_digit in Hc; lia).
    change (2 ^ 63) with 9223372036854775808 in *. change (10 ^ 18) with 1000000000000000000 in *.
    destruct ((9223372036854775808 - 1) / 10 <? x) eqn:E1; [exfalso; nia|].
    destruct (9223372036854775808 <? x * 10 + (c - 48)) eqn:E2; [exfalso; nia|].
    rewrite (IH (x * 10 + (c - 48)) (k0 + 1) r Hd Hr) by (fold P; nia).
    fold P.
    assert (A1 : (x * 10 + (c - 48)) * P + dec_value ds = x * (10 * P) + ((c - 48) * P + dec_value ds)) by nia.
    assert (A2 : k0 + 1 + N.of_nat (length ds) = k0 + N.of_nat (S (length ds))) by lia.
    rewrite A1, A2. reflexivity.
Qed.

(** ** fmtFrac *)
Lemma fmt_frac_spec p : forall v print acc,
  forallb is_digit acc = true -> print = negb (Nat.eqb (length acc) 0) ->
  exists ds,
    fmt_frac p v print acc = ((match ds with [] => [] | _ => 46 :: ds end), v / 10 ^ N.of_nat p)
    /\ forallb is_digit ds = true /\ (length ds <= p + length acc)%nat
    /\ dec_value ds * 10 ^ N.of_nat (p + length acc)
       = ((v mod 10 ^ N.of_nat p) * 10 ^ N.of_nat (length acc) + dec_value acc)
         * 10 ^ N.of_nat (length ds).
Proof.
  induction p as [|p IH]; intros v print acc Hacc Hpr.
  - cbn [fmt_frac]. exists acc. split.
    + change (10 ^ N.of_nat 0) with 1. rewrite N.div_1_r.
      destruct acc as [|a acc]; cbn in Hpr; subst print; reflexivity.
    + split; [exact Hacc|]. split; [lia|].
      change (10 ^ N.of_nat 0) with 1. rewrite N.mod_1_r. cbn [Nat.add]. lia.
  - cbn [fmt_frac].
    set (digit := v mod 10).
    assert (Hdg : is_digit (48 + digit) = true) by (unfold is_digit, digit; lia).
    assert (Hdiv : v / 10 / 10 ^ N.of_nat p = v / 10 ^ N.of_nat (S p))
      by (rewrite pow10_S, N.div_div by (pose proof (pow10_pos (N.of_nat p)); lia); reflexivity).
    assert (Hmod : v mod 10 ^ N.of_nat (S p) = digit + 10 * ((v / 10) mod 10 ^ N.of_nat p)).
    { rewrite pow10_S. rewrite N.mod_mul_r by (pose proof (pow10_pos (N.of_nat p)); lia).
      reflexivity. }
    assert (Hd10 : digit < 10) by (unfold digit; apply N.mod_lt; lia).
    clearbody digit.
    destruct (print || negb (digit =? 0)) eqn:Epr.
    + destruct (IH (v / 10) true ((48 + digit) :: acc)) as [ds [E1 [E2 [E3 E4]]]].
      { cbn [forallb]. rewrite Hdg, Hacc. reflexivity. }
      { reflexivity. }
      exists ds. rewrite E1, Hdiv. split; [reflexivity|]. split; [exact E2|].
      cbn [length] in E3, E4. split; [lia|].
      rewrite dec_value_cons in E4.
      replace (48 + digit - 48) with digit in E4 by (rewrite N.add_comm; symmetry; apply N.add_sub).
      replace (p + S (length acc))%nat with (S p + length acc)%nat in E4 by lia.
      rewrite E4, Hmod. rewrite pow10_S.
      set (A := 10 ^ N.of_nat (length acc)). set (X := (v / 10) mod 10 ^ N.of_nat p).
      set (K := 10 ^ N.of_nat (length ds)). set (F := dec_value acc). nia.
    + apply orb_false_iff in Epr as [Ep Ed]. subst print.
      assert (Hnil : acc = []).
      { destruct acc; [reflexivity|]. cbn in Ep. discriminate. }
      subst acc. assert (Hd0 : digit = 0) by lia.
      destruct (IH (v / 10) false []) as [ds [E1 [E2 [E3 E4]]]]; [reflexivity|reflexivity|].
      exists ds. rewrite E1, Hdiv. split; [reflexivity|]. split; [exact E2|].
      cbn [length] in *. split; [lia|].
      replace (p + 0)%nat with p in E4 by lia. replace (S p + 0)%nat with (S p) by lia.
      rewrite Hmod, Hd0. rewrite pow10_S.
      change (10 ^ N.of_nat 0) with 1 in *. change (dec_value []) with 0 in *.
      set (X := (v / 10) mod 10 ^ N.of_nat p) in *.
      set (K := 10 ^ N.of_nat (length ds)) in *. set (PP := 10 ^ N.of_nat p) in *. nia.
Qed.

(** The fraction text of a value below 10^p: [fr] is empty or ".digits", it denotes f/10^k, and
    c = 10^(p-k) satisfies 10^p = c*10^k, f*c = w. *)
Definition frac_ok (fr : list N) (f k : N) : Prop :=
  (fr = [] /\ f = 0 /\ k = 0) \/
  (exists ds, fr = 46 :: ds /\ ds <> [] /\ forallb is_digit ds = true
              /\ N.of_nat (length ds) = k /\ dec_value ds = f).

Lemma fmt_frac_use p u :
  (p <= 9)%nat ->
  exists fr f k c,
    fmt_frac p u false [] = (fr, u / 10 ^ N.of_nat p) /\ frac_ok fr f k /\
    10 ^ N.of_nat p = c * 10 ^ k /\ f * c = u mod 10 ^ N.of_nat p /\ f < 10 ^ k /\ k <= 9.
Proof.
  intro Hp.
  destruct (fmt_frac_spec p u false [] eq_refl eq_refl) as [ds [E1 [E2 [E3 E4]]]].
  cbn [length] in E3, E4. replace (p + 0)%nat with p in * by lia.
  change (10 ^ N.of_nat 0) with 1 in E4. change (dec_value []) with 0 in E4.
  pose proof (dec_value_bound ds E2) as Hb.
  pose proof (pow10_pos (N.of_nat (length ds))) as HK.
  assert (Hcase : ds = [] \/ ds <> []) by (destruct ds; [left; reflexivity|right; discriminate]).
  destruct Hcase as [->|Hne].
  - exists [], 0, 0, (10 ^ N.of_nat p). rewrite E1. split; [reflexivity|].
    split; [left; auto|]. cbn [length] in *. change (10 ^ N.of_nat 0) with 1 in *.
    change (dec_value []) with 0 in *. change (10 ^ 0) with 1.
    repeat split; try lia.
  - assert (Em : match ds with [] => [] | _ :: _ => 46 :: ds end = 46 :: ds)
      by (destruct ds; [contradiction|reflexivity]).
    rewrite Em in E1.
    exists (46 :: ds), (dec_value ds), (N.of_nat (length ds)),
           (10 ^ N.of_nat (p - length ds)).
    assert (Hpow : 10 ^ N.of_nat p = 10 ^ N.of_nat (p - length ds) * 10 ^ N.of_nat (length ds)).
    { rewrite <- N.pow_add_r. f_equal. lia. }
    split; [exact E1|]. split.
    { right. exists ds. auto. }
    split; [exact Hpow|]. split; [|split; [exact Hb|lia]].
    set (K := 10 ^ N.of_nat (length ds)) in *. set (C := 10 ^ N.of_nat (p - length ds)) in *.
    set (W := u mod 10 ^ N.of_nat p) in *. set (F := dec_value ds) in *.
    rewrite Hpow in E4. nia.
Qed.

(** ** One component of ParseDuration *)
Definition unit_chars (name : list N) : Prop :=
  name <> [] /\ forallb (fun c => negb (is_unit_stop c)) name = true.

Lemma unit_head name r : unit_chars name ->
  exists c l, name ++ r = c :: l /\ is_digit c = false /\ (c =? 46) = false.
Proof.
  intros [Hne Hf]. destruct name as [|c n]; [contradiction|].
  exists c, (n ++ r). split; [reflexivity|]. cbn in Hf. apply andb_true_iff in Hf as [Hf _].
  unfold is_unit_stop in Hf. destruct (c =? 46); destruct (is_digit c); cbn in Hf; auto; discriminate.
Qed.

Lemma small_repr n : n <= 3600000000000 -> repr53 n = true.
Proof. intro H. apply repr53_small. change (2 ^ 53) with 9007199254740992. lia. Qed.

Lemma frac_value f unit k c :
  unit = c * 10 ^ k -> unit <= 3600000000000 -> f < 10 ^ k -> k <= 9 -> 0 < unit ->
  fl_floor (fmul (fl_of_N f) (fdiv (fl_of_N unit) (fl_of_N (10 ^ k)))) = f * c.
Proof.
  intros Hu Hub Hf Hk Hpos.
  pose proof (pow10_pos k) as HK.
  assert (HK9 : 10 ^ k <= 10 ^ 9) by (apply N.pow_le_mono_r; lia).
  change (10 ^ 9) with 1000000000 in HK9.
  assert (Hc : c <= 3600000000000) by nia.
  assert (Hfc : f * c <= 3600000000000) by nia.
  apply floor_veq. apply fmul_veq.
  - apply fl_of_N_veq, small_repr. lia.
  - eapply fdiv_veq.
    + apply fl_of_N_veq, small_repr, Hub.
    + apply fl_of_N_veq, small_repr. lia.
    + lia.
    + exact Hu.
    + apply small_repr, Hc.
  - apply small_repr, Hfc.
Qed.

Lemma pd_comp fuel d v fr f k c name unit rest :
  frac_ok fr f k -> unit_chars name -> lookup name unit_table = Some unit ->
  stops (fun x => negb (is_unit_stop x)) rest ->
  unit = c * 10 ^ k -> 0 < unit -> unit <= 3600000000000 -> f < 10 ^ k -> k <= 9 ->
  d + v * unit + f * c <= 2 ^ 63 ->
  pd_loop (S fuel) d (dec v ++ fr ++ name ++ rest) = pd_loop fuel (d + v * unit + f * c) rest.
Proof.
  intros Hfr Hname Hlk Hrest Hu Hpos Hub Hf Hk Hsum.
  change (2 ^ 63) with 9223372036854775808 in Hsum.
  destruct (dec_head_digit v) as [c0 [l0 [E0 Hc0]]].
  assert (Hs : dec v ++ fr ++ name ++ rest = c0 :: (l0 ++ fr ++ name ++ rest))
    by (rewrite E0; reflexivity).
  cbn [pd_loop]. rewrite Hs. cbv iota. rewrite <- Hs.
  assert (Hstart : negb ((c0 =? 46) || is_digit c0) = false) by (rewrite Hc0, orb_true_r; reflexivity).
  rewrite Hstart.
  (* the tail after the integer part starts with '.' or a unit character *)
  assert (Hst1 : stops is_digit (fr ++ name ++ rest)).
  { destruct Hfr as [[-> _]|[ds [-> _]]]; cbn [app].
    - destruct (unit_head name rest Hname) as [c1 [l1 [E1 [H1 _]]]]. rewrite E1. exact H1.
    - reflexivity. }
  pose proof (leading_int_digits (dec v) 0 (fr ++ name ++ rest) (dec_digits v) Hst1) as Hli.
  rewrite dec_value_dec in Hli. rewrite N.mul_0_l, N.add_0_l in Hli.
  rewrite Hli by (change (2 ^ 63) with 9223372036854775808; nia). clear Hli.
  assert (Hpre : negb (Nat.eqb (length (fr ++ name ++ rest)) (length (dec v ++ fr ++ name ++ rest))) = true).
  { rewrite (app_length (dec v)). rewrite E0. cbn [length].
    apply negb_true_iff, Nat.eqb_neq. lia. }
  rewrite Hpre.
  (* the fraction *)
  assert (Hst2 : stops is_digit (name ++ rest)).
  { destruct (unit_head name rest Hname) as [c1 [l1 [E1 [H1 _]]]]. rewrite E1. exact H1. }
  assert (Hfrac :
    (match fr ++ name ++ rest with
     | c1 :: r1 =>
         if c1 =? 46 then
           let '(f', k', s2) := leading_fraction 0 0 false r1 in
           (f', k', s2, negb (Nat.eqb (length s2) (length r1)))
         else (0, 0, fr ++ name ++ rest, false)
     | [] => (0, 0, fr ++ name ++ rest, false)
     end) = (f, k, name ++ rest, negb (k =? 0))).
  { destruct Hfr as [[-> [-> ->]]|[ds [-> [Hne [Hds [Hlen Hval]]]]]]; cbn [app].
    - destruct (unit_head name rest Hname) as [c1 [l1 [E1 [_ H46]]]]. rewrite E1, H46. reflexivity.
    - change (46 =? 46) with true. cbv iota.
      assert (Hb18 : 0 * 10 ^ N.of_nat (length ds) + dec_value ds < 10 ^ 18).
      { rewrite N.mul_0_l, N.add_0_l, Hval. eapply N.lt_le_trans; [exact Hf|].
        apply N.pow_le_mono_r; lia. }
      rewrite (leading_fraction_digits ds 0 0 (name ++ rest) Hds Hst2 Hb18).
      rewrite N.mul_0_l, !N.add_0_l, Hval, Hlen.
      assert (Hl0 : (length ds <> 0)%nat) by (destruct ds; [contradiction|cbn; lia]).
      assert (Hk0 : (k =? 0) = false) by lia. rewrite Hk0. cbn [negb].
      f_equal. apply negb_true_iff, Nat.eqb_neq. rewrite (app_length ds). lia. }
  rewrite Hfrac. clear Hfrac.
  cbn [negb andb]. cbv iota.
  destruct Hname as [Hnne Hnch].
  rewrite take_while_app, drop_while_app by assumption.
  destruct name as [|n0 nm] eqn:En; [contradiction|]. rewrite <- En in *. rewrite Hlk.
  assert (Hv : (9223372036854775808 / unit <? v) = false).
  { apply N.ltb_ge. apply N.div_le_lower_bound; [lia|nia]. }
  change (2 ^ 63) with 9223372036854775808. rewrite Hv.
  assert (Hv2 : (if 0 <? f
                 then v * unit + fl_floor (fmul (fl_of_N f) (fdiv (fl_of_N unit) (fl_of_N (10 ^ k))))
                 else v * unit) = v * unit + f * c).
  { destruct (0 <? f) eqn:Ef0.
    - rewrite (frac_value f unit k c Hu Hub Hf Hk Hpos). reflexivity.
    - assert (f = 0) by lia. subst f. lia. }
  rewrite Hv2.
  assert (Hchk : (0 <? f) && (9223372036854775808 <? v * unit + f * c) = false).
  { apply andb_false_iff. right. apply N.ltb_ge. lia. }
  rewrite Hchk.
  change (2 ^ 64) with 18446744073709551616.
  rewrite N.mod_small by lia.
  assert (Hchk2 : (9223372036854775808 <? d + (v * unit + f * c)) = false) by (apply N.ltb_ge; lia).
  rewrite Hchk2. f_equal. lia.
Qed.

(** ** Whole formatted durations *)
Lemma pd_comp0 fuel d v name unit rest :
  unit_chars name -> lookup name unit_table = Some unit ->
  stops (fun x => negb (is_unit_stop x)) rest ->
  0 < unit -> unit <= 3600000000000 -> d + v * unit <= 2 ^ 63 ->
  pd_loop (S fuel) d (dec v ++ name ++ rest) = pd_loop fuel (d + v * unit) rest.
Proof.
  intros Hn Hl Hr Hp Hu Hs.
  pose proof (pd_comp fuel d v [] 0 0 unit name unit rest
                (or_introl (conj eq_refl (conj eq_refl eq_refl))) Hn Hl Hr) as H.
  cbn [app] in H. rewrite H; try assumption; try (change (10 ^ 0) with 1; lia).
  f_equal. lia.
Qed.

Lemma pd_end fuel d : pd_loop fuel d [] = Some d.
Proof. destruct fuel; reflexivity. Qed.

Lemma stops_dec x r : stops (fun c => negb (is_unit_stop c)) (dec x ++ r).
Proof.
  destruct (dec_head_digit x) as [c [l [E Hc]]]. rewrite E. cbn.
  unfold is_unit_stop. rewrite Hc, orb_true_r. reflexivity.
Qed.

Lemma uc_s : unit_chars (B "s"). Proof. split; [discriminate|reflexivity]. Qed.
Lemma uc_m : unit_chars (B "m"). Proof. split; [discriminate|reflexivity]. Qed.
Lemma uc_h : unit_chars (B "h"). Proof. split; [discriminate|reflexivity]. Qed.
Lemma uc_ns : unit_chars (B "ns"). Proof. split; [discriminate|reflexivity]. Qed.
Lemma uc_ms : unit_chars (B "ms"). Proof. split; [discriminate|reflexivity]. Qed.
Lemma uc_us : unit_chars [194; 181; 115]. Proof. split; [discriminate|reflexivity]. Qed.

Lemma format_abs_parse u fuel :
  u <= 2 ^ 63 -> pd_loop (S (S (S fuel))) 0 (format_abs u) = Some u.
Proof.
  intro Hu. change (2 ^ 63) with 9223372036854775808 in Hu.
  unfold format_abs, SECOND.
  destruct (u <? 1000000000) eqn:Esec.
  - destruct (u =? 0) eqn:E0.
    + assert (u = 0) by lia. subst u. vm_compute. reflexivity.
    + destruct (u <? 1000) eqn:Ens.
      * pose proof (pd_comp0 (S (S fuel)) 0 u (B "ns") 1 [] uc_ns eq_refl I) as H.
        rewrite app_nil_r in H. rewrite H by (try change (2 ^ 63) with 9223372036854775808; lia).
        rewrite pd_end. f_equal. lia.
      * destruct (u <? 1000000) eqn:Eus.
        -- destruct (fmt_frac_use 3 u ltac:(lia)) as [fr [f [k [c [E1 [Hfr [Hc [Hfc [Hf Hk]]]]]]]]].
           rewrite E1. change (10 ^ N.of_nat 3) with 1000 in *.
           pose proof (pd_comp (S (S fuel)) 0 (u / 1000) fr f k c [194; 181; 115] 1000 []
                         Hfr uc_us eq_refl I Hc) as H.
           rewrite app_nil_r in H.
           rewrite H by (try change (2 ^ 63) with 9223372036854775808; lia).
           rewrite pd_end. f_equal. lia.
        -- destruct (fmt_frac_use 6 u ltac:(lia)) as [fr [f [k [c [E1 [Hfr [Hc [Hfc [Hf Hk]]]]]]]]].
           rewrite E1. change (10 ^ N.of_nat 6) with 1000000 in *.
           pose proof (pd_comp (S (S fuel)) 0 (u / 1000000) fr f k c (B "ms") 1000000 []
                         Hfr uc_ms eq_refl I Hc) as H.
           rewrite app_nil_r in H.
           rewrite H by (try change (2 ^ 63) with 9223372036854775808; lia).
           rewrite pd_end. f_equal. lia.
  - destruct (fmt_frac_use 9 u ltac:(lia)) as [fr [f [k [c [E1 [Hfr [Hc [Hfc [Hf Hk]]]]]]]]].
    rewrite E1. change (10 ^ N.of_nat 9) with 1000000000 in *.
    set (v := u / 1000000000) in *.
    assert (Hsecs : forall fl d, d + (v mod 60) * 1000000000 + f * c <= 9223372036854775808 ->
              pd_loop (S fl) d (dec (v mod 60) ++ fr ++ B "s")
              = Some (d + (v mod 60) * 1000000000 + f * c)).
    { intros fl d Hd.
      pose proof (pd_comp fl d (v mod 60) fr f k c (B "s") 1000000000 []
                    Hfr uc_s eq_refl I Hc) as H.
      rewrite app_nil_r in H.
      rewrite H by (try change (2 ^ 63) with 9223372036854775808; lia).
      apply pd_end. }
    destruct (0 <? v / 60) eqn:Em.
    + destruct (0 <? v / 60 / 60) eqn:Eh.
      * rewrite <- !app_assoc.
        rewrite (pd_comp0 (S (S fuel)) 0 (v / 60 / 60) (B "h") 3600000000000 _ uc_h eq_refl
                   (stops_dec _ _))
          by (try change (2 ^ 63) with 9223372036854775808; lia).
        rewrite (pd_comp0 (S fuel) _ ((v / 60) mod 60) (B "m") 60000000000 _ uc_m eq_refl
                   (stops_dec _ _))
          by (try change (2 ^ 63) with 9223372036854775808; lia).
        rewrite Hsecs by lia. f_equal. lia.
      * rewrite <- !app_assoc.
        rewrite (pd_comp0 (S (S fuel)) 0 ((v / 60) mod 60) (B "m") 60000000000 _ uc_m eq_refl
                   (stops_dec _ _))
          by (try change (2 ^ 63) with 9223372036854775808; lia).
        rewrite Hsecs by lia. f_equal. lia.
    + rewrite Hsecs by lia. f_equal. lia.
Qed.

Lemma format_abs_shape u :
  exists c c' l, format_abs u = c :: c' :: l /\ is_digit c = true.
Proof.
  assert (G : forall x t, t <> [] -> exists c c' l, dec x ++ t = c :: c' :: l /\ is_digit c = true).
  { intros x t Ht. destruct (dec_head_digit x) as [c [l [E Hc]]]. rewrite E.
    destruct l as [|c' l]; cbn [app].
    - destruct t as [|c' t]; [contradiction|]. eauto.
    - eauto. }
  assert (Gf : forall (fr t : list N), t <> [] -> fr ++ t <> []).
  { intros fr t Ht H. apply app_eq_nil in H as [_ H]. contradiction. }
  unfold format_abs.
  destruct (u <? SECOND).
  - destruct (u =? 0); [exists 48, 115, []; split; reflexivity|].
    destruct (u <? 1000); [apply G; discriminate|].
    destruct (u <? 1000000).
    + destruct (fmt_frac 3 u false []) as [fr v]. apply G, Gf. discriminate.
    + destruct (fmt_frac 6 u false []) as [fr v]. apply G, Gf. discriminate.
  - destruct (fmt_frac 9 u false []) as [fr v].
    destruct (0 <? v / 60).
    + destruct (0 <? v / 60 / 60).
      * apply G. discriminate.
      * rewrite <- app_assoc. apply G. discriminate.
    + apply G, Gf. discriminate.
Qed.

Lemma parse_dur_neg t c c' l u :
  t = c :: c' :: l -> (forall fuel, pd_loop (S (S (S fuel))) 0 t = Some u) ->
  parse_duration (45 :: t) = Some (wrap64s (- Z.of_N u)).
Proof.
  intros E H. unfold parse_duration.
  change ((45 =? 45) || (45 =? 43)) with true. cbv iota. change (45 =? 45) with true.
  assert (Hne : bytes_eqb t [48] = false) by (rewrite E; cbn; apply andb_false_r).
  rewrite Hne. specialize (H (List.length l)). subst t. cbn [List.length]. rewrite H. reflexivity.
Qed.

Lemma parse_dur_pos t c c' l u :
  t = c :: c' :: l -> is_digit c = true ->
  (forall fuel, pd_loop (S (S (S fuel))) 0 t = Some u) ->
  parse_duration t = if 2 ^ 63 - 1 <? u then None else Some (Z.of_N u).
Proof.
  intros E Hc H. unfold parse_duration.
  assert (Hne : bytes_eqb t [48] = false) by (rewrite E; cbn; apply andb_false_r).
  assert (Hs : (c =? 45) || (c =? 43) = false) by (unfold is_digit in Hc; lia).
  specialize (H (List.length l)). subst t. rewrite Hs, Hne. cbn [List.length]. rewrite H. reflexivity.
Qed.

Lemma duration_roundtrip z :
  (- 2 ^ 63 <= z < 2 ^ 63)%Z -> dur_unmarshal (dur_format z) = Some z.
Proof.
  intro Hz. change (2 ^ 63)%Z with 9223372036854775808%Z in Hz.
  unfold dur_format.
  destruct (z <? 0)%Z eqn:Ez.
  - set (u := Z.to_N (- z)).
    destruct (format_abs_shape u) as [c [c' [l [E Hc]]]].
    unfold dur_unmarshal.
    rewrite (parse_dur_neg (format_abs u) c c' l u E)
      by (intro; apply format_abs_parse; change (2 ^ 63) with 9223372036854775808; lia).
    f_equal. unfold wrap64s. change (2 ^ 63)%Z with 9223372036854775808%Z.
    change (2 ^ 64)%Z with 18446744073709551616%Z. lia.
  - set (u := Z.to_N z).
    destruct (format_abs_shape u) as [c [c' [l [E Hc]]]].
    unfold dur_unmarshal.
    rewrite (parse_dur_pos (format_abs u) c c' l u E Hc)
      by (intro; apply format_abs_parse; change (2 ^ 63) with 9223372036854775808; lia).
    rewrite E. change (2 ^ 63 - 1) with 9223372036854775807.
    destruct (9223372036854775807 <? u) eqn:E1; [lia|]. f_equal. lia.
Qed.

(** The accumulator of ParseDuration wraps at 2^64. *)
Lemma duration_wrap_witness :
  let s := dec 9223372036854775808 ++ B "ns" ++ dec 9223372036854775808 ++ B "ns" in
  dur_unmarshal s = Some 0%Z /\ dur_exact s = Some (false, 2 ^ 64, 2 ^ 64, 2).
Proof. split; vm_compute; reflexivity. Qed.
