From Verif Require Import Base.Prelude Model.C14 Proofs.C14.
Theorem C14_placeholder : True. Proof. exact I. Qed.
Print Assumptions C14_placeholder.
