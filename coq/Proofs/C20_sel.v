(** C20 — the windowed [first] cursor: concatenated output arrays = one-pass scan = the first
    point of every group, for every chunking and block size. *)
From Coq Require Import ZifyBool.
From Verif Require Import Base.Prelude Model.C20 Proofs.C20.
Open Scope Z_scope.

Section FirstProofs.
Context {V : Type}.
Notation pt := (Z * V)%type.
Variable stop_of : Z -> Z.
Variable B : N.

Notation first_inner := (first_inner stop_of B).
Notation first_outer := (first_outer stop_of B).
Notation next_first := (next_first stop_of B).
Notation run_first := (run_first stop_of B).
Notation scan_first := (scan_first stop_of).

Definition flat3 (st : list pt * list (list pt) * Z) : list pt := fst (fst st) ++ concat (snd (fst st)).

Lemma first_inner_spec (a : list pt) : forall wend n o r,
  first_inner a wend n = (o, r) ->
  match r with
  | FCont wend' n' => forall s, scan_first (a ++ s) wend = o ++ scan_first s wend'
  | FFull wend' tmp =>
      (forall s, scan_first (a ++ s) wend = o ++ scan_first (tmp ++ s) wend')
      /\ o <> [] /\ (length tmp < length a)%nat
  end.
Proof.
  induction a as [|p a' IH]; intros wend n o r E; cbn [C20.first_inner] in E.
  - injection E as <- <-. intro s. reflexivity.
  - destruct (fst p <? wend) eqn:Ew.
    + apply IH in E. destruct r as [wend' n'|wend' tmp].
      * intro s. cbn [app C20.scan_first]. rewrite Ew. apply E.
      * destruct E as (E1 & E2 & E3). repeat split; auto.
        -- intro s. cbn [app C20.scan_first]. rewrite Ew. apply E1.
        -- cbn [length]. lia.
    + destruct (n + 1 =? B)%N.
      * injection E as <- <-. repeat split.
        -- intro s. cbn [app C20.scan_first]. rewrite Ew. reflexivity.
        -- discriminate.
        -- cbn [length]. lia.
      * destruct (C20.first_inner stop_of B a' (stop_of (fst p)) (n + 1)%N) as [o1 r1] eqn:E1.
        injection E as <- <-. apply IH in E1. destruct r1 as [wend' n'|wend' tmp].
        -- intro s. cbn [app C20.scan_first]. rewrite Ew, E1. reflexivity.
        -- destruct E1 as (E1 & E2 & E3). repeat split.
           ++ intro s. cbn [app C20.scan_first]. rewrite Ew, E1. reflexivity.
           ++ discriminate.
           ++ cbn [length]. lia.
Qed.

Lemma first_outer_spec (rest : list (list pt)) : forall (a : list pt) wend n o st',
  Forall nonempty rest -> first_outer rest a wend n = (o, st') ->
  scan_first (a ++ concat rest) wend = o ++ scan_first (flat3 st') (snd st')
  /\ Forall nonempty (snd (fst st'))
  /\ (o = [] -> flat3 st' = [])
  /\ (a <> [] -> (length (flat3 st') < length (a ++ concat rest))%nat).
Proof.
  induction rest as [|c rest' IH]; intros a wend n o st' Hne E; cbn [C20.first_outer] in E.
  - destruct (C20.first_inner stop_of B a wend n) as [o1 r1] eqn:E1. apply first_inner_spec in E1.
    destruct r1 as [wend' n'|wend' tmp]; injection E as <- <-; unfold flat3; cbn [fst snd concat app].
    + rewrite !app_nil_r. repeat split; auto.
      * rewrite <- (app_nil_r a) at 1. rewrite E1. cbn [C20.scan_first]. rewrite app_nil_r. reflexivity.
      * intro Ha. destruct a; [congruence|]. cbn [length]. lia.
    + destruct E1 as (E1 & E2 & E3). rewrite !app_nil_r. repeat split; auto.
      * rewrite <- (app_nil_r a) at 1. rewrite E1, app_nil_r. reflexivity.
      * intro X; contradiction.
  - destruct (C20.first_inner stop_of B a wend n) as [o1 r1] eqn:E1. apply first_inner_spec in E1.
    inversion Hne as [|? ? Hc Hr]; subst.
    destruct r1 as [wend' n'|wend' tmp].
    + destruct c as [|q c']; [exfalso; apply Hc; reflexivity|].
      destruct (C20.first_outer stop_of B rest' (q :: c') wend' n') as [o2 st2] eqn:E2.
      injection E as <- <-. apply IH in E2; [|exact Hr].
      destruct E2 as (F1 & F2 & F3 & F4). repeat split; auto.
      * cbn [concat]. rewrite E1, F1, app_assoc. reflexivity.
      * intro X. apply app_eq_nil in X as [_ X]. apply F3. exact X.
      * intros _. cbn [concat]. rewrite app_length. specialize (F4 ltac:(discriminate)). lia.
    + injection E as <- <-. destruct E1 as (E1 & E2 & E3). unfold flat3; cbn [fst snd].
      repeat split; auto.
      * intro X; contradiction.
      * intros _. rewrite !app_length. lia.
Qed.

Lemma next_first_spec (st : list pt * list (list pt) * Z) o st' :
  Forall nonempty (snd (fst st)) -> next_first st = (o, st') ->
  scan_first (flat3 st) (snd st) = o ++ scan_first (flat3 st') (snd st')
  /\ Forall nonempty (snd (fst st'))
  /\ (o = [] -> flat3 st' = [])
  /\ (flat3 st <> [] -> (length (flat3 st') < length (flat3 st))%nat).
Proof.
  destruct st as [[tmp rest] wend]. cbn [fst snd]. intros Hne E.
  unfold C20.next_first, take_input in E. unfold flat3 at 1 4 5. cbn [fst snd].
  destruct tmp as [|p tmp'].
  - destruct rest as [|c rest']; cbn [pull] in E.
    + injection E as <- <-. cbn. repeat split; auto. congruence.
    + inversion Hne as [|? ? Hc Hr]; subst. destruct c as [|p c']; [exfalso; apply Hc; reflexivity|].
      apply first_outer_spec in E; [|exact Hr]. destruct E as (F1 & F2 & F3 & F4).
      cbn [app concat]. repeat split; auto; try (intros _; apply F4; discriminate).
  - apply first_outer_spec in E; [|exact Hne]. destruct E as (F1 & F2 & F3 & F4).
    repeat split; auto; try (intros _; apply F4; discriminate).
Qed.

Lemma run_first_scan : forall fuel st,
  Forall nonempty (snd (fst st)) -> (length (flat3 st) < fuel)%nat ->
  exists arrs, run_first fuel st = Some arrs /\ concat arrs = scan_first (flat3 st) (snd st).
Proof.
  induction fuel as [|f IH]; intros st Hne Hf; [lia|].
  cbn [C20.run_first]. destruct (C20.next_first stop_of B st) as [o st'] eqn:En.
  apply next_first_spec in En; [|exact Hne]. destruct En as (F1 & F2 & F3 & F4).
  destruct o as [|x o'].
  - exists []. split; [reflexivity|]. rewrite F1, (F3 eq_refl). reflexivity.
  - destruct (IH st' F2) as (arrs & Er & Ec).
    { destruct (flat3 st) eqn:Efl.
      - exfalso. rewrite ?Efl in F1. cbn in F1. discriminate.
      - rewrite ?Efl in *. specialize (F4 ltac:(discriminate)). cbn [length] in *. lia. }
    rewrite Er. exists ((x :: o') :: arrs). split; [reflexivity|].
    cbn [concat]. rewrite Ec, <- F1. reflexivity.
Qed.

(** scan_first = the first point of every group of the one-pass grouping *)
Lemma scan_first_groups_aux (l : list pt) : forall w cur, cur <> [] ->
  firstn 1 (rev cur) ++ scan_first l w
  = concat (map (fun wg : Z * list pt => firstn 1 (snd wg)) (groups_aux stop_of w cur l)).
Proof.
  induction l as [|p l IH]; intros w cur Hc; cbn [C20.scan_first groups_aux map concat snd].
  - rewrite !app_nil_r. reflexivity.
  - destruct (w <=? fst p) eqn:Ew.
    + replace (fst p <? w) with false by lia. cbn [map concat snd]. f_equal.
      rewrite <- IH by discriminate. reflexivity.
    + replace (fst p <? w) with true by lia. rewrite <- IH by discriminate.
      f_equal. cbn [rev]. destruct (rev cur) eqn:Er; [|reflexivity].
      exfalso. apply Hc. rewrite <- (rev_involutive cur), Er. reflexivity.
Qed.

Lemma scan_first_groups (l : list pt) :
  (forall p, In p l -> MinI64 <= fst p) ->
  scan_first l MinI64 = concat (map (fun wg : Z * list pt => firstn 1 (snd wg)) (groups stop_of l)).
Proof.
  intro Hlo. destruct l as [|p l]; [reflexivity|]. cbn [C20.scan_first groups].
  specialize (Hlo p (or_introl eq_refl)). replace (fst p <? MinI64) with false by lia.
  rewrite <- scan_first_groups_aux by discriminate. reflexivity.
Qed.
End FirstProofs.
