(** C05 proofs, part 3: the boolean oracle [contiguous_b] used by the judge is exactly the
    proposition [contiguous] (on well-formed generation lists), and the refutation witnesses
    for the full-compaction branch of [Plan]. *)
From Verif Require Import Base.Prelude Model.C05 Proofs.C05 Proofs.C05_contig.
From Coq Require Import Permutation.
Local Open Scope N_scope.

(** well-formed generation list (what [FindGenerations] produces from distinct file names) *)
Definition wf_gens (gens : list gen) : Prop :=
  NoDup (gs_paths gens) /\ Forall (fun g => g_files g <> []) gens.

Lemma in_gs_paths gs g f : In g gs -> In f (g_files g) -> In (f_path f) (gs_paths gs).
Proof.
  intros Hg Hf. unfold gs_paths. apply in_flat_map. exists g. split; [exact Hg|].
  unfold g_paths. apply in_map, Hf.
Qed.

Lemma in_gs_paths_inv gs p : In p (gs_paths gs) ->
  exists g f, In g gs /\ In f (g_files g) /\ f_path f = p.
Proof.
  unfold gs_paths. intro H. apply in_flat_map in H as [g [Hg Hp]].
  unfold g_paths in Hp. apply in_map_iff in Hp as [f [E Hf]]. eauto.
Qed.

Lemma nodup_b_spec l : nodup_b l = true <-> NoDup l.
Proof.
  induction l as [|x l IH]; simpl.
  - split; [constructor | reflexivity].
  - rewrite andb_true_iff, negb_true_iff, mem_false, IH. split.
    + intros [H1 H2]. constructor; assumption.
    + intro H. inversion H; subst. split; assumption.
Qed.

Lemma touched_spec grp g :
  touched grp g = true <-> exists f, In f (g_files g) /\ In (f_path f) grp.
Proof.
  unfold touched. rewrite existsb_exists. split; intros [f [H1 H2]]; exists f; split; auto;
    apply mem_spec; exact H2.
Qed.

Lemma whole_spec grp g :
  whole grp g = true <-> forall f, In f (g_files g) -> In (f_path f) grp.
Proof.
  unfold whole. rewrite forallb_forall. split; intros H f Hf; apply mem_spec, H, Hf.
Qed.

(** ---- shape false* true* false* ---- *)
Section Shape.
  Variable f : gen -> bool.

  Lemma drop_false_split l : exists pre rest, l = pre ++ rest /\
    Forall (fun g => f g = false) pre /\ drop_false (map f l) = map f rest.
  Proof.
    induction l as [|g l IH]; simpl.
    - exists [], []. repeat split; constructor.
    - destruct (f g) eqn:E.
      + exists [], (g :: l). simpl. rewrite E. repeat split; constructor.
      + destruct IH as [pre [rest [-> [H1 H2]]]].
        exists (g :: pre), rest. repeat split; [constructor; auto | exact H2].
  Qed.

  Lemma drop_true_split l : exists run rest, l = run ++ rest /\
    Forall (fun g => f g = true) run /\ drop_true (map f l) = map f rest.
  Proof.
    induction l as [|g l IH]; simpl.
    - exists [], []. repeat split; constructor.
    - destruct (f g) eqn:E.
      + destruct IH as [run [rest [-> [H1 H2]]]].
        exists (g :: run), rest. repeat split; [constructor; auto | exact H2].
      + exists [], (g :: l). simpl. rewrite E. repeat split; constructor.
  Qed.

  Lemma all_false_spec l : all_false (map f l) = true <-> Forall (fun g => f g = false) l.
  Proof.
    induction l as [|g l IH]; simpl.
    - split; [constructor | reflexivity].
    - rewrite andb_true_iff, negb_true_iff, IH. split.
      + intros [H1 H2]. constructor; assumption.
      + intro H. inversion H; subst. split; assumption.
  Qed.

  Lemma one_run_split l : one_run (map f l) = true ->
    exists pre run post, l = pre ++ run ++ post /\
      Forall (fun g => f g = false) pre /\ Forall (fun g => f g = true) run /\
      Forall (fun g => f g = false) post.
  Proof.
    unfold one_run. intro H.
    destruct (drop_false_split l) as [pre [r1 [-> [Hpre E1]]]]. rewrite E1 in H.
    destruct (drop_true_split r1) as [run [post [-> [Hrun E2]]]]. rewrite E2 in H.
    apply all_false_spec in H. exists pre, run, post. auto.
  Qed.

  Lemma drop_false_app pre l :
    Forall (fun g => f g = false) pre -> drop_false (map f (pre ++ l)) = drop_false (map f l).
  Proof. induction 1 as [|g pre Hg _ IH]; simpl; [reflexivity|]. rewrite Hg. exact IH. Qed.

  Lemma drop_true_app run l :
    Forall (fun g => f g = true) run -> drop_true (map f (run ++ l)) = drop_true (map f l).
  Proof. induction 1 as [|g run Hg _ IH]; simpl; [reflexivity|]. rewrite Hg. exact IH. Qed.

  Lemma drop_false_all post :
    Forall (fun g => f g = false) post -> drop_false (map f post) = [].
  Proof. induction 1 as [|g post Hg _ IH]; simpl; [reflexivity|]. rewrite Hg. exact IH. Qed.

  Lemma drop_true_none post :
    Forall (fun g => f g = false) post -> drop_true (map f post) = map f post.
  Proof. destruct 1 as [|g post Hg _]; simpl; [reflexivity|]. rewrite Hg. reflexivity. Qed.

  Lemma one_run_intro pre run post :
    Forall (fun g => f g = false) pre -> Forall (fun g => f g = true) run ->
    Forall (fun g => f g = false) post -> one_run (map f (pre ++ run ++ post)) = true.
  Proof.
    intros Hpre Hrun Hpost. unfold one_run. rewrite (drop_false_app _ _ Hpre).
    destruct Hrun as [|g run Hg Hrun].
    - simpl. rewrite (drop_false_all _ Hpost). reflexivity.
    - simpl. rewrite Hg. simpl. rewrite (drop_true_app _ _ Hrun), (drop_true_none _ Hpost).
      apply all_false_spec, Hpost.
  Qed.
End Shape.

(** ---- soundness: the oracle accepts only contiguous groups ---- *)
Lemma contiguous_b_sound_set gens grp :
  contiguous_b gens grp = true ->
  exists pre run post, gens = pre ++ run ++ post /\
    forall p, In p grp <-> In p (gs_paths run).
Proof.
  unfold contiguous_b. rewrite !andb_true_iff. intros [[Hsub Hwh] Hrun].
  apply one_run_split in Hrun as (pre & run & post & E & Hpre & Hr & Hpost).
  exists pre, run, post. split; [exact E|]. intro p. split.
  - intro Hp. rewrite forallb_forall in Hsub. specialize (Hsub p Hp). apply mem_spec in Hsub.
    apply in_gs_paths_inv in Hsub as (g & f & Hg & Hf & <-).
    assert (Ht : touched grp g = true) by (apply touched_spec; eauto).
    rewrite E in Hg. apply in_app_or in Hg as [Hg|Hg].
    { rewrite Forall_forall in Hpre. rewrite (Hpre g Hg) in Ht. discriminate. }
    apply in_app_or in Hg as [Hg|Hg].
    { eapply in_gs_paths; eauto. }
    { rewrite Forall_forall in Hpost. rewrite (Hpost g Hg) in Ht. discriminate. }
  - intro Hp. apply in_gs_paths_inv in Hp as (g & f & Hg & Hf & <-).
    rewrite Forall_forall in Hr. pose proof (Hr g Hg) as Ht.
    rewrite forallb_forall in Hwh.
    assert (Hgg : In g gens) by (rewrite E; apply in_or_app; right; apply in_or_app; left; exact Hg).
    specialize (Hwh g Hgg). rewrite Ht in Hwh. simpl in Hwh.
    apply (proj1 (whole_spec grp g) Hwh f Hf).
Qed.

Lemma contiguous_b_sound gens grp :
  NoDup (gs_paths gens) -> NoDup grp ->
  contiguous_b gens grp = true -> contiguous gens grp.
Proof.
  intros Hn Hg H. apply contiguous_b_sound_set in H as (pre & run & post & E & Hs).
  exists pre, run, post. split; [exact E|]. apply NoDup_Permutation; auto.
  rewrite E, !gs_paths_app in Hn. eapply NoDup_app_l, NoDup_app_r, Hn.
Qed.

(** ---- completeness: every contiguous group passes the oracle ---- *)
Lemma contiguous_b_complete gens grp :
  wf_gens gens -> contiguous gens grp -> contiguous_b gens grp = true.
Proof.
  intros [Hn Hne] (pre & run & post & E & Hperm).
  assert (Hs : forall p, In p grp <-> In p (gs_paths run)).
  { intro p. split; intro H; [eapply Permutation_in; eauto |
      eapply Permutation_in; [symmetry; eauto | exact H]]. }
  subst gens. rewrite !gs_paths_app in Hn.
  assert (Htouch : forall g, In g (pre ++ run ++ post) -> touched grp g = true -> In g run).
  { intros g Hg Ht. apply touched_spec in Ht as [f [Hf Hp]]. apply Hs in Hp.
    apply in_app_or in Hg as [Hg|Hg]; [|apply in_app_or in Hg as [Hg|Hg]; [exact Hg|]].
    - exfalso. eapply (NoDup_app_disj _ _ (f_path f) Hn); [eapply in_gs_paths; eauto|].
      apply in_or_app. left. exact Hp.
    - exfalso. apply NoDup_app_r in Hn.
      eapply (NoDup_app_disj _ _ (f_path f) Hn); [exact Hp | eapply in_gs_paths; eauto]. }
  unfold contiguous_b. rewrite !andb_true_iff. repeat split.
  - apply forallb_forall. intros p Hp. apply mem_spec. apply Hs in Hp.
    rewrite !gs_paths_app. apply in_or_app. right. apply in_or_app. left. exact Hp.
  - apply forallb_forall. intros g Hg. destruct (touched grp g) eqn:Ht; [|reflexivity]. simpl.
    apply whole_spec. intros f Hf. apply Hs. eapply in_gs_paths; eauto.
  - apply one_run_intro; apply Forall_forall; intros g Hg.
    + destruct (touched grp g) eqn:Ht; [|reflexivity]. exfalso.
      assert (Hin : In g (pre ++ run ++ post)) by (apply in_or_app; left; exact Hg).
      pose proof (Htouch g Hin Ht) as Hr.
      rewrite Forall_forall in Hne. specialize (Hne g Hin).
      destruct (g_files g) as [|f fs] eqn:Ef; [congruence|].
      eapply (NoDup_app_disj _ _ (f_path f) Hn).
      * eapply in_gs_paths; [exact Hg | rewrite Ef; left; reflexivity].
      * apply in_or_app. left. eapply in_gs_paths; [exact Hr | rewrite Ef; left; reflexivity].
    + assert (Hin : In g (pre ++ run ++ post))
        by (apply in_or_app; right; apply in_or_app; left; exact Hg).
      rewrite Forall_forall in Hne. specialize (Hne g Hin).
      destruct (g_files g) as [|f fs] eqn:Ef; [congruence|].
      apply touched_spec. exists f. split; [rewrite Ef; left; reflexivity|].
      apply Hs. eapply in_gs_paths; [exact Hg | rewrite Ef; left; reflexivity].
    + destruct (touched grp g) eqn:Ht; [|reflexivity]. exfalso.
      assert (Hin : In g (pre ++ run ++ post))
        by (apply in_or_app; right; apply in_or_app; right; exact Hg).
      pose proof (Htouch g Hin Ht) as Hr.
      rewrite Forall_forall in Hne. specialize (Hne g Hin).
      destruct (g_files g) as [|f fs] eqn:Ef; [congruence|].
      apply NoDup_app_r in Hn.
      eapply (NoDup_app_disj _ _ (f_path f) Hn).
      * eapply in_gs_paths; [exact Hr | rewrite Ef; left; reflexivity].
      * eapply in_gs_paths; [exact Hg | rewrite Ef; left; reflexivity].
Qed.

(** decidable well-formedness, for concrete witnesses *)
Definition wf_gens_b (gens : list gen) : bool :=
  nodup_b (gs_paths gens) && forallb (fun g => negb (is_nil (g_files g))) gens.

Lemma wf_gens_b_spec gens : wf_gens_b gens = true -> wf_gens gens.
Proof.
  unfold wf_gens_b, wf_gens. rewrite andb_true_iff, nodup_b_spec, forallb_forall.
  intros [H1 H2]. split; [exact H1|]. apply Forall_forall. intros g Hg E.
  specialize (H2 g Hg). rewrite E in H2. discriminate.
Qed.

Lemma not_contiguous_by_oracle gens groups :
  wf_gens_b gens = true -> forallb (contiguous_b gens) groups = false ->
  ~ Forall (contiguous gens) groups.
Proof.
  intros Hw Hb HF. apply wf_gens_b_spec in Hw.
  assert (X : forallb (contiguous_b gens) groups = true).
  { apply forallb_forall. intros grp Hg. rewrite Forall_forall in HF.
    apply contiguous_b_complete; auto. }
  congruence.
Qed.

(** ---- refutation witnesses ---- *)
Definition small : N := 10485760.
Definition g1 (id seq size fbc : N) : gen := mkG id [mkF (id * 1000 + seq) seq size fbc false].

(** (a) cold shard, nothing in use: generation 2 is maxed-out and is skipped. *)
Definition wit_cold_gens : list gen :=
  [g1 1 4 small 1000; g1 2 5 2147483649 1000; g1 3 4 small 1000; g1 4 4 small 1000].

Lemma wit_cold_out : snd (plan init wit_cold_gens true true) = [[1004; 3004; 4004]].
Proof. vm_compute. reflexivity. Qed.

Lemma wit_cold_refutes :
  wf_gens wit_cold_gens /\
  ~ Forall (contiguous wit_cold_gens) (snd (plan init wit_cold_gens true true)).
Proof.
  split; [apply wf_gens_b_spec; vm_compute; reflexivity|].
  apply not_contiguous_by_oracle; vm_compute; reflexivity.
Qed.

(** (b) ForceFull while a level-2 compaction holds the middle generations 2..5. *)
Definition wit_ff_gens : list gen :=
  [g1 1 4 small 1000; g1 2 2 small 1000; g1 3 2 small 1000; g1 4 2 small 1000;
   g1 5 2 small 1000; g1 6 4 small 1000; g1 7 4 small 1000].
Definition wit_ff_history : list call_t :=
  [(wit_ff_gens, OPlanLevel 2); (wit_ff_gens, OForceFull)].

Lemma wit_ff_state : in_use (exec init wit_ff_history) = [5002; 4002; 3002; 2002].
Proof. vm_compute. reflexivity. Qed.

Lemma wit_ff_out :
  snd (plan (exec init wit_ff_history) wit_ff_gens false true) = [[1004; 6004; 7004]].
Proof. vm_compute. reflexivity. Qed.

Lemma wit_ff_refutes :
  wf_gens wit_ff_gens /\
  ~ Forall (contiguous wit_ff_gens)
      (snd (plan (exec init wit_ff_history) wit_ff_gens false true)).
Proof.
  split; [apply wf_gens_b_spec; vm_compute; reflexivity|].
  apply not_contiguous_by_oracle; vm_compute; reflexivity.
Qed.
