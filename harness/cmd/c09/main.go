// C09 driver: the real tsm1.Cache (WriteMulti / Snapshot / ClearSnapshot / DeleteRange /
// Delete / Values / Size / Keys) on generated operation histories.
//
// (a) sequential histories: every op's response is recorded; one case = one history.
// (b) concurrent histories (<= 8 concurrent ops, 2-4 goroutines, used the way Engine uses
//
//	the cache: WriteMulti under a shared lock, Snapshot under the exclusive lock, only the
//	snapshot owner calls ClearSnapshot): invocation/response intervals are recorded, a
//	linearisation consistent with program order and real-time order is searched with the Go
//	transliteration of the model below (search engine only) and the linearised history is
//	emitted as an ordinary sequential case, so that the Coq model is the judge.
package main

import (
	"fmt"
	"math"
	"os"
	"runtime"
	"sort"
	"strconv"
	"strings"
	"sync"
	"sync/atomic"
	"time"

	"github.com/influxdata/influxdb/v2/tsdb"
	"github.com/influxdata/influxdb/v2/tsdb/engine/tsm1"
	"verifh/vh"
)

// ---------- case representation ----------

type jpoint struct {
	TS int64  `json:"ts"`
	T  string `json:"t"` // f i s b u
	V  string `json:"v"` // f: decimal of the IEEE bits; i,u: decimal; b: true/false; s: the string
}
type jkv struct {
	Key string   `json:"key"`
	Pts []jpoint `json:"pts"`
}
type jresp struct {
	Kind string   `json:"kind"` // ok limit conflict inprogress snap vals size keys other
	N    uint64   `json:"n,omitempty"`
	Vals []jpoint `json:"vals,omitempty"`
	Keys []string `json:"keys,omitempty"`
	Msg  string   `json:"msg,omitempty"`
}
type jop struct {
	Op      string   `json:"op"` // write snapshot clear delrange delete values size keys
	Batch   []jkv    `json:"batch,omitempty"`
	Keys    []string `json:"keys,omitempty"`
	Min     int64    `json:"min,omitempty"`
	Max     int64    `json:"max,omitempty"`
	Success bool     `json:"success,omitempty"`
	Key     string   `json:"key,omitempty"`
	Resp    jresp    `json:"impl_resp"`
}
type jinterval struct {
	G   int    `json:"goroutine"`
	Inv int64  `json:"inv"`
	Ret int64  `json:"ret"`
	Op  string `json:"op"`
}
type jcase struct {
	Mode string `json:"mode"` // seq | conc (ops = prefix ++ found linearisation ++ final observation)
	Max  uint64 `json:"max_size"`
	Ops  []jop  `json:"ops"`
	// concurrent histories only (information; a replay re-executes Ops sequentially)
	Intervals   []jinterval `json:"concurrent_intervals,omitempty"`
	Note        string      `json:"note,omitempty"`
	ConcPrefix  []jop       `json:"concurrent_program_prefix,omitempty"`          // a replay re-executes this program
	ConcThreads [][]jop     `json:"concurrent_program_threads,omitempty"`         // (many schedules) instead of Ops
	FinalObs    []jop       `json:"final_observation_after_quiescence,omitempty"` // non-linearisable executions only
}

func toValue(p jpoint) tsm1.Value {
	switch p.T {
	case "f":
		b, _ := strconv.ParseUint(p.V, 10, 64)
		return tsm1.NewValue(p.TS, math.Float64frombits(b))
	case "i":
		i, _ := strconv.ParseInt(p.V, 10, 64)
		return tsm1.NewValue(p.TS, i)
	case "u":
		u, _ := strconv.ParseUint(p.V, 10, 64)
		return tsm1.NewValue(p.TS, u)
	case "b":
		return tsm1.NewValue(p.TS, p.V == "true")
	default:
		return tsm1.NewValue(p.TS, p.V)
	}
}
func fromValue(v tsm1.Value) jpoint {
	p := jpoint{TS: v.UnixNano()}
	switch x := v.Value().(type) {
	case float64:
		p.T, p.V = "f", strconv.FormatUint(math.Float64bits(x), 10)
	case int64:
		p.T, p.V = "i", strconv.FormatInt(x, 10)
	case uint64:
		p.T, p.V = "u", strconv.FormatUint(x, 10)
	case bool:
		p.T, p.V = "b", strconv.FormatBool(x)
	case string:
		p.T, p.V = "s", x
	default:
		p.T, p.V = "?", fmt.Sprint(x)
	}
	return p
}

// exec runs one op on the real cache and returns the canonical response.
func exec(c *tsm1.Cache, o *jop) (r jresp) {
	if p := vh.Guard(func() {
		switch o.Op {
		case "write":
			m := make(map[string][]tsm1.Value, len(o.Batch))
			for _, kv := range o.Batch {
				vs := make([]tsm1.Value, 0, len(kv.Pts)) // fresh slice: the entry may keep and sort it
				for _, p := range kv.Pts {
					vs = append(vs, toValue(p))
				}
				m[kv.Key] = vs
			}
			err := c.WriteMulti(m)
			switch {
			case err == nil:
				r.Kind = "ok"
			case err == tsdb.ErrFieldTypeConflict:
				r.Kind = "conflict"
			case strings.HasPrefix(err.Error(), "cache-max-memory-size exceeded"):
				r.Kind = "limit"
			default:
				r.Kind, r.Msg = "other", err.Error()
			}
		case "snapshot":
			s, err := c.Snapshot()
			switch {
			case err == nil:
				r.Kind, r.N = "snap", s.Size()
			case err == tsm1.ErrSnapshotInProgress:
				r.Kind = "inprogress"
			default:
				r.Kind, r.Msg = "other", err.Error()
			}
		case "clear":
			c.ClearSnapshot(o.Success)
			r.Kind = "ok"
		case "delrange":
			c.DeleteRange(bkeys(o.Keys), o.Min, o.Max)
			r.Kind = "ok"
		case "delete":
			c.Delete(bkeys(o.Keys))
			r.Kind = "ok"
		case "values":
			vs := c.Values([]byte(o.Key))
			r.Kind = "vals"
			for _, v := range vs {
				r.Vals = append(r.Vals, fromValue(v))
			}
		case "size":
			r.Kind, r.N = "size", c.Size()
		case "keys":
			r.Kind = "keys"
			for _, k := range c.Keys() {
				r.Keys = append(r.Keys, string(k))
			}
		default:
			r.Kind, r.Msg = "other", "unknown op "+o.Op
		}
	}); p != "" {
		r = jresp{Kind: "other", Msg: "panic: " + p}
	}
	return r
}
func bkeys(ks []string) [][]byte {
	out := make([][]byte, len(ks))
	for i, k := range ks {
		out[i] = []byte(k)
	}
	return out
}

// ---------- Gallina rendering ----------

func pointTerm(p jpoint) string {
	var v string
	switch p.T {
	case "f":
		v = "VFloat " + p.V + "%N"
	case "i":
		i, _ := strconv.ParseInt(p.V, 10, 64)
		v = "VInt " + vh.Z(i)
	case "u":
		v = "VUns " + p.V + "%N"
	case "b":
		v = "VBool " + p.V
	default:
		v = "VStr " + vh.Bytes([]byte(p.V))
	}
	return "(" + vh.Z(p.TS) + ", " + v + ")"
}
func pointsTerm(ps []jpoint) string {
	xs := make([]string, len(ps))
	for i, p := range ps {
		xs[i] = pointTerm(p)
	}
	return vh.List(xs)
}
func keyTerm(k string) string { return vh.Bytes([]byte(k)) }
func keysTerm(ks []string) string {
	xs := make([]string, len(ks))
	for i, k := range ks {
		xs[i] = keyTerm(k)
	}
	return vh.List(xs)
}
func opTerm(o *jop) string {
	switch o.Op {
	case "write":
		xs := make([]string, len(o.Batch))
		for i, kv := range o.Batch {
			xs[i] = "(" + keyTerm(kv.Key) + ", " + pointsTerm(kv.Pts) + ")"
		}
		return "OWrite " + vh.List(xs)
	case "snapshot":
		return "OSnapshot"
	case "clear":
		return "OClear " + vh.Bool(o.Success)
	case "delrange":
		return "ODelRange " + keysTerm(o.Keys) + " " + vh.Z(o.Min) + " " + vh.Z(o.Max)
	case "delete":
		return "ODelete " + keysTerm(o.Keys)
	case "values":
		return "OValues " + keyTerm(o.Key)
	case "size":
		return "OSize"
	default:
		return "OKeys"
	}
}
func zU(u uint64) string { return fmt.Sprintf("%d%%Z", u) }
func respTerm(r *jresp) string {
	switch r.Kind {
	case "ok":
		return "ROk"
	case "limit":
		return "RLimit"
	case "conflict":
		return "RConflict"
	case "inprogress":
		return "RInProgress"
	case "snap":
		return "RSnap " + zU(r.N)
	case "vals":
		return "RVals " + pointsTerm(r.Vals)
	case "size":
		return "RSize " + zU(r.N)
	case "keys":
		return "RKeys " + keysTerm(r.Keys)
	}
	return "ROther"
}
func caseTerm(c *jcase) string {
	xs := make([]string, len(c.Ops))
	for i := range c.Ops {
		xs[i] = "(" + opTerm(&c.Ops[i]) + ", " + respTerm(&c.Ops[i].Resp) + ")"
	}
	return "{| c_max := " + zU(c.Max) + "; c_hist := " + vh.List(xs) + " |}"
}

// ---------- known-finding shapes (decided from the INPUTS only) ----------

const (
	sigDrift    = "size-overreport-after-dedup"
	sigSnapType = "type-conflict-vs-snapshot-accepted"
)

func shapeSig(ops []jop) string {
	// A: two written points with the same key and timestamp anywhere in the history
	seen := map[string]bool{}
	for i := range ops {
		if ops[i].Op != "write" {
			continue
		}
		for _, kv := range ops[i].Batch {
			for _, p := range kv.Pts {
				id := kv.Key + "\x00" + strconv.FormatInt(p.TS, 10)
				if seen[id] {
					return sigDrift
				}
				seen[id] = true
			}
		}
	}
	// B: two writes to a key with different point types and a Snapshot op in between
	type occ struct {
		types map[string]bool
		snaps int
	}
	hist := map[string][]occ{}
	snaps := 0
	for i := range ops {
		if ops[i].Op == "snapshot" {
			snaps++
		}
		if ops[i].Op != "write" {
			continue
		}
		for _, kv := range ops[i].Batch {
			ts := map[string]bool{}
			for _, p := range kv.Pts {
				ts[p.T] = true
			}
			for _, prev := range hist[kv.Key] {
				if prev.snaps < snaps {
					for a := range prev.types {
						for b := range ts {
							if a != b {
								return sigSnapType
							}
						}
					}
				}
			}
			hist[kv.Key] = append(hist[kv.Key], occ{ts, snaps})
		}
	}
	return ""
}

// ---------- Go transliteration of coq/Model/C09.v (linearisation SEARCH ENGINE only) ----------

type ment struct {
	vals  []jpoint
	vtype string // "" = undefined (0)
}
type mstate struct {
	hot, snap      map[string]*ment
	size, snapsize int64
	max            int64
	snapshotting   bool
}

func newM(max uint64) *mstate {
	return &mstate{hot: map[string]*ment{}, snap: map[string]*ment{}, max: int64(max)}
}
func cloneStore(m map[string]*ment) map[string]*ment {
	o := make(map[string]*ment, len(m))
	for k, e := range m {
		o[k] = &ment{vals: append([]jpoint(nil), e.vals...), vtype: e.vtype}
	}
	return o
}
func (s *mstate) clone() *mstate {
	c := *s
	c.hot, c.snap = cloneStore(s.hot), cloneStore(s.snap)
	return &c
}
func psize(p jpoint) int64 {
	switch p.T {
	case "s":
		return 8 + int64(len(p.V))
	case "b":
		return 9
	}
	return 16
}
func valsSize(ps []jpoint) (n int64) {
	for _, p := range ps {
		n += psize(p)
	}
	return
}
func mdedup(l []jpoint) []jpoint {
	strict := true
	for i := 1; i < len(l); i++ {
		if l[i-1].TS >= l[i].TS {
			strict = false
		}
	}
	if strict {
		return l
	}
	s := append([]jpoint(nil), l...)
	sort.SliceStable(s, func(i, j int) bool { return s[i].TS < s[j].TS })
	out := s[:0:0]
	for i, p := range s {
		if i+1 < len(s) && s[i+1].TS == p.TS {
			continue
		}
		out = append(out, p)
	}
	return out
}
func allType(t string, ps []jpoint) bool {
	for _, p := range ps {
		if p.T != t {
			return false
		}
	}
	return true
}
func (s *mstate) step(o *jop) (r jresp) {
	switch o.Op {
	case "write":
		var added int64
		for _, kv := range o.Batch {
			added += valsSize(kv.Pts)
		}
		if s.max > 0 && s.size+s.snapsize+added > s.max {
			return jresp{Kind: "limit"}
		}
		s.size += added
		werr := false
		for _, kv := range o.Batch {
			e := s.hot[kv.Key]
			if e != nil {
				if len(kv.Pts) == 0 {
					continue
				}
				if e.vtype != "" && !allType(e.vtype, kv.Pts) {
					werr = true
					s.size -= valsSize(kv.Pts)
					continue
				}
				if len(e.vals) == 0 {
					if !allType(kv.Pts[0].T, kv.Pts) {
						werr = true
						s.size -= valsSize(kv.Pts)
						continue
					}
					e.vals, e.vtype = append([]jpoint(nil), kv.Pts...), kv.Pts[0].T
				} else {
					e.vals = append(e.vals, kv.Pts...)
				}
				continue
			}
			if len(kv.Pts) > 0 && !allType(kv.Pts[0].T, kv.Pts) {
				werr = true
				s.size -= valsSize(kv.Pts)
				continue
			}
			ne := &ment{vals: append([]jpoint(nil), kv.Pts...)}
			if len(kv.Pts) > 0 {
				ne.vtype = kv.Pts[0].T
			}
			s.hot[kv.Key] = ne
			s.size += int64(len(kv.Key))
		}
		if werr {
			return jresp{Kind: "conflict"}
		}
		return jresp{Kind: "ok"}
	case "snapshot":
		if s.snapshotting {
			return jresp{Kind: "inprogress"}
		}
		s.snapshotting = true
		if s.snapsize > 0 {
			return jresp{Kind: "snap", N: uint64(s.snapsize)}
		}
		s.snap, s.hot = s.hot, map[string]*ment{}
		s.snapsize, s.size = s.size+s.snapsize, 0
		return jresp{Kind: "snap", N: uint64(s.snapsize)}
	case "clear":
		s.snapshotting = false
		if o.Success {
			s.snap, s.snapsize = map[string]*ment{}, 0
		}
		return jresp{Kind: "ok"}
	case "delrange", "delete":
		mn, mx := o.Min, o.Max
		if o.Op == "delete" {
			mn, mx = math.MinInt64, math.MaxInt64
		}
		for _, k := range o.Keys {
			e := s.hot[k]
			if e == nil {
				continue
			}
			orig := valsSize(e.vals)
			if mn == math.MinInt64 && mx == math.MaxInt64 {
				s.size -= orig + int64(len(k))
				delete(s.hot, k)
				continue
			}
			var kept []jpoint
			for _, p := range mdedup(e.vals) {
				if !(mn <= p.TS && p.TS <= mx) {
					kept = append(kept, p)
				}
			}
			e.vals = kept
			if len(kept) == 0 {
				delete(s.hot, k)
				s.size -= orig + int64(len(k))
				continue
			}
			s.size -= orig - valsSize(kept)
		}
		return jresp{Kind: "ok"}
	case "values":
		var all []jpoint
		if e := s.snap[o.Key]; e != nil {
			e.vals = mdedup(e.vals)
			all = append(all, e.vals...)
		}
		if e := s.hot[o.Key]; e != nil {
			e.vals = mdedup(e.vals)
			all = append(all, e.vals...)
		}
		return jresp{Kind: "vals", Vals: mdedup(all)}
	case "size":
		return jresp{Kind: "size", N: uint64(s.size + s.snapsize)}
	case "keys":
		var ks []string
		for k, e := range s.hot {
			if len(e.vals) > 0 {
				ks = append(ks, k)
			}
		}
		sort.Strings(ks)
		return jresp{Kind: "keys", Keys: ks}
	}
	return jresp{Kind: "other"}
}
func respKey(r *jresp) string {
	var b strings.Builder
	b.WriteString(r.Kind)
	fmt.Fprintf(&b, "|%d|", r.N)
	for _, p := range r.Vals {
		fmt.Fprintf(&b, "%d:%s:%q,", p.TS, p.T, p.V)
	}
	b.WriteString("|")
	for _, k := range r.Keys {
		fmt.Fprintf(&b, "%q,", k)
	}
	return b.String()
}

// ---------- running histories ----------

var allKeys = []string{"a", "bb", "ccc"}

func finalObs() []jop {
	ops := []jop{{Op: "size"}}
	for _, k := range allKeys {
		ops = append(ops, jop{Op: "values", Key: k})
	}
	ops = append(ops, jop{Op: "keys"}, jop{Op: "size"})
	return ops
}

func runSeq(w *vh.W, c *jcase) {
	cache := tsm1.NewCache(c.Max, tsdb.EngineTags{})
	bad := ""
	accepted, mutators := 0, 0
	for i := range c.Ops {
		o := &c.Ops[i]
		o.Resp = exec(cache, o)
		if o.Resp.Kind == "other" && bad == "" {
			bad = fmt.Sprintf("op %d (%s): %s", i, o.Op, o.Resp.Msg)
		}
		if o.Op == "write" && (o.Resp.Kind == "ok" || o.Resp.Kind == "conflict") {
			accepted++
		}
		switch o.Op {
		case "snapshot", "clear", "delrange", "delete":
			mutators++
		}
		if o.Op == "write" || o.Op == "snapshot" {
			w.Count("resp_"+o.Op, o.Resp.Kind)
		}
	}
	sig := shapeSig(c.Ops)
	idx := w.Add(caseTerm(c), c, accepted >= 1 && mutators >= 1, sig)
	if bad != "" {
		w.Fail(idx, "the real cache panicked or returned an unknown error: "+bad, "")
	}
	w.Count("mode", c.Mode)
	w.Count("shape", "sig="+sig)
	w.Count("max_size", fmt.Sprint(c.Max))
}

type cop struct {
	g        int
	op       jop
	inv, ret int64
}

// runConc executes prefix sequentially, then the threads concurrently with the Engine's
// discipline (WriteMulti under RLock, Snapshot under Lock), then the final observation.
func runConc(maxSize uint64, prefix []jop, threads [][]jop, barrier bool) ([]jop, []cop, []jop) {
	cache := tsm1.NewCache(maxSize, tsdb.EngineTags{})
	pre := append([]jop(nil), prefix...)
	for i := range pre {
		pre[i].Resp = exec(cache, &pre[i])
	}
	var clock atomic.Int64
	var emu sync.RWMutex
	var wg sync.WaitGroup
	start := make(chan struct{})
	res := make([][]cop, len(threads))
	// per-round spin barrier: the i-th ops of all goroutines are issued (nearly) simultaneously
	rounds := 0
	for _, t := range threads {
		rounds = max(rounds, len(t))
	}
	parts := make([]int32, rounds)
	for _, t := range threads {
		for i := range t {
			parts[i]++
		}
	}
	arrived := make([]atomic.Int32, rounds)
	for g := range threads {
		wg.Add(1)
		go func(g int) {
			defer wg.Done()
			<-start
			for i, o := range threads[g] {
				o := o
				if barrier {
					arrived[i].Add(1)
					for spin := 0; arrived[i].Load() < parts[i]; spin++ {
						if spin&0xfff == 0xfff {
							runtime.Gosched()
						}
					}
				}
				inv := clock.Add(1)
				switch o.Op {
				case "write":
					emu.RLock()
					o.Resp = exec(cache, &o)
					emu.RUnlock()
				case "snapshot", "delrange", "delete":
					// Snapshot: as Engine.WriteSnapshot.  DeleteRange/Delete: serialised against
					// WriteMulti by the DRIVER (Engine does not): WriteMulti || DeleteRange on one
					// key is a genuine race of the real cache (finding write-delete-race), probed
					// separately in probes().
					emu.Lock()
					o.Resp = exec(cache, &o)
					emu.Unlock()
				default:
					o.Resp = exec(cache, &o)
				}
				ret := clock.Add(1)
				res[g] = append(res[g], cop{g, o, inv, ret})
			}
		}(g)
	}
	close(start)
	wg.Wait()
	var ops []cop
	for g := range res {
		ops = append(ops, res[g]...)
	}
	fin := finalObs()
	for i := range fin {
		fin[i].Resp = exec(cache, &fin[i])
	}
	return pre, ops, fin
}

// linearise searches an order of ops (program order + real-time order respected) under which
// the model gives every observed response and the observed final observation.
func linearise(max uint64, pre []jop, ops []cop, fin []jop) ([]int, bool) {
	s0 := newM(max)
	for i := range pre {
		o := pre[i]
		s0.step(&o)
	}
	n := len(ops)
	must := make([][]int, n) // predecessors
	for i := 0; i < n; i++ {
		for j := 0; j < n; j++ {
			if i != j && ops[j].ret < ops[i].inv {
				must[i] = append(must[i], j)
			}
		}
	}
	placed := make([]bool, n)
	order := make([]int, 0, n)
	var dfs func(s *mstate) bool
	dfs = func(s *mstate) bool {
		if len(order) == n {
			t := s.clone()
			for i := range fin {
				o := fin[i]
				r := t.step(&o)
				if respKey(&r) != respKey(&fin[i].Resp) {
					return false
				}
			}
			return true
		}
	next:
		for i := 0; i < n; i++ {
			if placed[i] {
				continue
			}
			for _, j := range must[i] {
				if !placed[j] {
					continue next
				}
			}
			t := s.clone()
			o := ops[i].op
			r := t.step(&o)
			if respKey(&r) != respKey(&ops[i].op.Resp) {
				continue
			}
			placed[i] = true
			order = append(order, i)
			if dfs(t) {
				return true
			}
			order = order[:len(order)-1]
			placed[i] = false
		}
		return false
	}
	if dfs(s0) {
		return order, true
	}
	return nil, false
}

func opSummary(o *jop) string {
	switch o.Op {
	case "write":
		var b strings.Builder
		b.WriteString("write")
		for _, kv := range o.Batch {
			fmt.Fprintf(&b, " %s:", kv.Key)
			for _, p := range kv.Pts {
				fmt.Fprintf(&b, "(%d,%s%s)", p.TS, p.T, p.V)
			}
		}
		return b.String() + " -> " + o.Resp.Kind
	case "values":
		return fmt.Sprintf("values %s -> %d pts", o.Key, len(o.Resp.Vals))
	case "delrange":
		return fmt.Sprintf("delrange %v [%d,%d]", o.Keys, o.Min, o.Max)
	case "delete":
		return fmt.Sprintf("delete %v", o.Keys)
	case "clear":
		return fmt.Sprintf("clear %v", o.Success)
	}
	return o.Op + " -> " + o.Resp.Kind
}

type execution struct {
	pre, fin []jop
	ops      []cop
	order    []int
	overlap  int
}

func overlapOf(ops []cop) (n int) {
	for i := range ops {
		for j := range ops {
			if i < j && ops[i].g != ops[j].g && ops[i].inv < ops[j].ret && ops[j].inv < ops[i].ret {
				n++
			}
		}
	}
	return
}

// doConc executes the concurrent program `execs` times (different schedules), checks EVERY
// execution for linearisability, and emits the linearisation of the execution with the most
// real-time overlap.  The program fails if >= 3 (stress programs: >= 2) executions are not
// linearisable (a non-reproducible miss is counted in the evidence, not reported: see checks/C09.json).
func doConc(w *vh.W, max uint64, prefix []jop, threads [][]jop, barrier bool, execs int) {
	tolerated := 2 // random programs: 12 schedules
	if execs >= 100 {
		tolerated = 1 // stress programs (no known racy combination inside): two misses are reported
	}
	var best, bad *execution
	fails := 0
	for a := 0; a < execs; a++ {
		e := &execution{}
		e.pre, e.ops, e.fin = runConc(max, prefix, threads, barrier)
		e.overlap = overlapOf(e.ops)
		var ok bool
		e.order, ok = linearise(max, e.pre, e.ops, e.fin)
		if !ok {
			fails++
			if os.Getenv("C09DBG") != "" {
				fmt.Fprintf(os.Stderr, "NONLIN max=%d\n", max)
				for _, o := range e.pre {
					fmt.Fprintf(os.Stderr, "  pre %s\n", opSummary(&o))
				}
				for _, o := range e.ops {
					fmt.Fprintf(os.Stderr, "  g%d [%d,%d] %s %v\n", o.g, o.inv, o.ret, opSummary(&o.op), o.op.Resp.Vals)
				}
				for _, o := range e.fin {
					fmt.Fprintf(os.Stderr, "  fin %s %v %d\n", opSummary(&o), o.Resp.Vals, o.Resp.N)
				}
			}
			if bad == nil {
				bad = e
			}
			continue
		}
		if best == nil || e.overlap > best.overlap {
			best = e
		}
	}
	failed := fails > tolerated || best == nil
	e := best
	if failed {
		e = bad
	}
	c := &jcase{Mode: "conc", Max: max, ConcPrefix: prefix, ConcThreads: threads}
	for _, o := range e.ops {
		c.Intervals = append(c.Intervals, jinterval{o.g, o.inv, o.ret, opSummary(&o.op)})
	}
	sort.Slice(c.Intervals, func(i, j int) bool { return c.Intervals[i].Inv < c.Intervals[j].Inv })
	c.Ops = append(c.Ops, e.pre...)
	all := append([]jop(nil), e.pre...)
	if !failed {
		for _, i := range e.order {
			c.Ops = append(c.Ops, e.ops[i].op)
		}
		c.Ops = append(c.Ops, e.fin...)
		all = c.Ops
		c.Note = "ops = sequential prefix ++ the linearisation found for the concurrent part ++ final observation"
	} else {
		for _, o := range e.ops {
			all = append(all, o.op)
		}
		c.FinalObs = e.fin
		c.Note = "NO linearisation of the concurrent part (see concurrent_intervals) explains the responses and the final state; ops = sequential prefix only"
	}
	idx := w.Add(caseTerm(c), c, e.overlap > 0, shapeSig(all))
	if failed {
		w.Fail(idx, fmt.Sprintf("concurrent history of %d ops on %d goroutines: %d of %d executions are not linearisable w.r.t. the sequential model (intervals of one of them in the case)", len(e.ops), len(threads), fails, execs), "")
	} else if fails > 0 {
		w.Count("conc_transient_nonlinearisable_executions", fmt.Sprint(fails))
	}
	w.Count("mode", "conc")
	w.Count("conc_threads", fmt.Sprint(len(threads)))
	w.Count("conc_overlapping_pairs", fmt.Sprint(min(e.overlap, 9)))
	w.Count("conc_linearisable", fmt.Sprint(!failed))
}

// ---------- generators ----------

type gen struct {
	w      *vh.W
	uniq   int
	unique bool // value-unique payloads (concurrent histories)
}

func (g *gen) pt(ts int64, t string) jpoint {
	r := g.w.Rng
	g.uniq++
	n := int64(r.IntN(3))
	if g.unique {
		n = int64(g.uniq)
	}
	switch t {
	case "f":
		return jpoint{ts, "f", strconv.FormatUint(math.Float64bits(float64(n)+0.5), 10)}
	case "i":
		return jpoint{ts, "i", strconv.FormatInt(n-1, 10)}
	case "u":
		return jpoint{ts, "u", strconv.FormatInt(n, 10)}
	case "b":
		return jpoint{ts, "b", strconv.FormatBool(n%2 == 1)}
	}
	return jpoint{ts, "s", strings.Repeat("x", int(n%4)) + strconv.FormatInt(n, 10)}
}

var home = map[string]string{"a": "f", "bb": "i", "ccc": "s", "zz": "b"}
var otherTypes = []string{"f", "i", "s", "b", "u"}

func (g *gen) typ(k string) string {
	if g.w.Rng.IntN(6) == 0 {
		return otherTypes[g.w.Rng.IntN(len(otherTypes))]
	}
	return home[k]
}
func (g *gen) kv(k string, maxPts int) jkv {
	r := g.w.Rng
	n := 1 + r.IntN(maxPts)
	if !g.unique && r.IntN(25) == 0 {
		n = 0
	}
	t := g.typ(k)
	kv := jkv{Key: k, Pts: []jpoint{}}
	for i := 0; i < n; i++ {
		pt := t
		if !g.unique && r.IntN(30) == 0 {
			pt = otherTypes[r.IntN(len(otherTypes))] // mixed-type batch entry
		}
		kv.Pts = append(kv.Pts, g.pt(int64(1+r.IntN(6)), pt))
	}
	return kv
}
func (g *gen) write(maxKeys int) jop {
	r := g.w.Rng
	perm := r.Perm(len(allKeys))
	n := 1 + r.IntN(maxKeys)
	o := jop{Op: "write"}
	for i := 0; i < n; i++ {
		o.Batch = append(o.Batch, g.kv(allKeys[perm[i]], 3))
	}
	sort.Slice(o.Batch, func(i, j int) bool { return o.Batch[i].Key < o.Batch[j].Key })
	return o
}

var bounds = []int64{math.MinInt64, 0, 1, 2, 3, 4, 5, 6, 7, math.MaxInt64}

func (g *gen) delrange() jop {
	r := g.w.Rng
	o := jop{Op: "delrange"}
	pool := []string{"a", "bb", "ccc", "zz"}
	n := 1 + r.IntN(3)
	for i := 0; i < n; i++ {
		o.Keys = append(o.Keys, pool[r.IntN(len(pool))])
	}
	switch r.IntN(6) {
	case 0:
		o.Min, o.Max = math.MinInt64, math.MaxInt64
	case 1:
		o.Min, o.Max = math.MinInt64, int64(r.IntN(7))
	case 2:
		o.Min, o.Max = int64(r.IntN(7)), math.MaxInt64
	default:
		o.Min, o.Max = bounds[r.IntN(len(bounds))], bounds[r.IntN(len(bounds))]
		if o.Min > o.Max && r.IntN(4) != 0 {
			o.Min, o.Max = o.Max, o.Min
		}
	}
	return o
}

var maxSizes = []uint64{0, 0, 0, 10, 40, 66, 100, 200, 200, 1000, 1000}

func (g *gen) seqCase() *jcase {
	r := g.w.Rng
	c := &jcase{Mode: "seq", Max: maxSizes[r.IntN(len(maxSizes))]}
	n := 5 + r.IntN(14)
	snapObj := false // ClearSnapshot before the first Snapshot dereferences a nil snapshot: never generated
	for i := 0; i < n; i++ {
		x := r.IntN(100)
		switch {
		case x < 40:
			c.Ops = append(c.Ops, g.write(3))
		case x < 55:
			c.Ops = append(c.Ops, jop{Op: "values", Key: append(allKeys, "zz")[r.IntN(4)]})
		case x < 64:
			c.Ops = append(c.Ops, jop{Op: "snapshot"})
			snapObj = true
		case x < 72:
			if snapObj {
				c.Ops = append(c.Ops, jop{Op: "clear", Success: r.IntN(3) != 0})
			} else {
				c.Ops = append(c.Ops, jop{Op: "size"})
			}
		case x < 83:
			c.Ops = append(c.Ops, g.delrange())
		case x < 87:
			c.Ops = append(c.Ops, jop{Op: "delete", Keys: []string{append(allKeys, "zz")[r.IntN(4)]}})
		case x < 95:
			c.Ops = append(c.Ops, jop{Op: "size"})
		default:
			c.Ops = append(c.Ops, jop{Op: "keys"})
		}
	}
	c.Ops = append(c.Ops, finalObs()...)
	return c
}

// concurrent history: <= 8 concurrent ops on 2-4 goroutines; single-key value-unique writes;
// only goroutine 0 (the "flusher") issues Snapshot / ClearSnapshot, alternating, as the
// snapshot owner does in Engine.WriteSnapshot.
func (g *gen) concCase() (uint64, []jop, [][]jop) {
	r := g.w.Rng
	g.unique = true
	defer func() { g.unique = false }()
	max := []uint64{0, 0, 100000, 5}[r.IntN(4)] // unlimited, never binding, or rejecting every write
	var prefix []jop                            // may be empty: the concurrent ops are then the FIRST ops on a fresh cache (lazy Cache.init)
	snapshotting := false
	for i, n := 0, r.IntN(4); i < n; i++ {
		prefix = append(prefix, g.write(2))
	}
	if r.IntN(3) == 0 {
		prefix = append(prefix, jop{Op: "snapshot"})
		snapshotting = true
		if r.IntN(2) == 0 {
			prefix = append(prefix, g.write(2))
		}
	}
	nt := 2 + r.IntN(3)
	total := nt + r.IntN(8-nt+1)
	threads := make([][]jop, nt)
	flusher := r.IntN(2) == 0
	for i := 0; i < total; i++ {
		t := i % nt
		if i >= nt {
			t = r.IntN(nt)
		}
		if t == 0 && flusher {
			if snapshotting {
				threads[0] = append(threads[0], jop{Op: "clear", Success: r.IntN(3) != 0})
			} else {
				threads[0] = append(threads[0], jop{Op: "snapshot"})
			}
			snapshotting = !snapshotting
			continue
		}
		k := allKeys[r.IntN(2+r.IntN(2))]
		x := r.IntN(100)
		switch {
		case x < 55:
			o := jop{Op: "write", Batch: []jkv{g.kv(k, 2)}}
			for j := range o.Batch[0].Pts {
				o.Batch[0].Pts[j].TS = int64(1 + r.IntN(4))
			}
			threads[t] = append(threads[t], o)
		case x < 80:
			threads[t] = append(threads[t], jop{Op: "values", Key: k})
		case x < 93:
			o := g.delrange()
			o.Keys = []string{k}
			threads[t] = append(threads[t], o)
		default:
			threads[t] = append(threads[t], jop{Op: "delete", Keys: []string{k}})
		}
	}
	return max, prefix, threads
}

// ---------- hand-picked regression histories ----------

func P(ts int64, t string, v string) jpoint { return jpoint{ts, t, v} }
func W(kvs ...jkv) jop                      { return jop{Op: "write", Batch: kvs} }
func KV(k string, ps ...jpoint) jkv {
	if ps == nil {
		ps = []jpoint{}
	}
	return jkv{Key: k, Pts: ps}
}

func handPicked() []*jcase {
	f1, f2, f3 := P(1, "f", "4607182418800017408"), P(1, "f", "4611686018427387904"), P(5, "f", "4613937818241073152")
	i2, i7 := P(2, "i", "7"), P(4, "i", "-3")
	mk := func(max uint64, ops ...jop) *jcase {
		return &jcase{Mode: "seq", Max: max, Ops: append(ops, finalObs()...)}
	}
	return []*jcase{
		// duplicate timestamp, read, delete all: size stays 16 on an empty cache (finding A)
		mk(0, W(KV("a", f1, f2)), jop{Op: "size"}, jop{Op: "values", Key: "a"}, jop{Op: "size"}, jop{Op: "delete", Keys: []string{"a"}}),
		// same without the read: accounting exact
		mk(0, W(KV("a", f1, f2)), jop{Op: "delete", Keys: []string{"a"}}),
		// partial delete over a duplicate
		mk(0, W(KV("a", f1, f2, f3)), jop{Op: "delrange", Keys: []string{"a"}, Min: 5, Max: 5}),
		// type conflict against a snapshot-only key is accepted (finding B), then hot conflict rejected for that key only
		mk(0, W(KV("a", f1)), jop{Op: "snapshot"}, W(KV("a", i2)), jop{Op: "values", Key: "a"}, W(KV("a", f3), KV("bb", i7))),
		// empty write creates the key (+len), mixed batch rejected for the empty entry and for a new key
		mk(0, W(KV("bb")), jop{Op: "size"}, jop{Op: "keys"}, W(KV("bb", f3, i7)), W(KV("ccc", f3, i7))),
		// limit: 17 fits in 30, the second write is rejected atomically although its other key would fit alone
		mk(30, W(KV("a", f3)), W(KV("a", f1), KV("bb", i2)), W(KV("bb", P(1, "b", "true")))),
		// limit boundary: exactly max is accepted (n > limit rejects)
		mk(33, W(KV("a", f1)), W(KV("a", f3)), W(KV("a", f2))),
		// failed snapshot, retry returns the old snapshot without swapping, then success
		mk(0, W(KV("a", f1)), jop{Op: "snapshot"}, W(KV("a", f3)), jop{Op: "snapshot"}, jop{Op: "clear", Success: false},
			jop{Op: "snapshot"}, jop{Op: "values", Key: "a"}, jop{Op: "clear", Success: true}, jop{Op: "snapshot"}, jop{Op: "clear", Success: true}),
		// delete range does not reach the snapshot; hot wins over snapshot on equal timestamps
		mk(0, W(KV("a", f1, f3)), jop{Op: "snapshot"}, W(KV("a", f2)), jop{Op: "values", Key: "a"},
			jop{Op: "delrange", Keys: []string{"a", "a", "zz"}, Min: math.MinInt64, Max: 3}, jop{Op: "values", Key: "a"}),
		// min > max deletes nothing
		mk(0, W(KV("a", f1, f3)), jop{Op: "delrange", Keys: []string{"a"}, Min: 5, Max: 1}),
	}
}

// ---------- probes for the confirmed CONCURRENCY defects (nondeterministic; known findings) ----------

const (
	sigInitRace  = "" // repaired (Cache.init installs the ring before publishing the flag): a regression is a VIOLATION
	sigWriteDel  = "write-delete-race-leaks-size"
	sigLimitRace = "limit-check-not-atomic"
)

type jprobe struct {
	Mode      string `json:"mode"` // probe
	Probe     string `json:"probe"`
	Trials    int    `json:"trials"`
	Anomalies int    `json:"anomalies"`
	Example   string `json:"example,omitempty"`
	What      string `json:"what"`
}

// together runs the functions on their own goroutines, released simultaneously.
func together(fs ...func()) {
	var arrived atomic.Int32
	var wg sync.WaitGroup
	for _, f := range fs {
		wg.Add(1)
		go func(f func()) {
			defer wg.Done()
			arrived.Add(1)
			for spin := 0; int(arrived.Load()) < len(fs); spin++ {
				if spin&0xfff == 0xfff {
					runtime.Gosched()
				}
			}
			f()
		}(f)
	}
	wg.Wait()
}

func fv(ts int64, x float64) []tsm1.Value { return []tsm1.Value{tsm1.NewValue(ts, x)} }

func probe(w *vh.W, name string) {
	const trials = 400
	p := &jprobe{Mode: "probe", Probe: name, Trials: trials}
	sig := ""
	for t := 0; t < trials; t++ {
		anomaly := ""
		switch name {
		case "init-race":
			sig = sigInitRace
			p.What = "4 goroutines issue the FIRST WriteMulti (one distinct key each) on a fresh NewCache(0): every acknowledged write must be readable and Size() must be 4*(16+2)"
			c := tsm1.NewCache(0, tsdb.EngineTags{})
			keys := []string{"k0", "k1", "k2", "k3"}
			errs := make([]error, 4)
			var fs []func()
			for i := range keys {
				i := i
				fs = append(fs, func() { errs[i] = c.WriteMulti(map[string][]tsm1.Value{keys[i]: fv(1, float64(i))}) })
			}
			together(fs...)
			lost := 0
			for i, k := range keys {
				if errs[i] == nil && len(c.Values([]byte(k))) == 0 {
					lost++
				}
			}
			if lost > 0 || c.Size() != 4*18 {
				anomaly = fmt.Sprintf("%d acknowledged first writes are not readable; Size()=%d, %d keys held", lost, c.Size(), len(c.Keys()))
			}
		case "write-delete-race":
			sig = sigWriteDel
			p.What = "after WriteMulti{a:[(1,x)]}: WriteMulti{a:[(2,y)]} || Delete([a]); linearisable outcomes: a=[(2,y)] with Size()=17, or a=[] with Size()=0"
			c := tsm1.NewCache(0, tsdb.EngineTags{})
			c.WriteMulti(map[string][]tsm1.Value{"a": fv(1, 1)})
			together(
				func() { c.WriteMulti(map[string][]tsm1.Value{"a": fv(2, 2)}) },
				func() { c.Delete([][]byte{[]byte("a")}) })
			n, sz := len(c.Values([]byte("a"))), c.Size()
			if !(n == 1 && sz == 17) && !(n == 0 && sz == 0) {
				anomaly = fmt.Sprintf("a holds %d values, Size()=%d", n, sz)
			}
		case "limit-race":
			sig = sigLimitRace
			p.What = "initialised NewCache(40): 4 goroutines WriteMulti one 16-byte value to distinct 1-byte keys; sequentially at most 2 are accepted (17+17=34, 34+16>40) and Size() <= 40"
			c := tsm1.NewCache(40, tsdb.EngineTags{})
			c.Delete([][]byte{[]byte("zz")}) // init
			errs := make([]error, 4)
			var fs []func()
			for i := 0; i < 4; i++ {
				i := i
				fs = append(fs, func() { errs[i] = c.WriteMulti(map[string][]tsm1.Value{string(rune('a' + i)): fv(1, float64(i))}) })
			}
			together(fs...)
			acc := 0
			for _, e := range errs {
				if e == nil {
					acc++
				}
			}
			if acc > 2 || c.Size() > 40 {
				anomaly = fmt.Sprintf("%d writes accepted, Size()=%d > limit 40", acc, c.Size())
			}
		}
		if anomaly != "" {
			p.Anomalies++
			if p.Example == "" {
				p.Example = anomaly
			}
		}
	}
	idx := w.Add("{| c_max := 0; c_hist := [] |}", p, false, sig)
	w.Count("probe_"+name+"_anomalies", fmt.Sprint(min(p.Anomalies, 9)))
	w.Extra["probe_"+name] = fmt.Sprintf("%d anomalies in %d trials", p.Anomalies, trials)
	if p.Anomalies > 0 {
		w.Fail(idx, fmt.Sprintf("probe %s: %d of %d trials not linearisable (%s) -- %s", name, p.Anomalies, trials, p.Example, p.What), sig)
	}
}

// stress programs: fixed small concurrent programs aimed at the cache's own synchronisation
// (double-checked entry creation in ring.partition.write, entry.mu, c.mu around the snapshot
// swap), each executed under many schedules; every execution must linearise.
func stressPrograms(g *gen) (out [][][]jop) {
	g.unique = true
	defer func() { g.unique = false }()
	one := func(k string, ts int64, t string) jop {
		return jop{Op: "write", Batch: []jkv{{Key: k, Pts: []jpoint{g.pt(ts, t)}}}}
	}
	// S1: four goroutines create the same new key at once (same timestamp: the order is observable)
	out = append(out, [][]jop{{one("a", 1, "f")}, {one("a", 1, "f")}, {one("a", 1, "f")}, {one("a", 1, "f"), {Op: "values", Key: "a"}}})
	// S2: writers with conflicting types race for the creation of one key, a reader in parallel
	out = append(out, [][]jop{{one("bb", 1, "i"), one("bb", 2, "i")}, {one("bb", 1, "f"), one("bb", 3, "f")}, {{Op: "values", Key: "bb"}, {Op: "values", Key: "bb"}}})
	// S3: a snapshot cycle against writers and a reader of the same key
	out = append(out, [][]jop{{{Op: "snapshot"}, {Op: "clear", Success: true}}, {one("a", 1, "f"), one("a", 2, "f")}, {one("a", 1, "f"), one("ccc", 1, "s")}, {{Op: "values", Key: "a"}, {Op: "values", Key: "a"}}})
	return
}

// ---------- same-key creation stress (hard assertion, no tolerance) ----------
//
// R rounds; in every round G goroutines (4-8), released together by a spin barrier, each
// WriteMulti ONE value with a distinct timestamp to the same key that does not exist in the hot
// store (K keys per round, visited in the same order by all goroutines): variants "fresh"
// (never written), "after-snapshot" (written, then Snapshot() emptied the hot store) and
// "after-delete" (written, then DeleteRange removed the entry).  At quiescence every acknowledged
// value must be returned by Values(key) and Size() must grow by exactly G*16+len(key) per key.
// Concurrent same-key writes with distinct timestamps and no limit are linearisable in the real
// cache (entry creation is double-checked under the partition lock), so ANY loss is a failing input.
type jcreate struct {
	Mode       string `json:"mode"` // create-stress
	Variant    string `json:"variant"`
	Rounds     int    `json:"rounds"`
	Goroutines int    `json:"goroutines_of_failing_round,omitempty"`
	MaxProcs   int    `json:"gomaxprocs_of_failing_round,omitempty"`
	Yield      bool   `json:"gosched_before_write_in_failing_round,omitempty"`
	Round      int    `json:"failing_round,omitempty"`
	Key        string `json:"key_of_failing_round,omitempty"`
	Anomalies  int    `json:"anomalous_rounds"`
	Example    string `json:"first_anomaly,omitempty"`
	What       string `json:"what"`
}

func createStress(w *vh.W, variant string, rounds int) {
	const K = 4
	c := &jcreate{Mode: "create-stress", Variant: variant, Rounds: rounds,
		What: "G goroutines released together each WriteMulti{key:[(g+1, float g)]} to the same key absent from the hot store (" + variant + "); afterwards Values(key) must hold all G acknowledged timestamps and Size() must have grown by G*16+len(key)"}
	oldProcs := runtime.GOMAXPROCS(0)
	defer runtime.GOMAXPROCS(oldProcs)
	cache := tsm1.NewCache(0, tsdb.EngineTags{})
	start := time.Now()
	for r := 0; r < rounds; r++ {
		if r >= 300 && time.Since(start) > 25*time.Second {
			c.Rounds = r
			break
		}
		G := 4 + r%5
		procs := oldProcs
		switch (r / 50) % 4 { // GOMAXPROCS variations in blocks of 50 rounds
		case 1:
			procs = max(2, oldProcs/2)
		case 3:
			procs = min(oldProcs, 4)
		}
		if procs != runtime.GOMAXPROCS(0) {
			runtime.GOMAXPROCS(procs)
		}
		yield := r%3 == 1
		keys := make([]string, K)
		for i := range keys {
			keys[i] = fmt.Sprintf("%s-r%d-k%d", variant, r, i)
		}
		// per-variant preparation: the key has been seen before but is absent from the hot store
		switch variant {
		case "after-snapshot":
			for _, k := range keys {
				cache.WriteMulti(map[string][]tsm1.Value{k: fv(100, 1)})
			}
			if _, err := cache.Snapshot(); err != nil {
				c.Anomalies++
				c.Example = "Snapshot: " + err.Error()
				break
			}
			cache.ClearSnapshot(true)
		case "after-delete":
			for _, k := range keys {
				cache.WriteMulti(map[string][]tsm1.Value{k: fv(100, 1)})
			}
			cache.DeleteRange(bkeys(keys), math.MinInt64, math.MaxInt64)
		}
		base := cache.Size()
		errs := make([][]error, G)
		fs := make([]func(), G)
		for g := 0; g < G; g++ {
			g := g
			errs[g] = make([]error, K)
			fs[g] = func() {
				for i, k := range keys {
					if yield && (g+i)%2 == 0 {
						runtime.Gosched()
					}
					errs[g][i] = cache.WriteMulti(map[string][]tsm1.Value{k: fv(int64(g+1), float64(g))})
				}
			}
		}
		together(fs...)
		bad, badKey := "", ""
		want := base
		for i, k := range keys {
			got := map[int64]bool{}
			for _, v := range cache.Values([]byte(k)) {
				got[v.UnixNano()] = true
			}
			var lost []int64
			for g := 0; g < G; g++ {
				if errs[g][i] != nil {
					bad = fmt.Sprintf("WriteMulti error %v", errs[g][i])
				} else if !got[int64(g+1)] {
					lost = append(lost, int64(g+1))
				}
			}
			want += uint64(G*16 + len(k))
			if len(lost) > 0 && bad == "" {
				bad = fmt.Sprintf("key %q: acknowledged timestamps %v are not returned by Values (holds %d of %d)", k, lost, len(got), G)
				badKey = k
			}
		}
		if sz := cache.Size(); sz != want && bad == "" {
			bad = fmt.Sprintf("Size()=%d, accounted %d (base %d + %d keys x (%d x 16 + len))", sz, want, base, K, G)
			badKey = keys[0]
		}
		if bad != "" {
			c.Anomalies++
			if c.Example == "" {
				c.Example, c.Round, c.Goroutines, c.MaxProcs, c.Yield, c.Key = bad, r, G, procs, yield, badKey
			}
		}
		// keep the cache small: drop this round's keys, start the next round from a clean size
		cache.DeleteRange(bkeys(keys), math.MinInt64, math.MaxInt64)
		if bad != "" { // the accounting is off after a loss: continue on a fresh cache
			cache = tsm1.NewCache(0, tsdb.EngineTags{})
		}
	}
	idx := w.Add("{| c_max := 0; c_hist := [] |}", c, false, "")
	w.Count("create_stress_"+variant+"_anomalous_rounds", fmt.Sprint(min(c.Anomalies, 9)))
	w.Extra["create_stress_"+variant] = fmt.Sprintf("%d anomalous rounds of %d", c.Anomalies, c.Rounds)
	if c.Anomalies > 0 {
		w.Fail(idx, fmt.Sprintf("same-key creation stress (%s): %d of %d rounds lost acknowledged writes or mis-accounted Size; first: round %d, %d goroutines, GOMAXPROCS %d: %s", variant, c.Anomalies, c.Rounds, c.Round, c.Goroutines, c.MaxProcs, c.Example), "")
	}
}

func main() {
	w := vh.New("C09", "From Verif Require Import Base.Prelude Model.C09.\nLocal Open Scope Z_scope.", "case", "check")
	w.Rule = "hand-picked regression histories first; then random histories on the real tsm1.Cache over keys a/bb/ccc (+ absent zz), timestamps 1..6, value types f/i/s (b,u rarely), maxSize in {0,10,40,66,100,200,1000}: 5-18 ops of WriteMulti (1-3 keys x 0-3 points, duplicates and type conflicts frequent, empty and mixed batches rare) / Values / Snapshot / ClearSnapshot(ok) / DeleteRange (boundary-biased ranges incl. MinInt64/MaxInt64, min>max, repeated and absent keys) / Delete / Size / Keys, followed by a full observation (Size, Values of every key, Keys); a same-key creation stress (3 variants: fresh key / after Snapshot / after DeleteRange; 1000 rounds each, thorough 10000; 4-8 goroutines released by a barrier write distinct timestamps to 4 absent keys per round under GOMAXPROCS/Gosched variations; every acknowledged value must be read back and Size must match; zero tolerance), 3 fixed stress programs (same-key creation race, conflicting-type creation race, snapshot cycle vs writers/reader) under 600 (thorough: 3000) schedules each and every 4th random case is a concurrent history (2-4 goroutines, <= 8 concurrent ops, 12 schedules, engine locking discipline), every execution checked for linearisability, emitted as prefix ++ found linearisation ++ final observation. Non-trivial (seq): >=1 accepted write and >=1 snapshot/clear/delete op; (conc): at least one pair of ops of different goroutines overlapped in real time. Distinct: distinct Gallina terms."
	var rc jcase
	if w.ReplayCase(&rc) {
		var rs jcreate
		if w.ReplayCase(&rs); rs.Mode == "create-stress" {
			createStress(w, rs.Variant, max(rs.Rounds, 1000))
			w.Finish()
			return
		}
		var rp jprobe
		if w.ReplayCase(&rp); rp.Mode == "probe" {
			probe(w, rp.Probe)
			w.Finish()
			return
		}
		if rc.Mode == "conc" && len(rc.ConcThreads) > 0 {
			doConc(w, rc.Max, rc.ConcPrefix, rc.ConcThreads, true, 300)
		} else {
			runSeq(w, &rc)
		}
		w.Finish()
		return
	}
	g := &gen{w: w}
	for _, c := range handPicked() {
		if w.Len() < w.N {
			runSeq(w, c)
		}
	}
	rounds := 1000
	if w.N >= 5000 {
		rounds = 10000
	}
	for _, variant := range []string{"fresh", "after-snapshot", "after-delete"} {
		createStress(w, variant, rounds)
	}
	for _, name := range []string{"init-race", "write-delete-race", "limit-race"} {
		probe(w, name)
	}
	execs := 600
	if w.N >= 5000 {
		execs = 3000
	}
	for _, threads := range stressPrograms(g) {
		doConc(w, 0, nil, threads, true, execs)
	}
	for i := 0; w.Len() < w.N; i++ {
		if i%4 == 3 {
			max, prefix, threads := g.concCase()
			doConc(w, max, prefix, threads, w.Rng.IntN(5) != 0, 12)
		} else {
			runSeq(w, g.seqCase())
		}
	}
	w.Finish()
}
