(** C08 helper: big-endian fixed-width integers over byte lists ([list N], each < 256),
    int64 two's complement, list slicing, lexicographic byte-string order.
    (encoding/binary.BigEndian.PutUintXX / UintXX, bytes.Compare.) *)
From Coq Require Import List ZArith NArith Bool Lia.
Import ListNotations.

Definition bytes := list N.

(** [be n v]: the [n] low-order bytes of [v], most significant first. *)
Fixpoint be (n : nat) (v : N) : bytes :=
  match n with
  | O => []
  | S n' => be n' (v / 256)%N ++ [(v mod 256)%N]
  end.

Definition unbe (l : bytes) : N := fold_left (fun acc b => (acc * 256 + b)%N) l 0%N.

Definition u16 := be 2.
Definition u32 := be 4.
Definition u64 := be 8.

(** int64 <-> uint64 reinterpretation (Go's [uint64(x)] / [int64(u)]). *)
Definition two63 : Z := 9223372036854775808%Z.
Definition two64 : Z := 18446744073709551616%Z.
Definition MinInt64 : Z := (-9223372036854775808)%Z.
Definition MaxInt64 : Z := 9223372036854775807%Z.
Definition i64_to_u (z : Z) : N := Z.to_N (z mod two64).
Definition u_to_i64 (n : N) : Z :=
  let z := Z.of_N n in if (z <? two63)%Z then z else (z - two64)%Z.
Definition in_i64 (z : Z) : Prop := (MinInt64 <= z <= MaxInt64)%Z.
Definition in_i64b (z : Z) : bool := (MinInt64 <=? z)%Z && (z <=? MaxInt64)%Z.
Definition i64 (z : Z) : bytes := u64 (i64_to_u z).
Definition uni64 (l : bytes) : Z := u_to_i64 (unbe l).

(** [take n l]: the first [n] elements and the rest; [None] if [l] is too short. *)
Definition take {A} (n : nat) (l : list A) : option (list A * list A) :=
  if (n <=? length l)%nat then Some (firstn n l, skipn n l) else None.
Definition slice {A} (off len : nat) (l : list A) : list A := firstn len (skipn off l).

Lemma be_length n v : length (be n v) = n.
Proof.
  revert v; induction n as [|n IH]; intro v; cbn [be]; [reflexivity|].
  rewrite app_length, IH. cbn. lia.
Qed.

Lemma unbe_app l x : unbe (l ++ [x]) = (unbe l * 256 + x)%N.
Proof. unfold unbe. rewrite fold_left_app. reflexivity. Qed.

Lemma unbe_be n v : (v < 256 ^ N.of_nat n)%N -> unbe (be n v) = v.
Proof.
  revert v; induction n as [|n IH]; intros v Hv.
  - cbn in *. unfold unbe; cbn. lia.
  - cbn [be]. rewrite unbe_app, IH.
    + pose proof (N.div_mod v 256). lia.
    + rewrite Nat2N.inj_succ, N.pow_succ_r' in Hv.
      apply N.div_lt_upper_bound; lia.
Qed.

Lemma be_bytes n v : Forall (fun b => (b < 256)%N) (be n v).
Proof.
  revert v; induction n as [|n IH]; intro v; cbn [be]; [constructor|].
  apply Forall_app; split; [apply IH|]. constructor; [|constructor].
  apply N.mod_lt; lia.
Qed.

Lemma u16_rt v : (v < 65536)%N -> unbe (u16 v) = v.
Proof. intro H; apply unbe_be; exact H. Qed.
Lemma u32_rt v : (v < 4294967296)%N -> unbe (u32 v) = v.
Proof. intro H; apply unbe_be; exact H. Qed.
Lemma u64_rt v : (v < 18446744073709551616)%N -> unbe (u64 v) = v.
Proof. intro H; apply unbe_be; exact H. Qed.

Lemma i64_u_rt z : in_i64 z -> u_to_i64 (i64_to_u z) = z.
Proof.
  unfold in_i64, u_to_i64, i64_to_u, MinInt64, MaxInt64, two63, two64. intro H.
  rewrite Z2N.id by (apply Z.mod_pos_bound; lia).
  destruct (Z.ltb_spec (z mod 18446744073709551616) 9223372036854775808) as [L|L];
    revert L; Z.div_mod_to_equations; lia.
Qed.

Lemma i64_to_u_lt z : (i64_to_u z < 18446744073709551616)%N.
Proof.
  unfold i64_to_u, two64.
  pose proof (Z.mod_pos_bound z 18446744073709551616 ltac:(lia)). lia.
Qed.

Lemma i64_rt z : in_i64 z -> uni64 (i64 z) = z.
Proof.
  intro H. unfold uni64, i64. rewrite u64_rt by apply i64_to_u_lt. apply i64_u_rt; exact H.
Qed.

Lemma i64_length z : length (i64 z) = 8%nat.
Proof. apply be_length. Qed.

(** slicing *)
Lemma take_app {A} (a b : list A) : take (length a) (a ++ b) = Some (a, b).
Proof.
  unfold take. rewrite app_length.
  replace (length a <=? length a + length b)%nat with true by (symmetry; apply Nat.leb_le; lia).
  rewrite firstn_app, Nat.sub_diag, firstn_all, skipn_app, Nat.sub_diag, skipn_all. cbn.
  rewrite app_nil_r. reflexivity.
Qed.

Lemma take_app_n {A} n (a b : list A) : length a = n -> take n (a ++ b) = Some (a, b).
Proof. intros <-. apply take_app. Qed.

Lemma take_spec {A} n (l a b : list A) : take n l = Some (a, b) -> l = a ++ b /\ length a = n.
Proof.
  unfold take. destruct (Nat.leb_spec n (length l)) as [L|L]; [|discriminate].
  intro E; inversion E; subst. split; [symmetry; apply firstn_skipn|].
  apply firstn_length_le; exact L.
Qed.

Lemma slice_app {A} (a b c : list A) : slice (length a) (length b) (a ++ b ++ c) = b.
Proof.
  unfold slice. rewrite skipn_app, Nat.sub_diag, skipn_all. cbn.
  rewrite firstn_app, Nat.sub_diag, firstn_all. cbn. apply app_nil_r.
Qed.

(** lexicographic order on byte strings = bytes.Compare *)
Definition key := list N.

Fixpoint kcmp (a b : key) : comparison :=
  match a, b with
  | [], [] => Eq
  | [], _ :: _ => Lt
  | _ :: _, [] => Gt
  | x :: a', y :: b' => match N.compare x y with Eq => kcmp a' b' | c => c end
  end.
Definition kltb a b := match kcmp a b with Lt => true | _ => false end.
Definition kleb a b := match kcmp a b with Gt => false | _ => true end.
Definition keqb a b := match kcmp a b with Eq => true | _ => false end.

Lemma kcmp_eq a b : kcmp a b = Eq <-> a = b.
Proof.
  revert b; induction a as [|x a IH]; intros [|y b]; cbn; split; intro H;
    try reflexivity; try discriminate.
  - destruct (N.compare_spec x y); try discriminate. subst. f_equal. apply IH; exact H.
  - inversion H; subst. rewrite N.compare_refl. apply IH; reflexivity.
Qed.

Lemma kcmp_refl a : kcmp a a = Eq.
Proof. apply kcmp_eq; reflexivity. Qed.

Lemma kcmp_antisym a b : kcmp b a = CompOpp (kcmp a b).
Proof.
  revert b; induction a as [|x a IH]; intros [|y b]; cbn; try reflexivity.
  rewrite (N.compare_antisym x y). destruct (N.compare x y); cbn; auto.
Qed.

Lemma kcmp_lt_trans a b c : kcmp a b = Lt -> kcmp b c = Lt -> kcmp a c = Lt.
Proof.
  revert b c; induction a as [|x a IH]; intros [|y b] [|z c]; cbn; try discriminate; auto.
  destruct (N.compare_spec x y) as [E1|L1|G1]; try discriminate;
  destruct (N.compare_spec y z) as [E2|L2|G2]; try discriminate; intros H1 H2; subst.
  - rewrite N.compare_refl. eapply IH; eauto.
  - apply N.compare_lt_iff in L2. rewrite L2. reflexivity.
  - apply N.compare_lt_iff in L1. rewrite L1. reflexivity.
  - assert (L : (x < z)%N) by lia. apply N.compare_lt_iff in L. rewrite L. reflexivity.
Qed.

Lemma keqb_eq a b : keqb a b = true <-> a = b.
Proof. unfold keqb. rewrite <- kcmp_eq. destruct (kcmp a b); split; congruence. Qed.
Lemma keqb_refl a : keqb a a = true.
Proof. apply keqb_eq; reflexivity. Qed.
Lemma kltb_lt a b : kltb a b = true <-> kcmp a b = Lt.
Proof. unfold kltb. destruct (kcmp a b); split; congruence. Qed.
Lemma kleb_le a b : kleb a b = true <-> kcmp a b <> Gt.
Proof. unfold kleb. destruct (kcmp a b); split; congruence. Qed.
Lemma kleb_nlt a b : kleb a b = negb (kltb b a).
Proof. unfold kleb, kltb. rewrite (kcmp_antisym a b). destruct (kcmp a b); reflexivity. Qed.
Lemma kltb_irrefl a : kltb a a = false.
Proof. unfold kltb. rewrite kcmp_refl. reflexivity. Qed.
Lemma kltb_trans a b c : kltb a b = true -> kltb b c = true -> kltb a c = true.
Proof. rewrite !kltb_lt. apply kcmp_lt_trans. Qed.
Lemma kltb_asym a b : kltb a b = true -> kltb b a = false.
Proof. unfold kltb. rewrite (kcmp_antisym a b). destruct (kcmp a b); cbn; congruence. Qed.
Lemma kltb_neq a b : kltb a b = true -> keqb a b = false.
Proof. unfold kltb, keqb. destruct (kcmp a b); congruence. Qed.
Lemma kcmp_total a b : kltb a b = true \/ a = b \/ kltb b a = true.
Proof.
  unfold kltb. rewrite (kcmp_antisym a b). destruct (kcmp a b) eqn:E; cbn; auto.
  right; left. apply kcmp_eq; exact E.
Qed.
Lemma kleb_kltb_trans a b c : kleb a b = true -> kltb b c = true -> kltb a c = true.
Proof.
  rewrite kleb_nlt, negb_true_iff. intros H1 H2.
  destruct (kcmp_total a b) as [L|[E|G]]; [eapply kltb_trans; eauto|subst; auto|congruence].
Qed.
Lemma kltb_kleb_trans a b c : kltb a b = true -> kleb b c = true -> kltb a c = true.
Proof.
  rewrite kleb_nlt, negb_true_iff. intros H1 H2.
  destruct (kcmp_total b c) as [L|[E|G]]; [eapply kltb_trans; eauto|subst; auto|congruence].
Qed.
