(** C07 — Value encodings round-trip bit-exactly: correspondence cases and judge.
    The codec models live in Model/C07_s8b.v (simple8b), … ; this file only defines
    the [case] type (inputs + what the real implementation produced) and [check]. *)
From Verif Require Import Base.Prelude Model.C07_s8b Model.C07_int.
Local Open Scope N_scope.

Definition lN_eqb := list_eqb N.eqb.
Definition olN_eqb := option_eqb lN_eqb.

Inductive case :=
(** simple8b.  [e_all]/[e_jw]/[e_stream]: words produced by the in-repo EncodeAll, the
    jwilder EncodeAll (used by the scalar integer encoder) and Encoder.Write*/Bytes
    (None = error).  [e_one] = Encode(src) as (word, n).  [d_*]: what the real decoders
    (DecodeAll, DecodeBytesBigEndian, jwilder DecodeAll, Decoder.Next/Read) returned on the
    respective encoder's output ([] when the encoder failed); [cnt] = CountBytes. *)
| CS8b (vals : list N)
       (e_all e_jw e_stream : option (list N)) (e_one : option (N * N))
       (d_all d_bytes d_jw d_stream : list N) (cnt : N)
(** integer / unsigned (64-bit patterns).  [sb]/[bb]: bytes of the scalar IntegerEncoder and
    of Integer/UnsignedArrayEncodeAll (None = error); [d_xy]: what decoder x (s = scalar
    IntegerDecoder, b = batch *ArrayDecodeAll) returned on encoder y's bytes (None = error). *)
| CInt (vals : list N) (sb bb : option (list N)) (d_ss d_bs d_sb d_bb : option (list N))
(** timestamps: TimeEncoder / TimeArrayEncodeAll, TimeDecoder / TimeArrayDecodeAll *)
| CTime (vals : list N) (sb bb : option (list N)) (d_ss d_bs d_sb d_bb : option (list N))
(** booleans *)
| CBool (vals : list bool) (sb bb : option (list N)) (d_ss d_bs d_sb d_bb : option (list bool)).

Definition words_or_nil (o : option (list N)) : list N :=
  match o with Some ws => ws | None => [] end.

Definition check_s8b vals e_all e_jw e_stream (e_one : option (N * N))
           d_all d_bytes d_jw d_stream cnt : verdict :=
  let m_all := encode_all vals in
  let m_jw := jw_encode_all vals in
  let m_stream := stream_encode vals in
  let m_one := option_map (fun p => (fst p, N.of_nat (snd p))) (encode1 vals) in
  let same :=
    olN_eqb e_all m_all && olN_eqb e_jw m_jw && olN_eqb e_stream m_stream
    && option_eqb (pair_eqb N.eqb N.eqb) e_one m_one
    && lN_eqb d_all (decode_all (words_or_nil m_all))
    && lN_eqb d_bytes (decode_all (words_or_nil m_all))
    && lN_eqb d_jw (decode_all (words_or_nil m_jw))
    && lN_eqb d_stream (decode_all (words_or_nil m_stream))
    && (cnt =? N.of_nat (count_words (words_or_nil m_all))) in
  let ok :=
    if packable vals then
      match e_all, e_jw, e_stream with
      | Some _, Some _, Some _ =>
          lN_eqb d_all vals && lN_eqb d_bytes vals && lN_eqb d_jw vals && lN_eqb d_stream vals
          && (cnt =? N.of_nat (length vals))
      | _, _, _ => false
      end
    else
      match e_all, e_jw, e_stream with
      | None, None, None => true
      | _, _, _ => false
      end in
  judge same ok.

Definition obind {A B} (o : option A) (f : A -> option B) : option B :=
  match o with Some x => f x | None => None end.

(** generic judge of a two-encoder / two-decoder codec over values of type [A] *)
Definition check_codec {A} (eqb : A -> A -> bool)
           (enc_s enc_b : list A -> option (list N))
           (dec_s dec_b : list N -> option (list A))
           (vals : list A) (sb bb : option (list N)) (d_ss d_bs d_sb d_bb : option (list A))
  : verdict :=
  let oeq := option_eqb (list_eqb eqb) in
  let m_sb := enc_s vals in
  let m_bb := enc_b vals in
  let same :=
    olN_eqb sb m_sb && olN_eqb bb m_bb
    && oeq d_ss (obind m_sb dec_s) && oeq d_bs (obind m_sb dec_b)
    && oeq d_sb (obind m_bb dec_s) && oeq d_bb (obind m_bb dec_b) in
  let ok :=
    match sb, bb with
    | Some _, Some _ =>
        oeq d_ss (Some vals) && oeq d_bs (Some vals) && oeq d_sb (Some vals) && oeq d_bb (Some vals)
    | _, _ => false
    end in
  judge same ok.

Definition check (c : case) : verdict :=
  match c with
  | CInt vals sb bb d_ss d_bs d_sb d_bb =>
      check_codec N.eqb int_encode_scalar int_encode_batch int_decode_scalar int_decode_batch
                  vals sb bb d_ss d_bs d_sb d_bb
  | CTime vals sb bb d_ss d_bs d_sb d_bb =>
      check_codec N.eqb time_encode_scalar time_encode_batch time_decode_scalar time_decode_batch
                  vals sb bb d_ss d_bs d_sb d_bb
  | CBool vals sb bb d_ss d_bs d_sb d_bb =>
      check_codec Bool.eqb (fun l => Some (bool_encode l)) (fun l => Some (bool_encode l))
                  bool_decode bool_decode vals sb bb d_ss d_bs d_sb d_bb
  | CS8b vals e_all e_jw e_stream e_one d_all d_bytes d_jw d_stream cnt =>
      check_s8b vals e_all e_jw e_stream e_one d_all d_bytes d_jw d_stream cnt
  end.
