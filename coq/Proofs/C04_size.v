(** C04 — part 3: block sizes.  Every block the iterator hands to the writer is either the
    payload of an input block, unchanged (pass-through), or was produced by [chunk] and has
    at most [size] points.  Holds for every state, both paths, [fast] or not. *)
From Coq Require Import ZifyBool.
From Verif Require Import Base.Prelude Model.C37 Model.C04 Proofs.C04.
Local Open Scope Z_scope.

Section Len.
  Context {V : Type}.
  Notation arr := (arr V).
  Notation blk := (blk V).
  Notation st := (st V).
  Variable size : nat.

  (** [sort.Stable] on at most 20 blocks is the insertion sort *)
  Lemma sort_blocks_small (l : list blk) : (length l <= 20)%nat -> sort_blocks l = isort l.
  Proof. intro H. unfold sort_blocks. destruct (length l <=? 20)%nat eqn:E; [reflexivity|]. apply Nat.leb_gt in E. lia. Qed.

  Lemma ins_rev_length (x : blk) : forall rp, length (ins_rev x rp) = S (length rp).
  Proof. induction rp as [|y r IH]; [reflexivity|]. cbn [ins_rev]. destruct (less x y); cbn [length]; [rewrite IH|]; reflexivity. Qed.

  Lemma isort_length (l : list blk) : length (isort l) = length l.
  Proof.
    unfold isort. rewrite rev_length.
    assert (H : forall (l acc : list blk), length (fold_left (fun rp x => ins_rev x rp) l acc) = (length l + length acc)%nat).
    { clear l. induction l as [|x r IH]; intro acc; cbn [fold_left length]; [reflexivity|].
      rewrite IH, ins_rev_length. lia. }
    rewrite H. cbn. lia.
  Qed.

  Lemma drop_read_length : forall bs : list blk, (length (drop_read bs) <= length bs)%nat.
  Proof. induction bs as [|b r IH]; cbn [drop_read]; [lia|]. destruct (is_read b); cbn [length]; lia. Qed.

  Lemma dedup_pass_length : forall (bs : list blk) mn mx (mv : arr),
    length (fst (fst (dedup_pass bs mn mx mv))) = length bs.
  Proof.
    induction bs as [|b r IH]; intros mn mx mv; cbn [dedup_pass]; [reflexivity|].
    destruct (negb (overlaps b mn mx) || is_read b).
    - specialize (IH mn mx mv). destruct (dedup_pass r mn mx mv) as [[r' mx'] mv']. cbn [fst length] in *. lia.
    - match goal with |- context [dedup_pass r mn ?a ?c] =>
        specialize (IH mn a c); destruct (dedup_pass r mn a c) as [[r' mx'] mv'] end.
      cbn [fst length] in *. lia.
  Qed.

  Lemma dedup_loop_length : forall fuel (bs : list blk) (mv : arr) bs' mv',
    dedup_loop fuel size bs mv = Some (bs', mv') -> (length bs' <= length bs)%nat.
  Proof.
    induction fuel as [|f IH]; intros bs mv bs' mv'; cbn [dedup_loop].
    - destruct (_ && _); [discriminate|]. intros [= <- <-]. lia.
    - destruct (_ && _); [|intros [= <- <-]; lia].
      pose proof (drop_read_length bs) as Hd.
      destruct (drop_read bs) as [|first r] eqn:E; [intros [= <- <-]; cbn; lia|].
      destruct (window _ _) as [mn mx].
      pose proof (dedup_pass_length (first :: r) mn mx mv) as Hp.
      destruct (dedup_pass (first :: r) mn mx mv) as [[bs2 mx2] mv2]. cbn [fst] in Hp.
      intro H. apply IH in H. lia.
  Qed.

  Lemma pass_full_length : forall (bs merged m r : list blk),
    pass_full size bs merged = (m, r) -> (length r <= length bs)%nat.
  Proof.
    induction bs as [|b r0 IH]; intros merged m r; cbn [pass_full].
    - intros [= <- <-]. lia.
    - destruct (is_read b); [intro H; apply IH in H; cbn [length]; lia|].
      destruct (length (b_vals b) <? size)%nat; [intros [= <- <-]; lia|].
      intro H; apply IH in H; cbn [length]; lia.
  Qed.

  Lemma decode_rest_length : forall (bs : list blk) (mv : arr) r mv',
    decode_rest size bs mv = (r, mv') -> (length r <= length bs)%nat.
  Proof.
    induction bs as [|b r0 IH]; intros mv r mv'; cbn [decode_rest].
    - intros [= <- <-]. lia.
    - destruct (length mv <? size)%nat; [|intros [= <- <-]; lia].
      destruct (is_read b); intro H; apply IH in H; cbn [length]; lia.
  Qed.

  Lemma combine_length fuel fast dedup (s s' : st) :
    combine fuel size fast dedup s = Some s' -> (length (s_blocks s') <= length (s_blocks s))%nat.
  Proof.
    unfold combine. destruct dedup.
    - destruct (dedup_loop fuel size (s_blocks s) (s_mv s)) as [[bs mv]|] eqn:E; [|discriminate].
      apply dedup_loop_length in E. destruct (chunk size [] mv). intros [= <-]. exact E.
    - destruct (pass_full size (s_blocks s) (s_merged s)) as [m1 r1] eqn:E1. apply pass_full_length in E1.
      set (p2 := if fast then (m1 ++ unread r1, []) else (m1, r1)).
      assert (H2 : (length (snd p2) <= length r1)%nat) by (subst p2; destruct fast; cbn; lia).
      destruct p2 as [m2 r2]. cbn [snd] in H2.
      set (p3 := match r2 with [b] => (if is_read b then m2 else m2 ++ [b], []) | _ => (m2, r2) end).
      assert (H3 : (length (snd p3) <= length r2)%nat) by (subst p3; destruct r2 as [|b [|b2 r2']]; cbn; lia).
      destruct p3 as [m3 r3]. cbn [snd] in H3.
      destruct (decode_rest size r3 (s_mv s)) as [r4 mv] eqn:E4. apply decode_rest_length in E4.
      destruct (chunk size m3 mv). intros [= <-]. cbn [s_blocks]. lia.
  Qed.

  Lemma merge_length fuel fast (s s' : st) : (length (s_blocks s) <= 20)%nat ->
    merge fuel size fast s = Some s' -> (length (s_blocks s') <= length (s_blocks s))%nat.
  Proof.
    intro Hs. unfold merge. destruct (_ && _ && _); [intros [= <-]; lia|].
    intro H. apply combine_length in H. cbn [s_blocks] in H.
    rewrite sort_blocks_small, isort_length in H by exact Hs. exact H.
  Qed.

  Lemma next_length fuel fast (s s' : st) : (length (s_blocks s) <= 20)%nat ->
    next fuel size fast s = Some (Some s') -> (length (s_blocks s') <= length (s_blocks s))%nat.
  Proof.
    intros Hs. unfold next.
    set (s1 := match s_merged s with [] => s | _ :: m => mkst (s_blocks s) m (s_mv s) end).
    assert (H1 : s_blocks s1 = s_blocks s) by (subst s1; destruct (s_merged s); reflexivity).
    rewrite <- H1 in *. clearbody s1.
    assert (Hstep2 : forall s2, (length (s_blocks s2) <= length (s_blocks s1))%nat ->
      (if nonempty (s_blocks s2)
       then match merge fuel size fast s2 with
            | None => None
            | Some s3 => if nonempty (s_merged s3) || nonempty (s_mv s3) then Some (Some s3) else Some None
            end
       else Some None) = Some (Some s') -> (length (s_blocks s') <= length (s_blocks s1))%nat).
    { intros s2 H2. destruct (nonempty (s_blocks s2)); [|discriminate].
      destruct (merge fuel size fast s2) as [s3|] eqn:E; [|discriminate].
      apply merge_length in E; [|lia]. destruct (_ || _); [|discriminate]. intros [= <-]. lia. }
    destruct (nonempty (s_merged s1)); [intros [= <-]; lia|].
    destruct (nonempty (s_mv s1)); [|apply Hstep2; lia].
    destruct (merge fuel size fast s1) as [s3|] eqn:E; [|discriminate].
    apply merge_length in E; [|exact Hs].
    destruct (_ || _); [intros [= <-]; exact E|apply Hstep2; exact E].
  Qed.
End Len.

Section Size.
  Context {V : Type}.
  Notation arr := (arr V).
  Notation blk := (blk V).
  Notation st := (st V).
  Variable inp : list arr.      (* payloads of the gathered input blocks *)
  Variable size : nat.

  Definition orig (b : blk) : Prop := In (b_vals b) inp.
  Definition okb (b : blk) : Prop := orig b \/ (length (b_vals b) <= size)%nat.
  Definition sinv (s : st) : Prop := Forall orig (s_blocks s) /\ Forall okb (s_merged s).

  Lemma ins_rev_In (x : blk) : forall rp b, In b (ins_rev x rp) <-> b = x \/ In b rp.
  Proof.
    induction rp as [|y r IH]; intro b; cbn [ins_rev].
    - cbn. intuition.
    - destruct (less x y); cbn [In]; [rewrite IH|]; intuition.
  Qed.

  Lemma sort_fold_In : forall (l acc : list blk) b,
    In b (fold_left (fun rp x => ins_rev x rp) l acc) <-> In b l \/ In b acc.
  Proof.
    induction l as [|x r IH]; intros acc b; cbn [fold_left]; [cbn; intuition|].
    rewrite IH, ins_rev_In. cbn [In]. intuition.
  Qed.

  Lemma isort_In (l : list blk) b : In b (isort l) <-> In b l.
  Proof. unfold isort. rewrite <- in_rev, sort_fold_In. cbn. intuition. Qed.

  Lemma isort_Forall (P : blk -> Prop) l : Forall P l -> Forall P (isort l).
  Proof. rewrite !Forall_forall. intros H b Hb. apply H, isort_In, Hb. Qed.

  Lemma drop_read_Forall (P : blk -> Prop) : forall bs, Forall P bs -> Forall P (drop_read bs).
  Proof.
    induction bs as [|b r IH]; intro H; cbn [drop_read]; [auto|].
    destruct (is_read b); [apply IH; inversion H; auto|exact H].
  Qed.

  Lemma dedup_pass_orig : forall bs mn mx mv, Forall orig bs ->
    Forall orig (fst (fst (dedup_pass bs mn mx mv))).
  Proof.
    induction bs as [|b r IH]; intros mn mx mv H; cbn [dedup_pass]; [constructor|].
    inversion H as [|? ? Hb Hr]; subst.
    destruct (negb (overlaps b mn mx) || is_read b).
    - specialize (IH mn mx mv Hr). destruct (dedup_pass r mn mx mv) as [[r' mx'] mv'].
      cbn [fst] in *. constructor; auto.
    - match goal with |- context [dedup_pass r mn ?a ?c] =>
        specialize (IH mn a c Hr); destruct (dedup_pass r mn a c) as [[r' mx'] mv'] end.
      cbn [fst] in *. constructor; [|exact IH].
      unfold orig in *. repeat match goal with |- context [if ?c then _ else _] => destruct c end;
        cbn; exact Hb.
  Qed.

  Lemma dedup_loop_orig : forall fuel bs mv bs' mv',
    Forall orig bs -> dedup_loop fuel size bs mv = Some (bs', mv') -> Forall orig bs'.
  Proof.
    induction fuel as [|f IH]; intros bs mv bs' mv' H; cbn [dedup_loop].
    - destruct (_ && _); [discriminate|]. intros [= <- <-]. exact H.
    - destruct (_ && _); [|intros [= <- <-]; exact H].
      pose proof (drop_read_Forall orig bs H) as Hd.
      destruct (drop_read bs) as [|first r] eqn:E; [intros [= <- <-]; constructor|].
      destruct (window _ _) as [mn mx].
      pose proof (dedup_pass_orig (first :: r) mn mx mv Hd) as Hp.
      destruct (dedup_pass (first :: r) mn mx mv) as [[bs2 mx2] mv2]. cbn [fst] in Hp.
      apply IH. exact Hp.
  Qed.

  Lemma pass_full_inv : forall bs merged m r,
    Forall orig bs -> Forall okb merged -> pass_full size bs merged = (m, r) ->
    Forall okb m /\ Forall orig r.
  Proof.
    induction bs as [|b r0 IH]; intros merged m r Hb Hm; cbn [pass_full].
    - intros [= <- <-]. auto.
    - inversion Hb as [|? ? Hb1 Hb2]; subst. destruct (is_read b); [apply IH; auto|].
      destruct (length (b_vals b) <? size)%nat; [intros [= <- <-]; auto|].
      apply IH; auto. apply Forall_app. split; auto. constructor; auto. left; exact Hb1.
  Qed.

  Lemma decode_rest_orig : forall bs mv r mv',
    Forall orig bs -> decode_rest size bs mv = (r, mv') -> Forall orig r.
  Proof.
    induction bs as [|b r0 IH]; intros mv r mv' Hb; cbn [decode_rest].
    - intros [= <- <-]. constructor.
    - inversion Hb; subst. destruct (length mv <? size)%nat; [|intros [= <- <-]; exact Hb].
      destruct (is_read b); eapply IH; eauto.
  Qed.

  Lemma chunk_okb dst mv : Forall okb dst -> Forall okb (fst (chunk size dst mv)).
  Proof.
    intro H. apply Forall_forall. intros b Hb. apply chunk_size_bound in Hb as [Hb|Hb].
    - rewrite Forall_forall in H. auto.
    - right. exact Hb.
  Qed.

  Lemma orig_okb l : Forall orig l -> Forall okb l.
  Proof. apply Forall_impl. intros b H. left. exact H. Qed.

  Lemma combine_inv fuel fast dedup s s' :
    sinv s -> combine fuel size fast dedup s = Some s' -> sinv s'.
  Proof.
    intros [Hb Hm]. unfold combine. destruct dedup.
    - destruct (dedup_loop fuel size (s_blocks s) (s_mv s)) as [[bs mv]|] eqn:E; [|discriminate].
      pose proof (dedup_loop_orig _ _ _ _ _ Hb E) as Hbs.
      pose proof (chunk_okb [] mv (Forall_nil _)) as Hc.
      destruct (chunk size [] mv) as [m mv']. intros [= <-]. split; assumption.
    - destruct (pass_full size (s_blocks s) (s_merged s)) as [m1 r1] eqn:E1.
      destruct (pass_full_inv _ _ _ _ Hb Hm E1) as [Hm1 Hr1].
      set (p2 := if fast then (m1 ++ unread r1, []) else (m1, r1)).
      assert (H2 : Forall okb (fst p2) /\ Forall orig (snd p2)).
      { subst p2. destruct fast; cbn [fst snd]; [|auto]. split; [|constructor].
        apply Forall_app. split; [exact Hm1|]. apply orig_okb. unfold unread.
        apply Forall_forall. intros b Hb0. apply filter_In in Hb0 as [Hb0 _].
        rewrite Forall_forall in Hr1. auto. }
      destruct p2 as [m2 r2]. cbn [fst snd] in H2. destruct H2 as [Hm2 Hr2].
      set (p3 := match r2 with [b] => (if is_read b then m2 else m2 ++ [b], []) | _ => (m2, r2) end).
      assert (H3 : Forall okb (fst p3) /\ Forall orig (snd p3)).
      { subst p3. destruct r2 as [|b [|b2 r2']]; cbn [fst snd]; auto. split; [|constructor].
        destruct (is_read b); [exact Hm2|]. apply Forall_app. split; [exact Hm2|].
        apply orig_okb. exact Hr2. }
      destruct p3 as [m3 r3]. cbn [fst snd] in H3. destruct H3 as [Hm3 Hr3].
      destruct (decode_rest size r3 (s_mv s)) as [r4 mv] eqn:E4.
      pose proof (decode_rest_orig _ _ _ _ Hr3 E4) as Hr4.
      pose proof (chunk_okb m3 mv Hm3) as Hc.
      destruct (chunk size m3 mv) as [m mv']. intros [= <-]. split; assumption.
  Qed.

  Lemma merge_inv fuel fast s s' : sinv s -> (length (s_blocks s) <= 20)%nat ->
    merge fuel size fast s = Some s' -> sinv s'.
  Proof.
    intros Hs Hsm. unfold merge. destruct (_ && _ && _); [intros [= <-]; exact Hs|].
    rewrite sort_blocks_small by exact Hsm.
    apply combine_inv. destruct Hs as [Hb Hm]. split; cbn; [apply isort_Forall; exact Hb|exact Hm].
  Qed.

  Lemma next_inv fuel fast s s' : sinv s -> (length (s_blocks s) <= 20)%nat ->
    next fuel size fast s = Some (Some s') -> sinv s'.
  Proof.
    intros Hs Hsm. unfold next.
    set (s1 := match s_merged s with [] => s | _ :: m => mkst (s_blocks s) m (s_mv s) end).
    assert (H1 : sinv s1).
    { subst s1. destruct Hs as [Hb Hm]. destruct (s_merged s) as [|x m] eqn:E; [split; [exact Hb|rewrite E; exact Hm]|].
      split; cbn; [exact Hb|inversion Hm; auto]. }
    assert (Hsm1 : (length (s_blocks s1) <= 20)%nat) by (subst s1; destruct (s_merged s); exact Hsm).
    clearbody s1.
    assert (Hstep2 : forall s2, sinv s2 -> (length (s_blocks s2) <= 20)%nat ->
      (if nonempty (s_blocks s2)
       then match merge fuel size fast s2 with
            | None => None
            | Some s3 => if nonempty (s_merged s3) || nonempty (s_mv s3) then Some (Some s3) else Some None
            end
       else Some None) = Some (Some s') -> sinv s').
    { intros s2 H2 Hsm2. destruct (nonempty (s_blocks s2)); [|discriminate].
      destruct (merge fuel size fast s2) as [s3|] eqn:E; [|discriminate].
      destruct (_ || _); [|discriminate]. intros [= <-]. eapply merge_inv; eauto. }
    destruct (nonempty (s_merged s1)); [intros [= <-]; exact H1|].
    destruct (nonempty (s_mv s1)); [|apply Hstep2; assumption].
    destruct (merge fuel size fast s1) as [s3|] eqn:E; [|discriminate].
    pose proof (merge_inv _ _ _ _ H1 Hsm1 E) as H3.
    pose proof (merge_length size _ _ _ _ Hsm1 E) as Hl3.
    destruct (_ || _); [intros [= <-]; exact H3|apply Hstep2; [exact H3|lia]].
  Qed.

  Lemma read_head_okb s : sinv s -> okb (read_head s).
  Proof.
    intros [_ Hm]. unfold read_head. destruct (s_merged s) as [|b m]; [right; cbn; lia|].
    inversion Hm; auto.
  Qed.

  Lemma run_key_sizes fast : forall fuel s out,
    sinv s -> (length (s_blocks s) <= 20)%nat -> run_key fuel size fast s = Some out -> Forall okb out.
  Proof.
    induction fuel as [|f IH]; intros s out Hs Hsm; cbn [run_key]; [discriminate|].
    destruct (next (S f) size fast s) as [[s'|]|] eqn:E; [|intros [= <-]; constructor|discriminate].
    pose proof (next_inv _ _ _ _ Hs Hsm E) as Hs'.
    pose proof (next_length size _ _ _ _ Hsm E) as Hl'.
    destruct (run_key f size fast s') as [o|] eqn:E2; [|discriminate].
    intros [= <-]. constructor; [apply read_head_okb; exact Hs'|eapply IH; eauto; lia].
  Qed.
End Size.

(** every block of the initial state is an input block *)
Lemma run_key_block_size {V} (size : nat) (fast : bool) (bs : list (blk V)) fuel out :
  (length bs <= 20)%nat ->
  run_key fuel size fast (mkst bs [] []) = Some out ->
  Forall (fun b => In (b_vals b) (map b_vals bs) \/ (length (b_vals b) <= size)%nat) out.
Proof.
  intros Hsm H. apply (run_key_sizes (map b_vals bs) size fast fuel (mkst bs [] []) out); [|exact Hsm|exact H].
  split; cbn; [|constructor]. apply Forall_forall. intros b Hb. unfold orig. apply in_map. exact Hb.
Qed.
