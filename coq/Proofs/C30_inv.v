(** C30 — the invariant of the tenant store and its preservation by every primitive. *)
From Verif Require Import Base.Prelude Model.C30 Proofs.C30_al.

Definition swap (p : N * N) : N * N := (snd p, fst p).
Lemma swap_swap p : swap (swap p) = p.
Proof. destruct p; reflexivity. Qed.

(** Organizations: every record has its index entry (completeness); an index entry
    points to an id that was handed out, and IF that organization is still alive the
    entry is its trimmed name (weak soundness: the code as it is can leave entries of
    deleted organizations behind). *)
Definition InvO (orgs : list (N * oname)) (oidx : list (oname * N)) (next : N) : Prop :=
  (forall id n, getN id orgs = Some n -> getP (trim n) oidx = Some id) /\
  (forall k id, getP k oidx = Some id ->
     (id < next)%N /\ forall n, getN id orgs = Some n -> trim n = k).

(** Buckets: index entry <-> record, the organization of a bucket exists, ids are fresh. *)
Definition InvB (orgs : list (N * oname)) (bkts : list (N * bucket))
           (bidx : list ((N * N) * N)) (next : N) : Prop :=
  (forall k id, getP k bidx = Some id ->
     exists b, getN id bkts = Some b /\ (b_org b, b_name b) = k) /\
  (forall id b, getN id bkts = Some b ->
     getP (b_org b, b_name b) bidx = Some id /\ hasN (b_org b) orgs = true /\ (id < next)%N).

(** Users: index entry <-> record, passwords only for existing users. *)
Definition InvU (users uidx : list (N * N)) (pwds : list (N * unit)) (next : N) : Prop :=
  (forall n id, getN n uidx = Some id -> getN id users = Some n) /\
  (forall id n, getN id users = Some n -> getN n uidx = Some id /\ (id < next)%N) /\
  (forall id, hasN id pwds = true -> hasN id users = true).

(** Mappings: by-user index entry <-> record, the user of a mapping exists. *)
Definition InvM (users : list (N * N)) (urms uix : list ((N * N) * (N * N))) : Prop :=
  (forall k pk, getP k uix = Some pk -> pk = swap k /\ hasP (swap k) urms = true) /\
  (forall k v, getP k urms = Some v -> getP (swap k) uix = Some k /\ hasN (snd k) users = true).

Definition Inv (st : state) : Prop :=
  InvO (s_orgs st) (s_oidx st) (s_next st) /\
  InvB (s_orgs st) (s_bkts st) (s_bidx st) (s_next st) /\
  InvU (s_users st) (s_uidx st) (s_pwds st) (s_next st) /\
  InvM (s_users st) (s_urms st) (s_uix st).

Lemma inv_init : Inv init.
Proof. repeat split; cbn; intros; discriminate. Qed.

(** derived freshness of organization ids *)
Lemma InvO_fresh orgs oidx next id :
  InvO orgs oidx next -> hasN id orgs = true -> (id < next)%N.
Proof.
  intros [Hc Hw] H. apply (has_true N.eqb) in H as [n H].
  apply Hc in H. apply Hw in H. tauto.
Qed.

(** ---- weakening ---- *)

Lemma InvO_mono orgs oidx n n' : InvO orgs oidx n -> (n <= n')%N -> InvO orgs oidx n'.
Proof.
  intros [Hc Hw] Hle. split; [exact Hc|].
  intros k id H. destruct (Hw k id H) as [H1 H2]. split; [lia | exact H2].
Qed.

Lemma InvB_weaken orgs orgs' bkts bidx n n' :
  InvB orgs bkts bidx n ->
  (forall o, hasN o orgs = true -> hasN o orgs' = true) -> (n <= n')%N ->
  InvB orgs' bkts bidx n'.
Proof.
  intros [Hs Hc] Ho Hle. split; [exact Hs|].
  intros id b H. destruct (Hc id b H) as (H1 & H2 & H3). repeat split; auto. lia.
Qed.

Lemma InvU_mono users uidx pwds n n' : InvU users uidx pwds n -> (n <= n')%N -> InvU users uidx pwds n'.
Proof.
  intros (Hs & Hc & Hp) Hle. repeat split; auto.
  - apply (Hc id n0 H).
  - destruct (Hc id n0 H); lia.
Qed.

Lemma InvM_weaken users users' urms uix :
  InvM users urms uix -> (forall u, hasN u users = true -> hasN u users' = true) ->
  InvM users' urms uix.
Proof.
  intros [Hs Hc] Hu. split; [exact Hs|].
  intros k v H. destruct (Hc k v H). split; auto.
Qed.

Ltac inv_destruct H :=
  let HO := fresh "HO" in let HB := fresh "HB" in let HU := fresh "HU" in let HM := fresh "HM" in
  destruct H as (HO & HB & HU & HM).

(** case analysis on a key comparison *)
Ltac cmpN a b :=
  let E := fresh "E" in
  destruct (N.eqb a b) eqn:E;
  [apply N.eqb_eq in E; first [subst a | subst b | idtac] | apply N.eqb_neq in E].
Ltac cmpP a b :=
  let E := fresh "E" in
  destruct (nn_eqb a b) eqn:E;
  [apply nn_eqb_spec in E; first [subst a | subst b | idtac]
  | let Heq := fresh in
    assert (a <> b) by (intro Heq; rewrite Heq in E; rewrite nn_eqb_refl in E; discriminate)].

(** ================= mappings ================= *)

Lemma InvM_create users urms uix r u v :
  InvM users urms uix -> hasN u users = true -> hasP (r, u) urms = false ->
  InvM users (putP (r, u) v urms) (putP (u, r) (r, u) uix).
Proof.
  intros [Hs Hc] Hu Hnew. split.
  - intros k pk. rewrite getP_put. cmpP k (u, r).
    + intro H; inversion H; subst. split; [reflexivity|]. unfold swap; cbn [fst snd]. rewrite hasP_put, nn_eqb_refl. reflexivity.
    + intro H'. destruct (Hs k pk H') as [-> H2]. split; [reflexivity|].
      rewrite hasP_put, H2. apply orb_true_r.
  - intros k w. rewrite getP_put. cmpP k (r, u).
    + intros _. unfold swap; cbn [fst snd]. rewrite getP_put, nn_eqb_refl. split; [reflexivity | exact Hu].
    + intro H'. destruct (Hc k w H') as [H1 H2]. split; [|exact H2].
      rewrite getP_put. cmpP (swap k) (u, r); [|exact H1].
      exfalso. apply H. destruct k as [a b]; cbn in *. inversion E0; reflexivity.
Qed.

Lemma InvM_delete users urms uix k :
  InvM users urms uix -> InvM users (delP k urms) (delP (swap k) uix).
Proof.
  intros [Hs Hc]. split.
  - intros k' pk. rewrite getP_del. cmpP k' (swap k); [discriminate|].
    intro H'. destruct (Hs k' pk H') as [-> H2]. split; [reflexivity|].
    rewrite hasP_del, H2. cmpP (swap k') k; [|reflexivity].
    exfalso. apply H. rewrite swap_swap. reflexivity.
  - intros k' w. rewrite getP_del. cmpP k' k; [discriminate|].
    intro H'. destruct (Hc k' w H') as [H1 H2]. split; [|exact H2].
    rewrite getP_del. cmpP (swap k') (swap k); [|exact H1].
    exfalso. apply H. rewrite <- (swap_swap k'), E0, swap_swap. reflexivity.
Qed.

Ltac inv_split :=
  unfold Inv; cbn [s_orgs s_oidx s_bkts s_bidx s_users s_uidx s_pwds s_urms s_uix s_next fst snd];
  split; [|split; [|split]].

Lemma inv_create_urm st r u v : Inv st -> Inv (fst (create_urm st r u v)).
Proof.
  intro H. unfold create_urm.
  destruct (getN u (s_users st)) eqn:Eu; [|exact H].
  destruct (hasP (r, u) (s_urms st)) eqn:Er; [exact H|].
  inv_destruct H. inv_split; try assumption.
  apply InvM_create; eauto using (get_some_has N.eqb).
Qed.

Lemma inv_delete_urm st r u : Inv st -> Inv (delete_urm st r u).
Proof.
  intro H. inv_destruct H. unfold delete_urm. inv_split; try assumption.
  apply (InvM_delete _ _ _ (r, u)). exact HM.
Qed.

Lemma inv_delete_urm_svc st r u : Inv st -> Inv (fst (delete_urm_svc st r u)).
Proof.
  intro H. unfold delete_urm_svc. destruct (hasP (r, u) (s_urms st)); cbn [fst]; [|exact H].
  apply inv_delete_urm; exact H.
Qed.

Lemma fold_inv {A} (f : state -> A -> state) (l : list A) :
  (forall s a, Inv s -> Inv (f s a)) -> forall st, Inv st -> Inv (fold_left f l st).
Proof. intro Hf. induction l as [|a l IH]; cbn; auto. Qed.

Lemma inv_remove_relations st res : Inv st -> Inv (remove_relations st res).
Proof.
  intro H. unfold remove_relations. apply fold_inv; [|exact H].
  intros s k Hs. apply inv_delete_urm_svc; exact Hs.
Qed.

(** ================= buckets ================= *)

Definition bkey (b : bucket) : N * N := (b_org b, b_name b).

Lemma InvB_create orgs bkts bidx n org name sys :
  InvB orgs bkts bidx n -> hasN org orgs = true -> hasP (org, name) bidx = false ->
  InvB orgs (putN n {| b_org := org; b_name := name; b_sys := sys |} bkts)
       (putP (org, name) n bidx) (N.succ n).
Proof.
  intros [Hs Hc] Ho Hnew. split.
  - intros k id. rewrite getP_put. cmpP k (org, name).
    + intro H; inversion H; subst. eexists. rewrite getN_put, N.eqb_refl. split; reflexivity.
    + intro H'. destruct (Hs k id H') as (b & Hb & Hk). exists b. split; [|exact Hk].
      rewrite getN_put. cmpN id n; [|exact Hb].
      destruct (Hc _ _ Hb) as (_ & _ & Hlt). lia.
  - intros id b. rewrite getN_put. cmpN id n.
    + intro H; inversion H; subst; cbn [b_org b_name b_sys]. rewrite getP_put, nn_eqb_refl. repeat split; auto. lia.
    + intro H'. destruct (Hc id b H') as (H1 & H2 & H3). repeat split; auto; [|lia].
      rewrite getP_put. cmpP (b_org b, b_name b) (org, name); [|exact H1].
      rewrite E0 in H1. apply (get_some_has nn_eqb) in H1. congruence.
Qed.

Lemma InvB_rename orgs bkts bidx n id b nm :
  InvB orgs bkts bidx n -> getN id bkts = Some b -> hasP (b_org b, nm) bidx = false ->
  InvB orgs (putN id {| b_org := b_org b; b_name := nm; b_sys := b_sys b |} bkts)
       (putP (b_org b, nm) id (delP (b_org b, b_name b) bidx)) n.
Proof.
  intros [Hs Hc] Hb Hnew. destruct (Hc id b Hb) as (Hbi & Hbo & Hblt). split.
  - intros k id'. rewrite getP_put. cmpP k (b_org b, nm).
    + intro H; inversion H; subst. eexists. rewrite getN_put, N.eqb_refl. split; reflexivity.
    + rewrite getP_del. cmpP k (b_org b, b_name b); [discriminate|].
      intro H'. destruct (Hs k id' H') as (b0 & Hb0 & Hk). exists b0. split; [|exact Hk].
      rewrite getN_put. cmpN id' id; [|exact Hb0].
      exfalso. apply H0. rewrite Hb in Hb0. inversion Hb0; subst. reflexivity.
  - intros id' b0. rewrite getN_put. cmpN id' id.
    + intro H; inversion H; subst; cbn [b_org b_name b_sys]. rewrite getP_put, nn_eqb_refl. repeat split; auto.
    + intro H'. destruct (Hc id' b0 H') as (H1 & H2 & H3). repeat split; auto.
      rewrite getP_put. cmpP (b_org b0, b_name b0) (b_org b, nm).
      * rewrite E0 in H1. apply (get_some_has nn_eqb) in H1. congruence.
      * rewrite getP_del. cmpP (b_org b0, b_name b0) (b_org b, b_name b); [|exact H1].
        rewrite E1 in H1. rewrite Hbi in H1. inversion H1. congruence.
Qed.

Lemma InvB_delete orgs bkts bidx n id b :
  InvB orgs bkts bidx n -> getN id bkts = Some b ->
  InvB orgs (delN id bkts) (delP (b_org b, b_name b) bidx) n.
Proof.
  intros [Hs Hc] Hb. destruct (Hc id b Hb) as (Hbi & Hbo & Hblt). split.
  - intros k id'. rewrite getP_del. cmpP k (b_org b, b_name b); [discriminate|].
    intro H'. destruct (Hs k id' H') as (b0 & Hb0 & Hk). exists b0. split; [|exact Hk].
    rewrite getN_del. cmpN id' id; [|exact Hb0].
    exfalso. apply H. rewrite Hb in Hb0. inversion Hb0; subst. reflexivity.
  - intros id' b0. rewrite getN_del. cmpN id' id; [discriminate|].
    intro H'. destruct (Hc id' b0 H') as (H1 & H2 & H3). repeat split; auto.
    rewrite getP_del. cmpP (b_org b0, b_name b0) (b_org b, b_name b); [|exact H1].
    rewrite E0 in H1. rewrite Hbi in H1. inversion H1. congruence.
Qed.

Lemma InvB_delorg orgs bkts bidx n id :
  InvB orgs bkts bidx n -> (forall j b, getN j bkts = Some b -> b_org b <> id) ->
  InvB (delN id orgs) bkts bidx n.
Proof.
  intros [Hs Hc] Hno. split; [exact Hs|].
  intros j b H. destruct (Hc j b H) as (H1 & H2 & H3). repeat split; auto.
  rewrite hasN_del, H2. specialize (Hno j b H). cmpN (b_org b) id; [contradiction | reflexivity].
Qed.

Lemma inv_create_bucket st org name sys : Inv st -> Inv (fst (create_bucket st org name sys)).
Proof.
  intro H. unfold create_bucket.
  destruct (negb (valid_bname name sys)); [exact H|].
  destruct (hasN org (s_orgs st)) eqn:Eo; cbn [negb]; [|exact H].
  destruct (hasP (org, name) (s_bidx st)) eqn:Eb; [exact H|].
  inv_destruct H. inv_split.
  - eapply InvO_mono; [exact HO | lia].
  - apply InvB_create; assumption.
  - eapply InvU_mono; [exact HU | lia].
  - exact HM.
Qed.

Lemma inv_update_bucket st id name : Inv st -> Inv (fst (update_bucket st id name)).
Proof.
  intro H. unfold update_bucket.
  destruct (getN id (s_bkts st)) as [b|] eqn:Eb; [|exact H].
  destruct name as [n|]; [|exact H].
  destruct (N.eqb (b_name b) n); [exact H|].
  destruct (b_sys b) eqn:Es; [exact H|].
  destruct (negb (valid_bname n false)); [exact H|].
  destruct (hasP (b_org b, n) (s_bidx st)) eqn:Ei; [exact H|].
  inv_destruct H. inv_split; try assumption.
  apply (InvB_rename _ _ _ _ id b n) in HB; [rewrite Es in HB; exact HB | assumption | assumption].
Qed.

Lemma inv_delete_bucket_tx st id internal : Inv st -> Inv (fst (delete_bucket_tx st id internal)).
Proof.
  intro H. unfold delete_bucket_tx.
  destruct (getN id (s_bkts st)) as [b|] eqn:Eb; [|exact H].
  destruct (b_sys b && negb internal); [exact H|].
  inv_destruct H. inv_split; try assumption.
  apply InvB_delete; assumption.
Qed.

Lemma inv_delete_bucket st id internal : Inv st -> Inv (fst (delete_bucket st id internal)).
Proof.
  intro H. unfold delete_bucket.
  pose proof (inv_delete_bucket_tx st id internal H) as H1.
  destruct (delete_bucket_tx st id internal) as [s1 e]. cbn [fst] in H1.
  destruct (N.eqb e E_OK); cbn [fst]; [|exact H1].
  apply inv_remove_relations; exact H1.
Qed.

Lemma inv_delete_buckets l : forall st, Inv st -> Inv (fst (delete_buckets l st)).
Proof.
  induction l as [|i l IH]; intros st H; cbn; [exact H|].
  pose proof (inv_delete_bucket st i true H) as H1.
  destruct (delete_bucket st i true) as [s1 e]. cbn [fst] in H1.
  destruct (N.eqb e E_OK); [apply IH; exact H1 | exact H1].
Qed.

(** ================= organizations ================= *)

Lemma trim_idem n : trim (trim n) = trim n.
Proof. reflexivity. Qed.

Lemma InvO_create orgs oidx next name :
  InvO orgs oidx next -> hasP (trim name) oidx = false ->
  InvO (putN next name orgs) (putP (trim name) next oidx) (N.succ next).
Proof.
  intros [Hc Hw] Hnew. split.
  - intros id n. rewrite getN_put. cmpN id next.
    + intro H; inversion H; subst. rewrite getP_put, nn_eqb_refl. reflexivity.
    + intro H'. pose proof (Hc id n H') as H1. rewrite getP_put.
      cmpP (trim n) (trim name); [|exact H1].
      rewrite E0 in H1. apply (get_some_has nn_eqb) in H1. congruence.
  - intros k id. rewrite getP_put. cmpP k (trim name).
    + intro H; inversion H; subst. split; [lia|].
      intros n. rewrite getN_put, N.eqb_refl. intro H'; inversion H'; reflexivity.
    + intro H'. destruct (Hw k id H') as [H1 H2]. split; [lia|].
      intros n. rewrite getN_put. cmpN id next; [lia | apply H2].
Qed.

Lemma InvO_rename orgs oidx next id old n :
  InvO orgs oidx next -> getN id orgs = Some old -> hasP (trim n) oidx = false ->
  InvO (putN id n orgs) (putP (trim n) id (delP (trim old) oidx)) next.
Proof.
  intros [Hc Hw] Hold Hnew. pose proof (Hc id old Hold) as Hio. destruct (Hw _ _ Hio) as [Hlt _]. split.
  - intros id' n'. rewrite getN_put. cmpN id' id.
    + intro H; inversion H; subst. rewrite getP_put, nn_eqb_refl. reflexivity.
    + intro H'. pose proof (Hc id' n' H') as H1. rewrite getP_put.
      cmpP (trim n') (trim n).
      * rewrite E0 in H1. apply (get_some_has nn_eqb) in H1. congruence.
      * rewrite getP_del. cmpP (trim n') (trim old); [|exact H1].
        rewrite E1 in H1. rewrite Hio in H1. inversion H1. congruence.
  - intros k id'. rewrite getP_put. cmpP k (trim n).
    + intro H; inversion H; subst. split; [exact Hlt|].
      intros m. rewrite getN_put, N.eqb_refl. intro H'; inversion H'; reflexivity.
    + rewrite getP_del. cmpP k (trim old); [discriminate|].
      intro H'. destruct (Hw k id' H') as [H1 H2]. split; [exact H1|].
      intros m. rewrite getN_put. cmpN id' id; [|apply H2].
      intros _. exfalso. apply H0. symmetry. apply H2. exact Hold.
Qed.

Lemma InvO_delete orgs oidx next id n key :
  InvO orgs oidx next -> getN id orgs = Some n -> key = n \/ key = trim n ->
  InvO (delN id orgs) (delP key oidx) next.
Proof.
  intros [Hc Hw] Hn Hkey. pose proof (Hc id n Hn) as Hio. split.
  - intros id' n'. rewrite getN_del. cmpN id' id; [discriminate|].
    intro H'. pose proof (Hc id' n' H') as H1. rewrite getP_del.
    cmpP (trim n') key; [|exact H1].
    exfalso. assert (Et : trim n' = trim n).
    { destruct Hkey as [Hk | Hk]; [rewrite <- Hk; reflexivity | exact Hk]. }
    rewrite Et, Hio in H1. inversion H1. congruence.
  - intros k id'. rewrite getP_del. cmpP k key; [discriminate|].
    intro H'. destruct (Hw k id' H') as [H1 H2]. split; [exact H1|].
    intros m. rewrite getN_del. cmpN id' id; [discriminate | apply H2].
Qed.

Lemma has_put_mono {V} (o id : N) (v : V) l : hasN o l = true -> hasN o (putN id v l) = true.
Proof. intro H. rewrite hasN_put, H. apply orb_true_r. Qed.

Lemma inv_update_org st id name : Inv st -> Inv (fst (update_org st id name)).
Proof.
  intro H. unfold update_org.
  destruct (getN id (s_orgs st)) as [old|] eqn:Eo; [|exact H].
  destruct name as [n|]; [|exact H].
  destruct (nn_eqb old n); [exact H|].
  destruct (N.eqb (fst n) 0); [exact H|].
  destruct (hasP (trim n) (s_oidx st)) eqn:Ei; [exact H|].
  inv_destruct H. inv_split; try assumption.
  - apply InvO_rename; assumption.
  - eapply InvB_weaken; [exact HB | | lia]. intros o Ho. apply has_put_mono; exact Ho.
Qed.

(** the organization transaction of [create_org] *)
Lemma inv_create_org st name owner : Inv st -> Inv (fst (create_org st name owner)).
Proof.
  intro H. unfold create_org.
  destruct (N.eqb (fst name) 0); [exact H|].
  destruct (has nn_eqb (trim name) (s_oidx st)) eqn:Ei; [exact H|].
  match goal with |- context [create_bucket ?s _ 0 true] => set (s1 := s) end.
  assert (H1 : Inv s1).
  { inv_destruct H. subst s1. inv_split.
    - apply InvO_create; assumption.
    - eapply InvB_weaken; [exact HB | | lia]. intros o Ho. apply has_put_mono; exact Ho.
    - eapply InvU_mono; [exact HU | lia].
    - exact HM. }
  pose proof (inv_create_bucket s1 (s_next st) 0 true H1) as H2.
  destruct (create_bucket s1 (s_next st) 0 true) as [s2 e2]. cbn [fst] in H2.
  destruct (negb (N.eqb e2 E_OK)); [exact H2|].
  pose proof (inv_create_bucket s2 (s_next st) 1 true H2) as H3.
  destruct (create_bucket s2 (s_next st) 1 true) as [s3 e3]. cbn [fst] in H3.
  destruct (negb (N.eqb e3 E_OK)); [exact H3|].
  destruct owner as [u|]; [apply inv_create_urm; exact H3 | exact H3].
Qed.

(** ================= frames of the mapping loops ================= *)

(** everything except the two mapping buckets *)
Definition frameM (st : state) :=
  (s_orgs st, s_oidx st, s_bkts st, s_bidx st, s_users st, s_uidx st, s_pwds st, s_next st).

Lemma frameM_fold {A} (f : state -> A -> state) (l : list A) :
  (forall s a, frameM (f s a) = frameM s) -> forall st, frameM (fold_left f l st) = frameM st.
Proof.
  intro Hf. induction l as [|a l IH]; intro st; cbn; [reflexivity|]. rewrite IH. apply Hf.
Qed.

Lemma frameM_delete_urm_svc s r u : frameM (fst (delete_urm_svc s r u)) = frameM s.
Proof. unfold delete_urm_svc. destruct (hasP (r, u) (s_urms s)); reflexivity. Qed.

Lemma frameM_remove_relations st res : frameM (remove_relations st res) = frameM st.
Proof.
  unfold remove_relations. apply frameM_fold. intros s k. apply frameM_delete_urm_svc.
Qed.

Lemma frameM_proj a b : frameM a = frameM b ->
  s_orgs a = s_orgs b /\ s_oidx a = s_oidx b /\ s_bkts a = s_bkts b /\ s_bidx a = s_bidx b /\
  s_users a = s_users b /\ s_uidx a = s_uidx b /\ s_pwds a = s_pwds b /\ s_next a = s_next b.
Proof. unfold frameM. intro H. inversion H. repeat split; assumption. Qed.

Ltac frame_eqs H :=
  unfold frameM in H; inversion H; clear H.

(** the unconditional deletion loop: which records are left *)
Definition del_loop (pks : list (N * N)) (st : state) : state :=
  fold_left (fun s pk => delete_urm s (fst pk) (snd pk)) pks st.

Lemma del_loop_urms pks : forall st k,
  getP k (s_urms (del_loop pks st)) = if existsb (nn_eqb k) pks then None else getP k (s_urms st).
Proof.
  induction pks as [|pk pks IH]; intros st k; cbn; [reflexivity|].
  unfold del_loop in IH. rewrite IH. cbn [delete_urm s_urms].
  destruct pk as [r u]; cbn [fst snd]. rewrite getP_del.
  destruct (nn_eqb k (r, u)); cbn; [destruct (existsb (nn_eqb k) pks); reflexivity | reflexivity].
Qed.

Lemma frameM_del_loop pks st : frameM (del_loop pks st) = frameM st.
Proof. unfold del_loop. apply frameM_fold. reflexivity. Qed.

Lemma inv_del_loop pks st : Inv st -> Inv (del_loop pks st).
Proof. intro H. unfold del_loop. apply fold_inv; [|exact H]. intros s a. apply inv_delete_urm. Qed.

(** Under the invariant the service loop of [removeResourceRelations] (which first looks
    the mapping up) is the unconditional loop. *)
Lemma delete_urm_svc_eq st r u : Inv st -> fst (delete_urm_svc st r u) = delete_urm st r u.
Proof.
  intros (_ & _ & _ & Hs & Hc). unfold delete_urm_svc.
  destruct (hasP (r, u) (s_urms st)) eqn:E; [reflexivity|]. cbn [fst]. unfold delete_urm.
  apply (has_false nn_eqb) in E.
  rewrite (del_absent nn_eqb _ _ E).
  assert (E2 : getP (u, r) (s_uix st) = None).
  { destruct (getP (u, r) (s_uix st)) eqn:E2; [|reflexivity].
    apply Hs in E2 as [_ E2]. unfold swap in E2; cbn [fst snd] in E2.
    apply (has_true nn_eqb) in E2 as [v E2]. congruence. }
  rewrite (del_absent nn_eqb _ _ E2). destruct st; reflexivity.
Qed.

Lemma svc_loop_eq ks : forall st, Inv st ->
  fold_left (fun s k => fst (delete_urm_svc s (fst k) (snd k))) ks st = del_loop ks st.
Proof.
  induction ks as [|k ks IH]; intros st H; cbn; [reflexivity|].
  rewrite delete_urm_svc_eq by exact H. apply IH. apply inv_delete_urm; exact H.
Qed.

(** what [removeResourceRelations] leaves: exactly the mappings of other resources *)
Lemma remove_relations_urms st res k : Inv st ->
  getP k (s_urms (remove_relations st res)) = if N.eqb (fst k) res then None else getP k (s_urms st).
Proof.
  intro H. unfold remove_relations. rewrite svc_loop_eq by exact H. rewrite del_loop_urms.
  destruct (existsb (nn_eqb k) _) eqn:E.
  - apply existsb_nn in E. apply filter_In in E as [_ E]. rewrite E. reflexivity.
  - cmpN (fst k) res; [|reflexivity].
    destruct (getP k (s_urms st)) eqn:G; [|reflexivity].
    exfalso. apply (get_in nn_eqb nn_eqb_spec) in G.
    assert (In k (filter (fun k0 : N * N => N.eqb (fst k0) (fst k)) (map fst (s_urms st)))).
    { apply filter_In. split; [|apply N.eqb_refl]. apply in_map_iff. eexists; split; [|exact G]. reflexivity. }
    apply existsb_nn in H0. congruence.
Qed.

(** ================= users ================= *)

Lemma InvU_create users uidx pwds n name :
  InvU users uidx pwds n -> hasN name uidx = false ->
  InvU (putN n name users) (putN name n uidx) pwds (N.succ n).
Proof.
  intros (Hs & Hc & Hp) Hnew. split; [|split].
  - intros m id. rewrite getN_put. cmpN m name.
    + intro H; inversion H; subst. rewrite getN_put, N.eqb_refl. reflexivity.
    + intro H'. pose proof (Hs _ _ H') as H1. rewrite getN_put. cmpN id n; [|exact H1].
      destruct (Hc _ _ H1). lia.
  - intros id m. rewrite getN_put. cmpN id n.
    + intro H; inversion H; subst. rewrite getN_put, N.eqb_refl. split; [reflexivity | lia].
    + intro H'. destruct (Hc _ _ H') as [H1 H2]. split; [|lia]. rewrite getN_put. cmpN m name; [|exact H1].
      apply (get_some_has N.eqb) in H1. congruence.
  - intros id H. apply has_put_mono. apply Hp; exact H.
Qed.

Lemma InvU_rename users uidx pwds next id old n :
  InvU users uidx pwds next -> getN id users = Some old -> hasN n uidx = false ->
  InvU (putN id n users) (putN n id (delN old uidx)) pwds next.
Proof.
  intros (Hs & Hc & Hp) Hold Hnew. destruct (Hc _ _ Hold) as [Hio Hlt]. split; [|split].
  - intros m id'. rewrite getN_put. cmpN m n.
    + intro H; inversion H; subst. rewrite getN_put, N.eqb_refl. reflexivity.
    + rewrite getN_del. cmpN m old; [discriminate|].
      intro H'. pose proof (Hs _ _ H') as H1. rewrite getN_put. cmpN id' id; [|exact H1].
      congruence.
  - intros id' m. rewrite getN_put. cmpN id' id.
    + intro H; inversion H; subst. rewrite getN_put, N.eqb_refl. split; [reflexivity | exact Hlt].
    + intro H'. destruct (Hc _ _ H') as [H1 H2]. split; [|exact H2]. rewrite getN_put. cmpN m n.
      * apply (get_some_has N.eqb) in H1. congruence.
      * rewrite getN_del. cmpN m old; [|exact H1]. congruence.
  - intros id' H. apply has_put_mono. apply Hp; exact H.
Qed.

Lemma InvU_delete users uidx pwds next id n :
  InvU users uidx pwds next -> getN id users = Some n ->
  InvU (delN id users) (delN n uidx) (delN id pwds) next.
Proof.
  intros (Hs & Hc & Hp) Hn. destruct (Hc _ _ Hn) as [Hio Hlt]. split; [|split].
  - intros m id'. rewrite getN_del. cmpN m n; [discriminate|].
    intro H'. pose proof (Hs _ _ H') as H1. rewrite getN_del. cmpN id' id; [|exact H1]. congruence.
  - intros id' m. rewrite getN_del. cmpN id' id; [discriminate|].
    intro H'. destruct (Hc _ _ H') as [H1 H2]. split; [|exact H2]. rewrite getN_del. cmpN m n; [|exact H1]. congruence.
  - intros id'. rewrite !hasN_del. cmpN id' id; cbn; [discriminate|]. apply Hp.
Qed.

Lemma InvU_setpw users uidx pwds next id :
  InvU users uidx pwds next -> hasN id users = true -> InvU users uidx (putN id tt pwds) next.
Proof.
  intros (Hs & Hc & Hp) Hu. split; [exact Hs | split; [exact Hc|]].
  intros id'. rewrite hasN_put. cmpN id' id; cbn; [intros _; exact Hu | apply Hp].
Qed.

Lemma InvM_deluser users urms uix id :
  InvM users urms uix -> (forall k v, getP k urms = Some v -> snd k <> id) ->
  InvM (delN id users) urms uix.
Proof.
  intros [Hs Hc] Hno. split; [exact Hs|].
  intros k v H. destruct (Hc k v H) as [H1 H2]. split; [exact H1|].
  rewrite hasN_del, H2. specialize (Hno k v H). cmpN (snd k) id; [contradiction | reflexivity].
Qed.

Lemma inv_create_user st name : Inv st -> Inv (fst (create_user st name)).
Proof.
  intro H. unfold create_user. destruct (hasN name (s_uidx st)) eqn:E; [exact H|].
  inv_destruct H. inv_split.
  - eapply InvO_mono; [exact HO | lia].
  - eapply InvB_weaken; [exact HB | auto | lia].
  - apply InvU_create; assumption.
  - eapply InvM_weaken; [exact HM|]. intros u Hu. apply has_put_mono; exact Hu.
Qed.

Lemma inv_update_user st id name : Inv st -> Inv (fst (update_user st id name)).
Proof.
  intro H. unfold update_user.
  destruct (getN id (s_users st)) as [old|] eqn:Eo; [|exact H].
  destruct name as [n|]; [|exact H].
  destruct (N.eqb n old); [exact H|].
  destruct (hasN n (s_uidx st)) eqn:E; [exact H|].
  inv_destruct H. inv_split; try assumption.
  - apply InvU_rename; assumption.
  - eapply InvM_weaken; [exact HM|]. intros u Hu. apply has_put_mono; exact Hu.
Qed.

Lemma inv_set_password st id : Inv st -> Inv (fst (set_password st id)).
Proof.
  intro H. unfold set_password. destruct (hasN id (s_users st)) eqn:E; [|exact H].
  inv_destruct H. inv_split; try assumption. apply InvU_setpw; assumption.
Qed.

(** [delete_user]: the mapping loop commutes with the changes of the user buckets. *)
Definition setU (st : state) us ui pw : state :=
  {| s_orgs := s_orgs st; s_oidx := s_oidx st; s_bkts := s_bkts st; s_bidx := s_bidx st;
     s_users := us; s_uidx := ui; s_pwds := pw;
     s_urms := s_urms st; s_uix := s_uix st; s_next := s_next st |}.

Lemma del_loop_setU pks : forall st us ui pw,
  del_loop pks (setU st us ui pw) = setU (del_loop pks st) us ui pw.
Proof.
  induction pks as [|pk pks IH]; intros; cbn; [reflexivity|].
  unfold del_loop in IH. rewrite <- IH. reflexivity.
Qed.

Definition user_pks (st : state) (id : N) : list (N * N) :=
  map snd (filter (fun e => N.eqb (fst (fst e)) id && hasP (snd e) (s_urms st)) (s_uix st)).

Lemma delete_user_eq st id n : getN id (s_users st) = Some n ->
  delete_user st id =
  (setU (del_loop (user_pks st id) st) (delN id (s_users st)) (delN n (s_uidx st)) (delN id (s_pwds st)), E_OK).
Proof.
  intro H. unfold delete_user. rewrite H. f_equal. rewrite <- del_loop_setU. reflexivity.
Qed.

Lemma user_pks_complete st id k v : Inv st ->
  getP k (s_urms st) = Some v -> snd k = id -> In k (user_pks st id).
Proof.
  intros (_ & _ & _ & Hs & Hc) H E. destruct (Hc k v H) as [H1 _].
  apply (get_in nn_eqb nn_eqb_spec) in H1. unfold user_pks.
  apply in_map_iff. exists (swap k, k). split; [reflexivity|].
  apply filter_In. split; [exact H1|]. cbn [fst snd swap].
  rewrite E, N.eqb_refl. cbn. eapply get_some_has; exact H.
Qed.

Lemma inv_delete_user st id : Inv st -> Inv (fst (delete_user st id)).
Proof.
  intro H. destruct (getN id (s_users st)) as [n|] eqn:En.
  2:{ unfold delete_user. rewrite En. exact H. }
  rewrite (delete_user_eq _ _ _ En). cbn [fst].
  pose proof (inv_del_loop (user_pks st id) st H) as Ha.
  pose proof (frameM_del_loop (user_pks st id) st) as Hf. frame_eqs Hf.
  set (sa := del_loop (user_pks st id) st) in *.
  assert (Hno : forall k v, getP k (s_urms sa) = Some v -> snd k <> id).
  { intros k v Hk E. subst sa. rewrite del_loop_urms in Hk.
    destruct (existsb (nn_eqb k) (user_pks st id)) eqn:Ex; [discriminate|].
    pose proof (user_pks_complete st id k v H Hk E) as Hin. apply existsb_nn in Hin. congruence. }
  inv_destruct Ha. unfold setU. inv_split; try assumption.
  - apply InvU_delete; [exact HU | rewrite H5; exact En].
  - apply InvM_deluser; assumption.
Qed.

