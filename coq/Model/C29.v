(** C29 — Authorization wrappers never leak or modify unauthorized resources.

    Mirror of the wrappers in /repo/authorizer/{bucket,org,user,auth}.go,
    /repo/authorizer/authorize.go ([authorize] and the [Authorize*] helpers),
    /repo/authorizer/authorize_find.go ([AuthorizeFindBuckets/Organizations/Users/
    Authorizations]) and /repo/authorization/middleware_auth.go
    ([AuthedAuthorizationService], [VerifyPermissions]), over a small model of the wrapped
    tenant / authorization services (a list of resources + org memberships).

    One model shape for the four wrappers; what differs per wrapper is only
      - which permissions are built for a read / a write / a create of a resource
        ([read_reqs], [write_reqs], [create_reqs]), and
      - whether the method looks the resource up BEFORE authorizing ([lookup_first]).
    Permission semantics is C28's [matchesV1] / [allowed].

    Type codes are fixed by the driver's interner: instance = 0 (C28), authorizations = 1,
    buckets = 2, orgs = 3, users = 4; actions read = 0, write = 1.
    Error classes: 0 ok, 1 unauthorized (EUnauthorized), 2 forbidden (EForbidden),
    3 not found, 4 any other error. *)
From Verif Require Import Base.Prelude Model.C28.

Definition T_AUTH : N := 1%N.
Definition T_BUCKET : N := 2%N.
Definition T_ORG : N := 3%N.
Definition T_USER : N := 4%N.
Definition A_READ : N := 0%N.
Definition A_WRITE : N := 1%N.

Definition E_OK : N := 0%N.
Definition E_UNAUTH : N := 1%N.
Definition E_FORBID : N := 2%N.
Definition E_NOTFOUND : N := 3%N.
Definition E_OTHER : N := 4%N.

Inductive kind := KBucket | KOrg | KUser | KAuth.

Definition kind_eqb (a b : kind) : bool :=
  match a, b with
  | KBucket, KBucket | KOrg, KOrg | KUser, KUser | KAuth, KAuth => true
  | _, _ => false
  end.

(** A stored resource.  [r_org]: owning org (buckets, tokens); [r_user]: owning user
    (tokens); [r_sys]: system bucket; [r_pay]: description (name for users), interned;
    [r_active], [r_perms]: token status and granted permissions. *)
Record rsrc := mkres {
  r_kind : kind; r_id : N; r_org : N; r_user : N; r_sys : bool; r_pay : N;
  r_active : bool; r_perms : list perm }.

(** The store: resources and org memberships (user, org) — the URMs of type orgs. *)
Record store := mkstore { s_res : list rsrc; s_urm : list (N * N) }.

(** The caller: the [influxdb.Authorization] put on the context. *)
Record caller := { c_perms : list perm; c_active : bool; c_user : N }.

(** * Permission construction: mirror of [authorize] (authorize.go) *)

Definition mk (a t : N) (i o : option N) : perm :=
  {| act := a; res := {| rtype := t; rid := i; rorg := o |} |}.

(** [Permission.Valid]: a present id / org id must be non-zero ([platform.ID.Valid]). *)
Definition optid_valid (x : option N) : bool :=
  match x with Some n => negb (N.eqb n 0) | None => true end.
Definition valid_req (q : perm) : bool :=
  optid_valid (rorg (res q)) && optid_valid (rid (res q)).

Inductive az := AzOk | AzDenied | AzInvalid.

(** [authorize]: build the permission (error EInvalid if an id is zero), fetch the
    authorizer, [isAllowed]: [PermissionSet()] fails with EUnauthorized for an inactive
    token, otherwise [pset.Allowed(p)]. *)
Definition held (c : caller) (q : perm) : bool := c_active c && allowed (c_perms c) q.

Definition authorize1 (c : caller) (q : perm) : az :=
  if negb (valid_req q) then AzInvalid
  else if held c q then AzOk else AzDenied.

(** Consecutive [if _, _, err := Authorize…; err != nil { return err }] checks. *)
Fixpoint authorize_all (c : caller) (qs : list perm) : az :=
  match qs with
  | [] => AzOk
  | q :: r => match authorize1 c q with AzOk => authorize_all c r | e => e end
  end.

Definition az_cls (a : az) : N :=
  match a with AzOk => E_OK | AzDenied => E_UNAUTH | AzInvalid => E_OTHER end.

(** * Per-wrapper parameters: which permissions are built *)

(** read:  bucket.go [AuthorizeReadBucket] (system buckets: [AuthorizeReadOrg] of the owning
    org; others: [AuthorizeRead(buckets, id, org)]); org.go [AuthorizeReadOrg(id)];
    user.go [AuthorizeReadResource(users, id)]; auth.go [AuthorizeRead(authorizations, id,
    org)] then [AuthorizeReadResource(users, userID)]. *)
Definition read_reqs (r : rsrc) : list perm :=
  match r_kind r with
  | KBucket => if r_sys r then [mk A_READ T_ORG (Some (r_org r)) None]
               else [mk A_READ T_BUCKET (Some (r_id r)) (Some (r_org r))]
  | KOrg => [mk A_READ T_ORG (Some (r_id r)) None]
  | KUser => [mk A_READ T_USER (Some (r_id r)) None]
  | KAuth => [mk A_READ T_AUTH (Some (r_id r)) (Some (r_org r));
              mk A_READ T_USER (Some (r_user r)) None]
  end.

(** write (update/delete): [AuthorizeWrite(buckets, id, org)] (system buckets too);
    [AuthorizeWriteOrg(id)]; [AuthorizeWriteResource(users, id)];
    [AuthorizeWrite(authorizations, id, org)] then [AuthorizeWriteResource(users, userID)]. *)
Definition write_reqs (r : rsrc) : list perm :=
  match r_kind r with
  | KBucket => [mk A_WRITE T_BUCKET (Some (r_id r)) (Some (r_org r))]
  | KOrg => [mk A_WRITE T_ORG (Some (r_id r)) None]
  | KUser => [mk A_WRITE T_USER (Some (r_id r)) None]
  | KAuth => [mk A_WRITE T_AUTH (Some (r_id r)) (Some (r_org r));
              mk A_WRITE T_USER (Some (r_user r)) None]
  end.

(** create: [AuthorizeCreate(buckets, org)]; [AuthorizeWriteGlobal(orgs)];
    [AuthorizeWriteGlobal(users)]; [AuthorizeCreate(authorizations, org)] then
    [AuthorizeWriteResource(users, userID)]. *)
Definition create_reqs (r : rsrc) : list perm :=
  match r_kind r with
  | KBucket => [mk A_WRITE T_BUCKET None (Some (r_org r))]
  | KOrg => [mk A_WRITE T_ORG None None]
  | KUser => [mk A_WRITE T_USER None None]
  | KAuth => [mk A_WRITE T_AUTH None (Some (r_org r));
              mk A_WRITE T_USER (Some (r_user r)) None]
  end.

(** Does the method fetch the resource before authorizing?  BucketService and both
    authorization wrappers always do.  OrgService / UserService: [Find…ByID] (variant 0),
    [Update…], [Delete…] authorize on the id alone first; [FindOrganization(filter)] /
    [FindUser(filter)] (variants 1, 2) fetch first. *)
Definition lookup_first_find (k : kind) (v : N) : bool :=
  match k with
  | KOrg | KUser => negb (N.eqb (N.modulo v 3) 0)
  | _ => true
  end.
Definition lookup_first_mut (k : kind) : bool :=
  match k with KOrg | KUser => false | _ => true end.

(** What the check-first methods know about the target: its kind and id only. *)
Definition stub (k : kind) (id : N) : rsrc := mkres k id 0 0 false 0 false [].

(** * The wrapped (unwrapped) services *)

Definition is_res (k : kind) (id : N) (r : rsrc) : bool :=
  kind_eqb (r_kind r) k && N.eqb (r_id r) id.
Definition lookup (s : store) (k : kind) (id : N) : option rsrc :=
  find (is_res k id) (s_res s).
Definition of_kind (s : store) (k : kind) : list rsrc :=
  filter (fun r => kind_eqb (r_kind r) k) (s_res s).

(** URM lookup by user; an invalid (zero) user id in the filter means "any user"
    ([Store.ListURMs]: [!filter.UserID.Valid() || …]). *)
Definition member (s : store) (u o : N) : bool :=
  existsb (fun m => (N.eqb u 0 || N.eqb (fst m) u) && N.eqb (snd m) o) (s_urm s).

(** Filters of the unwrapped Find…s.  Whenever a filter carries an ID the unwrapped services
    resolve it FIRST and ignore the other fields (tenant.BucketSvc.FindBuckets, OrgSvc,
    UserSvc, authorization.Service): the driver sends id+org, id+name, id+user combinations
    and reports them as [FID].  [FIDs l]: a bucket name without org, resolved by the driver
    to the ids of the buckets carrying that name; [FUserOrg]: tokens of a user in an org. *)
Inductive flt := FNone | FID (i : N) | FOrg (o : N) | FUser (u : N)
               | FIDs (l : list N) | FUserOrg (u o : N).

(** Candidates of the unwrapped [Find…s(filter)]: [inr cls] is its error. *)
Definition candidates (s : store) (k : kind) (f : flt) : list rsrc + N :=
  match f with
  | FID i => match lookup s k i with Some r => inl [r] | None => inr E_NOTFOUND end
  | FNone => inl (of_kind s k)
  | FOrg o => inl (filter (fun r => N.eqb (r_org r) o) (of_kind s k))
  | FUser u =>
      match k with
      | KOrg => inl (filter (fun r => member s u (r_id r)) (of_kind s k))
      | _ => inl (filter (fun r => N.eqb (r_user r) u) (of_kind s k))
      end
  | FIDs l => inl (filter (fun r => existsb (N.eqb (r_id r)) l) (of_kind s k))
  | FUserOrg u o => inl (filter (fun r => N.eqb (r_user r) u && N.eqb (r_org r) o) (of_kind s k))
  end.

(** [AuthorizeFind…]: keep the readable ones, skip EUnauthorized, return any other error. *)
Fixpoint authz_filter (c : caller) (rs : list rsrc) : list N + N :=
  match rs with
  | [] => inl []
  | r :: t =>
      match authorize_all c (read_reqs r) with
      | AzInvalid => inr E_OTHER
      | AzDenied => authz_filter c t
      | AzOk => match authz_filter c t with inl l => inl (r_id r :: l) | e => e end
      end
  end.

Record result := { cls : N; ids : list N; st : store }.
Definition err (e : N) (s : store) : result := {| cls := e; ids := []; st := s |}.
Definition done (l : list N) (s : store) : result := {| cls := E_OK; ids := l; st := s |}.

(** ** find one *)
Definition find1 (c : caller) (s : store) (k : kind) (v id : N) : result :=
  if lookup_first_find k v then
    match lookup s k id with
    | None => err E_NOTFOUND s
    | Some r => match authorize_all c (read_reqs r) with
                | AzOk => done [id] s
                | a => err (az_cls a) s
                end
    end
  else
    match authorize_all c (read_reqs (stub k id)) with
    | AzOk => match lookup s k id with
              | None => err E_NOTFOUND s
              | Some _ => done [id] s
              end
    | a => err (az_cls a) s
    end.

(** ** find many.  org.go [FindOrganizations]: with an empty filter and no type-wide read
    permission on orgs, the caller's user id is put into the filter (memberships). *)
Definition findn (c : caller) (s : store) (k : kind) (f : flt) : result :=
  let f' := match k, f with
            | KOrg, FNone =>
                match authorize1 c (mk A_READ T_ORG None None) with
                | AzOk => FNone
                | _ => FUser (c_user c)
                end
            | _, _ => f
            end in
  match candidates s k f' with
  | inr e => err e s
  | inl rs => match authz_filter c rs with
              | inl l => done l s
              | inr e => err e s
              end
  end.

(** ** create.  [new] carries the kind, the inputs and the id the service assigned ([r_id]);
    [sysids]: the ids assigned to the two system buckets of a new organization. *)
Definition add (s : store) (r : rsrc) : store := mkstore (s_res s ++ [r]) (s_urm s).

Definition has_instance (ps : list perm) : bool :=
  existsb (fun p => N.eqb (rtype (res p)) Instance) ps.

(** [influxdb.Authorization.Valid]: a granted permission naming an org must name the token's. *)
Definition auth_valid (new : rsrc) : bool :=
  forallb (fun p => match rorg (res p) with Some o => N.eqb o (r_org new) | None => true end)
          (r_perms new).

Definition exists_res (s : store) (k : kind) (id : N) : bool :=
  match lookup s k id with Some _ => true | None => false end.

Definition svc_create (c : caller) (s : store) (new : rsrc) (sysids : list N) : result :=
  match r_kind new with
  | KBucket =>
      if exists_res s KOrg (r_org new)
      then done [] (add s (mkres KBucket (r_id new) (r_org new) 0 false (r_pay new) false []))
      else err E_NOTFOUND s
  | KUser => done [] (add s (mkres KUser (r_id new) 0 0 false (r_pay new) false []))
  | KOrg =>
      let sys := map (fun ip => mkres KBucket (fst ip) (r_id new) 0 true (snd ip) false [])
                     (combine sysids [1000; 1001]%N) in
      let rs := s_res s ++ mkres KOrg (r_id new) 0 0 false (r_pay new) false [] :: sys in
      (* the caller's user becomes owner; CreateURM fails if that user does not exist —
         AFTER the organization and its system buckets were stored *)
      if N.eqb (c_user c) 0 then done [] (mkstore rs (s_urm s))
      else if exists_res s KUser (c_user c)
      then done [] (mkstore rs (s_urm s ++ [(c_user c, r_id new)]))
      else err E_NOTFOUND (mkstore rs (s_urm s))
  | KAuth =>
      if negb (auth_valid new) then err E_OTHER s
      else if negb (exists_res s KUser (r_user new) && exists_res s KOrg (r_org new))
      then err E_OTHER s
      else done [] (add s (mkres KAuth (r_id new) (r_org new) (r_user new) false (r_pay new)
                                 (r_active new) (r_perms new)))
  end.

(** [VerifyPermissions]: every granted permission must be held ([IsAllowed]); the first
    that is not gives EForbidden. *)
Definition verify_perms (c : caller) (ps : list perm) : bool := forallb (held c) ps.

Definition create (c : caller) (s : store) (v : N) (new : rsrc) (sysids : list N) : result :=
  match authorize_all c (create_reqs new) with
  | AzOk =>
      match r_kind new with
      | KAuth =>
          if negb (verify_perms c (r_perms new)) then err E_FORBID s
          else if N.eqb (N.modulo v 2) 1 && has_instance (r_perms new) then err E_OTHER s
          else svc_create c s new sysids
      | _ => svc_create c s new sysids
      end
  | a => err (az_cls a) s
  end.

(** ** update / delete *)
Definition set_pay (k : kind) (id pay : N) (active : bool) (r : rsrc) : rsrc :=
  if is_res k id r
  then mkres (r_kind r) (r_id r) (r_org r) (r_user r) (r_sys r) pay
             (match k with KAuth => active | _ => r_active r end) (r_perms r)
  else r.

Definition svc_update (s : store) (k : kind) (id pay : N) (active : bool) : result :=
  match lookup s k id with
  | None => err E_NOTFOUND s
  | Some _ => done [] (mkstore (map (set_pay k id pay active) (s_res s)) (s_urm s))
  end.

Definition svc_delete (s : store) (k : kind) (id : N) : result :=
  match lookup s k id with
  | None => err E_NOTFOUND s
  | Some r =>
      match k with
      | KBucket =>
          if r_sys r then err E_OTHER s  (* errDeleteSystemBucket *)
          else done [] (mkstore (filter (fun x => negb (is_res k id x)) (s_res s)) (s_urm s))
      | KOrg =>  (* cascade: the org's buckets and memberships *)
          done [] (mkstore (filter (fun x => negb (is_res k id x) &&
                                             negb (kind_eqb (r_kind x) KBucket && N.eqb (r_org x) id))
                                   (s_res s))
                           (filter (fun m => negb (N.eqb (snd m) id)) (s_urm s)))
      | KUser =>
          done [] (mkstore (filter (fun x => negb (is_res k id x)) (s_res s))
                           (filter (fun m => negb (N.eqb (fst m) id)) (s_urm s)))
      | KAuth => done [] (mkstore (filter (fun x => negb (is_res k id x)) (s_res s)) (s_urm s))
      end
  end.

(** The shape shared by Update… and Delete…: [inner] is the unwrapped call. *)
Definition guarded_mut (c : caller) (s : store) (k : kind) (id : N) (inner : result) : result :=
  if lookup_first_mut k then
    match lookup s k id with
    | None => err E_NOTFOUND s
    | Some r => match authorize_all c (write_reqs r) with
                | AzOk => inner
                | a => err (az_cls a) s
                end
    end
  else
    match authorize_all c (write_reqs (stub k id)) with
    | AzOk => inner
    | a => err (az_cls a) s
    end.

Definition update c s k id pay active := guarded_mut c s k id (svc_update s k id pay active).
Definition delete c s k id := guarded_mut c s k id (svc_delete s k id).

(** * Calls and steps *)
Inductive call :=
| CFind1 (k : kind) (v id : N)
| CFindN (k : kind) (f : flt)
| CCreate (v : N) (new : rsrc) (sysids : list N)
| CUpdate (k : kind) (v id pay : N) (active : bool)
| CDelete (k : kind) (v id : N).

Definition step (c : caller) (s : store) (x : call) : result :=
  match x with
  | CFind1 k v id => find1 c s k v id
  | CFindN k f => findn c s k f
  | CCreate v new sysids => create c s v new sysids
  | CUpdate k _ id pay active => update c s k id pay active
  | CDelete k _ id => delete c s k id
  end.

(** Running a whole history on the model. *)
Fixpoint run (c : caller) (s : store) (xs : list call) : list result * store :=
  match xs with
  | [] => ([], s)
  | x :: t => let r := step c s x in
              let (rs, s') := run c (st r) t in (r :: rs, s')
  end.

(** * The oracle: the property, stated independently of the mirror
    (C28's [grants_b] instead of [matchesV1]; no authorize chain). *)

Definition may (c : caller) (q : perm) : bool :=
  c_active c && existsb (fun p => grants_b p q) (c_perms c).

(** "the caller may read / write r" = it is granted every permission the property's
    permission semantics asks for r. *)
Definition may_read (c : caller) (r : rsrc) : bool :=
  match r_kind r with
  | KBucket => if r_sys r then may c (mk A_READ T_ORG (Some (r_org r)) None)
               else may c (mk A_READ T_BUCKET (Some (r_id r)) (Some (r_org r)))
  | KOrg => may c (mk A_READ T_ORG (Some (r_id r)) None)
  | KUser => may c (mk A_READ T_USER (Some (r_id r)) None)
  | KAuth => may c (mk A_READ T_AUTH (Some (r_id r)) (Some (r_org r)))
             && may c (mk A_READ T_USER (Some (r_user r)) None)
  end.

Definition may_write_id (c : caller) (k : kind) (id org user : N) : bool :=
  match k with
  | KBucket => may c (mk A_WRITE T_BUCKET (Some id) (Some org))
  | KOrg => may c (mk A_WRITE T_ORG (Some id) None)
  | KUser => may c (mk A_WRITE T_USER (Some id) None)
  | KAuth => may c (mk A_WRITE T_AUTH (Some id) (Some org))
             && may c (mk A_WRITE T_USER (Some user) None)
  end.

Definition may_create (c : caller) (k : kind) (org user : N) : bool :=
  match k with
  | KBucket => may c (mk A_WRITE T_BUCKET None (Some org))
  | KOrg => may c (mk A_WRITE T_ORG None None)
  | KUser => may c (mk A_WRITE T_USER None None)
  | KAuth => may c (mk A_WRITE T_AUTH None (Some org))
             && may c (mk A_WRITE T_USER (Some user) None)
  end.

(** Probe requests for the semantic no-escalation clause: every access request the
    wrappers build for a resource of the store, and the create requests per org. *)
Definition probes (s : store) : list perm :=
  flat_map (fun r =>
    match r_kind r with
    | KBucket => [mk A_READ T_BUCKET (Some (r_id r)) (Some (r_org r));
                  mk A_WRITE T_BUCKET (Some (r_id r)) (Some (r_org r))]
    | KOrg => [mk A_READ T_ORG (Some (r_id r)) None; mk A_WRITE T_ORG (Some (r_id r)) None;
               mk A_WRITE T_BUCKET None (Some (r_id r)); mk A_WRITE T_AUTH None (Some (r_id r))]
    | KUser => [mk A_READ T_USER (Some (r_id r)) None; mk A_WRITE T_USER (Some (r_id r)) None]
    | KAuth => [mk A_READ T_AUTH (Some (r_id r)) (Some (r_org r));
                mk A_WRITE T_AUTH (Some (r_id r)) (Some (r_org r))]
    end) (s_res s)
  ++ [mk A_WRITE T_ORG None None; mk A_WRITE T_USER None None; mk A_READ T_ORG None None].

(** A token with permissions [granted] can do nothing (among [probes]) that the caller cannot. *)
Definition no_escalation_b (c : caller) (granted : list perm) (s : store) : bool :=
  forallb (fun q => negb (existsb (fun p => grants_b p q) granted) || may c q) (probes s).

(** Which stored resources a filter asks for (independent of [candidates]).  An empty org
    filter by a caller without type-wide read on orgs asks for the caller's own orgs. *)
Definition flt_match (c : caller) (s : store) (k : kind) (f : flt) (r : rsrc) : bool :=
  match f with
  | FNone => match k with
             | KOrg => may c (mk A_READ T_ORG None None) || member s (c_user c) (r_id r)
             | _ => true
             end
  | FID i => N.eqb (r_id r) i
  | FOrg o => N.eqb (r_org r) o
  | FUser u => match k with KOrg => member s u (r_id r) | _ => N.eqb (r_user r) u end
  | FIDs l => existsb (N.eqb (r_id r)) l
  | FUserOrg u o => N.eqb (r_user r) u && N.eqb (r_org r) o
  end.

Definition subset_ids (l : list N) (rs : list rsrc) : bool :=
  forallb (fun i => existsb (fun r => N.eqb (r_id r) i) rs) l.

Record obs := mkobs { o_cls : N; o_ids : list N; o_post : option store }.

(** The property's clauses on one observed call in pre-state [s]. *)
Definition oracle_step (c : caller) (s : store) (x : call) (o : obs) : bool :=
  let changed := match o_post o with Some _ => true | None => false end in
  let okc := N.eqb (o_cls o) E_OK in
  let denied := N.eqb (o_cls o) E_UNAUTH || N.eqb (o_cls o) E_FORBID in
  (* a denied call leaves the stored state unchanged *)
  negb (denied && changed) &&
  match x with
  | CFind1 k _ _ =>
      (* only readable resources of the store are returned; reads do not modify *)
      negb changed &&
      forallb (fun i => match lookup s k i with Some r => may_read c r | None => false end) (o_ids o)
  | CFindN k f =>
      negb changed &&
      forallb (fun i => match lookup s k i with Some r => may_read c r | None => false end) (o_ids o) &&
      (* … and every readable resource matching the filter is returned *)
      (negb okc ||
       forallb (fun r => negb (kind_eqb (r_kind r) k && flt_match c s k f r && may_read c r)
                         || existsb (N.eqb (r_id r)) (o_ids o)) (s_res s))
  | CCreate _ new _ =>
      negb (okc || changed) ||
      (may_create c (r_kind new) (r_org new) (r_user new) &&
       match r_kind new with
       | KAuth => forallb (may c) (r_perms new)
                  && no_escalation_b c (r_perms new) (match o_post o with Some s' => s' | None => s end)
       | _ => true
       end)
  | CUpdate k _ id _ _ | CDelete k _ id =>
      negb (okc || changed) ||
      match lookup s k id with
      | Some r => may_write_id c k id (r_org r) (r_user r)
      | None => negb changed && may_write_id c k id 0 0
      end
  end.

(** * The judge *)
Definition perm_eqb (p q : perm) : bool :=
  N.eqb (act p) (act q) && N.eqb (rtype (res p)) (rtype (res q)) &&
  optN_eqb (rid (res p)) (rid (res q)) && optN_eqb (rorg (res p)) (rorg (res q)).

Definition res_eqb (a b : rsrc) : bool :=
  kind_eqb (r_kind a) (r_kind b) && N.eqb (r_id a) (r_id b) && N.eqb (r_org a) (r_org b) &&
  N.eqb (r_user a) (r_user b) && Bool.eqb (r_sys a) (r_sys b) && N.eqb (r_pay a) (r_pay b) &&
  Bool.eqb (r_active a) (r_active b) && list_eqb perm_eqb (r_perms a) (r_perms b).

Definition incl_b {A} (eqb : A -> A -> bool) (a b : list A) : bool :=
  forallb (fun x => existsb (eqb x) b) a.
Definition set_eqb {A} (eqb : A -> A -> bool) (a b : list A) : bool :=
  incl_b eqb a b && incl_b eqb b a.

Definition urm_eqb (a b : N * N) : bool := N.eqb (fst a) (fst b) && N.eqb (snd a) (snd b).

(** Stores are compared as sets (dump order is not an observable). *)
Definition store_eqb (a b : store) : bool :=
  set_eqb res_eqb (s_res a) (s_res b) && set_eqb urm_eqb (s_urm a) (s_urm b).

Definition same_step (c : caller) (s : store) (x : call) (o : obs) : bool :=
  let r := step c s x in
  N.eqb (cls r) (o_cls o) && set_eqb N.eqb (ids r) (o_ids o) &&
  store_eqb (st r) (match o_post o with Some s' => s' | None => s end).

(** Each call is judged from the state the implementation was observed in before it. *)
Fixpoint judge_steps (c : caller) (s : store) (xs : list (call * obs)) : bool * bool :=
  match xs with
  | [] => (true, true)
  | (x, o) :: t =>
      let s' := match o_post o with Some s' => s' | None => s end in
      let (sm, ok) := judge_steps c s' t in
      (same_step c s x o && sm, oracle_step c s x o && ok)
  end.

Record case := { k_init : store; k_caller : caller; k_steps : list (call * obs) }.

Definition check (k : case) : verdict :=
  let (sm, ok) := judge_steps (k_caller k) (k_init k) (k_steps k) in judge sm ok.
