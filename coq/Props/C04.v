(** C04 — Compaction preserves the logical content of TSM files.  Property theorems only.

    Model (coq/Model/C04.v): [run_key] = tsmBatchKeyIterator restricted to one key (sort.Stable
    with blocks.Less, the dedup decision of mergeFloat, combineFloat with both paths and [fast],
    chunkFloat, the Next/Read protocol); [run_files] = the key merge over the input files;
    [compact] = + file rolling; [snapshot] = the cache path.  A block payload is its decoded
    point list.  The theorems are for ANY number of files, keys, points, tombstone ranges, any
    points-per-block [size] > 0, full or fast.  ONE bound appears, and it is essential: at most
    20 blocks of one key over all input files ([kcount k fs <= 20]).  Up to 20 elements Go's
    [sort.Stable] is an insertion sort, which keeps neighbours un-inverted and never reorders
    two blocks sharing a timestamp even though [blocks.Less] is not a strict weak order; above
    20 it merges runs with SymMerge, whose binary searches assume a strict weak order, and
    blocks of different files that overlap CAN change places: an older file's value then
    overrides a newer one ([C04_compact_content_refuted], confirmed on the real code).

    The mirror's loops carry fuel ([key_fuel], [files_fuel]); Proofs/C04_term.v and
    Proofs/C04_total.v prove that the fuel always suffices (every dedup pass hands on at least
    one unread point; a potential drops with every block written), so the statements below are
    unconditional: the run returns AND its result is right. *)
From Coq Require Import Sorted.
From Verif Require Import Base.Prelude Model.C37 Proofs.C37 Model.C04 Proofs.C04 Proofs.C04_keys
     Proofs.C04_size Proofs.C04_blocks Proofs.C04_run Proofs.C04_files Proofs.C04_total.
Local Open Scope Z_scope.

(** ** Content.  [fwf]: index keys of a file strictly increasing; every block non-empty,
    strictly increasing in time, index min/max = first/last timestamp, timestamps int64.
    NOTHING is assumed about order or overlap of the blocks of a key, inside a file or across
    files.  [content_spec k fs] = per file the points of [k] outside the file's tombstone
    ranges; files merged in argument order, a later file (and a later block) overriding an
    earlier one on equal timestamps; sorted by time. *)
(** FULL STATEMENT (refuted below): the same without the hypothesis [kcount k fs <= 20]. *)
Theorem C04_compact_content_partial :
  forall (V : Type) (size : nat) (fast : bool) (fs : list (file V)),
    (0 < size)%nat -> Forall fwf fs -> (forall k, (kcount k fs <= 20)%nat) ->
    exists files, compact size fast fs = Some files /\
      forall k, out_content k (concat files) = content_spec k fs.
Proof.
  intros V size fast fs Hs W Hsm. destruct (compact_total size fast fs Hs W Hsm) as [files Ec].
  exists files. split; [exact Ec|]. revert Ec. unfold compact.
  destruct (run_files (files_fuel fs) size fast fs) as [sq|] eqn:E; [|discriminate].
  intros [= <-] k. rewrite roll_concat. unfold out_content.
  apply (run_files_content size fast Hs _ fs sq W Hsm E k).
Qed.
Print Assumptions C04_compact_content_partial.

(** The full statement is false for the faithful mirror: 3 well-formed files with 9 + 8 + 6 = 23
    overlapping blocks of one key, CompactFull with 5 points per block.  The mirror (and the
    real Compactor, on which this witness was found: known finding
    stable-sort-over-20-blocks) writes the points 61, 62, 63 with the value of file 2 although
    file 3 is the later file: "a later file overrides an earlier one" is violated.  (Nothing is
    lost and the output is ordered; only the winner is wrong.) *)
Definition C04_witness_files : list (file Z) :=
  let b (v : Z) (ts : list Z) : rawblk Z := (hd 0 ts, last ts 0, map (fun t => (t, v)) ts) in
  [ [(0%N, [b 1 [27;28;29;31;32]; b 1 [34;35]; b 1 [37;38;39;40;41]; b 1 [42]; b 1 [43;44;45;47];
            b 1 [48;49]; b 1 [50;51]; b 1 [53;54;55;56;57;58;59;60;61;64]; b 1 [65]], [])];
    [(0%N, [b 2 [29;30]; b 2 [31;32]; b 2 [33;34]; b 2 [35;36;37;38;39;40;41;42;46;47];
            b 2 [49;50;51;53;54;55]; b 2 [56;57]; b 2 [60]; b 2 [61;62;63;65]], [])];
    [(0%N, [b 3 [28;29;30;31;32]; b 3 [33;34;35;36;37;38;39;40;41;42]; b 3 [43;44;45;46;47;48];
            b 3 [49;50;51;52;53]; b 3 [54;55;56;57;58;59;60;61;62;63]; b 3 [64;65]], [])] ].

Theorem C04_compact_content_refuted :
  exists (fs : list (file Z)) files,
    Forall fwf fs /\ kcount 0%N fs = 23%nat /\ compact 5 false fs = Some files /\
    out_content 0%N (concat files) <> content_spec 0%N fs /\
    lookup 62 (out_content 0%N (concat files)) = Some 2 /\ lookup 62 (content_spec 0%N fs) = Some 3.
Proof.
  exists C04_witness_files. eexists. split.
  - apply Forall_forall. intros f Hf. apply fwf_b_spec.
    assert (H : forallb fwf_b C04_witness_files = true) by (vm_compute; reflexivity).
    rewrite forallb_forall in H. apply H. exact Hf.
  - split; [vm_compute; reflexivity|]. split; [vm_compute; reflexivity|].
    split; [|split; vm_compute; reflexivity].
    intro H. assert (H2 : arr_eqb (out_content 0%N (concat (roll MaxIndexEntries
              match run_files (files_fuel C04_witness_files) 5 false C04_witness_files with Some sq => sq | None => [] end)))
              (content_spec 0%N C04_witness_files) = true).
    { unfold arr_eqb. apply list_eqb_spec; [|exact H].
      intros x y. unfold pt_eqb. split; [intro E; destruct x, y; cbn in *; f_equal; lia|intros ->; lia]. }
    vm_compute in H2. discriminate.
Qed.
Print Assumptions C04_compact_content_refuted.

(** ** Blocks of one key do not overlap in time — at full strength: across all the files
    written, the blocks of a key are well-formed (non-empty, strictly increasing, index range
    = first/last point) and strictly ordered ([max] of a block < [min] of the next), also on
    the pass-through and fast paths and for arbitrarily overlapping inputs: the dedup decision
    of mergeFloat sends every overlapping neighbour pair through the window path, and the
    window never skips an unread point (Proofs/C04_window.v).  Proved for at most 20 blocks of
    a key (see the header); no counterexample to the ordering is known above 20 (in 600 random
    real runs with 21-60 blocks the output was always ordered and complete; only the winner of
    equal timestamps was wrong). *)
Theorem C04_compact_blocks_ordered_partial :
  forall (V : Type) (size : nat) (fast : bool) (fs : list (file V)),
    (0 < size)%nat -> Forall fwf fs -> (forall k, (kcount k fs <= 20)%nat) ->
    exists files, compact size fast fs = Some files /\
      forall k, let bs := seq_points k (concat files) in
        forallb wf_blk bs = true /\ ordered bs = true.
Proof.
  intros V size fast fs Hs W Hsm. destruct (compact_total size fast fs Hs W Hsm) as [files Ec].
  exists files. split; [exact Ec|]. revert Ec. unfold compact.
  destruct (run_files (files_fuel fs) size fast fs) as [sq|] eqn:E; [|discriminate].
  intros [= <-] k. rewrite roll_concat.
  destruct (run_files_content size fast Hs _ fs sq W Hsm E k) as [_ [H2 H3]]. split; [|exact H3].
  apply forallb_forall. rewrite Forall_forall in H2. exact H2.
Qed.
Print Assumptions C04_compact_blocks_ordered_partial.

(** The same for one key and an ARBITRARY list of gathered blocks (the heart of the proof):
    content = newest-wins merge of the live points, later blocks winning. *)
Theorem C04_key_content_partial :
  forall (V : Type) (size : nat) (fast : bool) (bs : list (blk V)),
    (0 < size)%nat -> (length bs <= 20)%nat -> Forall bwf bs -> Forall isfresh bs ->
    exists out, run_key (key_fuel bs) size fast (mkst bs [] []) = Some out /\
      concat (map b_vals out) = last_wins_sorted (concat (map live0 bs))
      /\ Forall (fun b => wf_blk b = true) out /\ ordered out = true.
Proof.
  intros V size fast bs Hs Hsm W F. destruct (run_key_fuel_enough size fast bs Hs Hsm W F) as [out E].
  exists out. split; [exact E|]. eapply run_key_content; eauto.
Qed.
Print Assumptions C04_key_content_partial.

(** ** Output files are sorted by key: the (key, block) sequence handed to the TSM writer has
    non-decreasing keys (equal keys contiguous). *)
Theorem C04_compact_sorted_keys : forall (V : Type) (size : nat) (fast : bool) (fs : list (file V)) sq,
  Forall skeys fs -> run_files (files_fuel fs) size fast fs = Some sq ->
  StronglySorted N.le (map fst sq).
Proof.
  intros V size fast fs sq Hs H.
  apply (run_files_sorted size fast (files_fuel fs) fs 0%N sq Hs); [|exact H].
  intros f g _ _. apply N.le_0_l.
Qed.
Print Assumptions C04_compact_sorted_keys.

(** ** Block size, the code's actual guarantee: every block written for a key is either the
    unchanged payload of one of the key's input blocks (pass-through: blocks with >= size
    points, all unread blocks in fast mode, a single remaining block) or has at most [size]
    points.  "No block exceeds points-per-block" is therefore true for blocks produced by
    chunking and NOT for passed-through blocks, which keep their input size (e.g. 1000-point
    blocks survive a compaction with a smaller [size]; see C04_compact_block_size_refuted). *)
Theorem C04_compact_block_size_partial : forall (V : Type) (size : nat) (fast : bool) (bs : list (blk V)) fuel out,
  (length bs <= 20)%nat -> run_key fuel size fast (mkst bs [] []) = Some out ->
  Forall (fun b => In (b_vals b) (map b_vals bs) \/ (length (b_vals b) <= size)%nat) out.
Proof. intros V. exact run_key_block_size. Qed.
Print Assumptions C04_compact_block_size_partial.

(** the literal reading "no block exceeds the requested points-per-block" is refuted by the
    pass-through: one input block of 3 points, size 2, full compaction -> written unchanged *)
Theorem C04_compact_block_size_refuted :
  exists (size : nat) (bs : list (blk Z)) out,
    run_key 20 size false (mkst bs [] []) = Some out /\
    Forall bwf bs /\ exists b, In b out /\ (size < length (b_vals b))%nat.
Proof.
  exists 2%nat, [fresh 0 2 [(0, 7); (1, 7); (2, 7)] []].
  eexists. split; [vm_compute; reflexivity|]. split.
  - constructor; [|constructor]. split; cbn; try lia; try discriminate.
    + repeat split; repeat constructor; cbn; lia.
    + intros p [<-|[<-|[<-|[]]]]; cbn; unfold MinInt64, MaxInt64; lia.
  - eexists. split; [left; reflexivity|]. cbn. lia.
Qed.
Print Assumptions C04_compact_block_size_refuted.

(** ** Rolling ([Compactor.write] / [writeNewFiles]): the files are a split of the written
    sequence into non-empty pieces — nothing is lost or duplicated at a file boundary. *)
Theorem C04_roll_preserves : forall (A : Type) (limit : nat) (sq : list (N * A)),
  concat (roll limit sq) = sq /\ Forall (fun f => f <> []) (roll limit sq).
Proof. intros. split; [apply roll_concat|apply roll_go_nonempty]. Qed.
Print Assumptions C04_roll_preserves.

(** ** Cache snapshots (Snapshot; Deduplicate; WriteSnapshot): per key the written content is
    the newest-wins, time-sorted content of the cache entry; blocks are well-formed, ordered,
    disjoint and have at most [size] points. *)
Theorem C04_snapshot_content : forall (V : Type) (size : nat) (cache : list (N * arr V)) k,
  (0 < size)%nat -> NoDup (map fst cache) ->
  out_content k (concat (snapshot size cache))
  = last_wins_sorted (concat (map (fun e => if (fst e =? k)%N then snd e else []) cache)).
Proof. intros. rewrite snapshot_is_cache_seq. apply cache_seq_content; assumption. Qed.
Print Assumptions C04_snapshot_content.

Theorem C04_snapshot_blocks : forall (V : Type) (size : nat) (vs : arr V),
  (0 < size)%nat ->
  let bs := chunks size (vals_dedup vs) in
  forallb wf_blk bs = true /\ ordered bs = true /\
  (forall b, In b bs -> (length (b_vals b) <= size)%nat).
Proof.
  intros V size vs Hs bs. subst bs. split; [|split].
  - apply chunks_fuel_wf; [exact Hs|apply dedup_sorted].
  - apply chunks_ordered; [exact Hs|apply dedup_sorted].
  - intros b. apply chunks_fuel_size.
Qed.
Print Assumptions C04_snapshot_blocks.

(** Non-vacuity: three files whose blocks of key 1 overlap in a chain ([10,20], [5,12] with a
    tombstone, [0,7]); both modes return, the later file wins at t = 12 and t = 5, the
    tombstoned point is gone. *)
Example C04_nonvacuous :
  let f1 : file Z := [(1%N, [(10, 20, [(10, 1); (12, 1); (20, 1)])], [])] in
  let f2 : file Z := [(1%N, [(5, 12, [(5, 2); (8, 2); (12, 2)])], [(8, 8)]); (2%N, [(1, 1, [(1, 2)])], [])] in
  let f3 : file Z := [(1%N, [(0, 7, [(0, 3); (5, 3); (7, 3)])], [])] in
  (exists files, compact 2 false [f1; f2; f3] = Some files /\
     out_content 1%N (concat files) = [(0, 3); (5, 3); (7, 3); (10, 1); (12, 2); (20, 1)]) /\
  (exists files, compact 2 true [f1; f2; f3] = Some files /\
     out_content 2%N (concat files) = [(1, 2)]).
Proof. split; eexists; split; vm_compute; reflexivity. Qed.
