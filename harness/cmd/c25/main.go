// C25 driver: the REAL middleware.CoordinatingTaskService + coordinator.Coordinator +
// backend.NotifyCoordinatorOfExisting over an in-memory task store (built on /repo's
// mock.TaskService) and a recording scheduler.Scheduler.  After every operation the
// scheduler's set (id -> schedule fingerprint, offset) and the store's content are
// recorded; the Coq judge recomputes both from the operation list.
package main

import (
	"context"
	"encoding/json"
	"fmt"
	"sort"
	"time"

	"github.com/influxdata/influxdb/v2/kit/platform"
	"github.com/influxdata/influxdb/v2/mock"
	"github.com/influxdata/influxdb/v2/task/backend"
	"github.com/influxdata/influxdb/v2/task/backend/coordinator"
	"github.com/influxdata/influxdb/v2/task/backend/middleware"
	"github.com/influxdata/influxdb/v2/task/backend/scheduler"
	"github.com/influxdata/influxdb/v2/task/taskmodel"
	"go.uber.org/zap"
	"verifh/vh"
)


// ---- case format ----

type jop struct {
	Op     string  `json:"op"`               // create | update | delete | restart
	ID     uint64  `json:"id,omitempty"`     // update/delete target
	Status *string `json:"status,omitempty"` // create: "", "active", "inactive"; update: nil = unchanged
	Every  *string `json:"every,omitempty"`  // create: schedule; update: nil = unchanged
	Cron   *string `json:"cron,omitempty"`
	Offset *int64  `json:"offset,omitempty"` // seconds
}
type jsch struct {
	ID   uint64 `json:"id"`
	Spec string `json:"spec"` // effective cron string recognised from the Schedule object ("?" if unknown)
	Off  int64  `json:"offset"`
}
type jtask struct {
	ID     uint64 `json:"id"`
	Active bool   `json:"active"`
	Spec   string `json:"spec"`
	Off    int64  `json:"offset"`
}
type jobs struct {
	Sched []jsch  `json:"scheduled"`
	Store []jtask `json:"store"`
}
type jcase struct {
	Ops []jop  `json:"ops"`
	Obs []jobs `json:"impl_obs"`
}

// ---- the option encoding carried in the Flux field of TaskCreate/TaskUpdate ----
// (the real kv store extracts every/cron/offset from the Flux script with the Flux
// parser, which is not available in this sandbox; the in-memory store below reads
// them from this JSON instead).
type fopts struct {
	Every  *string `json:"every,omitempty"`
	Cron   *string `json:"cron,omitempty"`
	Offset *int64  `json:"offset,omitempty"`
}

// ---- in-memory task store on top of mock.TaskService ----

type store struct {
	tasks  map[platform.ID]*taskmodel.Task
	next   platform.ID
	clock  time.Time
	paging int
}

func cp(t *taskmodel.Task) *taskmodel.Task { c := *t; return &c }

func newStore() (*store, *mock.TaskService) {
	s := &store{tasks: map[platform.ID]*taskmodel.Task{}, next: 1, clock: time.Unix(1700000000, 0).UTC(), paging: 2}
	m := mock.NewTaskService()
	m.FindTaskByIDFn = func(_ context.Context, id platform.ID) (*taskmodel.Task, error) {
		t, ok := s.tasks[id]
		if !ok {
			return nil, taskmodel.ErrTaskNotFound
		}
		return cp(t), nil
	}
	m.FindTasksFn = func(_ context.Context, f taskmodel.TaskFilter) ([]*taskmodel.Task, int, error) {
		ids := s.ids()
		var out []*taskmodel.Task
		for _, id := range ids {
			if f.After != nil && id <= *f.After {
				continue
			}
			out = append(out, cp(s.tasks[id]))
			if len(out) == s.paging {
				break
			}
		}
		return out, len(out), nil
	}
	m.CreateTaskFn = func(_ context.Context, tc taskmodel.TaskCreate) (*taskmodel.Task, error) {
		if err := tc.Validate(); err != nil {
			return nil, err
		}
		var o fopts
		if err := json.Unmarshal([]byte(tc.Flux), &o); err != nil {
			return nil, err
		}
		if tc.Status == "" { // as kv.Service.createTask does
			tc.Status = string(taskmodel.TaskActive)
		}
		s.clock = s.clock.Add(7 * time.Second)
		t := &taskmodel.Task{ID: s.next, OrganizationID: tc.OrganizationID, Status: tc.Status, Flux: tc.Flux,
			CreatedAt: s.clock, LatestCompleted: s.clock, LatestScheduled: s.clock}
		s.next++
		applyOpts(t, o)
		s.tasks[t.ID] = t
		return cp(t), nil
	}
	m.UpdateTaskFn = func(_ context.Context, id platform.ID, upd taskmodel.TaskUpdate) (*taskmodel.Task, error) {
		t, ok := s.tasks[id]
		if !ok {
			return nil, taskmodel.ErrTaskNotFound
		}
		s.clock = s.clock.Add(7 * time.Second)
		if upd.Flux != nil {
			var o fopts
			if err := json.Unmarshal([]byte(*upd.Flux), &o); err != nil {
				return nil, err
			}
			applyOpts(t, o)
		}
		if upd.Status != nil && t.Status != *upd.Status {
			t.Status = *upd.Status
		}
		if upd.LatestCompleted != nil && upd.LatestCompleted.After(t.LatestCompleted) {
			t.LatestCompleted = *upd.LatestCompleted
		}
		if upd.LatestScheduled != nil && upd.LatestScheduled.After(t.LatestScheduled) {
			t.LatestScheduled = *upd.LatestScheduled
		}
		t.UpdatedAt = s.clock
		return cp(t), nil
	}
	m.DeleteTaskFn = func(_ context.Context, id platform.ID) error {
		if _, ok := s.tasks[id]; !ok {
			return taskmodel.ErrTaskNotFound
		}
		delete(s.tasks, id)
		return nil
	}
	return s, m
}

func applyOpts(t *taskmodel.Task, o fopts) {
	if o.Every != nil { // as kv: task.Every = opts.Every; task.Cron = opts.Cron
		t.Every, t.Cron = *o.Every, ""
	}
	if o.Cron != nil {
		t.Cron, t.Every = *o.Cron, ""
	}
	if o.Every != nil && o.Cron != nil {
		t.Every, t.Cron = *o.Every, *o.Cron
	}
	if o.Offset != nil {
		t.Offset = time.Duration(*o.Offset) * time.Second
	}
}

func (s *store) ids() []platform.ID {
	ids := make([]platform.ID, 0, len(s.tasks))
	for id := range s.tasks {
		ids = append(ids, id)
	}
	sort.Slice(ids, func(i, j int) bool { return ids[i] < ids[j] })
	return ids
}

// ---- recording scheduler ----

type recEntry struct {
	fp  string
	off time.Duration
}
type recSched struct{ m map[scheduler.ID]recEntry }

var refTimes = []time.Time{time.Date(2023, 3, 7, 10, 17, 23, 0, time.UTC), time.Date(2023, 12, 31, 23, 58, 1, 0, time.UTC)}

func fingerprint(sc scheduler.Schedule) string {
	out := ""
	for _, r := range refTimes {
		n, err := sc.Next(r)
		if err != nil {
			out += "err;"
		} else {
			out += fmt.Sprint(n.Unix()) + ";"
		}
	}
	return out
}
func (r *recSched) Schedule(t scheduler.Schedulable) error {
	r.m[t.ID()] = recEntry{fp: fingerprint(t.Schedule()), off: t.Offset()}
	return nil
}
func (r *recSched) Release(id scheduler.ID) error { delete(r.m, id); return nil }

// ---- spec menu ----

var everyMenu = []string{"1m", "1h"}
var cronMenu = []string{"0 * * * *", "*/5 * * * *"}
var specIn = vh.NewInterner("") // "" (no schedule) = 0
var fpToSpec = map[string]string{}

func initMenu() {
	for _, e := range everyMenu {
		s := "@every " + e
		specIn.ID(s)
		sc, _, err := scheduler.NewSchedule(s, refTimes[0])
		if err != nil {
			panic(err)
		}
		fpToSpec[fingerprint(sc)] = s
	}
	for _, c := range cronMenu {
		specIn.ID(c)
		sc, _, err := scheduler.NewSchedule(c, refTimes[0])
		if err != nil {
			panic(err)
		}
		fpToSpec[fingerprint(sc)] = c
	}
	if len(fpToSpec) != len(everyMenu)+len(cronMenu) {
		panic("schedule fingerprints collide")
	}
}

// ---- running one case on the real code ----

type sys struct {
	st   *store
	ms   *mock.TaskService
	rec  *recSched
	svc  *middleware.CoordinatingTaskService
	cord *coordinator.Coordinator
}

func (y *sys) wire() {
	y.rec = &recSched{m: map[scheduler.ID]recEntry{}}
	y.cord = coordinator.NewCoordinator(zap.NewNop(), y.rec, nil)
	y.svc = middleware.New(y.ms, y.cord)
}

func (y *sys) observe() jobs {
	var o jobs
	o.Sched = []jsch{}
	o.Store = []jtask{}
	ids := make([]uint64, 0, len(y.rec.m))
	for id := range y.rec.m {
		ids = append(ids, uint64(id))
	}
	sort.Slice(ids, func(i, j int) bool { return ids[i] < ids[j] })
	for _, id := range ids {
		e := y.rec.m[scheduler.ID(id)]
		spec, ok := fpToSpec[e.fp]
		if !ok {
			spec = "?"
		}
		o.Sched = append(o.Sched, jsch{ID: id, Spec: spec, Off: int64(e.off / time.Second)})
	}
	for _, id := range y.st.ids() {
		t := y.st.tasks[id]
		o.Store = append(o.Store, jtask{ID: uint64(id), Active: t.Status == string(taskmodel.TaskActive),
			Spec: t.EffectiveCron(), Off: int64(t.Offset / time.Second)})
	}
	return o
}

func optsJSON(o jop) string {
	b, _ := json.Marshal(fopts{Every: o.Every, Cron: o.Cron, Offset: o.Offset})
	return string(b)
}

func (y *sys) apply(o jop) {
	ctx := context.Background()
	switch o.Op {
	case "create":
		st := ""
		if o.Status != nil {
			st = *o.Status
		}
		_, _ = y.svc.CreateTask(ctx, taskmodel.TaskCreate{Flux: optsJSON(o), Status: st, OrganizationID: 1})
	case "update":
		upd := taskmodel.TaskUpdate{Status: o.Status}
		if o.Every != nil || o.Cron != nil || o.Offset != nil {
			f := optsJSON(o)
			upd.Flux = &f
		}
		_, _ = y.svc.UpdateTask(ctx, platform.ID(o.ID), upd)
	case "delete":
		_ = y.svc.DeleteTask(ctx, platform.ID(o.ID))
	case "restart":
		y.wire() // fresh scheduler, coordinator and service over the same store
		_ = backend.NotifyCoordinatorOfExisting(ctx, zap.NewNop(), y.ms, y.cord)
	default:
		panic("bad op " + o.Op)
	}
}

// ---- Gallina rendering ----

func optBool(s *string, forCreate bool) string {
	if s == nil || (forCreate && *s == "") {
		return "None"
	}
	return vh.Some(vh.Bool(*s == "active"))
}
func specNum(s string) uint64 {
	if s == "?" {
		return 999
	}
	return specIn.ID(s)
}
func opSpec(o jop) (string, bool) { // effective cron string the op sets, and whether it sets one
	if o.Cron != nil && *o.Cron != "" {
		return *o.Cron, true
	}
	if o.Every != nil && *o.Every != "" {
		return "@every " + *o.Every, true
	}
	if o.Cron != nil || o.Every != nil {
		return "", true
	}
	return "", false
}
func schedTerm(spec uint64, off int64) string {
	return fmt.Sprintf("{| sc_spec := %s; sc_off := %s |}", vh.N(spec), vh.Z(off))
}
func opTerm(o jop) string {
	switch o.Op {
	case "create":
		sp, _ := opSpec(o)
		off := int64(0)
		if o.Offset != nil {
			off = *o.Offset
		}
		return fmt.Sprintf("Create %s %s", optBool(o.Status, true), schedTerm(specNum(sp), off))
	case "update":
		sp, has := opSpec(o)
		spt := "None"
		if has {
			spt = vh.Some(vh.N(specNum(sp)))
		}
		oft := "None"
		if o.Offset != nil {
			oft = vh.Some(vh.Z(*o.Offset))
		}
		return fmt.Sprintf("Update %s %s %s %s", vh.N(o.ID), optBool(o.Status, false), spt, oft)
	case "delete":
		return "Delete " + vh.N(o.ID)
	}
	return "Restart"
}
func obsTerm(o jobs) string {
	ss := make([]string, len(o.Sched))
	for i, s := range o.Sched {
		ss[i] = vh.Pair(vh.N(s.ID), schedTerm(specNum(s.Spec), s.Off))
	}
	ts := make([]string, len(o.Store))
	for i, t := range o.Store {
		ts[i] = vh.Pair(vh.N(t.ID), fmt.Sprintf("{| t_active := %s; t_sched := %s |}", vh.Bool(t.Active), schedTerm(specNum(t.Spec), t.Off)))
	}
	return vh.Pair(vh.List(ss), vh.List(ts))
}

func run(w *vh.W, c *jcase) {
	y := &sys{}
	y.st, y.ms = newStore()
	y.wire()
	c.Obs = nil
	idx := w.Len()
	if p := vh.Guard(func() {
		for _, o := range c.Ops {
			y.apply(o)
			c.Obs = append(c.Obs, y.observe())
		}
	}); p != "" {
		w.Fail(idx, "panic in the coordinating task service: "+p, "")
	}
	ops := make([]string, len(c.Ops))
	obs := make([]string, len(c.Obs))
	sig := ""
	inactiveCreate := false
	statusChanges, mixed := 0, false
	for i, o := range c.Ops {
		ops[i] = "(" + opTerm(o) + ")"
		if o.Op == "create" && o.Status != nil && *o.Status == "inactive" {
			inactiveCreate = true // former finding shape (fixed in /repo da7c7e4fac): still generated, no longer tolerated
		}
		if o.Op == "update" && o.Status != nil {
			statusChanges++
		}
		w.Count("op", o.Op)
	}
	for i, o := range c.Obs {
		obs[i] = obsTerm(o)
		a, in := false, false
		for _, t := range o.Store {
			if t.Active {
				a = true
			} else {
				in = true
			}
		}
		mixed = mixed || (a && in)
	}
	t := fmt.Sprintf("{| c_ops := %s; c_obs := %s |}", vh.List(ops), vh.List(obs))
	w.Add(t, c, mixed || statusChanges > 0, sig)
	w.Count("len", fmt.Sprint(len(c.Ops)))
	w.Count("inactive_create", fmt.Sprint(inactiveCreate))
}

func sp(s string) *string { return &s }
func ip(i int64) *int64   { return &i }

func main() {
	w := vh.New("C25", "From Verif Require Import Base.Prelude Model.C25.", "case", "check")
	initMenu()
	w.Rule = "histories of create(status ''/active/inactive; every|cron|none; offset) / update(status, every, cron, offset, or nothing) / delete / restart(NotifyCoordinatorOfExisting on a fresh scheduler, page size 2) through the real CoordinatingTaskService+Coordinator; hand-picked regressions first, then random histories of length 1-9 over ids 1-4; n>=150000 adds ALL 11^5 histories of length 5 over an 11-operation alphabet on tasks 1,2 (create active/inactive, status on/off of task 1 and 2, schedule change of task 1 and 2, delete 1, delete 2, restart) (shorter ones are their prefixes: every prefix is observed). Non-trivial: some status update occurs or an active and an inactive task coexist. Distinct: distinct Gallina terms."
	var rc jcase
	if w.ReplayCase(&rc) {
		run(w, &rc)
		w.Finish()
		return
	}
	r := w.Rng
	act, inact, empty := "active", "inactive", ""
	// hand-picked
	hand := [][]jop{
		{{Op: "create", Status: &inact, Every: sp("1m")}},
		{{Op: "create", Status: &act, Every: sp("1m")}, {Op: "update", ID: 1, Status: &inact}, {Op: "update", ID: 1, Every: sp("1h")}, {Op: "update", ID: 1, Status: &act}},
		{{Op: "create", Status: &empty, Cron: sp("0 * * * *"), Offset: ip(5)}, {Op: "update", ID: 1, Cron: sp("*/5 * * * *")}, {Op: "delete", ID: 1}},
		{{Op: "create", Status: &empty}, {Op: "create", Every: sp("1h")}, {Op: "restart"}},
		{{Op: "create", Every: sp("1m")}, {Op: "create", Every: sp("1h")}, {Op: "create", Cron: sp("0 * * * *")}, {Op: "update", ID: 2, Status: &inact}, {Op: "restart"}, {Op: "update", ID: 2, Status: &act}},
		{{Op: "create", Status: &inact, Every: sp("1m")}, {Op: "update", ID: 1, Every: sp("1h")}, {Op: "restart"}},
		{{Op: "create", Every: sp("1m")}, {Op: "delete", ID: 1}, {Op: "update", ID: 1, Status: &act}, {Op: "delete", ID: 1}},
		{{Op: "create", Every: sp("1m")}, {Op: "update", ID: 1}, {Op: "update", ID: 1, Status: &act}, {Op: "update", ID: 1, Offset: ip(30)}},
	}
	for _, h := range hand {
		c := jcase{Ops: h}
		run(w, &c)
	}
	if w.N >= 150000 { // exhaustive: all histories of length 5 over an 11-op alphabet on tasks 1 and 2
		alpha := []jop{
			{Op: "create", Status: &act, Every: sp("1m")},
			{Op: "create", Status: &inact, Every: sp("1m")},
			{Op: "update", ID: 1, Status: &act}, {Op: "update", ID: 1, Status: &inact},
			{Op: "update", ID: 2, Status: &act}, {Op: "update", ID: 2, Status: &inact},
			{Op: "update", ID: 1, Every: sp("1h")}, {Op: "update", ID: 2, Cron: sp("0 * * * *"), Offset: ip(5)},
			{Op: "delete", ID: 1}, {Op: "delete", ID: 2},
			{Op: "restart"},
		}
		const L = 5
		idx := make([]int, L)
		cnt := 0
		for {
			ops := make([]jop, L)
			for i := range idx {
				ops[i] = alpha[idx[i]]
			}
			c := jcase{Ops: ops}
			run(w, &c)
			cnt++
			k := L - 1
			for k >= 0 {
				idx[k]++
				if idx[k] < len(alpha) {
					break
				}
				idx[k] = 0
				k--
			}
			if k < 0 {
				break
			}
		}
		w.Extra["exhaustive_len5_histories"] = cnt
	}
	offs := []int64{0, 5, 30, -3}
	genSched := func(o *jop) {
		switch r.IntN(12) {
		case 0: // no schedule at all: TaskCreated fails, the store is rolled back
		case 1, 2, 3, 4, 5, 6:
			o.Every = sp(everyMenu[r.IntN(len(everyMenu))])
		default:
			o.Cron = sp(cronMenu[r.IntN(len(cronMenu))])
		}
		if r.IntN(2) == 0 {
			o.Offset = ip(offs[r.IntN(len(offs))])
		}
	}
	for w.Len() < w.N {
		n := 1 + r.IntN(9)
		var ops []jop
		created := uint64(0)
		for i := 0; i < n; i++ {
			k := r.IntN(20)
			id := uint64(1 + r.IntN(int(created)+1))
			if id > 4 {
				id = 4
			}
			switch {
			case created == 0 || k < 4:
				o := jop{Op: "create"}
				switch r.IntN(4) {
				case 0:
					o.Status = &empty
				case 1:
					o.Status = &inact
				case 2:
					o.Status = &act
				}
				genSched(&o)
				ops = append(ops, o)
				created++
			case k < 13:
				o := jop{Op: "update", ID: id}
				switch r.IntN(3) {
				case 0:
					o.Status = &act
				case 1:
					o.Status = &inact
				}
				switch r.IntN(4) {
				case 0:
					o.Every = sp(everyMenu[r.IntN(len(everyMenu))])
				case 1:
					o.Cron = sp(cronMenu[r.IntN(len(cronMenu))])
				}
				if r.IntN(4) == 0 {
					o.Offset = ip(offs[r.IntN(len(offs))])
				}
				ops = append(ops, o)
			case k < 17:
				ops = append(ops, jop{Op: "delete", ID: id})
			default:
				ops = append(ops, jop{Op: "restart"})
			}
		}
		c := jcase{Ops: ops}
		run(w, &c)
	}
	w.Finish()
}
