// C04 driver: the REAL tsm1.Compactor (CompactFull / CompactFast / WriteSnapshot) on generated
// sets of real TSM files (written with tsm1.NewTSMWriter, tombstoned through
// TSMReader.DeleteRange) and real tsm1.Cache snapshots.  Observables: the input files as fresh
// TSMReaders present them (per key: raw blocks through BlockIterator + TombstoneRange) and the
// output files read back the same way (per file the key list, per key the (min,max,points)
// blocks).  The Coq judge (coq/Model/C04.v) replays tsmBatchKeyIterator / cacheKeyIterator on the
// inputs (block structure must agree) and evaluates the content / order / size oracle.
package main

import (
	"flag"
	"fmt"
	"math"
	"os"
	"path/filepath"
	"sort"
	"strings"
	"time"

	"github.com/influxdata/influxdb/v2/tsdb"
	"github.com/influxdata/influxdb/v2/tsdb/engine/tsm1"
	"go.uber.org/zap"
	"verifh/vh"
)

// ---- case ----

type pt [2]int64 // timestamp, value number

type jgroup struct {
	Key    int        `json:"key"`
	Blocks [][]pt     `json:"blocks"`
	Tombs  [][2]int64 `json:"tombs,omitempty"` // observed TombstoneRange(key)
}
type jdel struct {
	Keys []int `json:"keys"`
	Min  int64 `json:"min"`
	Max  int64 `json:"max"`
}
type jfile struct {
	Groups []jgroup `json:"groups"` // generated content (keys ascending)
	Dels   []jdel   `json:"dels,omitempty"`
}
type jwrite struct {
	Key int  `json:"key"`
	Pts []pt `json:"pts"`
}
type oblock struct {
	Min int64 `json:"min"`
	Max int64 `json:"max"`
	Pts []pt  `json:"pts"`
}
type okey struct {
	Key    int      `json:"key"`
	Blocks []oblock `json:"blocks"`
}
type jcase struct {
	Kind   string     `json:"kind"`
	Mode   int        `json:"mode"` // 0 CompactFull, 1 CompactFast, 2 WriteSnapshot
	PPB    int        `json:"ppb"`
	Files  []jfile    `json:"files,omitempty"`
	Writes [][]jwrite `json:"cache_batches,omitempty"` // mode 2: WriteMulti batches
	NRoll  int        `json:"roll_blocks,omitempty"`   // kind "roll": number of 1-point blocks of one key
	// observed
	In  [][]jgroup `json:"in_as_read,omitempty"`
	Err string     `json:"impl_err,omitempty"`
	Out [][]okey   `json:"impl_out"`
}

// ---- keys: a fixed pool, sorted bytewise; key i has block type i mod 5 ----

var keyPool = []string{
	"cpu,host=a#!~#f",  // float
	"cpu,host=a#!~#i",  // integer
	"cpu,host=b#!~#u",  // unsigned
	"mem,host=a#!~#b",  // boolean
	"mem,host=a#!~#s",  // string
	"mem,host=b#!~#f2", // float
}

func mkValue(key int, t, v int64) tsm1.Value {
	switch key % 5 {
	case 0:
		return tsm1.NewValue(t, float64(v))
	case 1:
		return tsm1.NewValue(t, v)
	case 2:
		return tsm1.NewValue(t, uint64(v))
	case 3:
		return tsm1.NewValue(t, v%2 == 1)
	default:
		return tsm1.NewValue(t, fmt.Sprintf("s%d", v))
	}
}

// valNum is the inverse of mkValue (for booleans values are generated in {0,1}).
func valNum(v tsm1.Value) (int64, error) {
	switch x := v.Value().(type) {
	case float64:
		return int64(x), nil
	case int64:
		return x, nil
	case uint64:
		return int64(x), nil
	case bool:
		if x {
			return 1, nil
		}
		return 0, nil
	case string:
		var n int64
		if _, err := fmt.Sscanf(x, "s%d", &n); err != nil {
			return 0, fmt.Errorf("unexpected string value %q", x)
		}
		return n, nil
	}
	return 0, fmt.Errorf("unexpected value type %T", v.Value())
}

func normV(key int, v int64) int64 {
	if key%5 == 3 {
		return ((v % 2) + 2) % 2
	}
	if v < 0 {
		return -v
	}
	return v
}

// ---- fake file store (implements the unexported tsm1.fileStore structurally) ----

type fakeFS struct {
	readers []*tsm1.TSMReader
	gen     int
}

func (f *fakeFS) Stats() []tsm1.ExtFileStat { return nil }
func (f *fakeFS) LastModified() time.Time   { return time.Time{} }
func (f *fakeFS) NextGeneration() int       { f.gen++; return f.gen }
func (f *fakeFS) ParseFileName(path string) (int, int, error) {
	return tsm1.DefaultParseFileName(path)
}
func (f *fakeFS) SupportsCompactionPlanning() bool { return true }
func (f *fakeFS) TSMReader(path string) (*tsm1.TSMReader, error) {
	fd, err := os.Open(path)
	if err != nil {
		return nil, err
	}
	r, err := tsm1.NewTSMReader(fd)
	if err != nil {
		return nil, err
	}
	f.readers = append(f.readers, r)
	r.Ref()
	return r, nil
}
func (f *fakeFS) Close() {
	for _, r := range f.readers {
		r.Close()
	}
	f.readers = nil
}

var tmpRoot string
var caseNo int

// readFile presents a TSM file the way the compactor sees it: per key of the index the raw
// blocks (BlockIterator) and the tombstone ranges.
func readFile(path string, withTombs bool) ([]okey, map[int][][2]int64, error) {
	fd, err := os.Open(path)
	if err != nil {
		return nil, nil, err
	}
	r, err := tsm1.NewTSMReader(fd)
	if err != nil {
		return nil, nil, err
	}
	defer r.Close()
	var out []okey
	tombs := map[int][][2]int64{}
	it := r.BlockIterator()
	for it.Next() {
		key, mn, mx, _, _, buf, err := it.Read()
		if err != nil {
			return nil, nil, err
		}
		ki := -1
		for i, k := range keyPool {
			if k == string(key) {
				ki = i
			}
		}
		if ki < 0 {
			return nil, nil, fmt.Errorf("unknown key %q in %s", key, path)
		}
		vals, err := tsm1.DecodeBlock(buf, nil)
		if err != nil {
			return nil, nil, err
		}
		ob := oblock{Min: mn, Max: mx}
		for _, v := range vals {
			n, err := valNum(v)
			if err != nil {
				return nil, nil, err
			}
			ob.Pts = append(ob.Pts, pt{v.UnixNano(), n})
		}
		if len(out) == 0 || out[len(out)-1].Key != ki {
			out = append(out, okey{Key: ki})
			if withTombs {
				for _, tr := range r.TombstoneRange(key) {
					tombs[ki] = append(tombs[ki], [2]int64{tr.Min, tr.Max})
				}
			}
		}
		out[len(out)-1].Blocks = append(out[len(out)-1].Blocks, ob)
	}
	if err := it.Err(); err != nil {
		return nil, nil, err
	}
	return out, tombs, nil
}

func writeInput(path string, f *jfile) error {
	fd, err := os.Create(path)
	if err != nil {
		return err
	}
	tw, err := tsm1.NewTSMWriter(fd)
	if err != nil {
		return err
	}
	for _, g := range f.Groups {
		for _, b := range g.Blocks {
			vals := make([]tsm1.Value, len(b))
			for i, p := range b {
				vals[i] = mkValue(g.Key, p[0], p[1])
			}
			if err := tw.Write([]byte(keyPool[g.Key]), vals); err != nil {
				return err
			}
		}
	}
	if err := tw.WriteIndex(); err != nil {
		return err
	}
	if err := tw.Close(); err != nil {
		return err
	}
	if len(f.Dels) > 0 {
		fd, err := os.Open(path)
		if err != nil {
			return err
		}
		r, err := tsm1.NewTSMReader(fd)
		if err != nil {
			return err
		}
		for _, d := range f.Dels {
			var ks [][]byte
			for _, k := range d.Keys {
				ks = append(ks, []byte(keyPool[k]))
			}
			if err := r.DeleteRange(ks, d.Min, d.Max); err != nil {
				r.Close()
				return err
			}
		}
		if err := r.Close(); err != nil {
			return err
		}
	}
	return nil
}

// ---- Gallina rendering (header opens Z_scope) ----

func zs(v int64) string {
	if v < 0 {
		return fmt.Sprintf("(%d)", v)
	}
	return fmt.Sprintf("%d", v)
}
func ptsT(ps []pt) string {
	var b strings.Builder
	b.WriteString("[")
	for i, p := range ps {
		if i > 0 {
			b.WriteString(";")
		}
		b.WriteString("(" + zs(p[0]) + "," + zs(p[1]) + ")")
	}
	b.WriteString("]")
	return b.String()
}
func oblockT(o oblock) string { return "(" + zs(o.Min) + "," + zs(o.Max) + "," + ptsT(o.Pts) + ")" }

func caseTerm(c *jcase) string {
	var files []string
	for _, f := range c.In {
		var gs []string
		for _, g := range f {
			var bs []string
			for _, b := range g.Blocks {
				bs = append(bs, oblockT(oblock{Min: b[0][0], Max: b[len(b)-1][0], Pts: b}))
			}
			var ts []string
			for _, t := range g.Tombs {
				ts = append(ts, "("+zs(t[0])+","+zs(t[1])+")")
			}
			gs = append(gs, fmt.Sprintf("(%d%%N,%s,%s)", g.Key, vh.List(bs), vh.List(ts)))
		}
		files = append(files, vh.List(gs))
	}
	var cache []string
	if c.Mode == 2 {
		raw := map[int][]pt{}
		for _, batch := range c.Writes {
			for _, wr := range batch {
				raw[wr.Key] = append(raw[wr.Key], wr.Pts...)
			}
		}
		var ks []int
		for k := range raw {
			ks = append(ks, k)
		}
		sort.Ints(ks)
		for _, k := range ks {
			cache = append(cache, fmt.Sprintf("(%d%%N,%s)", k, ptsT(raw[k])))
		}
	}
	var outs []string
	for _, f := range c.Out {
		var ks []string
		for _, k := range f {
			var bs []string
			for _, b := range k.Blocks {
				bs = append(bs, oblockT(b))
			}
			ks = append(ks, fmt.Sprintf("(%d%%N,%s)", k.Key, vh.List(bs)))
		}
		outs = append(outs, vh.List(ks))
	}
	return fmt.Sprintf("{| c_mode := %d%%N; c_size := %d%%nat; c_files := %s; c_cache := %s; c_err := %s; c_out := %s |}",
		c.Mode, c.PPB, vh.List(files), vh.List(cache), vh.Bool(c.Err != ""), vh.List(outs))
}

// runRoll exercises Compactor.write's rolling on ErrMaxBlocksExceeded on the real code:
// c.NRoll one-point blocks of ONE key, split over two input files, compacted with
// pointsPerBlock = 1 (every block is "full" and passed through), so the key has more than
// maxIndexEntries (65535) blocks and the compactor must roll to a second file.  The case is too
// big for the Coq judge (its term would have > 130000 points); it is checked here, on the
// implementation side, against the statement of C04_roll_preserves / the content oracle:
// files = a split of the block sequence into non-empty pieces of at most 65535 blocks of the
// key, nothing lost, nothing duplicated, order kept.  A violation is reported with w.Fail.
// The Coq term recorded for the case is the trivial empty snapshot.
func runRoll(w *vh.W, c *jcase) {
	caseNo++
	dir := filepath.Join(tmpRoot, fmt.Sprintf("case%d", caseNo))
	must(os.MkdirAll(dir, 0o755))
	defer os.RemoveAll(dir)
	fs := &fakeFS{gen: 100}
	defer fs.Close()
	comp := tsm1.NewCompactor()
	comp.Dir = dir
	comp.FileStore = fs
	comp.Open()
	defer comp.Close()
	n := c.NRoll
	half := n / 2
	var paths []string
	fail := ""
	for fi := 0; fi < 2; fi++ {
		path := filepath.Join(dir, tsm1.DefaultFormatFileName(fi+1, 1)+".tsm")
		fd, err := os.Create(path)
		must(err)
		tw, err := tsm1.NewTSMWriter(fd)
		must(err)
		lo, hi := 0, half
		if fi == 1 {
			lo, hi = half, n
		}
		for t := lo; t < hi; t++ {
			if err := tw.Write([]byte(keyPool[1]), []tsm1.Value{tsm1.NewValue(int64(t), int64(fi+1))}); err != nil {
				fail = "writing roll input: " + err.Error()
			}
		}
		must(tw.WriteIndex())
		must(tw.Close())
		paths = append(paths, path)
	}
	var outFiles []string
	var err error
	if p := vh.Guard(func() { outFiles, err = comp.CompactFast(paths, zap.NewNop(), 1) }); p != "" {
		fail = "compaction panicked: " + p
	}
	if err != nil && fail == "" {
		fail = "compaction returned an error: " + err.Error()
	}
	next := int64(0)
	var perFile []int
	for _, of := range outFiles {
		ks, _, e := readFile(of, false)
		if e != nil {
			fail = "output file unreadable: " + e.Error()
			break
		}
		cnt := 0
		for _, k := range ks {
			if k.Key != 1 && fail == "" {
				fail = "unexpected key in rolled output"
			}
			for _, b := range k.Blocks {
				cnt++
				for _, p := range b.Pts {
					want := int64(1)
					if p[0] >= int64(half) {
						want = 2
					}
					if (p[0] != next || p[1] != want) && fail == "" {
						fail = fmt.Sprintf("rolled output: expected point (%d,%d), found (%d,%d)", next, want, p[0], p[1])
					}
					next++
				}
			}
		}
		perFile = append(perFile, cnt)
		if (cnt == 0 || cnt > 65535) && fail == "" {
			fail = fmt.Sprintf("rolled output file with %d blocks of one key", cnt)
		}
	}
	if next != int64(n) && fail == "" {
		fail = fmt.Sprintf("rolled output holds %d of %d points", next, n)
	}
	if n > 65535 && len(outFiles) < 2 && fail == "" {
		fail = "more than 65535 blocks of one key in one output file (no roll)"
	}
	w.Extra["roll_blocks_per_output_file"] = perFile
	c.Out = [][]okey{}
	idx := w.Add("{| c_mode := 2%N; c_size := 1000%nat; c_files := []; c_cache := []; c_err := false; c_out := [] |}", c, true, "")
	if fail != "" {
		w.Fail(idx, fail, "")
	}
	w.Count("kind", c.Kind)
}

// The real blocks carry index min/max; the in-as-read groups store them implicitly (first/last
// point) only if they agree — readInputs checks that and reports otherwise.
func run(w *vh.W, c *jcase) {
	if c.Kind == "roll" {
		runRoll(w, c)
		return
	}
	caseNo++
	dir := filepath.Join(tmpRoot, fmt.Sprintf("case%d", caseNo))
	must(os.MkdirAll(dir, 0o755))
	defer os.RemoveAll(dir)
	c.In, c.Out, c.Err = nil, nil, ""
	fs := &fakeFS{gen: 100}
	defer fs.Close()
	comp := tsm1.NewCompactor()
	comp.Dir = dir
	comp.FileStore = fs
	comp.Open()
	defer comp.Close()
	var outFiles []string
	var err error
	fail := ""
	if c.Mode == 2 {
		cache := tsm1.NewCache(0, tsdb.EngineTags{})
		for _, batch := range c.Writes {
			m := map[string][]tsm1.Value{}
			for _, wr := range batch {
				for _, p := range wr.Pts {
					m[keyPool[wr.Key]] = append(m[keyPool[wr.Key]], mkValue(wr.Key, p[0], p[1]))
				}
			}
			if err := cache.WriteMulti(m); err != nil {
				fail = "Cache.WriteMulti: " + err.Error()
			}
		}
		// as Engine.WriteSnapshot does: Snapshot, Deduplicate, Compactor.WriteSnapshot
		snap, serr := cache.Snapshot()
		if serr != nil {
			fail = "Cache.Snapshot: " + serr.Error()
		} else {
			snap.Deduplicate()
			p := vh.Guard(func() { outFiles, err = comp.WriteSnapshot(snap, zap.NewNop()) })
			if p != "" {
				fail = "WriteSnapshot panicked: " + p
			}
		}
	} else {
		var paths []string
		for i := range c.Files {
			f := &c.Files[i]
			if len(f.Groups) == 0 {
				continue
			}
			path := filepath.Join(dir, tsm1.DefaultFormatFileName(i+1, 1)+".tsm")
			if e := writeInput(path, f); e != nil {
				fail = "writing input file: " + e.Error()
				break
			}
			paths = append(paths, path)
			ks, tombs, e := readFile(path, true)
			if e != nil {
				fail = "reading input file back: " + e.Error()
				break
			}
			var gs []jgroup
			for _, k := range ks {
				g := jgroup{Key: k.Key, Tombs: tombs[k.Key]}
				for _, b := range k.Blocks {
					if len(b.Pts) == 0 || b.Min != b.Pts[0][0] || b.Max != b.Pts[len(b.Pts)-1][0] {
						fail = "input block index range differs from its points"
					}
					g.Blocks = append(g.Blocks, b.Pts)
				}
				gs = append(gs, g)
			}
			c.In = append(c.In, gs)
		}
		if fail == "" && len(paths) > 0 {
			p := vh.Guard(func() {
				if c.Mode == 1 {
					outFiles, err = comp.CompactFast(paths, zap.NewNop(), c.PPB)
				} else {
					outFiles, err = comp.CompactFull(paths, zap.NewNop(), c.PPB)
				}
			})
			if p != "" {
				fail = "compaction panicked: " + p
			}
		}
	}
	if err != nil {
		c.Err = "error"
		if fail == "" {
			fail = "compaction returned an error: " + err.Error()
		}
	}
	for _, of := range outFiles {
		ks, _, e := readFile(of, false)
		if e != nil {
			if fail == "" {
				fail = "output file unreadable: " + e.Error()
			}
			continue
		}
		c.Out = append(c.Out, ks)
	}
	if c.Out == nil {
		c.Out = [][]okey{}
	}
	sig := shapeSig(c)
	idx := w.Add(caseTerm(c), c, nontrivial(c), sig)
	if fail != "" {
		w.Fail(idx, fail, "")
	}
	w.Count("kind", c.Kind)
	w.Count("mode", []string{"full", "fast", "snapshot"}[c.Mode])
	w.Count("ppb", fmt.Sprint(c.PPB))
	w.Count("out_files", fmt.Sprint(len(c.Out)))
	nb := 0
	pass := 0
	for _, f := range c.Out {
		for _, k := range f {
			nb += len(k.Blocks)
			for _, b := range k.Blocks {
				if len(b.Pts) > c.PPB {
					pass++
				}
			}
		}
	}
	w.Count("out_blocks", bucket(nb))
	w.Count("oversize_passthrough_blocks", bucket(pass))
	nt := 0
	for _, f := range c.In {
		for _, g := range f {
			nt += len(g.Tombs)
		}
	}
	w.Count("tombstone_ranges", bucket(nt))
}

func bucket(n int) string {
	switch {
	case n == 0:
		return "0"
	case n <= 2:
		return "1-2"
	case n <= 5:
		return "3-5"
	case n <= 10:
		return "6-10"
	default:
		return ">10"
	}
}

// known finding: more than 20 blocks of one key in one compaction (sort.Stable leaves the
// insertion sort and SymMerge may swap overlapping blocks of different files)
const sigStable = "stable-sort-over-20-blocks"

// shapeSig: known-finding signature decided from the INPUT shape only: some key has more than
// 20 blocks over all input files.
func shapeSig(c *jcase) string {
	if c.Mode == 2 {
		return ""
	}
	n := map[int]int{}
	for _, f := range c.Files {
		for _, g := range f.Groups {
			n[g.Key] += len(g.Blocks)
		}
	}
	for _, v := range n {
		if v > 20 {
			return sigStable
		}
	}
	return ""
}

// non-trivial: a compaction in which some key is present in >= 2 input files (something to
// merge) or carries a tombstone; a snapshot with an out-of-order or duplicate timestamp or
// more than one block.
func nontrivial(c *jcase) bool {
	if c.Mode == 2 {
		for _, f := range c.Out {
			for _, k := range f {
				if len(k.Blocks) > 1 {
					return true
				}
			}
		}
		last := map[int]int64{}
		for _, b := range c.Writes {
			for _, wr := range b {
				for _, p := range wr.Pts {
					if l, ok := last[wr.Key]; ok && p[0] <= l {
						return true
					}
					last[wr.Key] = p[0]
				}
			}
		}
		return false
	}
	seen := map[int]int{}
	for _, f := range c.In {
		for _, g := range f {
			seen[g.Key]++
			if len(g.Tombs) > 0 {
				return true
			}
		}
	}
	for _, n := range seen {
		if n >= 2 {
			return true
		}
	}
	return false
}

func must(err error) {
	if err != nil {
		fmt.Fprintln(os.Stderr, "driver error:", err)
		os.Exit(3)
	}
}

// ---- generators ----

type gen struct {
	w *vh.W
}

func (g *gen) n(k int) int { return g.w.Rng.IntN(k) }

// sorted distinct timestamps from [lo, lo+span)
func (g *gen) times(n int, lo, span int64) []int64 {
	if int64(n) > span {
		n = int(span)
	}
	set := map[int64]bool{}
	for len(set) < n {
		set[lo+int64(g.n(int(span)))] = true
	}
	out := make([]int64, 0, n)
	for t := range set {
		out = append(out, t)
	}
	sort.Slice(out, func(i, j int) bool { return out[i] < out[j] })
	return out
}

// blockLen: sizes around ppb
func (g *gen) blockLen(ppb int) int {
	c := []int{1, ppb - 1, ppb, ppb, ppb + 1, 2 * ppb, ppb / 2, 2}
	l := c[g.n(len(c))]
	if l < 1 {
		l = 1
	}
	return l
}

// cut a sorted timestamp list into consecutive blocks with lengths around ppb
func (g *gen) cut(key int, ts []int64, ppb int, val int64) [][]pt {
	var out [][]pt
	for len(ts) > 0 {
		l := g.blockLen(ppb)
		if l > len(ts) {
			l = len(ts)
		}
		b := make([]pt, l)
		for i := 0; i < l; i++ {
			b[i] = pt{ts[i], normV(key, val)}
		}
		out = append(out, b)
		ts = ts[l:]
	}
	return out
}

func (g *gen) dels(nkeys int, dom int64) []jdel {
	var out []jdel
	nd := 0
	switch g.n(6) {
	case 0, 1:
		nd = 1
	case 2:
		nd = 2
	}
	for i := 0; i < nd; i++ {
		var ks []int
		for k := 0; k < nkeys; k++ {
			if g.n(2) == 0 {
				ks = append(ks, k)
			}
		}
		if len(ks) == 0 {
			ks = []int{g.n(nkeys)}
		}
		lo := int64(g.n(int(dom)))
		hi := lo + int64(g.n(int(dom)/3+1))
		switch g.n(10) {
		case 0:
			lo = math.MinInt64
		case 1:
			hi = math.MaxInt64
		case 2:
			lo, hi = math.MinInt64, math.MaxInt64
		case 3:
			hi = lo
		}
		out = append(out, jdel{Keys: ks, Min: lo, Max: hi})
	}
	return out
}

var ppbs = []int{1, 2, 2, 3, 3, 4, 5, 5}

// in-file blocks of a key out of time order and overlapping (the TSM writer accepts them; a
// file store would never produce them if compaction keeps its own outputs ordered, which is
// what C04_compact_blocks_ordered says): the iterator must still sort, dedup and merge them
func (g *gen) shuffled() *jcase {
	c := &jcase{Kind: "shuffled", Mode: g.n(2), PPB: ppbs[g.n(len(ppbs))]}
	nfiles := 1 + g.n(3)
	nkeys := 1 + g.n(2)
	dom := int64(6 + g.n(14))
	c.Files = make([]jfile, nfiles)
	for i := range c.Files {
		for k := 0; k < nkeys; k++ {
			nb := g.n(5)
			var bl [][]pt
			for j := 0; j < nb; j++ {
				ts := g.times(1+g.n(c.PPB+2), int64(g.n(int(dom))), 2+int64(g.n(int(dom))))
				b := make([]pt, len(ts))
				for x, t := range ts {
					b[x] = pt{t, normV(k, int64(10*(i+1)+j))}
				}
				bl = append(bl, b)
			}
			if len(bl) > 0 {
				c.Files[i].Groups = append(c.Files[i].Groups, jgroup{Key: k, Blocks: bl})
			}
		}
		if g.n(3) == 0 {
			c.Files[i].Dels = g.dels(nkeys, dom)
		}
	}
	return c
}

// random compaction case
func (g *gen) compaction() *jcase {
	c := &jcase{Mode: g.n(2), PPB: ppbs[g.n(len(ppbs))]}
	nfiles := 1 + g.n(4)
	nkeys := 1 + g.n(4)
	shape := g.n(10)
	dom := int64(8 + g.n(30))
	c.Files = make([]jfile, nfiles)
	perKeyBlocks := map[int]int{}
	switch {
	case shape < 3:
		// "deal": all blocks of a key are disjoint and time-ordered; every block goes to a random
		// file (in-file order preserved) -> non-dedup path: pass-through, fast, decode-rest
		c.Kind = "disjoint"
		groups := make([]map[int][][]pt, nfiles)
		for i := range groups {
			groups[i] = map[int][][]pt{}
		}
		for k := 0; k < nkeys; k++ {
			ts := g.times(1+g.n(4*c.PPB+3), int64(g.n(5)), dom)
			bl := g.cut(k, ts, c.PPB, 1)
			if len(bl) > 18 {
				bl = bl[:18]
			}
			sticky := g.n(nfiles)
			for _, b := range bl {
				fi := sticky
				if g.n(3) == 0 {
					fi = g.n(nfiles)
					sticky = fi
				}
				for i := range b {
					b[i][1] = normV(k, int64(fi+1))
				}
				groups[fi][k] = append(groups[fi][k], b)
			}
		}
		for i := range c.Files {
			for k := 0; k < nkeys; k++ {
				if bl := groups[i][k]; len(bl) > 0 {
					c.Files[i].Groups = append(c.Files[i].Groups, jgroup{Key: k, Blocks: bl})
				}
			}
		}
		if shape == 2 { // one tombstone / one extra overlapping file to leave the fast path midway
			c.Kind = "disjoint+del"
			c.Files[g.n(nfiles)].Dels = g.dels(nkeys, dom)
		}
	default:
		c.Kind = "overlap"
		for i := range c.Files {
			for k := 0; k < nkeys; k++ {
				if g.n(4) == 0 {
					continue
				}
				maxb := 20 / nfiles
				// a window inside the domain so that files overlap partially
				lo := int64(g.n(int(dom) / 2))
				span := int64(3 + g.n(int(dom)))
				ts := g.times(g.n(3*c.PPB+4), lo, span)
				if len(ts) == 0 {
					continue
				}
				bl := g.cut(k, ts, c.PPB, int64(i+1))
				if len(bl) > maxb {
					bl = bl[:maxb]
				}
				perKeyBlocks[k] += len(bl)
				c.Files[i].Groups = append(c.Files[i].Groups, jgroup{Key: k, Blocks: bl})
			}
			if shape >= 6 {
				c.Kind = "overlap+del"
				c.Files[i].Dels = g.dels(nkeys, dom)
			}
		}
	}
	return c
}


// more than 20 blocks of one key in one merge: Go's sort.Stable leaves insertion sort and uses
// SymMerge (mirrored literally in the model); overlapping blocks of different files can change
// places and an older value then wins: known finding stable-sort-over-20-blocks
func (g *gen) many() *jcase {
	c := &jcase{Kind: "many", Mode: g.n(2), PPB: []int{2, 3, 5}[g.n(3)]}
	nfiles := 2 + g.n(3)
	dom := int64(40 + g.n(80))
	c.Files = make([]jfile, nfiles)
	for i := range c.Files {
		lo := int64(g.n(int(dom) / 2))
		ts := g.times(20+g.n(40), lo, dom-lo)
		bl := g.cut(0, ts, c.PPB, int64(i+1))
		c.Files[i].Groups = []jgroup{{Key: 0, Blocks: bl}}
		if g.n(4) == 0 {
			c.Files[i].Dels = g.dels(1, dom)
		}
	}
	return c
}

// big blocks: ppb 1000 (the default) and the aggressive "optimize" size against 1000-point inputs
func (g *gen) big() *jcase {
	c := &jcase{Kind: "big", Mode: g.n(2), PPB: 1000}
	if g.n(3) == 0 {
		c.Kind = "optimize" // CompactFull with a larger points-per-block over full 1000-point blocks
		c.Mode = 0
		c.PPB = 1200
	}
	nfiles := 2 + g.n(2)
	c.Files = make([]jfile, nfiles)
	base := int64(0)
	overlap := g.n(3) == 0
	for i := range c.Files {
		n := []int{1000, 1000, 999, 1001, 400, 1500, 2000}[g.n(7)]
		ts := make([]int64, n)
		for j := range ts {
			ts[j] = base + int64(j)*2
		}
		var bl [][]pt
		rest := ts
		for len(rest) > 0 {
			l := 1000
			if g.n(4) == 0 {
				l = 999
			}
			if l > len(rest) {
				l = len(rest)
			}
			b := make([]pt, l)
			for j := 0; j < l; j++ {
				b[j] = pt{rest[j], int64(i + 1)}
			}
			bl = append(bl, b)
			rest = rest[l:]
		}
		c.Files[i].Groups = []jgroup{{Key: 0, Blocks: bl}}
		if overlap {
			base += int64(n) // second half overlaps (odd/even interleave: base parity changes)
			if g.n(2) == 0 {
				base++
			}
		} else {
			base += int64(n)*2 + 5
		}
	}
	return c
}

func (g *gen) snapshot() *jcase {
	c := &jcase{Kind: "snapshot", Mode: 2, PPB: 1000}
	nkeys := 1 + g.n(4)
	nb := 1 + g.n(4)
	bigKey := -1
	if g.n(12) == 0 {
		bigKey = g.n(nkeys)
		c.Kind = "snapshot-big"
	}
	for b := 0; b < nb; b++ {
		var batch []jwrite
		for k := 0; k < nkeys; k++ {
			if g.n(3) == 0 && !(b == 0 && k == 0) {
				continue
			}
			n := 1 + g.n(6)
			var ps []pt
			if k == bigKey && b == 0 {
				n = []int{999, 1000, 1001, 2000, 2001}[g.n(5)]
				for j := 0; j < n; j++ {
					ps = append(ps, pt{int64(j) + 10, normV(k, int64(b+1))})
				}
			} else {
				for j := 0; j < n; j++ { // unsorted, duplicates likely
					ps = append(ps, pt{int64(g.n(14)), normV(k, int64(10*b+j+1))})
				}
				if g.n(2) == 0 {
					sort.Slice(ps, func(i, j int) bool { return ps[i][0] < ps[j][0] })
				}
			}
			batch = append(batch, jwrite{Key: k, Pts: ps})
		}
		c.Writes = append(c.Writes, batch)
	}
	return c
}

func blocksOf(v int64, tss ...[]int64) [][]pt {
	var out [][]pt
	for _, ts := range tss {
		b := make([]pt, len(ts))
		for i, t := range ts {
			b[i] = pt{t, v}
		}
		out = append(out, b)
	}
	return out
}

// hand-picked regression / edge cases (run first)
func corpus() []*jcase {
	g := func(key int, v int64, tss ...[]int64) jgroup { return jgroup{Key: key, Blocks: blocksOf(v, tss...)} }
	return []*jcase{
		// two files, overlapping blocks + partial tombstone
		{Kind: "corpus", Mode: 0, PPB: 2, Files: []jfile{
			{Groups: []jgroup{g(0, 1, []int64{0, 1, 2}, []int64{5, 6}), g(2, 1, []int64{1})}},
			{Groups: []jgroup{g(0, 2, []int64{2, 3, 5}), g(1, 2, []int64{7})}, Dels: []jdel{{Keys: []int{0}, Min: 3, Max: 3}}}}},
		// chain of windows: [10,20] [5,12] [0,7] in three files
		{Kind: "corpus", Mode: 0, PPB: 3, Files: []jfile{
			{Groups: []jgroup{g(0, 1, []int64{10, 15, 20})}},
			{Groups: []jgroup{g(0, 2, []int64{5, 8, 12})}},
			{Groups: []jgroup{g(0, 3, []int64{0, 3, 7})}}}},
		// the same, fast
		{Kind: "corpus", Mode: 1, PPB: 3, Files: []jfile{
			{Groups: []jgroup{g(0, 1, []int64{10, 15, 20})}},
			{Groups: []jgroup{g(0, 2, []int64{5, 8, 12})}},
			{Groups: []jgroup{g(0, 3, []int64{0, 3, 7})}}}},
		// pass-through of full and oversize blocks, small blocks combined
		{Kind: "corpus", Mode: 0, PPB: 2, Files: []jfile{
			{Groups: []jgroup{g(0, 1, []int64{0, 1}, []int64{2, 3, 4, 5}, []int64{6}, []int64{7, 8}, []int64{9})}}}},
		{Kind: "corpus", Mode: 1, PPB: 2, Files: []jfile{
			{Groups: []jgroup{g(0, 1, []int64{0, 1}, []int64{2, 3, 4, 5}, []int64{6}, []int64{7, 8}, []int64{9})}}}},
		// a key deleted completely in one file, partially in the other
		{Kind: "corpus", Mode: 0, PPB: 3, Files: []jfile{
			{Groups: []jgroup{g(0, 1, []int64{0, 1, 2}), g(1, 1, []int64{0, 4})}, Dels: []jdel{{Keys: []int{0}, Min: math.MinInt64, Max: math.MaxInt64}}},
			{Groups: []jgroup{g(0, 2, []int64{1, 2, 3}), g(1, 2, []int64{4, 5})}, Dels: []jdel{{Keys: []int{0, 1}, Min: 2, Max: 4}}}}},
		// everything tombstoned: no output file
		{Kind: "corpus", Mode: 0, PPB: 3, Files: []jfile{
			{Groups: []jgroup{g(0, 1, []int64{0, 1, 2})}, Dels: []jdel{{Keys: []int{0}, Min: 0, Max: 1}, {Keys: []int{0}, Min: 2, Max: 5}}}}},
		// snapshot: unsorted duplicates
		{Kind: "corpus", Mode: 2, PPB: 1000, Writes: [][]jwrite{
			{{Key: 0, Pts: []pt{{5, 1}, {1, 2}, {5, 3}}}, {Key: 1, Pts: []pt{{2, 1}}}},
			{{Key: 0, Pts: []pt{{1, 4}, {0, 5}}}}}},
		// the witness of C04_compact_content_refuted (23 blocks of one key in 3 files)
		{Kind: "corpus-over20", Mode: 0, PPB: 5, Files: []jfile{
			{Groups: []jgroup{g(0, 1, []int64{27, 28, 29, 31, 32}, []int64{34, 35}, []int64{37, 38, 39, 40, 41}, []int64{42}, []int64{43, 44, 45, 47},
				[]int64{48, 49}, []int64{50, 51}, []int64{53, 54, 55, 56, 57, 58, 59, 60, 61, 64}, []int64{65})}},
			{Groups: []jgroup{g(0, 2, []int64{29, 30}, []int64{31, 32}, []int64{33, 34}, []int64{35, 36, 37, 38, 39, 40, 41, 42, 46, 47},
				[]int64{49, 50, 51, 53, 54, 55}, []int64{56, 57}, []int64{60}, []int64{61, 62, 63, 65})}},
			{Groups: []jgroup{g(0, 3, []int64{28, 29, 30, 31, 32}, []int64{33, 34, 35, 36, 37, 38, 39, 40, 41, 42}, []int64{43, 44, 45, 46, 47, 48},
				[]int64{49, 50, 51, 52, 53}, []int64{54, 55, 56, 57, 58, 59, 60, 61, 62, 63}, []int64{64, 65})}}}},
		// rolling on ErrMaxBlocksExceeded (checked on the implementation side, see runRoll)
		{Kind: "roll", Mode: 1, PPB: 1, NRoll: 66000},
	}
}

func main() {
	bigPerMille := flag.Int("big", 8, "per-mille of 1000-point cases")
	manyPerMille := flag.Int("many", 30, "per-mille of cases with more than 20 blocks of one key (known finding stable-sort-over-20-blocks)")
	w := vh.New("C04", "From Verif Require Import Base.Prelude Model.C37 Model.C04.\nLocal Open Scope Z_scope.", "case", "check")
	w.Rule = "kinds: corpus (hand-picked), corpus-over20 / many (21-60 overlapping blocks of one key in 2-4 files: the shape of known finding stable-sort-over-20-blocks; signature set from the input shape: some key has more than 20 blocks over all input files), roll (66000 one-point blocks of one key, CompactFast with ppb 1: rolling to a second file at 65535 blocks, asserted on the implementation side only), shuffled (blocks of a key out of order and overlapping INSIDE a file), disjoint (all blocks of a key time-ordered and disjoint, dealt over 1-4 files: pass-through / fast / decode-rest paths), disjoint+del, overlap (1-4 files x 1-4 keys, per file and key 0-3*ppb+3 points from a sliding window of a 8-37 timestamp domain cut into blocks of length {1,2,ppb/2,ppb-1,ppb,ppb+1,2ppb}; value = file number so that newest-wins is visible), overlap+del (0-2 DeleteRange per file over random key subsets, ranges incl. MinInt64/MaxInt64/full/point), big (ppb 1000, 1000/999/1001/1500/2000-point inputs, disjoint or interleaved), optimize (CompactFull with ppb 1200 over 1000-point blocks), snapshot (1-4 WriteMulti batches x 1-4 keys, unsorted duplicates over 14 timestamps; Snapshot+Deduplicate+WriteSnapshot), snapshot-big (999..2001 points in one key). ppb in {1,2,3,4,5,1000,1200}; CompactFull and CompactFast alternate. All other kinds keep at most 20 blocks per key (Go's sort.Stable is insertion sort up to 20). Non-trivial: a compaction where a key occurs in >= 2 input files or has a tombstone range; a snapshot with out-of-order/duplicate timestamps or more than one output block. Distinct: distinct Gallina terms."
	base := ""
	if st, e := os.Stat("/dev/shm"); e == nil && st.IsDir() {
		base = "/dev/shm"
	}
	var err error
	tmpRoot, err = os.MkdirTemp(base, "c04-")
	if err != nil {
		tmpRoot, err = os.MkdirTemp("", "c04-")
	}
	must(err)
	defer os.RemoveAll(tmpRoot)
	var rc jcase
	if w.ReplayCase(&rc) {
		run(w, &rc)
		w.Finish()
		os.RemoveAll(tmpRoot)
		return
	}
	for _, c := range corpus() {
		if w.Len() < w.N {
			run(w, c)
		}
	}
	g := &gen{w: w}
	for w.Len() < w.N {
		var c *jcase
		switch r := g.n(1000); {
		case g.n(1000) < *manyPerMille:
			c = g.many()
		case r < *bigPerMille:
			c = g.big()
		case r < 120:
			c = g.snapshot()
		case r < 200:
			c = g.shuffled()
		default:
			c = g.compaction()
		}
		run(w, c)
	}
	w.Finish()
	os.RemoveAll(tmpRoot)
}
