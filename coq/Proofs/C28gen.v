(** The definition GENERATED from authz.go by go2v equals the hand-written mirror, hence
    satisfies the property.  If the source changes meaning, this file stops compiling. *)
From Verif Require Import Base.Prelude Model.C28 Proofs.C28 Gen.C28gen.

Lemma gen_eq_mirror p q : matchesV1_gen p q = matchesV1 p q.
Proof.
  destruct p as [pa [pt pi po]], q as [qa [qt qi qo]].
  unfold matchesV1_gen, matchesV1; cbn.
  destruct (N.eqb pa qa); cbn; [|reflexivity].
  destruct (N.eqb pt Instance); cbn; [reflexivity|].
  destruct (N.eqb pt qt); cbn; [|reflexivity].
  destruct pi as [i|], po as [o|], qi as [i'|], qo as [o'|]; cbn; try reflexivity;
    repeat match goal with |- context [N.eqb ?a ?b] => destruct (N.eqb a b); cbn end; reflexivity.
Qed.

Lemma gen_matches_iff p q : matchesV1_gen p q = true <-> grants p q.
Proof. rewrite gen_eq_mirror. apply matches_iff. Qed.
