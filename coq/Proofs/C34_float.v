(** C34 — the binary64 rounding function is exact on representable integers. *)
From Verif Require Import Base.Prelude Model.C34.
From Coq Require Import ZifyBool ZifyNat ZifyN.
Local Open Scope N_scope.

(** n fits a 53-bit significand: n is a multiple of 2^(log2 n - 52). *)
Definition repr53 (n : N) : bool := n mod 2 ^ (N.log2 n - 52) =? 0.

Lemma repr53_small n : n < 2 ^ 53 -> repr53 n = true.
Proof.
  intro H. unfold repr53.
  assert (Hl : N.log2 n - 52 = 0).
  { destruct (N.eq_dec n 0) as [->|Hz]; [reflexivity|].
    assert (N.log2 n < 53) by (apply N.log2_lt_pow2; lia). lia. }
  rewrite Hl. cbn. rewrite N.mod_1_r. reflexivity.
Qed.

(** [x] denotes exactly the integer [n]. *)
Definition veq (x : fl) (n : N) : Prop := snd x <> 0 /\ fst x = n * snd x.

Lemma pow2_pos k : 0 < 2 ^ k.
Proof. apply N.neq_0_lt_0, N.pow_nonzero. lia. Qed.

Lemma rnd_int p q n :
  q <> 0 -> p = n * q -> repr53 n = true -> veq (rnd p q) n.
Proof.
  intros Hq Hp Hr. unfold rnd.
  destruct (p =? 0) eqn:Ep.
  { apply N.eqb_eq in Ep. assert (n = 0) by nia. subst n. split; cbn; lia. }
  apply N.eqb_neq in Ep.
  assert (Hn : n <> 0) by (intro; subst n; lia).
  set (L := N.log2 n). set (bq := N.log2 q).
  assert (HL : 2 ^ L <= n < 2 ^ N.succ L) by (apply N.log2_spec; lia).
  assert (Hlow : L + bq <= N.log2 p) by (subst p; apply N.log2_mul_below; lia).
  assert (Hup : N.log2 p <= L + bq + 1) by (subst p; apply N.log2_mul_above; lia).
  (* floor(log2(p/q)) = L *)
  cbv zeta. fold bq.
  destruct (scale2 p q (Z.of_N (N.log2 p) - Z.of_N bq)) as [a0 b0] eqn:Es0.
  assert (Hfl : (if b0 <=? a0 then (Z.of_N (N.log2 p) - Z.of_N bq)%Z
                 else (Z.of_N (N.log2 p) - Z.of_N bq - 1)%Z) = Z.of_N L).
  { assert (Hd : N.log2 p = L + bq \/ N.log2 p = L + bq + 1) by lia.
    unfold scale2 in Es0.
    destruct Hd as [Hd|Hd]; rewrite Hd in *.
    - replace (Z.of_N (L + bq) - Z.of_N bq)%Z with (Z.of_N L) in * by lia.
      destruct (0 <=? Z.of_N L)%Z eqn:E0; [|lia]. rewrite N2Z.id in Es0.
      injection Es0 as <- <-.
      destruct (q * 2 ^ L <=? p) eqn:E1; [reflexivity|]. exfalso. subst p.
      apply N.leb_gt in E1. nia.
    - replace (Z.of_N (L + bq + 1) - Z.of_N bq)%Z with (Z.of_N (L + 1)) in * by lia.
      destruct (0 <=? Z.of_N (L + 1))%Z eqn:E0; [|lia]. rewrite N2Z.id in Es0.
      injection Es0 as <- <-.
      destruct (q * 2 ^ (L + 1) <=? p) eqn:E1; [|lia]. exfalso.
      rewrite N.add_1_r in E1. subst p. apply N.leb_le in E1. nia. }
  rewrite Hfl. clear Hfl Es0 a0 b0.
  unfold repr53 in Hr. fold L in Hr. apply N.eqb_eq in Hr.
  unfold scale2.
  destruct (0 <=? Z.of_N L - 52)%Z eqn:Ee.
  - (* L >= 52 *)
    replace (Z.to_N (Z.of_N L - 52)) with (L - 52) by lia.
    set (E := L - 52) in *. pose proof (pow2_pos E) as HE.
    assert (Hdiv : p / (q * 2 ^ E) = n / 2 ^ E).
    { subst p. rewrite (N.mul_comm n q). apply N.div_mul_cancel_l; lia. }
    assert (Hmod : p mod (q * 2 ^ E) = 0).
    { subst p. rewrite (N.mul_comm n q). rewrite N.mul_mod_distr_l by lia. rewrite Hr. lia. }
    rewrite Hdiv, Hmod.
    assert (Hb : (q * 2 ^ E <? 2 * 0) = false) by (apply N.ltb_ge; lia).
    assert (Hc : (2 * 0 =? q * 2 ^ E) = false) by (apply N.eqb_neq; nia).
    rewrite Hb, Hc. cbn [orb andb]. split; cbn [fst snd]; [lia|].
    assert (Hex : n = 2 ^ E * (n / 2 ^ E)).
    { rewrite (N.div_mod n (2 ^ E)) at 1 by lia. rewrite Hr. lia. }
    lia.
  - (* L < 52 *)
    replace (Z.to_N (- (Z.of_N L - 52))) with (52 - L) by lia.
    set (K := 52 - L) in *. pose proof (pow2_pos K) as HK.
    assert (Hdiv : p * 2 ^ K / q = n * 2 ^ K).
    { subst p. replace (n * q * 2 ^ K) with (n * 2 ^ K * q) by lia. apply N.div_mul. exact Hq. }
    assert (Hmod : (p * 2 ^ K) mod q = 0).
    { subst p. replace (n * q * 2 ^ K) with (n * 2 ^ K * q) by lia. apply N.mod_mul. exact Hq. }
    rewrite Hdiv, Hmod.
    assert (Hb : (q <? 2 * 0) = false) by (apply N.ltb_ge; lia).
    assert (Hc : (2 * 0 =? q) = false) by (apply N.eqb_neq; lia).
    rewrite Hb, Hc. cbn [orb andb]. split; cbn [fst snd]; lia.
Qed.

Lemma fl_of_N_veq n : repr53 n = true -> veq (fl_of_N n) n.
Proof. intro H. unfold fl_of_N. apply rnd_int; [lia|lia|exact H]. Qed.

Lemma fmul_veq x y n m :
  veq x n -> veq y m -> repr53 (n * m) = true -> veq (fmul x y) (n * m).
Proof.
  intros [Hx1 Hx2] [Hy1 Hy2] Hr. unfold fmul. apply rnd_int; [nia| |exact Hr].
  rewrite Hx2, Hy2. nia.
Qed.

Lemma fdiv_veq x y n m c :
  veq x n -> veq y m -> m <> 0 -> n = c * m -> repr53 c = true -> veq (fdiv x y) c.
Proof.
  intros [Hx1 Hx2] [Hy1 Hy2] Hm Hn Hr. unfold fdiv. apply rnd_int; [nia| |exact Hr].
  rewrite Hx2, Hy2, Hn. nia.
Qed.

Lemma floor_veq x n : veq x n -> fl_floor x = n.
Proof. intros [H1 H2]. unfold fl_floor. rewrite H2. apply N.div_mul. exact H1. Qed.

Lemma ge_veq x n k : veq x n -> fl_ge_pow2 x k = (2 ^ k <=? n).
Proof.
  intros [H1 H2]. unfold fl_ge_pow2. rewrite H2.
  destruct (2 ^ k <=? n) eqn:E.
  - apply N.leb_le. apply N.leb_le in E. nia.
  - apply N.leb_gt. apply N.leb_gt in E. nia.
Qed.

(** ** Rounding never takes a value at or above 2^64 below 2^64 *)
Lemma rnd_ge64 p q :
  q <> 0 -> 2 ^ 64 * q <= p -> snd (rnd p q) <> 0 /\ fl_ge_pow2 (rnd p q) 64 = true.
Proof.
  intros Hq Hp. unfold rnd.
  assert (Hp0 : p <> 0) by (pose proof (pow2_pos 64); nia).
  destruct (p =? 0) eqn:Ep; [apply N.eqb_eq in Ep; contradiction|].
  set (lp := N.log2 p). set (lq := N.log2 q).
  assert (HLp : 2 ^ lp <= p < 2 ^ N.succ lp) by (apply N.log2_spec; lia).
  assert (HLq : 2 ^ lq <= q < 2 ^ N.succ lq) by (apply N.log2_spec; lia).
  assert (Hd : 64 + lq <= lp).
  { assert (H1 : 2 ^ (64 + lq) <= p) by (rewrite N.pow_add_r; nia).
    apply N.log2_le_mono in H1. rewrite N.log2_pow2 in H1 by lia. exact H1. }
  cbv zeta.
  destruct (scale2 p q (Z.of_N lp - Z.of_N lq)) as [a0 b0] eqn:Es0.
  (* F = floor(log2(p/q)) >= 64 with 2^F * q <= p *)
  assert (HF : exists F, (if b0 <=? a0 then (Z.of_N lp - Z.of_N lq)%Z
                          else (Z.of_N lp - Z.of_N lq - 1)%Z) = Z.of_N F
                         /\ 64 <= F /\ 2 ^ F * q <= p).
  { unfold scale2 in Es0.
    destruct (0 <=? Z.of_N lp - Z.of_N lq)%Z eqn:E0; [|lia].
    replace (Z.to_N (Z.of_N lp - Z.of_N lq)) with (lp - lq) in Es0 by lia.
    injection Es0 as <- <-.
    destruct (q * 2 ^ (lp - lq) <=? p) eqn:E1.
    - exists (lp - lq). split; [lia|]. split; [lia|]. apply N.leb_le in E1. lia.
    - apply N.leb_gt in E1.
      assert (Hne : lp - lq <> 64).
      { intro H64. rewrite H64 in E1. lia. }
      exists (lp - lq - 1). split; [lia|]. split; [lia|].
      (* q * 2^(lp-lq-1) < 2^(lq+1) * 2^(lp-lq-1) = 2^lp <= p *)
      assert (Hpow : 2 ^ N.succ lq * 2 ^ (lp - lq - 1) = 2 ^ lp).
      { rewrite <- N.pow_add_r. f_equal. lia. }
      pose proof (pow2_pos (lp - lq - 1)). nia. }
  destruct HF as [F [HF1 [HF2 HF3]]]. rewrite HF1. clear HF1 Es0 a0 b0.
  unfold scale2.
  destruct (0 <=? Z.of_N F - 52)%Z eqn:Ee; [|lia].
  replace (Z.to_N (Z.of_N F - 52)) with (F - 52) by lia.
  set (E := F - 52). pose proof (pow2_pos E) as HE.
  assert (HFE : 2 ^ F = 2 ^ 52 * 2 ^ E) by (rewrite <- N.pow_add_r; f_equal; lia).
  assert (Hm0 : 2 ^ 52 <= p / (q * 2 ^ E)).
  { apply N.div_le_lower_bound; [nia|]. nia. }
  set (m0 := p / (q * 2 ^ E)) in *.
  set (m := if (q * 2 ^ E <? 2 * (p mod (q * 2 ^ E))) || ((2 * (p mod (q * 2 ^ E)) =? q * 2 ^ E) && N.odd m0)
            then m0 + 1 else m0).
  assert (Hm : m0 <= m) by (unfold m; destruct (_ || _); lia).
  cbn [snd fst]. split; [lia|]. unfold fl_ge_pow2. cbn [fst snd]. apply N.leb_le.
  assert (H64F : 2 ^ 64 <= 2 ^ F) by (apply N.pow_le_mono_r; lia).
  nia.
Qed.
