(** C20 — proofs about the generic accumulating window cursor (count/sum/min/max/mean):
    the arrays returned by successive Next() calls, concatenated, are the one-pass scan of
    the flat series, for every chunking and every block size. *)
From Coq Require Import ZifyBool.
From Verif Require Import Base.Prelude Model.C20.
Open Scope Z_scope.

Definition nonempty {X} (l : list X) : Prop := l <> [].

Section AccProofs.
Context {V R A : Type}.
Notation pt := (Z * V)%type.
Variable stop_of : Z -> Z.
Variable zero : bool.
Variable B : N.
Variable K : kernel V R A.

(** the window function looks forward (needed only when there is a window) *)
Hypothesis H1 : zero = false -> forall t, t < stop_of t.
(** the first point of a window sees the same accumulator after a reset as at the top of Next() *)
Hypothesis Hk : forall a p, k_step K false (k_reset K a) p = k_step K false (k_init K) p.

Notation inner := (inner stop_of zero B K).
Notation outer := (outer stop_of zero B K).
Notation next_acc := (next_acc stop_of zero B K).
Notation run_acc := (run_acc stop_of zero B K).
Notation scan := (scan stop_of zero K).
Notation scan_fresh := (scan_fresh stop_of zero K).
Notation emit_if := (emit_if K).

Definition flat (st : list pt * list (list pt)) : list pt := fst st ++ concat (snd st).

Lemma scan_fresh_cons p l :
  (zero = false -> stop_of (fst p) <=? fst p = false) ->
  scan_fresh (p :: l) =
  scan l (k_step K false (k_init K) p) true (if zero then MaxI64 else stop_of (fst p)).
Proof.
  intro Hs. unfold C20.scan_fresh. cbn [C20.scan].
  destruct zero; cbn [negb andb]; [reflexivity|].
  rewrite Hs by reflexivity. reflexivity.
Qed.

Lemma inner_spec a : forall acc has wend pos o r,
  inner a acc has wend pos = (o, r) ->
  match r with
  | TCont acc' has' wend' pos' =>
      (forall s, scan (a ++ s) acc has wend = o ++ scan s acc' has' wend')
      /\ (a <> [] \/ has = true -> has' = true)
  | TFull tmp =>
      (forall s, scan (a ++ s) acc has wend = o ++ scan_fresh (tmp ++ s))
      /\ o <> [] /\ tmp <> []
      /\ (length tmp <= length a)%nat /\ (has = false -> (length tmp < length a)%nat)
  | TDiverge => False
  end.
Proof.
  induction a as [|p a' IH]; intros acc has wend pos o r E; cbn [C20.inner] in E.
  - injection E as <- <-. split; [intro s; reflexivity|]. intros [H|H]; [congruence|exact H].
  - destruct (negb zero && (wend <=? fst p)) eqn:Ew.
    + apply andb_true_iff in Ew. destruct Ew as [Ez Ew]. apply negb_true_iff in Ez.
      destruct (has && (B <=? pos + 1)%N) eqn:Ef.
      * injection E as <- <-. apply andb_true_iff in Ef. destruct Ef as [Eh _]. subst has.
        repeat split.
        -- intro s. cbn [app C20.scan].
           replace (negb zero && (wend <=? fst p)) with true by (rewrite Ez, Ew; reflexivity).
           cbn [C20.emit_if app].
           f_equal. rewrite scan_fresh_cons.
           ++ rewrite Hk. destruct zero; [discriminate|reflexivity].
           ++ intros _. specialize (H1 Ez (fst p)). lia.
        -- discriminate.
        -- discriminate.
        -- cbn [length]. lia.
        -- discriminate.
      * destruct (stop_of (fst p) <=? fst p) eqn:Es.
        { specialize (H1 Ez (fst p)). lia. }
        destruct (C20.inner stop_of zero B K a' (k_step K false (k_reset K acc) p) true
                    (stop_of (fst p)) (if has then (pos + 1)%N else pos)) as [o1 r1] eqn:E1.
        injection E as <- <-. apply IH in E1.
        rename r1 into r.
        destruct r as [acc' has' wend' pos'|tmp|].
        -- destruct E1 as [E1 E2]. split; [|intros _; apply E2; right; reflexivity].
           intro s. cbn [app C20.scan].
           replace (negb zero && (wend <=? fst p)) with true by (rewrite Ez, Ew; reflexivity).
           rewrite E1, app_assoc. reflexivity.
        -- destruct E1 as (E1 & E2 & E3 & E4 & E5). repeat split.
           ++ intro s. cbn [app C20.scan].
              replace (negb zero && (wend <=? fst p)) with true by (rewrite Ez, Ew; reflexivity).
              rewrite E1, app_assoc. reflexivity.
           ++ intro X. apply app_eq_nil in X as [_ X]. exact (E2 X).
           ++ exact E3.
           ++ cbn [length]. lia.
           ++ intros _. cbn [length]. lia.
        -- exact E1.
    + apply IH in E. destruct r as [acc' has' wend' pos'|tmp|].
      * destruct E as [E1 E2]. split; [|intros _; apply E2; right; reflexivity].
        intro s. cbn [app C20.scan]. rewrite Ew. apply E1.
      * destruct E as (E1 & E2 & E3 & E4 & E5). repeat split; auto.
        -- intro s. cbn [app C20.scan]. rewrite Ew. apply E1.
        -- cbn [length]. lia.
        -- intros _. cbn [length]. lia.
      * exact E.
Qed.

Lemma outer_spec rest : forall a acc has wend pos,
  Forall nonempty rest -> a <> [] \/ has = true ->
  exists o st', outer rest a acc has wend pos = Some (o, st')
    /\ scan (a ++ concat rest) acc has wend = o ++ scan_fresh (flat st')
    /\ o <> [] /\ Forall nonempty (snd st')
    /\ (length (flat st') <= length (a ++ concat rest))%nat
    /\ (has = false -> (length (flat st') < length (a ++ concat rest))%nat).
Proof.
  induction rest as [|c rest' IH]; intros a acc has wend pos Hne Ha; cbn [C20.outer].
  - destruct (C20.inner stop_of zero B K a acc has wend pos) as [o r] eqn:E.
    apply inner_spec in E. destruct r as [acc' has' wend' pos'|tmp|]; [| |contradiction].
    + destruct E as [E1 E2]. specialize (E2 Ha). subst has'.
      eexists _, _; split; [reflexivity|]. unfold flat; cbn [fst snd concat app length].
      repeat split.
      * rewrite E1. cbn [C20.scan C20.scan_fresh]. rewrite app_nil_r. reflexivity.
      * intro X. apply app_eq_nil in X as [_ X]. discriminate.
      * constructor.
      * lia.
      * intros ->. destruct Ha as [Ha|Ha]; [|discriminate]. destruct a; [congruence|].
        cbn [length app]. lia.
    + destruct E as (E1 & E2 & E3 & E4 & E5).
      eexists _, _; split; [reflexivity|]. unfold flat; cbn [fst snd concat].
      rewrite !app_nil_r. repeat split; auto. rewrite <- (app_nil_r a) at 1. rewrite E1, app_nil_r. reflexivity.
  - destruct (C20.inner stop_of zero B K a acc has wend pos) as [o r] eqn:E.
    apply inner_spec in E. destruct r as [acc' has' wend' pos'|tmp|]; [| |contradiction].
    + destruct E as [E1 E2]. specialize (E2 Ha). subst has'.
      inversion Hne as [|? ? Hc Hr]; subst.
      destruct c as [|q c']; [exfalso; apply Hc; reflexivity|].
      destruct (IH (q :: c') acc' true wend' pos' Hr) as (o' & st' & Eo & Es & Eno & Ene & Ele & _).
      { left; discriminate. }
      fold (C20.outer stop_of zero B K). rewrite Eo.
      eexists _, _; split; [reflexivity|]. repeat split; auto.
      * cbn [concat]. rewrite E1, Es, app_assoc. reflexivity.
      * intro X. apply app_eq_nil in X as [_ X]. exact (Eno X).
      * cbn [concat]. rewrite app_length. lia.
      * intros ->. cbn [concat]. rewrite app_length.
        destruct Ha as [Ha|Ha]; [|discriminate]. destruct a; [congruence|]. cbn [length]. lia.
    + destruct E as (E1 & E2 & E3 & E4 & E5).
      eexists _, _; split; [reflexivity|]. unfold flat; cbn [fst snd].
      repeat split; auto.
      * rewrite !app_length. lia.
      * intro Hh. rewrite !app_length. specialize (E5 Hh). lia.
Qed.

Lemma next_spec st :
  Forall nonempty (snd st) ->
  exists o st', next_acc st = Some (o, st')
    /\ scan_fresh (flat st) = o ++ scan_fresh (flat st')
    /\ (flat st <> [] -> o <> [] /\ (length (flat st') < length (flat st))%nat)
    /\ Forall nonempty (snd st').
Proof.
  destruct st as [tmp rest]. cbn [snd]. intro Hne. unfold C20.next_acc, take_input, flat. cbn [fst snd].
  assert (G : forall p a rest1, Forall nonempty rest1 ->
     exists o st', outer rest1 (p :: a) (k_init K) false (if zero then MaxI64 else stop_of (fst p)) 0%N = Some (o, st')
       /\ scan_fresh ((p :: a) ++ concat rest1) = o ++ scan_fresh (flat st')
       /\ o <> [] /\ (length (flat st') < length ((p :: a) ++ concat rest1))%nat
       /\ Forall nonempty (snd st')).
  { intros p a rest1 Hr.
    destruct (outer_spec rest1 (p :: a) (k_init K) false (if zero then MaxI64 else stop_of (fst p)) 0%N Hr)
      as (o & st' & Eo & Es & Eno & Ene & _ & Elt).
    { left; discriminate. }
    exists o, st'. repeat split; auto. }
  destruct tmp as [|p tmp'].
  - destruct rest as [|c rest']; cbn [pull].
    + eexists _, _; split; [reflexivity|]. cbn. repeat split; auto. congruence.
    + inversion Hne as [|? ? Hc Hr]; subst. destruct c as [|p c']; [exfalso; apply Hc; reflexivity|].
      destruct (G p c' rest' Hr) as (o & st' & Eo & Es & Eno & Elt & Ene).
      exists o, st'. cbn [app concat]. repeat split; auto.
  - destruct (G p tmp' rest Hne) as (o & st' & Eo & Es & Eno & Elt & Ene).
    exists o, st'. repeat split; auto.
Qed.

(** Every chunking, every block size: the concatenated output arrays are the scan. *)
Lemma run_acc_scan : forall fuel st,
  Forall nonempty (snd st) -> (length (flat st) < fuel)%nat ->
  exists arrs, run_acc fuel st = Some arrs /\ concat arrs = scan_fresh (flat st)
               /\ Forall nonempty arrs.
Proof.
  induction fuel as [|f IH]; intros st Hne Hf; [lia|].
  cbn [C20.run_acc].
  destruct (next_spec st Hne) as (o & st' & En & Es & Ep & Ene). rewrite En.
  destruct (flat st) as [|p l] eqn:Efl.
  - destruct o as [|x o'].
    + exists []. repeat split; auto.
    + exfalso. cbn in Es. discriminate.
  - destruct Ep as [Eno Elt]; [discriminate|].
    destruct o as [|x o']; [congruence|].
    destruct (IH st' Ene) as (arrs & Er & Ec & Ea). { rewrite ?Efl in *. cbn [length] in *. lia. }
    rewrite Er. exists ((x :: o') :: arrs). repeat split.
    + cbn [concat]. rewrite Ec, <- Es. reflexivity.
    + constructor; [discriminate|exact Ea].
Qed.

(* ---------------- scan = per-window fold ---------------- *)
Notation kfold := (kfold K).
Definition emitg (wg : Z * list pt) : Z * R := k_emit K (fst wg) (kfold (snd wg) (k_init K) false).

Lemma kfold_app g : forall a h p,
  kfold (g ++ [p]) a h = k_step K (match g with [] => h | _ => true end) (kfold g a h) p.
Proof.
  induction g as [|q g IH]; intros a h p; cbn [app C20.kfold]; [reflexivity|].
  rewrite IH. destruct g; reflexivity.
Qed.

Lemma scan_groups_aux (Hz : zero = false) l : forall acc w cur,
  cur <> [] -> acc = kfold (rev cur) (k_init K) false ->
  scan l acc true w = map emitg (groups_aux stop_of w cur l).
Proof.
  induction l as [|p l IH]; intros acc w cur Hc Ha; cbn [C20.scan groups_aux].
  - subst. reflexivity.
  - replace (negb zero && (w <=? fst p)) with (w <=? fst p) by (rewrite Hz; reflexivity).
    destruct (w <=? fst p) eqn:Ew.
    + cbn [map C20.emit_if app]. f_equal; [subst; reflexivity|].
      apply IH; [discriminate|]. cbn [rev app C20.kfold]. apply Hk.
    + apply IH; [discriminate|]. cbn [rev]. rewrite kfold_app. subst acc.
      destruct (rev cur) eqn:Er; [|reflexivity].
      exfalso. apply Hc. rewrite <- (rev_involutive cur), Er. reflexivity.
Qed.

Lemma scan_fresh_groups (Hz : zero = false) l :
  scan_fresh l = map emitg (groups stop_of l).
Proof.
  destruct l as [|p l]; [reflexivity|].
  rewrite scan_fresh_cons.
  - replace (if zero then MaxI64 else stop_of (fst p)) with (stop_of (fst p)) by (rewrite Hz; reflexivity).
    unfold groups. apply scan_groups_aux; [exact Hz|discriminate|reflexivity].
  - intros _. specialize (H1 Hz (fst p)). lia.
Qed.

Lemma scan_zero (Hz : zero = true) l : forall acc has w,
  scan l acc has w = emit_if (match l with [] => has | _ => true end) w (kfold l acc has).
Proof.
  induction l as [|p l IH]; intros acc has w; cbn [C20.scan C20.kfold]; [reflexivity|].
  replace (negb zero && (w <=? fst p)) with false by (rewrite Hz; reflexivity).
  rewrite IH. destruct l; reflexivity.
Qed.

Lemma scan_fresh_zero (Hz : zero = true) l :
  scan_fresh l = match l with [] => [] | _ => [k_emit K MaxI64 (kfold l (k_init K) false)] end.
Proof.
  destruct l as [|p l]; [reflexivity|].
  unfold C20.scan_fresh. rewrite scan_zero by exact Hz.
  replace (if zero then MaxI64 else stop_of (fst p)) with MaxI64 by (rewrite Hz; reflexivity). reflexivity.
Qed.
End AccProofs.
