// Shared by the C11 and C12 modes: rendering of a models.Point through its public
// accessors, Gallina term helpers, guarded calls with a deadline.
package main

import (
	"fmt"
	"math"
	"strings"
	"time"

	"github.com/influxdata/influxdb/v2/models"
	"verifh/vh"
)

// ---- rendering ----

type jfield struct {
	Key  []byte `json:"key"`
	KeyQ string `json:"key_q"`
	Type string `json:"type"` // int uint float bool string empty err
	I    int64  `json:"i,omitempty"`
	U    uint64 `json:"u,omitempty"`
	F    uint64 `json:"fbits,omitempty"` // IEEE-754 bits
	FQ   string `json:"f_q,omitempty"`
	B    bool   `json:"b,omitempty"`
	S    []byte `json:"s,omitempty"`
	SQ   string `json:"s_q,omitempty"`
	E    int    `json:"e,omitempty"`
}
type jtag struct {
	K  []byte `json:"k"`
	V  []byte `json:"v"`
	KQ string `json:"k_q"`
	VQ string `json:"v_q"`
}
type jview struct {
	Key    []byte   `json:"key"`
	KeyQ   string   `json:"key_q"`
	Name   []byte   `json:"name"`
	Tags   []jtag   `json:"tags"`
	Fields []jfield `json:"fields"`
	Time   int64    `json:"time"`
}

func q(b []byte) string {
	if len(b) > 200 {
		return fmt.Sprintf("%q...(%d bytes)", b[:200], len(b))
	}
	return fmt.Sprintf("%q", b)
}

// render observes a point only through its exported accessors.
func render(p models.Point) jview {
	v := jview{Key: clone(p.Key()), Name: clone(p.Name()), Time: p.UnixNano()}
	v.KeyQ = q(v.Key)
	for _, t := range p.Tags() {
		v.Tags = append(v.Tags, jtag{K: clone(t.Key), V: clone(t.Value), KQ: q(t.Key), VQ: q(t.Value)})
	}
	it := p.FieldIterator()
	for it.Next() {
		f := jfield{Key: clone(it.FieldKey())}
		f.KeyQ = q(f.Key)
		switch it.Type() {
		case models.Integer:
			x, err := it.IntegerValue()
			if err != nil {
				f.Type, f.E = "err", 0
			} else {
				f.Type, f.I = "int", x
			}
		case models.Unsigned:
			x, err := it.UnsignedValue()
			if err != nil {
				f.Type, f.E = "err", 5
			} else {
				f.Type, f.U = "uint", x
			}
		case models.Float:
			x, err := it.FloatValue()
			if err != nil {
				f.Type, f.E = "err", 1
			} else {
				f.Type, f.F, f.FQ = "float", math.Float64bits(x), fmt.Sprint(x)
			}
		case models.Boolean:
			x, err := it.BooleanValue()
			if err != nil {
				f.Type, f.E = "err", 2
			} else {
				f.Type, f.B = "bool", x
			}
		case models.String:
			// StringValue can panic on a parsed point (known finding): observed per accessor
			if pn := vh.Guard(func() { f.S = []byte(it.StringValue()) }); pn != "" {
				f.Type, f.E, f.S = "err", 3, nil
			} else {
				f.Type = "string"
				f.SQ = q(f.S)
			}
		case models.Empty:
			f.Type = "empty"
		default:
			f.Type, f.E = "err", 9
		}
		v.Fields = append(v.Fields, f)
	}
	return v
}

func clone(b []byte) []byte { return append([]byte{}, b...) }

// ---- Gallina terms ----

// segs renders a byte string as `list seg` with runs >= 24 compressed.
func segs(b []byte) string {
	var parts []string
	lit := []byte{}
	flush := func() {
		if len(lit) > 0 {
			parts = append(parts, "L "+vh.Bytes(lit))
			lit = lit[:0]
		}
	}
	for i := 0; i < len(b); {
		j := i
		for j < len(b) && b[j] == b[i] {
			j++
		}
		if j-i >= 24 {
			flush()
			parts = append(parts, fmt.Sprintf("R %d %d", j-i, b[i]))
		} else {
			lit = append(lit, b[i:j]...)
		}
		i = j
	}
	flush()
	return "[" + strings.Join(parts, "; ") + "]"
}

func fvalTerm(f jfield) string {
	switch f.Type {
	case "int":
		return "VInt " + vh.Z(f.I)
	case "uint":
		return "VUint " + vh.N(f.U)
	case "float":
		return "VFloat " + vh.N(f.F)
	case "bool":
		return "VBool " + vh.Bool(f.B)
	case "string":
		return "VStr " + vh.Bytes(f.S)
	case "empty":
		return "VEmpty"
	}
	return fmt.Sprintf("VErr %d", f.E)
}

func viewTerm(v jview) string {
	tags := make([]string, len(v.Tags))
	for i, t := range v.Tags {
		tags[i] = vh.Pair(segs(t.K), segs(t.V))
	}
	fs := make([]string, len(v.Fields))
	for i, f := range v.Fields {
		fs[i] = vh.Pair(segs(f.Key), fvalTerm(f))
	}
	return fmt.Sprintf("{| sv_key := %s; sv_name := %s; sv_tags := %s; sv_fields := %s; sv_time := %s |}",
		segs(v.Key), segs(v.Name), vh.List(tags), vh.List(fs), vh.Z(v.Time))
}

var precCodes = map[string]uint64{"ns": 0, "n": 1, "us": 2, "u": 3, "ms": 4, "s": 5, "m": 6, "h": 7}

func precCode(p string) uint64 {
	if c, ok := precCodes[p]; ok {
		return c
	}
	return 8
}

// ---- guarded call with a deadline ----

// guarded runs f under recover with a 2 s deadline; it returns "" or a failure text.
func guarded(f func()) string {
	done := make(chan string, 1)
	go func() { done <- vh.Guard(f) }()
	select {
	case p := <-done:
		if p != "" {
			return "panic: " + p
		}
		return ""
	case <-time.After(2 * time.Second):
		return "hang: no result after 2s"
	}
}

// splitErr extracts the line texts quoted in the error of ParsePointsWithPrecision
// ("unable to parse '<line>': <reason>" joined by newlines).  The generated bodies
// never contain a single quote, so each entry holds exactly two of them.
func splitErr(msg string) (texts [][]byte, reasons []string, ok bool) {
	const pre = "unable to parse '"
	for len(msg) > 0 {
		if !strings.HasPrefix(msg, pre) {
			return nil, nil, false
		}
		msg = msg[len(pre):]
		i := strings.IndexByte(msg, '\'')
		if i < 0 || !strings.HasPrefix(msg[i:], "': ") {
			return nil, nil, false
		}
		texts = append(texts, []byte(msg[:i]))
		msg = msg[i+3:]
		j := strings.Index(msg, "\n"+pre)
		if j < 0 {
			reasons = append(reasons, msg)
			msg = ""
		} else {
			reasons = append(reasons, msg[:j])
			msg = msg[j+1:]
		}
	}
	return texts, reasons, true
}

func reasonClass(r string) string {
	for _, p := range []string{"missing measurement", "missing fields", "missing tag key", "missing tag value", "invalid tag format",
		"cannot use reserved tag key", "duplicate tags", "max key length exceeded", "missing field key", "missing field value",
		"invalid number", "unable to parse integer", "unable to parse unsigned", "invalid float", "invalid boolean", "unbalanced quotes",
		"invalid field format", "invalid value", "bad timestamp", "strconv.ParseInt", "time outside range", "point is invalid"} {
		if strings.HasPrefix(r, p) {
			return p
		}
	}
	return "other"
}
