(** C04 — part 7: the content invariant and the dedup loop of [combineFloat].

    [sp] is the specification's lookup function (timestamp -> value of the newest live point).
    [dinv L D bs]: [D] is everything consumed so far (emitted blocks, blocks waiting in
    [merged], pending merged values), strictly sorted and <= the watermark [L]; every unread
    point of the remaining blocks [bs] is > L; and [D] followed by the newest-wins content of
    the remaining blocks is exactly the specification. *)
From Coq Require Import ZifyBool.
From Verif Require Import Base.Prelude Model.C37 Proofs.C37 Model.C04 Proofs.C04 Proofs.C04_size
     Proofs.C04_blocks Proofs.C04_pend Proofs.C04_window.
Local Open Scope Z_scope.

Section Dedup.
  Context {V : Type}.
  Notation arr := (arr V).
  Notation blk := (blk V).
  Variable sp : Z -> option V.
  Variable size : nat.
  Hypothesis size_pos : (0 < size)%nat.

  Record dinv (L : Z) (D : arr) (bs : list blk) : Prop := {
    d_blocks : Forall (bok L) bs;
    d_sorted : ssorted D;
    d_le : forall p, In p D -> tm p <= L;
    d_spec : forall t, sp t = orelse (lookup t D) (plast t bs) }.

  Lemma pendl_drop_read L : forall bs : list blk, Forall (bok L) bs -> pendl (drop_read bs) = pendl bs.
  Proof.
    induction bs as [|b r IH]; intro B; cbn [drop_read]; [reflexivity|].
    inversion B as [|? ? Bb Br]; subst. destruct (is_read b) eqn:R; [|reflexivity].
    rewrite IH by exact Br. unfold pendl. cbn [map concat]. unfold live.
    rewrite (read_unr b (ok_wf L b Bb) (ok_st L b Bb) R). reflexivity.
  Qed.

  Lemma drop_read_head : forall (bs : list blk) first rest,
    drop_read bs = first :: rest -> is_read first = false.
  Proof.
    induction bs as [|b r IH]; intros first rest; cbn [drop_read]; [discriminate|].
    destruct (is_read b) eqn:R; [apply IH|]. intros [= <- <-]. exact R.
  Qed.

  Lemma dinv_drop_read L D bs : dinv L D bs -> dinv L D (drop_read bs).
  Proof.
    intros [B S Le Sp]. split; auto.
    - apply drop_read_Forall. exact B.
    - intro t. rewrite Sp. unfold plast. rewrite (pendl_drop_read L) by exact B. reflexivity.
  Qed.

  Lemma stepped_pendl mx : forall bs bs' : list blk, Forall2 (stepped mx) bs bs' ->
    pendl bs' = concat (map (fun b => filter (fun p => mx <? tm p) (live b)) bs).
  Proof.
    induction 1 as [|b b' r r' Hs _ IH]; [reflexivity|]. unfold pendl in *. cbn [map concat].
    rewrite IH, (stepped_live mx b b' Hs). reflexivity.
  Qed.

  Lemma stepped_bok mx : forall bs bs' : list blk, Forall2 (stepped mx) bs bs' -> Forall (bok mx) bs'.
  Proof. induction 1 as [|b b' r r' Hs _ IH]; constructor; auto. apply (st_ok mx b b' Hs). Qed.

  Lemma stepped_adjP mx : forall (r r' : list blk) b b', stepped mx b b' -> Forall2 (stepped mx) r r' ->
    adjP b r -> adjP b' r'.
  Proof.
    induction r as [|y r IH]; intros r' b b' Sb F Ha; inversion F as [|? y' ? r2 Sy Fr]; subst; cbn; [auto|].
    destruct Ha as [H1 H2]. split; [|eapply IH; eauto].
    rewrite (st_min mx b b' Sb), (st_max mx y y' Sy). exact H1.
  Qed.

  Lemma stepped_adj mx (bs bs' : list blk) : Forall2 (stepped mx) bs bs' -> adj bs -> adj bs'.
  Proof. intros F Ha. destruct F as [|b b' r r' Sb Fr]; [exact Ha|]. cbn in *. eapply stepped_adjP; eauto. Qed.

  (** one iteration of the dedup loop *)
  Lemma dedup_iter L pre mv (first : blk) rest :
    dinv L (pre ++ mv) (first :: rest) -> adj (first :: rest) -> is_read first = false ->
    exists m' M' bs2 mv2,
      window (first :: rest) (b_min first, b_max first) = (m', M') /\
      dedup_pass (first :: rest) m' M' mv = (bs2, M', mv2) /\
      L < M' /\ dinv M' (pre ++ mv2) bs2 /\ adj bs2.
  Proof.
    intros [B S Le Sp] Ha R.
    destruct (window_first L first rest B Ha R) as [m' [M' [Ew [HL [HmM Hall]]]]].
    apply ssorted_app_inv in S as [Spre [Smv Hlt]].
    destruct (dedup_pass_spec L m' M' (first :: rest) mv B) as [bs2 [mv2 [Ep [F2 [S2 [Hl Hi]]]]]];
      [lia|intros b p Hb Hp; eapply Hall; eauto|exact Smv|].
    exists m', M', bs2, mv2. split; [exact Ew|]. split; [exact Ep|]. split; [exact HL|].
    assert (Hcontrib : forall b p, In b (first :: rest) -> In p (contrib M' b) -> L < tm p <= M').
    { intros b p Hb Hp. unfold contrib in Hp. apply filter_In in Hp as [Hp Hle].
      apply live_In in Hp. rewrite Forall_forall in B. pose proof (ok_unr L b (B b Hb) p Hp). lia. }
    split; [split|eapply stepped_adj; eauto].
    - eapply stepped_bok; eauto.
    - apply ssorted_app; auto. intros p q Hp Hq. destruct (Hi q Hq) as [Hq'|[b [Hb Hq']]].
      + apply Hlt; auto.
      + pose proof (Hcontrib b q Hb Hq'). pose proof (Le p (in_or_app _ _ _ (or_introl Hp))). lia.
    - intros p Hp. apply in_app_or in Hp as [Hp|Hp].
      + pose proof (Le p (in_or_app _ _ _ (or_introl Hp))). lia.
      + destruct (Hi p Hp) as [Hq'|[b [Hb Hq']]].
        * pose proof (Le p (in_or_app _ _ _ (or_intror Hq'))). lia.
        * pose proof (Hcontrib b p Hb Hq'). lia.
    - intro t. rewrite Sp, !lookup_app, Hl.
      assert (HX : lookup_last t (concat (map (contrib M') (first :: rest)))
                   = if t <=? M' then plast t (first :: rest) else None)
        by (apply (concat_filter_lookup (fun t => t <=? M') t live)).
      assert (HY : plast t bs2 = if M' <? t then plast t (first :: rest) else None).
      { unfold plast at 1. rewrite (stepped_pendl M' _ _ F2).
        apply (concat_filter_lookup (fun t => M' <? t) t live). }
      rewrite HX, HY.
      destruct (t <=? M') eqn:Et.
      + replace (M' <? t) with false by lia. rewrite orelse_none_r.
        destruct (lookup t pre); [reflexivity|]. cbn [orelse].
        destruct (plast t (first :: rest)) as [v|] eqn:Ep1; [|rewrite orelse_none_r; reflexivity].
        cbn [orelse]. destruct (lookup t mv) as [w|] eqn:Em; [|reflexivity]. exfalso.
        apply lookup_Some_In in Em. pose proof (Le _ (in_or_app _ _ _ (or_intror Em))) as H1.
        unfold plast in Ep1. apply lookup_last_Some in Ep1. unfold pendl in Ep1.
        apply in_concat in Ep1 as [l [Hl1 Hl2]]. apply in_map_iff in Hl1 as [b [<- Hb]].
        apply live_In in Hl2. rewrite Forall_forall in B. pose proof (ok_unr L b (B b Hb) _ Hl2) as H2.
        unfold tm in *; cbn in *. lia.
      + replace (M' <? t) with true by lia. cbn [orelse]. reflexivity.
  Qed.

  Lemma dedup_loop_spec pre : forall fuel L bs mv bs' mv',
    dinv L (pre ++ mv) bs -> adj bs ->
    dedup_loop fuel size bs mv = Some (bs', mv') ->
    exists L', L <= L' /\ dinv L' (pre ++ mv') bs' /\ ((size <= length mv')%nat \/ bs' = []).
  Proof.
    induction fuel as [|f IH]; intros L bs mv bs' mv' Hd Ha; cbn [dedup_loop].
    - destruct ((length mv <? size)%nat && negb (Nat.eqb (length bs) 0)) eqn:E; [discriminate|].
      intros [= <- <-]. exists L. split; [lia|]. split; [exact Hd|].
      destruct (length mv <? size)%nat eqn:E1; [|left; lia]. right.
      destruct bs; [reflexivity|discriminate].
    - destruct ((length mv <? size)%nat && negb (Nat.eqb (length bs) 0)) eqn:E.
      + pose proof (dinv_drop_read L _ bs Hd) as Hd1. pose proof (drop_read_adj bs Ha) as Ha1.
        destruct (drop_read bs) as [|first rest] eqn:Edr.
        * intros [= <- <-]. exists L. split; [lia|]. split; [exact Hd1|right; reflexivity].
        * pose proof (drop_read_head bs first rest Edr) as R.
          destruct (dedup_iter L pre mv first rest Hd1 Ha1 R) as [m' [M' [bs2 [mv2 [Ew [Ep [HL [Hd2 Ha2]]]]]]]].
          rewrite Ew, Ep. intro Hloop.
          destruct (IH M' bs2 mv2 bs' mv' Hd2 Ha2 Hloop) as [L' [HL' [Hd' Hend]]].
          exists L'. split; [lia|]. split; assumption.
      + intros [= <- <-]. exists L. split; [lia|]. split; [exact Hd|].
        destruct (length mv <? size)%nat eqn:E1; [|left; lia]. right.
        destruct bs; [reflexivity|discriminate].
  Qed.
End Dedup.
