package storage

// Demonstration for seeded change C21/m1.
//
// A real tsdb.Store with three shards (three consecutive shard groups) is
// queried through Store.ReadFilter and Store.ReadGroup.  Series cpu,host=B has
// points in shard 1 and shard 3 but none in shard 2; shard 2 nevertheless
// knows measurement "cpu" / field "v" (because of cpu,host=A), so its cursor
// iterator hands out a non-nil cursor that yields no points.  Every stored
// point in range must be returned exactly once, in time order.

import (
	"context"
	"fmt"
	"path/filepath"
	"reflect"
	"sort"
	"testing"
	"time"

	"github.com/influxdata/influxdb/v2/kit/platform"
	"github.com/influxdata/influxdb/v2/models"
	"github.com/influxdata/influxdb/v2/storage/reads/datatypes"
	"github.com/influxdata/influxdb/v2/tsdb"
	"github.com/influxdata/influxdb/v2/tsdb/cursors"
	_ "github.com/influxdata/influxdb/v2/tsdb/engine"
	_ "github.com/influxdata/influxdb/v2/tsdb/index"
	"github.com/influxdata/influxdb/v2/v1/services/meta"
	"google.golang.org/protobuf/types/known/anypb"
)

type c21MetaClient struct {
	db     string
	groups []meta.ShardGroupInfo
}

func (m *c21MetaClient) Database(name string) *meta.DatabaseInfo {
	if name != m.db {
		return nil
	}
	return &meta.DatabaseInfo{
		Name:                   m.db,
		DefaultRetentionPolicy: meta.DefaultRetentionPolicyName,
		RetentionPolicies: []meta.RetentionPolicyInfo{{
			Name:        meta.DefaultRetentionPolicyName,
			ShardGroups: m.groups,
		}},
	}
}

func (m *c21MetaClient) ShardGroupsByTimeRange(database, policy string, min, max time.Time) ([]meta.ShardGroupInfo, error) {
	var out []meta.ShardGroupInfo
	for _, g := range m.groups {
		if g.Overlaps(min, max) {
			out = append(out, g)
		}
	}
	return out, nil
}

func c21DrainCursor(t *testing.T, cur cursors.Cursor) []string {
	t.Helper()
	var out []string
	switch c := cur.(type) {
	case cursors.IntegerArrayCursor:
		for a := c.Next(); a.Len() > 0; a = c.Next() {
			for i := range a.Timestamps {
				out = append(out, fmt.Sprintf("%d=%d", a.Timestamps[i]/int64(time.Second), a.Values[i]))
			}
		}
	default:
		t.Fatalf("unexpected cursor type %T", cur)
	}
	cur.Close()
	return out
}

func TestC21M1_MultiShardReadReturnsAllPoints(t *testing.T) {
	const (
		orgID    = 0x1111
		bucketID = 0x2222
		shardDur = 100 * time.Second
	)
	db := platform.ID(bucketID).String()
	rp := meta.DefaultRetentionPolicyName

	root := t.TempDir()
	ts := tsdb.NewStore(filepath.Join(root, "data"))
	ts.EngineOptions.Config.WALDir = filepath.Join(root, "wal")
	if err := ts.Open(context.Background()); err != nil {
		t.Fatal(err)
	}
	defer ts.Close()

	mc := &c21MetaClient{db: db}
	for i := 1; i <= 3; i++ {
		if err := ts.CreateShard(context.Background(), db, rp, uint64(i), true); err != nil {
			t.Fatal(err)
		}
		mc.groups = append(mc.groups, meta.ShardGroupInfo{
			ID:        uint64(i),
			StartTime: time.Unix(0, 0).Add(time.Duration(i-1) * shardDur),
			EndTime:   time.Unix(0, 0).Add(time.Duration(i) * shardDur),
			Shards:    []meta.ShardInfo{{ID: uint64(i)}},
		})
	}

	write := func(shard uint64, lp string) {
		pts, err := models.ParsePointsWithPrecision([]byte(lp), time.Time{}, "s")
		if err != nil {
			t.Fatal(err)
		}
		if err := ts.WriteToShard(context.Background(), shard, pts); err != nil {
			t.Fatal(err)
		}
	}
	write(1, "cpu,host=A v=1i 10\ncpu,host=A v=2i 50\ncpu,host=B v=11i 20\ncpu,host=B v=12i 60\n")
	write(2, "cpu,host=A v=3i 110\ncpu,host=A v=4i 150\n") // host=B silent during shard 2
	write(3, "cpu,host=A v=5i 210\ncpu,host=B v=13i 220\ncpu,host=B v=14i 260\n")

	want := map[string][]string{
		"_field=v,_measurement=cpu,host=A": {"10=1", "50=2", "110=3", "150=4", "210=5"},
		"_field=v,_measurement=cpu,host=B": {"20=11", "60=12", "220=13", "260=14"},
	}

	store := NewStore(ts, mc)
	src, err := anypb.New(&ReadSource{OrgID: orgID, BucketID: bucketID})
	if err != nil {
		t.Fatal(err)
	}
	rng := &datatypes.TimestampRange{Start: 0, End: int64(3 * shardDur)}

	tagsKey := func(tags models.Tags) string {
		var s []string
		for _, tg := range tags {
			s = append(s, string(tg.Key)+"="+string(tg.Value))
		}
		sort.Strings(s)
		k := ""
		for i, e := range s {
			if i > 0 {
				k += ","
			}
			k += e
		}
		return k
	}

	t.Run("ReadFilter", func(t *testing.T) {
		rs, err := store.ReadFilter(context.Background(), &datatypes.ReadFilterRequest{ReadSource: src, Range: rng})
		if err != nil {
			t.Fatal(err)
		}
		if rs == nil {
			t.Fatal("nil result set")
		}
		defer rs.Close()
		got := map[string][]string{}
		for rs.Next() {
			cur := rs.Cursor()
			if cur == nil {
				continue
			}
			k := tagsKey(rs.Tags())
			if _, dup := got[k]; dup {
				t.Errorf("series %s returned twice", k)
			}
			got[k] = c21DrainCursor(t, cur)
		}
		if !reflect.DeepEqual(got, want) {
			t.Errorf("filter read lost or duplicated points\n got: %v\nwant: %v", got, want)
		}
	})

	t.Run("ReadGroup", func(t *testing.T) {
		grs, err := store.ReadGroup(context.Background(), &datatypes.ReadGroupRequest{
			ReadSource: src,
			Range:      &datatypes.TimestampRange{Start: rng.Start, End: rng.End},
			Group:      datatypes.ReadGroupRequest_GroupBy,
			GroupKeys:  []string{"host"},
		})
		if err != nil {
			t.Fatal(err)
		}
		if grs == nil {
			t.Fatal("nil group result set")
		}
		defer grs.Close()
		got := map[string][]string{}
		var order []string
		for gc := grs.Next(); gc != nil; gc = grs.Next() {
			pk := string(gc.PartitionKeyVals()[0])
			order = append(order, pk)
			for gc.Next() {
				cur := gc.Cursor()
				if cur == nil {
					continue
				}
				k := tagsKey(gc.Tags())
				if h := string(gc.Tags().Get([]byte("host"))); h != pk {
					t.Errorf("series %s in group %q", k, pk)
				}
				if _, dup := got[k]; dup {
					t.Errorf("series %s returned twice", k)
				}
				got[k] = c21DrainCursor(t, cur)
			}
			gc.Close()
		}
		if !reflect.DeepEqual(order, []string{"A", "B"}) {
			t.Errorf("group order = %v", order)
		}
		if !reflect.DeepEqual(got, want) {
			t.Errorf("group read lost or duplicated points\n got: %v\nwant: %v", got, want)
		}
	})
}
