(** C05 — Compaction plans never reorder data or double-book files.

    Mirror of [DefaultPlanner] in /repo/tsdb/engine/tsm1/compact.go:
    [tsmGeneration.level/size/hasTombstones], [TsmGenerations.level/chunk],
    [generationsFullyCompacted], [groupAdjacentGenerations], [PlanLevel],
    [PlanOptimize], [Plan] (full branch and level-4 branch), [isInUse],
    [acquire], [Release], [ForceFull].

    A TSM file path is a number (the driver names file [gen*1000+seq] as
    "%09d-%09d.tsm", so that Go's [sort.Strings] on the names is the numeric order
    on the numbers).  In this version of the code the planner receives the
    generation list as an ARGUMENT of every call ([FindGenerations] is called by
    the engine), so a call is [(generations, op)].  Time enters only through three
    comparisons which are boolean inputs of the call:
      - [Plan]:         cold   = compactFullWriteColdDuration > 0 && time.Since(lastWrite) > it
                        recent = not (lastPlanCheck.After(FileStore.LastModified())) once lastPlanCheck is set
      - [PlanOptimize]: cold   = not (time.Since(lastWrite) < compactFullWriteColdDuration)
    Sizes are unbounded [N] (Go: uint32 per file, summed in uint64 — no wrap below 2^32 files).
    No proofs in this file. *)
From Verif Require Import Base.Prelude.
From Coq Require Import Sorting.Mergesort Orders.
Local Open Scope N_scope.

Record fstat := mkF { f_path : N; f_seq : N; f_size : N; f_fbc : N; f_tomb : bool }.
Record gen := mkG { g_id : N; g_files : list fstat }.

Definition MaxTSMFileSize : N := 2147483648.          (* tsdb.MaxTSMFileSize = 2048*1024*1024 *)
Definition DefaultMaxPointsPerBlock : N := 1000.      (* tsdb.DefaultMaxPointsPerBlock *)

(** ---- tsmGeneration / TsmGenerations helpers ---- *)
Definition g_size (g : gen) : N := fold_left (fun n f => n + f_size f) (g_files g) 0.

(** [level()]: files[0].Sequence if < 4, else 4.  (Go panics on an empty generation;
    [FindGenerations] never builds one.  The model answers 0.) *)
Definition g_level (g : gen) : N :=
  match g_files g with
  | [] => 0
  | f :: _ => if f_seq f <? 4 then f_seq f else 4
  end.

Definition g_fbc0 (g : gen) : N :=
  match g_files g with [] => 0 | f :: _ => f_fbc f end.

Definition g_tomb (g : gen) : bool := existsb f_tomb (g_files g).
Definition gs_tomb (gs : list gen) : bool := existsb g_tomb gs.
Definition gs_level (gs : list gen) : N := fold_left (fun l g => N.max l (g_level g)) gs 0.

Definition g_paths (g : gen) : list N := map f_path (g_files g).
Definition gs_paths (gs : list gen) : list N := flat_map g_paths gs.

Definition len {A} (l : list A) : N := N.of_nat (length l).
Definition is_nil {A} (l : list A) : bool := match l with [] => true | _ => false end.

(** [TsmGenerations.chunk(size)] — fuel = length of the list (enough when size >= 1). *)
Fixpoint chunk_f {A} (fuel : nat) (size : nat) (l : list A) : list (list A) :=
  match fuel with
  | O => []
  | S k => match l with
           | [] => []
           | _ => firstn size l :: chunk_f k size (skipn size l)
           end
  end.
Definition chunk {A} (size : nat) (l : list A) : list (list A) := chunk_f (length l) size l.

(** [sort.Strings] on the zero-padded names = numeric sort on path numbers. *)
Module NOrder <: TotalLeBool.
  Definition t := N.
  Definition leb := N.leb.
  Lemma leb_total : forall x y, leb x y = true \/ leb y x = true.
  Proof. intros x y. unfold leb. rewrite !N.leb_le. lia. Qed.
End NOrder.
Module NSort := Sort NOrder.
Definition sort_paths (l : list N) : list N := NSort.sort l.

(** ---- planner state ---- *)
Record pstate := { in_use : list N; force_full : bool; checked : bool }.
Definition init : pstate := {| in_use := []; force_full := false; checked := false |}.

Definition mem (p : N) (s : list N) : bool := existsb (N.eqb p) s.
Definition add (p : N) (s : list N) : list N := if mem p s then s else p :: s.
Definition add_all (ps : list N) (s : list N) : list N := fold_left (fun s p => add p s) ps s.
Definition remove_all (ps : list N) (s : list N) : list N := filter (fun q => negb (mem q ps)) s.

(** [isInUse]: some file of the generation is in filesInUse. *)
Definition is_in_use (iu : list N) (g : gen) : bool :=
  existsb (fun f => mem (f_path f) iu) (g_files g).

(** [acquire]: all-or-nothing. *)
Definition acquire (st : pstate) (groups : list (list N)) : bool * pstate :=
  if is_nil groups then (true, st)
  else if existsb (fun p => mem p (in_use st)) (concat groups) then (false, st)
  else (true, {| in_use := add_all (concat groups) (in_use st);
                 force_full := force_full st; checked := checked st |}).

(** The tail shared by the three planners: [if !c.acquire(g) { return nil }; return g]. *)
Definition finish (st : pstate) (groups : list (list N)) : pstate * list (list N) :=
  let '(ok, st') := acquire st groups in
  if ok then (st', groups) else (st', []).

(** ---- groupAdjacentGenerations ---- *)
Definition flush (cur : list gen) : list (list gen) := if is_nil cur then [] else [cur].

Fixpoint group_adjacent (iu : list N) (test : N -> N -> bool) (gens cur : list gen)
  : list (list gen) :=
  match gens with
  | [] => flush cur
  | g :: rest =>
      if is_in_use iu g then flush cur ++ group_adjacent iu test rest []
      else
        let orphan := match rest with
                      | g' :: _ => g_level g <? g_level g'
                      | [] => false
                      end in
        if is_nil cur || (test (gs_level cur) (g_level g) || orphan)
        then group_adjacent iu test rest (cur ++ [g])
        else flush cur ++ group_adjacent iu test rest [g]
  end.

(** ---- PlanLevel ---- *)
Definition level_chunks (level : N) (minG : nat) (grp : list gen) (later : list (list gen))
  : list (list gen) :=
  flat_map (fun ch =>
      if (Nat.ltb (length ch) minG) && negb (gs_tomb ch)
      then (if existsb (fun g' => level <=? gs_level g') later then [ch] else [])
      else [ch])
    (chunk minG grp).

Fixpoint level_groups (level : N) (minG : nat) (groups : list (list gen)) : list (list gen) :=
  match groups with
  | [] => []
  | grp :: later =>
      (if gs_level grp =? level then level_chunks level minG grp later else [])
      ++ level_groups level minG later
  end.

Definition plan_level_gens (st : pstate) (gens : list gen) (level : N) : list (list gen) :=
  if force_full st then []
  else if (len gens <=? 1) && negb (gs_tomb gens) then []
  else
    let groups := group_adjacent (in_use st) N.eqb gens [] in
    let minG := if level =? 1 then 8%nat else 4%nat in
    level_groups level minG groups.

Definition plan_level (st : pstate) (gens : list gen) (level : N) : pstate * list (list N) :=
  finish st (map gs_paths (plan_level_gens st gens level)).

(** ---- generationsFullyCompacted ---- *)
Definition fully_compacted (gens : list gen) : bool :=
  if 1 <? len gens then false
  else if gs_tomb gens then false
  else match gens with
       | [g] =>
           if 1 <? len (g_files g) then
             let aggr := len (filter (fun f => DefaultMaxPointsPerBlock <? f_fbc f) (g_files g)) in
             let under := len (filter (fun f => f_size f <? MaxTSMFileSize) (g_files g)) in
             if aggr =? len (g_files g) then true
             else if (1 <? under) && (aggr <? len (g_files g)) then false
             else true
           else true
       | _ => true
       end.

(** ---- PlanOptimize ---- *)
Definition plan_optimize_gens (st : pstate) (gens : list gen) (cold : bool) : list (list gen) :=
  if force_full st then []
  else if fully_compacted gens || negb cold then []
  else
    let groups := group_adjacent (in_use st) (fun cur cand => cand <=? cur) gens [] in
    filter (fun grp => ((gs_level grp =? 4) || (len gens =? 1)) && negb (is_nil (gs_paths grp)))
           groups.

Definition plan_optimize (st : pstate) (gens : list gen) (cold : bool)
  : pstate * list (list N) :=
  finish st (map gs_paths (plan_optimize_gens st gens cold)).

(** ---- Plan, full-compaction branch ---- *)
(** Generations kept by the loop: not in use, and not "skipped"; [n] = len(generations). *)
Fixpoint full_kept (iu : list N) (n : N) (gens : list gen) : list gen :=
  match gens with
  | [] => []
  | g :: rest =>
      if is_in_use iu g then full_kept iu n rest
      else
        let skip0 := (2 <? n) && (MaxTSMFileSize <? g_size g)
                     && (DefaultMaxPointsPerBlock <=? g_fbc0 g) && negb (g_tomb g) in
        let skip := match rest with
                    | g' :: _ => if g_level g' <=? 3 then false else skip0
                    | [] => skip0
                    end in
        if skip then full_kept iu n rest else g :: full_kept iu n rest
  end.

Definition plan_full_gens (st : pstate) (gens : list gen) : list (list gen) :=
  let kept := full_kept (in_use st) (len gens) gens in
  if (len (gs_paths kept) <=? 1) || (len kept <=? 1) then [] else [kept].

(** ---- Plan, level-4 branch ---- *)
(** [end]: index+1 of the last generation of level >= 4, else 0. *)
Fixpoint find_end (gens : list gen) (i : nat) (e : nat) : nat :=
  match gens with
  | [] => e
  | g :: rest => find_end rest (S i) (if 4 <=? g_level g then S i else e)
  end.

(** [start] loop over generations[:end]. *)
Fixpoint find_start (gs : list gen) (i : nat) (prev : option N) (hasT : bool) (start : nat) : nat :=
  match gs with
  | [] => start
  | g :: rest =>
      let hasT' := hasT || g_tomb g in
      if hasT' then find_start rest (S i) (Some (g_size g)) hasT' start
      else
        let start1 := if (MaxTSMFileSize <? g_size g) && (DefaultMaxPointsPerBlock <=? g_fbc0 g)
                      then S i else start in
        match prev with
        | Some ps => if g_size g * 2 <? ps then i
                     else find_start rest (S i) (Some (g_size g)) hasT' start1
        | None => find_start rest (S i) (Some (g_size g)) hasT' start1
        end
  end.

Definition plan_big (g : gen) : bool :=
  (MaxTSMFileSize <=? g_size g) && (DefaultMaxPointsPerBlock <=? g_fbc0 g) && negb (g_tomb g).

(** Inner [for j := 0; j < step && ...] loop: up to [n] generations, stopping at the first
    in-use or maxed-out one. *)
Fixpoint take_group (iu : list N) (n : nat) (l : list gen) : list gen :=
  match n, l with
  | S k, g :: r => if is_in_use iu g || plan_big g then [] else g :: take_group iu k r
  | _, _ => []
  end.

Fixpoint plan_groups_f (iu : list N) (fuel : nat) (l : list gen) : list (list gen) :=
  match fuel with
  | O => []
  | S k => match l with
           | [] => []
           | _ :: tl =>
               let cg := take_group iu 4 l in
               if is_nil cg then plan_groups_f iu k tl
               else cg :: plan_groups_f iu k (skipn (length cg) l)
           end
  end.

Definition plan_l4_window (gens : list gen) : list gen :=
  let e := find_end gens 0 0 in
  let s := find_start (firstn e gens) 0 None false 0 in
  skipn s (firstn e gens).

Definition plan_l4_gens (st : pstate) (gens : list gen) : list (list gen) :=
  if (len gens <=? 1) && negb (gs_tomb gens) then []
  else
    let w := plan_l4_window gens in
    let groups := plan_groups_f (in_use st) (length w) w in
    filter (fun grp => negb ((len grp <? 4) && negb (gs_tomb grp))) groups.

Definition set_ff (st : pstate) (b : bool) : pstate :=
  {| in_use := in_use st; force_full := b; checked := checked st |}.
Definition set_checked (st : pstate) : pstate :=
  {| in_use := in_use st; force_full := force_full st; checked := true |}.

Definition plan_is_full (st : pstate) (gens : list gen) (cold : bool) : bool :=
  force_full st || (cold && (1 <? len gens)).

Definition plan (st : pstate) (gens : list gen) (cold recent : bool) : pstate * list (list N) :=
  if plan_is_full st gens cold then
    let st1 := set_ff st false in
    finish st1 (map (fun grp => sort_paths (gs_paths grp)) (plan_full_gens st1 gens))
  else if (checked st && negb recent) && negb (gs_tomb gens) then (st, [])
  else
    let st1 := set_checked st in
    finish st1 (map (fun grp => sort_paths (gs_paths grp)) (plan_l4_gens st1 gens)).

(** ---- Release / ForceFull ---- *)
Definition release (st : pstate) (groups : list (list N)) : pstate :=
  {| in_use := remove_all (concat groups) (in_use st);
     force_full := force_full st; checked := checked st |}.

Inductive op :=
| OPlanLevel (level : N)
| OPlan (cold recent : bool)
| OOptimize (cold : bool)
| OForceFull
| ORelease (groups : list (list N)).

Definition is_plan_op (o : op) : bool :=
  match o with OPlanLevel _ | OPlan _ _ | OOptimize _ => true | _ => false end.

(** One planner call on the generation list [gens]: new state and returned groups. *)
Definition step (st : pstate) (gens : list gen) (o : op) : pstate * list (list N) :=
  match o with
  | OPlanLevel l => plan_level st gens l
  | OPlan c r => plan st gens c r
  | OOptimize c => plan_optimize st gens c
  | OForceFull => (set_ff st true, [])
  | ORelease gs => (release st gs, [])
  end.

(** ================= the property's oracle (independent of the mirror) ================= *)

(** [group] consists of whole generations of [gens] that are contiguous in [gens]. *)
Fixpoint all_false (l : list bool) : bool :=
  match l with [] => true | b :: r => negb b && all_false r end.
Fixpoint drop_true (l : list bool) : list bool :=
  match l with true :: r => drop_true r | _ => l end.
Fixpoint drop_false (l : list bool) : list bool :=
  match l with false :: r => drop_false r | _ => l end.
(** false* true* false* *)
Definition one_run (l : list bool) : bool := all_false (drop_true (drop_false l)).

Definition touched (group : list N) (g : gen) : bool :=
  existsb (fun f => mem (f_path f) group) (g_files g).
Definition whole (group : list N) (g : gen) : bool :=
  forallb (fun f => mem (f_path f) group) (g_files g).

Definition contiguous_b (gens : list gen) (group : list N) : bool :=
  forallb (fun p => mem p (gs_paths gens)) group
  && forallb (fun g => implb (touched group g) (whole group g)) gens
  && one_run (map (touched group) gens).

Fixpoint nodup_b (l : list N) : bool :=
  match l with [] => true | x :: r => negb (mem x r) && nodup_b r end.

(** Oracle for one planning response, given the set [held] of files handed out by
    earlier responses and not released since (tracked from the IMPLEMENTATION's answers). *)
Definition response_disjoint_b (held : list N) (groups : list (list N)) : bool :=
  forallb (fun p => negb (mem p held)) (concat groups) && nodup_b (concat groups).
Definition response_contig_b (gens : list gen) (groups : list (list N)) : bool :=
  forallb (contiguous_b gens) groups.

(** ================= correspondence case ================= *)
(** [c_snaps]: the file-store snapshots (generation lists) of the history;
    each call: (snapshot index, op, groups returned by the implementation, InUseCount after). *)
Record call := mkK { k_snap : nat; k_op : op; k_groups : list (list N); k_inuse : N }.
Record case := mkC { c_snaps : list (list gen); c_calls : list call }.

Definition groups_eqb := list_eqb (list_eqb N.eqb).

(** Replays the history: [st] = model state, [held] = oracle's held set computed from the
    implementation's answers.  Returns (same, ok). *)
Fixpoint replay (snaps : list (list gen)) (st : pstate) (held : list N) (cs : list call)
  : bool * bool :=
  match cs with
  | [] => (true, true)
  | k :: r =>
      let gens := nth (k_snap k) snaps [] in
      let '(st', mg) := step st gens (k_op k) in
      let same1 := groups_eqb (k_groups k) mg && (k_inuse k =? len (in_use st')) in
      let held' := match k_op k with
                   | ORelease gs => remove_all (concat gs) held
                   | _ => add_all (concat (k_groups k)) held
                   end in
      let ok1 := (if is_plan_op (k_op k)
                  then response_disjoint_b held (k_groups k) && response_contig_b gens (k_groups k)
                  else is_nil (k_groups k))
                 && (k_inuse k =? len held') in
      let '(same, ok) := replay snaps st' held' r in
      (same1 && same, ok1 && ok)
  end.

Definition check (c : case) : verdict :=
  let '(same, ok) := replay (c_snaps c) init [] (c_calls c) in
  judge same ok.
