(** C42 — Metadata queries list exactly the live names, sorted and authorized.
    Property theorems only.

    FULL STATEMENT (not provable, see the _refuted theorems): for every multi-shard state,
    every authorizer and every condition, Store.MeasurementNames / TagKeys / TagValues return
    exactly the sorted, duplicate-free names / keys / values (grouped by measurement) of the
    live, authorized, condition-matching series of the selected shards:
      measurement_names shs rm a cond = Some (spec_names shs rm a cond)
      keep_nonempty (tag_keys ...)    = spec_keys ...
      tag_values ...                  = Some (spec_values ...).
    The faithful model refutes it for an OPEN authorizer when the answer is read from the
    index's key/value listings (stale after series deletes).  Proved instead, for ALL shard
    lists, authorizers and regex oracles: the k-way merge, SHOW MEASUREMENTS without condition,
    tag values under a tag filter, and the listings under any fine-grained authorizer. *)
From Coq Require Import String.
From Verif Require Import Base.Prelude Base.C42_strord Model.C15 Proofs.C15 Model.C42 Proofs.C42.
Open Scope string_scope.

(** The mirror of measurementMergeIterator / tagKeyMergeIterator / tagValueMergeIterator
    (k buffers, repeatedly emit the lowest and clear all equal buffers) on strictly sorted
    inputs = the sorted duplicate-free union; any number of inputs of any length. *)
Theorem C42_merge_sorted_lists_correct :
  forall ls, Forall SSorted ls -> kmerge_all ls = ssort (concat ls).
Proof. exact merge_sorted_lists_correct. Qed.
Print Assumptions C42_merge_sorted_lists_correct.

Theorem C42_merge_sorted_nodup_exact :
  forall ls, Forall SSorted ls ->
    SSorted (kmerge_all ls) /\ NoDup (kmerge_all ls) /\
    forall x, In x (kmerge_all ls) <-> exists l, In l ls /\ In x l.
Proof.
  intros ls H. split; [apply kmerge_all_SSorted, H|]. split; [apply SSorted_NoDup, kmerge_all_SSorted, H|].
  intro x. apply (kmerge_all_In ls x H).
Qed.
Print Assumptions C42_merge_sorted_nodup_exact.

(** SHOW MEASUREMENTS (no condition), any shards, any authorizer (open or fine): exactly the
    sorted distinct names having >= 1 live authorized series.  A series is live in the selection
    iff some selected shard created it and did not delete it. *)
Theorem C42_names_exact_sorted_nodup :
  forall (shs : list shard) (rm : N -> string -> bool) (a : authz),
  exists ns, measurement_names shs rm a None = Some ns /\ SSorted ns /\ NoDup ns /\
    forall m, In m ns <-> exists s, In s (is_live shs) /\ s_name s = m /\ auth_ok a s = true.
Proof. exact names_exact_sorted_nodup. Qed.
Print Assumptions C42_names_exact_sorted_nodup.

Theorem C42_live_series_characterisation :
  forall shs s, In s (is_live shs) <-> exists sh, In sh shs /\ In s (sh_all sh) /\ ~ In s (sh_dead sh).
Proof. exact is_live_In. Qed.
Print Assumptions C42_live_series_characterisation.

(** SHOW TAG VALUES ... WHERE <tag filter> (and SHOW TAG KEYS ... WHERE, which keeps the keys
    with a non-empty value list): for every key the values are exactly the sorted distinct values
    of the live, authorized series of the measurement that satisfy the filter (C15 semantics) —
    any authorizer, any stale listing. *)
Theorem C42_values_filter_exact_sorted_nodup :
  forall shs rm a m keys e, wf (is_live shs) -> tag_only N e = true ->
  Forall2 (fun k vs => SSorted vs /\ NoDup vs /\
             forall v, In v vs <-> exists s, In s (is_live shs) /\ s_name s = m /\ auth_ok a s = true /\
                                             eval N rm m e s = true /\ tag_get (s_tags s) k = Some v)
          keys (key_values shs rm a m keys (Some e)).
Proof. exact values_filter_exact_sorted_nodup. Qed.
Print Assumptions C42_values_filter_exact_sorted_nodup.

(** Listings without a filter under ANY fine-grained authorizer [f]: values and keys are exact
    (a name all of whose series are hidden or deleted is never returned). *)
Theorem C42_values_fine_auth_exact_partial :
  forall shs rm f m keys,
  Forall2 (fun k vs => SSorted vs /\ NoDup vs /\
             forall v, In v vs <-> exists s, In s (is_live shs) /\ s_name s = m /\ f s = true /\
                                             tag_get (s_tags s) k = Some v)
          keys (key_values shs rm (Some f) m keys None).
Proof. exact values_fine_auth_exact. Qed.
Print Assumptions C42_values_fine_auth_exact_partial.

Theorem C42_keys_fine_auth_exact_partial :
  forall shs rm f m kf,
  let ks := filter (key_authorized shs (Some f) m) (keys_by_filter shs rm m kf) in
  SSorted ks /\ NoDup ks /\
  forall k, In k ks <-> key_match rm kf k = true /\
                        exists s, In s (is_live shs) /\ s_name s = m /\ f s = true /\ has_key k s = true.
Proof. exact keys_fine_auth_exact. Qed.
Print Assumptions C42_keys_fine_auth_exact_partial.

(** REFUTED for the open authorizer (confirmed on the real tsdb.Store, known finding
    store-stale-tag-keys-values-after-series-delete): one shard, m,k1=a and m,k2=a deleted,
    m,k1=b alive. *)
Theorem C42_tag_values_open_auth_refuted :
  exists shs rm kf, tag_values shs rm None None kf None <> Some (spec_values shs rm None None kf None).
Proof.
  exists [w_shard], w_rm, (KEq "k1"). destruct w_values_stale as [-> ->]. discriminate.
Qed.
Print Assumptions C42_tag_values_open_auth_refuted.

Theorem C42_tag_keys_open_auth_refuted :
  exists shs rm r, tag_keys shs rm None None KAll None = Some r /\
                   keep_nonempty r <> spec_keys shs rm None None KAll None.
Proof.
  exists [w_shard], w_rm, [("m", ["k1"; "k2"])]. destruct w_keys_stale as [-> ->].
  split; [reflexivity|]. vm_compute. discriminate.
Qed.
Print Assumptions C42_tag_keys_open_auth_refuted.

Theorem C42_names_by_tag_open_auth_refuted :
  exists shs rm e, positive rm e = true /\
    measurement_names shs rm None (Some e) <> Some (spec_names shs rm None (Some e)).
Proof.
  exists [w_shard], w_rm, (Eq "k2" "a"). split; [reflexivity|].
  destruct w_names_stale as [-> ->]. discriminate.
Qed.
Print Assumptions C42_names_by_tag_open_auth_refuted.

(** Formerly REFUTED (finding tsi-tagvalue-cache-stale-after-series-delete, repaired): a shard
    that dropped n,k1=a while the series lives on in another shard answers exactly from its live
    series, without and with a WHERE filter. *)
Example C42_values_after_series_drop_exact :
  let all := Some (fun _ : series => true) in
  tag_values [w_dropped_shard] w_rm all None (KEq "k1") None
    = Some (spec_values [w_dropped_shard] w_rm all None (KEq "k1") None)
  /\ tag_values [w_dropped_shard] w_rm all None (KEq "k1") (Some (Eq "k1" "a"))
    = Some (spec_values [w_dropped_shard] w_rm all None (KEq "k1") (Some (Eq "k1" "a"))).
Proof. cbv zeta. destruct w_values_after_drop as [-> [-> [-> ->]]]. split; reflexivity. Qed.

(** OBSERVATION: SHOW MEASUREMENTS WHERE a AND b intersects the NAME sets of a and of b
    (InfluxQL's measurement-level meaning), it does not ask for one series matching both. *)
Theorem C42_names_and_is_measurement_level_observation :
  let sh := {| sh_all := [w_s "m" [("k1","a")]; w_s "m" [("k2","b")]]; sh_dead := [] |} in
  measurement_names [sh] w_rm None (Some (And (Eq "k1" "a") (Eq "k2" "b"))) = Some ["m"]
  /\ spec_names [sh] w_rm None (Some (And (Eq "k1" "a") (Eq "k2" "b"))) = [].
Proof. exact w_names_and_is_measurement_level. Qed.
Print Assumptions C42_names_and_is_measurement_level_observation.

(** Non-vacuity: two overlapping shards with a delete in one of them; the merged, authorized
    answers are non-trivial and a fine authorizer that allows everything removes the stale k2. *)
Example C42_nonvacuous :
  let s1 := w_s "m" [("k1","a")] in let s2 := w_s "m" [("k2","b")] in let s3 := w_s "n" [("k1","b")] in
  let shs := [ {| sh_all := [s1; s2]; sh_dead := [s2] |}; {| sh_all := [s3; s1]; sh_dead := [] |} ] in
  measurement_names shs w_rm (Some (fun s => negb (series_eqb s s3))) None = Some ["m"]
  /\ tag_values shs w_rm None None (KIn ["k1"; "k2"]) (Some (Neq "k1" "")) = Some [("m", [("k1","a")]); ("n", [("k1","b")])]
  /\ tag_keys shs w_rm (Some (fun _ => true)) None KAll None = Some [("m", ["k1"]); ("n", ["k1"])]
  /\ wf (is_live shs).
Proof. cbv zeta. repeat split; try (vm_compute; reflexivity). apply wf_b_sound. vm_compute. reflexivity. Qed.
