(** C35 — [UnmarshalBinary (MarshalBinary s)] gives back the sketch (after the [mergeSparse]
    that [MarshalBinary] performs on it), for every well-formed — in particular every
    reachable — sketch: the size bound carried by [wf] makes the 4-byte length fields exact. *)
From Verif Require Import Base.Prelude Model.C35 Proofs.C35_regs_base Proofs.C35_regs_iface
  Proofs.C35_regs_wf.
Local Open Scope N_scope.

Lemma pow_p_bounds p : 4 <= p -> p <= 18 -> 16 <= 2 ^ p /\ 2 ^ p <= 262144.
Proof.
  intros A B. split.
  - change 16 with (2 ^ 4). apply N.pow_le_mono_r; [discriminate|exact A].
  - change 262144 with (2 ^ 18). apply N.pow_le_mono_r; [discriminate|exact B].
Qed.

Lemma k_marshal_dn p d : k_marshal (dn p d) = [2; p; 0] ++ be32 (N.of_nat (length d)) ++ d.
Proof. reflexivity. Qed.

Section WithIface.
Variable I : iface.

Lemma k_marshal_sp p tmp l : asc 0 l ->
  k_marshal (sp p tmp l) =
  let L := merge_keys l tmp in
  [2; p; 1] ++ be32 0 ++ flat_map be32 [] ++ be32 (N.of_nat (length L)) ++ be32 (last L 0)
  ++ be32 (N.of_nat (length (enc_keys 0 L))) ++ enc_keys 0 L.
Proof.
  intro Hl. unfold k_marshal. change (k_sparse (sp p tmp l)) with true. cbv iota.
  rewrite (merge_sparse_sp I) by exact Hl. reflexivity.
Qed.

Lemma unmarshal_sparse p c lst b : 4 <= p -> p <= 18 -> c < two32 -> lst < two32 ->
  N.of_nat (length b) < two32 ->
  k_unmarshal ([2; p; 1] ++ be32 0 ++ flat_map be32 [] ++ be32 c ++ be32 lst
               ++ be32 (N.of_nat (length b)) ++ b)
  = Some {| k_p := p; k_sparse := true; k_tmp := [];
            k_cl := {| cl_count := c; cl_last := lst; cl_b := b |}; k_dense := [] |}.
Proof.
  intros A B Hc Hl Hb. cbn [flat_map app].
  set (R3 := be32 (N.of_nat (length b)) ++ b).
  set (R2 := be32 lst ++ R3). set (R1 := be32 c ++ R2).
  unfold k_unmarshal.
  replace (Nat.ltb (length (2 :: p :: 1 :: be32 0 ++ R1)) 12) with false
    by (symmetry; apply Nat.ltb_ge; unfold R1, R2, R3; cbn [length app be32]; lia).
  change (nth 1 (2 :: p :: 1 :: be32 0 ++ R1) 0) with p.
  change (nth 2 (2 :: p :: 1 :: be32 0 ++ R1) 0) with 1.
  change (skipn 3 (2 :: p :: 1 :: be32 0 ++ R1)) with (be32 0 ++ R1).
  rewrite (i_rd32_be32 I 0 R1) by reflexivity.
  change (N.to_nat 0) with O. change (N.to_nat (0 * 4 + 7)) with 7%nat.
  change (skipn 7 (2 :: p :: 1 :: be32 0 ++ R1)) with R1.
  rewrite (k_new_some p A B). change (1 =? 1) with true. cbv iota. cbn [rd32s fold_left].
  change (skipn 4 R1) with R2. change (skipn 8 R1) with R3. change (skipn 12 R1) with b.
  unfold R1, R2, R3. rewrite !(i_rd32_be32 I) by assumption.
  rewrite Nat2N.id, firstn_all. reflexivity.
Qed.

Lemma unmarshal_dense p d : 4 <= p -> p <= 18 -> N.of_nat (length d) < two32 -> (5 <= length d)%nat ->
  k_unmarshal ([2; p; 0] ++ be32 (N.of_nat (length d)) ++ d) = Some (dn p d).
Proof.
  intros A B Hd L5. cbn [app]. unfold k_unmarshal.
  replace (Nat.ltb (length (2 :: p :: 0 :: be32 (N.of_nat (length d)) ++ d)) 12) with false
    by (symmetry; apply Nat.ltb_ge; cbn [length app be32]; lia).
  change (nth 1 (2 :: p :: 0 :: be32 (N.of_nat (length d)) ++ d) 0) with p.
  change (nth 2 (2 :: p :: 0 :: be32 (N.of_nat (length d)) ++ d) 0) with 0.
  change (skipn 3 (2 :: p :: 0 :: be32 (N.of_nat (length d)) ++ d)) with (be32 (N.of_nat (length d)) ++ d).
  change (skipn 7 (2 :: p :: 0 :: be32 (N.of_nat (length d)) ++ d)) with d.
  rewrite (k_new_some p A B). change (0 =? 1) with false. cbv iota.
  rewrite (i_rd32_be32 I) by assumption. rewrite Nat2N.id, firstn_all. reflexivity.
Qed.

(** * 6. the round trip *)
Theorem marshal_roundtrip s : wf s -> k_unmarshal (k_marshal s) = Some (count_touch s).
Proof.
  intros [W Bd]. destruct (wfs_cases s W) as (A & B & [(tmp & l & E & Ht & Hl)|(d & E & L)]).
  - set (p := k_p s) in *. clearbody p. subst s. specialize (Bd eq_refl).
    rewrite (k_marshal_sp p tmp l Hl), (count_touch_sp I p tmp l Hl). cbv zeta.
    assert (HL : asc 0 (merge_keys l tmp)) by (apply merge_keys_asc; assumption).
    revert Bd. cbn [sp k_cl k_tmp k_p cl_of_keys cl_count]. intro Bd.
    pose proof (merge_keys_length l tmp) as ML.
    pose proof (enc_keys_len_bounds (merge_keys l tmp) 0) as [_ EL].
    pose proof (pow_p_bounds p A B) as [_ PB].
    set (L := merge_keys l tmp) in *. clearbody L.
    apply unmarshal_sparse; try assumption.
    + unfold two32. lia.
    + eapply asc_last; exact HL.
    + unfold two32. lia.
  - set (p := k_p s) in *. clearbody p. subst s. rewrite k_marshal_dn, count_touch_dn.
    pose proof (pow_p_bounds p A B) as [PA PB].
    apply unmarshal_dense; try assumption.
    + rewrite L, N2Nat.id. unfold two32. lia.
    + rewrite L. lia.
Qed.

(** what the round trip preserves *)
Lemma count_obs_touch s : wfs s -> count_obs (count_touch s) = count_obs s.
Proof. intro W. unfold count_obs. rewrite (count_touch_idem I s W). reflexivity. Qed.

Corollary marshal_roundtrip_obs s : wf s ->
  exists s', k_unmarshal (k_marshal s) = Some s' /\ wf s' /\
             k_p s' = k_p s /\ k_sparse s' = k_sparse s /\ regs s' = regs s /\
             count_obs s' = count_obs s.
Proof.
  intro W. exists (count_touch s). split; [apply marshal_roundtrip; exact W|].
  split; [apply (wf_touch I); exact W|]. split; [apply count_touch_p|].
  split; [apply count_touch_sparse|]. split; [apply (regs_touch I), wf_wfs, W|].
  apply count_obs_touch, wf_wfs, W.
Qed.

End WithIface.
