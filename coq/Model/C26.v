(** C26 — Durable queue delivers entries in order, at least once, across crashes.

    Byte-level mirror of /repo/pkg/durablequeue/queue.go and scanner.go.
    A segment file is [{len(8, big endian) body}* footer(8) = pos]; the model keeps
    the file as a list of bytes (Z in [0,256)) together with the in-memory fields
    [pos] and [maxSize] of the Go [segment] struct ([size] is always the file
    length).  Every function below follows the Go function of the same name, branch
    by branch, including the error results of short reads ([io.EOF] versus
    "bad read"), the uint64/int64 conversions of the corruption tests, the
    zero-length-record skip of the scanner and the bookkeeping of
    [queueTotalSize] (which, as in the code, counts [len+8] per append, the whole
    disk usage on reopen, and subtracts the whole segment file size on trim).

    No proofs in this file. *)
From Verif Require Import Base.Prelude.
Open Scope Z_scope.

Definition len {A} (l : list A) : Z := Z.of_nat (length l).
Definition take {A} (n : Z) (l : list A) := firstn (Z.to_nat n) l.
Definition drop {A} (n : Z) (l : list A) := skipn (Z.to_nat n) l.

(** ** big-endian words *)
Fixpoint encn (n : nat) (z : Z) : list Z :=
  match n with O => [] | S n' => encn n' (z / 256) ++ [z mod 256] end.
Definition enc8 (z : Z) : list Z := encn 8 z.
Definition decn (l : list Z) : Z := fold_left (fun a b => a * 256 + b) l 0.
Definition two63 : Z := 9223372036854775808.
Definition two64 : Z := 18446744073709551616.
(** Go's [int64(u)] for a uint64 [u]. *)
Definition to_i64 (v : Z) : Z := if v <? two63 then v else v - two64.

(** ** file reads: [os.File.Read] into a buffer of [n] bytes at offset [off] *)
Inductive rd := RdOk (bs : list Z) | RdEOF | RdErr.
Definition read_at (d : list Z) (off n : Z) : rd :=
  if off <? 0 then RdErr                       (* Seek to a negative offset fails *)
  else if n <=? 0 then RdOk []                 (* empty buffer: (0, nil) *)
  else if off >=? len d then RdEOF             (* (0, io.EOF) *)
  else if off + n >? len d then RdErr          (* short read: "bad read" *)
  else RdOk (take n (drop off d)).

Record seg := { sd : list Z; spos : Z; smax : Z }.
Definition ssize (s : seg) : Z := len (sd s).
Definition fresh (maxseg : Z) : seg := {| sd := enc8 0; spos := 0; smax := maxseg |}.
Definition seg_empty (s : seg) : bool := spos s =? ssize s - 8.
Definition seg_full (s : seg) : bool := ssize s >=? smax s.

(** ** segment.repair: walk the records from offset 0 *)
Fixpoint repair_walk (fuel : nat) (d : list Z) (off : Z) : option Z :=
  if off =? len d - 8 then Some off else
  match fuel with
  | O => None                                   (* the Go loop would not terminate *)
  | S f =>
      match read_at d off 8 with
      | RdOk bs =>
          let nxt := off + 8 + to_i64 (decn bs) in
          if (nxt <? 0) || (nxt >? len d - 8) then Some off   (* truncate here *)
          else repair_walk f d nxt
      | _ => Some off
      end
  end.
(** Result: the repaired file (footer rewritten to 0; position is always 0). *)
Definition repair (d : list Z) : option (list Z) :=
  match repair_walk (S (length d)) d 0 with
  | None => None
  | Some off => Some (take off d ++ enc8 0)
  end.

(** ** verifyBlockFn used by the driver: mode 0 accepts everything (what
    replications passes); mode 1 rejects empty blocks and blocks whose first byte
    is >= 128. *)
Definition verify (vmode : Z) (blk : list Z) : bool :=
  if vmode =? 0 then true
  else match blk with [] => false | x :: _ => x <? 128 end.

(** ** segment.open on an existing file *)
Inductive ores := OOk (d : list Z) (pos : Z) | OErr | OHang.
(** Second half of [open] (from "Move to the part of the segment where the next
    block to read is"): [again] is the recursive call [l.open()]. *)
Definition open_part2 (again : list Z -> ores) (vmode : Z) (d1 : list Z) (pos : Z) : ores :=
  if pos >=? len d1 - 8 then OOk d1 pos else
  match read_at d1 pos 8 with
  | RdOk bs =>
      let cs := to_i64 (decn bs) in
      if (cs >? len d1 - 8 - pos) || (cs <? 0) then
        match repair d1 with Some d2 => again d2 | None => OHang end
      else
        match read_at d1 (pos + 8) cs with
        | RdOk blk =>
            if verify vmode blk then OOk d1 pos
            else again (take pos d1 ++ enc8 0)
        | _ => match repair d1 with Some d2 => again d2 | None => OHang end
        end
  | _ => OErr
  end.
Fixpoint seg_open_f (fuel : nat) (vmode : Z) (d : list Z) : ores :=
  match fuel with
  | O => OHang
  | S f =>
      if len d <? 8 then OErr else
      let pos0 := decn (drop (len d - 8) d) in
      if pos0 >? len d - 8
      then match repair d with
           | Some d' => open_part2 (seg_open_f f vmode) vmode d' 0
           | None => OHang
           end
      else open_part2 (seg_open_f f vmode) vmode d pos0
  end.
Definition open_fuel : nat := 8.

(** newSegment(path, maxSegmentSize): [None] = error. *)
Inductive nres := NOk (s : seg) | NErr | NHang.
Definition new_segment (vmode maxseg : Z) (d : list Z) : nres :=
  if len d =? 0 then NOk (fresh maxseg) else
  match seg_open_f open_fuel vmode d with
  | OOk d' pos => NOk {| sd := d'; spos := pos; smax := Z.max maxseg (len d) |}
  | OErr => NErr
  | OHang => NHang
  end.

(** ** segment.append: [None] = ErrSegmentFull *)
Definition seg_append (s : seg) (b : list Z) : option seg :=
  if ssize s >? smax s then None else
  Some {| sd := take (ssize s - 8) (sd s) ++ enc8 (len b) ++ b ++ enc8 (spos s);
          spos := spos s;
          smax := if len b >? smax s then len b else smax s |}.

(** ** segment.advanceTo *)
Inductive ares := AOk | AEOF | AErr.
Definition advance_to (s : seg) (pos : Z) : seg * ares :=
  if pos <? spos s then (s, AErr) else
  if pos >? ssize s - 8 then ({| sd := sd s; spos := pos; smax := smax s |}, AEOF) else
  let s' := {| sd := take (ssize s - 8) (sd s) ++ enc8 pos; spos := pos; smax := smax s |} in
  match read_at (sd s') pos 8 with
  | RdOk _ => (s', if pos =? ssize s - 8 then AEOF else AOk)
  | RdEOF => (s', AEOF)
  | RdErr => (s', AErr)
  end.

(** segment.advance (used by Queue.Advance).  Since fix a852c65657 it returns io.EOF
    without touching anything when there is no block left ([pos >= size - 8]); before
    that it read the footer as a record length. *)
Definition seg_advance (s : seg) : seg * ares :=
  if spos s >=? ssize s - 8 then (s, AEOF) else
  match read_at (sd s) (spos s) 8 with
  | RdOk bs => advance_to s (spos s + to_i64 (decn bs) + 8)
  | RdEOF => (s, AEOF)
  | RdErr => (s, AErr)
  end.

(** ** segmentScanner.Next: one call.  Result: the block (if it returned true),
    the new scanner position, and why it returned false otherwise. *)
Inductive sstat := SMore | SEof | SRdEof | SErr.
Fixpoint scan_next (fuel : nat) (s : seg) (pos : Z) : option (list Z) * Z * sstat :=
  if pos =? ssize s - 8 then (None, pos, SEof) else
  match fuel with
  | O => (None, pos, SErr)
  | S f =>
      match read_at (sd s) pos 8 with
      | RdEOF => (None, pos, SRdEof)
      | RdErr => (None, pos, SErr)
      | RdOk bs =>
          let sz := decn bs in
          let pos' := pos + 8 + to_i64 sz in
          if sz =? 0 then scan_next f s pos'
          else if sz >? smax s then (None, pos', SErr)
          else match read_at (sd s) (pos + 8) sz with
               | RdOk blk => (Some blk, pos', SMore)
               | _ => (None, pos', SErr)
               end
      end
  end.
(** Up to [k] calls of Next. *)
Fixpoint scan_n (k : nat) (s : seg) (pos : Z) : list (list Z) * Z * sstat :=
  match k with
  | O => ([], pos, SMore)
  | S k' =>
      match scan_next (S (S (length (sd s)))) s pos with
      | (Some blk, pos', _) =>
          let '(r, p, st) := scan_n k' s pos' in (blk :: r, p, st)
      | (None, pos', st) => ([], pos', st)
      end
  end.

(** ** the queue *)
Record queue := { qsegs : list seg; qtotal : Z; qmaxsize : Z; qmaxseg : Z; qv : Z }.
Definition with_segs (q : queue) (ss : list seg) (t : Z) : queue :=
  {| qsegs := ss; qtotal := t; qmaxsize := qmaxsize q; qmaxseg := qmaxseg q; qv := qv q |}.
Definition qhead (q : queue) : seg := hd (fresh (qmaxseg q)) (qsegs q).
Definition set_head (q : queue) (s : seg) : queue := with_segs q (s :: tl (qsegs q)) (qtotal q).

Definition trim_head (q : queue) (force : bool) : queue :=
  let ss := qsegs q in
  let ss1 := if ((length ss =? 1)%nat && seg_full (qhead q)) || force
             then ss ++ [fresh (qmaxseg q)] else ss in
  if (1 <? length ss1)%nat
  then with_segs q (tl ss1) (qtotal q - ssize (qhead q))
  else with_segs q ss1 (qtotal q).

(** Queue.Append: 0 = ok, 1 = ErrQueueFull, 2 = other error *)
Definition q_append (q : queue) (b : list Z) : queue * Z :=
  if qtotal q + len b >? qmaxsize q then (q, 1) else
  let ss := qsegs q in
  let tail := last ss (fresh (qmaxseg q)) in
  match seg_append tail b with
  | Some t' => (with_segs q (removelast ss ++ [t']) (qtotal q + len b + 8), 0)
  | None =>
      match seg_append (fresh (qmaxseg q)) b with
      | Some t' => (with_segs q (ss ++ [t']) (qtotal q + len b + 8), 0)
      | None => (with_segs q (ss ++ [fresh (qmaxseg q)]) (qtotal q), 2)
      end
  end.

(** Queue.Advance (always returns nil) *)
Definition q_advance (q : queue) : queue :=
  match seg_advance (qhead q) with
  | (h, AEOF) => trim_head (set_head q h) false
  | (h, _) => set_head q h
  end.

(** NewScanner + up to [n] Next + Scanner.Advance.
    Result: delivered blocks, error class of Advance (0 nil, 2 error), and
    3 when NewScanner itself failed with io.EOF, 4 other NewScanner error. *)
Definition q_scan_adv (q : queue) (n : nat) : queue * list (list Z) * Z :=
  let h := qhead q in
  if seg_empty h then (q, [], 3) else
  if spos h <? 0 then (q, [], 4) else
  let '(got, p, st) := scan_n n h (spos h) in
  match st with
  | SErr => (trim_head q true, got, 2)
  | _ =>
      match advance_to h p with
      | (h', AOk) => (set_head q h', got, 0)
      | (h', AEOF) => (trim_head (set_head q h') false, got, 0)
      | (h', AErr) => (trim_head (set_head q h') true, got, 2)
      end
  end.

(** Queue.Open over the segment files of the directory (in id order), with a new
    SharedCount.  Result class: 0 ok, 2 error, 5 would hang. *)
Fixpoint load_segments (vmode maxseg : Z) (files : list (list Z)) : option (list seg) * Z :=
  match files with
  | [] => (Some [], 0)
  | d :: r =>
      match new_segment vmode maxseg d with
      | NErr => (None, 2)
      | NHang => (None, 5)
      | NOk s =>
          match load_segments vmode maxseg r with
          | (Some ss, _) => (Some (if seg_empty s then ss else s :: ss), 0)
          | e => e
          end
      end
  end.
Definition disk_usage (ss : list seg) : Z := fold_right (fun s a => ssize s + a) 0 ss.
Definition q_open (maxsize maxseg vmode : Z) (files : list (list Z)) : option queue * Z :=
  match load_segments vmode maxseg files with
  | (None, e) => (None, e)
  | (Some ss, _) =>
      let q0 := {| qsegs := if (length ss =? 0)%nat then [fresh maxseg] else ss;
                   qtotal := 0; qmaxsize := maxsize; qmaxseg := maxseg; qv := vmode |} in
      if seg_empty (qhead q0) then (Some (trim_head q0 false), 0)
      else (Some (with_segs q0 (qsegs q0) (disk_usage (qsegs q0))), 0)
  end.
Definition q_files (q : queue) : list (list Z) := map sd (qsegs q).
Definition q_reopen (q : queue) : option queue * Z :=
  q_open (qmaxsize q) (qmaxseg q) (qv q) (q_files q).

(** PurgeOlderThan when exactly the first [j] segments are older than the cutoff. *)
Fixpoint q_purge (j : nat) (q : queue) : queue :=
  match j with
  | O => q
  | S j' =>
      let q1 := if (length (qsegs q) =? 1)%nat
                then with_segs q (qsegs q ++ [fresh (qmaxseg q)]) (qtotal q) else q in
      q_purge j' (trim_head q1 false)
  end.

Definition total_bytes (q : queue) : Z :=
  fold_right (fun s a => ssize s - spos s - 8 + a) 0 (qsegs q).

(** Drain: repeat (NewScanner; Next until false; Advance) until NewScanner fails.
    Result: delivered blocks, number of errors (scanner or Advance), exit class
    (3 = clean io.EOF, 4 = other NewScanner error, 6 = iteration limit). *)
Fixpoint q_drain (fuel : nat) (q : queue) : list (list Z) * Z * Z :=
  match fuel with
  | O => ([], 0, 6)
  | S f =>
      let h := qhead q in
      match q_scan_adv q (S (length (sd h))) with
      | (_, _, 3) => ([], 0, 3)
      | (_, _, 4) => ([], 0, 4)
      | (q', got, e) =>
          let '(r, ne, x) := q_drain f q' in
          (got ++ r, (if e =? 0 then 0 else 1) + ne, x)
      end
  end.
Definition drain_fuel : nat := 64.

(** ** histories, with the outputs the implementation produced *)
Inductive op :=
| OpAppend (b : list Z) (res : Z)
| OpAdvance
| OpScanAdv (n : Z) (got : list (list Z)) (res : Z)
| OpReopen (res : Z)
| OpPurge (j : Z).

Definition bytes_eqb := list_eqb Z.eqb.
Definition blocks_eqb := list_eqb bytes_eqb.

(** Model step: returns the new queue ([None] after a failed reopen) and whether
    the implementation's recorded outputs (incl. TotalBytes after the call)
    agree with the model. *)
Definition step (q : queue) (o : op * Z) : option queue * bool :=
  let '(o, tb) := o in
  let fin (q' : queue) (same : bool) := (Some q', same && (tb =? total_bytes q')) in
  match o with
  | OpAppend b res => let '(q', r) := q_append q b in fin q' (r =? res)
  | OpAdvance => fin (q_advance q) true
  | OpScanAdv n got res =>
      let '(q', g, r) := q_scan_adv q (Z.to_nat n) in fin q' (blocks_eqb g got && (r =? res))
  | OpReopen res =>
      match q_reopen q with
      | (Some q', r) => fin q' (r =? res)
      | (None, r) => (None, r =? res)
      end
  | OpPurge j => fin (q_purge (Z.to_nat j) q) true
  end.
Fixpoint run (q : queue) (os : list (op * Z)) : option queue * bool :=
  match os with
  | [] => (Some q, true)
  | o :: r =>
      match step q o with
      | (Some q', s) => let '(q'', s') := run q' r in (q'', s && s')
      | (None, s) => (None, s && match r with [] => true | _ => false end)
      end
  end.

(** ** crash images of the last append: the write of [enc8 len ++ b ++ footer] at
    offset [size-8] of the tail stopped after [k] bytes. *)
Definition torn_image (d : list Z) (b : list Z) (k : Z) : list Z :=
  let w := enc8 (len b) ++ b ++ drop (len d - 8) d in
  take (len d - 8) d ++ take k w ++ (if k <? 8 then drop (len d - 8 + k) d else []).

(** What the driver observed on one crash image: reopen class, then the drain. *)
Record cobs := { co_k : Z; co_open : Z; co_got : list (list Z); co_nerr : Z; co_exit : Z }.

Definition model_cobs (maxsize maxseg vmode : Z) (files : list (list Z)) (k : Z) : cobs :=
  match q_open maxsize maxseg vmode files with
  | (Some q, r) => let '(g, ne, x) := q_drain drain_fuel q in
                   {| co_k := k; co_open := r; co_got := g; co_nerr := ne; co_exit := x |}
  | (None, r) => {| co_k := k; co_open := r; co_got := []; co_nerr := 0; co_exit := 0 |}
  end.
Definition cobs_eqb (a b : cobs) : bool :=
  (co_k a =? co_k b) && (co_open a =? co_open b) && blocks_eqb (co_got a) (co_got b)
  && (co_nerr a =? co_nerr b) && (co_exit a =? co_exit b).

(** Replace the last file of the directory. *)
Definition set_last {A} (l : list A) (x : A) : list A := removelast l ++ [x].

(** ** the oracle: an abstract FIFO, independent of segments and bytes.
    State: [hist] = every acknowledged entry so far (oldest first), [pend] = the
    acknowledged entries not yet advanced past, [slack] = a purge happened and an
    unknown prefix of [pend] may be gone.  Entries generated by the driver are
    non-empty and pairwise distinct. *)
Record ostate := { o_hist : list (list Z); o_pend : list (list Z); o_slack : bool }.

Fixpoint is_prefix (a b : list (list Z)) : bool :=
  match a, b with
  | [], _ => true
  | x :: a', y :: b' => bytes_eqb x y && is_prefix a' b'
  | _, _ => false
  end.
(** the rest of [b] after the first occurrence of the contiguous block [a] *)
Fixpoint after_block (a b : list (list Z)) : option (list (list Z)) :=
  if is_prefix a b then Some (skipn (length a) b) else
  match b with [] => None | _ :: b' => after_block a b' end.
Definition is_suffix (a b : list (list Z)) : bool :=
  (length a <=? length b)%nat && blocks_eqb a (skipn (length b - length a) b).

Definition ostep (st : ostate) (o : op * Z) : option ostate :=
  match fst o with
  | OpAppend b res =>
      if res =? 0 then Some {| o_hist := o_hist st ++ [b]; o_pend := o_pend st ++ [b]; o_slack := o_slack st |}
      else if res =? 1 then Some st          (* rejected: nothing changes *)
      else None
  | OpAdvance => Some {| o_hist := o_hist st; o_pend := tl (o_pend st); o_slack := o_slack st |}
  | OpScanAdv n got res =>
      if negb (res =? 0) && negb (res =? 3) then None else
      if (Z.of_nat (length got) >? n) then None else
      match got with
      | [] => if (res =? 3) || (n =? 0) then
                (if o_slack st then Some st
                 else match o_pend st with [] => Some st | _ => if n =? 0 then Some st else None end)
              else None
      | _ =>
          if o_slack st then
            match after_block got (o_pend st) with
            | Some rest => Some {| o_hist := o_hist st; o_pend := rest; o_slack := false |}
            | None => None
            end
          else if is_prefix got (o_pend st)
               then Some {| o_hist := o_hist st; o_pend := skipn (length got) (o_pend st); o_slack := false |}
               else None
      end
  | OpReopen res => if res =? 0 then Some st else None
  | OpPurge _ => Some {| o_hist := o_hist st; o_pend := o_pend st; o_slack := true |}
  end.
Fixpoint orun (st : ostate) (os : list (op * Z)) : option ostate :=
  match os with
  | [] => Some st
  | o :: r => match ostep st o with Some st' => orun st' r | None => None end
  end.

(** A complete drain must deliver exactly the pending entries (a suffix of them
    after a purge), with no error. *)
Definition drain_ok (st : ostate) (c : cobs) : bool :=
  (co_open c =? 0) && (co_nerr c =? 0) && (co_exit c =? 3) &&
  (if o_slack st then is_suffix (co_got c) (o_pend st) else blocks_eqb (co_got c) (o_pend st)).

(** After a crash inside the append of [b] (state [st] is the one BEFORE that
    append): the reopen succeeds and delivers, without error, a suffix of the
    acknowledged history that still contains every pending entry (at least once:
    already-advanced entries may be replayed), optionally followed by [b] itself
    (mandatory when the write was complete). *)
Definition crash_ok (st : ostate) (b : list Z) (full : bool) (c : cobs) : bool :=
  (co_open c =? 0) && (co_nerr c =? 0) && (co_exit c =? 3) &&
  let covers (g : list (list Z)) :=
      is_suffix g (o_hist st) &&
      ((length (o_pend st) <=? length g)%nat || o_slack st) in
  ((negb full && covers (co_got c)) ||
   match rev (co_got c) with
   | x :: r => bytes_eqb x b && covers (rev r)
   | [] => false
   end).

(** ** correspondence case.
    [c_ops]: the history with the implementation's outputs; [c_final]: drain of the
    live queue at the end ([c_crash = None]) — or, when [c_crash = Some (b, imgs)],
    the history is followed by an acknowledged [Append b] and [imgs] lists, for
    chosen [k], what reopening the directory with the torn tail produced. *)
Record case := {
  c_maxsize : Z; c_maxseg : Z; c_vmode : Z;
  c_ops : list (op * Z);
  c_final : cobs;
  c_crash : option (list Z * list cobs)
}.

Definition q0 (c : case) : queue :=
  match q_open (c_maxsize c) (c_maxseg c) (c_vmode c) [] with
  | (Some q, _) => q
  | _ => {| qsegs := [fresh (c_maxseg c)]; qtotal := 0; qmaxsize := c_maxsize c; qmaxseg := c_maxseg c; qv := c_vmode c |}
  end.
Definition o0 : ostate := {| o_hist := []; o_pend := []; o_slack := false |}.

Definition check (c : case) : verdict :=
  let '(mq, same_ops) := run (q0 c) (c_ops c) in
  let ost := orun o0 (c_ops c) in
  match c_crash c with
  | None =>
      let same := same_ops &&
        match mq with
        | Some q => let '(g, ne, x) := q_drain drain_fuel q in
                    cobs_eqb (c_final c) {| co_k := 0; co_open := 0; co_got := g; co_nerr := ne; co_exit := x |}
        | None => true
        end in
      let ok := match ost with Some st => drain_ok st (c_final c) | None => false end in
      judge same ok
  | Some (b, imgs) =>
      match mq with
      | None => judge false false
      | Some q =>
          let '(q', r) := q_append q b in
          let files_before :=      (* directory just before the write: roll-over already done *)
            match seg_append (last (qsegs q) (fresh (qmaxseg q))) b with
            | Some _ => q_files q
            | None => q_files q ++ [enc8 0]
            end in
          let dlast := last files_before [] in
          let full_k := len b + 16 in
          let same := same_ops && (r =? 0) &&
            forallb (fun o =>
              cobs_eqb o (model_cobs (c_maxsize c) (c_maxseg c) (c_vmode c)
                            (set_last files_before (torn_image dlast b (co_k o))) (co_k o))) imgs in
          let ok := match ost with
                    | Some st => forallb (fun o => crash_ok st b (co_k o =? full_k) o) imgs
                    | None => false
                    end in
          judge same ok
      end
  end.
