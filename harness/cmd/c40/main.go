// C40 driver: partial writes on a real tsdb.Shard (tsi1 index, series file, WAL on).
//
// A case is 2-4 batches of 1-8 points written with Shard.WritePoints to one fresh shard; the
// batches mix every rejection reason of validateSeriesAndFields / ValidateAndCreateFields
// (a tag named time, invalid unicode in a tag with Config.ValidateKeys on/off, only a field
// named time, an oversize string field, a field type conflict with the schema or with an
// earlier point of the same batch) with accepted points, a field named time next to valid
// fields, and boundary strings of exactly MaxFieldValueLength.  After every batch: error class
// and PartialWriteError.Dropped, the MeasurementFieldSet dump, the RAW content of the engine
// (every key of Cache and FileStore with all values) and a cursor read of every
// (measurement, series, field) of the universe, also of the field "time".  At the end the
// shard is closed and reopened and raw content and reads are taken again.
package main

import (
	"context"
	"fmt"
	"math"
	"os"
	"path/filepath"
	"sort"
	"strconv"
	"strings"
	"time"

	"github.com/influxdata/influxdb/v2/models"
	"github.com/influxdata/influxdb/v2/tsdb"
	"github.com/influxdata/influxdb/v2/tsdb/cursors"
	_ "github.com/influxdata/influxdb/v2/tsdb/engine"
	"github.com/influxdata/influxdb/v2/tsdb/engine/tsm1"
	_ "github.com/influxdata/influxdb/v2/tsdb/index"
	"verifh/vh"
)

type jfield struct {
	Key  string `json:"k"`
	Type int    `json:"t"`             // 1 float 2 integer 3 string 4 boolean 9 unsigned
	Val  int64  `json:"v"`             // value id
	Len  int    `json:"len,omitempty"` // string fields: exact length of the value (0: short "s<id>")
}
type jpoint struct {
	Meas    string   `json:"m"`
	Series  int      `json:"s"`                 // 0,1: tag s=<n>; 2,3: additionally tag u=<0xff> (invalid unicode)
	TimeTag bool     `json:"time_tag,omitempty"` // additionally a tag time=1
	T       int64    `json:"t"`
	Fields  []jfield `json:"f"`
}
type jvals [][2]int64
type jkey struct {
	Meas   string `json:"m"`
	Series int    `json:"s"`
	Field  string `json:"f"`
	Type   int    `json:"ty,omitempty"`
	Vals   jvals  `json:"vals"`
}
type jschema map[string]map[string]int
type jstep struct {
	Points  []jpoint `json:"points"`
	Err     int      `json:"impl_err"`
	ErrText string   `json:"impl_err_text,omitempty"`
	Dropped int      `json:"impl_dropped"`
	Schema  jschema  `json:"impl_schema"`
	Raw     []jkey   `json:"impl_raw"`
	Reads   []jkey   `json:"impl_reads"`
}
type jcase struct {
	ValidateKeys bool    `json:"validate_keys"`
	Steps        []jstep `json:"steps"`
	FinalSchema  jschema `json:"impl_final_schema"`
	FinalRaw     []jkey  `json:"impl_final_raw"`
	FinalReads   []jkey  `json:"impl_final_reads"`
}

type seriesIDSets []*tsdb.SeriesIDSet

func (a seriesIDSets) ForEach(f func(ids *tsdb.SeriesIDSet)) error {
	for _, v := range a {
		f(v)
	}
	return nil
}

var (
	scratchBase string
	sharedSfile *tsdb.SeriesFile
	sharedRoot  string
	meas        = []string{"m0", "m1"}
	fieldNames  = []string{"a", "b", "time"}
)

const nSeries = 4

func openShard(dir string, vk bool) (*tsdb.Shard, error) {
	opt := tsdb.NewEngineOptions()
	opt.IndexVersion = tsdb.TSI1IndexName
	opt.Config.WALDir = filepath.Join(dir, "wal")
	opt.Config.ValidateKeys = vk
	opt.CompactionDisabled = true
	opt.MetricsDisabled = true
	opt.SeriesIDSets = seriesIDSets([]*tsdb.SeriesIDSet{tsdb.NewSeriesIDSet()})
	sh := tsdb.NewShard(1, filepath.Join(dir, "data", "db0", "rp0", "1"), filepath.Join(dir, "wal", "db0", "rp0", "1"), sharedSfile, opt)
	if err := sh.Open(context.Background()); err != nil {
		return nil, err
	}
	return sh, nil
}

func setup() error {
	if sharedSfile != nil {
		return nil
	}
	if st, e := os.Stat("/dev/shm"); e == nil && st.IsDir() {
		scratchBase = "/dev/shm"
	}
	r, err := os.MkdirTemp(scratchBase, "c40-series-")
	if err != nil {
		return err
	}
	sharedRoot = r
	sharedSfile = tsdb.NewSeriesFile(filepath.Join(r, "_series"))
	return sharedSfile.Open()
}

func cleanupShared() {
	if sharedSfile != nil {
		sharedSfile.Close()
		os.RemoveAll(sharedRoot)
	}
}

func seriesTagText(s int, timeTag bool) string {
	t := fmt.Sprintf(",s=%d", s%2)
	if timeTag {
		t += ",time=1"
	}
	if s >= 2 {
		t += ",u=\xff"
	}
	return t
}
func seriesTags(s int) models.Tags {
	m := map[string]string{"s": fmt.Sprint(s % 2)}
	if s >= 2 {
		m["u"] = "\xff"
	}
	return models.NewTags(m)
}
func seriesOf(tags models.Tags) int {
	s, _ := strconv.Atoi(string(tags.Get([]byte("s"))))
	if tags.Get([]byte("u")) != nil {
		s += 2
	}
	return s
}

func literal(f jfield) string {
	switch f.Type {
	case 1:
		return fmt.Sprintf("%d.5", f.Val)
	case 2:
		return fmt.Sprintf("%di", f.Val)
	case 3:
		s := fmt.Sprintf("s%d", f.Val)
		if f.Len > 0 {
			s += strings.Repeat("x", f.Len-len(s))
		}
		return "\"" + s + "\""
	case 4:
		if f.Val%2 == 1 {
			return "true"
		}
		return "false"
	case 9:
		return fmt.Sprintf("%du", f.Val)
	}
	panic("bad type")
}

func lines(pts []jpoint) []byte {
	var b strings.Builder
	for _, p := range pts {
		b.WriteString(p.Meas)
		b.WriteString(seriesTagText(p.Series, p.TimeTag))
		b.WriteByte(' ')
		for i, f := range p.Fields {
			if i > 0 {
				b.WriteByte(',')
			}
			b.WriteString(f.Key)
			b.WriteByte('=')
			b.WriteString(literal(f))
		}
		fmt.Fprintf(&b, " %d\n", p.T)
	}
	return []byte(b.String())
}

// buildPoints: line protocol (fields in the given order) for ordinary points; the parser refuses a
// tag named time, so such points are built with models.NewPoint (as a client library would).
func buildPoints(in []jpoint) ([]models.Point, error) {
	var out []models.Point
	for _, p := range in {
		if !p.TimeTag {
			pts, err := models.ParsePointsWithPrecision(lines([]jpoint{p}), time.Unix(0, 0), "ns")
			if err != nil || len(pts) != 1 {
				return nil, fmt.Errorf("parse: %v (%d points)", err, len(pts))
			}
			out = append(out, pts[0])
			continue
		}
		tags := map[string]string{"s": fmt.Sprint(p.Series % 2), "time": "1"}
		if p.Series >= 2 {
			tags["u"] = "\xff"
		}
		fields := models.Fields{}
		for _, f := range p.Fields {
			switch f.Type {
			case 1:
				fields[f.Key] = float64(f.Val) + 0.5
			case 2:
				fields[f.Key] = f.Val
			case 3:
				fields[f.Key] = strings.Trim(literal(f), "\"")
			case 4:
				fields[f.Key] = f.Val%2 == 1
			case 9:
				fields[f.Key] = uint64(f.Val)
			}
		}
		pt, err := models.NewPoint(p.Meas, models.NewTags(tags), fields, time.Unix(0, p.T))
		if err != nil {
			return nil, fmt.Errorf("NewPoint: %w", err)
		}
		out = append(out, pt)
	}
	return out, nil
}

func classify(err error) (int, int, string) {
	switch e := err.(type) {
	case nil:
		return 0, 0, ""
	case tsdb.PartialWriteError:
		return 1, e.Dropped, e.Reason
	case *tsdb.PartialWriteError:
		return 1, e.Dropped, e.Reason
	}
	return 2, 0, err.Error()
}

func dumpSchema(sh *tsdb.Shard) (jschema, error) {
	e, err := sh.Engine()
	if err != nil {
		return nil, err
	}
	fs := e.MeasurementFieldSet()
	out := jschema{}
	for _, m := range fs.MeasurementNames() {
		mf := fs.FieldsByString(m)
		if mf == nil {
			continue
		}
		set := mf.FieldSet()
		if len(set) == 0 {
			continue
		}
		out[m] = map[string]int{}
		for f, t := range set {
			out[m][f] = int(t)
		}
	}
	return out, nil
}

func decodeValue(v interface{}) (int, int64, error) {
	switch x := v.(type) {
	case float64:
		if x-0.5 != math.Trunc(x-0.5) {
			return 0, 0, fmt.Errorf("unexpected float %v", x)
		}
		return 1, int64(x - 0.5), nil
	case int64:
		return 2, x, nil
	case uint64:
		return 9, int64(x), nil
	case string:
		if !strings.HasPrefix(x, "s") {
			return 0, 0, fmt.Errorf("unexpected string value")
		}
		d := strings.TrimRight(x[1:], "x")
		n, err := strconv.ParseInt(d, 10, 64)
		return 3, n, err
	case bool:
		if x {
			return 4, 1, nil
		}
		return 4, 0, nil
	}
	return 0, 0, fmt.Errorf("unexpected value type %T", v)
}

// rawContent lists every key of the cache and of the file store with all its values.
func rawContent(sh *tsdb.Shard) ([]jkey, error) {
	e, err := sh.Engine()
	if err != nil {
		return nil, err
	}
	te, ok := e.(*tsm1.Engine)
	if !ok {
		return nil, fmt.Errorf("not a tsm1 engine: %T", e)
	}
	if n := len(te.FileStore.Keys()); n != 0 {
		return nil, fmt.Errorf("unexpected TSM keys (%d): the driver never snapshots", n)
	}
	var out []jkey
	for _, k := range te.Cache.Keys() {
		sk, field := tsm1.SeriesAndFieldFromCompositeKey(k)
		name, tags := models.ParseKeyBytes(sk)
		jk := jkey{Meas: string(name), Series: seriesOf(tags), Field: string(field), Vals: jvals{}}
		for _, v := range te.Cache.Values(k) {
			ty, id, err := decodeValue(v.Value())
			if err != nil {
				return nil, err
			}
			if jk.Type != 0 && jk.Type != ty {
				return nil, fmt.Errorf("mixed value types under key %q", k)
			}
			jk.Type = ty
			jk.Vals = append(jk.Vals, [2]int64{v.UnixNano(), id})
		}
		if len(jk.Vals) > 0 {
			out = append(out, jk)
		}
	}
	return out, nil
}

func drain(cur cursors.Cursor) (jvals, error) {
	res := jvals{}
	if cur == nil {
		return res, nil
	}
	defer cur.Close()
	add := func(t int64, v interface{}) error {
		_, id, err := decodeValue(v)
		res = append(res, [2]int64{t, id})
		return err
	}
	switch c := cur.(type) {
	case cursors.IntegerArrayCursor:
		for a := c.Next(); a.Len() > 0; a = c.Next() {
			for i := range a.Timestamps {
				add(a.Timestamps[i], a.Values[i])
			}
		}
	case cursors.FloatArrayCursor:
		for a := c.Next(); a.Len() > 0; a = c.Next() {
			for i := range a.Timestamps {
				if err := add(a.Timestamps[i], a.Values[i]); err != nil {
					return nil, err
				}
			}
		}
	case cursors.UnsignedArrayCursor:
		for a := c.Next(); a.Len() > 0; a = c.Next() {
			for i := range a.Timestamps {
				add(a.Timestamps[i], a.Values[i])
			}
		}
	case cursors.StringArrayCursor:
		for a := c.Next(); a.Len() > 0; a = c.Next() {
			for i := range a.Timestamps {
				if err := add(a.Timestamps[i], a.Values[i]); err != nil {
					return nil, err
				}
			}
		}
	case cursors.BooleanArrayCursor:
		for a := c.Next(); a.Len() > 0; a = c.Next() {
			for i := range a.Timestamps {
				add(a.Timestamps[i], a.Values[i])
			}
		}
	default:
		return nil, fmt.Errorf("unexpected cursor type %T", cur)
	}
	return res, cur.Err()
}

func readAll(sh *tsdb.Shard) ([]jkey, error) {
	var out []jkey
	for _, m := range meas {
		for s := 0; s < nSeries; s++ {
			for _, f := range fieldNames {
				itr, err := sh.CreateCursorIterator(context.Background())
				if err != nil {
					return nil, err
				}
				cur, err := itr.Next(context.Background(), &cursors.CursorRequest{
					Name: []byte(m), Tags: seriesTags(s), Field: f, Ascending: true, StartTime: math.MinInt64, EndTime: math.MaxInt64,
				})
				if err != nil {
					return nil, fmt.Errorf("cursor %s/%d/%s: %w", m, s, f, err)
				}
				vs, err := drain(cur)
				if err != nil {
					return nil, fmt.Errorf("read %s/%d/%s: %w", m, s, f, err)
				}
				if len(vs) > 0 { // the judge checks every key of the same fixed universe; empty reads are implicit
					out = append(out, jkey{Meas: m, Series: s, Field: f, Vals: vs})
				}
			}
		}
	}
	return out, nil
}

// ---- Gallina rendering ----
// names of the fixed universe are defined once in the shard header (keeps the terms small)
var knownNames = map[string]bool{"m0": true, "m1": true, "a": true, "b": true, "time": true}

func nameT(s string) string {
	if knownNames[s] {
		return "n_" + s
	}
	return vh.Bytes([]byte(s))
}
func nameDefs() string {
	var b strings.Builder
	for _, n := range vh.SortedKeys(knownNames) {
		b.WriteString("\nDefinition n_" + n + " : name := " + vh.Bytes([]byte(n)) + ".")
	}
	return b.String()
}
func schemaT(s jschema) string {
	var ms []string
	for _, m := range vh.SortedKeys(s) {
		var fs []string
		for _, f := range vh.SortedKeys(s[m]) {
			fs = append(fs, vh.Pair(nameT(f), vh.N(uint64(s[m][f]))))
		}
		ms = append(ms, vh.Pair(nameT(m), vh.List(fs)))
	}
	return vh.List(ms)
}
func valsT(v jvals) string {
	xs := make([]string, len(v))
	for i, p := range v {
		xs[i] = vh.Pair(vh.Z(p[0]), vh.Z(p[1]))
	}
	return vh.List(xs)
}
func keyT(k jkey) string {
	return fmt.Sprintf("(%s, %s, %s)", nameT(k.Meas), vh.N(uint64(k.Series)), nameT(k.Field))
}
func rawT(ks []jkey) string {
	xs := make([]string, len(ks))
	for i, k := range ks {
		xs[i] = fmt.Sprintf("(%s, %s, %s)", keyT(k), vh.N(uint64(k.Type)), valsT(k.Vals))
	}
	return vh.List(xs)
}
func readsT(ks []jkey) string {
	xs := make([]string, len(ks))
	for i, k := range ks {
		xs[i] = vh.Pair(keyT(k), valsT(k.Vals))
	}
	return vh.List(xs)
}
func isBig(f jfield) bool { return f.Type == 3 && f.Len > tsdb.MaxFieldValueLength }
func pointT(p jpoint) string {
	var fs []string
	for _, f := range p.Fields {
		fs = append(fs, fmt.Sprintf("{| f_key := %s; f_type := %s; f_big := %s; f_val := %s |}",
			nameT(f.Key), vh.N(uint64(f.Type)), vh.Bool(isBig(f)), vh.Z(f.Val)))
	}
	return fmt.Sprintf("{| b_meas := %s; b_series := %s; b_timetag := %s; b_badkey := %s; b_time := %s; b_fields := %s |}",
		nameT(p.Meas), vh.N(uint64(p.Series)), vh.Bool(p.TimeTag), vh.Bool(p.Series >= 2), vh.Z(p.T), vh.List(fs))
}

// hasTimeField: some point carries a field named time next to another field (the shape of the
// former finding time-field-written; repaired, so it carries no signature any more: a regression
// is a VIOLATION).
func hasTimeField(c *jcase) bool {
	for _, st := range c.Steps {
		for _, p := range st.Points {
			hasTime, hasOther := false, false
			for _, f := range p.Fields {
				if f.Key == "time" {
					hasTime = true
				} else {
					hasOther = true
				}
			}
			if hasTime && hasOther {
				return true
			}
		}
	}
	return false
}

func run(w *vh.W, c *jcase) {
	if err := setup(); err != nil {
		fmt.Fprintln(os.Stderr, "driver error:", err)
		os.Exit(3)
	}
	root, err := os.MkdirTemp(scratchBase, "c40-")
	if err != nil {
		fmt.Fprintln(os.Stderr, "driver error:", err)
		os.Exit(3)
	}
	defer os.RemoveAll(root)
	var machinery error
	var sh *tsdb.Shard
	if p := vh.Guard(func() {
		if sh, err = openShard(root, c.ValidateKeys); err != nil {
			machinery = err
			return
		}
		for i := range c.Steps {
			st := &c.Steps[i]
			pts, err := buildPoints(st.Points)
			if err != nil {
				machinery = fmt.Errorf("step %d: %v", i, err)
				c.Steps = c.Steps[:i]
				return
			}
			st.Err, st.Dropped, st.ErrText = classify(sh.WritePoints(context.Background(), pts))
			if len(st.ErrText) > 200 {
				st.ErrText = st.ErrText[:200]
			}
			if st.Schema, err = dumpSchema(sh); err == nil {
				if st.Raw, err = rawContent(sh); err == nil {
					st.Reads, err = readAll(sh)
				}
			}
			if err != nil {
				machinery = fmt.Errorf("step %d: %w", i, err)
				c.Steps = c.Steps[:i]
				return
			}
		}
		if err := sh.Close(); err != nil {
			machinery = fmt.Errorf("close: %w", err)
			return
		}
		if sh, err = openShard(root, c.ValidateKeys); err != nil {
			machinery = fmt.Errorf("reopen: %w", err)
			return
		}
		if c.FinalSchema, err = dumpSchema(sh); err == nil {
			if c.FinalRaw, err = rawContent(sh); err == nil {
				c.FinalReads, err = readAll(sh)
			}
		}
		if err != nil {
			machinery = fmt.Errorf("final: %w", err)
		}
	}); p != "" {
		machinery = fmt.Errorf("panic: %s", p)
	}
	if sh != nil {
		sh.Close()
	}
	var ts []string
	nontrivial := false
	for _, st := range c.Steps {
		var ps []string
		for _, p := range st.Points {
			ps = append(ps, pointT(p))
		}
		ts = append(ts, fmt.Sprintf("(%s, {| bo_err := %s; bo_dropped := %s; bo_schema := %s; bo_raw := %s; bo_reads := %s |})",
			vh.List(ps), vh.N(uint64(st.Err)), vh.N(uint64(st.Dropped)), schemaT(st.Schema), rawT(st.Raw), readsT(st.Reads)))
		if st.Dropped > 0 && st.Dropped < len(st.Points) {
			nontrivial = true // a genuinely partial write
		}
		w.Count("err", fmt.Sprint(st.Err))
		w.Count("dropped", fmt.Sprint(st.Dropped))
		w.Count("batch", fmt.Sprint(len(st.Points)))
	}
	sig := ""
	w.Count("time_field_next_to_valid", fmt.Sprint(hasTimeField(c)))
	term := fmt.Sprintf("{| c_vk := %s; c_steps := %s; c_final_schema := %s; c_final_raw := %s; c_final_reads := %s |}",
		vh.Bool(c.ValidateKeys), vh.List(ts), schemaT(c.FinalSchema), rawT(c.FinalRaw), readsT(c.FinalReads))
	idx := w.Add(term, c, nontrivial, sig)
		w.Count("validate_keys", fmt.Sprint(c.ValidateKeys))
	if machinery != nil {
		w.Fail(idx, machinery.Error(), sig)
	}
}

func fl(k string, t int, v int64) jfield { return jfield{Key: k, Type: t, Val: v} }
func pt(m string, s int, t int64, fs ...jfield) jpoint {
	return jpoint{Meas: m, Series: s, T: t, Fields: fs}
}

func corpus() []jcase {
	big := jfield{Key: "b", Type: 3, Val: 1, Len: tsdb.MaxFieldValueLength + 1}
	edge := jfield{Key: "b", Type: 3, Val: 2, Len: tsdb.MaxFieldValueLength}
	tt := func(p jpoint) jpoint { p.TimeTag = true; return p }
	return []jcase{
		// every rejection reason in one batch, between accepted points
		{ValidateKeys: true, Steps: []jstep{
			{Points: []jpoint{pt("m0", 0, 1, fl("a", 1, 1))}},
			{Points: []jpoint{pt("m0", 0, 2, fl("a", 1, 2)), pt("m0", 1, 2, fl("a", 2, 3)), tt(pt("m0", 0, 3, fl("a", 1, 4))),
				pt("m0", 2, 2, fl("a", 1, 5)), pt("m0", 1, 3, fl("time", 2, 6)), pt("m0", 1, 1, fl("a", 1, 7), big), pt("m0", 1, 2, fl("a", 1, 8), edge), pt("m1", 0, 1, fl("b", 4, 1))}}}},
		// invalid unicode accepted when ValidateKeys is off
		{ValidateKeys: false, Steps: []jstep{{Points: []jpoint{pt("m0", 2, 1, fl("a", 2, 1)), pt("m0", 0, 1, fl("a", 2, 2))}}, {Points: []jpoint{pt("m0", 2, 1, fl("a", 2, 3)), pt("m0", 3, 1, fl("a", 1, 4))}}}},
		// conflict inside one batch on a new field; fields before the conflicting one are created
		{ValidateKeys: false, Steps: []jstep{{Points: []jpoint{pt("m0", 0, 1, fl("a", 1, 1)), pt("m0", 0, 2, fl("b", 2, 2), fl("a", 2, 3)), pt("m0", 1, 1, fl("b", 1, 4)), pt("m0", 1, 2, fl("b", 2, 5))}}}},
		// everything rejected
		{ValidateKeys: true, Steps: []jstep{{Points: []jpoint{pt("m0", 0, 1, fl("a", 1, 1))}}, {Points: []jpoint{pt("m0", 0, 2, fl("a", 2, 1)), pt("m0", 3, 2, fl("a", 1, 1)), pt("m0", 0, 2, fl("time", 1, 1))}}}},
		// overwrite of the same timestamp by an accepted point, not by a rejected one
		{ValidateKeys: false, Steps: []jstep{{Points: []jpoint{pt("m0", 0, 1, fl("a", 2, 1))}}, {Points: []jpoint{pt("m0", 0, 1, fl("a", 1, 9)), pt("m0", 0, 1, fl("a", 2, 2))}}}},
		// former finding F13: a field named time next to a valid field is reported stripped and must not be stored
		{ValidateKeys: false, Steps: []jstep{{Points: []jpoint{pt("m0", 0, 1, fl("a", 1, 1), fl("time", 2, 7))}}}},
		{ValidateKeys: false, Steps: []jstep{{Points: []jpoint{pt("m0", 0, 1, fl("time", 2, 7), fl("a", 1, 1)), pt("m0", 1, 1, fl("a", 2, 1))}}}},
		// ... and with another type later: an ordinary partial success, durable
		{ValidateKeys: false, Steps: []jstep{{Points: []jpoint{pt("m0", 0, 1, fl("a", 1, 1), fl("time", 2, 7))}}, {Points: []jpoint{pt("m0", 0, 2, fl("a", 1, 2), fl("time", 1, 8)), pt("m0", 1, 2, fl("a", 1, 3))}}}},
	}
}

func main() {
	w := vh.New("C40", "From Verif Require Import Base.Prelude Model.C10 Model.C40."+nameDefs(), "case", "check")
	w.Rule = "2-4 batches of 1-8 points over 2 measurements x 4 series (2 with an invalid-unicode tag) x fields {a,b,time} x 5 types x 3 timestamps, Config.ValidateKeys on/off; per point: tag time (1/10), only field time (1/12), field time next to valid ones (1/6 of cases enable it), oversize string (1/25), string of exactly MaxFieldValueLength (1/40), type biased 2:1 to the type first used for the field. Non-trivial: some batch is genuinely partial (0 < Dropped < batch size). Distinct: distinct Gallina terms."
	var rc jcase
	if w.ReplayCase(&rc) {
		run(w, &rc)
		cleanupShared()
		w.Finish()
		return
	}
	r := w.Rng
	if p := os.Getenv("VERIF_PROC"); p == "" || p == "0" {
		for _, c := range corpus() {
			c := c
			run(w, &c)
		}
	}
	typs := []int{1, 2, 3, 4, 9}
	for w.Len() < w.N {
		c := jcase{ValidateKeys: r.IntN(2) == 0}
		allowTime := r.IntN(6) == 0
		known := map[string]int{}
		nb := 2 + r.IntN(3)
		for b := 0; b < nb; b++ {
			var st jstep
			np := 1 + r.IntN(8)
			for i := 0; i < np; i++ {
				p := jpoint{Meas: meas[r.IntN(2)], Series: r.IntN(2), T: int64(1 + r.IntN(3))}
				if r.IntN(5) == 0 {
					p.Series += 2
				}
				if r.IntN(10) == 0 {
					p.TimeTag = true
				}
				if r.IntN(12) == 0 {
					p.Fields = []jfield{{Key: "time", Type: typs[r.IntN(5)], Val: int64(r.IntN(2))}}
				} else {
					nf := 1 + r.IntN(2)
					perm := r.Perm(2)
					for q := 0; q < nf; q++ {
						k := fieldNames[perm[q]]
						t := typs[r.IntN(5)]
						if kt, ok := known[p.Meas+"."+k]; ok && r.IntN(3) != 0 {
							t = kt
						} else if !ok {
							known[p.Meas+"."+k] = t
						}
						f := jfield{Key: k, Type: t, Val: int64(r.IntN(2))}
						if t == 3 {
							switch x := r.IntN(40); {
							case x == 0:
								f.Len = tsdb.MaxFieldValueLength
							case x <= 2:
								f.Len = tsdb.MaxFieldValueLength + 1 + r.IntN(2)
							}
						}
						p.Fields = append(p.Fields, f)
					}
					if allowTime && r.IntN(3) == 0 {
						tf := jfield{Key: "time", Type: typs[r.IntN(2)], Val: int64(r.IntN(2))}
						if r.IntN(2) == 0 {
							p.Fields = append([]jfield{tf}, p.Fields...)
						} else {
							p.Fields = append(p.Fields, tf)
						}
					}
				}
				st.Points = append(st.Points, p)
			}
			c.Steps = append(c.Steps, st)
		}
		run(w, &c)
	}
	cleanupShared()
	w.Finish()
}

var _ = sort.Strings
