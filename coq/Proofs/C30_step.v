(** C30 — organization delete and the step lemma. *)
From Verif Require Import Base.Prelude Model.C30 Proofs.C30_al Proofs.C30_inv.

(** ================= organization delete ================= *)

(** What one bucket delete does to the bucket records and the other buckets. *)
Lemma delete_bucket_rel st i internal s' e :
  delete_bucket st i internal = (s', e) ->
  (forall j b, getN j (s_bkts s') = Some b -> getN j (s_bkts st) = Some b) /\
  (forall j, j <> i -> getN j (s_bkts s') = getN j (s_bkts st)) /\
  (e = E_OK -> getN i (s_bkts s') = None) /\
  (s_orgs s', s_oidx s', s_users s', s_uidx s', s_pwds s', s_next s') =
  (s_orgs st, s_oidx st, s_users st, s_uidx st, s_pwds st, s_next st).
Proof.
  unfold delete_bucket, delete_bucket_tx.
  destruct (getN i (s_bkts st)) as [b|] eqn:Eb.
  2:{ cbn [N.eqb E_OK E_NOTFOUND]. intro H; injection H as <- <-. repeat split; auto; discriminate. }
  destruct (b_sys b && negb internal).
  { cbn [N.eqb E_OK E_INVALID]. intro H; injection H as <- <-. repeat split; auto; discriminate. }
  cbn [N.eqb E_OK].
  match goal with |- (remove_relations ?S _, _) = _ -> _ => set (s1 := S) end.
  destruct (frameM_proj _ _ (frameM_remove_relations s1 i)) as (F1 & F2 & F3 & F4 & F5 & F6 & F7 & F8).
  intro H; injection H as <- <-.
  rewrite F1, F2, F3, F5, F6, F7, F8. subst s1. cbn [s_orgs s_oidx s_bkts s_users s_uidx s_pwds s_next].
  repeat split.
  - intros j b0. rewrite getN_del. cmpN j i; [discriminate | auto].
  - intros j Hj. rewrite getN_del. cmpN j i; [contradiction | reflexivity].
  - rewrite getN_del, N.eqb_refl. reflexivity.
Qed.

Lemma delete_buckets_rel l : forall st s' e,
  delete_buckets l st = (s', e) ->
  (forall j b, getN j (s_bkts s') = Some b -> getN j (s_bkts st) = Some b) /\
  (forall j, ~ In j l -> getN j (s_bkts s') = getN j (s_bkts st)) /\
  (e = E_OK -> forall i, In i l -> getN i (s_bkts s') = None) /\
  (s_orgs s', s_oidx s', s_users s', s_uidx s', s_pwds s', s_next s') =
  (s_orgs st, s_oidx st, s_users st, s_uidx st, s_pwds st, s_next st).
Proof.
  induction l as [|i l IH]; intros st s' e; cbn.
  - intro H; injection H as <- <-. repeat split; auto. intros _ i [].
  - destruct (delete_bucket st i true) as [s1 e1] eqn:E1.
    destruct (delete_bucket_rel _ _ _ _ _ E1) as (A1 & B1 & C1 & D1).
    destruct (N.eqb e1 E_OK) eqn:Ee.
    + intro H. destruct (IH _ _ _ H) as (A2 & B2 & C2 & D2). apply N.eqb_eq in Ee. repeat split.
      * intros j b Hj. apply A1, A2, Hj.
      * intros j Hj. rewrite B2, B1; auto.
      * intros He k [-> | Hk]; [|apply C2; auto].
        destruct (getN k (s_bkts s')) eqn:G; [|reflexivity].
        apply A2 in G. rewrite C1 in G; [discriminate | exact Ee].
      * congruence.
    + intro H; injection H as <- <-. split; [exact A1|]. split; [|split; [|exact D1]].
      * intros j Hj. apply B1. intro; subst; apply Hj; left; reflexivity.
      * intros ->. rewrite N.eqb_refl in Ee. discriminate.
Qed.

Definition org_bucket_ids (st : state) (id : N) : list N :=
  map snd (filter (fun e => N.eqb (fst (fst e)) id) (s_bidx st)).

Lemma org_bucket_ids_complete st id j b : Inv st ->
  getN j (s_bkts st) = Some b -> b_org b = id -> In j (org_bucket_ids st id).
Proof.
  intros (_ & (Hs & Hc) & _) Hj E. destruct (Hc j b Hj) as (H1 & _).
  apply (get_in nn_eqb nn_eqb_spec) in H1. unfold org_bucket_ids.
  apply in_map_iff. exists ((b_org b, b_name b), j). split; [reflexivity|].
  apply filter_In. split; [exact H1|]. cbn. rewrite E. apply N.eqb_refl.
Qed.


Lemma inv_delete_org fx st id : Inv st -> Inv (fst (delete_org fx st id)).
Proof.
  intro H. unfold delete_org. fold (org_bucket_ids st id).
  destruct (negb (forallb _ (org_bucket_ids st id))); [exact H|].
  pose proof (inv_delete_buckets (org_bucket_ids st id) st H) as H1.
  destruct (delete_buckets (org_bucket_ids st id) st) as [s1 e1] eqn:E1. cbn [fst] in H1.
  destruct (delete_buckets_rel _ _ _ _ E1) as (A & _ & C & _).
  destruct (N.eqb e1 E_OK) eqn:Ee; cbn [negb]; [|exact H1]. apply N.eqb_eq in Ee.
  unfold delete_org_tx.
  destruct (getN id (s_orgs s1)) as [n|] eqn:En; cbn [fst snd N.eqb E_OK negb]; [|exact H1].
  apply inv_remove_relations.
  assert (Hno : forall j b, getN j (s_bkts s1) = Some b -> b_org b <> id).
  { intros j b Hj Eb. pose proof (A _ _ Hj) as Hj0.
    pose proof (org_bucket_ids_complete st id j b H Hj0 Eb) as Hin.
    rewrite (C Ee j Hin) in Hj. discriminate. }
  inv_destruct H1. inv_split; try assumption.
  - apply (InvO_delete _ _ _ id n); [exact HO | exact En |].
    destruct fx; [right | left]; reflexivity.
  - apply InvB_delorg; assumption.
Qed.

(** ================= every operation preserves the invariant ================= *)

Lemma step_inv fx st o : Inv st -> Inv (step fx st o).
Proof.
  intro H. unfold step. destruct o; cbn [step_e].
  - apply inv_create_org; exact H.
  - apply inv_update_org; exact H.
  - apply inv_delete_org; exact H.
  - apply inv_create_bucket; exact H.
  - apply inv_update_bucket; exact H.
  - apply inv_delete_bucket; exact H.
  - apply inv_create_user; exact H.
  - apply inv_update_user; exact H.
  - apply inv_delete_user; exact H.
  - apply inv_set_password; exact H.
  - apply inv_create_urm; exact H.
  - apply inv_delete_urm_svc; exact H.
Qed.

Lemma fold_step_inv fx ops : forall st, Inv st -> Inv (fold_left (step fx) ops st).
Proof. induction ops as [|o ops IH]; intros st H; cbn; [exact H | apply IH, step_inv, H]. Qed.

Lemma run_inv fx ops : Inv (run fx ops).
Proof. apply fold_step_inv, inv_init. Qed.
