(** C37 — the exported spec lemmas of the sorted-array algebra (for reuse by C06, C04, C09, C01):

      [search_is_count] [find_range_spec] [find_range_none_iff]
      [exclude_spec] [exclude_In] [exclude_sorted] [include_spec] [include_In] [include_sorted]
      [contains_spec]
      [merge_spec] [merge_lookup] [merge_In] [merge_sorted]          (cursors.*Array.Merge)
      [vals_merge_spec] [vals_merge_lookup] [vals_merge_general]      (tsm1 Values.Merge)
      [dedup_spec] [dedup_sorted] [dedup_lookup] [dedup_sorted_id]    (tsm1 Values.Deduplicate)
      [ssorted_ext] [lookup_In] [ssorted_b_spec]                      (finite-map view)

    [ssorted a] = strictly increasing timestamps ("sorted and deduplicated"). *)
From Coq Require Import ZifyBool.
From Verif Require Import Base.Prelude Model.C37.
From Verif Require Export Proofs.C37_search Proofs.C37_range Proofs.C37_merge.
Local Open Scope Z_scope.

Section Proofs.
  Context {V : Type}.
  Notation arr := (arr V).
  Implicit Types (a b l : arr) (p q : Z * V).

  Lemma ssorted_filter (f : Z * V -> bool) l : ssorted l -> ssorted (filter f l).
  Proof.
    induction l as [|p r IH]; [auto|]. intros [H1 H2]. cbn [filter]. destruct (f p); [|auto].
    cbn. split; [|auto]. apply Forall_forall. intros q Hq. apply filter_In in Hq as [Hq _].
    rewrite Forall_forall in H1. auto.
  Qed.

  (** *** FindRange *)
  Lemma find_range_none_iff a mn mx : wsorted a ->
    (find_range a mn mx = (-1, -1) <->
     mn > mx \/ (forall p, In p a -> tm p < mn) \/ (forall p, In p a -> mx < tm p)).
  Proof.
    intro Hs. rewrite find_range_spec by auto. unfold find_range_spec_f.
    fold (none_cond a mn mx). destruct (none_cond a mn mx) eqn:E.
    - split; [|reflexivity]. intros _. unfold none_cond in E.
      rewrite !orb_true_iff, !forallb_forall in E. destruct E as [[E|E]|E].
      + left. lia.
      + right; left. intros p Hp. specialize (E p Hp). lia.
      + right; right. intros p Hp. specialize (E p Hp). lia.
    - split; [intros [= H _]; lia|]. intro H. exfalso. unfold none_cond in E.
      apply orb_false_iff in E as [E E3]. apply orb_false_iff in E as [E1 E2].
      destruct H as [H|[H|H]]; [lia| |].
      + assert (forallb (fun p => tm p <? mn) a = true); [|congruence].
        apply forallb_forall. intros p Hp. specialize (H p Hp). lia.
      + assert (forallb (fun p => mx <? tm p) a = true); [|congruence].
        apply forallb_forall. intros p Hp. specialize (H p Hp). lia.
  Qed.

  Lemma find_range_positions a mn mx : wsorted a ->
    find_range a mn mx <> (-1, -1) ->
    find_range a mn mx = (Z.of_nat (count_lt mn a), Z.of_nat (count_lt mx a)).
  Proof.
    intros Hs. rewrite find_range_spec by auto. unfold find_range_spec_f.
    destruct (_ || _ || _); [congruence|reflexivity].
  Qed.

  (** *** Exclude / Include as sets *)
  Lemma exclude_In a mn mx p : ssorted a ->
    (In p (arr_exclude a mn mx) <-> In p a /\ ~ (mn <= tm p <= mx)).
  Proof.
    intro Hs. rewrite exclude_spec by auto. unfold exclude_spec_f. rewrite filter_In.
    unfold in_range. split; intros [H1 H2]; split; auto; lia.
  Qed.

  Lemma include_In a mn mx p : ssorted a ->
    (In p (arr_include a mn mx) <-> In p a /\ mn <= tm p <= mx).
  Proof.
    intro Hs. rewrite include_spec by auto. unfold include_spec_f. rewrite filter_In.
    unfold in_range. split; intros [H1 H2]; split; auto; lia.
  Qed.

  Lemma exclude_sorted a mn mx : ssorted a -> ssorted (arr_exclude a mn mx).
  Proof. intro Hs. rewrite exclude_spec by auto. apply ssorted_filter; auto. Qed.

  Lemma include_sorted a mn mx : ssorted a -> ssorted (arr_include a mn mx).
  Proof. intro Hs. rewrite include_spec by auto. apply ssorted_filter; auto. Qed.

  Lemma exclude_inverted a mn mx : ssorted a -> mn > mx -> arr_exclude a mn mx = a.
  Proof.
    intros Hs H. rewrite exclude_spec by auto. apply filter_all_true.
    apply Forall_forall. intros p _. unfold in_range. lia.
  Qed.

  Lemma include_inverted a mn mx : ssorted a -> mn > mx -> arr_include a mn mx = [].
  Proof.
    intros Hs H. rewrite include_spec by auto. apply filter_all_false.
    apply Forall_forall. intros p _. unfold in_range. lia.
  Qed.

  Lemma contains_iff a mn mx : ssorted a ->
    (arr_contains a mn mx = true <-> exists p, In p a /\ mn <= tm p <= mx).
  Proof.
    intro Hs. rewrite contains_spec by auto. unfold contains_spec_f. rewrite existsb_exists.
    unfold in_range. split; intros [p [H1 H2]]; exists p; split; auto; lia.
  Qed.

  (** *** Merge *)
  Lemma merge_spec a b : ssorted a -> ssorted b ->
    arr_merge a b = union_rw a b /\ ssorted (arr_merge a b).
  Proof.
    intros Ha Hb. rewrite arr_merge_union by auto. split; [reflexivity|]. apply ssorted_union_rw; auto.
  Qed.

  Lemma merge_sorted a b : ssorted a -> ssorted b -> ssorted (arr_merge a b).
  Proof. intros Ha Hb. apply merge_spec; auto. Qed.

  Lemma union_rw_lookup t a b : ssorted b ->
    lookup t (union_rw a b) = match lookup t b with Some v => Some v | None => lookup t a end.
  Proof. intro Hb. rewrite lookup_union_rw, lookup_last_sorted by auto. reflexivity. Qed.

  Lemma merge_lookup t a b : ssorted a -> ssorted b ->
    lookup t (arr_merge a b) = match lookup t b with Some v => Some v | None => lookup t a end.
  Proof. intros Ha Hb. rewrite arr_merge_union by auto. apply union_rw_lookup; auto. Qed.

  Lemma union_rw_In a b p : ssorted a -> ssorted b ->
    (In p (union_rw a b) <-> In p b \/ (In p a /\ ~ In (tm p) (times b))).
  Proof.
    intros Ha Hb. destruct p as [t v]. unfold tm at 1; cbn [fst].
    rewrite <- !lookup_In by (auto; apply ssorted_union_rw; auto).
    rewrite union_rw_lookup by auto. rewrite <- lookup_None_iff.
    destruct (lookup t b) as [w|]; split.
    - intros [= ->]. auto.
    - intros [H|[_ H]]; [auto|discriminate].
    - auto.
    - intros [H|[H _]]; [discriminate|auto].
  Qed.

  Lemma merge_In a b p : ssorted a -> ssorted b ->
    (In p (arr_merge a b) <-> In p b \/ (In p a /\ ~ In (tm p) (times b))).
  Proof. intros Ha Hb. rewrite arr_merge_union by auto. apply union_rw_In; auto. Qed.

  Lemma vals_merge_spec a b : ssorted a -> ssorted b ->
    vals_merge a b = union_rw a b /\ ssorted (vals_merge a b).
  Proof.
    intros Ha Hb. rewrite vals_merge_union by auto. split; [reflexivity|]. apply ssorted_union_rw; auto.
  Qed.

  Lemma vals_merge_lookup t a b : ssorted a -> ssorted b ->
    lookup t (vals_merge a b) = match lookup t b with Some v => Some v | None => lookup t a end.
  Proof. intros Ha Hb. rewrite vals_merge_union by auto. apply union_rw_lookup; auto. Qed.

  Lemma vals_merge_In a b p : ssorted a -> ssorted b ->
    (In p (vals_merge a b) <-> In p b \/ (In p a /\ ~ In (tm p) (times b))).
  Proof. intros Ha Hb. rewrite vals_merge_union by auto. apply union_rw_In; auto. Qed.

  (** the two Merge implementations agree on sorted input *)
  Lemma merge_variants_agree a b : ssorted a -> ssorted b -> arr_merge a b = vals_merge a b.
  Proof. intros Ha Hb. rewrite arr_merge_union, vals_merge_union by auto. reflexivity. Qed.

  (** *** Deduplicate (arbitrary input) *)
  Lemma dedup_sorted l : ssorted (vals_dedup l).
  Proof. rewrite dedup_last_wins. apply ssorted_union_rw. cbn. auto. Qed.

  Lemma dedup_lookup t l : lookup t (vals_dedup l) = lookup_last t l.
  Proof.
    rewrite dedup_last_wins. unfold last_wins_sorted. rewrite lookup_union_rw. cbn.
    destruct (lookup_last t l); reflexivity.
  Qed.

  Lemma dedup_spec l :
    vals_dedup l = last_wins_sorted l /\ ssorted (vals_dedup l) /\
    (forall t, lookup t (vals_dedup l) = lookup_last t l).
  Proof. split; [apply dedup_last_wins|]. split; [apply dedup_sorted|]. intro t; apply dedup_lookup. Qed.

  (** every timestamp of the input survives, exactly once *)
  Lemma dedup_times t l : In t (times (vals_dedup l)) <-> In t (times l).
  Proof.
    assert (H : forall l', lookup_last t l' = None <-> ~ In t (times l')).
    { induction l' as [|p r IH]; [cbn; tauto|]. cbn. destruct (lookup_last t r) eqn:E.
      - split; [discriminate|]. intro Hn. exfalso. apply Hn. right.
        destruct (in_dec Z.eq_dec t (times r)) as [|Hni]; auto. apply IH in Hni. discriminate.
      - destruct IH as [IH _]. specialize (IH eq_refl). destruct (tm p =? t) eqn:E2.
        + split; [discriminate|]. intro Hn. exfalso. apply Hn. left. unfold tm in E2. lia.
        + split; [|auto]. intros _ [Hc|Hc]; [unfold tm in E2; lia|auto]. }
    pose proof (lookup_None_iff t (vals_dedup l)) as H1. rewrite dedup_lookup in H1.
    specialize (H l).
    destruct (in_dec Z.eq_dec t (times (vals_dedup l))), (in_dec Z.eq_dec t (times l)); tauto.
  Qed.
  (** *** Algebraic laws of Merge on strictly sorted arrays (via the finite-map view):
      associative, idempotent, the empty array is a two-sided identity, and the second
      argument absorbs: merging [b] in again changes nothing. *)
  Lemma merge_assoc a b c : ssorted a -> ssorted b -> ssorted c ->
    arr_merge (arr_merge a b) c = arr_merge a (arr_merge b c).
  Proof.
    intros Ha Hb Hc.
    pose proof (proj2 (merge_spec a b Ha Hb)) as Hab.
    pose proof (proj2 (merge_spec b c Hb Hc)) as Hbc.
    apply ssorted_ext; [apply merge_spec; auto | apply merge_spec; auto |].
    intro t. rewrite !merge_lookup by auto.
    destruct (lookup t c); [reflexivity|]. reflexivity.
  Qed.

  Lemma merge_idem a : ssorted a -> arr_merge a a = a.
  Proof.
    intro Ha. apply ssorted_ext; [apply merge_spec; auto | auto |].
    intro t. rewrite merge_lookup by auto. destruct (lookup t a); reflexivity.
  Qed.

  Lemma merge_nil_l a : ssorted a -> arr_merge [] a = a.
  Proof.
    intro Ha. assert (Hn : ssorted (V:=V) []) by exact I.
    apply ssorted_ext; [apply merge_spec; auto | auto |].
    intro t. rewrite merge_lookup by auto. destruct (lookup t a); reflexivity.
  Qed.

  Lemma merge_nil_r a : ssorted a -> arr_merge a [] = a.
  Proof.
    intro Ha. assert (Hn : ssorted (V:=V) []) by exact I.
    apply ssorted_ext; [apply merge_spec; auto | auto |].
    intro t. rewrite merge_lookup by auto. reflexivity.
  Qed.

  Lemma merge_absorb a b : ssorted a -> ssorted b ->
    arr_merge (arr_merge a b) b = arr_merge a b.
  Proof.
    intros Ha Hb. rewrite merge_assoc by auto. rewrite merge_idem by auto. reflexivity.
  Qed.

  Lemma vals_merge_eq_arr_merge a b : ssorted a -> ssorted b -> vals_merge a b = arr_merge a b.
  Proof.
    intros Ha Hb. rewrite (proj1 (vals_merge_spec a b Ha Hb)), (proj1 (merge_spec a b Ha Hb)). reflexivity.
  Qed.
  (** *** Exclude and Include split an array into two parts that Merge puts back together. *)
  Lemma lookup_filter (f : Z * V -> bool) t l : ssorted l ->
    lookup t (filter f l) =
    match lookup t l with Some v => if f (t, v) then Some v else None | None => None end.
  Proof.
    induction l as [|p r IH]; [reflexivity|]. intros [H1 H2]. cbn [filter lookup].
    destruct (tm p =? t) eqn:E.
    - assert (Hp : p = (t, snd p)) by (destruct p; unfold tm in E; cbn in *; f_equal; lia).
      rewrite <- Hp. destruct (f p) eqn:F.
      + cbn [lookup]. rewrite E. reflexivity.
      + rewrite IH by exact H2. rewrite (lookup_none t r); [reflexivity|].
        eapply Forall_impl; [|exact H1]. cbn. intros q Hq. lia.
    - destruct (f p); [cbn [lookup]; rewrite E|]; apply IH; exact H2.
  Qed.

  Lemma exclude_include_partition a mn mx : ssorted a ->
    arr_merge (arr_exclude a mn mx) (arr_include a mn mx) = a /\
    arr_merge (arr_include a mn mx) (arr_exclude a mn mx) = a.
  Proof.
    intro Ha. rewrite exclude_spec, include_spec by auto. unfold exclude_spec_f, include_spec_f.
    pose proof (ssorted_filter (fun p => negb (in_range mn mx p)) a Ha) as He.
    pose proof (ssorted_filter (in_range mn mx) a Ha) as Hi.
    split; (apply ssorted_ext; [apply merge_spec; auto | exact Ha |]);
      intro t; rewrite merge_lookup by auto; rewrite !lookup_filter by auto;
      destruct (lookup t a) as [v|]; [|reflexivity| |reflexivity];
      destruct (in_range mn mx (t, v)); reflexivity.
  Qed.
End Proofs.

(** *** The judge's two halves coincide on well-formed cases: whenever the implementation's
    outputs equal the model's they satisfy the independent oracle and vice versa, so verdicts
    1 (tie broken) and 3 (model refutes oracle) are impossible by proof. *)
Lemma rq_same_ok fam a q : ssorted a -> rq_same fam a q = rq_ok fam a q.
Proof.
  intro Hs. unfold rq_same, rq_ok.
  rewrite exclude_spec, include_spec, contains_spec by auto.
  rewrite find_range_spec by (apply ssorted_wsorted; auto). reflexivity.
Qed.

Lemma forallb_ext_all {A} (f g : A -> bool) l : (forall x, f x = g x) -> forallb f l = forallb g l.
Proof. intro H. induction l as [|x r IH]; [reflexivity|]. cbn. rewrite H, IH. reflexivity. Qed.

Lemma check_sound c : check c = V_OK \/ check c = V_BAD.
Proof.
  unfold check. destruct (c_sorted c) eqn:Esrt.
  - destruct (ssorted_b (c_a c) && ssorted_b (c_b c)) eqn:Ewf; [|auto].
    apply andb_true_iff in Ewf as [Ha Hb]. apply ssorted_b_spec in Ha, Hb.
    rewrite (forallb_ext_all (rq_same (c_fam c) (c_a c)) (rq_ok (c_fam c) (c_a c)))
      by (intro; apply rq_same_ok; auto).
    rewrite arr_merge_union, vals_merge_union, dedup_last_wins by auto.
    unfold judge. destruct (_ && _); auto.
  - destruct (c_fam c =? 1)%N eqn:Ef; [|auto]. destruct (c_fam c =? 0)%N eqn:Ef0.
    + apply N.eqb_eq in Ef, Ef0. congruence.
    + rewrite vals_merge_general, dedup_last_wins. unfold judge. destruct (_ && _); auto.
Qed.
