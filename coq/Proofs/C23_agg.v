(** C23 proofs, part 2: sort-based aggregates (percentile, median, top/bottom). *)
From Coq Require Import QArith Floats.SpecFloat Sorting.Permutation Sorting.Sorted.
From Verif Require Import Base.Prelude Model.C23 Proofs.C23.
From Coq Require Import ZifyBool.
Open Scope Z_scope.

(* ------------------------------------------------------------------ *)
(** * insertion sort by value: sorted, a permutation, stable *)
Definition sorted_v (l : list pt) : Prop := StronglySorted (fun a b => pt_v a <= pt_v b) l.

Lemma insert_perm le x l : Permutation (insert_by le x l) (x :: l).
Proof.
  induction l as [|y r IH]; cbn; [reflexivity|].
  destruct (le y x); [|reflexivity].
  rewrite IH. apply perm_swap.
Qed.

Lemma isort_by_perm_acc le l : forall acc,
  Permutation (fold_left (fun a x => insert_by le x a) l acc) (l ++ acc).
Proof.
  induction l as [|x r IH]; intro acc; cbn [fold_left app]; [reflexivity|].
  rewrite IH. rewrite insert_perm. symmetry. apply Permutation_middle.
Qed.

Lemma isort_perm l : Permutation (isort l) l.
Proof. unfold isort, isort_by. rewrite isort_by_perm_acc, app_nil_r. reflexivity. Qed.

Lemma insert_sorted x l : sorted_v l -> sorted_v (insert_by le_val x l).
Proof.
  unfold sorted_v. induction l as [|y r IH]; intro H; cbn.
  - constructor; constructor.
  - inversion H as [|? ? Hr Hy]; subst. unfold le_val at 1.
    destruct (pt_v y <=? pt_v x) eqn:E.
    + constructor; [apply IH; assumption|].
      apply Forall_forall. intros z Hz.
      apply (Permutation_in _ (insert_perm le_val x r)) in Hz. destruct Hz as [<- | Hz]; [lia|].
      rewrite Forall_forall in Hy. apply Hy, Hz.
    + constructor; [assumption|]. constructor; [lia|].
      rewrite Forall_forall in Hy |- *. intros z Hz. specialize (Hy z Hz). lia.
Qed.

Lemma isort_sorted l : sorted_v (isort l).
Proof.
  unfold isort, isort_by.
  assert (H : forall acc, sorted_v acc -> sorted_v (fold_left (fun a x => insert_by le_val x a) l acc)).
  { induction l as [|x r IH]; intros acc Ha; cbn; [assumption|]. apply IH, insert_sorted, Ha. }
  apply H. constructor.
Qed.

Lemma isort_length l : length (isort l) = length l.
Proof. apply Permutation_length, isort_perm. Qed.

(** percentile: in range the result is the point at rank i of the sorted permutation *)
Lemma pctl_at_spec i ps :
  0 <= i < Z.of_nat (length ps) ->
  exists p, pctl_at i ps = [(pt_t p, pt_v p)] /\ In p ps /\ p = nth (Z.to_nat i) (isort ps) pt0.
Proof.
  intro H. unfold pctl_at.
  replace ((i <? 0) || (i >=? Z.of_nat (length ps))) with false by lia.
  exists (nth (Z.to_nat i) (isort ps) pt0). split; [reflexivity|]. split; [|reflexivity].
  apply (Permutation_in _ (isort_perm ps)). apply nth_In. rewrite isort_length. lia.
Qed.

Lemma pctl_at_out i ps : ~ (0 <= i < Z.of_nat (length ps)) -> pctl_at i ps = [].
Proof. intro H. unfold pctl_at. replace ((i <? 0) || (i >=? Z.of_nat (length ps))) with true by lia. reflexivity. Qed.

(** the number of values strictly below / at most the value at rank i brackets i: the value
    is THE i-th order statistic whatever the sorting algorithm *)
Lemma sorted_nth_le l i j : sorted_v l -> (i <= j < length l)%nat ->
  pt_v (nth i l pt0) <= pt_v (nth j l pt0).
Proof.
  intro H. revert i j. induction H as [|a l Hl IH Ha]; intros i j Hij; cbn in Hij; [lia|].
  destruct i, j; cbn [nth]; try lia.
  - rewrite Forall_forall in Ha. apply Ha, nth_In. lia.
  - apply IH. lia.
Qed.

(* ------------------------------------------------------------------ *)
(** * median with exact arithmetic: middle element / mean of the two middle elements *)
Lemma median_exact_even lo hi :
  in_i64 (hi - lo) ->
  (inject_Z lo + inject_Z (wrap64 (hi - lo)) / inject_Z 2 == (inject_Z lo + inject_Z hi) / inject_Z 2)%Q.
Proof.
  intro H. rewrite wrap64_id by assumption.
  unfold Z.sub. rewrite inject_Z_plus, inject_Z_opp. field.
Qed.

(* ------------------------------------------------------------------ *)
(** * top / bottom *)
Lemma better_trans top a b c : better top a b = true -> better top b c = true -> better top a c = true.
Proof.
  unfold better. intros H1 H2.
  destruct (pt_v a =? pt_v b) eqn:E1, (pt_v b =? pt_v c) eqn:E2, (pt_v a =? pt_v c) eqn:E3, top; lia.
Qed.

Lemma better_negtrans top p y l : better top p y = true -> better top l y = false -> better top p l = true.
Proof.
  unfold better. intros H1 H2.
  destruct (pt_v p =? pt_v y) eqn:E1, (pt_v l =? pt_v y) eqn:E2, (pt_v p =? pt_v l) eqn:E3, top; lia.
Qed.

Definition sorted_b top (l : list pt) : Prop := StronglySorted (fun a b => better top b a = false) l.

Lemma ins_best_in top x l z : In z (ins_best top x l) -> z = x \/ In z l.
Proof.
  induction l as [|y r IH]; cbn.
  - intros [H|[]]; auto.
  - destruct (better top x y); cbn.
    + intros [H|H]; auto.
    + intros [H|H]; auto. destruct (IH H); auto.
Qed.

Lemma ins_best_sorted top x l : sorted_b top l -> sorted_b top (ins_best top x l).
Proof.
  unfold sorted_b. induction l as [|y r IH]; intro H; cbn.
  - constructor; constructor.
  - inversion H as [|? ? Hr Hy]; subst.
    destruct (better top x y) eqn:E.
    + constructor; [assumption|]. rewrite Forall_forall in Hy |- *.
      intros z [<- | Hz].
      * destruct (better top y x) eqn:E2; [|reflexivity].
        pose proof (better_trans top x y x E E2) as K. unfold better in K.
        rewrite Z.eqb_refl in K. lia.
      * specialize (Hy z Hz). destruct (better top z x) eqn:E2; [|reflexivity].
        rewrite (better_trans top z x y E2 E) in Hy. discriminate.
    + constructor; [apply IH; assumption|].
      rewrite Forall_forall in Hy |- *. intros z Hz.
      apply ins_best_in in Hz as [-> | Hz]; [assumption | apply Hy, Hz].
Qed.

Lemma sorted_b_last top y l :
  sorted_b top (y :: l) -> better top (last (y :: l) pt0) y = false.
Proof.
  intro H. inversion H as [|? ? Hr Hy]; subst.
  destruct l as [|z r]; [|].
  - cbn. unfold better. rewrite Z.eqb_refl. lia.
  - rewrite Forall_forall in Hy. apply Hy.
    change (last (y :: z :: r) pt0) with (last (z :: r) pt0).
    assert (K : forall (q : list pt) d, q <> [] -> In (last q d) q).
    { clear. induction q as [|a q IHq]; intros d Hne; [congruence|].
      destruct q as [|b q]; [left; reflexivity|]. right. apply IHq. discriminate. }
    apply K. discriminate.
Qed.

(** firstn n after an insertion only depends on the first n elements *)
Lemma firstn_ins_firstn top x l : forall n,
  firstn n (ins_best top x (firstn n l)) = firstn n (ins_best top x l).
Proof.
  induction l as [|y r IH]; intro n.
  - rewrite firstn_nil. reflexivity.
  - destruct n as [|n]; [reflexivity|].
    rewrite (firstn_cons n y r). cbn [ins_best]. destruct (better top x y).
    + rewrite !(firstn_cons n x). f_equal. destruct n as [|n]; [reflexivity|].
      rewrite !(firstn_cons n y). f_equal.
      rewrite firstn_firstn. f_equal. lia.
    + rewrite !(firstn_cons n y). f_equal. apply IH.
Qed.

(** a full, sorted buffer: insert-and-truncate = "replace the worst if the new point beats it" *)
Lemma ins_best_cons top x y l :
  ins_best top x (y :: l) = if better top x y then x :: y :: l else y :: ins_best top x l.
Proof. reflexivity. Qed.

Lemma removelast_length (l : list pt) : l <> [] -> S (length (removelast l)) = length l.
Proof.
  intro H. pose proof (app_removelast_last pt0 H) as A.
  apply (f_equal (@length pt)) in A. rewrite app_length in A. cbn [length] in A. lia.
Qed.

Lemma firstn_ins_full top x st : forall n,
  length st = n -> (1 <= n)%nat -> sorted_b top st ->
  firstn n (ins_best top x st) =
  if better top x (last st pt0) then ins_best top x (removelast st) else st.
Proof.
  induction st as [|y r IH]; intros n Hlen Hn Hs; [cbn in Hlen; lia|].
  destruct r as [|z r].
  - cbn in Hlen. subst n. cbn. destruct (better top x y); reflexivity.
  - destruct n as [|n]; [lia|]. cbn [length] in Hlen.
    change (last (y :: z :: r) pt0) with (last (z :: r) pt0).
    change (removelast (y :: z :: r)) with (y :: removelast (z :: r)).
    rewrite (ins_best_cons top x y (z :: r)), (ins_best_cons top x y (removelast (z :: r))).
    destruct (better top x y) eqn:E.
    + pose proof (sorted_b_last top y (z :: r) Hs) as HL.
      change (last (y :: z :: r) pt0) with (last (z :: r) pt0) in HL.
      rewrite (better_negtrans top x y _ E HL).
      rewrite firstn_cons. f_equal.
      assert (A : y :: z :: r = (y :: removelast (z :: r)) ++ [last (z :: r) pt0]).
      { cbn [app]. f_equal. apply app_removelast_last. discriminate. }
      rewrite A.
      assert (L : n = length (y :: removelast (z :: r))).
      { cbn [length]. pose proof (removelast_length (z :: r) ltac:(discriminate)) as R.
        cbn [length] in R. lia. }
      rewrite L at 1. rewrite firstn_app, Nat.sub_diag, firstn_all. cbn [firstn]. apply app_nil_r.
    + rewrite firstn_cons. inversion Hs as [|? ? Hr Hy]; subst.
      rewrite (IH n); [| cbn [length] in *; lia | cbn [length] in *; lia | assumption].
      destruct (better top x (last (z :: r) pt0)); reflexivity.
Qed.

Lemma firstn_sorted_b top l n : sorted_b top l -> sorted_b top (firstn n l).
Proof.
  unfold sorted_b. intro H. revert n. induction H as [|a l Hl IH Ha]; intro n.
  - rewrite firstn_nil. constructor.
  - destruct n; [constructor|]. cbn [firstn]. constructor; [apply IH|].
    rewrite Forall_forall in Ha |- *. intros z Hz. apply Ha.
    rewrite <- (firstn_skipn n l). apply in_or_app. left. exact Hz.
Qed.

Lemma tb_agg_step top n L p :
  (1 <= n)%nat -> sorted_b top L ->
  tb_agg top n (firstn n L) p = firstn n (ins_best top p L).
Proof.
  intros Hn Hs. unfold tb_agg. rewrite <- firstn_ins_firstn.
  destruct (Nat.eqb (length (firstn n L)) n) eqn:E.
  - apply Nat.eqb_eq in E. symmetry. apply firstn_ins_full; auto using firstn_sorted_b.
  - apply Nat.eqb_neq in E. pose proof (firstn_le_length n L).
    symmetry. apply firstn_all2.
    assert (K : forall l, length (ins_best top p l) = S (length l)).
    { induction l as [|y r IH]; cbn; [reflexivity|]. destruct (better top p y); cbn; [reflexivity|]. rewrite IH. reflexivity. }
    rewrite K. lia.
Qed.

Lemma topbottom_eq_def top n ps : (1 <= n)%nat -> topbottom_run top n ps = topbottom_def top n ps.
Proof.
  intro Hn. unfold topbottom_run, topbottom_def, sort_best. f_equal.
  assert (H : forall L, sorted_b top L ->
            fold_left (tb_agg top n) ps (firstn n L) = firstn n (fold_left (fun acc x => ins_best top x acc) ps L)).
  { induction ps as [|p r IH]; intros L HL; cbn [fold_left]; [reflexivity|].
    rewrite tb_agg_step by assumption. apply IH, ins_best_sorted, HL. }
  specialize (H [] ltac:(constructor)). rewrite firstn_nil in H. exact H.
Qed.

(** [sort_best] really sorts: best-first, and a permutation of the input *)
Lemma sort_best_sorted top ps : sorted_b top (sort_best top ps).
Proof.
  unfold sort_best.
  assert (H : forall L, sorted_b top L -> sorted_b top (fold_left (fun acc x => ins_best top x acc) ps L)).
  { induction ps as [|p r IH]; intros L HL; cbn; [assumption|]. apply IH, ins_best_sorted, HL. }
  apply H. constructor.
Qed.

Lemma ins_best_perm top x l : Permutation (ins_best top x l) (x :: l).
Proof.
  induction l as [|y r IH]; cbn; [reflexivity|].
  destruct (better top x y); [reflexivity|]. rewrite IH. apply perm_swap.
Qed.

Lemma sort_best_perm top ps : Permutation (sort_best top ps) ps.
Proof.
  unfold sort_best.
  assert (H : forall L, Permutation (fold_left (fun acc x => ins_best top x acc) ps L) (ps ++ L)).
  { induction ps as [|p r IH]; intro L; cbn [fold_left app]; [reflexivity|].
    rewrite IH, ins_best_perm. symmetry. apply Permutation_middle. }
  rewrite H, app_nil_r. reflexivity.
Qed.
