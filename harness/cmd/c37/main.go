// C37 driver: the REAL sorted-array algebra of influxdb —
//
//	tsdb/cursors:  FloatArray, IntegerArray, UnsignedArray, StringArray, BooleanArray
//	               (.Merge/.Exclude/.Include/.FindRange) and TimestampArray (.Exclude/.FindRange/.Contains)
//	tsm1:          Values, FloatValues, IntegerValues, UnsignedValues, StringValues, BooleanValues
//	               (.Merge/.Exclude/.Include/.FindRange/.Deduplicate)
//
// — on generated arrays; results go to the Coq judge Model/C37.v:check as Gallina terms.
// Values are small integers mapped to float64/int64/uint64/string/bool per type (bool: {0,1}).
// Every call gets a fresh copy of its inputs (the code mutates in place / aliases).
package main

import (
	"fmt"
	"math"
	"sort"
	"strconv"
	"strings"

	"github.com/influxdata/influxdb/v2/tsdb/cursors"
	"github.com/influxdata/influxdb/v2/tsdb/engine/tsm1"
	"verifh/vh"
)

type pt = [2]int64 // (timestamp, value code)

type jq struct {
	Mn       int64  `json:"min"`
	Mx       int64  `json:"max"`
	Excl     []pt   `json:"impl_exclude"`
	Incl     []pt   `json:"impl_include,omitempty"`
	Fr       [2]int `json:"impl_find_range"`
	Contains bool   `json:"impl_contains,omitempty"`
}
type jcase struct {
	Type   string `json:"type"`
	Sorted bool   `json:"sorted_inputs"`
	A      []pt   `json:"a"`
	B      []pt   `json:"b"`
	Merge  []pt   `json:"impl_merge"`
	Dedup  []pt   `json:"impl_dedup_a,omitempty"`
	Qs     []jq   `json:"queries"`
	Panic  string `json:"impl_panic,omitempty"`
}

// impl is one concrete array type of the real code behind a uniform []pt interface.
type impl struct {
	name     string
	fam      int  // 0 cursors.*Array, 1 tsm1 *Values, 2 cursors.TimestampArray
	isBool   bool // value codes must be in {0,1}
	merge    func(a, b []pt) []pt
	exclude  func(a []pt, mn, mx int64) []pt
	include  func(a []pt, mn, mx int64) []pt
	find     func(a []pt, mn, mx int64) (int, int)
	dedup    func(a []pt) []pt
	contains func(a []pt, mn, mx int64) bool
}

func cursorImpl[T any, A any](name string, isBool bool,
	mk func(ts []int64, vs []T) *A, get func(*A) ([]int64, []T),
	enc func(int64) T, dec func(T) int64,
	merge func(a, b *A), excl func(a *A, mn, mx int64), incl func(a *A, mn, mx int64),
	fr func(a *A, mn, mx int64) (int, int)) impl {
	in := func(p []pt) *A { // fresh backing arrays, len == cap
		ts := make([]int64, len(p))
		vs := make([]T, len(p))
		for i, x := range p {
			ts[i], vs[i] = x[0], enc(x[1])
		}
		return mk(ts, vs)
	}
	out := func(a *A) []pt {
		ts, vs := get(a)
		if len(ts) != len(vs) {
			panic(fmt.Sprintf("Timestamps/Values length mismatch %d/%d", len(ts), len(vs)))
		}
		r := make([]pt, len(ts))
		for i := range ts {
			r[i] = pt{ts[i], dec(vs[i])}
		}
		return r
	}
	return impl{name: name, fam: 0, isBool: isBool,
		merge:   func(a, b []pt) []pt { x, y := in(a), in(b); merge(x, y); return out(x) },
		exclude: func(a []pt, mn, mx int64) []pt { x := in(a); excl(x, mn, mx); return out(x) },
		include: func(a []pt, mn, mx int64) []pt { x := in(a); incl(x, mn, mx); return out(x) },
		find:    func(a []pt, mn, mx int64) (int, int) { return fr(in(a), mn, mx) },
	}
}

func valuesImpl[E any, S ~[]E](name string, isBool bool,
	mk func(t, v int64) E, get func(E) (int64, int64),
	merge func(a, b S) S, excl func(a S, mn, mx int64) S, incl func(a S, mn, mx int64) S,
	fr func(a S, mn, mx int64) (int, int), dedup func(a S) S) impl {
	in := func(p []pt) S {
		s := make(S, len(p))
		for i, x := range p {
			s[i] = mk(x[0], x[1])
		}
		return s
	}
	out := func(s S) []pt {
		r := make([]pt, len(s))
		for i, e := range s {
			t, v := get(e)
			r[i] = pt{t, v}
		}
		return r
	}
	return impl{name: name, fam: 1, isBool: isBool,
		merge:   func(a, b []pt) []pt { return out(merge(in(a), in(b))) },
		exclude: func(a []pt, mn, mx int64) []pt { return out(excl(in(a), mn, mx)) },
		include: func(a []pt, mn, mx int64) []pt { return out(incl(in(a), mn, mx)) },
		find:    func(a []pt, mn, mx int64) (int, int) { return fr(in(a), mn, mx) },
		dedup:   func(a []pt) []pt { return out(dedup(in(a))) },
	}
}

func b2i(b bool) int64 {
	if b {
		return 1
	}
	return 0
}
func s2i(s string) int64 {
	v, err := strconv.ParseInt(strings.TrimPrefix(s, "v"), 10, 64)
	if err != nil {
		panic("bad string value " + s)
	}
	return v
}

func impls() []impl {
	return []impl{
		cursorImpl("cursors.FloatArray", false,
			func(ts []int64, vs []float64) *cursors.FloatArray {
				return &cursors.FloatArray{Timestamps: ts, Values: vs}
			},
			func(a *cursors.FloatArray) ([]int64, []float64) { return a.Timestamps, a.Values },
			func(v int64) float64 { return float64(v) + 0.5 }, func(f float64) int64 { return int64(math.Floor(f)) },
			(*cursors.FloatArray).Merge, (*cursors.FloatArray).Exclude, (*cursors.FloatArray).Include, (*cursors.FloatArray).FindRange),
		cursorImpl("cursors.IntegerArray", false,
			func(ts []int64, vs []int64) *cursors.IntegerArray {
				return &cursors.IntegerArray{Timestamps: ts, Values: vs}
			},
			func(a *cursors.IntegerArray) ([]int64, []int64) { return a.Timestamps, a.Values },
			func(v int64) int64 { return v }, func(v int64) int64 { return v },
			(*cursors.IntegerArray).Merge, (*cursors.IntegerArray).Exclude, (*cursors.IntegerArray).Include, (*cursors.IntegerArray).FindRange),
		cursorImpl("cursors.UnsignedArray", false,
			func(ts []int64, vs []uint64) *cursors.UnsignedArray {
				return &cursors.UnsignedArray{Timestamps: ts, Values: vs}
			},
			func(a *cursors.UnsignedArray) ([]int64, []uint64) { return a.Timestamps, a.Values },
			func(v int64) uint64 { return uint64(v) }, func(v uint64) int64 { return int64(v) },
			(*cursors.UnsignedArray).Merge, (*cursors.UnsignedArray).Exclude, (*cursors.UnsignedArray).Include, (*cursors.UnsignedArray).FindRange),
		cursorImpl("cursors.StringArray", false,
			func(ts []int64, vs []string) *cursors.StringArray {
				return &cursors.StringArray{Timestamps: ts, Values: vs}
			},
			func(a *cursors.StringArray) ([]int64, []string) { return a.Timestamps, a.Values },
			func(v int64) string { return "v" + strconv.FormatInt(v, 10) }, s2i,
			(*cursors.StringArray).Merge, (*cursors.StringArray).Exclude, (*cursors.StringArray).Include, (*cursors.StringArray).FindRange),
		cursorImpl("cursors.BooleanArray", true,
			func(ts []int64, vs []bool) *cursors.BooleanArray {
				return &cursors.BooleanArray{Timestamps: ts, Values: vs}
			},
			func(a *cursors.BooleanArray) ([]int64, []bool) { return a.Timestamps, a.Values },
			func(v int64) bool { return v != 0 }, b2i,
			(*cursors.BooleanArray).Merge, (*cursors.BooleanArray).Exclude, (*cursors.BooleanArray).Include, (*cursors.BooleanArray).FindRange),
		timestampImpl(),
		valuesImpl[tsm1.Value, tsm1.Values]("tsm1.Values", false,
			func(t, v int64) tsm1.Value { // the generic slice holds any Value type: rotate over three of them
				switch ((t % 3) + 3) % 3 {
				case 0:
					return tsm1.NewIntegerValue(t, v)
				case 1:
					return tsm1.NewFloatValue(t, float64(v)+0.5)
				}
				return tsm1.NewStringValue(t, "v"+strconv.FormatInt(v, 10))
			},
			func(e tsm1.Value) (int64, int64) {
				switch x := e.Value().(type) {
				case int64:
					return e.UnixNano(), x
				case float64:
					return e.UnixNano(), int64(math.Floor(x))
				case string:
					return e.UnixNano(), s2i(x)
				}
				panic(fmt.Sprintf("unexpected Value %T", e))
			},
			tsm1.Values.Merge, tsm1.Values.Exclude, tsm1.Values.Include, tsm1.Values.FindRange, tsm1.Values.Deduplicate),
		valuesImpl[tsm1.FloatValue, tsm1.FloatValues]("tsm1.FloatValues", false,
			func(t, v int64) tsm1.FloatValue { return tsm1.NewFloatValue(t, float64(v)+0.5).(tsm1.FloatValue) },
			func(e tsm1.FloatValue) (int64, int64) { return e.UnixNano(), int64(math.Floor(e.RawValue())) },
			tsm1.FloatValues.Merge, tsm1.FloatValues.Exclude, tsm1.FloatValues.Include, tsm1.FloatValues.FindRange, tsm1.FloatValues.Deduplicate),
		valuesImpl[tsm1.IntegerValue, tsm1.IntegerValues]("tsm1.IntegerValues", false,
			func(t, v int64) tsm1.IntegerValue { return tsm1.NewIntegerValue(t, v).(tsm1.IntegerValue) },
			func(e tsm1.IntegerValue) (int64, int64) { return e.UnixNano(), e.RawValue() },
			tsm1.IntegerValues.Merge, tsm1.IntegerValues.Exclude, tsm1.IntegerValues.Include, tsm1.IntegerValues.FindRange, tsm1.IntegerValues.Deduplicate),
		valuesImpl[tsm1.UnsignedValue, tsm1.UnsignedValues]("tsm1.UnsignedValues", false,
			func(t, v int64) tsm1.UnsignedValue { return tsm1.NewUnsignedValue(t, uint64(v)).(tsm1.UnsignedValue) },
			func(e tsm1.UnsignedValue) (int64, int64) { return e.UnixNano(), int64(e.RawValue()) },
			tsm1.UnsignedValues.Merge, tsm1.UnsignedValues.Exclude, tsm1.UnsignedValues.Include, tsm1.UnsignedValues.FindRange, tsm1.UnsignedValues.Deduplicate),
		valuesImpl[tsm1.StringValue, tsm1.StringValues]("tsm1.StringValues", false,
			func(t, v int64) tsm1.StringValue {
				return tsm1.NewStringValue(t, "v"+strconv.FormatInt(v, 10)).(tsm1.StringValue)
			},
			func(e tsm1.StringValue) (int64, int64) { return e.UnixNano(), s2i(e.RawValue()) },
			tsm1.StringValues.Merge, tsm1.StringValues.Exclude, tsm1.StringValues.Include, tsm1.StringValues.FindRange, tsm1.StringValues.Deduplicate),
		valuesImpl[tsm1.BooleanValue, tsm1.BooleanValues]("tsm1.BooleanValues", true,
			func(t, v int64) tsm1.BooleanValue { return tsm1.NewBooleanValue(t, v != 0).(tsm1.BooleanValue) },
			func(e tsm1.BooleanValue) (int64, int64) { return e.UnixNano(), b2i(e.RawValue()) },
			tsm1.BooleanValues.Merge, tsm1.BooleanValues.Exclude, tsm1.BooleanValues.Include, tsm1.BooleanValues.FindRange, tsm1.BooleanValues.Deduplicate),
	}
}

func timestampImpl() impl {
	in := func(p []pt) *cursors.TimestampArray {
		ts := make([]int64, len(p))
		for i, x := range p {
			ts[i] = x[0]
		}
		return &cursors.TimestampArray{Timestamps: ts}
	}
	return impl{name: "cursors.TimestampArray", fam: 2,
		exclude: func(a []pt, mn, mx int64) []pt {
			x := in(a)
			x.Exclude(mn, mx)
			r := make([]pt, len(x.Timestamps))
			for i, t := range x.Timestamps {
				r[i] = pt{t, 0}
			}
			return r
		},
		find:     func(a []pt, mn, mx int64) (int, int) { return in(a).FindRange(mn, mx) },
		contains: func(a []pt, mn, mx int64) bool { return in(a).Contains(mn, mx) },
	}
}

// ---- rendering ----

func zlit(v int64) string {
	if v < 0 {
		return fmt.Sprintf("(%d)", v)
	}
	return strconv.FormatInt(v, 10)
}
func arrTerm(a []pt) string {
	xs := make([]string, len(a))
	for i, p := range a {
		xs[i] = "(" + zlit(p[0]) + "," + zlit(p[1]) + ")"
	}
	return "[" + strings.Join(xs, ";") + "]"
}

var byName = map[string]impl{}
var all []impl

func isSorted(a []pt) bool {
	for i := 1; i < len(a); i++ {
		if a[i-1][0] >= a[i][0] {
			return false
		}
	}
	return true
}

func run(w *vh.W, c *jcase) {
	im, ok := byName[c.Type]
	if !ok {
		fmt.Println("unknown type", c.Type)
		return
	}
	c.Merge, c.Dedup, c.Panic = nil, nil, ""
	if im.fam == 2 { // TimestampArray carries no values and has no Merge
		a := make([]pt, len(c.A))
		for i, p := range c.A {
			a[i] = pt{p[0], 0}
		}
		c.A, c.B = a, nil
	}
	guard := func(what string, f func()) {
		if p := vh.Guard(f); p != "" && c.Panic == "" {
			c.Panic = what + " panicked: " + p
		}
	}
	if im.merge != nil {
		guard("Merge", func() { c.Merge = im.merge(c.A, c.B) })
	}
	if im.dedup != nil {
		guard("Deduplicate", func() { c.Dedup = im.dedup(c.A) })
	}
	qterms := make([]string, 0, len(c.Qs))
	cut := false
	if c.Sorted {
		for i := range c.Qs {
			q := &c.Qs[i]
			q.Excl, q.Incl, q.Contains = nil, nil, false
			guard("Exclude", func() { q.Excl = im.exclude(c.A, q.Mn, q.Mx) })
			guard("FindRange", func() { q.Fr[0], q.Fr[1] = im.find(c.A, q.Mn, q.Mx) })
			if im.include != nil {
				guard("Include", func() { q.Incl = im.include(c.A, q.Mn, q.Mx) })
			}
			if im.contains != nil {
				guard("Contains", func() { q.Contains = im.contains(c.A, q.Mn, q.Mx) })
			}
			if len(q.Excl) > 0 && len(q.Excl) < len(c.A) {
				cut = true
			}
			qterms = append(qterms, fmt.Sprintf("{| q_mn := %s; q_mx := %s; q_excl := %s; q_incl := %s; q_fr := (%s,%s); q_contains := %s |}",
				zlit(q.Mn), zlit(q.Mx), arrTerm(q.Excl), arrTerm(q.Incl), zlit(int64(q.Fr[0])), zlit(int64(q.Fr[1])), vh.Bool(q.Contains)))
		}
	} else {
		c.Qs = nil
	}
	// non-trivial: a real merge (both non-empty and time-overlapping hulls), a range query that
	// removes some but not all points, or (unsorted stream) an input that really needs sort/dedup.
	nontrivial := cut
	if len(c.A) > 0 && len(c.B) > 0 && im.merge != nil {
		if c.Sorted {
			if !(c.A[len(c.A)-1][0] < c.B[0][0] || c.B[len(c.B)-1][0] < c.A[0][0]) {
				nontrivial = true
			}
		} else if !isSorted(c.A) || !isSorted(c.B) {
			nontrivial = true
		}
	}
	t := fmt.Sprintf("{| c_fam := %d%%N; c_sorted := %s; c_a := %s; c_b := %s; c_merge := %s; c_dedup := %s; c_qs := %s |}",
		im.fam, vh.Bool(c.Sorted), arrTerm(c.A), arrTerm(c.B), arrTerm(c.Merge), arrTerm(c.Dedup), vh.List(qterms))
	idx := w.Add(t, c, nontrivial, "")
	if c.Panic != "" {
		w.Fail(idx, c.Panic, "")
	}
	w.Count("type", c.Type)
	w.Count("sorted_inputs", fmt.Sprint(c.Sorted))
	w.Count("len_a", bucket(len(c.A)))
	w.Count("len_b", bucket(len(c.B)))
	w.Count("queries", fmt.Sprint(len(c.Qs)))
}

func bucket(n int) string {
	switch {
	case n == 0:
		return "0"
	case n <= 2:
		return "1-2"
	case n <= 8:
		return "3-8"
	case n <= 20:
		return "9-20"
	}
	return "21+"
}

const minI, maxI = math.MinInt64, math.MaxInt64

// ---- generators ----

type gen struct {
	w *vh.W
}

func (g gen) val(isBool bool, who, i int) int64 {
	r := g.w.Rng
	if isBool {
		if r.IntN(2) == 0 {
			return int64(who) // a -> false, b -> true
		}
		return int64(r.IntN(2))
	}
	if r.IntN(2) == 0 {
		return int64(2*i + who) // unique ids: even for a, odd for b
	}
	return int64(r.IntN(4))
}

// sortedArr: a strictly increasing array over [lo, lo+dom), optionally with int64 extremes at the ends.
func (g gen) sortedArr(isBool bool, who int, lo, dom int, extremes bool) []pt {
	r := g.w.Rng
	var ts []int64
	switch r.IntN(8) {
	case 0: // empty
	case 1: // singleton
		ts = []int64{int64(lo + r.IntN(dom))}
	default:
		p := []int{1, 2, 3, 5, 7, 8}[r.IntN(6)] // density p/8
		for t := lo; t < lo+dom; t++ {
			if r.IntN(8) < p {
				ts = append(ts, int64(t))
			}
		}
	}
	if len(ts) > 40 {
		ts = ts[:40]
	}
	if extremes {
		switch r.IntN(6) {
		case 0:
			ts = append([]int64{minI}, ts...)
		case 1:
			ts = append(ts, maxI)
		case 2:
			ts = append(append([]int64{minI, minI + 1}, ts...), maxI-1, maxI)
		case 3:
			ts = append(append([]int64{minI}, ts...), maxI)
		}
	}
	a := make([]pt, len(ts))
	for i, t := range ts {
		a[i] = pt{t, g.val(isBool, who, i)}
	}
	return a
}

func (g gen) unsortedArr(isBool bool, who int, dom int) []pt {
	r := g.w.Rng
	var n int
	switch r.IntN(6) {
	case 0:
		n = r.IntN(3)
	case 1:
		n = 3 + r.IntN(5)
	default:
		n = r.IntN(41)
	}
	a := make([]pt, n)
	for i := range a {
		a[i] = pt{int64(r.IntN(dom)), 0}
	}
	switch r.IntN(5) {
	case 0: // sorted with duplicates
		sort.SliceStable(a, func(i, j int) bool { return a[i][0] < a[j][0] })
	case 1: // reverse sorted
		sort.SliceStable(a, func(i, j int) bool { return a[i][0] > a[j][0] })
	case 2: // strictly sorted then one defect (a swap or a duplicated neighbour)
		b := g.sortedArr(isBool, who, 0, dom, r.IntN(4) == 0)
		if len(b) >= 2 {
			i := 1 + r.IntN(len(b)-1)
			if r.IntN(2) == 0 {
				b[i-1], b[i] = b[i], b[i-1]
			} else {
				b[i][0] = b[i-1][0]
			}
		}
		a = b
	}
	if r.IntN(10) == 0 && len(a) > 0 {
		a[r.IntN(len(a))][0] = []int64{minI, maxI}[r.IntN(2)]
	}
	for i := range a {
		a[i][1] = g.val(isBool, who, i)
	}
	return a
}

func (g gen) ranges(a []pt, dom int, k int) []jq {
	r := g.w.Rng
	at := func() int64 {
		if len(a) == 0 {
			return int64(r.IntN(dom))
		}
		switch r.IntN(4) {
		case 0:
			return a[0][0]
		case 1:
			return a[len(a)-1][0]
		}
		return a[r.IntN(len(a))][0]
	}
	pick := func() int64 {
		switch r.IntN(12) {
		case 0:
			return minI
		case 1:
			return maxI
		case 2:
			return at() - 1 // may wrap at MinInt64: still a legal int64 bound
		case 3:
			return at() + 1
		case 4, 5, 6:
			return at()
		}
		return int64(r.IntN(dom+4) - 2)
	}
	qs := make([]jq, 0, k)
	for i := 0; i < k; i++ {
		mn, mx := pick(), pick()
		switch r.IntN(10) {
		case 0: // point range
			mx = mn
		case 1, 2, 3, 4, 5: // mostly min <= max
			if mn > mx {
				mn, mx = mx, mn
			}
		case 6: // forced min > max
			if mn < mx {
				mn, mx = mx, mn
			}
		}
		qs = append(qs, jq{Mn: mn, Mx: mx})
	}
	return qs
}

func (g gen) randomCase(im impl) jcase {
	r := g.w.Rng
	dom := []int{6, 6, 12, 12, 25, 25, 25, 64}[r.IntN(8)]
	c := jcase{Type: im.name, Sorted: true}
	if im.fam == 1 && r.IntN(4) == 0 {
		c.Sorted = false
		c.A = g.unsortedArr(im.isBool, 0, dom)
		c.B = g.unsortedArr(im.isBool, 1, dom)
		if r.IntN(3) == 0 { // one side already sorted+deduplicated
			if r.IntN(2) == 0 {
				c.A = g.sortedArr(im.isBool, 0, 0, dom, false)
			} else {
				c.B = g.sortedArr(im.isBool, 1, 0, dom, false)
			}
		}
		return c
	}
	ext := r.IntN(5) == 0
	c.A = g.sortedArr(im.isBool, 0, 0, dom, ext)
	switch r.IntN(8) {
	case 0: // b entirely after a (append fast path) or touching a's last element
		c.B = g.sortedArr(im.isBool, 1, dom-1+r.IntN(3), dom, false)
	case 1: // b entirely before a, or touching a's first element
		c.B = g.sortedArr(im.isBool, 1, -dom+r.IntN(3)-1, dom, false)
	case 2: // equal first elements
		c.B = g.sortedArr(im.isBool, 1, 0, dom, ext)
		if len(c.A) > 0 && len(c.B) > 0 && c.B[0][0] != minI {
			if len(c.B) == 1 || c.A[0][0] < c.B[1][0] {
				c.B[0][0] = c.A[0][0]
			}
		}
	default:
		c.B = g.sortedArr(im.isBool, 1, 0, dom, ext && r.IntN(2) == 0)
	}
	if !isSorted(c.B) || !isSorted(c.A) {
		panic("generator produced an unsorted array")
	}
	c.Qs = g.ranges(c.A, dom, 2+r.IntN(4))
	return c
}

func pts(ts []int64, f func(i int, t int64) int64) []pt {
	a := make([]pt, len(ts))
	for i, t := range ts {
		a[i] = pt{t, f(i, t)}
	}
	return a
}

// hand-picked regression / edge cases, for every type
func (g gen) fixed(im impl) []jcase {
	v := func(who int) func(int, int64) int64 {
		return func(i int, t int64) int64 {
			if im.isBool {
				return int64(who)
			}
			return int64(2*i + who)
		}
	}
	A := func(ts ...int64) []pt { return pts(ts, v(0)) }
	B := func(ts ...int64) []pt { return pts(ts, v(1)) }
	Q := func(xs ...int64) []jq {
		var qs []jq
		for i := 0; i+1 < len(xs); i += 2 {
			qs = append(qs, jq{Mn: xs[i], Mx: xs[i+1]})
		}
		return qs
	}
	cs := []jcase{
		{A: A(), B: B(), Qs: Q(0, 0, minI, maxI, maxI, minI)},
		{A: A(), B: B(1, 2, 3), Qs: Q(1, 3)},
		{A: A(1, 2, 3), B: B(), Qs: Q(1, 3, 0, 4, 2, 2, 3, 1, 1, 1, 3, 3, 0, 0, 4, 4, 0, 1, 3, 4, 2, 3, 1, 2)},
		{A: A(1, 2, 3), B: B(4, 5), Qs: Q(minI, maxI, minI, 2, 2, maxI, minI, minI, maxI, maxI)},
		{A: A(4, 5), B: B(1, 2, 3), Qs: Q(4, 5, 5, 5, 4, 4, 5, 4, 3, 4, 5, 6)},
		{A: A(1, 3), B: B(3, 4), Qs: Q(2, 2, 0, 2, 2, 9)},                         // a.max == b.min
		{A: A(3, 4), B: B(1, 3), Qs: Q(3, 3)},                                       // b.max == a.min
		{A: A(1, 5, 9), B: B(1, 5, 9), Qs: Q(2, 4, 6, 8, 1, 9, 5, 5, 2, 8, 0, 10)}, // identical times, gaps
		{A: A(1, 5, 9), B: B(1, 2), Qs: Q(1, 5, 5, 9)},                              // equal first elements
		{A: A(1, 5, 9), B: B(0, 5, 10), Qs: Q(0, 1, 9, 10)},
		{A: A(1, 5, 9), B: B(5), Qs: Q(2, 8)},
		{A: A(5), B: B(1, 5, 9), Qs: Q(5, 5, 4, 6, 4, 4, 6, 6, 6, 4)},
		{A: A(minI, 0, maxI), B: B(minI, maxI), Qs: Q(minI, maxI, minI, minI, maxI, maxI, minI+1, maxI-1, minI, 0, 0, maxI, maxI, minI, 1, maxI, minI, -1)},
		{A: A(minI, minI+1, maxI-1, maxI), B: B(minI+1, maxI-1), Qs: Q(minI+1, maxI-1, minI, minI+1, maxI-1, maxI, minI+2, maxI-2)},
		{A: A(0, 1, 2, 3, 4, 5, 6, 7, 8, 9, 10, 11, 12, 13, 14, 15, 16), B: B(2, 4, 6, 8, 10, 12, 14, 16, 18), Qs: Q(0, 16, 1, 15, 8, 8, 0, 0, 16, 16, 7, 9, -1, 17, 16, 17, -1, 0)},
	}
	for i := range cs {
		cs[i].Type, cs[i].Sorted = im.name, true
	}
	if im.fam == 1 {
		us := []jcase{
			{A: A(3, 1, 3, 2, 1), B: B(2, 1, 2)},
			{A: A(1, 1), B: B(1)},
			{A: A(1, 2, 2, 3), B: B(0, 4)},
			{A: A(2, 1), B: B()},
			{A: A(), B: B(2, 1, 2)},
			{A: A(5, 5, 5, 5), B: B(5, 5)},
			{A: A(1, 2, 3), B: B(3, 2, 1)},
			{A: A(maxI, minI, 0, maxI), B: B(0, minI)},
			{A: A(9, 8, 7, 6, 5, 4, 3, 2, 1), B: B(1, 3, 5, 7, 9, 9)},
		}
		for i := range us {
			us[i].Type, us[i].Sorted = im.name, false
		}
		cs = append(cs, us...)
	}
	return cs
}

// exhaustive: every pair of strictly increasing arrays over timestamps {0..d-1} for Merge
// (a's values 2t resp. false, b's values 2t+1 resp. true: all points distinguishable), every
// strictly increasing array over {0..d-1} with every range (min,max) in G x G,
// G = {MinInt64,-1,0..d,MaxInt64}, and (tsm1) every pair of lists of length <= 3 over timestamps {0,1,2}.
func (g gen) exhaustive(d int) int {
	n0 := g.w.Len()
	subsets := func(who int, isBool bool) [][]pt {
		var out [][]pt
		for m := 0; m < 1<<d; m++ {
			var a []pt
			for t := 0; t < d; t++ {
				if m&(1<<t) != 0 {
					v := int64(2*t + who)
					if isBool {
						v = int64(who)
					}
					a = append(a, pt{int64(t), v})
				}
			}
			out = append(out, a)
		}
		return out
	}
	grid := []int64{minI, -1}
	for t := 0; t <= d; t++ {
		grid = append(grid, int64(t))
	}
	grid = append(grid, maxI)
	var allq []jq
	for _, mn := range grid {
		for _, mx := range grid {
			allq = append(allq, jq{Mn: mn, Mx: mx})
		}
	}
	var lists [][]int64
	lists = append(lists, nil)
	for l := 1; l <= 3; l++ {
		tot := 1
		for i := 0; i < l; i++ {
			tot *= 3
		}
		for m := 0; m < tot; m++ {
			x := m
			ts := make([]int64, l)
			for i := range ts {
				ts[i] = int64(x % 3)
				x /= 3
			}
			lists = append(lists, ts)
		}
	}
	for _, im := range all {
		as, bs := subsets(0, im.isBool), subsets(1, im.isBool)
		for _, a := range as {
			c := jcase{Type: im.name, Sorted: true, A: a, Qs: append([]jq{}, allq...)}
			run(g.w, &c)
			if im.merge == nil {
				continue
			}
			for _, b := range bs {
				if len(b) == 0 {
					continue // covered by the case above
				}
				c := jcase{Type: im.name, Sorted: true, A: a, B: b}
				run(g.w, &c)
			}
		}
		if im.fam != 1 {
			continue
		}
		for _, ta := range lists {
			for _, tb := range lists {
				val := func(who int) func(int, int64) int64 {
					return func(i int, t int64) int64 {
						if im.isBool {
							return int64((i + who) % 2)
						}
						return int64(2*i + who)
					}
				}
				c := jcase{Type: im.name, Sorted: false, A: pts(ta, val(0)), B: pts(tb, val(1))}
				run(g.w, &c)
			}
		}
	}
	return g.w.Len() - n0
}

func main() {
	w := vh.New("C37", "From Verif Require Import Base.Prelude Model.C37.\nLocal Open Scope Z_scope.", "case", "check")
	w.Rule = "per case one concrete array type (round-robin over cursors.{Float,Integer,Unsigned,String,Boolean,Timestamp}Array and tsm1.{,Float,Integer,Unsigned,String,Boolean}Values), " +
		"strictly increasing arrays a,b drawn as random subsets (density 1/8..8/8) of a timestamp domain of size 6, 12, 25 or 64 (lengths 0-40), 20% with MinInt64/MaxInt64(+-1) at the ends, " +
		"b biased to be disjoint-after / disjoint-before / touching / sharing a's first timestamp; 2-5 ranges per case biased to array elements +-1, array ends, int64 extremes, point ranges and min>max; " +
		"for tsm1 types 25% of cases use arbitrary lists (length 0-40, duplicates, reversed, single defects) for Deduplicate/Merge; hand-picked edge cases first; " +
		"thorough tier adds the exhaustive enumeration described in extra.exhaustive_space. " +
		"Non-trivial: Merge of two non-empty arrays with overlapping time hulls (or an input needing sort/dedup), or a range query that removes some but not all points. Distinct: distinct Gallina terms."
	all = impls()
	for _, im := range all {
		byName[im.name] = im
	}
	var rc jcase
	if w.ReplayCase(&rc) {
		run(w, &rc)
		w.Finish()
		return
	}
	g := gen{w}
	for _, im := range all {
		for _, c := range g.fixed(im) {
			c := c
			run(w, &c)
		}
	}
	if w.N >= 30000 { // thorough tier
		const d = 5
		k := g.exhaustive(d)
		w.Extra["exhaustive"] = true
		w.Extra["exhaustive_cases"] = k
		w.Extra["exhaustive_space"] = fmt.Sprintf("for each of the 12 array types: all %d strictly increasing arrays a over timestamps {0..%d} x all ranges (min,max) in G x G, G={MinInt64,-1,0..%d,MaxInt64} (FindRange/Exclude/Include/Contains); all %d x %d pairs (a,b) of such arrays (Merge; a's values 2t / false, b's values 2t+1 / true); for the 6 tsm1 types all 40 x 40 pairs of lists of length <= 3 over timestamps {0,1,2} (Deduplicate/Merge on unsorted input). The random stream on top of it is NOT exhaustive.", 1<<d, d-1, d, 1<<d, 1<<d)
	}
	for i := 0; w.Len() < w.N; i++ {
		c := g.randomCase(all[i%len(all)])
		run(w, &c)
	}
	w.Finish()
}
