(** C21 — Storage read requests return exactly the stored series and points.

    Mirror of the read path
      v1/services/storage/store.go        ReadFilter / ReadGroup / validateArgs / findShardIDs
      v1/services/storage/series_cursor.go indexSeriesCursor (series x field rows, the
                                           two-stage predicate evaluation, [_measurement]/[_field]
                                           pseudo tags added with [models.Tags.Set])
      storage/reads/resultset.go           resultSet
      storage/reads/array_cursor.go(.gen)  multiShardArrayCursors.createCursor,
                                           *MultiShardArrayCursor.Next / nextArrayCursor
      storage/reads/group_resultset.go     groupBySort (sort key, nil sorts high), groupByNextGroup,
                                           groupNoneSort / groupNoneNextGroup, seriesHasPoints
      storage/reads/keymerger.go           KeyMerger (merged tag keys of a group)
    over a dataset = list of shards.  Strings are Coq [string]s compared bytewise
    ([String.compare] = [bytes.Compare]).

    Abstracted (tied by the correspondence run only): the protobuf predicate ->
    [influxql.Expr] conversion ([reads.NodeToExpr]), [influxql.Reduce], the TSI index's
    evaluation of the tag condition (modelled as direct evaluation on the series), the TSM
    engine's per-shard cursors (modelled as the stored, time-sorted points of the series
    field restricted to the request window), batching of array cursors, aggregates,
    regular expressions, field-type conflicts between shards.  Field-value comparisons
    ([$ op integer literal]) ARE modelled: the per-row [ValueCond] as [influxql.Reduce] computes
    it, the [*ArrayFilterCursor], and the [filter] field of the shared per-type
    [*MultiShardArrayCursor] objects that survives from one series to the next ([fstate]).

    No proofs in this file. *)
From Coq Require Import String Ascii.
From Verif Require Import Base.Prelude.

(** * Data *)
Definition tag := (string * string)%type.
Definition tags := list tag.
Record series := mkS { s_name : string; s_tags : tags }.
Definition point := (Z * Z)%type.                      (* (time, value) *)
Record sdata := mkSD { sd_series : series; sd_fields : list (string * list point) }.
(** A shard: the time range [sh_start, sh_end) of its shard group and what was written. *)
Record shard := mkSh { sh_start : Z; sh_end : Z; sh_data : list sdata }.

Definition scmp := String.compare.
Definition sltb (a b : string) : bool := match scmp a b with Lt => true | _ => false end.

(** [tsdb.CompareSeriesKeys]: tag lists compared pairwise (key, then value), a proper
    prefix sorts first. *)
Fixpoint tags_cmp (a b : tags) : comparison :=
  match a, b with
  | [], [] => Eq
  | [], _ :: _ => Lt
  | _ :: _, [] => Gt
  | (k1, v1) :: a', (k2, v2) :: b' =>
      match scmp k1 k2 with
      | Eq => match scmp v1 v2 with Eq => tags_cmp a' b' | c => c end
      | c => c
      end
  end.
Definition series_cmp (s1 s2 : series) : comparison :=
  match scmp (s_name s1) (s_name s2) with
  | Eq => tags_cmp (s_tags s1) (s_tags s2)
  | c => c
  end.
(** equality of series keys (structural; cheaper to evaluate than [series_cmp]) *)
Definition tag_eqb (a b : tag) := String.eqb (fst a) (fst b) && String.eqb (snd a) (snd b).
Definition tags_eqb := list_eqb tag_eqb.
Definition series_eqb (s1 s2 : series) : bool :=
  String.eqb (s_name s1) (s_name s2) && tags_eqb (s_tags s1) (s_tags s2).

(** Sorted set insertion (drops duplicates) and stable insertion sort. *)
Section Sorting.
  Context {A : Type}.
  Fixpoint set_insert (cmp : A -> A -> comparison) (x : A) (l : list A) : list A :=
    match l with
    | [] => [x]
    | y :: r => match cmp x y with
                | Lt => x :: l
                | Eq => l
                | Gt => y :: set_insert cmp x r
                end
    end.
  Definition to_set (cmp : A -> A -> comparison) (l : list A) : list A :=
    fold_right (set_insert cmp) [] l.
  (** insert [x] before the first element that is not smaller than it: with [fold_right]
      this is a stable sort. *)
  Fixpoint ins (ltb : A -> A -> bool) (x : A) (l : list A) : list A :=
    match l with
    | [] => [x]
    | y :: r => if ltb y x then y :: ins ltb x r else x :: l
    end.
  Definition isort (ltb : A -> A -> bool) (l : list A) : list A := fold_right (ins ltb) [] l.
End Sorting.

(** * Predicates *)
Inductive vop := VEq | VNe | VLt | VLe | VGt | VGe.
Inductive pred :=
| PTrue
| PCmp (neq : bool) (k v : string)       (* tag/_measurement/_field  = / !=  literal *)
| PVal (op : vop) (n : Z)                (* field value ($)  op  integer literal *)
| PAnd (a b : pred)
| POr (a b : pred).

Definition K_MEAS : string := "_measurement".
Definition K_FIELD : string := "_field".

Fixpoint tags_get (t : tags) (k : string) : option string :=
  match t with
  | [] => None
  | (k', v) :: r => if String.eqb k' k then Some v else tags_get r k
  end.

(** [indexSeriesCursor.Value]: a missing tag evaluates to the empty string. *)
Definition ref_value (s : series) (f : string) (k : string) : string :=
  if String.eqb k K_MEAS then s_name s
  else if String.eqb k K_FIELD then f
  else match tags_get (s_tags s) k with Some v => v | None => EmptyString end.

(** the ROW condition ([measurementCond] = the predicate with every field-value comparison
    replaced by [true], [RewriteExprRemoveFieldValue]) *)
Fixpoint eval (p : pred) (s : series) (f : string) : bool :=
  match p with
  | PTrue => true
  | PCmp neq k v => let e := String.eqb (ref_value s f k) v in if neq then negb e else e
  | PVal _ _ => true
  | PAnd a b => eval a s f && eval b s f
  | POr a b => eval a s f || eval b s f
  end.

Definition vcmp (op : vop) (v n : Z) : bool :=
  match op with
  | VEq => (v =? n)%Z | VNe => negb (v =? n)%Z
  | VLt => (v <? n)%Z | VLe => (v <=? n)%Z
  | VGt => (n <? v)%Z | VGe => (n <=? v)%Z
  end.
(** the full predicate on a point of value [v] of the row *)
Fixpoint eval_v (p : pred) (s : series) (f : string) (v : Z) : bool :=
  match p with
  | PTrue => true
  | PCmp neq k w => let e := String.eqb (ref_value s f k) w in if neq then negb e else e
  | PVal op n => vcmp op v n
  | PAnd a b => eval_v a s f v && eval_v b s f v
  | POr a b => eval_v a s f v || eval_v b s f v
  end.

(** [RewriteExprRemoveFieldKeyAndValue]: every comparison on [_field] or on the field value
    becomes [true]; the result is the condition handed to the index. *)
Fixpoint index_cond (p : pred) : pred :=
  match p with
  | PCmp _ k _ => if String.eqb k K_FIELD then PTrue else p
  | PVal _ _ => PTrue
  | PAnd a b => PAnd (index_cond a) (index_cond b)
  | POr a b => POr (index_cond a) (index_cond b)
  | PTrue => PTrue
  end.

Definition opt_eval (p : option pred) s f := match p with None => true | Some p => eval p s f end.
Definition opt_eval_v (p : option pred) s f v :=
  match p with None => true | Some p => eval_v p s f v end.
Definition opt_index_eval (p : option pred) s :=
  match p with None => true | Some p => eval (index_cond p) s EmptyString end.

(** The per-row VALUE condition [row.ValueCond = influxql.Reduce(cond, row)]: the tag, field
    and measurement comparisons are decided for the row, AND/OR with a boolean literal are
    simplified exactly as [reduceBinaryExpr] does, the value comparisons remain. *)
Inductive vexp := VLit (b : bool) | VCmp (op : vop) (n : Z) | VAnd (a b : vexp) | VOr (a b : vexp).
Definition is_lit (e : vexp) (b : bool) : bool :=
  match e with VLit b' => Bool.eqb b b' | _ => false end.
Definition red_and (x y : vexp) : vexp :=
  if is_lit x false || is_lit y false then VLit false
  else if is_lit x true then y else if is_lit y true then x else VAnd x y.
Definition red_or (x y : vexp) : vexp :=
  if is_lit x true || is_lit y true then VLit true
  else if is_lit x false then y else if is_lit y false then x else VOr x y.
Fixpoint reduce (p : pred) (s : series) (f : string) : vexp :=
  match p with
  | PTrue => VLit true
  | PCmp neq k v => let e := String.eqb (ref_value s f k) v in VLit (if neq then negb e else e)
  | PVal op n => VCmp op n
  | PAnd a b => red_and (reduce a s f) (reduce b s f)
  | POr a b => red_or (reduce a s f) (reduce b s f)
  end.
Fixpoint veval (e : vexp) (v : Z) : bool :=
  match e with
  | VLit b => b
  | VCmp op n => vcmp op v n
  | VAnd a b => veval a v && veval b v
  | VOr a b => veval a v || veval b v
  end.
(** [nil] when the reduced expression is the literal [true] *)
Definition value_cond (p : option pred) (s : series) (f : string) : option vexp :=
  match p with
  | None => None
  | Some p => let e := reduce p s f in if is_lit e true then None else Some e
  end.

(** * Request window, shard selection *)
Definition MinNanoTime : Z := (-9223372036854775806)%Z.
Definition MaxNanoTime : Z := 9223372036854775806%Z.
(** [validateArgs] *)
Definition clamp_start (s : Z) : Z := if (s <=? MinNanoTime)%Z then MinNanoTime else s.
Definition clamp_end (e : Z) : Z := if (e >=? MaxNanoTime)%Z then MaxNanoTime else e.

(** [ShardGroupInfo.Overlaps(min,max)]: [!Start.After(max) && End.After(min)]. *)
Definition overlaps (lo hi : Z) (sh : shard) : bool :=
  (sh_start sh <=? hi)%Z && (lo <? sh_end sh)%Z.
(** [meta.ShardGroupInfos.Less]: by end time, then start time. *)
Definition sg_ltb (a b : shard) : bool :=
  if (sh_end a =? sh_end b)%Z then (sh_start a <? sh_start b)%Z else (sh_end a <? sh_end b)%Z.
(** [findShardIDs] (ascending). *)
Definition select_shards (shs : list shard) (lo hi : Z) : list shard :=
  isort sg_ltb (filter (overlaps lo hi) shs).

(** * Series rows *)
Definition shard_series (sh : shard) : list series := map sd_series (sh_data sh).
Definition shard_fields (sh : shard) (name : string) : list string :=
  flat_map (fun sd => if String.eqb (s_name (sd_series sd)) name
                      then map fst (sd_fields sd) else []) (sh_data sh).
(** [Shards.FieldKeysByMeasurement]: sorted, de-duplicated union over the shards. *)
Definition fields_of (shs : list shard) (name : string) : list string :=
  to_set scmp (flat_map (fun sh => shard_fields sh name) shs).
(** the series of the merged index set, in [CompareSeriesKeys] order *)
Definition all_series (shs : list shard) : list series :=
  to_set series_cmp (flat_map shard_series shs).

(** [models.Tags.Set] on a key-sorted tag list: replace, or insert in key order. *)
Fixpoint tags_set (t : tags) (k v : string) : tags :=
  match t with
  | [] => [(k, v)]
  | (k', v') :: r => match scmp k k' with
                     | Eq => (k, v) :: r
                     | Lt => (k, v) :: t
                     | Gt => (k', v') :: tags_set r k v
                     end
  end.
Definition row_tags (s : series) (f : string) : tags :=
  tags_set (tags_set (s_tags s) K_MEAS (s_name s)) K_FIELD f.

(** [indexSeriesCursor]: the series accepted by the index condition, each paired with every
    field key of its measurement for which the row condition holds. *)
Definition series_rows (shs : list shard) (p : option pred) : list (series * string) :=
  flat_map (fun s => map (fun f => (s, f))
                       (filter (fun f => opt_eval p s f) (fields_of shs (s_name s))))
           (filter (opt_index_eval p) (all_series shs)).
(** [reads.SeriesRow] *)
Record srow := mkR { r_s : series; r_f : string; r_cond : option vexp }.
Definition srow_tags (r : srow) : tags := row_tags (r_s r) (r_f r).
Definition srows (shs : list shard) (p : option pred) : list srow :=
  map (fun sf => mkR (fst sf) (snd sf) (value_cond p (fst sf) (snd sf))) (series_rows shs p).

(** * Points: the multi-shard array cursor *)
Definition shard_points (sh : shard) (s : series) (f : string) : list point :=
  flat_map (fun sd => if series_eqb (sd_series sd) s
                      then flat_map (fun fp => if String.eqb (fst fp) f then snd fp else [])
                                    (sd_fields sd)
                      else []) (sh_data sh).
(** cursor request window is [lo, hi] inclusive, hi = end - 1 *)
Definition in_win (lo hi : Z) (pt : point) : bool := (lo <=? fst pt)%Z && (fst pt <=? hi)%Z.
Definition shard_cursor (lo hi : Z) (s : series) (f : string) (sh : shard) : list point :=
  filter (in_win lo hi) (shard_points sh s f).
(** concatenation of the per-shard cursors in shard order (no value condition) *)
Definition multi_cursor (shs : list shard) (lo hi : Z) (s : series) (f : string) : list point :=
  flat_map (shard_cursor lo hi s f) shs.

(** [*ArrayFilterCursor]: keep the points whose value satisfies the condition *)
Definition vfilter (c : option vexp) (pts : list point) : list point :=
  match c with None => pts | Some e => filter (fun pt => veval e (snd pt)) pts end.

(** The per-type [*MultiShardArrayCursor] objects live as long as the result set and are
    shared by all its series.  Their only state that survives [reset] is the [filter] field:
    [None] = nil, [Some e] = a filter cursor whose condition is [e].  The state is keyed by the
    field type (0 = integer, 1 = float, ...). *)
Definition fstate := list (N * vexp).
Fixpoint st_get (st : fstate) (ty : N) : option vexp :=
  match st with [] => None | (t, e) :: r => if N.eqb t ty then Some e else st_get r ty end.
Definition st_set (st : fstate) (ty : N) (e : vexp) : fstate := (ty, e) :: st.
Definition st_clear (st : fstate) (ty : N) : fstate :=
  filter (fun x => negb (N.eqb (fst x) ty)) st.

(** [arrayCursorIterator.Next] returns a nil cursor iff the measurement has no such field in
    the shard; [createCursor] skips those shards. *)
Definition has_field (sh : shard) (s : series) (f : string) : bool :=
  existsb (String.eqb f) (shard_fields sh (s_name s)).
Fixpoint skip_nil (shs : list shard) (s : series) (f : string) : list shard :=
  match shs with
  | [] => []
  | sh :: r => if has_field sh s f then shs else skip_nil r s f
  end.
(** [createCursor] + [reset(cur, itrs, cond)] + [Next]/[nextArrayCursor]:
    reset with a non-nil [cond] (re)arms the filter and wraps the first cursor in it; reset
    with a nil [cond] installs the first cursor unwrapped and sets [filter] to nil (since fix
    e5cbc6eccf; before it the filter of an earlier series was left in place);
    [nextArrayCursor] wraps every following shard's cursor in [filter] whenever it is non-nil. *)
Definition multi_cursor_v (st : fstate) (ty : N) (cond : option vexp) (shs : list shard)
           (lo hi : Z) (s : series) (f : string) : list point * fstate :=
  match skip_nil shs s f with
  | [] => ([], st)
  | sh :: rest =>
      let st' := match cond with Some e => st_set st ty e | None => st_clear st ty end in
      let later := st_get st' ty in
      (vfilter cond (shard_cursor lo hi s f sh)
         ++ flat_map (fun sh' => vfilter later (shard_cursor lo hi s f sh')) rest, st')
  end.

(** The cursor as the state machine of [*MultiShardArrayCursor.Next / nextArrayCursor]:
    a per-shard cursor is the list of its remaining non-empty batches; [Next] returns the next
    batch of the current cursor and, when that is empty, moves on to the following shards. *)
Definition batches := list (list point).
Definition cur_next (c : batches) : list point * batches :=
  match c with [] => ([], []) | b :: r => (b, r) end.
Fixpoint ms_next (cur : batches) (rest : list batches) : list point * batches * list batches :=
  match cur_next cur with
  | (b :: bs, cur') => (b :: bs, cur', rest)
  | ([], cur') =>
      match rest with
      | [] => ([], cur', [])
      | c :: rest' => ms_next c rest'
      end
  end.
(** drain: call [Next] until it returns an empty batch *)
Fixpoint ms_drain (fuel : nat) (cur : batches) (rest : list batches) : option (list point) :=
  match fuel with
  | O => None
  | S n => match ms_next cur rest with
           | ([], _, _) => Some []
           | (b, cur', rest') =>
               match ms_drain n cur' rest' with Some r => Some (b ++ r) | None => None end
           end
  end.

(** * ReadFilter *)
Definition row := (tags * list point)%type.
Definition ftypes := list (string * N).
Fixpoint ty_of (ty : ftypes) (f : string) : N :=
  match ty with [] => 0%N | (g, t) :: r => if String.eqb g f then t else ty_of r f end.

(** the client calls [Cursor()] once for every row, in order *)
Definition read_one (ty : ftypes) (sel : list shard) (lo hi : Z) (st : fstate) (r : srow)
  : row * fstate :=
  let '(pts, st') := multi_cursor_v st (ty_of ty (r_f r)) (r_cond r) sel lo hi (r_s r) (r_f r) in
  ((srow_tags r, pts), st').
Fixpoint read_rows (ty : ftypes) (sel : list shard) (lo hi : Z) (st : fstate) (rows : list srow)
  : list row * fstate :=
  match rows with
  | [] => ([], st)
  | r :: rest =>
      let '(x, st1) := read_one ty sel lo hi st r in
      let '(xs, st2) := read_rows ty sel lo hi st1 rest in
      (x :: xs, st2)
  end.

Definition read_filter (ty : ftypes) (shs : list shard) (start end_ : Z) (p : option pred)
  : list row :=
  let lo := clamp_start start in
  let e := clamp_end end_ in
  let sel := select_shards shs lo e in
  fst (read_rows ty sel lo (e - 1) [] (srows sel p)).

(** * ReadGroup *)
Definition NUL : string := String (ascii_of_N 0) EmptyString.
Definition NILHI : string := String (ascii_of_N 255) EmptyString.
Definition nonempty_opt (o : option string) : option string :=
  match o with Some EmptyString => None | o => o end.
(** [groupBySort]: value or the nil marker 0xff, each followed by a NUL separator. *)
Fixpoint sort_key (keys : list string) (t : tags) : string :=
  match keys with
  | [] => EmptyString
  | k :: r =>
      let v := match nonempty_opt (tags_get t k) with Some v => v | None => NILHI end in
      String.append v (String.append NUL (sort_key r t))
  end.
Definition part_vals (keys : list string) (t : tags) : list (option string) :=
  map (tags_get t) keys.

(** [KeyMerger.MergeKeys] on key-sorted inputs: sorted union. *)
Fixpoint merge_keys (a : list string) : list string -> list string :=
  match a with
  | [] => fun b => b
  | x :: a' =>
      fix go (b : list string) : list string :=
        match b with
        | [] => a
        | y :: b' =>
            match scmp x y with
            | Lt => x :: merge_keys a' b
            | Gt => y :: go b'
            | Eq => x :: merge_keys a' b'
            end
        end
  end.
Definition merged_keys (ts : list tags) : list string :=
  fold_left (fun acc t => merge_keys acc (map fst t)) ts [].

Record group := mkG { g_vals : list (option string); g_keys : list string; g_rows : list row }.

Definition has_points (r : row) : bool := match snd r with [] => false | _ => true end.

(** consecutive entries with equal sort key form one group *)
Section Grouping.
  Context {R : Type}.
  Fixpoint take_group (k : string) (l : list (string * R)) : list R * list (string * R) :=
    match l with
    | [] => ([], [])
    | (k', r) :: l' =>
        if String.eqb k k' then let '(g, rest) := take_group k l' in (r :: g, rest)
        else ([], l)
    end.
  Fixpoint split_groups (fuel : nat) (l : list (string * R)) : list (list R) :=
    match fuel, l with
    | O, _ => []
    | _, [] => []
    | S n, (k, r) :: l' =>
        let '(g, rest) := take_group k l' in (r :: g) :: split_groups n rest
    end.
End Grouping.

Inductive gmode := GroupBy | GroupNone.

(** [groupBySort] / [groupNoneSort]: every row is probed with [seriesHasPoints] (a cursor is
    created on the SHARED multi-shard cursors and read once) unless HintSchemaAllTime *)
Fixpoint sort_pass (ty : ftypes) (sel : list shard) (lo hi : Z) (all_time : bool)
         (st : fstate) (rows : list srow) : list srow * fstate :=
  match rows with
  | [] => ([], st)
  | r :: rest =>
      if all_time then
        let '(k, st') := sort_pass ty sel lo hi all_time st rest in (r :: k, st')
      else
        let '(x, st1) := read_one ty sel lo hi st r in
        let '(k, st2) := sort_pass ty sel lo hi all_time st1 rest in
        (if has_points x then r :: k else k, st2)
  end.

(** [groupByNextGroup] + [groupByCursor.Next]: the groups are read one after the other on the
    same shared cursors *)
Fixpoint read_groups (ty : ftypes) (sel : list shard) (lo hi : Z) (keys : list string)
         (st : fstate) (gs : list (list srow)) : list group :=
  match gs with
  | [] => []
  | g :: rest =>
      let '(rows, st') := read_rows ty sel lo hi st g in
      mkG (part_vals keys (match g with r :: _ => srow_tags r | [] => [] end))
          (merged_keys (map srow_tags g)) rows
      :: read_groups ty sel lo hi keys st' rest
  end.

Definition read_group (ty : ftypes) (shs : list shard) (start end_ : Z) (p : option pred)
           (mode : gmode) (keys : list string) (all_time : bool) : list group :=
  let lo := clamp_start start in
  let e := clamp_end end_ in
  let sel := select_shards shs lo e in
  let srs := srows sel p in
  let '(kept, st1) := sort_pass ty sel lo (e - 1) all_time [] srs in
  match mode with
  | GroupBy =>
      let keyed := map (fun r => (sort_key keys (srow_tags r), r)) kept in
      let sorted := isort (fun a b => sltb (fst a) (fst b)) keyed in
      read_groups ty sel lo (e - 1) keys st1 (split_groups (length sorted) sorted)
  | GroupNone =>
      match kept with
      | [] => []                                  (* nil result set *)
      | _ => [mkG [] (merged_keys (map srow_tags kept))
                  (fst (read_rows ty sel lo (e - 1) st1 srs))]  (* a new pass over ALL rows *)
      end
  end.

(** * Specification (independent of shard selection, clamping, sorting, cursor state) *)
Definition all_points (shs : list shard) (s : series) (f : string) : list point :=
  flat_map (fun sh => shard_points sh s f) shs.
Definition spec_points (shs : list shard) (start end_ : Z) (p : option pred)
           (s : series) (f : string) : list point :=
  isort (fun a b => (fst a <? fst b)%Z)
        (filter (fun pt => (start <=? fst pt)%Z && (fst pt <? end_)%Z
                           && opt_eval_v p s f (snd pt)) (all_points shs s f)).
Definition sf_cmp (a b : series * string) : comparison :=
  match series_cmp (fst a) (fst b) with Eq => scmp (snd a) (snd b) | c => c end.
Definition stored_pairs (shs : list shard) : list (series * string) :=
  to_set sf_cmp (flat_map (fun sh => flat_map (fun sd => map (fun fp => (sd_series sd, fst fp))
                                                           (sd_fields sd)) (sh_data sh)) shs).
(** every stored series x field with a point in [start,end) on which the predicate (tag, field
    AND value part) holds: once, in (series key, field) order, with exactly those points in time
    order *)
Definition spec_filter (shs : list shard) (start end_ : Z) (p : option pred) : list row :=
  filter has_points
    (map (fun sf => (row_tags (fst sf) (snd sf), spec_points shs start end_ p (fst sf) (snd sf)))
         (filter (fun sf => opt_eval p (fst sf) (snd sf)) (stored_pairs shs))).

(** * Equalities for the judge *)
Definition point_eqb (a b : point) := (fst a =? fst b)%Z && (snd a =? snd b)%Z.
Definition row_eqb (a b : row) := tags_eqb (fst a) (fst b) && list_eqb point_eqb (snd a) (snd b).
Definition ostr_eqb := option_eqb String.eqb.

(** multiset equality of row lists (the order of the series inside one group is that of
    Go's unstable [sort.Slice] and is not an observable of the property) *)
Fixpoint remove1 (r : row) (l : list row) : option (list row) :=
  match l with
  | [] => None
  | x :: l' => if row_eqb r x then Some l'
               else match remove1 r l' with Some l'' => Some (x :: l'') | None => None end
  end.
Fixpoint perm_eqb (a b : list row) : bool :=
  match a with
  | [] => match b with [] => true | _ => false end
  | r :: a' => match remove1 r b with Some b' => perm_eqb a' b' | None => false end
  end.
Definition group_eqb (a b : group) :=
  list_eqb ostr_eqb (g_vals a) (g_vals b) && list_eqb String.eqb (g_keys a) (g_keys b)
  && perm_eqb (g_rows a) (g_rows b).

(** * Oracle for groups *)
(** tuple order of partition values: bytewise, a missing tag sorts after every value *)
Definition oval_cmp (a b : option string) : comparison :=
  match a, b with
  | None, None => Eq
  | None, Some _ => Gt
  | Some _, None => Lt
  | Some x, Some y => scmp x y
  end.
Fixpoint tuple_cmp (a b : list (option string)) : comparison :=
  match a, b with
  | [], [] => Eq
  | [], _ => Lt
  | _, [] => Gt
  | x :: a', y :: b' => match oval_cmp x y with Eq => tuple_cmp a' b' | c => c end
  end.
Fixpoint strictly_sorted (l : list (list (option string))) : bool :=
  match l with
  | [] => true
  | x :: r => match r with
              | [] => true
              | y :: _ => match tuple_cmp x y with Lt => strictly_sorted r | _ => false end
              end
  end.

Definition group_oracle (spec : list row) (mode : gmode) (keys : list string) (all_time : bool)
           (gs : list group) : bool :=
  (* the rows with points of all groups are exactly the rows of the filter read *)
  perm_eqb (filter has_points (flat_map g_rows gs)) spec
  && match mode with
     | GroupBy =>
         (* every row carries the partition values of its group, no group is empty *)
         forallb (fun g => negb (match g_rows g with [] => true | _ => false end)
                           && forallb (fun r => list_eqb ostr_eqb (part_vals keys (fst r)) (g_vals g))
                                      (g_rows g)) gs
         (* groups strictly increasing by partition key, hence pairwise distinct *)
         && strictly_sorted (map g_vals gs)
         && (all_time || forallb (fun g => forallb has_points (g_rows g)) gs)
     | GroupNone =>
         match gs with
         | [] => true
         | [g] => match g_vals g with [] => true | _ => false end
         | _ => false
         end
     end.

(** * Correspondence case *)
Inductive request :=
| RFilter
| RGroup (mode : gmode) (keys : list string) (all_time : bool).

Record case := mkCase {
  c_ty : ftypes;            (* field types other than integer (0) *)
  c_shards : list shard;
  c_start : Z; c_end : Z;
  c_pred : option pred;
  c_req : request;
  c_rows : list row;        (* ReadFilter output (empty for group requests) *)
  c_groups : list group     (* ReadGroup output (empty for filter requests) *)
}.

Definition check (c : case) : verdict :=
  let spec := spec_filter (c_shards c) (c_start c) (c_end c) (c_pred c) in
  match c_req c with
  | RFilter =>
      let m := read_filter (c_ty c) (c_shards c) (c_start c) (c_end c) (c_pred c) in
      judge (list_eqb row_eqb (c_rows c) m)
            (list_eqb row_eqb (filter has_points (c_rows c)) spec)
  | RGroup mode keys all_time =>
      let m := read_group (c_ty c) (c_shards c) (c_start c) (c_end c) (c_pred c) mode keys all_time in
      judge (list_eqb group_eqb (c_groups c) m)
            (group_oracle spec mode keys all_time (c_groups c))
  end.
