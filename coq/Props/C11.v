(** C11 — Line protocol and series keys round-trip.  Property theorems only
    (model: Model/C11.v, proofs: Proofs/C11.v). *)
From Verif Require Import Base.Prelude Model.C11 Proofs.C11.
Local Open Scope N_scope.

(** ** Series keys.
    FULL STATEMENT (refuted): forall n ts, parse_key (make_key n ts) = (n, ts).
    models.MakeKey escapes , space (=) but NOT the backslash, so a name / tag key / tag
    value that ends in a backslash, or has a backslash right before a delimiter, swallows
    the following delimiter.  Replayed on the real code:
    MakeKey("m", {t: a\, u: v}) = m,t=a\,u=v  and ParseKeyBytes returns ONE tag t = [a,u=v]. *)
Theorem C11_key_roundtrip_refuted :
  parse_key (make_key [109] [([116], [97; 92]); ([117], [118])])
  = ([109], [([116], [97; 44; 117; 61; 118])]).
Proof. exact key_witness. Qed.
Print Assumptions C11_key_roundtrip_refuted.

(** Strongest true weakening, for ALL names and tag lists (unbounded): the guard is
    [key_name_ok] (non-empty name, no backslash immediately before , or space, no trailing
    backslash) and [key_tags_ok] (values non-empty — MakeKey drops empty-valued tags —,
    keys and values without a backslash before , space = and without trailing backslash). *)
Theorem C11_key_roundtrip_partial :
  forall n ts, key_name_ok n = true -> key_tags_ok ts = true -> parse_key (make_key n ts) = (n, ts).
Proof. exact key_roundtrip. Qed.
Print Assumptions C11_key_roundtrip_partial.

(** ** Escaping round trips (all strings satisfying the backslash guard; unbounded). *)
Theorem C11_unescape_tag_escape_tag :
  forall s, bsl_safe is_tag_stop s = true -> unescape_tag (escape_tag s) = s.
Proof. exact unescape_tag_escape. Qed.
Print Assumptions C11_unescape_tag_escape_tag.

Theorem C11_unescape_measurement_escape_measurement :
  forall s, bsl_safe is_meas_stop s = true -> unescape_meas (escape_meas s) = s.
Proof. exact unescape_meas_escape. Qed.
Print Assumptions C11_unescape_measurement_escape_measurement.

(** ** Line protocol.
    FULL STATEMENT (refuted): every point accepted by NewPoint is returned unchanged by
    ParsePoints(String()).  Witnesses, all accepted by NewPoint ([new_point_ok]) and replayed
    on the real code:
      - tag value  a\        ->  m,t=a\ f=1i 5   is REJECTED (invalid tag format);
      - measurement  m\      ->  m\ f=1i 5       is REJECTED (invalid field format);
      - measurement  #m      ->  the line is a comment: NO point and NO error;
      - tag keys [a space] < [a dquote]  ->  escaped, [a backslash space] > [a dquote]: the
        parser re-sorts, the point comes back with its tags (and series key) in the other order. *)
Theorem C11_lp_roundtrip_refuted :
  new_point_ok w_bsl_tag = true /\ reparse P_ns 0 no_floats w_bsl_tag = ([], [print_point no_floats P_ns w_bsl_tag]) /\
  new_point_ok w_bsl_name = true /\ reparse P_ns 0 no_floats w_bsl_name = ([], [print_point no_floats P_ns w_bsl_name]) /\
  new_point_ok w_comment = true /\ reparse P_ns 0 no_floats w_comment = ([], []) /\
  new_point_ok w_resort = true /\
  map v_tags (fst (reparse P_ns 0 no_floats w_resort)) = [[([97; 34], [121]); ([97; 32], [120])]].
Proof. exact lp_witnesses. Qed.
Print Assumptions C11_lp_roundtrip_refuted.

(** Strongest true weakening, for ALL points, precisions, default times and float printers
    (unbounded): if [valid pf prec p] then parsing the printed line returns exactly one point
    and no error, and its accessors return the same series key as MakeKey, the same name, the
    same tags in the same (sorted) order, the same field names with identical types and values
    in the same order, and the same timestamp (the truncated default time when the point has
    none).  [valid] (boolean, Model/C11.v) =
      what NewPoint checks ([new_point_ok]: >=1 field, no empty field name, finite floats, time
        in range, key + 4 + field key <= MaxKeyLength)
      + representation invariants of the Go types (tags sorted by key without duplicates as
        NewTags builds them, fields = a map printed in sorted order)
      + THE GUARD, each conjunct of which is a way the unguarded statement fails on the real code:
        measurement / tag keys / tag values / field keys non-empty, without newline, without a
        backslash immediately before an escaped delimiter and without a trailing backslash;
        measurement not starting with # TAB NUL; first field key not starting with TAB NUL; no
        reserved tag key; tags ALSO sorted by their escaped keys; key + 4 + ESCAPED field key
        <= MaxKeyLength (NewPoint measures the unescaped key, the parser the escaped one);
        timestamp a multiple of the precision unit
      + the hypothesis on the external float printer [pf] (strconv.AppendFloat 'f' -1, not
        re-implemented), in executable form in [value_ok]: its text uses only digits . - , is
        accepted by scanNumber and parses back (model of ParseFloat) to the same bits. *)
Theorem C11_lp_roundtrip_partial :
  forall pf prec dflt p, valid pf prec p = true ->
    reparse prec dflt pf p =
      ([ {| v_key := make_key (a_name p) (a_tags p); v_name := a_name p; v_tags := a_tags p;
            v_fields := a_fields p;
            v_time := match a_time p with Some t => t | None => trunc_time dflt prec end |} ], []).
Proof. exact lp_roundtrip. Qed.
Print Assumptions C11_lp_roundtrip_partial.

(** Decimal integers (FormatInt / ParseInt, ParseUint) round-trip on the whole int64 / uint64
    range. *)
Theorem C11_int_text_roundtrip :
  (forall z, (MinInt64 <= z <= MaxInt64)%Z -> parse_int64 (print_int z) = Some z) /\
  (forall n, n <= MaxUint64 -> parse_uint64 (print_nat n) = Some n).
Proof. split; [exact parse_int64_print|exact parse_uint64_print]. Qed.
Print Assumptions C11_int_text_roundtrip.

(** Non-vacuity: a point with escapes everywhere satisfies the guard and round-trips. *)
Definition pf_one : N -> bytes := fun b => if b =? 4607182418800017408 then [49] else [].  (* 1.0 -> 1 *)
Example C11_nonvacuous :
  let no_floats := pf_one in
  let p := {| a_name := [109; 32; 120];                                   (* m x *)
              a_tags := [([97; 44], [61; 32]); ([98], [34])];              (* tags [a,]=[= ] and b=[dquote] *)
              a_fields := [([102; 32], VStr [34; 92; 10; 44]); ([103], VInt (-9223372036854775808));
                           ([104], VUint 18446744073709551615); ([105], VBool true);
                           ([106], VFloat 4607182418800017408)];
              a_time := Some (-1700000000000000000)%Z |} in
  valid no_floats P_s p = true /\
  key_name_ok (a_name p) = true /\ key_tags_ok (a_tags p) = true /\
  fst (reparse P_s 0 no_floats p) =
    [ {| v_key := make_key (a_name p) (a_tags p); v_name := a_name p; v_tags := a_tags p;
         v_fields := a_fields p; v_time := (-1700000000000000000)%Z |} ] /\
  snd (reparse P_s 0 no_floats p) = [].
Proof. vm_compute. repeat split. Qed.
