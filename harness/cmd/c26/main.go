// C26 driver: the REAL durablequeue.Queue (pkg/durablequeue) with tiny segment sizes.
//
// A case is a history of Append / Queue.Advance / (NewScanner, n x Next, Scanner.Advance) /
// reopen (Close + NewQueue + Open with a new SharedCount) / PurgeOlderThan, with the outputs the
// real queue produced (error classes, delivered blocks, TotalBytes after every call), followed by
// either a complete drain of the live queue, or a last acknowledged Append whose single write is
// torn: for chosen k the directory is copied, the tail segment is replaced by the image in which
// only the first k bytes of that write reached the file, a new real queue is opened on it and
// drained.  The Coq judge re-runs the byte-level model on the same history.
package main

import (
	"encoding/binary"
	"errors"
	"fmt"
	"io"
	"math/rand/v2"
	"runtime"
	"sync"
	"os"
	"path/filepath"
	"sort"
	"strconv"
	"strings"
	"time"

	"github.com/influxdata/influxdb/v2/pkg/durablequeue"
	"verifh/vh"
)

const sigAlias = "dq-torn-append-footer-alias"

type jop struct {
	Kind string  `json:"kind"` // append | advance | scanadv | reopen | purge
	B    []int   `json:"b,omitempty"`
	N    int     `json:"n,omitempty"`
	Res  int     `json:"impl_res"`
	Got  [][]int `json:"impl_got,omitempty"`
	TB   int64   `json:"impl_total_bytes"`
}
type jcobs struct {
	K    int     `json:"k"`
	Open int     `json:"impl_open"`
	Got  [][]int `json:"impl_got"`
	Nerr int     `json:"impl_nerr"`
	Exit int     `json:"impl_exit"`
	Last uint64  `json:"last8_decoded,omitempty"`
	Size int     `json:"image_size,omitempty"`
}
type jcrash struct {
	B    []int   `json:"b"`
	Ks   []int   `json:"ks"`
	Imgs []jcobs `json:"impl_images"`
}
type jcase struct {
	MaxSize int64   `json:"max_size"`
	MaxSeg  int64   `json:"max_segment_size"`
	VMode   int     `json:"verify_mode"`
	Ops     []jop   `json:"ops"`
	Final   jcobs   `json:"impl_final_drain"`
	Crash   *jcrash `json:"crash,omitempty"`
	Note    string  `json:"note,omitempty"`
	AdvEmptyOK  bool `json:"allow_advance_on_empty,omitempty"` // legacy field of older replay files; ignored
	AdvEmptyHit bool `json:"advance_on_empty_happened,omitempty"`
	// ConcRounds > 0: besides the sequential history above, run that many rounds of the concurrent
	// scenario (Scanner.Advance at end-of-segment racing with a segment-filling Append) on the
	// real queue and assert that every acknowledged entry is delivered exactly once, in order.
	ConcRounds int    `json:"concurrent_rounds,omitempty"`
	ConcSeed   uint64 `json:"concurrent_seed,omitempty"`
	ConcResult string `json:"impl_concurrent_result,omitempty"`
}

var tmpRoot string

func ints(b []byte) []int {
	r := make([]int, len(b))
	for i, c := range b {
		r[i] = int(c)
	}
	return r
}
func bytesOf(v []int) []byte {
	r := make([]byte, len(v))
	for i, c := range v {
		r[i] = byte(c)
	}
	return r
}
func zs(v []int) string { // plain numerals: the shard header opens Z_scope
	xs := make([]string, len(v))
	for i, c := range v {
		xs[i] = strconv.Itoa(c)
	}
	return "[" + strings.Join(xs, ";") + "]"
}
func blocks(v [][]int) string {
	xs := make([]string, len(v))
	for i, b := range v {
		xs[i] = zs(b)
	}
	return vh.List(xs)
}

func verifyFn(mode int) func([]byte) error {
	if mode == 0 {
		return func([]byte) error { return nil }
	}
	return func(b []byte) error {
		if len(b) == 0 || b[0] >= 128 {
			return errors.New("bad block")
		}
		return nil
	}
}

func openQ(dir string, c *jcase) (*durablequeue.Queue, int) {
	q, err := durablequeue.NewQueue(dir, c.MaxSize, c.MaxSeg, &durablequeue.SharedCount{}, 4, verifyFn(c.VMode))
	if err != nil {
		panic("NewQueue: " + err.Error())
	}
	if err := q.Open(); err != nil {
		return nil, 2
	}
	return q, 0
}

func segFiles(dir string) []string { // numeric names, id order
	es, err := os.ReadDir(dir)
	if err != nil {
		panic(err)
	}
	type e struct {
		id uint64
		n  string
	}
	var xs []e
	for _, f := range es {
		if id, err := strconv.ParseUint(f.Name(), 10, 64); err == nil && !f.IsDir() {
			xs = append(xs, e{id, f.Name()})
		}
	}
	sort.Slice(xs, func(i, j int) bool { return xs[i].id < xs[j].id })
	r := make([]string, len(xs))
	for i, x := range xs {
		r[i] = x.n
	}
	return r
}

// drain: repeat (NewScanner; Next until false; Advance) until NewScanner fails.
func drain(q *durablequeue.Queue, o *jcobs) {
	o.Got = [][]int{}
	for it := 0; ; it++ {
		if it >= 64 {
			o.Exit = 6
			return
		}
		sc, err := q.NewScanner()
		if err != nil {
			if err == io.EOF {
				o.Exit = 3
			} else {
				o.Exit = 4
			}
			return
		}
		for sc.Next() {
			o.Got = append(o.Got, ints(sc.Bytes()))
		}
		if _, err := sc.Advance(); err != nil {
			o.Nerr++
		}
	}
}

var (
	tOld = time.Date(2000, 1, 1, 0, 0, 0, 0, time.UTC)
	tCut = time.Date(2010, 1, 1, 0, 0, 0, 0, time.UTC)
	tNew = time.Date(2030, 1, 1, 0, 0, 0, 0, time.UTC)
)

// execCase runs the history on the real queue and fills in every impl_* field.
func execCase(w *vh.W, c *jcase) (failure string) {
	dir, err := os.MkdirTemp(tmpRoot, "c26-")
	if err != nil {
		panic(err)
	}
	defer os.RemoveAll(dir)
	q, r := openQ(dir, c)
	if r != 0 {
		return "Open of an empty directory failed"
	}
	closeQ := func() {
		if q != nil {
			q.Close()
			q = nil
		}
	}
	defer closeQ()
	c.AdvEmptyHit = false
	for i := range c.Ops {
		o := &c.Ops[i]
		o.Got = nil
		if o.Kind == "advance" && q.TotalBytes() == 0 {
			c.AdvEmptyHit = true // Queue.Advance on an empty queue: must be a no-op (fix a852c65657)
		}
		switch o.Kind {
		case "append":
			err := q.Append(bytesOf(o.B))
			switch {
			case err == nil:
				o.Res = 0
			case err == durablequeue.ErrQueueFull:
				o.Res = 1
			default:
				o.Res = 2
			}
		case "advance":
			if err := q.Advance(); err != nil {
				return "Queue.Advance returned " + err.Error()
			}
		case "scanadv":
			sc, err := q.NewScanner()
			if err != nil {
				o.Res = 4
				if err == io.EOF {
					o.Res = 3
				}
				o.Got = [][]int{}
				break
			}
			o.Got = [][]int{}
			for k := 0; k < o.N && sc.Next(); k++ {
				o.Got = append(o.Got, ints(sc.Bytes()))
			}
			o.Res = 0
			if _, err := sc.Advance(); err != nil {
				o.Res = 2
			}
		case "reopen":
			closeQ()
			q, o.Res = openQ(dir, c)
			if q == nil {
				c.Ops = c.Ops[:i+1]
				c.Crash = nil
				c.Final = jcobs{Got: [][]int{}}
				return ""
			}
		case "purge":
			fs := segFiles(dir)
			if o.N > len(fs) {
				o.N = len(fs)
			}
			for j, f := range fs {
				t := tNew
				if j < o.N {
					t = tOld
				}
				if err := os.Chtimes(filepath.Join(dir, f), t, t); err != nil {
					panic(err)
				}
			}
			if err := q.PurgeOlderThan(tCut); err != nil {
				return "PurgeOlderThan returned " + err.Error()
			}
		default:
			panic("bad op " + o.Kind)
		}
		o.TB = q.TotalBytes()
	}
	if c.Crash != nil {
		b := bytesOf(c.Crash.B)
		if err := q.Append(b); err != nil { // not acknowledged: make it an ordinary rejected append
			res := 2
			if err == durablequeue.ErrQueueFull {
				res = 1
			}
			c.Ops = append(c.Ops, jop{Kind: "append", B: c.Crash.B, Res: res, TB: q.TotalBytes()})
			c.Crash = nil
		}
	}
	if c.Crash == nil {
		c.Final = jcobs{}
		drain(q, &c.Final)
		return ""
	}
	c.Final = jcobs{Got: [][]int{}}
	closeQ()
	fs := segFiles(dir)
	tail := fs[len(fs)-1]
	after, err := os.ReadFile(filepath.Join(dir, tail))
	if err != nil {
		panic(err)
	}
	wlen := len(c.Crash.B) + 16
	off := len(after) - wlen
	if off < 0 {
		return "tail segment shorter than the last append's write"
	}
	c.Crash.Imgs = nil
	for _, k := range c.Crash.Ks {
		if k < 0 || k > wlen {
			continue
		}
		img := append([]byte{}, after[:off+k]...)
		if k < 8 {
			img = append(img, after[len(after)-8+k:]...)
		}
		d2, err := os.MkdirTemp(tmpRoot, "c26i-")
		if err != nil {
			panic(err)
		}
		for _, f := range fs[:len(fs)-1] {
			bs, err := os.ReadFile(filepath.Join(dir, f))
			if err != nil {
				panic(err)
			}
			must(os.WriteFile(filepath.Join(d2, f), bs, 0o600))
		}
		must(os.WriteFile(filepath.Join(d2, tail), img, 0o600))
		o := jcobs{K: k, Got: [][]int{}, Size: len(img), Last: binary.BigEndian.Uint64(img[len(img)-8:])}
		var q2 *durablequeue.Queue
		if p := vh.Guard(func() { q2, o.Open = openQ(d2, c) }); p != "" {
			os.RemoveAll(d2)
			return fmt.Sprintf("panic reopening crash image k=%d: %s", k, p)
		}
		if q2 != nil {
			if p := vh.Guard(func() { drain(q2, &o) }); p != "" {
				os.RemoveAll(d2)
				return fmt.Sprintf("panic draining crash image k=%d: %s", k, p)
			}
			q2.Close()
		}
		os.RemoveAll(d2)
		c.Crash.Imgs = append(c.Crash.Imgs, o)
	}
	return ""
}

func must(err error) {
	if err != nil {
		panic(err)
	}
}

func cobsTerm(o jcobs) string {
	return fmt.Sprintf("{| co_k := %s; co_open := %s; co_got := %s; co_nerr := %s; co_exit := %s |}",
		vh.Z(int64(o.K)), vh.Z(int64(o.Open)), blocks(o.Got), vh.Z(int64(o.Nerr)), vh.Z(int64(o.Exit)))
}

func caseTerm(c *jcase, imgs []jcobs) string {
	ops := make([]string, len(c.Ops))
	for i, o := range c.Ops {
		var t string
		switch o.Kind {
		case "append":
			t = fmt.Sprintf("OpAppend %s %s", zs(o.B), vh.Z(int64(o.Res)))
		case "advance":
			t = "OpAdvance"
		case "scanadv":
			t = fmt.Sprintf("OpScanAdv %s %s %s", vh.Z(int64(o.N)), blocks(o.Got), vh.Z(int64(o.Res)))
		case "reopen":
			t = fmt.Sprintf("OpReopen %s", vh.Z(int64(o.Res)))
		case "purge":
			t = fmt.Sprintf("OpPurge %s", vh.Z(int64(o.N)))
		}
		ops[i] = "(" + t + ", " + vh.Z(o.TB) + ")"
	}
	crash := "None"
	if c.Crash != nil {
		xs := make([]string, len(imgs))
		for i, o := range imgs {
			xs[i] = cobsTerm(o)
		}
		crash = "(Some (" + zs(c.Crash.B) + ", " + vh.List(xs) + "))"
	}
	return fmt.Sprintf("{| c_maxsize := %s; c_maxseg := %s; c_vmode := %s; c_ops := %s; c_final := %s; c_crash := %s |}",
		vh.Z(c.MaxSize), vh.Z(c.MaxSeg), vh.Z(int64(c.VMode)), vh.List(ops), cobsTerm(c.Final), crash)
}

// aliasing: the torn image's last 8 bytes are NOT the footer that was last persisted, yet decode
// to an offset that segment.open trusts (<= size-8).  Decided from the image bytes only.
func aliasing(c *jcase, o jcobs) bool {
	full := len(c.Crash.B) + 16
	if o.K >= full {
		return false
	}
	if o.Last > uint64(o.Size-8) {
		return false
	}
	if o.K < 8 {
		// the image differs from the pre-append file only if the mixed footer differs from the old one
		var lenw [8]byte
		binary.BigEndian.PutUint64(lenw[:], uint64(len(c.Crash.B)))
		for i := 0; i < o.K; i++ {
			if lenw[i] != 0 { // old footer bytes that were overwritten: compare with what was there
				return true
			}
		}
		// overwritten bytes are zero; the old footer's first k bytes are zero too whenever pos < 2^(8*(8-k));
		// positions in these histories are far below 2^8, so the image equals the old file.
		return false
	}
	return true
}

func emit(w *vh.W, c *jcase) {
	idx := w.Len()
	if f := execCase(w, c); f != "" {
		w.Add(caseTerm(c, nil), c, true, "")
		w.Fail(idx, f, "")
		return
	}
	if c.ConcRounds > 0 {
		lost, stats := concRounds(c)
		c.ConcResult = stats
		w.Extra["concurrent_rounds"] = toInt(w.Extra["concurrent_rounds"]) + c.ConcRounds
		w.Extra["concurrent_stats"] = stats
		if lost != "" {
			c.ConcResult = lost
			defer w.Fail(idx, lost, "")
		}
	}
	nacks, ndel := 0, 0
	for _, o := range c.Ops {
		if o.Kind == "append" && o.Res == 0 {
			nacks++
		}
		ndel += len(o.Got)
		w.Count("op", o.Kind)
		if o.Kind == "append" {
			w.Count("append_res", fmt.Sprint(o.Res))
		}
	}
	w.Count("max_segment_size", fmt.Sprint(c.MaxSeg))
	w.Count("verify_mode", fmt.Sprint(c.VMode))
	nontriv := nacks >= 2 && (ndel > 0 || c.Crash != nil)
	if c.AdvEmptyHit {
		w.Count("history_has_advance_on_empty", "true")
	}
	if c.Crash == nil {
		w.Count("shape", "clean-drain")
		w.Add(caseTerm(c, nil), c, nontriv, "")
		return
	}
	var plain, alias []jcobs
	for _, o := range c.Crash.Imgs {
		if aliasing(c, o) {
			alias = append(alias, o)
		} else {
			plain = append(plain, o)
		}
	}
	w.Count("shape", "torn-append")
	w.Count("crash_images_plain", fmt.Sprint(len(plain) > 0))
	all := c.Crash
	cp := *c
	cp.Crash = &jcrash{B: all.B, Imgs: plain}
	for _, o := range plain {
		cp.Crash.Ks = append(cp.Crash.Ks, o.K)
	}
	w.Extra["crash_images"] = toInt(w.Extra["crash_images"]) + len(all.Imgs)
	w.Extra["crash_images_aliasing"] = toInt(w.Extra["crash_images_aliasing"]) + len(alias)
	w.Add(caseTerm(&cp, plain), &cp, nontriv, "")
	for _, o := range alias {
		ca := *c
		ca.Crash = &jcrash{B: all.B, Ks: []int{o.K}, Imgs: []jcobs{o}}
		ca.Note = "crash image whose last 8 bytes are not a footer but decode to an offset <= size-8"
		w.Add(caseTerm(&ca, ca.Crash.Imgs), &ca, nontriv, sigAlias)
		w.Count("shape", "torn-append-aliasing-image")
	}
}

// concRounds: the scanner has read the head(=tail) segment to its end; Scanner.Advance (which
// persists the position, sees io.EOF and then decides under Queue.mu whether to trim the head) runs
// concurrently with Queue.Append of a block that FILLS the segment.  Whatever the interleaving,
// the acknowledged block must still be delivered afterwards (exactly once, after the entry already
// read).  The directory is on a real disk if possible: the fsync inside advanceTo then takes long
// enough for the appender to be parked behind it, which is the dangerous interleaving.  Per round
// the appender starts after a random short spin relative to the Advance call.
func concRounds(c *jcase) (lost string, stats string) {
	root := os.TempDir()
	dir, err := os.MkdirTemp(root, "c26c-")
	if err != nil {
		panic(err)
	}
	defer os.RemoveAll(dir)
	const maxSeg = 64
	q, err := durablequeue.NewQueue(dir, 1<<30, maxSeg, &durablequeue.SharedCount{}, 8, func([]byte) error { return nil })
	if err != nil {
		panic(err)
	}
	if err := q.Open(); err != nil {
		return "concurrent scenario: Open failed: " + err.Error(), ""
	}
	defer q.Close()
	rng := rand.New(rand.NewPCG(c.ConcSeed, 0xC26))
	advEOFPath, appendFirst := 0, 0
	for round := 0; round < c.ConcRounds; round++ {
		small := []byte{byte(1 + round%250), 0xAA, byte(round >> 8), byte(round)}
		big := make([]byte, 40)
		big[0], big[1], big[2], big[3] = byte(1+round%250), 0xBB, byte(round>>8), byte(round)
		if err := q.Append(small); err != nil {
			return fmt.Sprintf("concurrent scenario round %d: Append(small) = %v", round, err), ""
		}
		sc, err := q.NewScanner()
		if err != nil {
			return fmt.Sprintf("concurrent scenario round %d: NewScanner = %v", round, err), ""
		}
		var read [][]byte
		for sc.Next() {
			read = append(read, append([]byte{}, sc.Bytes()...))
		}
		if len(read) != 1 || string(read[0]) != string(small) {
			return fmt.Sprintf("concurrent scenario round %d: scanner read %v, expected exactly the small entry %v", round, read, small), ""
		}
		start := make(chan struct{})
		var wg sync.WaitGroup
		var errA, errB error
		// log-uniform spins on either side, so that windows from ~100 ns (tmpfs) to ms (disk fsync) are hit
		spin, spinA := 0, 0
		switch rng.IntN(4) {
		case 0:
		case 1:
			spinA = 1 << rng.IntN(12)
		default:
			spin = 1 << rng.IntN(16)
		}
		wg.Add(2)
		go func() {
			defer wg.Done()
			<-start
			for i := 0; i < spin; i++ {
				if i%64 == 63 {
					runtime.Gosched()
				}
			}
			errB = q.Append(big)
		}()
		go func() {
			defer wg.Done()
			<-start
			for i := 0; i < spinA; i++ {
				if i%64 == 63 {
					runtime.Gosched()
				}
			}
			_, errA = sc.Advance()
		}()
		close(start)
		wg.Wait()
		if errA != nil && errA != io.EOF {
			return fmt.Sprintf("concurrent scenario round %d: Scanner.Advance = %v", round, errA), ""
		}
		if errB != nil {
			return fmt.Sprintf("concurrent scenario round %d: Append(segment-filling block) = %v", round, errB), ""
		}
		var o jcobs
		drain(q, &o)
		if len(o.Got) != 1 || string(bytesOf(o.Got[0])) != string(big) || o.Nerr != 0 {
			return fmt.Sprintf("concurrent scenario round %d: Append of a 40-byte block (which fills the 64-byte segment) was acknowledged while Scanner.Advance was finishing the drained head segment, but the following drain delivered %v (errors %d) instead of exactly that block: an acknowledged entry was lost or duplicated", round, o.Got, o.Nerr), ""
		}
		_ = advEOFPath
		_ = appendFirst
	}
	return "", fmt.Sprintf("%d rounds, every acknowledged block delivered exactly once", c.ConcRounds)
}

func toInt(v interface{}) int {
	if v == nil {
		return 0
	}
	return v.(int)
}

// longRoll: max segment size 24 and 10-byte entries, so every Append rolls over into its own
// segment file (ids 1..nseg, unpadded decimal names); the first nadv segments are consumed,
// then reopen, nread single-entry reads, nmore appends, reopen again (and optionally a torn append).
func longRoll(nseg, nadv, nread, nmore int, cr *jcrash) jcase {
	c := jcase{MaxSize: 4096, MaxSeg: 24, Crash: cr}
	seq := 0
	entry := func() []int {
		seq++
		return []int{seq, 200, 0, 0, 0, 0, 0, 0, 0, seq % 7}
	}
	for i := 0; i < nseg; i++ {
		c.Ops = append(c.Ops, jop{Kind: "append", B: entry()})
		if i < nadv && i%2 == 1 { // interleave consumption with production
			c.Ops = append(c.Ops, jop{Kind: "scanadv", N: 2}, jop{Kind: "scanadv", N: 2})
		}
	}
	if nadv%2 == 1 {
		c.Ops = append(c.Ops, jop{Kind: "scanadv", N: 2})
	}
	c.Ops = append(c.Ops, jop{Kind: "reopen"})
	for i := 0; i < nread; i++ {
		c.Ops = append(c.Ops, jop{Kind: "scanadv", N: 1})
	}
	for i := 0; i < nmore; i++ {
		c.Ops = append(c.Ops, jop{Kind: "append", B: entry()})
	}
	c.Ops = append(c.Ops, jop{Kind: "reopen"})
	return c
}

func allKs(n int) []int {
	full := n + 16
	var ks []int
	for k := 0; k <= full; k++ {
		ks = append(ks, k)
	}
	return ks
}

func main() {
	w := vh.New("C26", "From Verif Require Import Base.Prelude Model.C26.\nOpen Scope Z_scope.", "case", "check")
	w.Rule = "histories (3-14 ops) of Append / Queue.Advance / scanner(n)+Advance / reopen / PurgeOlderThan on a real durablequeue.Queue with max segment size in {24..300} bytes (roll-over every 1-4 entries), max queue size from 2x segment size (ErrQueueFull reachable) to 4096, verifyBlockFn permissive or strict; entries are non-empty with a unique first byte; benign stream = small/zero-rich bytes, adversarial stream = payloads embedding the big-endian encoding of record boundaries of the current tail. About 2/3 of the histories end with a torn last Append: every prefix length k of its write (all k for entries up to 40 bytes, else a boundary-biased subset) is applied to a copy of the directory, reopened and drained. Queue.Advance is also called on empty queues (must be a no-op since fix a852c65657). Aliasing crash images (last 8 bytes are not a persisted footer yet decode to <= size-8) are emitted as separate cases carrying the known-finding signature. One case in eight is a long roll-over history: 10-14 single-entry segments (max segment size 24), the first 0-9 consumed, then reopen, reads, more appends and another reopen, so that live segment files straddle the 9/10 name boundary. One case additionally runs a concurrent scenario on the real queue (500 rounds quick / 3000 thorough): Scanner.Advance at the end of the drained single segment racing with an Append that fills the segment, asserting that the acknowledged block is delivered exactly once. Hand-picked regression cases come first. Non-trivial: at least two acknowledged appends and at least one delivery or crash image. Distinct: distinct Gallina terms."
	tmpRoot = os.TempDir()
	if st, err := os.Stat("/dev/shm"); err == nil && st.IsDir() {
		tmpRoot = "/dev/shm"
	}
	var rc jcase
	if w.ReplayCase(&rc) {
		emit(w, &rc)
		w.Finish()
		return
	}
	r := w.Rng
	rep := func(b byte, n int) []int {
		x := make([]int, n)
		for i := range x {
			x[i] = int(b)
		}
		return x
	}
	// ---- hand-picked cases
	hand := []jcase{
		// torn append after two 8-byte entries: k=8 leaves the length word 16 as the last 8 bytes
		{MaxSize: 1024, MaxSeg: 64, Ops: []jop{{Kind: "append", B: rep(65, 8)}, {Kind: "append", B: rep(66, 8)}},
			Crash: &jcrash{B: append([]int{3}, rep(48, 15)...), Ks: allKs(16)}},
		// same, after the first entry was consumed and with a reopen
		{MaxSize: 1024, MaxSeg: 64, Ops: []jop{{Kind: "append", B: rep(65, 8)}, {Kind: "append", B: rep(66, 8)}, {Kind: "scanadv", N: 1}, {Kind: "reopen"}},
			Crash: &jcrash{B: append([]int{3}, rep(0, 9)...), Ks: allKs(10)}},
		// roll-over: the torn append is the first record of a new segment
		{MaxSize: 1024, MaxSeg: 24, Ops: []jop{{Kind: "append", B: rep(1, 10)}, {Kind: "append", B: rep(2, 10)}},
			Crash: &jcrash{B: rep(3, 5), Ks: allKs(5)}},
		// queue full
		{MaxSize: 48, MaxSeg: 24, Ops: []jop{{Kind: "append", B: rep(1, 20)}, {Kind: "append", B: rep(2, 20)}, {Kind: "append", B: rep(3, 20)}, {Kind: "scanadv", N: 9}, {Kind: "append", B: rep(4, 20)}, {Kind: "reopen"}, {Kind: "append", B: rep(5, 20)}}},
		// oversize entry bumps the segment's max size
		{MaxSize: 4096, MaxSeg: 24, Ops: []jop{{Kind: "append", B: rep(1, 60)}, {Kind: "append", B: rep(2, 3)}, {Kind: "reopen"}, {Kind: "scanadv", N: 1}, {Kind: "append", B: rep(3, 3)}}},
		// Queue.Advance on an empty queue, then append
		{MaxSize: 1024, MaxSeg: 64, Ops: []jop{{Kind: "advance"}, {Kind: "append", B: rep(7, 10)}}},
		// the same after everything was consumed, followed by a reopen and a torn append
		{MaxSize: 1024, MaxSeg: 64, Ops: []jop{{Kind: "append", B: rep(1, 5)}, {Kind: "scanadv", N: 3}, {Kind: "advance"}, {Kind: "advance"}, {Kind: "append", B: rep(2, 6)}, {Kind: "reopen"}},
			Crash: &jcrash{B: rep(3, 20), Ks: allKs(20)}},
		// purge everything / purge the first segment
		{MaxSize: 1024, MaxSeg: 24, Ops: []jop{{Kind: "append", B: rep(1, 10)}, {Kind: "append", B: rep(2, 10)}, {Kind: "append", B: rep(3, 10)}, {Kind: "purge", N: 1}, {Kind: "append", B: rep(4, 4)}}},
		{MaxSize: 1024, MaxSeg: 24, Ops: []jop{{Kind: "append", B: rep(1, 10)}, {Kind: "append", B: rep(2, 10)}, {Kind: "purge", N: 9}, {Kind: "append", B: rep(4, 4)}, {Kind: "reopen"}}},
		// >= 10 segments in the lifetime of the directory (one entry per segment), live segments 8..12
		// straddle the 9/10 file-name boundary; reopen, read, append, reopen (segment order = numeric id)
		longRoll(12, 7, 2, 3, nil),
		// strict verifyBlockFn
		{MaxSize: 1024, MaxSeg: 64, VMode: 1, Ops: []jop{{Kind: "append", B: rep(1, 8)}, {Kind: "append", B: rep(2, 8)}, {Kind: "reopen"}},
			Crash: &jcrash{B: append([]int{3}, rep(200, 15)...), Ks: allKs(16)}},
	}
	for i := range hand {
		if w.Len() < w.N {
			emit(w, &hand[i])
		}
	}
	// the sequential version of the concurrent scenario (small entry, read to end, segment-filling
	// append, drain; repeated) + the concurrent rounds themselves (see concRounds)
	if w.Len() < w.N {
		cc := jcase{MaxSize: 4096, MaxSeg: 64, ConcRounds: 500, ConcSeed: w.Seed}
		if w.N >= 4000 {
			cc.ConcRounds = 3000
		}
		for i := 0; i < 3; i++ {
			cc.Ops = append(cc.Ops, jop{Kind: "append", B: []int{1 + 2*i, 170, 0, i}}, jop{Kind: "scanadv", N: 2},
				jop{Kind: "append", B: append([]int{2 + 2*i, 187}, rep(0, 38)...)}, jop{Kind: "scanadv", N: 2})
		}
		emit(w, &cc)
	}
	segSizes := []int64{24, 24, 32, 40, 64, 64, 100, 300}
	for w.Len() < w.N {
		if r.IntN(8) == 0 { // long roll-over histories crossing the 9/10 segment-id boundary
			var cr *jcrash
			if r.IntN(2) == 0 {
				b := []int{120, r.IntN(256), 0, 0, 0, 0, 0, 0, 0, r.IntN(40)}
				cr = &jcrash{B: b, Ks: allKs(len(b))}
			}
			c := longRoll(10+r.IntN(5), r.IntN(10), r.IntN(4), r.IntN(4), cr)
			emit(w, &c)
			continue
		}
		c := jcase{MaxSeg: segSizes[r.IntN(len(segSizes))]}
		switch r.IntN(4) {
		case 0:
			c.MaxSize = 2 * c.MaxSeg
		case 1:
			c.MaxSize = 2*c.MaxSeg + int64(r.IntN(40))
		default:
			c.MaxSize = 4096
		}
		if r.IntN(5) == 0 {
			c.VMode = 1
		}
		adversarial := r.IntN(2) == 0
		seq := 0
		est := 0 // rough size of the current tail's data area (for the adversarial stream)
		payload := func() []int {
			seq++
			n := 1 + r.IntN(12)
			switch r.IntN(8) {
			case 0:
				n = 1 + r.IntN(3)
			case 1:
				n = int(c.MaxSeg) - 16 + r.IntN(10) - 5
			case 2:
				if r.IntN(3) == 0 {
					n = int(c.MaxSeg) + 1 + r.IntN(8)
				}
			case 3:
				n = 8 + 8*r.IntN(3)
			}
			if n < 1 {
				n = 1
			}
			b := make([]int, n)
			for i := range b {
				switch r.IntN(3) {
				case 0:
					b[i] = 0
				case 1:
					b[i] = r.IntN(4)
				default:
					b[i] = r.IntN(256)
				}
			}
			if adversarial && n >= 9 {
				// embed the big-endian encoding of a plausible record boundary somewhere after byte 0
				v := uint64(0)
				switch r.IntN(4) {
				case 0:
					v = uint64(r.IntN(est + 9))
				case 1:
					v = uint64(est)
				case 2:
					v = uint64(8 * r.IntN(6))
				default:
					v = uint64(r.IntN(40))
				}
				var e [8]byte
				binary.BigEndian.PutUint64(e[:], v)
				at := 1 + r.IntN(n-8)
				for i := 0; i < 8; i++ {
					b[at+i] = int(e[i])
				}
			}
			b[0] = 1 + (seq-1)%127
			est += 8 + n
			if int64(est) > c.MaxSeg {
				est = 8 + n
			}
			return b
		}
		nops := 3 + r.IntN(12)
		for i := 0; i < nops; i++ {
			x := r.IntN(20)
			switch {
			case x < 10:
				c.Ops = append(c.Ops, jop{Kind: "append", B: payload()})
			case x < 14:
				c.Ops = append(c.Ops, jop{Kind: "scanadv", N: r.IntN(4)})
			case x < 16:
				c.Ops = append(c.Ops, jop{Kind: "advance"})
			case x < 19:
				c.Ops = append(c.Ops, jop{Kind: "reopen"})
			default:
				c.Ops = append(c.Ops, jop{Kind: "purge", N: r.IntN(3)})
			}
		}
		if r.IntN(3) != 0 {
			b := payload()
			cr := &jcrash{B: b}
			if len(b) <= 40 {
				cr.Ks = allKs(len(b))
			} else {
				full := len(b) + 16
				seen := map[int]bool{}
				add := func(k int) {
					if k >= 0 && k <= full && !seen[k] {
						seen[k] = true
						cr.Ks = append(cr.Ks, k)
					}
				}
				for k := 0; k <= 17; k++ {
					add(k)
				}
				for k := full - 9; k <= full; k++ {
					add(k)
				}
				for j := 0; j < 14; j++ {
					add(r.IntN(full + 1))
				}
				sort.Ints(cr.Ks)
			}
			c.Crash = cr
		}
		emit(w, &c)
	}
	w.Finish()
}
