// C10 driver: field types of a real tsdb.Shard (tsi1 index, series file, WAL on).
//
// A history is a list of steps on one shard:
//
//	write   Shard.WritePoints of 1-3 points (line protocol, fields in the given order)
//	drop    Shard.DeleteMeasurement
//	clean   Shard.Close, NewShard, Open on the same directory
//	crash   copy the shard directory while the shard is live (no Close), open a new shard on the
//	        copy and continue there
//
// After every step the driver records: error class and PartialWriteError.Dropped, the dump of
// the shard's MeasurementFieldSet, the raw bytes of fields.idxl, what fields.idx alone loads
// to, and — on steps marked torn — for EVERY byte offset k of the bytes the step appended to
// fields.idxl what tsdb.NewMeasurementFieldSet loads from (fields.idx, fields.idxl cut to k).
// A second kind of case races 2-4 goroutines writing different types to one new field.
package main

import (
	"context"
	"fmt"
	"io"
	"os"
	"path/filepath"
	"sort"
	"strings"
	"sync"
	"time"

	"github.com/influxdata/influxdb/v2/models"
	"github.com/influxdata/influxdb/v2/tsdb"
	_ "github.com/influxdata/influxdb/v2/tsdb/engine"
	_ "github.com/influxdata/influxdb/v2/tsdb/index"
	"verifh/vh"
)

type jfield struct {
	Key  string `json:"k"`
	Type int    `json:"t"` // influxql.DataType: 1 float 2 integer 3 string 4 boolean 9 unsigned
}
type jpoint struct {
	Meas   string   `json:"m"`
	Series int      `json:"s"`
	Fields []jfield `json:"f"`
}
type jschema map[string]map[string]int
type jtorn struct {
	K      int     `json:"k"`
	N      int     `json:"n"` // the same result for every cut k..k+n-1
	Schema jschema `json:"schema"`
	OK     bool    `json:"ok"`
}
type jstep struct {
	Op     string   `json:"op"`
	Points []jpoint `json:"points,omitempty"`
	Meas   string   `json:"meas,omitempty"`
	Torn   bool     `json:"torn,omitempty"`
	// observations
	Err     int     `json:"impl_err"`
	ErrText string  `json:"impl_err_text,omitempty"`
	Dropped int     `json:"impl_dropped"`
	Schema  jschema `json:"impl_schema"`
	HasLog  bool    `json:"impl_has_log"`
	Log     []int   `json:"impl_log,omitempty"`
	HasSnap bool    `json:"impl_has_snap"`
	Snap    jschema `json:"impl_snap,omitempty"`
	Torns   []jtorn `json:"impl_torn,omitempty"`
}
type jcase struct {
	Kind  string  `json:"kind"` // hist | race
	Steps []jstep `json:"steps,omitempty"`
	Types []int   `json:"types,omitempty"`
	Errs  []bool  `json:"impl_errs,omitempty"`
	Final *int    `json:"impl_final,omitempty"`
}

type seriesIDSets []*tsdb.SeriesIDSet

func (a seriesIDSets) ForEach(f func(ids *tsdb.SeriesIDSet)) error {
	for _, v := range a {
		f(v)
	}
	return nil
}

type world struct {
	root  string // scratch root of the case
	gen   int    // image counter
	dir   string // current image directory (contains data/ and wal/)
	sfile *tsdb.SeriesFile
	sh    *tsdb.Shard
	old   []*tsdb.Shard // abandoned ("crashed") shards, closed at the end
	ts    int64
}

func shardPath(dir string) string { return filepath.Join(dir, "data", "db0", "rp0", "1") }
func walPath(dir string) string   { return filepath.Join(dir, "wal", "db0", "rp0", "1") }

func openShard(dir string, sfile *tsdb.SeriesFile) (*tsdb.Shard, error) {
	opt := tsdb.NewEngineOptions()
	opt.IndexVersion = tsdb.TSI1IndexName
	opt.Config.WALDir = filepath.Join(dir, "wal")
	opt.CompactionDisabled = true
	opt.MetricsDisabled = true
	opt.SeriesIDSets = seriesIDSets([]*tsdb.SeriesIDSet{tsdb.NewSeriesIDSet()})
	sh := tsdb.NewShard(1, shardPath(dir), walPath(dir), sfile, opt)
	if err := sh.Open(context.Background()); err != nil {
		return nil, err
	}
	return sh, nil
}

var (
	scratchBase string
	sharedSfile *tsdb.SeriesFile // the database-level series file, shared by all cases of a run
	sharedRoot  string
)

func newWorld() (*world, error) {
	if sharedSfile == nil {
		if st, e := os.Stat("/dev/shm"); e == nil && st.IsDir() {
			scratchBase = "/dev/shm" // tmpfs: O_SYNC is free
		}
		r, err := os.MkdirTemp(scratchBase, "c10-series-")
		if err != nil {
			return nil, err
		}
		sharedRoot = r
		sharedSfile = tsdb.NewSeriesFile(filepath.Join(r, "_series"))
		if err := sharedSfile.Open(); err != nil {
			return nil, err
		}
	}
	root, err := os.MkdirTemp(scratchBase, "c10-")
	if err != nil {
		return nil, err
	}
	w := &world{root: root, dir: filepath.Join(root, "img0"), sfile: sharedSfile}
	if w.sh, err = openShard(w.dir, w.sfile); err != nil {
		return nil, err
	}
	return w, nil
}

func cleanupShared() {
	if sharedSfile != nil {
		sharedSfile.Close()
		os.RemoveAll(sharedRoot)
	}
}

func (w *world) close() {
	if w.sh != nil {
		w.sh.Close()
	}
	for _, s := range w.old {
		s.Close()
	}
	os.RemoveAll(w.root)
}

func copyTreeAll(src, dst string) error {
	return filepath.Walk(src, func(p string, info os.FileInfo, err error) error {
		if err != nil {
			if os.IsNotExist(err) {
				return nil
			}
			return err
		}
		rel, _ := filepath.Rel(src, p)
		q := filepath.Join(dst, rel)
		if info.IsDir() {
			return os.MkdirAll(q, 0o777)
		}
		return copyFile(p, q)
	})
}

func copyFile(p, q string) error {
	in, err := os.Open(p)
	if err != nil {
		if os.IsNotExist(err) {
			return nil
		}
		return err
	}
	defer in.Close()
	out, err := os.Create(q)
	if err != nil {
		return err
	}
	defer out.Close()
	_, err = io.Copy(out, in)
	return err
}

func literal(t int, ts int64) string {
	switch t {
	case 1:
		return fmt.Sprintf("%d.5", ts%7)
	case 2:
		return fmt.Sprintf("%di", ts%7)
	case 3:
		return fmt.Sprintf("\"v%d\"", ts%7)
	case 4:
		return "true"
	case 9:
		return fmt.Sprintf("%du", ts%7)
	}
	panic("bad type")
}

func (w *world) lines(pts []jpoint) string {
	var b strings.Builder
	for _, p := range pts {
		w.ts++
		fmt.Fprintf(&b, "%s,s=%d ", p.Meas, p.Series)
		for i, f := range p.Fields {
			if i > 0 {
				b.WriteByte(',')
			}
			fmt.Fprintf(&b, "%s=%s", f.Key, literal(f.Type, w.ts))
		}
		fmt.Fprintf(&b, " %d\n", w.ts)
	}
	return b.String()
}

func dumpSet(fs *tsdb.MeasurementFieldSet) jschema {
	out := jschema{}
	for _, m := range fs.MeasurementNames() {
		mf := fs.FieldsByString(m)
		if mf == nil {
			continue
		}
		set := mf.FieldSet()
		if len(set) == 0 {
			continue // a measurement without fields is not observable through types
		}
		out[m] = map[string]int{}
		for f, t := range set {
			out[m][f] = int(t)
		}
	}
	return out
}

func (w *world) dump() (jschema, error) {
	e, err := w.sh.Engine()
	if err != nil {
		return nil, err
	}
	return dumpSet(e.MeasurementFieldSet()), nil
}

// loadAlone loads (snapshot bytes, change log bytes) with a fresh MeasurementFieldSet in a scratch dir.
func (w *world) loadAlone(snap []byte, hasSnap bool, log []byte, hasLog bool) (jschema, bool) {
	d := filepath.Join(w.root, "alone")
	os.RemoveAll(d)
	os.MkdirAll(d, 0o777)
	if hasSnap {
		os.WriteFile(filepath.Join(d, "fields.idx"), snap, 0o666)
	}
	if hasLog {
		os.WriteFile(filepath.Join(d, tsdb.FieldsChangeFile), log, 0o666)
	}
	fs, err := tsdb.NewMeasurementFieldSet(filepath.Join(d, "fields.idx"), nil)
	s := dumpSet(fs)
	fs.Close()
	return s, err == nil
}

func classify(err error) (int, int, string) {
	switch e := err.(type) {
	case nil:
		return 0, 0, ""
	case tsdb.PartialWriteError:
		return 1, e.Dropped, e.Reason
	case *tsdb.PartialWriteError:
		return 1, e.Dropped, e.Reason
	}
	return 2, 0, err.Error()
}

func (w *world) exec(st *jstep) error {
	st.Err, st.Dropped, st.ErrText, st.Torns = 0, 0, "", nil
	logPath := filepath.Join(shardPath(w.dir), tsdb.FieldsChangeFile)
	before, _ := os.ReadFile(logPath)
	switch st.Op {
	case "write":
		pts, err := models.ParsePointsWithPrecision([]byte(w.lines(st.Points)), time.Unix(0, 0), "ns")
		if err != nil {
			return fmt.Errorf("parse: %w", err)
		}
		st.Err, st.Dropped, st.ErrText = classify(w.sh.WritePoints(context.Background(), pts))
	case "drop":
		st.Err, st.Dropped, st.ErrText = classify(w.sh.DeleteMeasurement(context.Background(), []byte(st.Meas)))
	case "clean":
		if err := w.sh.Close(); err != nil {
			return fmt.Errorf("close: %w", err)
		}
		sh, err := openShard(w.dir, w.sfile)
		if err != nil {
			return fmt.Errorf("reopen: %w", err)
		}
		w.sh = sh
	case "crash":
		w.gen++
		img := filepath.Join(w.root, fmt.Sprintf("img%d", w.gen))
		if err := copyTreeAll(w.dir, img); err != nil {
			return fmt.Errorf("copy: %w", err)
		}
		w.old = append(w.old, w.sh)
		sh, err := openShard(img, w.sfile)
		if err != nil {
			return fmt.Errorf("open image: %w", err)
		}
		w.sh, w.dir = sh, img
	default:
		return fmt.Errorf("bad op %q", st.Op)
	}
	var err error
	if st.Schema, err = w.dump(); err != nil {
		return err
	}
	logPath = filepath.Join(shardPath(w.dir), tsdb.FieldsChangeFile)
	log, lerr := os.ReadFile(logPath)
	st.HasLog = lerr == nil
	st.Log = nil
	for _, b := range log {
		st.Log = append(st.Log, int(b))
	}
	snap, serr := os.ReadFile(filepath.Join(shardPath(w.dir), "fields.idx"))
	st.HasSnap = serr == nil
	st.Snap = nil
	if st.HasSnap {
		st.Snap, _ = w.loadAlone(snap, true, nil, false)
	}
	if st.Torn && (st.Op == "write" || st.Op == "drop") && st.HasLog && len(log) > len(before) && string(log[:len(before)]) == string(before) {
		for k := len(before); k < len(log); k++ {
			s, ok := w.loadAlone(snap, st.HasSnap, log[:k], true)
			if n := len(st.Torns); n > 0 && st.Torns[n-1].OK == ok && schemaT(st.Torns[n-1].Schema) == schemaT(s) {
				st.Torns[n-1].N++
			} else {
				st.Torns = append(st.Torns, jtorn{K: k, N: 1, Schema: s, OK: ok})
			}
		}
	}
	return nil
}

// ---- Gallina rendering ----

// names of the fixed universe are defined once in the shard header (keeps the terms small)
var knownNames = map[string]bool{"m0": true, "m1": true, "mr": true, "a": true, "b": true, "c": true, "fr": true}

func nameT(s string) string {
	if knownNames[s] {
		return "n_" + s
	}
	return vh.Bytes([]byte(s))
}
func nameDefs() string {
	var b strings.Builder
	for _, n := range vh.SortedKeys(knownNames) {
		b.WriteString("\nDefinition n_" + n + " : name := " + vh.Bytes([]byte(n)) + ".")
	}
	return b.String()
}
func schemaT(s jschema) string {
	var ms []string
	for _, m := range vh.SortedKeys(s) {
		var fs []string
		for _, f := range vh.SortedKeys(s[m]) {
			fs = append(fs, vh.Pair(nameT(f), vh.N(uint64(s[m][f]))))
		}
		ms = append(ms, vh.Pair(nameT(m), vh.List(fs)))
	}
	return vh.List(ms)
}
func pointT(p jpoint) string {
	var fs []string
	for _, f := range p.Fields {
		fs = append(fs, fmt.Sprintf("{| f_key := %s; f_type := %s; f_big := false; f_val := 0%%Z |}", nameT(f.Key), vh.N(uint64(f.Type))))
	}
	return fmt.Sprintf("{| w_meas := %s; w_series := %s; w_time := 0; w_fields := %s |}", nameT(p.Meas), vh.N(uint64(p.Series)), vh.List(fs))
}
func stepT(st jstep) string {
	var op string
	switch st.Op {
	case "write":
		var ps []string
		for _, p := range st.Points {
			ps = append(ps, pointT(p))
		}
		op = "OWrite " + vh.List(ps)
	case "drop":
		op = "ODrop " + nameT(st.Meas)
	case "clean":
		op = "OClean"
	case "crash":
		op = "OCrash"
	}
	logT, snapT := "None", "None"
	if st.HasLog {
		b := make([]byte, len(st.Log))
		for i, v := range st.Log {
			b[i] = byte(v)
		}
		logT = vh.Some(vh.Bytes(b))
	}
	if st.HasSnap {
		snapT = vh.Some(schemaT(st.Snap))
	}
	var ts []string
	for _, t := range st.Torns {
		ts = append(ts, fmt.Sprintf("(%s, %s, %s, %s)", vh.Nat(t.K), vh.Nat(t.N), schemaT(t.Schema), vh.Bool(t.OK)))
	}
	return fmt.Sprintf("(%s, {| o_err := %s; o_dropped := %s; o_schema := %s; o_log := %s; o_snap := %s; o_torn := %s |})",
		op, vh.N(uint64(st.Err)), vh.N(uint64(st.Dropped)), schemaT(st.Schema), logT, snapT, vh.List(ts))
}

// dropThenCrash: a measurement drop followed — before the next clean restart — by a crash restart
// or by a step whose torn images are observed (the shape of the former finding drop-not-logged;
// repaired, so it carries no signature any more: a regression is a VIOLATION).
func dropThenCrash(c *jcase) bool {
	pending := false
	for _, st := range c.Steps {
		switch st.Op {
		case "drop":
			if st.Torn {
				return true
			}
			pending = true
		case "clean":
			pending = false
		case "crash":
			if pending {
				return true
			}
		case "write":
			if pending && st.Torn {
				return true
			}
		}
	}
	return false
}

func runHist(w *vh.W, c *jcase) {
	wd, err := newWorld()
	if err != nil {
		fmt.Fprintln(os.Stderr, "driver error:", err)
		os.Exit(3)
	}
	defer wd.close()
	var machinery error
	if p := vh.Guard(func() {
		for i := range c.Steps {
			if err := wd.exec(&c.Steps[i]); err != nil {
				machinery = fmt.Errorf("step %d (%s): %w", i, c.Steps[i].Op, err)
				c.Steps = c.Steps[:i]
				return
			}
		}
	}); p != "" {
		machinery = fmt.Errorf("panic: %s", p)
	}
	var ts []string
	nontrivial := false
	for _, st := range c.Steps {
		ts = append(ts, stepT(st))
		if st.Err != 0 || st.Op == "crash" || st.Op == "drop" {
			nontrivial = true
		}
		w.Count("op", st.Op)
		if st.Op == "write" {
			w.Count("write_err", fmt.Sprint(st.Err))
			w.Count("dropped", fmt.Sprint(st.Dropped))
		}
		if len(st.Torns) > 0 {
			n := 0
			for _, t := range st.Torns {
				n += t.N
			}
			w.Count("torn_offsets", fmt.Sprint(n/10*10)+"+")
		}
	}
	sig := ""
	idx := w.Add("CHist "+vh.List(ts), c, nontrivial, sig)
	w.Count("drop_then_crash", fmt.Sprint(dropThenCrash(c)))
	if machinery != nil {
		w.Fail(idx, machinery.Error(), sig)
	}
}

func runRace(w *vh.W, c *jcase) {
	wd, err := newWorld()
	if err != nil {
		fmt.Fprintln(os.Stderr, "driver error:", err)
		os.Exit(3)
	}
	defer wd.close()
	n := len(c.Types)
	c.Errs = make([]bool, n)
	others := make([]string, n)
	var wg sync.WaitGroup
	start := make(chan struct{})
	for i := 0; i < n; i++ {
		pts, err := models.ParsePointsWithPrecision([]byte(fmt.Sprintf("mr,s=%d fr=%s %d\n", i, literal(c.Types[i], int64(i)), i+1)), time.Unix(0, 0), "ns")
		if err != nil {
			panic(err)
		}
		wg.Add(1)
		go func(i int) {
			defer wg.Done()
			<-start
			cls, _, txt := classify(wd.sh.WritePoints(context.Background(), pts))
			c.Errs[i] = cls == 1
			if cls == 2 {
				others[i] = txt
			}
		}(i)
	}
	close(start)
	wg.Wait()
	s, _ := wd.dump()
	c.Final = nil
	if t, ok := s["mr"]["fr"]; ok {
		c.Final = &t
	}
	tys := make([]uint64, n)
	for i, t := range c.Types {
		tys[i] = uint64(t)
	}
	fin := "None"
	if c.Final != nil {
		fin = vh.Some(vh.N(uint64(*c.Final)))
	}
	distinct := map[int]bool{}
	for _, t := range c.Types {
		distinct[t] = true
	}
	idx := w.Add(fmt.Sprintf("CRace %s %s %s", vh.Ns(tys), vh.Bools(c.Errs), fin), c, len(distinct) > 1, "")
	w.Count("race_writers", fmt.Sprint(n))
	for i, o := range others {
		if o != "" {
			w.Fail(idx, fmt.Sprintf("racing writer %d: unexpected error %s", i, o), "")
		}
	}
}

func run(w *vh.W, c *jcase) {
	if c.Kind == "race" {
		runRace(w, c)
	} else {
		runHist(w, c)
	}
}

var typs = []int{1, 2, 3, 4, 9}

func wr(torn bool, pts ...jpoint) jstep { return jstep{Op: "write", Points: pts, Torn: torn} }
func pt(m string, s int, kv ...interface{}) jpoint {
	p := jpoint{Meas: m, Series: s}
	for i := 0; i+1 < len(kv); i += 2 {
		p.Fields = append(p.Fields, jfield{Key: kv[i].(string), Type: kv[i+1].(int)})
	}
	return p
}

func corpus() []jcase {
	drop := func(m string) jstep { return jstep{Op: "drop", Meas: m} }
	clean, crash := jstep{Op: "clean"}, jstep{Op: "crash"}
	return []jcase{
		// create, conflict, reopen both ways
		{Kind: "hist", Steps: []jstep{wr(true, pt("m0", 0, "a", 1)), wr(false, pt("m0", 0, "a", 2)), clean, wr(false, pt("m0", 1, "a", 2)), crash, wr(false, pt("m0", 0, "a", 3))}},
		// torn tail of every record; crash with a non-empty log
		{Kind: "hist", Steps: []jstep{wr(true, pt("m0", 0, "a", 1, "b", 2)), wr(true, pt("m1", 0, "a", 3)), crash, wr(true, pt("m0", 0, "c", 4)), crash}},
		// fields of a later-rejected point that precede the conflict are created
		{Kind: "hist", Steps: []jstep{wr(false, pt("m0", 0, "b", 1)), wr(true, pt("m0", 0, "a", 2, "b", 2, "c", 2)), wr(false, pt("m0", 0, "a", 1), pt("m0", 0, "c", 1)), crash}},
		// mixed batch: accurate dropped count
		{Kind: "hist", Steps: []jstep{wr(false, pt("m0", 0, "a", 1)), wr(true, pt("m0", 0, "a", 2), pt("m0", 1, "a", 1), pt("m0", 2, "a", 3), pt("m1", 0, "a", 3))}},
		// drop then clean restart: stays dropped, type may change afterwards
		{Kind: "hist", Steps: []jstep{wr(false, pt("m0", 0, "a", 1)), drop("m0"), clean, wr(false, pt("m0", 0, "a", 2)), clean, crash}},
		// drop without restart, re-create with another type, clean restart
		{Kind: "hist", Steps: []jstep{wr(false, pt("m0", 0, "a", 1)), drop("m0"), wr(false, pt("m0", 0, "a", 2)), clean, wr(false, pt("m0", 0, "a", 1))}},
		// former finding drop-not-logged: drop, then unclean restart (deletion records must be replayed)
		{Kind: "hist", Steps: []jstep{wr(false, pt("m0", 0, "a", 1)), drop("m0"), crash, wr(false, pt("m0", 0, "a", 2))}},
		{Kind: "hist", Steps: []jstep{wr(false, pt("m0", 0, "a", 1)), clean, drop("m0"), crash, wr(false, pt("m0", 0, "a", 2))}},
		{Kind: "hist", Steps: []jstep{wr(false, pt("m0", 0, "a", 1)), drop("m0"), wr(false, pt("m0", 0, "a", 2), pt("m1", 0, "x", 1)), wr(false, pt("m1", 0, "y", 1)), crash, wr(false, pt("m1", 0, "y", 2)), crash}},
		{Kind: "hist", Steps: []jstep{wr(false, pt("m0", 0, "a", 1)), jstep{Op: "drop", Meas: "m0", Torn: true}, wr(true, pt("m1", 0, "a", 1))}},
		// drop of a measurement that does not exist
		{Kind: "hist", Steps: []jstep{drop("m0"), wr(false, pt("m1", 0, "a", 1)), drop("m0"), crash}},
		{Kind: "race", Types: []int{1, 2}},
		{Kind: "race", Types: []int{1, 2, 3, 4}},
		{Kind: "race", Types: []int{2, 2, 9}},
	}
}

func main() {
	w := vh.New("C10", "From Verif Require Import Base.Prelude Model.C10."+nameDefs(), "case", "check")
	w.Rule = "histories of 2-9 steps on a real tsdb.Shard over 2 measurements x 3 fields x 5 types: writes of 1-3 points with 1-3 fields (biased to reuse existing fields with the same or another type), DeleteMeasurement, clean reopen, crash reopen (directory copy); on marked steps every torn tail of the appended change-log bytes is loaded; every 4th case races 2-4 goroutines on one new field. Non-trivial: a conflict, a drop or a crash occurs (race: at least two distinct types). Distinct: distinct Gallina terms (inputs+observations)."
	var rc jcase
	if w.ReplayCase(&rc) {
		run(w, &rc)
		cleanupShared()
		w.Finish()
		return
	}
	r := w.Rng
	if p := os.Getenv("VERIF_PROC"); p == "" || p == "0" { // hand-picked cases: once per run
		for _, c := range corpus() {
			c := c
			run(w, &c)
		}
	}
	meas := []string{"m0", "m1"}
	flds := []string{"a", "b", "c"}
	for w.Len() < w.N {
		if w.Len()%4 == 3 {
			n := 2 + r.IntN(3)
			c := jcase{Kind: "race"}
			for i := 0; i < n; i++ {
				c.Types = append(c.Types, typs[r.IntN(3)])
			}
			run(w, &c)
			continue
		}
		// generator-side view of the types, to bias towards same-type reuse and conflicts
		known := map[string]int{}
		c := jcase{Kind: "hist"}
		n := 2 + r.IntN(8)
		allowFinding := r.IntN(2) == 0 // every 2nd history may crash (or observe torn tails) after an unsnapshotted drop
		pendingDrop := false
		for i := 0; i < n; i++ {
			x := r.IntN(20)
			switch {
			case x < 12:
				st := jstep{Op: "write", Torn: r.IntN(3) == 0}
				if pendingDrop && !allowFinding {
					st.Torn = false
				}
				np := 1 + r.IntN(3)
				for j := 0; j < np; j++ {
					p := jpoint{Meas: meas[r.IntN(2)], Series: r.IntN(2)}
					nf := 1 + r.IntN(3)
					perm := r.Perm(3)
					for q := 0; q < nf; q++ {
						f := flds[perm[q]]
						t := typs[r.IntN(5)]
						if kt, ok := known[p.Meas+"."+f]; ok && r.IntN(3) != 0 {
							t = kt
						} else if !ok {
							known[p.Meas+"."+f] = t
						}
						p.Fields = append(p.Fields, jfield{Key: f, Type: t})
					}
					st.Points = append(st.Points, p)
				}
				c.Steps = append(c.Steps, st)
			case x < 14:
				m := meas[r.IntN(2)]
				c.Steps = append(c.Steps, jstep{Op: "drop", Meas: m, Torn: allowFinding && r.IntN(2) == 0})
				for _, f := range flds {
					delete(known, m+"."+f)
				}
				pendingDrop = true
			case x < 17:
				c.Steps = append(c.Steps, jstep{Op: "clean"})
				pendingDrop = false
			default:
				if pendingDrop && !allowFinding {
					c.Steps = append(c.Steps, jstep{Op: "clean"})
					pendingDrop = false
				}
				c.Steps = append(c.Steps, jstep{Op: "crash"})
			}
		}
		run(w, &c)
	}
	cleanupShared()
	w.Finish()
}

var _ = sort.Strings
