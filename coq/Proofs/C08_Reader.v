(** C08 proofs: sequences of deletes and the reopen path (applyTombstones over the tombstone file). *)
From Verif Require Import Base.Prelude Base.C08_BE Model.C08_File Model.C08_Index Model.C08
  Proofs.C08_Search Proofs.C08_Delete.

(** any sequence of index-level deletes *)
Definition apply_dels (ix : index) (ds : list del) : index :=
  fold_left (fun ix d => index_delete_range ix (fst (fst d)) (snd (fst d)) (snd d)) ds ix.

Lemma apply_dels_wf ds : forall ix, wf_dr ix -> wf_dr (apply_dels ix ds).
Proof.
  induction ds as [|d ds IH]; intros ix H; [exact H|]. cbn [apply_dels fold_left].
  apply IH. apply index_delete_range_wf; exact H.
Qed.

Lemma dels_hide ds : forall ix k t, wf_dr ix -> in_i64 t ->
  contains_value (apply_dels ix ds) k t = contains_value ix k t && negb (deleted ds k t).
Proof.
  induction ds as [|[[ks lo] hi] ds IH]; intros ix k t Hwf Ht.
  - cbn. rewrite andb_true_r. reflexivity.
  - cbn [apply_dels fold_left fst snd].
    change (fold_left _ ds ?i) with (apply_dels i ds).
    rewrite IH by (try apply index_delete_range_wf; assumption).
    rewrite delete_range_hides by assumption.
    change (deleted ((ks, lo, hi) :: ds) k t) with (kmem k ks && (lo <=? t)%Z && (t <=? hi)%Z || deleted ds k t).
    unfold in_range. cbn [fst snd].
    destruct (contains_value ix k t), (kmem k ks), (lo <=? t)%Z, (t <=? hi)%Z, (deleted ds k t); reflexivity.
Qed.

(** applyTombstones: the records of the tombstone file, batched by equal consecutive ranges *)
Definition rcov (recs : list trec) (k : key) (t : Z) : bool :=
  existsb (fun r => keqb k (t_key r) && in_range t (t_min r, t_max r)) recs.

Lemma kmem_snoc k b x : kmem k (b ++ [x]) = kmem k b || keqb k x.
Proof. unfold kmem. rewrite existsb_app. cbn. rewrite orb_false_r. reflexivity. Qed.

Lemma apply_loop_hides recs : forall ix batch pmin pmax k t, wf_dr ix -> in_i64 t ->
  wf_dr (apply_loop ix recs batch pmin pmax) /\
  contains_value (apply_loop ix recs batch pmin pmax) k t
  = contains_value ix k t && negb (kmem k batch && in_range t (pmin, pmax)) && negb (rcov recs k t).
Proof.
  induction recs as [|ts r IH]; intros ix batch pmin pmax k t Hwf Ht.
  - cbn [apply_loop rcov existsb]. rewrite andb_true_r.
    destruct batch as [|b0 br]; [split; [exact Hwf|cbn; rewrite andb_true_r; reflexivity]|].
    split; [apply index_delete_range_wf; exact Hwf|apply delete_range_hides; assumption].
  - cbn [apply_loop]. unfold rcov. cbn [existsb]. fold (rcov r k t).
    destruct batch as [|b0 br].
    + change (([] : list key) ++ [t_key ts]) with [t_key ts].
      change (4096 <=? N.of_nat (length [t_key ts]))%N with false. cbv iota.
      destruct (IH ix [t_key ts] (t_min ts) (t_max ts) k t Hwf Ht) as [W E]. split; [exact W|].
      rewrite E. unfold kmem. cbn [existsb]. rewrite orb_false_r.
      destruct (contains_value ix k t), (keqb k (t_key ts)), (in_range t (t_min ts, t_max ts)), (rcov r k t); reflexivity.
    + set (batch := b0 :: br) in *.
      destruct (negb (pmin =? t_min ts)%Z || negb (pmax =? t_max ts)%Z) eqn:Echg.
      * change (([] : list key) ++ [t_key ts]) with [t_key ts].
        change (4096 <=? N.of_nat (length [t_key ts]))%N with false. cbv iota.
        pose proof (index_delete_range_wf ix batch pmin pmax Hwf) as Hwf1.
        destruct (IH _ [t_key ts] (t_min ts) (t_max ts) k t Hwf1 Ht) as [W E]. split; [exact W|].
        rewrite E, delete_range_hides by assumption. unfold kmem at 2. cbn [existsb]. rewrite orb_false_r.
        destruct (contains_value ix k t), (kmem k batch), (in_range t (pmin, pmax)),
          (keqb k (t_key ts)), (in_range t (t_min ts, t_max ts)), (rcov r k t); reflexivity.
      * apply orb_false_iff in Echg as [E1 E2]. apply negb_false_iff, Z.eqb_eq in E1, E2. subst pmin pmax.
        destruct (4096 <=? N.of_nat (length (batch ++ [t_key ts])))%N.
        -- pose proof (index_delete_range_wf ix (batch ++ [t_key ts]) (t_min ts) (t_max ts) Hwf) as Hwf1.
           destruct (IH _ [] (t_min ts) (t_max ts) k t Hwf1 Ht) as [W E]. split; [exact W|].
           rewrite E, delete_range_hides by assumption. rewrite kmem_snoc. cbn [kmem existsb andb negb].
           destruct (contains_value ix k t), (kmem k batch), (keqb k (t_key ts)),
             (in_range t (t_min ts, t_max ts)), (rcov r k t); reflexivity.
        -- destruct (IH ix (batch ++ [t_key ts]) (t_min ts) (t_max ts) k t Hwf Ht) as [W E]. split; [exact W|].
           rewrite E, kmem_snoc.
           destruct (contains_value ix k t), (kmem k batch), (keqb k (t_key ts)),
             (in_range t (t_min ts, t_max ts)), (rcov r k t); reflexivity.
Qed.

(** reopening: a point is visible iff a block spans it and no record of the tombstone file covers it *)
Lemma reopen_hides all file k t : ksorted all -> Forall wf_ents all -> in_i64 t ->
  contains_value (r_ix (reader_open all file)) k t
  = contains_value (index_of all) k t && negb (rcov (concat file) k t).
Proof.
  intros Hs He Ht. unfold reader_open, apply_pending, apply_tombstones. cbn [r_ix r_file r_applied skipn].
  destruct (apply_loop_hides (concat file) (index_of all) [] 0%Z 0%Z k t (index_of_wf_dr all Hs He) Ht) as [_ E].
  rewrite E. cbn. rewrite andb_true_r. reflexivity.
Qed.
