// C29 driver: the REAL authorization wrappers
//
//	authorizer.NewBucketService / NewOrgService / NewUserService / NewAuthorizationService
//	authorization.NewAuthedAuthorizationService
//
// over the real tenant.Service and authorization.Service on an in-memory KV store with all
// KV migrations applied.  A case = a setup script (run on the UNWRAPPED services), a caller
// (permission set, active flag, user id: an *influxdb.Authorization put on the context with
// icontext.SetAuthorizer) and a sequence of wrapped calls.  After every call the whole store
// is dumped through the unwrapped services; the case records, per call, the error class,
// the returned ids and the new dump if it differs from the previous one.
package main

import (
	"context"
	"fmt"
	"os"
	"regexp"
	"sort"
	"strconv"

	influxdb "github.com/influxdata/influxdb/v2"
	"github.com/influxdata/influxdb/v2/authorization"
	"github.com/influxdata/influxdb/v2/authorizer"
	icontext "github.com/influxdata/influxdb/v2/context"
	"github.com/influxdata/influxdb/v2/inmem"
	"github.com/influxdata/influxdb/v2/kit/platform"
	"github.com/influxdata/influxdb/v2/kit/platform/errors"
	"github.com/influxdata/influxdb/v2/kv/migration/all"
	"github.com/influxdata/influxdb/v2/task/taskmodel"
	"github.com/influxdata/influxdb/v2/tenant"
	"go.uber.org/zap"
	"verifh/vh"
)

const SigEsc = "token-id-and-org-permission-escalates"

// ---------- JSON case ----------

type jperm struct {
	Action string  `json:"action"`
	Type   string  `json:"type"`
	ID     *uint64 `json:"id,omitempty"`
	Org    *uint64 `json:"org,omitempty"`
}
type jres struct {
	Kind   string  `json:"kind"` // bucket org user auth
	ID     uint64  `json:"id"`
	Org    uint64  `json:"org,omitempty"`
	User   uint64  `json:"user,omitempty"`
	Sys    bool    `json:"sys,omitempty"`
	Pay    uint64  `json:"pay"` // description (name for users) interned
	Active bool    `json:"active,omitempty"`
	Perms  []jperm `json:"perms,omitempty"`
	name   string
}
type jstore struct {
	Res  []jres      `json:"res"`
	Urms [][2]uint64 `json:"urms"` // (user, org)
}
type jcaller struct {
	Perms  []jperm `json:"perms"`
	Active bool    `json:"active"`
	User   uint64  `json:"user"`
}
type jop struct {
	Op     string   `json:"op"`   // find1 findn create update delete
	Kind   string   `json:"kind"` // bucket org user auth
	Var    int      `json:"var"`  // method / wrapper variant (see methodName)
	ID     uint64   `json:"id,omitempty"`
	Flt    string   `json:"flt,omitempty"` // none id org user
	FltArg uint64   `json:"flt_arg,omitempty"`
	ByName bool     `json:"by_name,omitempty"` // resolve the id to its name/token and call the by-name form
	XOrg   uint64   `json:"x_org,omitempty"`   // also set the org field of the filter (id+org combinations; userorg)
	XUser  uint64   `json:"x_user,omitempty"`  // also set the user field of the filter
	XName  bool     `json:"x_name,omitempty"`  // also set the name field of an id filter to a name that is not the resource's
	FltIDs []uint64 `json:"flt_ids,omitempty"` // flt=ids: ids of the buckets carrying the name (resolved in the pre-state)
	New    *jres    `json:"new,omitempty"`
	Pay    uint64   `json:"pay,omitempty"`
	Active bool     `json:"active,omitempty"`
	// observed
	Method string   `json:"impl_method,omitempty"`
	Cls    int      `json:"impl_cls"`
	Err    string   `json:"impl_err,omitempty"`
	IDs    []uint64 `json:"impl_ids"`
	NewID  uint64   `json:"impl_new_id,omitempty"`
	SysIDs []uint64 `json:"impl_sys_ids,omitempty"`
	Post   *jstore  `json:"impl_post,omitempty"` // nil = store dump unchanged
}

// setup actions (run directly on the unwrapped services)
type jsetup struct {
	Kind   string  `json:"kind"` // org bucket user auth urm
	Org    uint64  `json:"org,omitempty"`
	User   uint64  `json:"user,omitempty"`
	Pay    uint64  `json:"pay,omitempty"`
	Active bool    `json:"active,omitempty"`
	Perms  []jperm `json:"perms,omitempty"`
}
type jcase struct {
	Label  string   `json:"label,omitempty"`
	Setup  []jsetup `json:"setup"`
	Caller jcaller  `json:"caller"`
	Ops    []jop    `json:"ops"`
	Init   *jstore  `json:"impl_init,omitempty"`
}

// ---------- interning ----------

var typeIn = vh.NewInterner(string(influxdb.InstanceResourceType), "authorizations", "buckets", "orgs", "users")
var actIn = vh.NewInterner("read", "write")
var descIn = vh.NewInterner("System bucket for task logs", "System bucket for monitoring logs")
var reNum = regexp.MustCompile(`^[a-z]([0-9]+)$`)

func payOf(s string) uint64 {
	if s == "" {
		return 0
	}
	if m := reNum.FindStringSubmatch(s); m != nil {
		v, _ := strconv.ParseUint(m[1], 10, 32)
		return v
	}
	return 1000 + descIn.ID(s)
}

func toPerm(j jperm) influxdb.Permission {
	p := influxdb.Permission{Action: influxdb.Action(j.Action), Resource: influxdb.Resource{Type: influxdb.ResourceType(j.Type)}}
	if j.ID != nil {
		id := platform.ID(*j.ID)
		p.Resource.ID = &id
	}
	if j.Org != nil {
		id := platform.ID(*j.Org)
		p.Resource.OrgID = &id
	}
	return p
}
func fromPerm(p influxdb.Permission) jperm {
	j := jperm{Action: string(p.Action), Type: string(p.Resource.Type)}
	if p.Resource.ID != nil {
		v := uint64(*p.Resource.ID)
		j.ID = &v
	}
	if p.Resource.OrgID != nil {
		v := uint64(*p.Resource.OrgID)
		j.Org = &v
	}
	return j
}
func toPerms(js []jperm) []influxdb.Permission {
	ps := make([]influxdb.Permission, len(js))
	for i, j := range js {
		ps[i] = toPerm(j)
	}
	return ps
}

// ---------- Gallina rendering ----------

func permTerm(j jperm) string {
	return fmt.Sprintf("(Build_perm %s (Build_resource %s %s %s))",
		vh.N(actIn.ID(j.Action)), vh.N(typeIn.ID(j.Type)), vh.OptN(j.ID), vh.OptN(j.Org))
}
func permsTerm(js []jperm) string {
	ts := make([]string, len(js))
	for i, j := range js {
		ts[i] = permTerm(j)
	}
	return vh.List(ts)
}
func kindTerm(k string) string {
	switch k {
	case "bucket":
		return "KBucket"
	case "org":
		return "KOrg"
	case "user":
		return "KUser"
	}
	return "KAuth"
}
func resTerm(r jres) string {
	return fmt.Sprintf("(mkres %s %s %s %s %s %s %s %s)", kindTerm(r.Kind), vh.N(r.ID), vh.N(r.Org), vh.N(r.User),
		vh.Bool(r.Sys), vh.N(r.Pay), vh.Bool(r.Active), permsTerm(r.Perms))
}
func storeTerm(s *jstore) string {
	rs := make([]string, len(s.Res))
	for i, r := range s.Res {
		rs[i] = resTerm(r)
	}
	us := make([]string, len(s.Urms))
	for i, u := range s.Urms {
		us[i] = vh.Pair(vh.N(u[0]), vh.N(u[1]))
	}
	return fmt.Sprintf("(mkstore %s %s)", vh.List(rs), vh.List(us))
}
func opTerm(o *jop) string {
	var call string
	k := kindTerm(o.Kind)
	switch o.Op {
	case "find1":
		call = fmt.Sprintf("(CFind1 %s %s %s)", k, vh.N(uint64(o.Var)), vh.N(o.ID))
	case "findn":
		f := "FNone"
		switch o.Flt {
		case "id":
			f = "(FID " + vh.N(o.FltArg) + ")"
		case "org":
			f = "(FOrg " + vh.N(o.FltArg) + ")"
		case "user":
			f = "(FUser " + vh.N(o.FltArg) + ")"
		case "ids":
			f = "(FIDs " + vh.Ns(o.FltIDs) + ")"
		case "userorg":
			f = "(FUserOrg " + vh.N(o.FltArg) + " " + vh.N(o.XOrg) + ")"
		}
		call = fmt.Sprintf("(CFindN %s %s)", k, f)
	case "create":
		n := *o.New
		n.ID = o.NewID
		call = fmt.Sprintf("(CCreate %s %s %s)", vh.N(uint64(o.Var)), resTerm(n), vh.Ns(o.SysIDs))
	case "update":
		call = fmt.Sprintf("(CUpdate %s %s %s %s %s)", k, vh.N(uint64(o.Var)), vh.N(o.ID), vh.N(o.Pay), vh.Bool(o.Active))
	case "delete":
		call = fmt.Sprintf("(CDelete %s %s %s)", k, vh.N(uint64(o.Var)), vh.N(o.ID))
	}
	post := "None"
	if o.Post != nil {
		post = "(Some " + storeTerm(o.Post) + ")"
	}
	return fmt.Sprintf("(%s, mkobs %s %s %s)", call, vh.N(uint64(o.Cls)), vh.Ns(o.IDs), post)
}

// ---------- the world: real services ----------

type seqGen struct{ next uint64 }

func (g *seqGen) ID() platform.ID { g.next++; return platform.ID(g.next) }

type noTasks struct{ taskmodel.TaskService }

func (noTasks) FindTasks(ctx context.Context, f taskmodel.TaskFilter) ([]*taskmodel.Task, int, error) {
	return nil, 0, nil
}

type world struct {
	ten  *tenant.Service
	auth influxdb.AuthorizationService
	bw   *authorizer.BucketService
	ow   *authorizer.OrgService
	uw   *authorizer.UserService
	aw   [2]influxdb.AuthorizationService
	nseq int
	cur  *jstore
}

func newWorld() *world {
	ctx := context.Background()
	s := inmem.NewKVStore()
	if err := all.Up(ctx, zap.NewNop(), s); err != nil {
		die("migrations: %v", err)
	}
	st := tenant.NewStore(s)
	st.IDGen = &seqGen{}
	st.OrgIDGen = &seqGen{}
	st.BucketIDGen = &seqGen{next: 100} // disjoint from org ids: tenant's URM cleanup filters by resource id only
	ten := tenant.NewService(st)
	ten.Apply(tenant.WithTaskService(noTasks{}))
	ast, err := authorization.NewStore(ctx, s, false)
	if err != nil {
		die("authorization store: %v", err)
	}
	ast.IDGen = &seqGen{next: 1000}
	asvc := authorization.NewService(ast, ten)
	w := &world{ten: ten, auth: asvc}
	w.bw = authorizer.NewBucketService(ten.BucketService)
	w.ow = authorizer.NewOrgService(ten.OrganizationService)
	w.uw = authorizer.NewUserService(ten.UserService)
	w.aw[0] = authorizer.NewAuthorizationService(asvc)
	w.aw[1] = authorization.NewAuthedAuthorizationService(asvc, ten)
	return w
}

func die(f string, a ...interface{}) {
	fmt.Fprintf(os.Stderr, "c29 driver error: "+f+"\n", a...)
	os.Exit(3)
}

func (w *world) fresh(prefix string) string { w.nseq++; return fmt.Sprintf("%s%d", prefix, 500+w.nseq) }

// dump reads the whole store through the UNWRAPPED services, canonical order.
func (w *world) dump() *jstore {
	ctx := context.Background()
	d := &jstore{Res: []jres{}, Urms: [][2]uint64{}}
	os_, _, err := w.ten.FindOrganizations(ctx, influxdb.OrganizationFilter{})
	if err != nil {
		die("dump orgs: %v", err)
	}
	for _, o := range os_ {
		d.Res = append(d.Res, jres{Kind: "org", ID: uint64(o.ID), Pay: payOf(o.Description), name: o.Name})
	}
	bs, _, err := w.ten.FindBuckets(ctx, influxdb.BucketFilter{})
	if err != nil {
		die("dump buckets: %v", err)
	}
	for _, b := range bs {
		d.Res = append(d.Res, jres{Kind: "bucket", ID: uint64(b.ID), Org: uint64(b.OrgID), Sys: b.Type == influxdb.BucketTypeSystem,
			Pay: payOf(b.Description), name: b.Name})
	}
	us, _, err := w.ten.FindUsers(ctx, influxdb.UserFilter{})
	if err != nil {
		die("dump users: %v", err)
	}
	for _, u := range us {
		d.Res = append(d.Res, jres{Kind: "user", ID: uint64(u.ID), Pay: payOf(u.Name), name: u.Name})
	}
	as, _, err := w.auth.FindAuthorizations(ctx, influxdb.AuthorizationFilter{})
	if err != nil {
		die("dump auths: %v", err)
	}
	for _, a := range as {
		r := jres{Kind: "auth", ID: uint64(a.ID), Org: uint64(a.OrgID), User: uint64(a.UserID), Pay: payOf(a.Description),
			Active: a.Status == influxdb.Active, name: a.Token}
		for _, p := range a.Permissions {
			r.Perms = append(r.Perms, fromPerm(p))
		}
		d.Res = append(d.Res, r)
	}
	ms, _, err := w.ten.FindUserResourceMappings(ctx, influxdb.UserResourceMappingFilter{ResourceType: influxdb.OrgsResourceType})
	if err != nil {
		die("dump urms: %v", err)
	}
	for _, m := range ms {
		d.Urms = append(d.Urms, [2]uint64{uint64(m.UserID), uint64(m.ResourceID)})
	}
	ko := map[string]int{"org": 0, "bucket": 1, "user": 2, "auth": 3}
	sort.SliceStable(d.Res, func(i, j int) bool {
		if d.Res[i].Kind != d.Res[j].Kind {
			return ko[d.Res[i].Kind] < ko[d.Res[j].Kind]
		}
		return d.Res[i].ID < d.Res[j].ID
	})
	sort.Slice(d.Urms, func(i, j int) bool {
		if d.Urms[i][0] != d.Urms[j][0] {
			return d.Urms[i][0] < d.Urms[j][0]
		}
		return d.Urms[i][1] < d.Urms[j][1]
	})
	return d
}

func (w *world) setup(ss []jsetup) {
	ctx := context.Background()
	for _, s := range ss {
		var err error
		switch s.Kind {
		case "org":
			err = w.ten.CreateOrganization(ctx, &influxdb.Organization{Name: w.fresh("o"), Description: fmt.Sprintf("d%d", s.Pay)})
		case "bucket":
			err = w.ten.CreateBucket(ctx, &influxdb.Bucket{OrgID: platform.ID(s.Org), Name: w.fresh("b"), Description: fmt.Sprintf("d%d", s.Pay)})
		case "user":
			err = w.ten.CreateUser(ctx, &influxdb.User{Name: fmt.Sprintf("u%d", s.Pay), Status: influxdb.Active})
		case "urm":
			err = w.ten.CreateUserResourceMapping(ctx, &influxdb.UserResourceMapping{UserID: platform.ID(s.User), UserType: influxdb.Member,
				MappingType: influxdb.UserMappingType, ResourceType: influxdb.OrgsResourceType, ResourceID: platform.ID(s.Org)})
		case "auth":
			st := influxdb.Active
			if !s.Active {
				st = influxdb.Inactive
			}
			err = w.auth.CreateAuthorization(ctx, &influxdb.Authorization{OrgID: platform.ID(s.Org), UserID: platform.ID(s.User), Status: st,
				Token: w.fresh("tok"), Description: fmt.Sprintf("d%d", s.Pay), Permissions: toPerms(s.Perms)})
		}
		if err != nil {
			die("setup %+v: %v", s, err)
		}
	}
}

func errClass(err error) int {
	if err == nil {
		return 0
	}
	switch errors.ErrorCode(err) {
	case errors.EUnauthorized:
		return 1
	case errors.EForbidden:
		return 2
	case errors.ENotFound:
		return 3
	}
	return 4
}

func (s *jstore) find(kind string, id uint64) *jres {
	for i := range s.Res {
		if s.Res[i].Kind == kind && s.Res[i].ID == id {
			return &s.Res[i]
		}
	}
	return nil
}
func (s *jstore) ids(kind string) []uint64 {
	var r []uint64
	for _, x := range s.Res {
		if x.Kind == kind {
			r = append(r, x.ID)
		}
	}
	return r
}

func storeEq(a, b *jstore) bool { return storeTerm(a) == storeTerm(b) }

func pid(v uint64) *platform.ID { id := platform.ID(v); return &id }

// exec runs one wrapped call as the caller and fills the observed fields.
func (w *world) exec(vw *vh.W, ctx context.Context, o *jop) {
	o.IDs = []uint64{}
	o.SysIDs = nil
	o.NewID = 0
	var err error
	cur := w.cur
	name, nope := "nope", "nope"
	var tgt *jres
	if o.Op != "create" && o.Op != "findn" {
		tgt = cur.find(o.Kind, o.ID)
	} else if o.Op == "findn" && o.Flt == "id" {
		tgt = cur.find(o.Kind, o.FltArg)
	}
	nameOrg := platform.ID(1)
	if tgt != nil {
		name = tgt.name
		nameOrg = platform.ID(tgt.Org)
	}
	m := ""
	switch o.Kind + "/" + o.Op {
	case "bucket/find1":
		var b *influxdb.Bucket
		switch o.Var % 4 {
		case 0:
			m = "BucketService.FindBucketByID"
			b, err = w.bw.FindBucketByID(ctx, platform.ID(o.ID))
		case 1:
			m = "BucketService.FindBucketByName"
			b, err = w.bw.FindBucketByName(ctx, nameOrg, name)
		case 2:
			m = "BucketService.FindBucket{ID}"
			b, err = w.bw.FindBucket(ctx, influxdb.BucketFilter{ID: pid(o.ID)})
		case 3:
			m = "BucketService.FindBucket{Name,OrgID}"
			b, err = w.bw.FindBucket(ctx, influxdb.BucketFilter{Name: &name, OrganizationID: &nameOrg})
		}
		if err == nil {
			o.IDs = []uint64{uint64(b.ID)}
		}
	case "bucket/findn":
		var bs []*influxdb.Bucket
		f := influxdb.BucketFilter{}
		switch o.Flt {
		case "id":
			if o.ByName {
				m = "BucketService.FindBuckets{Name,OrgID}"
				f.Name, f.OrganizationID = &name, &nameOrg
			} else {
				m = "BucketService.FindBuckets{ID}"
				f.ID = pid(o.FltArg)
				if o.XOrg != 0 {
					f.OrganizationID = pid(o.XOrg)
					m = "BucketService.FindBuckets{ID,OrgID foreign}"
					if tgt != nil && tgt.Org == o.XOrg {
						m = "BucketService.FindBuckets{ID,OrgID matching}"
					}
				}
				if o.XName {
					f.Name = &nope
					m += "+Name"
				}
			}
		case "ids":
			m = "BucketService.FindBuckets{Name}"
			tgt = cur.find("bucket", o.FltArg)
			if tgt != nil {
				name = tgt.name
			}
			o.FltIDs = []uint64{}
			for _, r := range cur.Res {
				if r.Kind == "bucket" && r.name == name {
					o.FltIDs = append(o.FltIDs, r.ID)
				}
			}
			f.Name = &name
		case "org":
			m = "BucketService.FindBuckets{OrgID}"
			f.OrganizationID = pid(o.FltArg)
			if og := cur.find("org", o.FltArg); o.ByName && og != nil {
				m = "BucketService.FindBuckets{Org name}"
				f.OrganizationID, f.Org = nil, &og.name
			}
		default:
			m = "BucketService.FindBuckets{}"
		}
		bs, _, err = w.bw.FindBuckets(ctx, f)
		for _, b := range bs {
			o.IDs = append(o.IDs, uint64(b.ID))
		}
	case "bucket/create":
		m = "BucketService.CreateBucket"
		b := &influxdb.Bucket{OrgID: platform.ID(o.New.Org), Name: w.fresh("b"), Description: fmt.Sprintf("d%d", o.New.Pay)}
		err = w.bw.CreateBucket(ctx, b)
		if err == nil {
			o.NewID = uint64(b.ID)
		}
	case "bucket/update":
		m = "BucketService.UpdateBucket"
		d := fmt.Sprintf("d%d", o.Pay)
		_, err = w.bw.UpdateBucket(ctx, platform.ID(o.ID), influxdb.BucketUpdate{Description: &d})
	case "bucket/delete":
		m = "BucketService.DeleteBucket"
		err = w.bw.DeleteBucket(ctx, platform.ID(o.ID))

	case "org/find1":
		var g *influxdb.Organization
		switch o.Var % 3 {
		case 0:
			m = "OrgService.FindOrganizationByID"
			g, err = w.ow.FindOrganizationByID(ctx, platform.ID(o.ID))
		case 1:
			m = "OrgService.FindOrganization{ID}"
			g, err = w.ow.FindOrganization(ctx, influxdb.OrganizationFilter{ID: pid(o.ID)})
		case 2:
			m = "OrgService.FindOrganization{Name}"
			g, err = w.ow.FindOrganization(ctx, influxdb.OrganizationFilter{Name: &name})
		}
		if err == nil {
			o.IDs = []uint64{uint64(g.ID)}
		}
	case "org/findn":
		f := influxdb.OrganizationFilter{}
		switch o.Flt {
		case "id":
			if o.ByName {
				m = "OrgService.FindOrganizations{Name}"
				f.Name = &name
			} else {
				m = "OrgService.FindOrganizations{ID}"
				f.ID = pid(o.FltArg)
				if o.XUser != 0 {
					f.UserID = pid(o.XUser)
					m = "OrgService.FindOrganizations{ID,UserID}"
				}
				if o.XName {
					f.Name = &nope
					m += "+Name"
				}
			}
		case "user":
			m = "OrgService.FindOrganizations{UserID}"
			f.UserID = pid(o.FltArg)
		default:
			m = "OrgService.FindOrganizations{}"
		}
		var gs []*influxdb.Organization
		gs, _, err = w.ow.FindOrganizations(ctx, f)
		for _, g := range gs {
			o.IDs = append(o.IDs, uint64(g.ID))
		}
	case "org/create":
		m = "OrgService.CreateOrganization"
		g := &influxdb.Organization{Name: w.fresh("o"), Description: fmt.Sprintf("d%d", o.New.Pay)}
		err = w.ow.CreateOrganization(ctx, g)
		o.NewID = uint64(g.ID) // set even when a later step (system buckets, owner mapping) fails
	case "org/update":
		m = "OrgService.UpdateOrganization"
		d := fmt.Sprintf("d%d", o.Pay)
		_, err = w.ow.UpdateOrganization(ctx, platform.ID(o.ID), influxdb.OrganizationUpdate{Description: &d})
	case "org/delete":
		m = "OrgService.DeleteOrganization"
		err = w.ow.DeleteOrganization(ctx, platform.ID(o.ID))

	case "user/find1":
		var u *influxdb.User
		switch o.Var % 3 {
		case 0:
			m = "UserService.FindUserByID"
			u, err = w.uw.FindUserByID(ctx, platform.ID(o.ID))
		case 1:
			m = "UserService.FindUser{ID}"
			u, err = w.uw.FindUser(ctx, influxdb.UserFilter{ID: pid(o.ID)})
		case 2:
			m = "UserService.FindUser{Name}"
			u, err = w.uw.FindUser(ctx, influxdb.UserFilter{Name: &name})
		}
		if err == nil {
			o.IDs = []uint64{uint64(u.ID)}
		}
	case "user/findn":
		f := influxdb.UserFilter{}
		switch o.Flt {
		case "id":
			if o.ByName {
				m = "UserService.FindUsers{Name}"
				f.Name = &name
			} else {
				m = "UserService.FindUsers{ID}"
				f.ID = pid(o.FltArg)
				if o.XName {
					f.Name = &nope
					m += "+Name"
				}
			}
		default:
			m = "UserService.FindUsers{}"
		}
		var us []*influxdb.User
		us, _, err = w.uw.FindUsers(ctx, f)
		for _, u := range us {
			o.IDs = append(o.IDs, uint64(u.ID))
		}
	case "user/create":
		m = "UserService.CreateUser"
		u := &influxdb.User{Name: fmt.Sprintf("u%d", o.New.Pay), Status: influxdb.Active}
		err = w.uw.CreateUser(ctx, u)
		if err == nil {
			o.NewID = uint64(u.ID)
		}
	case "user/update":
		m = "UserService.UpdateUser"
		d := fmt.Sprintf("u%d", o.Pay)
		_, err = w.uw.UpdateUser(ctx, platform.ID(o.ID), influxdb.UserUpdate{Name: &d})
	case "user/delete":
		m = "UserService.DeleteUser"
		err = w.uw.DeleteUser(ctx, platform.ID(o.ID))

	case "auth/find1":
		aw := w.aw[(o.Var/2)%2]
		wn := []string{"authorizer.AuthorizationService", "authorization.AuthedAuthorizationService"}[(o.Var/2)%2]
		var a *influxdb.Authorization
		if o.Var%2 == 0 {
			m = wn + ".FindAuthorizationByID"
			a, err = aw.FindAuthorizationByID(ctx, platform.ID(o.ID))
		} else {
			m = wn + ".FindAuthorizationByToken"
			a, err = aw.FindAuthorizationByToken(ctx, name)
		}
		if err == nil {
			o.IDs = []uint64{uint64(a.ID)}
		}
	case "auth/findn":
		aw := w.aw[o.Var%2]
		wn := []string{"authorizer.AuthorizationService", "authorization.AuthedAuthorizationService"}[o.Var%2]
		f := influxdb.AuthorizationFilter{}
		switch o.Flt {
		case "id":
			if o.ByName {
				m = wn + ".FindAuthorizations{Token}"
				f.Token = &name
			} else {
				m = wn + ".FindAuthorizations{ID}"
				f.ID = pid(o.FltArg)
			}
			if o.XOrg != 0 {
				f.OrgID = pid(o.XOrg)
				m += "+OrgID"
			}
			if o.XUser != 0 {
				f.UserID = pid(o.XUser)
				m += "+UserID"
			}
		case "userorg":
			m = wn + ".FindAuthorizations{UserID,OrgID}"
			f.UserID, f.OrgID = pid(o.FltArg), pid(o.XOrg)
		case "org":
			m = wn + ".FindAuthorizations{OrgID}"
			f.OrgID = pid(o.FltArg)
		case "user":
			m = wn + ".FindAuthorizations{UserID}"
			f.UserID = pid(o.FltArg)
		default:
			m = wn + ".FindAuthorizations{}"
		}
		var as []*influxdb.Authorization
		as, _, err = aw.FindAuthorizations(ctx, f)
		for _, a := range as {
			o.IDs = append(o.IDs, uint64(a.ID))
		}
	case "auth/create":
		aw := w.aw[o.Var%2]
		m = []string{"authorizer.AuthorizationService", "authorization.AuthedAuthorizationService"}[o.Var%2] + ".CreateAuthorization"
		st := influxdb.Active
		if !o.New.Active {
			st = influxdb.Inactive
		}
		a := &influxdb.Authorization{OrgID: platform.ID(o.New.Org), UserID: platform.ID(o.New.User), Status: st, Token: w.fresh("tok"),
			Description: fmt.Sprintf("d%d", o.New.Pay), Permissions: toPerms(o.New.Perms)}
		err = aw.CreateAuthorization(ctx, a)
		if err == nil {
			o.NewID = uint64(a.ID)
		}
	case "auth/update":
		aw := w.aw[o.Var%2]
		m = []string{"authorizer.AuthorizationService", "authorization.AuthedAuthorizationService"}[o.Var%2] + ".UpdateAuthorization"
		d := fmt.Sprintf("d%d", o.Pay)
		st := influxdb.Active
		if !o.Active {
			st = influxdb.Inactive
		}
		_, err = aw.UpdateAuthorization(ctx, platform.ID(o.ID), &influxdb.AuthorizationUpdate{Status: &st, Description: &d})
	case "auth/delete":
		aw := w.aw[o.Var%2]
		m = []string{"authorizer.AuthorizationService", "authorization.AuthedAuthorizationService"}[o.Var%2] + ".DeleteAuthorization"
		err = aw.DeleteAuthorization(ctx, platform.ID(o.ID))
	default:
		die("bad op %s/%s", o.Kind, o.Op)
	}
	o.Method = m
	o.Cls = errClass(err)
	o.Err = ""
	if err != nil {
		o.Err = err.Error()
		if len(o.Err) > 120 {
			o.Err = o.Err[:120]
		}
		o.IDs = []uint64{}
	}
	sort.Slice(o.IDs, func(i, j int) bool { return o.IDs[i] < o.IDs[j] })
	post := w.dump()
	if o.Kind == "org" && o.Op == "create" && o.NewID != 0 {
		// the ids of the two system buckets created with the organization (_tasks, _monitoring)
		for _, n := range []string{influxdb.TasksSystemBucketName, influxdb.MonitoringSystemBucketName} {
			for _, r := range post.Res {
				if r.Kind == "bucket" && r.Org == o.NewID && r.name == n {
					o.SysIDs = append(o.SysIDs, r.ID)
				}
			}
		}
	}
	if storeEq(post, cur) {
		o.Post = nil
	} else {
		o.Post = post
	}
	w.cur = post
	vw.Count("method", m)
	methodsSeen[m]++
	vw.Count("class", []string{"ok", "unauthorized", "forbidden", "notfound", "other"}[o.Cls])
	if o.Cls == 1 || o.Cls == 2 {
		vw.Count("denied_store", map[bool]string{true: "unchanged", false: "CHANGED"}[o.Post == nil])
	}
}

func hasBothSet(o *jop) bool {
	if o.Kind == "auth" && o.Op == "create" && o.New != nil {
		for _, p := range o.New.Perms {
			if p.ID != nil && p.Org != nil {
				return true
			}
		}
	}
	return false
}

func run(vw *vh.W, c *jcase) {
	var w *world
	if msg := vh.Guard(func() {
		w = newWorld()
		w.setup(c.Setup)
		w.cur = w.dump()
		c.Init = w.cur
		a := &influxdb.Authorization{ID: 999999, UserID: platform.ID(c.Caller.User), Status: influxdb.Active, Permissions: toPerms(c.Caller.Perms)}
		if !c.Caller.Active {
			a.Status = influxdb.Inactive
		}
		ctx := icontext.SetAuthorizer(context.Background(), a)
		for i := range c.Ops {
			w.exec(vw, ctx, &c.Ops[i])
		}
	}); msg != "" {
		vw.Fail(vw.Len(), "panic in wrapped services: "+msg, "")
		return
	}
	steps := make([]string, len(c.Ops))
	nontrivial := false
	sig := ""
	for i := range c.Ops {
		steps[i] = opTerm(&c.Ops[i])
		if c.Ops[i].Cls != 3 && c.Ops[i].Cls != 4 {
			nontrivial = true
		}
		if hasBothSet(&c.Ops[i]) {
			sig = SigEsc
		}
	}
	t := fmt.Sprintf("{| k_init := %s; k_caller := {| c_perms := %s; c_active := %s; c_user := %s |}; k_steps := %s |}",
		storeTerm(c.Init), permsTerm(c.Caller.Perms), vh.Bool(c.Caller.Active), vh.N(c.Caller.User), vh.List(steps))
	vw.Add(t, c, nontrivial, sig)
	vw.Count("nops", fmt.Sprint(len(c.Ops)))
	vw.Count("nperms", fmt.Sprint(min(len(c.Caller.Perms), 8)))
	if os.Getenv("C29_EXPLORE") != "" {
		fmt.Printf("--- case %s caller=%+v\n", c.Label, c.Caller)
		for _, o := range c.Ops {
			fmt.Printf("  %-70s id=%d flt=%s/%d cls=%d ids=%v changed=%v %s\n", o.Method, o.ID, o.Flt, o.FltArg, o.Cls, o.IDs, o.Post != nil, o.Err)
		}
	}
}

// probeEscalation replays the Coq witness C29_token_no_escalation_refuted on the real code,
// end to end: the caller (write on the buckets of org 1 only) is refused the update of bucket
// 106 of org 2, creates a token granting {write, buckets, id=106, org=1} through the authed
// wrapper (VerifyPermissions passes), and that token — used as the authorizer — updates
// bucket 106 of org 2 through the same BucketService wrapper.
func probeEscalation(vw *vh.W) {
	w := newWorld()
	w.setup([]jsetup{{Kind: "user", Pay: 10}, {Kind: "org", Pay: 21}, {Kind: "org", Pay: 22},
		{Kind: "bucket", Org: 1, Pay: 31}, {Kind: "bucket", Org: 2, Pay: 32}})
	caller := &influxdb.Authorization{ID: 999999, UserID: 1, Status: influxdb.Active, Permissions: toPerms([]jperm{
		{"write", "buckets", nil, u(1)}, {"write", "authorizations", nil, u(1)}, {"read", "authorizations", nil, u(1)},
		{"write", "users", u(1), nil}, {"read", "users", u(1), nil}})}
	ctx := icontext.SetAuthorizer(context.Background(), caller)
	d := "d77"
	_, err1 := w.bw.UpdateBucket(ctx, 106, influxdb.BucketUpdate{Description: &d})
	tok := &influxdb.Authorization{OrgID: 1, UserID: 1, Status: influxdb.Active, Token: "probe", Permissions: toPerms([]jperm{{"write", "buckets", u(106), u(1)}})}
	err2 := w.aw[1].CreateAuthorization(ctx, tok)
	res := map[string]interface{}{"caller_update_bucket_106_of_org_2": fmt.Sprint(err1), "create_token_write_bucket_106_org_1": fmt.Sprint(err2)}
	if err2 == nil {
		stored, err := w.auth.FindAuthorizationByID(context.Background(), tok.ID)
		if err == nil {
			ctx2 := icontext.SetAuthorizer(context.Background(), stored)
			_, err3 := w.bw.UpdateBucket(ctx2, 106, influxdb.BucketUpdate{Description: &d})
			b, _ := w.ten.FindBucketByID(context.Background(), 106)
			res["new_token_update_bucket_106_of_org_2"] = fmt.Sprint(err3)
			if b != nil {
				res["bucket_106_org"] = uint64(b.OrgID)
				res["bucket_106_description_after"] = b.Description
			}
			res["escalation_reproduced"] = errClass(err1) == 1 && err3 == nil && b != nil && b.Description == d
		}
	}
	vw.Extra["escalation_probe"] = res
}

var methodsSeen = map[string]int{}

// ---------- generation ----------

func u(v uint64) *uint64 { return &v }

type gen struct {
	vw *vh.W
}

func (g *gen) pick(xs []uint64) uint64 { return xs[g.vw.Rng.IntN(len(xs))] }

var kinds = []string{"bucket", "org", "user", "auth"}
var kindType = map[string]string{"bucket": "buckets", "org": "orgs", "user": "users", "auth": "authorizations"}

// genPerm: a permission over the small id universe of the case; rel biases towards relevant shapes.
func (g *gen) genPerm(orgIDs, bucketIDs, userIDs, authIDs []uint64) jperm {
	r := g.vw.Rng
	p := jperm{Action: []string{"read", "write"}[r.IntN(2)]}
	switch x := r.IntN(20); {
	case x < 5:
		p.Type = "buckets"
	case x < 9:
		p.Type = "orgs"
	case x < 13:
		p.Type = "users"
	case x < 17:
		p.Type = "authorizations"
	case x < 18:
		p.Type = "instance"
	default:
		p.Type = "tasks"
	}
	pool := map[string][]uint64{"buckets": bucketIDs, "orgs": orgIDs, "users": userIDs, "authorizations": authIDs}[p.Type]
	if len(pool) == 0 {
		pool = []uint64{1, 2, 3}
	}
	switch r.IntN(8) {
	case 0: // type-wide
	case 1, 2: // org-scoped
		p.Org = u(g.pick(orgIDs))
	case 3, 4, 5: // id-scoped
		p.ID = u(g.pick(pool))
	default: // id + org (the shape the UI creates)
		p.ID = u(g.pick(pool))
		p.Org = u(g.pick(orgIDs))
	}
	if p.Type == "orgs" && p.Org != nil && r.IntN(2) == 0 { // org permissions normally carry the id only
		p.ID, p.Org = p.Org, nil
	}
	return p
}

func (g *gen) genCase(idx int) jcase {
	r := g.vw.Rng
	c := jcase{}
	// setup: 2 orgs (3 sometimes), users, buckets, auths, urms; ids are sequential per kind
	norg := 2
	if r.IntN(5) == 0 {
		norg = 3
	}
	nuser := 2 + r.IntN(2)
	for i := 0; i < nuser; i++ {
		c.Setup = append(c.Setup, jsetup{Kind: "user", Pay: uint64(10 + i)})
	}
	orgIDs, userIDs := []uint64{}, []uint64{}
	for i := 1; i <= nuser; i++ {
		userIDs = append(userIDs, uint64(i))
	}
	for i := 1; i <= norg; i++ {
		c.Setup = append(c.Setup, jsetup{Kind: "org", Pay: uint64(20 + i)})
		orgIDs = append(orgIDs, uint64(i))
	}
	bucketIDs := []uint64{}
	nb := 100 + 2*norg // system buckets so far (bucket ids start at 101)
	for i := 101; i <= nb; i++ {
		bucketIDs = append(bucketIDs, uint64(i))
	}
	for i := 0; i < 1+r.IntN(3); i++ {
		c.Setup = append(c.Setup, jsetup{Kind: "bucket", Org: g.pick(orgIDs), Pay: uint64(30 + i)})
		nb++
		bucketIDs = append(bucketIDs, uint64(nb))
	}
	for _, uid := range userIDs {
		for _, oid := range orgIDs {
			if r.IntN(3) == 0 {
				c.Setup = append(c.Setup, jsetup{Kind: "urm", User: uid, Org: oid})
			}
		}
	}
	authIDs := []uint64{}
	for i := 0; i < 1+r.IntN(3); i++ {
		var ps []jperm
		org := g.pick(orgIDs)
		for k := 0; k < r.IntN(3); k++ {
			p := g.genPerm(orgIDs, bucketIDs, userIDs, []uint64{1001, 1002})
			if p.Org != nil {
				p.Org = u(org)
			}
			ps = append(ps, p)
		}
		c.Setup = append(c.Setup, jsetup{Kind: "auth", Org: org, User: g.pick(userIDs), Pay: uint64(40 + i), Active: r.IntN(4) != 0, Perms: ps})
		authIDs = append(authIDs, uint64(1001+i))
	}
	// caller
	var mintOrg, mintUser, readOrg uint64
	c.Caller = jcaller{Active: r.IntN(12) != 0, User: g.pick(append([]uint64{0, 9}, userIDs...))}
	switch x := r.IntN(20); {
	case x == 0: // operator token
		for _, p := range influxdb.OperPermissions() {
			c.Caller.Perms = append(c.Caller.Perms, fromPerm(p))
		}
	case x == 1: // owner of one organisation (the permission set a session of an org owner carries)
		for _, p := range influxdb.OwnerPermissions(platform.ID(g.pick(orgIDs))) {
			c.Caller.Perms = append(c.Caller.Perms, fromPerm(p))
		}
	case x == 2: // nothing
	case x < 5: // may read one org and all its buckets (the shape an org-wide fast path would test for), plus a few more
		o := g.pick(orgIDs)
		readOrg = o
		c.Caller.Perms = []jperm{{"read", "orgs", u(o), nil}, {"read", "buckets", nil, u(o)}}
		for i := r.IntN(3); i > 0; i-- {
			c.Caller.Perms = append(c.Caller.Perms, g.genPerm(orgIDs, bucketIDs, userIDs, authIDs))
		}
	case x < 8: // a token-minting member of one org: may create tokens there for one user, plus a few more permissions
		o, us := g.pick(orgIDs), g.pick(userIDs)
		mintOrg, mintUser = o, us
		c.Caller.User = us
		c.Caller.Perms = []jperm{{"write", "authorizations", nil, u(o)}, {"read", "authorizations", nil, u(o)}, {"write", "users", u(us), nil}, {"read", "users", u(us), nil}}
		for i := r.IntN(4); i > 0; i-- {
			c.Caller.Perms = append(c.Caller.Perms, g.genPerm(orgIDs, bucketIDs, userIDs, authIDs))
		}
	default:
		n := 1 + r.IntN(6)
		for i := 0; i < n; i++ {
			c.Caller.Perms = append(c.Caller.Perms, g.genPerm(orgIDs, bucketIDs, userIDs, authIDs))
		}
	}
	// ops
	nops := 4 + r.IntN(7)
	pools := map[string][]uint64{"bucket": bucketIDs, "org": orgIDs, "user": userIDs, "auth": authIDs}
	next := map[string]uint64{"bucket": uint64(nb), "org": uint64(norg), "user": uint64(nuser), "auth": uint64(1000 + len(authIDs))}
	payc := uint64(100 + 20*idx%800)
	for i := 0; i < nops; i++ {
		k := kinds[r.IntN(4)]
		o := jop{Kind: k, Var: r.IntN(12)}
		pool := append([]uint64{}, pools[k]...)
		// ids created by earlier ops of this case may exist too; 77 never exists
		for x := pools[k][len(pools[k])-1] + 1; x <= next[k]+2; x++ {
			pool = append(pool, x)
		}
		target := g.pick(pool)
		if r.IntN(9) == 0 {
			target = 77
		}
		switch x := r.IntN(20); {
		case x < 5:
			o.Op, o.ID = "find1", target
			if (k == "org" || k == "user") && o.Var%3 == 0 && r.IntN(10) == 0 {
				o.ID = 0 // invalid id reaches the permission constructor first
			}
		case x < 10:
			o.Op = "findn"
			switch y := r.IntN(8); {
			case y < 3:
				o.Flt = "none"
			case y < 5:
				o.Flt, o.FltArg, o.ByName = "id", target, r.IntN(3) == 0
				if r.IntN(2) == 0 { // combined filters: the id is resolved first, the rest must not matter
					switch k {
					case "bucket":
						if !o.ByName {
							o.XOrg = g.pick(orgIDs)
							if readOrg != 0 && r.IntN(3) != 0 {
								o.XOrg = readOrg
							}
						}
					case "org":
						if !o.ByName {
							o.XUser = g.pick(append([]uint64{8}, userIDs...))
						}
					case "auth":
						if r.IntN(2) == 0 {
							o.XOrg = g.pick(orgIDs)
						} else {
							o.XUser = g.pick(userIDs)
						}
					}
					if !o.ByName && k != "auth" {
						o.XName = r.IntN(3) == 0
					}
				}
			case y < 7 && (k == "bucket" || k == "auth"):
				o.Flt, o.FltArg = "org", g.pick(append([]uint64{7}, orgIDs...))
				o.ByName = k == "bucket" && r.IntN(3) == 0
				if k == "bucket" && r.IntN(4) == 0 {
					o.Flt, o.FltArg, o.ByName = "ids", target, false
				}
				if k == "auth" && r.IntN(3) == 0 {
					o.Flt, o.XOrg, o.FltArg = "userorg", o.FltArg, g.pick(append([]uint64{8}, userIDs...))
				}
			case k == "org" || k == "auth":
				o.Flt, o.FltArg = "user", g.pick(append([]uint64{8}, userIDs...))
			default:
				o.Flt = "none"
			}
		case x < 14:
			o.Op = "create"
			payc++
			n := &jres{Kind: k, Pay: payc, Active: true}
			switch k {
			case "bucket":
				n.Org = g.pick(append([]uint64{7}, orgIDs...))
				if r.IntN(15) == 0 {
					n.Org = 0
				}
			case "auth":
				n.Org = g.pick(append([]uint64{7}, orgIDs...))
				n.User = g.pick(append([]uint64{8}, userIDs...))
				n.Active = r.IntN(5) != 0
				if mintOrg != 0 && r.IntN(4) != 0 {
					n.Org, n.User = mintOrg, mintUser
				}
				for j := r.IntN(4); j > 0; j-- {
					var p jperm
					if len(c.Caller.Perms) > 0 && r.IntN(3) != 0 { // derived from a held permission: same, or narrowed
						p = c.Caller.Perms[r.IntN(len(c.Caller.Perms))]
						switch r.IntN(5) {
						case 0:
							if p.ID == nil {
								p.ID = u(g.pick(pools[k]))
							}
						case 1:
							if p.Org == nil {
								p.Org = u(n.Org)
							}
						case 2:
							p.ID = u(g.pick(bucketIDs))
						}
					} else {
						p = g.genPerm(orgIDs, bucketIDs, userIDs, authIDs)
					}
					if p.Org != nil && r.IntN(6) != 0 {
						p.Org = u(n.Org) // Authorization.Valid wants the permission's org = the token's org
					}
					n.Perms = append(n.Perms, p)
				}
			}
			o.New = n
			next[k]++
			if k == "org" {
				next["bucket"] += 2
			}
		case x < 17:
			payc++
			o.Op, o.ID, o.Pay, o.Active = "update", target, payc, r.IntN(3) != 0
			if (k == "org" || k == "user") && r.IntN(12) == 0 {
				o.ID = 0
			}
		default:
			o.Op, o.ID = "delete", target
		}
		c.Ops = append(c.Ops, o)
	}
	return c
}

// genMultiPerm: token creation with MULTI-permission lists (2-4 permissions) mixing held and
// un-held permissions of the same action/type with different scopes, in every order, through
// both authorization wrappers.  No permission names both an id and an org here, so none of these
// cases carries the known-finding signature.
func (g *gen) genMultiPerm(idx int) jcase {
	r := g.vw.Rng
	c := jcase{Label: "multi-permission-tokens", Setup: []jsetup{{Kind: "user", Pay: 10}, {Kind: "user", Pay: 11}, {Kind: "org", Pay: 21}, {Kind: "org", Pay: 22},
		{Kind: "bucket", Org: 1, Pay: 31}, {Kind: "bucket", Org: 2, Pay: 32}}}
	A := uint64(1 + r.IntN(2))
	B := 3 - A
	us := uint64(1 + r.IntN(2))
	c.Caller = jcaller{Active: true, User: us, Perms: []jperm{{"write", "authorizations", nil, u(A)}, {"read", "authorizations", nil, u(A)},
		{"write", "users", u(us), nil}, {"read", "users", u(us), nil}}}
	types := []string{"buckets", "buckets", "orgs", "users", "authorizations", "tasks"}
	ids := map[string][]uint64{"buckets": {105, 106, 101}, "orgs": {1, 2}, "users": {1, 2}, "authorizations": {1001, 1002}, "tasks": {5, 6}}
	var held []jperm
	for i := 1 + r.IntN(3); i > 0; i-- {
		h := jperm{Action: []string{"read", "write"}[r.IntN(2)], Type: types[r.IntN(len(types))]}
		switch r.IntN(6) {
		case 0: // type-wide
		case 1, 2: // id-scoped
			h.ID = u(g.pick(ids[h.Type]))
		default: // org-scoped
			h.Org = u(A)
		}
		held = append(held, h)
	}
	c.Caller.Perms = append(c.Caller.Perms, held...)
	variants := func(h jperm) []jperm { // same action/type, other scopes; other action
		vs := []jperm{{h.Action, h.Type, nil, nil}, {h.Action, h.Type, nil, u(A)}, {h.Action, h.Type, nil, u(B)},
			{h.Action, h.Type, u(g.pick(ids[h.Type])), nil}, {h.Action, h.Type, u(g.pick(ids[h.Type])), nil}}
		o := h
		o.Action = map[string]string{"read": "write", "write": "read"}[h.Action]
		return append(vs, o, h, h)
	}
	payc := uint64(100 + 20*idx%800)
	nops := 4 + r.IntN(4)
	for len(c.Ops) < nops {
		h := held[r.IntN(len(held))]
		vs := variants(h)
		n := 2 + r.IntN(3)
		ps := []jperm{h}
		for len(ps) < n {
			if r.IntN(4) == 0 {
				ps = append(ps, variants(held[r.IntN(len(held))])[r.IntN(8)])
			} else {
				ps = append(ps, vs[r.IntN(len(vs))])
			}
		}
		r.Shuffle(len(ps), func(i, j int) { ps[i], ps[j] = ps[j], ps[i] })
		orders := [][]jperm{ps}
		if r.IntN(2) == 0 { // the same list reversed, through the other wrapper
			rev := make([]jperm, len(ps))
			for i := range ps {
				rev[len(ps)-1-i] = ps[i]
			}
			orders = append(orders, rev)
		}
		v := r.IntN(2)
		for _, l := range orders {
			payc++
			c.Ops = append(c.Ops, jop{Op: "create", Kind: "auth", Var: v, New: &jres{Kind: "auth", Org: A, User: us, Pay: payc, Active: true, Perms: l}})
			v = 1 - v
		}
	}
	c.Ops = append(c.Ops, jop{Op: "findn", Kind: "auth", Flt: "none", Var: r.IntN(2)})
	return c
}

// hand-picked regression cases, run first
func corpus() []jcase {
	base := []jsetup{{Kind: "user", Pay: 10}, {Kind: "user", Pay: 11}, {Kind: "org", Pay: 21}, {Kind: "org", Pay: 22},
		{Kind: "bucket", Org: 1, Pay: 31}, {Kind: "bucket", Org: 2, Pay: 32}, // buckets 105 (org 1) and 106 (org 2); system buckets 101,102 (org 1) 103,104 (org 2)
		{Kind: "urm", User: 1, Org: 1},
		{Kind: "auth", Org: 1, User: 1, Pay: 41, Active: true, Perms: []jperm{{"read", "buckets", u(105), u(1)}}},
		{Kind: "auth", Org: 2, User: 2, Pay: 42, Active: true}}
	rw := func(t string, id, org *uint64) []jperm { return []jperm{{"read", t, id, org}, {"write", t, id, org}} }
	cat := func(xs ...[]jperm) []jperm {
		var r []jperm
		for _, x := range xs {
			r = append(r, x...)
		}
		return r
	}
	allFinds := func() []jop {
		var ops []jop
		for _, k := range kinds {
			ops = append(ops, jop{Op: "findn", Kind: k, Flt: "none"})
		}
		return ops
	}
	var cs []jcase
	// 1. the escalation witness: org-1-scoped caller mints a token naming bucket 6 (of org 2) with org 1
	cs = append(cs, jcase{Label: "escalation-witness", Setup: base,
		Caller: jcaller{Active: true, User: 1, Perms: cat(rw("buckets", nil, u(1)), rw("authorizations", nil, u(1)), rw("users", u(1), nil))},
		Ops: []jop{
			{Op: "find1", Kind: "bucket", ID: 106},
			{Op: "update", Kind: "bucket", ID: 106, Pay: 99},
			{Op: "create", Kind: "auth", Var: 1, New: &jres{Kind: "auth", Org: 1, User: 1, Pay: 50, Active: true, Perms: []jperm{{"write", "buckets", u(106), u(1)}}}},
			{Op: "create", Kind: "auth", Var: 0, New: &jres{Kind: "auth", Org: 1, User: 1, Pay: 51, Active: true, Perms: []jperm{{"write", "buckets", u(106), u(2)}}}},
			{Op: "create", Kind: "auth", Var: 1, New: &jres{Kind: "auth", Org: 1, User: 1, Pay: 52, Active: true, Perms: []jperm{{"write", "buckets", u(106), nil}}}},
		}})
	// 2. nothing held: everything denied, nothing returned
	ops := allFinds()
	for _, k := range kinds {
		id := map[string]uint64{"bucket": 105, "org": 1, "user": 1, "auth": 1001}[k]
		ops = append(ops, jop{Op: "find1", Kind: k, ID: id}, jop{Op: "update", Kind: k, ID: id, Pay: 60, Active: true}, jop{Op: "delete", Kind: k, ID: id},
			jop{Op: "create", Kind: k, New: &jres{Kind: k, Org: 1, User: 1, Pay: 61, Active: true}})
	}
	cs = append(cs, jcase{Label: "no-permissions", Setup: base, Caller: jcaller{Active: true, User: 1}, Ops: ops})
	// 3. operator token, inactive: the same calls, all denied
	var oper []jperm
	for _, p := range influxdb.OperPermissions() {
		oper = append(oper, fromPerm(p))
	}
	ops2 := append([]jop{}, ops...)
	cs = append(cs, jcase{Label: "inactive-operator", Setup: base, Caller: jcaller{Active: false, User: 1, Perms: oper}, Ops: ops2})
	// 4. operator token, active
	ops3 := append(allFinds(), jop{Op: "create", Kind: "org", New: &jres{Kind: "org", Pay: 70}},
		jop{Op: "create", Kind: "bucket", New: &jres{Kind: "bucket", Org: 3, Pay: 71}},
		jop{Op: "create", Kind: "auth", Var: 1, New: &jres{Kind: "auth", Org: 3, User: 2, Pay: 72, Active: true, Perms: []jperm{{"read", "buckets", nil, u(3)}}}},
		jop{Op: "create", Kind: "auth", Var: 1, New: &jres{Kind: "auth", Org: 1, User: 2, Pay: 73, Active: true, Perms: []jperm{{"read", "instance", nil, nil}}}},
		jop{Op: "findn", Kind: "org", Flt: "none"}, jop{Op: "delete", Kind: "bucket", ID: 101}, jop{Op: "delete", Kind: "org", ID: 2},
		jop{Op: "delete", Kind: "user", ID: 1}, jop{Op: "findn", Kind: "auth", Flt: "none"}, jop{Op: "findn", Kind: "bucket", Flt: "none"})
	cs = append(cs, jcase{Label: "operator", Setup: base, Caller: jcaller{Active: true, User: 2, Perms: oper}, Ops: ops3})
	// 5. instance-wide permission; tokens with instance type are refused by the authed wrapper only
	cs = append(cs, jcase{Label: "instance", Setup: base, Caller: jcaller{Active: true, User: 1, Perms: rw("instance", nil, nil)},
		Ops: append(allFinds(),
			jop{Op: "create", Kind: "auth", Var: 1, New: &jres{Kind: "auth", Org: 1, User: 1, Pay: 80, Active: true, Perms: []jperm{{"read", "instance", nil, nil}}}},
			jop{Op: "create", Kind: "auth", Var: 0, New: &jres{Kind: "auth", Org: 1, User: 1, Pay: 81, Active: true, Perms: []jperm{{"read", "instance", nil, nil}}}})})
	// 6. system buckets are read with the ORG read permission; org listing falls back to the caller's memberships
	cs = append(cs, jcase{Label: "system-buckets-and-memberships", Setup: base,
		Caller: jcaller{Active: true, User: 1, Perms: []jperm{{"read", "orgs", u(1), nil}, {"read", "buckets", nil, u(2)}, {"write", "buckets", u(101), u(1)}}},
		Ops: []jop{{Op: "findn", Kind: "bucket", Flt: "none"}, {Op: "findn", Kind: "bucket", Flt: "org", FltArg: 1}, {Op: "find1", Kind: "bucket", ID: 101, Var: 1},
			{Op: "find1", Kind: "bucket", ID: 103}, {Op: "findn", Kind: "org", Flt: "none"}, {Op: "findn", Kind: "org", Flt: "user", FltArg: 2},
			{Op: "update", Kind: "bucket", ID: 101, Pay: 90}, {Op: "delete", Kind: "bucket", ID: 101}, {Op: "find1", Kind: "org", ID: 2, Var: 0}, {Op: "find1", Kind: "org", ID: 77, Var: 0},
			{Op: "find1", Kind: "org", ID: 77, Var: 1}, {Op: "find1", Kind: "org", ID: 0, Var: 0}, {Op: "create", Kind: "bucket", New: &jres{Kind: "bucket", Org: 0, Pay: 91}}}})
	// 7. tokens are visible only with read on the token AND on its user
	cs = append(cs, jcase{Label: "auth-needs-user-too", Setup: base,
		Caller: jcaller{Active: true, User: 1, Perms: cat(rw("authorizations", nil, nil), rw("users", u(1), nil))},
		Ops: []jop{{Op: "findn", Kind: "auth", Flt: "none"}, {Op: "find1", Kind: "auth", ID: 1002}, {Op: "find1", Kind: "auth", ID: 1001, Var: 1}, {Op: "find1", Kind: "auth", ID: 1001, Var: 3},
			{Op: "update", Kind: "auth", ID: 1002, Pay: 95, Active: false}, {Op: "update", Kind: "auth", ID: 1001, Pay: 96, Active: false, Var: 1}, {Op: "delete", Kind: "auth", ID: 1002},
			{Op: "delete", Kind: "auth", ID: 1001}, {Op: "create", Kind: "auth", New: &jres{Kind: "auth", Org: 1, User: 2, Pay: 97, Active: true}},
			{Op: "create", Kind: "auth", New: &jres{Kind: "auth", Org: 1, User: 1, Pay: 98, Active: true, Perms: []jperm{{"read", "buckets", nil, u(1)}}}},
			{Op: "create", Kind: "auth", New: &jres{Kind: "auth", Org: 1, User: 1, Pay: 99, Active: true, Perms: []jperm{{"read", "users", u(1), nil}, {"read", "authorizations", nil, u(1)}}}}}})
	// 8. combined filters: an id in the filter is resolved first, whatever org/name/user comes with it
	cs = append(cs, jcase{Label: "combined-filters", Setup: base,
		Caller: jcaller{Active: true, User: 1, Perms: []jperm{{"read", "orgs", u(1), nil}, {"read", "buckets", nil, u(1)}, {"read", "authorizations", nil, u(1)}, {"read", "users", u(1), nil}}},
		Ops: []jop{{Op: "findn", Kind: "bucket", Flt: "org", FltArg: 1}, {Op: "findn", Kind: "bucket", Flt: "org", FltArg: 1, ByName: true},
			{Op: "findn", Kind: "bucket", Flt: "org", FltArg: 2}, {Op: "findn", Kind: "bucket", Flt: "id", FltArg: 105, XOrg: 1},
			{Op: "findn", Kind: "bucket", Flt: "id", FltArg: 106, XOrg: 1}, {Op: "findn", Kind: "bucket", Flt: "id", FltArg: 103, XOrg: 1},
			{Op: "findn", Kind: "bucket", Flt: "id", FltArg: 105, XOrg: 2}, {Op: "findn", Kind: "bucket", Flt: "id", FltArg: 106, XOrg: 2, XName: true},
			{Op: "findn", Kind: "bucket", Flt: "id", FltArg: 105, ByName: true}, {Op: "findn", Kind: "bucket", Flt: "id", FltArg: 106, ByName: true},
			{Op: "findn", Kind: "bucket", Flt: "ids", FltArg: 101}, {Op: "findn", Kind: "bucket", Flt: "ids", FltArg: 105}, {Op: "findn", Kind: "bucket", Flt: "ids", FltArg: 77},
			{Op: "findn", Kind: "org", Flt: "id", FltArg: 2, XUser: 1}, {Op: "findn", Kind: "org", Flt: "id", FltArg: 1, XUser: 2, XName: true},
			{Op: "findn", Kind: "user", Flt: "id", FltArg: 2, XName: true}, {Op: "findn", Kind: "user", Flt: "id", FltArg: 1, XName: true},
			{Op: "findn", Kind: "auth", Flt: "id", FltArg: 1002, XOrg: 1}, {Op: "findn", Kind: "auth", Flt: "id", FltArg: 1001, XOrg: 2, Var: 1},
			{Op: "findn", Kind: "auth", Flt: "id", FltArg: 1002, XUser: 1}, {Op: "findn", Kind: "auth", Flt: "userorg", FltArg: 1, XOrg: 1},
			{Op: "findn", Kind: "auth", Flt: "userorg", FltArg: 2, XOrg: 1, Var: 1}, {Op: "findn", Kind: "auth", Flt: "id", FltArg: 1002, ByName: true, XOrg: 1}}})
	// 9. multi-permission token requests: a held org-scoped permission next to un-held ones of the same action/type
	minter := cat(rw("authorizations", nil, u(1)), rw("users", u(1), nil), []jperm{{"read", "buckets", nil, u(1)}, {"write", "tasks", u(5), nil}})
	tok := func(v int, pay uint64, ps ...jperm) jop {
		return jop{Op: "create", Kind: "auth", Var: v, New: &jres{Kind: "auth", Org: 1, User: 1, Pay: pay, Active: true, Perms: ps}}
	}
	hb, gb, ob, ib := jperm{"read", "buckets", nil, u(1)}, jperm{"read", "buckets", nil, nil}, jperm{"read", "buckets", nil, u(2)}, jperm{"read", "buckets", u(106), nil}
	ht, gt, ot := jperm{"write", "tasks", u(5), nil}, jperm{"write", "tasks", nil, nil}, jperm{"write", "tasks", u(6), nil}
	cs = append(cs, jcase{Label: "multi-permission-tokens", Setup: base, Caller: jcaller{Active: true, User: 1, Perms: minter},
		Ops: []jop{tok(0, 60, hb, gb), tok(1, 61, hb, gb), tok(0, 62, gb, hb), tok(1, 63, gb, hb), tok(0, 64, hb, ob), tok(1, 65, hb, ib), tok(0, 66, hb, hb, gb),
			tok(1, 67, ht, hb, gt), tok(0, 68, ht, ot), tok(1, 69, ot, ht), tok(0, 70, hb, ht), tok(1, 71, hb, ht, hb), tok(0, 72, ht, hb, jperm{"write", "buckets", nil, u(1)}),
			tok(1, 73, hb, jperm{"read", "tasks", u(5), nil}), {Op: "findn", Kind: "auth", Flt: "none"}}})
	return cs
}

func main() {
	vw := vh.New("C29", "From Verif Require Import Base.Prelude Model.C28 Model.C29.", "case", "check")
	vw.Rule = "hand-picked cases first (escalation witness, no permissions, inactive operator, operator, instance-wide, system buckets + memberships, tokens need user too), then random: setup of 2-3 orgs (each with its 2 system buckets), 1-3 more buckets, 2-3 users, 1-3 tokens, random memberships, on the UNWRAPPED services; a caller with 0-6 random permissions (read/write x authorizations/buckets/orgs/users/instance/tasks x type-wide/org-scoped/id-scoped/id+org) or the operator / org-owner permission set, sometimes inactive; 4-10 wrapped calls (find one by id/name/token/filter, find many with filter none/id/name/org/user, create, update, delete) over the four kinds and both authorization wrappers, targets mostly existing ids, sometimes missing (77) or invalid (0). Non-trivial: some call was not answered 'not found'/'other'. Distinct: distinct Gallina terms."
	var rc jcase
	if vw.ReplayCase(&rc) {
		run(vw, &rc)
		vw.Finish()
		return
	}
	probeEscalation(vw)
	for _, c := range corpus() {
		c := c
		run(vw, &c)
	}
	g := &gen{vw: vw}
	for i := 0; vw.Len() < vw.N; i++ {
		var c jcase
		if i%4 == 3 {
			c = g.genMultiPerm(i)
		} else {
			c = g.genCase(i)
		}
		run(vw, &c)
	}
	vw.Extra["wrapper_methods_exercised"] = methodsSeen
	vw.Finish()
}
