package tsm1_test

// NOT part of the seeded changes: two behaviours of the UNMODIFIED code base
// that were noticed while preparing the C02 seeds (both tests FAIL on HEAD).
// They need the fixture of c02_m2_demo_test.go in the same package.

import (
	"fmt"
	"os"
	"testing"
)

// After a failed snapshot attempt Cache.Snapshot() returns the retained
// snapshot only (not the writes made since), but doWriteSnapshot has closed and
// listed ALL closed WAL segments, which are removed when the retry commits.
func TestC02Side_FailedSnapshotRetryLosesLaterWrites(t *testing.T) {
	s := &c02m2Shard{root: t.TempDir()}
	s.open(t)
	s.write(t, "cpu,host=A value=1.5 1000")
	s.eng.Compactor.DisableSnapshots()
	if err := s.eng.WriteSnapshot(); err == nil {
		t.Fatal("expected the snapshot to fail")
	}
	s.write(t, "cpu,host=A value=2.5 2000")
	s.eng.Compactor.EnableSnapshots()
	if err := s.eng.WriteSnapshot(); err != nil {
		t.Fatal(err)
	}
	s.crash(t)
	s.open(t)
	defer s.crash(t)
	if got := s.read(t); fmt.Sprint(got) != "[host=A t=1000 v=1.5 host=A t=2000 v=2.5]" {
		t.Fatalf("after restart: %v", got)
	}
}

// WAL.Open seeks the last segment to its end BEFORE CacheLoader truncates the
// torn tail; later appends leave a hole, so writes acknowledged after the first
// restart are dropped by the second one.
func TestC02Side_TornTailThenWritesThenRestart(t *testing.T) {
	s := &c02m2Shard{root: t.TempDir()}
	s.open(t)
	s.write(t, "cpu,host=A value=1.5 1000")
	seg := s.lastSegment(t)
	s.crash(t)
	f, err := os.OpenFile(seg, os.O_WRONLY|os.O_APPEND, 0666)
	if err != nil {
		t.Fatal(err)
	}
	f.Write([]byte{1, 0, 0, 1, 44, 9, 9, 9}) // header + 3 of 300 payload bytes
	f.Close()
	s.open(t)
	s.write(t, "cpu,host=A value=2.5 2000")
	s.crash(t)
	s.open(t)
	defer s.crash(t)
	if got := s.read(t); fmt.Sprint(got) != "[host=A t=1000 v=1.5 host=A t=2000 v=2.5]" {
		t.Fatalf("after second restart: %v", got)
	}
}
