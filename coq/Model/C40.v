(** C40 — Partial writes store exactly the accepted points.

    Mirror of Shard.WritePoints / Shard.validateSeriesAndFields (tsdb/shard.go) on top of the
    field-schema mirror of Model/C10.v (ValidateAndCreateFields, CreateFieldIfNotExists), and
    of the hand-off to the storage engine: Engine.WritePoints turns every field of every point
    it is given, except a field named time (skipped: the shard has reported it as stripped),
    into a value under the key series#!~#field;
    Cache.WriteMulti rejects a key whose new values have mixed types or a type other than the
    one already cached and, if any key was rejected, the batch is not written to the WAL and
    the write returns a non-partial error.

    Values are identified by small integers (the driver maps them to typed literals). *)
From Verif Require Import Base.Prelude Model.C10.

Record bpoint := {
  b_meas : name; b_series : N;
  b_timetag : bool;      (* the point has a tag named time *)
  b_badkey : bool;       (* measurement or a tag contains invalid unicode (models.ValidKeyTokens = false) *)
  b_time : Z; b_fields : list pfield }.

Definition to_w (p : bpoint) : wpoint :=
  {| w_meas := b_meas p; w_series := b_series p; w_time := b_time p; w_fields := b_fields p |}.

(** first loop of validateSeriesAndFields *)
Definition key_ok (vk : bool) (p : bpoint) : bool := negb (b_timetag p) && negb (vk && b_badkey p).

(** * The value store: key -> (type, time -> value) *)
Definition vals := list (Z * Z).
Fixpoint vset (t v : Z) (l : vals) : vals :=
  match l with
  | [] => [(t, v)]
  | (t', v') :: r => if Z.eqb t' t then (t, v) :: r else (t', v') :: vset t v r
  end.
Definition vstore := list (dkey * N * vals).

Fixpoint slookup (k : dkey) (st : vstore) : option (N * vals) :=
  match st with
  | [] => None
  | (k', ty, vs) :: r => if dkey_eqb k' k then Some (ty, vs) else slookup k r
  end.
Fixpoint sput (k : dkey) (ty : N) (t v : Z) (st : vstore) : vstore :=
  match st with
  | [] => [(k, ty, [(t, v)])]
  | (k', ty', vs) :: r => if dkey_eqb k' k then (k', ty', vset t v vs) :: r else (k', ty', vs) :: sput k ty t v r
  end.

(** entries of a batch handed to the engine, in order (a field named time is skipped) *)
Definition entries (acc : list wpoint) : list (dkey * N * Z * Z) :=
  flat_map (fun p => flat_map (fun f => if name_eqb (f_key f) TIME then []
                                        else [((w_meas p, w_series p, f_key f), f_type f, w_time p, f_val f)])
                              (w_fields p)) acc.

Definition types_of (st : vstore) (ents : list (dkey * N * Z * Z)) (k : dkey) : list N :=
  (match slookup k st with Some (ty, _) => [ty] | None => [] end) ++
  flat_map (fun '(k', ty, _, _) => if dkey_eqb k k' then [ty] else []) ents.
Definition conflict (st : vstore) ents (k : dkey) : bool :=
  match types_of st ents k with [] => false | t :: r => negb (forallb (N.eqb t) r) end.

(** Cache.WriteMulti (per key all-or-nothing) and WAL.WriteMulti (only without error). *)
Definition put_all (st : vstore) (ents : list (dkey * N * Z * Z)) (skip : dkey -> bool) : vstore :=
  fold_left (fun s '(k, ty, t, v) => if skip k then s else sput k ty t v s) ents st.

Record estate := { e_schema : schema; e_cache : vstore; e_wal : vstore }.
Definition estate0 : estate := {| e_schema := []; e_cache := []; e_wal := [] |}.

(** Shard.WritePoints: new state, error class (0 none, 1 partial, 2 other), Dropped. *)
Definition write_points (vk : bool) (e : estate) (batch : list bpoint) : estate * N * N :=
  let pts1 := filter (key_ok vk) batch in
  let d1 := N.of_nat (length batch - length pts1) in
  let '(sch, _, acc, d2, stripped) := validate_points (e_schema e) (map to_w pts1) in
  let ents := entries acc in
  let conf := existsb (fun '(k, _, _, _) => conflict (e_cache e) ents k) ents in
  let cache := put_all (e_cache e) ents (conflict (e_cache e) ents) in
  let wal := if conf then e_wal e else put_all (e_wal e) ents (fun _ => false) in
  let dropped := (d1 + d2)%N in
  ({| e_schema := sch; e_cache := cache; e_wal := wal |},
   if conf then 2%N else if (0 <? dropped)%N || stripped then 1%N else 0%N,
   if conf then 0%N else dropped).

(** Close(without flush) + Open: the cache is rebuilt from the WAL. *)
Definition reopen (e : estate) : estate := {| e_schema := e_schema e; e_cache := e_wal e; e_wal := e_wal e |}.

(** what a cursor returns for (measurement, series, field): the field must be in the schema *)
Definition read (e : estate) (k : dkey) : vals :=
  let '(m, _, f) := k in
  match ftype (e_schema e) m f, slookup k (e_cache e) with
  | Some t, Some (ty, vs) => if N.eqb t ty then vs else []
  | _, _ => []
  end.

(** * The property's oracle, independent of the mirror: which points are accepted is decided
    from the batch and the schema observed AFTER the write; the stored content must be the
    previous content plus the non-time fields of exactly the accepted points. *)
Definition accepted (vk : bool) (after : schema) (batch : list bpoint) : list bpoint :=
  filter (fun p => key_ok vk p && point_fits after (to_w p)) batch.

Definition spec_entries (acc : list bpoint) : list (dkey * N * Z * Z) :=
  flat_map (fun p => flat_map (fun f => if name_eqb (f_key f) TIME then []
                                        else [((b_meas p, b_series p, f_key f), f_type f, b_time p, f_val f)])
                              (b_fields p)) acc.
Definition spec_store (before : vstore) (acc : list bpoint) : vstore :=
  put_all before (spec_entries acc) (fun _ => false).

(** stores compared as finite maps *)
Definition vals_sub (a b : vals) : bool :=
  forallb (fun '(t, v) => existsb (fun '(t', v') => Z.eqb t t' && Z.eqb v v') b) a.
Definition vals_eqb (a b : vals) : bool := Nat.eqb (length a) (length b) && vals_sub a b.
Definition store_sub (a b : vstore) : bool :=
  forallb (fun '(k, ty, vs) =>
     match vs with
     | [] => true
     | _ => match slookup k b with Some (ty', vs') => N.eqb ty ty' && vals_eqb vs vs' | None => false end
     end) a.
Definition store_eqb (a b : vstore) : bool := store_sub a b && store_sub b a.

(** The driver reads every key of a fixed universe and lists the non-empty results. *)
Definition universe : list dkey :=
  flat_map (fun m => flat_map (fun s => map (fun f => (m, s, f)) [[97]; [98]; TIME]%N) [0; 1; 2; 3]%N)
           [[109; 48]; [109; 49]]%N.
Fixpoint rlookup (k : dkey) (l : list (dkey * vals)) : vals :=
  match l with [] => [] | (k', vs) :: r => if dkey_eqb k' k then vs else rlookup k r end.
Definition reads_match (obs : list (dkey * vals)) (f : dkey -> vals) : bool :=
  forallb (fun k => vals_eqb (rlookup k obs) (f k)) universe &&
  forallb (fun '(k, _) => existsb (dkey_eqb k) universe) obs.

Record bobs := {
  bo_err : N; bo_dropped : N;
  bo_schema : schema;                 (* MeasurementFieldSet dump after the write *)
  bo_raw : vstore;                    (* raw keys + values of Cache and FileStore *)
  bo_reads : list (dkey * vals)       (* cursor read of every (measurement, series, field) of the universe *)
}.

Record case := {
  c_vk : bool;                                  (* Config.ValidateKeys *)
  c_steps : list (list bpoint * bobs);
  c_final_schema : schema;                      (* after Close + Open *)
  c_final_raw : vstore;
  c_final_reads : list (dkey * vals)
}.

Definition spec_read (sch : schema) (st : vstore) (k : dkey) : vals :=
  let '(m, _, f) := k in
  match ftype sch m f, slookup k st with
  | Some t, Some (ty, vs) => if N.eqb t ty then vs else []
  | _, _ => []
  end.

Fixpoint replay (vk : bool) (e : estate) (spec : vstore) (steps : list (list bpoint * bobs))
  : bool * bool * estate * vstore :=
  match steps with
  | [] => (true, true, e, spec)
  | (batch, ob) :: r =>
      let '(e', err, dr) := write_points vk e batch in
      let same := N.eqb (bo_err ob) err && N.eqb (bo_dropped ob) dr &&
                  schema_eqb (bo_schema ob) (e_schema e') && store_eqb (bo_raw ob) (e_cache e') &&
                  reads_match (bo_reads ob) (read e') in
      let acc := accepted vk (bo_schema ob) batch in
      let spec' := spec_store spec acc in
      let nrej := N.of_nat (length batch - length acc) in
      let ok := N.eqb (bo_dropped ob) nrej &&
                (if (0 <? nrej)%N then N.eqb (bo_err ob) 1 else N.eqb (bo_err ob) 0 || N.eqb (bo_err ob) 1) &&
                store_eqb (bo_raw ob) spec' &&
                reads_match (bo_reads ob) (spec_read (bo_schema ob) spec') in
      let '(sm, okk, ef, sf) := replay vk e' spec' r in
      (same && sm, ok && okk, ef, sf)
  end.

Definition check (c : case) : verdict :=
  let '(sm, okk, ef, sf) := replay (c_vk c) estate0 [] (c_steps c) in
  let er := reopen ef in
  let sch := c_final_schema c in
  let last := match rev (c_steps c) with (_, ob) :: _ => bo_schema ob | [] => [] end in
  let same := sm && schema_eqb sch (e_schema er) && store_eqb (c_final_raw c) (e_cache er) &&
              reads_match (c_final_reads c) (read er) in
  let ok := okk && schema_eqb sch last && store_eqb (c_final_raw c) sf &&
            reads_match (c_final_reads c) (spec_read sch sf) in
  judge same ok.
