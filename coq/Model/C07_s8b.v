(** C07 (part 1) — simple8b word packing.

    Mirror of /repo/pkg/encoding/simple8b/encoding.go (used by the batch codecs of
    tsm1) and of the identical-in-substance module github.com/jwilder/encoding/simple8b
    (used by the scalar codecs int.go / timestamp.go): selector table, [canPack],
    [Encode] (one word), the three "encode everything" drivers
      - [encode_all]     = in-repo [EncodeAll]  (ones-run scan over a 120/240 window,
                           then the [numBits] table loop),
      - [jw_encode_all]  = jwilder [EncodeAll]  (= repeated [Encode]; selectors 0/1 test
                           ALL remaining values, not the first 240/120),
      - [stream_encode]  = [Encoder.Write]* ; [Encoder.Bytes] (240-value buffer,
                           one [Encode] per flush) — used by the scalar time encoder,
    and [Decode]/[DecodeAll]/[DecodeBytesBigEndian]/[CountBytes].

    64-bit words are [N].  All shifts are exact (no truncation) because every packed
    value is guarded to be < 2^bits with n*bits <= 60. *)
From Verif Require Import Base.Prelude.
Local Open Scope N_scope.

Definition MaxValue : N := 1152921504606846975.   (* 2^60 - 1 *)

(** selector -> (n, bits); the table [selector] of encoding.go *)
Definition sel_n (s : N) : nat :=
  N.to_nat (match s with
  | 0 => 240 | 1 => 120 | 2 => 60 | 3 => 30 | 4 => 20 | 5 => 15 | 6 => 12 | 7 => 10
  | 8 => 8 | 9 => 7 | 10 => 6 | 11 => 5 | 12 => 4 | 13 => 3 | 14 => 2 | _ => 1
  end).
Definition sel_bits (s : N) : N :=
  match s with
  | 0 => 0 | 1 => 0 | 2 => 1 | 3 => 2 | 4 => 3 | 5 => 4 | 6 => 5 | 7 => 6
  | 8 => 7 | 9 => 8 | 10 => 10 | 11 => 12 | 12 => 15 | 13 => 20 | 14 => 30 | _ => 60
  end.

(** the [numBits] table of EncodeAll / the tail of the if-chain of Encode:
    (selector, n, bits) for selectors 2..15 *)
Definition codes : list (N * nat * N) :=
  [(2, 60%nat, 1); (3, 30%nat, 2); (4, 20%nat, 3); (5, 15%nat, 4); (6, 12%nat, 5);
   (7, 10%nat, 6); (8, 8%nat, 7); (9, 7%nat, 8); (10, 6%nat, 10); (11, 5%nat, 12);
   (12, 4%nat, 15); (13, 3%nat, 20); (14, 2%nat, 30); (15, 1%nat, 60)].

(** src[0] | src[1]<<bits | src[2]<<(2*bits) | ...  (packN, and the inner loop of EncodeAll) *)
Fixpoint pack_from (bits k : N) (l : list N) : N :=
  match l with
  | [] => 0
  | v :: r => N.lor (N.shiftl v (k * bits)) (pack_from bits (k + 1) r)
  end.

Definition pack_word (sel : N) (n : nat) (bits : N) (src : list N) : N :=
  N.lor (N.shiftl sel 60) (pack_from bits 0 (firstn n src)).

(** unpackN: dst[k] = (v >> (k*bits)) & (2^bits-1); selectors 0/1 yield runs of 1s *)
Definition unpack_word (w : N) : list N :=
  let sel := N.land (N.shiftr w 60) 15 in
  let n := sel_n sel in
  let bits := sel_bits sel in
  if bits =? 0 then repeat 1 n
  else map (fun k => N.land (N.shiftr w (N.of_nat k * bits)) (N.ones bits)) (seq 0 n).

Definition decode_all (ws : list N) : list N := flat_map unpack_word ws.

(** CountBytes at word level (sum of the selectors' n) *)
Definition count_words (ws : list N) : nat :=
  fold_left (fun a w => (a + sel_n (N.land (N.shiftr w 60) 15))%nat) ws 0%nat.

(** canPack(src, n, bits) *)
Definition can_pack (src : list N) (n : nat) (bits : N) : bool :=
  if (length src <? n)%nat then false
  else if bits =? 0 then forallb (N.eqb 1) src
  else forallb (fun s => s <=? 2 ^ bits - 1) (firstn n src).

Fixpoint first_code (src : list N) (cs : list (N * nat * N)) : option (N * nat) :=
  match cs with
  | [] => None
  | (sel, n, bits) :: r =>
      if can_pack src n bits then Some (pack_word sel n bits src, n) else first_code src r
  end.

(** Encode(src): one word.  [None] = "value out of bounds"; empty src gives (0,0). *)
Definition encode1 (src : list N) : option (N * nat) :=
  if can_pack src 240 0 then Some (0, 240%nat)
  else if can_pack src 120 0 then Some (2 ^ 60, 120%nat)
  else match first_code src codes with
       | Some r => Some r
       | None => match src with [] => Some (0, 0%nat) | _ => None end
       end.

(** generic driver: repeat a one-word step until the input is consumed *)
Fixpoint loop (step : list N -> option (N * nat)) (fuel : nat) (src : list N)
  : option (list N) :=
  match src with
  | [] => Some []
  | _ =>
      match fuel with
      | O => None
      | S f =>
          match step src with
          | Some (w, n) =>
              match loop step f (skipn n src) with
              | Some ws => Some (w :: ws)
              | None => None
              end
          | None => None
          end
      end
  end.

(** jwilder EncodeAll = repeated Encode *)
Definition jw_encode_all (src : list N) : option (list N) := loop encode1 (length src) src.

(** in-repo EncodeAll, one iteration of the NEXTVALUE loop *)
Fixpoint ones_prefix (a : list N) : nat :=
  match a with
  | v :: r => if v =? 1 then S (ones_prefix r) else O
  | [] => O
  end.

(** the CODES loop: [intN > len(remaining)] skips the row; a value >= 1<<bits skips the row *)
Fixpoint codes_step (remaining : list N) (cs : list (N * nat * N)) : option (N * nat) :=
  match cs with
  | [] => None
  | (sel, n, bits) :: r =>
      if (length remaining <? n)%nat then codes_step remaining r
      else if forallb (fun v => v <? 2 ^ bits) (firstn n remaining)
           then Some (pack_word sel n bits remaining, n)
           else codes_step remaining r
  end.

Definition repo_step (remaining : list N) : option (N * nat) :=
  let len := length remaining in
  if (120 <=? len)%nat then
    let a := if (240 <=? len)%nat then firstn 240 remaining else firstn 120 remaining in
    let k1 := ones_prefix a in        (* Go's k is k1 - 1 *)
    if (k1 =? 240)%nat then Some (0, 240%nat)
    else if (120 <=? k1)%nat then Some (2 ^ 60, 120%nat)
    else codes_step remaining codes
  else codes_step remaining codes.

Definition encode_all (src : list N) : option (list N) := loop repo_step (length src) src.

(** Encoder: Write v (flush one word when 240 values are buffered), then Bytes()
    (flush until empty).  State = (words emitted so far, reversed; pending values). *)
Definition stream_write (st : option (list N * list N)) (v : N) : option (list N * list N) :=
  match st with
  | None => None
  | Some (out, pending) =>
      if (240 <=? length pending)%nat then
        match encode1 pending with
        | Some (w, n) => Some (w :: out, skipn n pending ++ [v])
        | None => None
        end
      else Some (out, pending ++ [v])
  end.

Definition stream_encode (src : list N) : option (list N) :=
  match fold_left stream_write src (Some ([], [])) with
  | None => None
  | Some (out, pending) =>
      match loop encode1 (length pending) pending with
      | Some ws => Some (rev out ++ ws)
      | None => None
      end
  end.

(** ---- bytes ---- *)
Definition be64 (w : N) : list N :=
  map (fun k => N.land (N.shiftr w (8 * N.of_nat k)) 255) [7; 6; 5; 4; 3; 2; 1; 0]%nat.

Definition of_be64 (b : list N) : N :=
  fold_left (fun a x => a * 256 + x) b 0.

Definition words_bytes (ws : list N) : list N := flat_map be64 ws.

(** split into 8-byte big-endian words; a tail shorter than 8 bytes is returned *)
Fixpoint bytes_words (fuel : nat) (b : list N) : list N * list N :=
  match fuel with
  | O => ([], b)
  | S f =>
      match b with
      | b0 :: b1 :: b2 :: b3 :: b4 :: b5 :: b6 :: b7 :: r =>
          let (ws, tl) := bytes_words f r in (of_be64 [b0; b1; b2; b3; b4; b5; b6; b7] :: ws, tl)
      | _ => ([], b)
      end
  end.

(** the spec side: every value must be < 2^60 to be packable *)
Definition packable (l : list N) : bool := forallb (fun v => v <=? MaxValue) l.
