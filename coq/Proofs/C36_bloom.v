(** C36 — bloom filter: no false negatives, for all histories, all m and k. *)
From Verif Require Import Base.Prelude Model.C36_rhh Model.C36_bloom.
From Coq Require Import Lia.

Lemma bytes_eqb_eq a b : bytes_eqb a b = true <-> a = b.
Proof. unfold bytes_eqb. apply list_eqb_spec. intros x y. apply N.eqb_eq. Qed.

(** *** bits *)
Definition le_bits (a b : list bool) : Prop := forall p, get_bit a p = true -> get_bit b p = true.

Lemma le_bits_refl a : le_bits a a.
Proof. intros p H; exact H. Qed.
Lemma le_bits_trans a b c : le_bits a b -> le_bits b c -> le_bits a c.
Proof. intros H1 H2 p H. auto. Qed.

Lemma set_bit_length bits p : length (set_bit bits p) = length bits.
Proof. revert p; induction bits as [|b r IH]; intros [|p]; simpl; auto. Qed.

Lemma get_set_same bits p : (p < length bits)%nat -> get_bit (set_bit bits p) p = true.
Proof.
  unfold get_bit. revert p; induction bits as [|b r IH]; intros [|p] H; simpl in *; try lia; auto.
  apply IH. lia.
Qed.

Lemma set_bit_mono bits p : le_bits bits (set_bit bits p).
Proof.
  unfold le_bits, get_bit. revert p; induction bits as [|b r IH]; intros [|p] [|q] H; simpl in *; auto; try discriminate.
Qed.

Lemma get_set_other bits p q : p <> q -> get_bit (set_bit bits p) q = get_bit bits q.
Proof.
  unfold get_bit. revert p q; induction bits as [|b r IH]; intros [|p] [|q] H; simpl in *; auto; try lia.
Qed.

Lemma get_bit_repeat_false n p : get_bit (repeat false n) p = false.
Proof. unfold get_bit. revert p; induction n; intros [|p]; simpl; auto. Qed.

Lemma or_bits_length a b : length (or_bits a b) = length a.
Proof. revert b; induction a as [|x a IH]; intros [|y b]; simpl; auto. Qed.

Lemma or_bits_get a b p : length a = length b ->
  get_bit (or_bits a b) p = get_bit a p || get_bit b p.
Proof.
  unfold get_bit. revert b p; induction a as [|x a IH]; intros [|y b] [|p] H; simpl in *; try discriminate; auto.
Qed.

(** *** bpow2 and location *)
Lemma bpow2_loop_pos f i v : (0 < i)%N -> (0 < bpow2_loop f i v)%N.
Proof. revert i; induction f as [|f IH]; intros i H; cbn [bpow2_loop]; auto. destruct (N.leb v i); auto. apply IH. lia. Qed.
Lemma bpow2_pos m : (0 < bpow2 m)%N.
Proof. apply bpow2_loop_pos. lia. Qed.

Lemma location_lt m h i : (0 < m)%N -> (location m h i < m)%N.
Proof. intro H. unfold location. apply N.mod_lt. lia. Qed.

(** *** the two loops *)
Lemma insert_locs_length m h cnt i bits : length (insert_locs m h cnt i bits) = length bits.
Proof. revert i bits; induction cnt as [|c IH]; intros; simpl; auto. rewrite IH. apply set_bit_length. Qed.

Lemma insert_locs_mono m h cnt i bits : le_bits bits (insert_locs m h cnt i bits).
Proof.
  revert i bits; induction cnt as [|c IH]; intros; simpl. apply le_bits_refl.
  eapply le_bits_trans. apply set_bit_mono. apply IH.
Qed.

Lemma insert_locs_sets m h cnt i bits j :
  (0 < m)%N -> length bits = N.to_nat m ->
  (i <= j)%N -> (j < i + N.of_nat cnt)%N ->
  get_bit (insert_locs m h cnt i bits) (N.to_nat (location m h j)) = true.
Proof.
  intros Hm. revert i bits; induction cnt as [|c IH]; intros i bits Hl Hij Hj; simpl. lia.
  destruct (N.eq_dec i j) as [->|Hne].
  - apply insert_locs_mono. apply get_set_same. pose proof (location_lt m h j Hm). lia.
  - apply IH; try lia. rewrite set_bit_length. exact Hl.
Qed.

Lemma contains_locs_spec m h cnt i bits :
  contains_locs m h cnt i bits = true <->
  (forall j, (i <= j)%N -> (j < i + N.of_nat cnt)%N -> get_bit bits (N.to_nat (location m h j)) = true).
Proof.
  revert i; induction cnt as [|c IH]; intros i; simpl.
  - split; auto. intros _ j H1 H2. lia.
  - destruct (get_bit bits (N.to_nat (location m h i))) eqn:E.
    + rewrite IH. split; intros H j H1 H2.
      * destruct (N.eq_dec i j) as [->|Hne]; auto. apply H; lia.
      * apply H; lia.
    + split; [discriminate|]. intro H. rewrite <- E. apply H; lia.
Qed.

Lemma contains_locs_mono m h cnt i a b : le_bits a b ->
  contains_locs m h cnt i a = true -> contains_locs m h cnt i b = true.
Proof. intros L. rewrite !contains_locs_spec. intros H j H1 H2. apply L. auto. Qed.

Section Bloom.
  Variable bhash : bytes -> N * N.

  (** A filter is well-formed for (m, k) when its geometry is that of [NewFilter(m, k)]. *)
  Definition fwf (m k : N) (f : filter) : Prop :=
    f_m f = bpow2 m /\ f_k f = k /\ length (f_bits f) = N.to_nat (f_m f).

  Lemma f_new_wf m k : fwf m k (f_new m k).
  Proof. unfold fwf, f_new; simpl. repeat split. apply repeat_length. Qed.

  Lemma f_insert_wf m k f v : fwf m k f -> fwf m k (f_insert bhash f v).
  Proof. intros (H1 & H2 & H3). unfold fwf, f_insert; simpl. repeat split; auto. rewrite insert_locs_length. exact H3. Qed.

  Lemma f_insert_mono f v : le_bits (f_bits f) (f_bits (f_insert bhash f v)).
  Proof. apply insert_locs_mono. Qed.

  Lemma f_insert_contains m k f v : fwf m k f -> f_contains bhash (f_insert bhash f v) v = true.
  Proof.
    intros (H1 & H2 & H3). unfold f_contains, f_insert; simpl. apply contains_locs_spec. intros j Hj1 Hj2.
    apply insert_locs_sets; auto; try lia. rewrite H1. apply bpow2_pos.
  Qed.

  Lemma f_contains_mono f g v : f_m f = f_m g -> f_k f = f_k g -> le_bits (f_bits f) (f_bits g) ->
    f_contains bhash f v = true -> f_contains bhash g v = true.
  Proof. intros Hm Hk L. unfold f_contains. rewrite Hm, Hk. apply contains_locs_mono. exact L. Qed.

  (** every key of [keys] is reported by [fold_left f_insert keys f], and [f]'s own bits survive *)
  Lemma fold_insert_wf m k keys f : fwf m k f -> fwf m k (fold_left (f_insert bhash) keys f).
  Proof. revert f; induction keys as [|x r IH]; intros f H; simpl; auto. apply IH. apply f_insert_wf. exact H. Qed.

  Lemma fold_insert_mono keys f : le_bits (f_bits f) (f_bits (fold_left (f_insert bhash) keys f)).
  Proof.
    revert f; induction keys as [|x r IH]; intros f; simpl. apply le_bits_refl.
    eapply le_bits_trans. apply f_insert_mono. apply IH.
  Qed.

  Lemma fold_insert_geom keys f :
    f_m (fold_left (f_insert bhash) keys f) = f_m f /\ f_k (fold_left (f_insert bhash) keys f) = f_k f.
  Proof. revert f; induction keys as [|x r IH]; intros f; simpl; auto. destruct (IH (f_insert bhash f x)) as [A B]. simpl in *. auto. Qed.

  Lemma fold_insert_contains m k keys f v : fwf m k f -> In v keys ->
    f_contains bhash (fold_left (f_insert bhash) keys f) v = true.
  Proof.
    revert f; induction keys as [|x r IH]; intros f W [].
    - subst x. simpl.
      pose proof (fold_insert_geom r (f_insert bhash f v)) as [G1 G2].
      eapply f_contains_mono; [symmetry; exact G1| symmetry; exact G2| apply fold_insert_mono |].
      eapply f_insert_contains. exact W.
    - simpl. apply IH; auto. apply f_insert_wf. exact W.
  Qed.

  (** The invariant along a history: geometry, every present key is reported, and while
      nothing is present no bit is set. *)
  Definition binv (m k : N) (present : list bytes) (f : filter) : Prop :=
    fwf m k f
    /\ (forall v, In v present -> f_contains bhash f v = true)
    /\ (present = [] -> forall p, get_bit (f_bits f) p = false).

  Lemma bmem_In v l : bmem v l = true <-> In v l.
  Proof.
    unfold bmem. rewrite existsb_exists. split.
    - intros (x & Hx & E). apply bytes_eqb_eq in E. subst. exact Hx.
    - intro H. exists v. split; auto. apply bytes_eqb_eq. reflexivity.
  Qed.

  Lemma contains_empty m k f v : fwf m k f -> k <> 0%N -> (forall p, get_bit (f_bits f) p = false) ->
    f_contains bhash f v = false.
  Proof.
    intros (H1 & H2 & H3) Hk Hz. unfold f_contains. rewrite H2.
    destruct (N.to_nat k) eqn:E; [lia|]. simpl. rewrite Hz. reflexivity.
  Qed.

  Lemma oracle_run m k : forall ops present f, binv m k present f ->
    bloom_oracle m k present ops (snd (f_run bhash f ops)) = true.
  Proof.
    induction ops as [|o r IH]; intros present f (W & P & Z); simpl; auto.
    destruct o as [v|v|m2 k2 keys|scr]; simpl.
    - (* insert *)
      destruct (f_run bhash (f_insert bhash f v) r) as [f'' bs] eqn:R. simpl.
      specialize (IH (v :: present) (f_insert bhash f v)). rewrite R in IH; simpl in IH. apply IH.
      split; [apply f_insert_wf; exact W|]. split.
      + intros x [->|Hx]. eapply f_insert_contains; exact W.
        apply (f_contains_mono f (f_insert bhash f v)); [reflexivity|reflexivity|apply f_insert_mono|auto].
      + discriminate.
    - (* contains *)
      destruct (f_run bhash f r) as [f'' bs] eqn:R. simpl.
      specialize (IH present f). rewrite R in IH; simpl in IH. rewrite IH by (split; auto).
      rewrite andb_true_r. apply andb_true_iff; split.
      + destruct (bmem v present) eqn:B; auto. apply P. apply bmem_In. exact B.
      + destruct present as [|x pr]; auto. destruct (N.eqb k 0) eqn:K.
        * apply N.eqb_eq in K. destruct W as (H1 & H2 & H3). unfold f_contains. rewrite H2, K. reflexivity.
        * apply N.eqb_neq in K. erewrite contains_empty; eauto.
    - (* merge *)
      set (g := f_of_keys bhash m2 k2 keys).
      assert (Wg : fwf m2 k2 g) by (apply fold_insert_wf; apply f_new_wf).
      unfold f_merge. destruct W as (H1 & H2 & H3). destruct Wg as (G1 & G2 & G3).
      destruct (N.eqb (f_m f) (f_m g)) eqn:Em; simpl.
      2:{ destruct (f_run bhash f r) as [f'' bs] eqn:R. simpl.
          rewrite H1, G1 in Em. rewrite N.eqb_sym in Em. rewrite Em. simpl.
          specialize (IH present f). rewrite R in IH; simpl in IH. apply IH. repeat split; auto. }
      destruct (N.eqb (f_k f) (f_k g)) eqn:Ek; simpl.
      2:{ destruct (f_run bhash f r) as [f'' bs] eqn:R. simpl.
          rewrite H2, G2 in Ek. rewrite N.eqb_sym in Ek. rewrite Ek. rewrite andb_false_r. simpl.
          specialize (IH present f). rewrite R in IH; simpl in IH. apply IH. repeat split; auto. }
      apply N.eqb_eq in Em, Ek.
      set (f' := {| f_k := f_k f; f_m := f_m f; f_bits := or_bits (f_bits f) (f_bits g) |}).
      destruct (f_run bhash f' r) as [f'' bs] eqn:R. simpl.
      assert (C : (bpow2 m2 =? bpow2 m)%N && (k2 =? k)%N = true).
      { apply andb_true_iff; split; apply N.eqb_eq; congruence. }
      rewrite C. simpl.
      specialize (IH (keys ++ present) f'). rewrite R in IH; simpl in IH. apply IH.
      assert (Lg : length (f_bits f) = length (f_bits g)) by congruence.
      split; [|split].
      + unfold fwf, f'; simpl. repeat split; auto. rewrite or_bits_length. exact H3.
      + intros v Hv. apply in_app_or in Hv as [Hv|Hv].
        * eapply (f_contains_mono g f'); unfold f'; simpl; auto.
          { intros p Hp. rewrite or_bits_get by exact Lg. rewrite Hp. apply orb_true_r. }
          unfold g, f_of_keys. eapply fold_insert_contains; [apply f_new_wf|exact Hv].
        * eapply (f_contains_mono f f'); unfold f'; simpl; auto.
          intros p Hp. rewrite or_bits_get by exact Lg. rewrite Hp. reflexivity.
      + intros E p. apply app_eq_nil in E as [E1 E2]. unfold f'; simpl.
        rewrite or_bits_get by exact Lg. rewrite Z by exact E2. simpl.
        unfold g, f_of_keys. rewrite E1. simpl. apply get_bit_repeat_false.
    - (* clone *)
      destruct (f_run bhash f r) as [f'' bs] eqn:R. simpl.
      specialize (IH present f). rewrite R in IH; simpl in IH. apply IH. split; auto.
  Qed.

  (** keys present after a history (inserted directly or through an accepted merge) *)
  Fixpoint present_after (m k : N) (present : list bytes) (ops : list bop) : list bytes :=
    match ops with
    | [] => present
    | BInsert v :: r => present_after m k (v :: present) r
    | BMerge m2 k2 keys :: r =>
        present_after m k (if N.eqb (bpow2 m2) (bpow2 m) && N.eqb k2 k then keys ++ present else present) r
    | _ :: r => present_after m k present r
    end.

  Lemma final_contains m k : forall ops present f, binv m k present f ->
    forall v, In v (present_after m k present ops) -> f_contains bhash (fst (f_run bhash f ops)) v = true.
  Proof.
    induction ops as [|o r IH]; intros present f (W & P & Z) v Hv; simpl in *; auto.
    destruct o as [x|x|m2 k2 keys|scr]; simpl in *.
    - destruct (f_run bhash (f_insert bhash f x) r) as [f'' bs] eqn:R. simpl.
      specialize (IH (x :: present) (f_insert bhash f x)). rewrite R in IH; simpl in IH. apply IH; auto.
      split; [apply f_insert_wf; exact W|]. split; [|discriminate].
      intros y [->|Hy]. eapply f_insert_contains; exact W.
      apply (f_contains_mono f (f_insert bhash f x)); [reflexivity|reflexivity|apply f_insert_mono|auto].
    - destruct (f_run bhash f r) as [f'' bs] eqn:R. simpl.
      specialize (IH present f). rewrite R in IH; simpl in IH. apply IH; auto. split; auto.
    - set (g := f_of_keys bhash m2 k2 keys) in *.
      assert (Wg : fwf m2 k2 g) by (apply fold_insert_wf; apply f_new_wf).
      unfold f_merge. destruct W as (H1 & H2 & H3). destruct Wg as (G1 & G2 & G3).
      destruct (N.eqb (f_m f) (f_m g)) eqn:Em; simpl.
      2:{ destruct (f_run bhash f r) as [f'' bs] eqn:R. simpl.
          rewrite H1, G1 in Em. rewrite N.eqb_sym in Em. rewrite Em in Hv. simpl in Hv.
          specialize (IH present f). rewrite R in IH; simpl in IH. apply IH; auto. repeat split; auto. }
      destruct (N.eqb (f_k f) (f_k g)) eqn:Ek; simpl.
      2:{ destruct (f_run bhash f r) as [f'' bs] eqn:R. simpl.
          rewrite H2, G2 in Ek. rewrite N.eqb_sym in Ek. rewrite Ek in Hv. rewrite andb_false_r in Hv.
          specialize (IH present f). rewrite R in IH; simpl in IH. apply IH; auto. repeat split; auto. }
      apply N.eqb_eq in Em, Ek.
      set (f' := {| f_k := f_k f; f_m := f_m f; f_bits := or_bits (f_bits f) (f_bits g) |}).
      destruct (f_run bhash f' r) as [f'' bs] eqn:R. simpl.
      assert (C : (bpow2 m2 =? bpow2 m)%N && (k2 =? k)%N = true).
      { apply andb_true_iff; split; apply N.eqb_eq; congruence. }
      rewrite C in Hv.
      specialize (IH (keys ++ present) f'). rewrite R in IH; simpl in IH. apply IH; auto.
      assert (Lg : length (f_bits f) = length (f_bits g)) by congruence.
      split; [|split].
      + unfold fwf, f'; simpl. repeat split; auto. rewrite or_bits_length. exact H3.
      + intros y Hy. apply in_app_or in Hy as [Hy|Hy].
        * eapply (f_contains_mono g f'); unfold f'; simpl; auto.
          { intros p Hp. rewrite or_bits_get by exact Lg. rewrite Hp. apply orb_true_r. }
          unfold g, f_of_keys. eapply fold_insert_contains; [apply f_new_wf|exact Hy].
        * eapply (f_contains_mono f f'); unfold f'; simpl; auto.
          intros p Hp. rewrite or_bits_get by exact Lg. rewrite Hp. reflexivity.
      + intros E p. apply app_eq_nil in E as [E1 E2]. unfold f'; simpl.
        rewrite or_bits_get by exact Lg. rewrite Z by exact E2. simpl.
        unfold g, f_of_keys. rewrite E1. simpl. apply get_bit_repeat_false.
    - destruct (f_run bhash f r) as [f'' bs] eqn:R. simpl.
      specialize (IH present f). rewrite R in IH; simpl in IH. apply IH; auto. split; auto.
  Qed.

  Lemma binv_new m k : binv m k [] (f_new m k).
  Proof.
    split; [apply f_new_wf|]. split. intros v []. intros _ p. unfold f_new; simpl. apply get_bit_repeat_false.
  Qed.

  (** Every [Contains] answered during any history satisfies the oracle (never a false negative). *)
  Lemma bloom_history_no_false_negative m k ops :
    bloom_oracle m k [] ops (snd (f_run bhash (f_new m k) ops)) = true.
  Proof. apply oracle_run. apply binv_new. Qed.

  (** … and at the end every key that ever went in is still reported. *)
  Lemma bloom_no_false_negative m k ops v :
    In v (present_after m k [] ops) -> f_contains bhash (fst (f_run bhash (f_new m k) ops)) v = true.
  Proof. apply final_contains. apply binv_new. Qed.
End Bloom.
