(** C33 — Health and readiness endpoints report the true aggregate state.

    Mirror of
      kit/check/check.go      Check.evaluate (snapshot of the checker list, one Check call per
                              checker in registration order, overall = fail iff some result is not pass,
                              results sorted by Responses.Less = (status string, name))
      kit/check/helpers.go    ReadyGate (atomic latch; NamedPass / NamedFail "not ready")
      kit/check/response.go   Responses.Less
      http/check_handler.go   writeReady / writeHealth / firstFailureMessage / failingChecks
      cmd/influxd/run/scheduler_pulse.go   SchedulerPulseCheck.Check
      cmd/influxd/run/startup_logger.go    StartupProgressLogger ready / health checkers

    Names are numbers whose order is the Go string order of the names (the driver ranks the
    names of a case); messages are interned numbers (equality only); statuses: 0 "pass",
    1 "fail", 2 "" (zero BasicResponse), 3 "warn" (any other string that sorts after "pass").

    Concurrency: registration, signalling and the steps of a request are atomic steps.  A
    request (a) snapshots the checker list, (b) calls each snapshotted checker once, in
    registration order, (c) answers from the collected results.  Environment operations are
    totally ordered ([ops]); a request is described by the number of operations that had
    taken effect at its snapshot ([ps]) and at each of its checker calls ([pr], nondecreasing):
    [diag_response].  A sequential request is the special case where all positions coincide.

    No proofs in this file. *)
From Verif Require Import Base.Prelude.
Local Open Scope N_scope.

(** * Statuses, messages *)
Definition ST_PASS : N := 0.  Definition ST_FAIL : N := 1.
(** Go string order of the status texts: "" < "fail" < "pass" < "warn" *)
Definition st_rank (s : N) : N := match s with 2 => 0 | 1 => 1 | 0 => 2 | _ => 3 end.

Definition M_EMPTY : N := 0.     Definition M_NOT_READY : N := 1.  Definition M_FAIL : N := 2.
Definition M_STARTING : N := 3.  Definition M_HEALTHY : N := 4.    Definition M_NO_PROBE : N := 5.

Record chk := { k_name : N; k_status : N; k_msg : N }.
Definition chk_eqb (a b : chk) : bool :=
  (k_name a =? k_name b) && (k_status a =? k_status b) && (k_msg a =? k_msg b).

(** * State and environment operations *)
Record state := { s_ready : list chk; s_health : list chk }.
Definition init : state := {| s_ready := []; s_health := [] |}.

Inductive op :=
| ORegGate (name : N)                  (* AddNamedReadyCheck(NewReadyGate(name)): not ready *)
| OReady (i : nat)                     (* gate.Ready() of the i-th registered ready check *)
| OUnready (i : nat)                   (* gate.Unready() *)
| ORegReady (c : chk)                  (* AddNamedReadyCheck of a scripted named check *)
| OSetReady (i : nat) (st m : N)       (* the scripted ready check now answers (st, m) *)
| ORegHealth (c : chk)                 (* AddHealthCheck / AddNamedHealthCheck *)
| OSetHealth (i : nat) (st m : N).     (* the scripted health check / FreshnessResponse.Update *)

Fixpoint upd {A} (i : nat) (f : A -> A) (l : list A) : list A :=
  match l, i with
  | [], _ => []
  | x :: t, O => f x :: t
  | x :: t, S j => x :: upd j f t
  end.
Definition set_chk (st m : N) (c : chk) : chk := {| k_name := k_name c; k_status := st; k_msg := m |}.

Definition apply_op (s : state) (o : op) : state :=
  match o with
  | ORegGate n => {| s_ready := s_ready s ++ [{| k_name := n; k_status := ST_FAIL; k_msg := M_NOT_READY |}];
                     s_health := s_health s |}
  | OReady i => {| s_ready := upd i (set_chk ST_PASS M_EMPTY) (s_ready s); s_health := s_health s |}
  | OUnready i => {| s_ready := upd i (set_chk ST_FAIL M_NOT_READY) (s_ready s); s_health := s_health s |}
  | ORegReady c => {| s_ready := s_ready s ++ [c]; s_health := s_health s |}
  | OSetReady i st m => {| s_ready := upd i (set_chk st m) (s_ready s); s_health := s_health s |}
  | ORegHealth c => {| s_ready := s_ready s; s_health := s_health s ++ [c] |}
  | OSetHealth i st m => {| s_ready := s_ready s; s_health := upd i (set_chk st m) (s_health s) |}
  end.
Definition run_ops (ops : list op) : state := fold_left apply_op ops init.
Definition state_at (ops : list op) (p : nat) : state := run_ops (firstn p ops).

(** * Check.evaluate *)
(** Responses.Less: failing before passing (by the status STRING), then by name *)
Definition less (a b : chk) : bool :=
  if st_rank (k_status a) =? st_rank (k_status b) then k_name a <? k_name b
  else st_rank (k_status a) <? st_rank (k_status b).

(** sort.Sort on at most 12 elements is an insertion sort (stable); [less] is a strict weak
    order, so every correct sort agrees with it up to the order of elements with equal
    (status, name). *)
Fixpoint ins (x : chk) (l : list chk) : list chk :=
  match l with
  | [] => [x]
  | y :: t => if less x y then x :: y :: t else y :: ins x t
  end.
Definition isort (l : list chk) : list chk := fold_left (fun acc x => ins x acc) l [].

(** [if s := resp.Status(); s != StatusPass { overall = StatusFail }]  (since the fix of finding
    check-status-neither-pass-nor-fail; before it: [overall = s], see [overall_before_fix]) *)
Definition overall (l : list chk) : N :=
  fold_left (fun o c => if k_status c =? ST_PASS then o else ST_FAIL) l ST_PASS.
Definition overall_before_fix (l : list chk) : N :=
  fold_left (fun o c => if k_status c =? ST_PASS then o else k_status c) l ST_PASS.

Definition evaluate (l : list chk) : N * list chk := (overall l, isort l).

(** * http/check_handler.go *)
Record response := { r_code : N; r_status : N; r_message : N; r_checks : list chk }.
(** /ready body status: 0 "ready", 1 "starting"; /health body status: the overall status *)

(** failingChecks / firstFailureMessage: [c.Status() != check.StatusPass] *)
Definition failing (l : list chk) : list chk := filter (fun c => negb (k_status c =? ST_PASS)) l.

Definition ready_response (results : list chk) : response :=
  let (ov, res) := evaluate results in
  if ov =? ST_FAIL
  then {| r_code := 503; r_status := 1; r_message := M_EMPTY; r_checks := failing res |}
  else {| r_code := 200; r_status := 0; r_message := M_EMPTY; r_checks := [] |}.

Definition first_failure (l : list chk) : N :=
  match failing l with
  | c :: _ => if k_msg c =? M_EMPTY then M_FAIL else k_msg c
  | [] => M_STARTING
  end.

Definition health_response (results : list chk) : response :=
  let (ov, res) := evaluate results in
  if ov =? ST_FAIL
  then {| r_code := 503; r_status := ov; r_message := first_failure res; r_checks := res |}
  else {| r_code := 200; r_status := ov; r_message := M_HEALTHY; r_checks := res |}.

Definition respond (ready : bool) (results : list chk) : response :=
  if ready then ready_response results else health_response results.
Definition checks_of (ready : bool) (s : state) : list chk := if ready then s_ready s else s_health s.

(** the answer to a request served atomically in state [s] *)
Definition atomic_response (ready : bool) (s : state) : response := respond ready (checks_of ready s).

(** * A request interleaved with environment operations *)
Definition dummy : chk := {| k_name := 0; k_status := ST_PASS; k_msg := M_EMPTY |}.
Definition diag_results (ops : list op) (ready : bool) (ps : nat) (pr : list nat) : list chk :=
  let n := length (checks_of ready (state_at ops ps)) in
  map (fun ip => nth (fst ip) (checks_of ready (state_at ops (snd ip))) dummy) (combine (seq 0 n) pr).
Definition diag_response (ops : list op) (ready : bool) (ps : nat) (pr : list nat) : response :=
  respond ready (diag_results ops ready ps pr).

Fixpoint nondecreasing (lo : nat) (l : list nat) : bool :=
  match l with [] => true | x :: t => Nat.leb lo x && nondecreasing x t end.
Definition last_or (d : nat) (l : list nat) : nat := last l d.

(** [inv]/[resp]: operations that had taken effect when the request was issued / answered *)
Definition valid_expl (ops : list op) (ready : bool) (inv resp ps : nat) (pr : list nat) : bool :=
  Nat.leb inv ps && nondecreasing ps pr && Nat.leb (last_or ps pr) resp && Nat.leb resp (length ops)
  && Nat.eqb (length pr) (length (checks_of ready (state_at ops ps))).

(** * The property's oracle, stated on sets (independent of evaluate) *)
Fixpoint nins (x : N) (l : list N) : list N :=
  match l with [] => [x] | y :: t => if x <=? y then x :: y :: t else y :: nins x t end.
Definition nsort (l : list N) : list N := fold_right nins [] l.

Definition all_pass (l : list chk) : bool := forallb (fun c => k_status c =? ST_PASS) l.
Definition not_passing (l : list chk) : list chk := filter (fun c => negb (k_status c =? ST_PASS)) l.

(** /ready: 200 iff every ready check passes, else 503 listing exactly the ones that do not *)
Definition ready_ok (s : state) (r : response) : bool :=
  if all_pass (s_ready s) then (r_code r =? 200) && match r_checks r with [] => true | _ => false end
  else (r_code r =? 503)
       && list_eqb N.eqb (nsort (map k_name (r_checks r))) (nsort (map k_name (not_passing (s_ready s))))
       && forallb (fun c => existsb (chk_eqb c) (s_ready s)) (r_checks r).

(** /health: 200 iff every health check passes, else 503 whose message is the message ("fail"
    if it has none) of a not-passing check that no other not-passing check precedes in the
    order of the listed checks (status text, then name): for pass/fail checks the failing check
    with the least name *)
Definition msg_or_fail (c : chk) : N := if k_msg c =? M_EMPTY then M_FAIL else k_msg c.
Definition health_ok (s : state) (r : response) : bool :=
  if all_pass (s_health s) then (r_code r =? 200) && (r_message r =? M_HEALTHY)
  else let bad := not_passing (s_health s) in
       (r_code r =? 503)
       && existsb (fun c => forallb (fun d => negb (less d c)) bad && (msg_or_fail c =? r_message r)) bad.
Definition state_ok (ready : bool) (s : state) (r : response) : bool :=
  if ready then ready_ok s r else health_ok s r.

(** linearisability: the answer is right for SOME state between invocation and response *)
Definition lin_ok (ops : list op) (ready : bool) (inv resp : nat) (r : response) : bool :=
  existsb (fun p => state_ok ready (state_at ops p) r) (seq inv (S (resp - inv))).

(** * SchedulerPulseCheck *)
Definition SEC : Z := 1000000000%Z.
(** Duration.Round(time.Second) for d >= 0, in seconds *)
Definition round_sec (d : Z) : Z := ((d + 500000000) / SEC)%Z.
Inductive pulse_out := PIdle | PStalled (ago : Z) | PNext (d : Z) | POnTime (lag : Z).
Definition pulse_check (w : option Z) (now thr : Z) : pulse_out :=
  match w with
  | None => PIdle                                        (* When().IsZero() *)
  | Some w =>
    if (now >? w + thr)%Z then PStalled (round_sec (now - w))      (* now.After(w.Add(threshold)) *)
    else if (now <? w)%Z then PNext (round_sec (w - now))
    else POnTime (round_sec (now - w))
  end.
Definition pulse_status (o : pulse_out) : N := match o with PStalled _ => ST_FAIL | _ => ST_PASS end.
Definition pulse_eqb (a b : pulse_out) : bool :=
  match a, b with
  | PIdle, PIdle => true
  | PStalled x, PStalled y | PNext x, PNext y | POnTime x, POnTime y => (x =? y)%Z
  | _, _ => false
  end.
(** HEALTH_READY.md: fail iff a run is scheduled and due more than the threshold ago *)
Definition pulse_should_fail (w : option Z) (now thr : Z) : bool :=
  match w with None => false | Some w => (thr <? now - w)%Z end.

(** * StartupProgressLogger *)
Record slog := { sl_completed : N; sl_total : N; sl_done : bool; sl_err : option N;
                 sl_errs : list (N * N) }.
Definition sl_init : slog := {| sl_completed := 0; sl_total := 0; sl_done := false; sl_err := None; sl_errs := [] |}.
Inductive sop := SAdd | SCompleted | SFailed (id m : N) | SFinish (err : option N).
Definition sl_apply (s : slog) (o : sop) : slog :=
  match o with
  | SAdd => {| sl_completed := sl_completed s; sl_total := sl_total s + 1; sl_done := sl_done s;
               sl_err := sl_err s; sl_errs := sl_errs s |}
  | SCompleted => {| sl_completed := sl_completed s + 1; sl_total := sl_total s; sl_done := sl_done s;
                     sl_err := sl_err s; sl_errs := sl_errs s |}
  | SFailed id m => {| sl_completed := sl_completed s; sl_total := sl_total s; sl_done := sl_done s;
                       sl_err := sl_err s; sl_errs := sl_errs s ++ [(id, m)] |}
  | SFinish e => {| sl_completed := sl_completed s; sl_total := sl_total s; sl_done := true;
                    sl_err := match e with Some m => Some m | None => sl_err s end; sl_errs := sl_errs s |}
  end.
Inductive sready := RLoadFailed (m : N) | RReady (completed : N) | RWaiting | RLoading (completed total : N).
Definition sl_ready (s : slog) : N * sready :=
  if sl_done s then
    match sl_err s with
    | Some m => (ST_FAIL, RLoadFailed m)
    | None => (ST_PASS, RReady (sl_completed s))
    end
  else if sl_total s =? 0 then (ST_FAIL, RWaiting)
  else (ST_FAIL, RLoading (sl_completed s) (sl_total s)).
Definition sl_health (s : slog) : N * list (N * N) :=
  match sl_errs s with [] => (ST_PASS, []) | l => (ST_FAIL, l) end.
Definition sready_eqb (a b : sready) : bool :=
  match a, b with
  | RLoadFailed x, RLoadFailed y | RReady x, RReady y => x =? y
  | RWaiting, RWaiting => true
  | RLoading a1 a2, RLoading b1 b2 => (a1 =? b1) && (a2 =? b2)
  | _, _ => false
  end.
(** the documented rule: ready passes iff engine.Open finished and never reported an error;
    health passes iff no shard failed to load *)
Definition sl_ready_should_pass (ops : list sop) : bool :=
  existsb (fun o => match o with SFinish _ => true | _ => false end) ops
  && negb (existsb (fun o => match o with SFinish (Some _) => true | _ => false end) ops).
Definition sl_health_should_pass (ops : list sop) : bool :=
  negb (existsb (fun o => match o with SFailed _ _ => true | _ => false end) ops).

(** * Correspondence case *)
Record reqobs := {
  q_ready : bool;            (* /ready (true) or /health *)
  q_inv : nat; q_resp : nat; (* operations applied before the request was issued / answered *)
  q_ps : nat; q_pr : list nat;   (* the explanation found by the driver (all = q_inv when sequential) *)
  q_obs : response           (* what the real handler answered *)
}.
Record pulse_obs := { p_when : option Z; p_now : Z; p_thr : Z; p_status : N; p_out : pulse_out }.
Record sl_obs := { so_rstatus : N; so_ready : sready; so_hstatus : N; so_herrs : list (N * N) }.

(** a Response of Check.CheckReady / CheckHealth obtained after [t_pos] operations, kept by the
    caller while further evaluations and operations happen, and only then read: it must still
    describe the evaluation it came from *)
Record retobs := { t_ready : bool; t_pos : nat; t_status : N; t_checks : list chk }.

Inductive case :=
| CHist (ops : list op) (reqs : list reqobs)
| CPulse (probes : list pulse_obs)
| CStartup (steps : list (sop * sl_obs))
| CRetained (ops : list op) (kept : list retobs).

Definition resp_eqb (a b : response) : bool :=
  (r_code a =? r_code b) && (r_status a =? r_status b) && (r_message a =? r_message b)
  && list_eqb chk_eqb (r_checks a) (r_checks b).

Definition req_same (ops : list op) (q : reqobs) : bool :=
  valid_expl ops (q_ready q) (q_inv q) (q_resp q) (q_ps q) (q_pr q)
  && resp_eqb (q_obs q) (diag_response ops (q_ready q) (q_ps q) (q_pr q)).
Definition req_ok (ops : list op) (q : reqobs) : bool :=
  lin_ok ops (q_ready q) (q_inv q) (q_resp q) (q_obs q).

Fixpoint sl_steps (s : slog) (done : list sop) (steps : list (sop * sl_obs)) : bool * bool :=
  match steps with
  | [] => (true, true)
  | (o, ob) :: t =>
    let s' := sl_apply s o in
    let done' := done ++ [o] in
    let same := (so_rstatus ob =? fst (sl_ready s')) && sready_eqb (so_ready ob) (snd (sl_ready s'))
                && (so_hstatus ob =? fst (sl_health s'))
                && list_eqb (pair_eqb N.eqb N.eqb) (so_herrs ob) (snd (sl_health s')) in
    let ok := Bool.eqb (so_rstatus ob =? ST_PASS) (sl_ready_should_pass done')
              && Bool.eqb (so_hstatus ob =? ST_PASS) (sl_health_should_pass done') in
    let (a, b) := sl_steps s' done' t in (same && a, ok && b)
  end.

Definition ret_same (ops : list op) (t : retobs) : bool :=
  let (ov, res) := evaluate (checks_of (t_ready t) (state_at ops (t_pos t))) in
  (t_status t =? ov) && list_eqb chk_eqb (t_checks t) res.
(** independent of evaluate: the aggregate fails iff some check does not pass, and the listed
    checks are exactly the registered ones with their current results *)
Definition ret_ok (ops : list op) (t : retobs) : bool :=
  let l := checks_of (t_ready t) (state_at ops (t_pos t)) in
  (t_status t =? (if all_pass l then ST_PASS else ST_FAIL))
  && Nat.eqb (length (t_checks t)) (length l)
  && list_eqb N.eqb (nsort (map k_name (t_checks t))) (nsort (map k_name l))
  && forallb (fun c => existsb (chk_eqb c) l) (t_checks t).

Definition check (c : case) : verdict :=
  match c with
  | CHist ops reqs => judge (forallb (req_same ops) reqs) (forallb (req_ok ops) reqs)
  | CPulse probes =>
    judge (forallb (fun p => let o := pulse_check (p_when p) (p_now p) (p_thr p) in
                             pulse_eqb (p_out p) o && (p_status p =? pulse_status o)) probes)
          (forallb (fun p => Bool.eqb (p_status p =? ST_FAIL) (pulse_should_fail (p_when p) (p_now p) (p_thr p))) probes)
  | CStartup steps => let (a, b) := sl_steps sl_init [] steps in judge a b
  | CRetained ops kept => judge (forallb (ret_same ops) kept) (forallb (ret_ok ops) kept)
  end.
