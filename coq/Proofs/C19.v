(** C19 — proofs about the retention model of [Model/C19.v]. *)
From Verif Require Import Base.Prelude Model.C18 Proofs.C18 Model.C19.
From Coq Require Import ZifyBool.
Local Open Scope Z_scope.

(** ---------- ExpiredShardGroups ---------- *)

Lemma expired_b_spec D now g : expired_b D now g = expired_spec D now g.
Proof.
  unfold expired_b, expired_spec. destruct (rg_deleted g); cbn; [reflexivity|].
  destruct (D =? 0); cbn; [reflexivity|]. lia.
Qed.

Lemma expired_groups_iff D now gs g :
  In g (expired_groups D now gs) <->
  In g gs /\ rg_deleted g = false /\ D <> 0 /\ rg_end g < now - D.
Proof.
  unfold expired_groups. rewrite filter_In, expired_b_spec. unfold expired_spec.
  destruct (rg_deleted g); cbn; [intuition discriminate|].
  destruct (D =? 0) eqn:E; cbn; intuition lia.
Qed.

Lemma memN_In x l : memN x l = true <-> In x l.
Proof.
  unfold memN. rewrite existsb_exists. split.
  - intros (y & Hy & E). apply N.eqb_eq in E. subst; exact Hy.
  - intro H. exists x. split; [exact H|apply N.eqb_refl].
Qed.

(** ---------- DeletionCheck: the store loop ---------- *)

Lemma store_loop_calls doomed inuse errs store id :
  In id (lo_calls (store_loop doomed inuse errs store)) -> In id doomed /\ In id store.
Proof.
  induction store as [|x rest IH]; cbn; [tauto|].
  destruct (memN x doomed) eqn:Ed.
  - apply memN_In in Ed.
    destruct (memN x inuse); [cbn; intro H; destruct (IH H); auto|].
    destruct (err_of errs x); cbn; (intros [<-|H]; [auto|destruct (IH H); auto]).
  - cbn. intro H; destruct (IH H); auto.
Qed.

Lemma store_loop_drop doomed inuse errs store id :
  In id (lo_drop (store_loop doomed inuse errs store)) -> In id doomed /\ In id store.
Proof.
  induction store as [|x rest IH]; cbn; [tauto|].
  destruct (memN x doomed) eqn:Ed.
  - apply memN_In in Ed.
    destruct (memN x inuse); [cbn; intro H; destruct (IH H); auto|].
    destruct (err_of errs x); cbn; try (intros [<-|H]; [auto|destruct (IH H); auto]).
    intro H; destruct (IH H); auto.
  - cbn. intro H; destruct (IH H); auto.
Qed.

(** the store loses a shard only through a DeleteShard call, and gains nothing *)
Lemma store_loop_store doomed inuse errs store :
  (forall id, In id store ->
     In id (lo_store (store_loop doomed inuse errs store)) \/
     In id (lo_calls (store_loop doomed inuse errs store))) /\
  (forall id, In id (lo_store (store_loop doomed inuse errs store)) -> In id store).
Proof.
  induction store as [|x rest [IH1 IH2]]; [cbn; tauto|].
  cbn [store_loop].
  destruct (memN x doomed); [destruct (memN x inuse); [|destruct (err_of errs x)]|];
    cbn [lo_store lo_calls]; (split; [intros id [E|H]; [subst; cbn; auto|destruct (IH1 id H); cbn; auto]
                                    |intros id H; cbn in H |- *; intuition auto]).
Qed.

(** a doomed shard belongs to a group that was already deleted or is expired *)
Lemma doomed_iff now rps id :
  In id (flat_map (doomed_rp now) rps) <->
  exists r g, In r rps /\ In g (rp_groups r) /\ In id (rg_shards g) /\
              (rg_deleted g = true \/ expired_spec (rp_D r) now g = true).
Proof.
  rewrite in_flat_map. split.
  - intros (r & Hr & H). unfold doomed_rp in H. apply in_app_or in H as [H|H];
      apply in_flat_map in H as (g & Hg & Hid).
    + unfold deleted_groups in Hg. apply filter_In in Hg as [Hg Hd]. exists r, g; auto.
    + unfold expired_groups in Hg. apply filter_In in Hg as [Hg He].
      rewrite expired_b_spec in He. exists r, g; auto.
  - intros (r & g & Hr & Hg & Hid & [Hd|He]); exists r; (split; [exact Hr|]);
      unfold doomed_rp; apply in_or_app; [left|right]; apply in_flat_map; exists g; (split; [|exact Hid]).
    + unfold deleted_groups. apply filter_In; auto.
    + unfold expired_groups. apply filter_In. rewrite expired_b_spec; auto.
Qed.

(** ---------- DeletionCheck: untouched groups ---------- *)

Definition InG (g : rgroup) (rps : list rpol) : Prop := exists r, In r rps /\ In g (rp_groups r).

Lemma drop_in_groups_keeps id g gs gs' :
  ~ In id (rg_shards g) -> In g gs -> drop_in_groups id gs = Some gs' -> In g gs'.
Proof.
  intro Hn. revert gs'. induction gs as [|x r IH]; intros gs' Hin E; [destruct Hin|].
  cbn in E. destruct (memN id (rg_shards x)) eqn:M.
  - inversion E; subst. destruct Hin as [<-|Hin]; [|right; exact Hin].
    apply memN_In in M. contradiction.
  - destruct (drop_in_groups id r) as [r'|] eqn:D; [|discriminate]. inversion E; subst.
    destruct Hin as [<-|Hin]; [left; reflexivity|right; apply IH; auto].
Qed.

Lemma drop_in_rps_keeps id g rps rps' :
  ~ In id (rg_shards g) -> InG g rps -> drop_in_rps id rps = Some rps' -> InG g rps'.
Proof.
  intro Hn. revert rps'. induction rps as [|x rest IH]; intros rps' (r & Hr & Hg) E; [destruct Hr|].
  cbn in E. destruct (drop_in_groups id (rp_groups x)) as [gs'|] eqn:D.
  - inversion E; subst. destruct Hr as [<-|Hr].
    + exists {| rp_D := rp_D x; rp_groups := gs' |}. split; [left; reflexivity|]. cbn.
      eapply drop_in_groups_keeps; eauto.
    + exists r. split; [right; exact Hr|exact Hg].
  - destruct (drop_in_rps id rest) as [rest'|] eqn:D2; [|discriminate]. inversion E; subst.
    destruct Hr as [<-|Hr].
    + exists x. split; [left; reflexivity|exact Hg].
    + destruct (IH rest') as (r' & Hr' & Hg'); [exists r; auto|reflexivity|].
      exists r'. split; [right; exact Hr'|exact Hg'].
Qed.

Lemma drop_meta_keeps id g rps : ~ In id (rg_shards g) -> InG g rps -> InG g (drop_meta id rps).
Proof.
  intros Hn H. unfold drop_meta. destruct (drop_in_rps id rps) eqn:E; [|exact H].
  eapply drop_in_rps_keeps; eauto.
Qed.

Lemma fold_drop_keeps ids g : forall rps,
  (forall id, In id ids -> ~ In id (rg_shards g)) -> InG g rps ->
  InG g (fold_left (fun acc id => drop_meta id acc) ids rps).
Proof.
  induction ids as [|id ids IH]; intros rps Hn H; cbn; [exact H|].
  apply IH; [intros; apply Hn; right; assumption|].
  apply drop_meta_keeps; [apply Hn; left; reflexivity|exact H].
Qed.

Lemma others_untouched now rps store inuse errs g r :
  In r rps -> In g (rp_groups r) ->
  rg_deleted g = false -> expired_spec (rp_D r) now g = false ->
  (forall id, In id (rg_shards g) -> ~ In id (flat_map (doomed_rp now) rps)) ->
  InG g (po_rps (deletion_check now rps store inuse errs)) /\
  (forall id, In id (rg_shards g) -> ~ In id (po_calls (deletion_check now rps store inuse errs))).
Proof.
  intros Hr Hg Hl He Hdis. split.
  - unfold deletion_check; cbn.
    match goal with |- InG g (map prune_rp ?X) => assert (K : InG g X) end.
    { apply fold_drop_keeps.
      - intros id Hid Hsh. apply (Hdis id Hsh). apply in_app_or in Hid as [Hid|Hid].
        + apply store_loop_drop in Hid. tauto.
        + apply filter_In in Hid. tauto.
      - exists (mark_rp now r). split; [apply in_map; exact Hr|]. cbn.
        apply in_map_iff. exists g. split; [|exact Hg].
        rewrite expired_b_spec, He. reflexivity. }
    destruct K as (r' & Hr' & Hg'). exists (prune_rp r'). split; [apply in_map; exact Hr'|].
    cbn. apply filter_In. split; [exact Hg'|].
    unfold prunable. unfold rg_deleted in Hl. destruct (N.eqb (rg_del g) 0) eqn:E0; [|discriminate].
    apply N.eqb_eq in E0. rewrite E0. reflexivity.
  - intros id Hsh Hc. unfold deletion_check in Hc; cbn in Hc.
    apply store_loop_calls in Hc. apply (Hdis id Hsh). tauto.
Qed.

(** ---------- write path ---------- *)

Lemma ms_collect_min_spec mb ts : forall st lst,
  Inv st -> Forall in_range ts ->
  exists st' lst', ms_collect_min mb st lst ts = Some (st', lst') /\ Inv st' /\
    (forall g, In g lst -> In g lst') /\
    (forall t, In t ts -> mb <= t -> existsb (fun g => contains g t) lst' = true) /\
    (lst = [] -> Forall (fun t => t < mb) ts -> lst' = []).
Proof.
  induction ts as [|t r IH]; intros st lst HI HT.
  - exists st, lst. cbn. split; [reflexivity|]. split; [exact HI|]. split; [auto|].
    split; [intros t []|auto].
  - inversion HT as [|? ? Ht HT']; subst. cbn [ms_collect_min].
    destruct ((t <? mb) || existsb (fun g => contains g t) lst) eqn:Ec.
    + destruct (IH st lst HI HT') as (st' & lst' & E & HI' & Hsub & Hcov & Hemp).
      exists st', lst'. split; [exact E|]. split; [exact HI'|]. split; [exact Hsub|]. split.
      * intros t' [<-|Hin] Hge; [|auto].
        apply orb_true_iff in Ec as [Ec|Ec]; [lia|].
        apply existsb_exists in Ec as (g & Hg & Hc). apply existsb_exists. exists g; auto.
      * intros -> Hall. inversion Hall; subst. auto.
    + apply orb_false_iff in Ec as [Ec1 Ec2].
      pose proof HI as (_ & _ & Hd).
      destruct (client_create_spec st t Hd Ht) as (g & Es & Hc & _ & _ & _ & _).
      pose proof (create_preserves_inv st t HI Ht) as HI1.
      destruct (client_create st t) as [st1 o] eqn:Ecc. cbn in Es, HI1. subst o.
      destruct (IH st1 (lst ++ [g]) HI1 HT') as (st' & lst' & E & HI' & Hsub & Hcov & _).
      exists st', lst'. split; [exact E|]. split; [exact HI'|]. split; [|split].
      * intros x Hx. apply Hsub, in_or_app; left; exact Hx.
      * intros t' [<-|Hin'] Hge; [|auto]. apply existsb_exists. exists g. split; [|exact Hc].
        apply Hsub, in_or_app; right; left; reflexivity.
      * intros _ Hall. inversion Hall; subst. lia.
Qed.

Lemma in_combine_map {A B} (f : A -> B) ts a b :
  In (a, b) (combine ts (map f ts)) -> b = f a /\ In a ts.
Proof.
  induction ts as [|x r IH]; cbn; [tauto|].
  intros [H|H]; [inversion H; subst; auto|]. destruct (IH H); auto.
Qed.

(** the per-point outcome function of [write_points] *)
Definition outcome (mb : Z) (lst : list group) (t : Z) : option N :=
  if t <? mb then None else option_map g_id (sg_at lst t).

Lemma count_none_map (f : Z -> option N) (mb : Z) ts :
  (forall t, In t ts -> (f t = None <-> t < mb)) ->
  count_none (map f ts) = N.of_nat (length (filter (fun t => t <? mb) ts)).
Proof.
  intro H. unfold count_none. f_equal. induction ts as [|t r IH]; [reflexivity|]. cbn.
  assert (Ht := H t (or_introl eq_refl)).
  assert (IH' := IH (fun x Hx => H x (or_intror Hx))).
  destruct (f t) eqn:E; destruct (t <? mb) eqn:L; cbn; try (f_equal; exact IH'); try exact IH'.
  - exfalso. assert (t < mb) by lia. apply Ht in H0. discriminate.
  - exfalso. assert (t < mb) by (apply Ht; reflexivity). lia.
Qed.

(** a point is dropped iff it is older than the bound, with the exact count *)
Lemma drop_iff_older mb st ts :
  Inv st -> Forall in_range ts ->
  exists st' m, write_points mb st ts = Some (st', m) /\ length m = length ts /\
    (forall t o, In (t, o) (combine ts m) -> (o = None <-> t < mb)) /\
    count_none m = N.of_nat (length (filter (fun t => t <? mb) ts)).
Proof.
  intros HI HT. unfold write_points.
  destruct (ms_collect_min_spec mb ts st [] HI HT) as (st1 & lst & E1 & _ & _ & Hcov & _).
  rewrite E1. exists st1, (map (outcome mb lst) ts). split; [reflexivity|].
  assert (K : forall t, In t ts -> (outcome mb lst t = None <-> t < mb)).
  { intros t Hts. unfold outcome. destruct (t <? mb) eqn:L; [split; [lia|reflexivity]|].
    split; [|lia]. intro Hn. exfalso.
    assert (G : mb <= t) by lia. specialize (Hcov t Hts G). unfold sg_at in Hn.
    destruct (find (fun g => contains g t) lst) eqn:F; [discriminate|].
    apply existsb_exists in Hcov as (g & Hg & Hc). pose proof (find_none _ _ F g Hg). congruence. }
  split; [apply map_length|]. split.
  - intros t o Hin. apply in_combine_map in Hin as [-> Hts]. apply K; exact Hts.
  - apply count_none_map. exact K.
Qed.

(** a batch made only of points older than the bound creates no shard group *)
Lemma all_old_dropped mb st ts :
  Inv st -> Forall in_range ts -> Forall (fun t => t < mb) ts ->
  write_points mb st ts = Some (st, map (fun _ => None) ts).
Proof.
  intros HI HT Hold. unfold write_points.
  assert (E : ms_collect_min mb st [] ts = Some (st, [])).
  { clear HT. induction ts as [|t r IH]; [reflexivity|]. inversion Hold; subst. cbn.
    assert (L : (t <? mb) = true) by lia. rewrite L. cbn. auto. }
  rewrite E. f_equal. f_equal. apply map_ext_in. intros t Hin.
  rewrite Forall_forall in Hold. specialize (Hold t Hin).
  assert (L : (t <? mb) = true) by lia. rewrite L. reflexivity.
Qed.

Lemma count_none_all {A} (ts : list A) : count_none (map (fun _ => None) ts) = N.of_nat (length ts).
Proof.
  unfold count_none. f_equal. induction ts as [|t r IH]; cbn; [reflexivity|]. f_equal; exact IH.
Qed.
