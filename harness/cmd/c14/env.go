// Real-code environment of the C14 driver: a real tsdb.SeriesFile plus a real tsi1.Index
// in a temp directory, the primitive operations of the histories, quiescing of background
// compactions, the observation of all metadata queries through tsdb.IndexSet (the way the
// query layer reads the index), and crash images of the index directory.
package main

import (
	"fmt"
	"io"
	"os"
	"path/filepath"
	"sort"
	"time"

	"github.com/cespare/xxhash/v2"
	"github.com/influxdata/influxdb/v2/models"
	"github.com/influxdata/influxdb/v2/tsdb"
	"github.com/influxdata/influxdb/v2/tsdb/index/tsi1"
	"go.uber.org/zap"
)

// The fixed string universe: 3 measurements x 2 tag keys x 3 values, all two bytes long.
var measNames = []string{"m0", "m1", "m2"}
var keyNames = []string{"k0", "k1"}
var valNames = []string{"v0", "v1", "v2"}

type jseries struct {
	Name string      `json:"name"`
	Tags [][2]string `json:"tags,omitempty"` // sorted by key
}

func (s jseries) tags() models.Tags {
	m := map[string]string{}
	for _, t := range s.Tags {
		m[t[0]] = t[1]
	}
	return models.NewTags(m)
}
func (s jseries) key() []byte { return models.MakeKey([]byte(s.Name), s.tags()) }
func (s jseries) String() string {
	return string(s.key())
}

type env struct {
	root   string
	sfile  *tsdb.SeriesFile
	idx    *tsi1.Index
	partN  uint64
	maxLog int64
	cache  int
}

func newEnv(base string, partN uint64, maxLog int64, cache int) (*env, error) {
	root, err := os.MkdirTemp(base, "c14-")
	if err != nil {
		return nil, err
	}
	e := &env{root: root, partN: partN, maxLog: maxLog, cache: cache}
	e.sfile = tsdb.NewSeriesFile(filepath.Join(root, "_series"))
	e.sfile.Logger = zap.NewNop()
	if err := e.sfile.Open(); err != nil {
		return nil, err
	}
	if err := e.openIndex(filepath.Join(root, "index")); err != nil {
		return nil, err
	}
	return e, nil
}

func (e *env) newIndex(path string) *tsi1.Index {
	idx := tsi1.NewIndex(e.sfile, "db0", tsi1.WithPath(path), tsi1.WithMaximumLogFileSize(e.maxLog),
		tsi1.WithSeriesIDCacheSize(e.cache))
	idx.PartitionN = e.partN
	return idx
}

func (e *env) openIndex(path string) error {
	e.idx = e.newIndex(path)
	if err := e.idx.Open(); err != nil {
		return err
	}
	return quiesce(e.idx, e.partN)
}

func (e *env) close() {
	if e.idx != nil {
		e.idx.Close()
	}
	if e.sfile != nil {
		e.sfile.Close()
	}
	os.RemoveAll(e.root)
}

// quiesce waits until no compaction is running and none is needed (Partition.Wait can return
// between the end of one compaction and the follow-up Compact() of its goroutine).
//
// Compactions are ENABLED only inside quiesce: a compaction goroutine ends with a deferred
// p.Compact() that can run arbitrarily late (after Wait has returned); if it ran in the middle of a
// later Partition.DropMeasurement it would roll the active log there (needsLogCompaction inside
// compact()), splitting the operation's entries over two log files - a timing-dependent schedule
// the histories do not describe.  While compactions are disabled such a late Compact() is a no-op;
// the roll at the end of every operation (CheckLogFile) does not depend on the switch.
func quiesce(idx *tsi1.Index, partN uint64) error {
	idx.EnableCompactions()
	defer idx.DisableCompactions()
	stable := 0
	for i := 0; i < 4000; i++ {
		idx.Compact()
		idx.Wait()
		busy := false
		for p := 0; p < int(partN); p++ {
			pt := idx.PartitionAt(p)
			if pt.CurrentCompactionN() != 0 || pt.NeedsCompaction(false) {
				busy = true
			}
		}
		if busy {
			stable = 0
			time.Sleep(time.Millisecond)
			continue
		}
		stable++
		if stable >= 2 {
			return nil
		}
		time.Sleep(500 * time.Microsecond)
	}
	return fmt.Errorf("index did not quiesce")
}

func (e *env) partitionOf(s jseries) int {
	return int(xxhash.Sum64(s.key()) & (e.partN - 1))
}

// create = Index.CreateSeriesListIfNotExists on a batch; returns the series-file ids.
func (e *env) create(batch []jseries) ([]uint64, error) {
	keys := make([][]byte, len(batch))
	names := make([][]byte, len(batch))
	tags := make([]models.Tags, len(batch))
	for i, s := range batch {
		keys[i], names[i], tags[i] = s.key(), []byte(s.Name), s.tags()
	}
	if err := e.idx.CreateSeriesListIfNotExists(keys, names, tags); err != nil {
		return nil, err
	}
	ids := make([]uint64, len(batch))
	buf := make([]byte, 0, 256)
	for i := range batch {
		ids[i] = e.sfile.SeriesID(names[i], tags[i], buf)
		if ids[i] == 0 {
			return nil, fmt.Errorf("series file has no id for %s after create", batch[i])
		}
	}
	return ids, quiesce(e.idx, e.partN)
}

func (e *env) dropSeries(id uint64, s jseries) error {
	if err := e.idx.DropSeries(id, s.key(), false); err != nil {
		return err
	}
	return quiesce(e.idx, e.partN)
}

func (e *env) dropMeasIfNone(name string) (bool, error) {
	b, err := e.idx.DropMeasurementIfSeriesNotExist([]byte(name))
	if err != nil {
		return b, err
	}
	return b, quiesce(e.idx, e.partN)
}

func (e *env) dropMeas(name string) error {
	if err := e.idx.DropMeasurement([]byte(name)); err != nil {
		return err
	}
	return quiesce(e.idx, e.partN)
}

func (e *env) sfDelete(ids []uint64) error {
	for _, id := range ids {
		if _, err := e.sfile.DeleteSeriesID(id, true); err != nil {
			return err
		}
	}
	return nil
}

func (e *env) reopen() error {
	path := e.idx.Path()
	if err := e.idx.Close(); err != nil {
		return err
	}
	return e.openIndex(path)
}

// ---- observation ----

type jobs struct {
	Meas    []string            `json:"meas"`
	Keys    map[string][]string `json:"keys"`          // per measurement of the universe
	Vals    map[string][]string `json:"vals"`          // per "m/k"
	MSeries map[string][]uint64 `json:"mseries"`       // per m
	KSeries map[string][]uint64 `json:"kseries"`       // per "m/k"
	VSeries map[string][]uint64 `json:"vseries"`       // per "m/k/v"
	Set     []uint64            `json:"series_id_set"` // Index.SeriesIDSet()
}

func drainBytes(next func() ([]byte, error)) ([]string, error) {
	var out []string
	for {
		b, err := next()
		if err != nil {
			return nil, err
		}
		if b == nil {
			break
		}
		out = append(out, string(b))
	}
	if !sort.StringsAreSorted(out) {
		return nil, fmt.Errorf("iterator output not sorted: %q", out)
	}
	for i := 1; i < len(out); i++ {
		if out[i] == out[i-1] {
			return nil, fmt.Errorf("iterator output has duplicate %q", out[i])
		}
	}
	if out == nil {
		out = []string{}
	}
	return out, nil
}

func drainIDs(itr tsdb.SeriesIDIterator, err error) ([]uint64, error) {
	if err != nil {
		return nil, err
	}
	out := []uint64{}
	if itr == nil {
		return out, nil
	}
	defer itr.Close()
	for {
		e, err := itr.Next()
		if err != nil {
			return nil, err
		}
		if e.SeriesID == 0 {
			break
		}
		out = append(out, e.SeriesID)
	}
	sort.Slice(out, func(i, j int) bool { return out[i] < out[j] })
	for i := 1; i < len(out); i++ {
		if out[i] == out[i-1] {
			return nil, fmt.Errorf("series iterator returned id %d twice", out[i])
		}
	}
	return out, nil
}

// observe reads every metadata query of the property through tsdb.IndexSet (series sets are
// filtered by the series file's deleted set exactly as the query layer does).
func observe(idx *tsi1.Index, sfile *tsdb.SeriesFile) (*jobs, error) {
	is := tsdb.IndexSet{Indexes: []tsdb.Index{idx}, SeriesFile: sfile}
	o := &jobs{Keys: map[string][]string{}, Vals: map[string][]string{}, MSeries: map[string][]uint64{},
		KSeries: map[string][]uint64{}, VSeries: map[string][]uint64{}}
	mitr, err := is.MeasurementIterator()
	if err != nil {
		return nil, err
	}
	if mitr == nil {
		o.Meas = []string{}
	} else {
		o.Meas, err = drainBytes(mitr.Next)
		mitr.Close()
		if err != nil {
			return nil, err
		}
	}
	o.Set = []uint64{}
	idx.SeriesIDSet().ForEach(func(id uint64) { o.Set = append(o.Set, id) })
	sort.Slice(o.Set, func(i, j int) bool { return o.Set[i] < o.Set[j] })
	if n := idx.SeriesN(); n != int64(len(o.Set)) {
		return nil, fmt.Errorf("Index.SeriesN() = %d but Index.SeriesIDSet() has %d ids", n, len(o.Set))
	}
	for _, m := range measNames {
		kitr, err := is.TagKeyIterator([]byte(m))
		if err != nil {
			return nil, err
		}
		if kitr == nil {
			o.Keys[m] = []string{}
		} else {
			o.Keys[m], err = drainBytes(kitr.Next)
			kitr.Close()
			if err != nil {
				return nil, err
			}
		}
		if o.MSeries[m], err = drainIDs(is.MeasurementSeriesIDIterator([]byte(m))); err != nil {
			return nil, err
		}
		for _, k := range keyNames {
			mk := m + "/" + k
			vitr, err := is.TagValueIterator([]byte(m), []byte(k))
			if err != nil {
				return nil, err
			}
			if vitr == nil {
				o.Vals[mk] = []string{}
			} else {
				o.Vals[mk], err = drainBytes(vitr.Next)
				vitr.Close()
				if err != nil {
					return nil, err
				}
			}
			if o.KSeries[mk], err = drainIDs(is.TagKeySeriesIDIterator([]byte(m), []byte(k))); err != nil {
				return nil, err
			}
			for _, v := range valNames {
				if o.VSeries[mk+"/"+v], err = drainIDs(is.TagValueSeriesIDIterator([]byte(m), []byte(k), []byte(v))); err != nil {
					return nil, err
				}
			}
		}
	}
	return o, nil
}

// shape returns, per partition, the compaction level of every file of the file set (newest first).
func shape(idx *tsi1.Index, partN uint64) ([][]int, error) {
	out := make([][]int, partN)
	for p := 0; p < int(partN); p++ {
		fs, err := idx.PartitionAt(p).RetainFileSet()
		if err != nil {
			return nil, err
		}
		lv := []int{}
		for _, f := range fs.Files() {
			lv = append(lv, f.Level())
		}
		fs.Release()
		out[p] = lv
	}
	return out, nil
}

// activeLogPath returns the path of the newest file of partition p (the active log).
func activeLogPath(idx *tsi1.Index, p int) (string, error) {
	fs, err := idx.PartitionAt(p).RetainFileSet()
	if err != nil {
		return "", err
	}
	defer fs.Release()
	fl := fs.Files()
	if len(fl) == 0 || fl[0].Level() != 0 {
		return "", fmt.Errorf("partition %d: newest file is not a log file", p)
	}
	return fl[0].Path(), nil
}

func copyDir(src, dst string) error {
	return filepath.Walk(src, func(path string, info os.FileInfo, err error) error {
		if err != nil {
			return err
		}
		rel, _ := filepath.Rel(src, path)
		to := filepath.Join(dst, rel)
		if info.IsDir() {
			return os.MkdirAll(to, 0o777)
		}
		in, err := os.Open(path)
		if err != nil {
			return err
		}
		defer in.Close()
		out, err := os.Create(to)
		if err != nil {
			return err
		}
		if _, err := io.Copy(out, in); err != nil {
			out.Close()
			return err
		}
		return out.Close()
	})
}
