(** C02 — Acknowledged writes and deletes survive a crash at any point.  Theorems only. *)
From Verif Require Import Base.Prelude Model.C01 Proofs.C01 Model.C02 Proofs.C02.

(** (A) A torn WAL tail is discarded without losing earlier entries: for every list of
    well-formed records, every further record and EVERY strict prefix of its bytes, the
    segment reader returns exactly the earlier records and the loader truncates exactly at
    the start of the torn record.  [decodable] (snappy + entry unmarshalling) is an arbitrary
    function: only "what was written decodes" is used. *)
Theorem C02_wal_torn_tail :
  forall (decodable : rec -> bool) rs r n,
    Forall (rec_ok decodable) rs -> (N.of_nat (length (snd r)) < 4294967296)%N ->
    n < length (frame r) ->
    wal_read decodable (frames rs ++ firstn n (frame r)) = (rs, length (frames rs)).
Proof. exact wal_torn_tail. Qed.
Print Assumptions C02_wal_torn_tail.

Theorem C02_wal_complete :
  forall (decodable : rec -> bool) rs,
    Forall (rec_ok decodable) rs -> wal_read decodable (frames rs) = (rs, length (frames rs)).
Proof. exact wal_complete. Qed.
Print Assumptions C02_wal_complete.

(** (B) FULL STATEMENT: after any history — with crashes ([DCrash] = crash + reopen, [DCrashTorn] =
    crash + reopen while the WAL record of an in-flight, unacknowledged write was torn) at any
    point, including between the three durable sub-steps of a snapshot commit — reads show
    exactly the acknowledged writes and deletes.  It is FALSE of the faithful model and of
    the real engine in three ways: *)
(** 1. a snapshot that failed and is retried commits only the OLD snapshot but removes every
       closed WAL segment, including the one holding writes acknowledged after the failure;
       a crash before the next snapshot loses those writes. *)
Theorem C02_ack_durable_refuted_lost_write :
  exists h k t v, log_get (dspec_log h []) k t = Some v /\ abs (mem (drun h dinit)) k t = None.
Proof. exists lost_write_witness, 1%N, 2%Z, 20%Z. destruct lost_write as [A B]. split; assumption. Qed.
Print Assumptions C02_ack_durable_refuted_lost_write.

(** 2. a delete acknowledged while a snapshot commit is in flight is lost (C03's finding,
       here also across a restart). *)
Theorem C02_ack_durable_refuted_lost_delete :
  exists h k t v, log_get (dspec_log h []) k t = None /\ abs (mem (drun h dinit)) k t = Some v.
Proof. exists lost_delete_witness, 1%N, 5%Z, 7%Z. destruct lost_delete as [A B]. split; assumption. Qed.
Print Assumptions C02_ack_durable_refuted_lost_delete.

(** 3. torn WAL tail + further writes: WAL.Open seeks the re-used last segment to its end BEFORE
       CacheLoader.Load truncates the torn tail; the reopened engine's appends land behind a
       hole of zero bytes at which every later replay stops.  write A; write B in flight and
       torn, crash; write C ACKNOWLEDGED by the reopened engine; crash: C is lost (A is not).
       The history contains no snapshot, no delete, no failure: only writes and crashes. *)
Theorem C02_torn_tail_then_write_refuted :
  exists h k t v,
    (forall o, In o h -> match o with DWrite _ | DCrash | DCrashTorn => True | _ => False end) /\
    log_get (dspec_log h []) k t = Some v /\ abs (mem (drun h dinit)) k t = None.
Proof.
  exists torn_hole_witness, 1%N, 3%Z, 30%Z. destruct torn_hole as [A [B _]].
  split; [|split; assumption].
  intros o [H|[H|[H|[H|[]]]]]; subst o; exact I.
Qed.
Print Assumptions C02_torn_tail_then_write_refuted.

(** ... and the same hole makes an acknowledged DELETE disappear: the deleted point is back
    after the second restart. *)
Theorem C02_torn_tail_then_delete_refuted :
  exists h k t v, log_get (dspec_log h []) k t = None /\ abs (mem (drun h dinit)) k t = Some v.
Proof. exists torn_hole_delete_witness, 1%N, 1%Z, 10%Z. destruct torn_hole_delete as [A B]. split; assumption. Qed.
Print Assumptions C02_torn_tail_then_delete_refuted.

(** PARTIAL (strongest true weakening proved): for every history [dsafe], i.e. in which
      (a) deletes and snapshot starts happen only while no snapshot commit is in flight,
      (b) no snapshot fails,
      (c) a crash — plain or torn — happens only while no acknowledged operation sits behind a
          torn-tail hole: after a torn-tail crash that was followed by acknowledged writes or
          deletes, the next crash comes only after a non-empty snapshot has been started (its
          CloseSegment ends the holed segment) and committed through WAL.Remove; torn-tail
          crashes themselves, also several in a row, are allowed wherever plain ones are
    — any number of crashes anywhere else, including between Replace / ClearSnapshot /
    WAL.Remove, any compactions, unbounded length — the content after the history is exactly
    the acknowledged writes and deletes, nothing else, and the recovered engine keeps
    accepting operations with the same guarantee (the history simply continues after a crash).
    (c) is not the weakest possible condition: with only writes behind the hole a crash is
    already harmless once Replace has installed the snapshot file; with a delete behind it
    the deleted points come back until WAL.Remove — (c) covers both uniformly. *)
Theorem C02_ack_durable_partial :
  forall h, dsafe h dinit ->
    forall k lo hi asc,
      read (mem (drun h dinit)) k lo hi asc = spec_read (dspec_log h []) k lo hi asc.
Proof. intros h H k lo hi asc. apply ack_durable_read. exact H. Qed.
Print Assumptions C02_ack_durable_partial.

(** The crash step itself: wherever [dsafe] admits a crash after [h] (everywhere, except while
    acknowledged operations sit behind a torn-tail hole, see (c)), recovering shows the same
    content as the running engine did.  (Before the torn-tail hole was modelled this was stated
    for every dsafe [h]; histories without [DCrashTorn] satisfy the new hypothesis whenever
    they satisfied the old one: [C02_dsafe_without_torn].) *)
Theorem C02_crash_preserves_content :
  forall h, dsafe (h ++ [DCrash]) dinit -> forall k t,
    abs (mem (recover (drun h dinit))) k t = abs (mem (drun h dinit)) k t.
Proof. exact crash_preserves. Qed.
Print Assumptions C02_crash_preserves_content.

(** Without torn-tail crashes (c) is vacuous: the hypothesis of the theorems is then exactly the
    one stated before the hole was modelled (deletes/snapshot starts at phase 0, no failed
    snapshot). *)
Theorem C02_dsafe_without_torn :
  forall h, ~ In DCrashTorn h -> dsafe_old h dinit -> dsafe h dinit.
Proof. exact dsafe_without_torn. Qed.
Print Assumptions C02_dsafe_without_torn.

Example C02_nonvacuous :
  let h := [DWrite [(1%N, 1%Z, 10%Z)]; DSnapBegin; DWrite [(1%N, 1%Z, 11%Z); (2%N, 3%Z, 5%Z)]; DCommitReplace;
            DCrash; DDelete [2%N] 0%Z 9%Z; DWrite [(1%N, 2%Z, 12%Z)]; DCrash] in
  dsafe h dinit /\ read (mem (drun h dinit)) 1%N 0%Z 9%Z true = [(1, 11); (2, 12)]%Z /\
  read (mem (drun h dinit)) 2%N 0%Z 9%Z true = [].
Proof. vm_compute. repeat split; intros; discriminate. Qed.

(** a torn-tail crash, acknowledged operations behind the hole, a committed snapshot, a crash *)
Example C02_nonvacuous_torn :
  let h := [DWrite [(1%N, 1%Z, 10%Z)]; DCrashTorn; DCrashTorn; DWrite [(1%N, 2%Z, 20%Z)]; DDelete [1%N] 1%Z 1%Z;
            DSnapBegin; DWrite [(2%N, 1%Z, 5%Z)]; DCommitReplace; DCommitClear; DCommitWalRemove; DCrash] in
  dsafe h dinit /\ read (mem (drun h dinit)) 1%N 0%Z 9%Z true = [(2, 20)]%Z /\
  read (mem (drun h dinit)) 2%N 0%Z 9%Z true = [(1, 5)]%Z.
Proof. vm_compute. repeat split; intros; discriminate. Qed.
