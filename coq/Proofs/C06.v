(** C06 — part 1: safety invariants of the key cursor mirror, for ALL layouts, seeks, directions
    and both value families:
      every block the cursor returns is strictly increasing in time ([read_block_inv], [run_loop_inv]);
      every returned point is a point of some location, not covered by that location's tombstones
      and outside the range that was marked read when the cursor was created
      ([run_cursor_sound]: nothing invented, nothing deleted, nothing before/after the seek time).
    These do not need the order of [seeks] at all (they hold for any sort).  *)
From Coq Require Import ZifyBool.
From Verif Require Import Base.Prelude Model.C37 Proofs.C37 Model.C06.
Local Open Scope Z_scope.

Section Safety.
  Context {V : Type}.
  Notation arr := (arr V).
  Notation loc := (loc V).
  Implicit Types (a b v : arr) (p q : Z * V) (l c : loc) (s : list loc).

  (** ** tombstone exclusion *)
  Lemma excl_tombs_spec ts : forall v, ssorted v ->
    ssorted (excl_tombs ts v) /\
    (forall p, In p (excl_tombs ts v) <-> In p v /\ dead ts p = false).
  Proof.
    induction ts as [|r ts IH]; intros v Hv.
    - cbn. split; [auto|]. intro p. tauto.
    - cbn [excl_tombs fold_left]. fold (excl_tombs ts (arr_exclude v (fst r) (snd r))).
      destruct (IH (arr_exclude v (fst r) (snd r)) (exclude_sorted _ _ _ Hv)) as [H1 H2].
      split; [exact H1|]. intro p. rewrite H2, exclude_In by auto. cbn [dead existsb].
      fold (dead ts p). rewrite orb_false_iff, andb_false_iff, Z.leb_gt, Z.leb_gt. intuition lia.
  Qed.

  Lemma excl_tombs_sorted ts v : ssorted v -> ssorted (excl_tombs ts v).
  Proof. intro H. apply excl_tombs_spec; auto. Qed.
  Lemma excl_tombs_In ts v p : ssorted v ->
    (In p (excl_tombs ts v) <-> In p v /\ dead ts p = false).
  Proof. intro H. apply excl_tombs_spec; auto. Qed.

  (** ** locations only ever change by [mark_read]: same static part, wider read range *)
  Definition widens (a b : loc) : Prop :=
    l_file a = l_file b /\ l_min a = l_min b /\ l_max a = l_max b /\ l_data a = l_data b /\
    l_tombs a = l_tombs b /\ l_rmin b <= l_rmin a /\ l_rmax a <= l_rmax b.
  Definition swidens (s s' : list loc) : Prop := Forall2 widens s s'.

  Lemma widens_refl l : widens l l.
  Proof. unfold widens. repeat split; lia. Qed.
  Lemma widens_trans (l1 l2 l3 : loc) : widens l1 l2 -> widens l2 l3 -> widens l1 l3.
  Proof. unfold widens. intuition (try congruence; try lia). Qed.
  Lemma widens_mark mn mx l : widens l (mark_read mn mx l).
  Proof.
    unfold widens, mark_read; cbn. repeat split; auto.
    - destruct (mn <? l_rmin l) eqn:E; lia.
    - destruct (mx >? l_rmax l) eqn:E; lia.
  Qed.

  Lemma swidens_refl s : swidens s s.
  Proof. induction s; constructor; auto using widens_refl. Qed.
  Lemma swidens_trans s1 : forall s2 s3, swidens s1 s2 -> swidens s2 s3 -> swidens s1 s3.
  Proof.
    induction s1 as [|x s1 IH]; intros s2 s3 H12 H23; inversion H12; subst; inversion H23; subst;
      constructor.
    - eapply widens_trans; eassumption.
    - eapply IH; eassumption.
  Qed.
  Lemma swidens_upd s : forall i mn mx, swidens s (upd s i (mark_read mn mx)).
  Proof.
    induction s as [|x s IH]; intros [|i] mn mx; cbn; try constructor;
      try apply widens_refl; try apply widens_mark; try apply swidens_refl; try apply IH.
  Qed.
  Lemma swidens_getl s : forall s' i, swidens s s' -> widens (getl s i) (getl s' i).
  Proof.
    unfold getl. induction s as [|x s IH]; intros s' i H; inversion H; subst.
    - destruct i; apply widens_refl.
    - destruct i; cbn; auto.
  Qed.
  Lemma swidens_length s s' : swidens s s' -> length s = length s'.
  Proof. induction 1; cbn; congruence. Qed.

  (** ** what may be returned: a live point of a location, outside its ORIGINAL read range *)
  Definition fresh_in (c : loc) (p : Z * V) : Prop :=
    In p (l_data c) /\ dead (l_tombs c) p = false /\ ~ (l_rmin c <= tm p <= l_rmax c).
  Definition ok_pt (s0 : list loc) (p : Z * V) : Prop := exists c, In c s0 /\ fresh_in c p.

  Definition data_sorted (s : list loc) : Prop := Forall (fun c => ssorted (l_data c)) s.

  Lemma getl_sorted s i : data_sorted s -> ssorted (l_data (getl s i)).
  Proof.
    intro H. unfold getl. destruct (Nat.lt_ge_cases i (length s)) as [Hi|Hi].
    - unfold data_sorted in H. rewrite Forall_forall in H. apply H. apply nth_In. exact Hi.
    - rewrite nth_overflow by lia. cbn. auto.
  Qed.

  Lemma data_sorted_widens s s' : swidens s s' -> data_sorted s -> data_sorted s'.
  Proof.
    unfold data_sorted. induction 1 as [|x y s s' Hxy _ IH]; intro H; inversion H; subst; constructor; auto.
    destruct Hxy as (_ & _ & _ & Hd & _). rewrite <- Hd. auto.
  Qed.

  (** a point that survives the current (wider) exclusion at index [i] is fresh w.r.t. [s0] *)
  Lemma fresh_from_current s0 s i p : swidens s0 s ->
    In p (l_data (getl s i)) -> dead (l_tombs (getl s i)) p = false ->
    ~ (l_rmin (getl s i) <= tm p <= l_rmax (getl s i)) -> ok_pt s0 p.
  Proof.
    intros Hw Hin Hd Hr. pose proof (swidens_getl _ _ i Hw) as (_ & _ & _ & Hdat & Htb & H1 & H2).
    assert (Hi : (i < length s0)%nat).
    { destruct (Nat.lt_ge_cases i (length s0)) as [Hi|Hi]; [auto|]. exfalso.
      unfold getl in Hin at 1. rewrite nth_overflow in Hin by (rewrite <- (swidens_length _ _ Hw); lia).
      exact Hin. }
    exists (getl s0 i). split; [apply nth_In; exact Hi|]. unfold fresh_in.
    rewrite Hdat, Htb. repeat split; auto. lia.
  Qed.

  (** the unread live remainder of a location, in the two orders the code computes it *)
  Lemma rem_first_spec c p : ssorted (l_data c) ->
    (In p (excl_tombs (l_tombs c) (arr_exclude (l_data c) (l_rmin c) (l_rmax c))) <->
     In p (l_data c) /\ dead (l_tombs c) p = false /\ ~ (l_rmin c <= tm p <= l_rmax c)).
  Proof.
    intro Hs. rewrite excl_tombs_In by (apply exclude_sorted; auto). rewrite exclude_In by auto. tauto.
  Qed.
  Lemma rem_other_spec c p : ssorted (l_data c) ->
    (In p (arr_exclude (excl_tombs (l_tombs c) (l_data c)) (l_rmin c) (l_rmax c)) <->
     In p (l_data c) /\ dead (l_tombs c) p = false /\ ~ (l_rmin c <= tm p <= l_rmax c)).
  Proof.
    intro Hs. rewrite exclude_In by (apply excl_tombs_sorted; auto). rewrite excl_tombs_In by auto. tauto.
  Qed.

  Section WithMerge.
    Variable mrg : arr -> arr -> arr.
    Hypothesis mrg_sorted : forall a b, ssorted a -> ssorted b -> ssorted (mrg a b).
    Hypothesis mrg_In : forall a b p, ssorted a -> ssorted b -> In p (mrg a b) -> In p a \/ In p b.

    Definition acc_ok (s0 : list loc) (st : list loc * arr) : Prop :=
      swidens s0 (fst st) /\ ssorted (snd st) /\ Forall (ok_pt s0) (snd st).

    Lemma merge_step_ok asc s0 mn mx st i : data_sorted s0 ->
      acc_ok s0 st -> acc_ok s0 (merge_step mrg asc mn mx st i).
    Proof.
      intros Hds [Hw [Hs Hok]]. destruct st as [s values]. cbn [fst snd] in *. unfold merge_step.
      assert (Hw' : swidens s0 (upd s i (mark_read mn mx))).
      { eapply swidens_trans; [exact Hw|apply swidens_upd]. }
      destruct (negb (overlaps (getl s i) mn mx) || is_read (getl s i)).
      { split; [|split]; cbn [fst snd]; auto. }
      set (c := getl s i).
      assert (Hcs : ssorted (l_data c)) by (apply getl_sorted; eapply data_sorted_widens; eauto).
      set (v := arr_exclude (excl_tombs (l_tombs c) (l_data c)) (l_rmin c) (l_rmax c)).
      assert (Hvs : ssorted v) by (apply exclude_sorted, excl_tombs_sorted; auto).
      assert (Hvok : Forall (ok_pt s0) v).
      { apply Forall_forall. intros p Hp. apply rem_other_spec in Hp as (H1 & H2 & H3); [|auto].
        exact (fresh_from_current s0 s i p Hw H1 H2 H3). }
      destruct (0 <? length v)%nat; [|split; [|split]; cbn [fst snd]; auto].
      assert (His : ssorted (arr_include v mn mx)) by (apply include_sorted; auto).
      assert (Hiok : Forall (ok_pt s0) (arr_include v mn mx)).
      { apply Forall_forall. intros p Hp. apply include_In in Hp as [Hp _]; [|auto].
        rewrite Forall_forall in Hvok. auto. }
      rewrite Forall_forall in Hok, Hiok.
      destruct asc; (split; [|split]; cbn [fst snd]; auto;
        apply Forall_forall; intros p Hp; apply mrg_In in Hp; auto; destruct Hp; auto).
    Qed.

    Lemma merge_fold_ok asc s0 mn mx rest : data_sorted s0 -> forall st,
      acc_ok s0 st -> acc_ok s0 (fold_left (merge_step mrg asc mn mx) rest st).
    Proof.
      intro Hds. induction rest as [|i rest IH]; intros st H; cbn [fold_left]; auto.
      apply IH. apply merge_step_ok; auto.
    Qed.

    (** [read_block]: the returned block is strictly increasing and consists of fresh points;
        locations only widen. *)
    Lemma read_block_inv asc s0 cur : data_sorted s0 -> forall s, swidens s0 s ->
      let '(v, s', cur') := read_block mrg asc s cur in
      swidens s0 s' /\ ssorted v /\ Forall (ok_pt s0) v.
    Proof.
      intro Hds. induction cur as [|fi rest IH]; intros s Hw.
      - cbn. split; [auto|]. split; cbn; auto.
      - cbn [read_block].
        set (first := getl s fi).
        assert (Hfs : ssorted (l_data first)) by (apply getl_sorted; eapply data_sorted_widens; eauto).
        set (values := excl_tombs (l_tombs first) (arr_exclude (l_data first) (l_rmin first) (l_rmax first))).
        assert (Hvs : ssorted values) by (apply excl_tombs_sorted, exclude_sorted; auto).
        assert (Hvok : Forall (ok_pt s0) values).
        { apply Forall_forall. intros p Hp. apply rem_first_spec in Hp as (H1 & H2 & H3); [|auto].
          exact (fresh_from_current s0 s fi p Hw H1 H2 H3). }
        destruct (Nat.eqb (length values) 0); [apply IH; auto|].
        destruct rest as [|r1 rest'].
        { split; [|auto]. eapply swidens_trans; [exact Hw|apply swidens_upd]. }
        set (rest := r1 :: rest') in *.
        destruct asc.
        + set (minT := fold_left _ rest (min_time values)).
          destruct (find _ rest) as [i|].
          * set (maxT := if l_max (getl s i) >? max_time values then l_max (getl s i) else max_time values).
            pose proof (merge_fold_ok true s0 minT maxT rest Hds (s, arr_include values minT maxT)) as H.
            destruct (fold_left _ rest (s, arr_include values minT maxT)) as [s2 v2].
            destruct H as [H1 [H2 H3]].
            { split; [auto|]. split; cbn [fst snd]; [apply include_sorted; auto|].
              apply Forall_forall. intros p Hp. apply include_In in Hp as [Hp _]; [|auto].
              rewrite Forall_forall in Hvok. auto. }
            cbn [fst snd] in *. split; [|auto]. eapply swidens_trans; [exact H1|apply swidens_upd].
          * pose proof (merge_fold_ok true s0 minT (max_time values) rest Hds (s, values)) as H.
            destruct (fold_left _ rest (s, values)) as [s2 v2].
            destruct H as [H1 [H2 H3]]; [split; auto|].
            cbn [fst snd] in *. split; [|auto]. eapply swidens_trans; [exact H1|apply swidens_upd].
        + set (maxT := fold_left _ rest (max_time values)).
          destruct (find _ rest) as [i|].
          * set (minT := if l_min (getl s i) <? min_time values then l_min (getl s i) else min_time values).
            pose proof (merge_fold_ok false s0 minT maxT rest Hds (s, arr_include values minT maxT)) as H.
            destruct (fold_left _ rest (s, arr_include values minT maxT)) as [s2 v2].
            destruct H as [H1 [H2 H3]].
            { split; [auto|]. split; cbn [fst snd]; [apply include_sorted; auto|].
              apply Forall_forall. intros p Hp. apply include_In in Hp as [Hp _]; [|auto].
              rewrite Forall_forall in Hvok. auto. }
            cbn [fst snd] in *. split; [|auto]. eapply swidens_trans; [exact H1|apply swidens_upd].
          * pose proof (merge_fold_ok false s0 (min_time values) maxT rest Hds (s, values)) as H.
            destruct (fold_left _ rest (s, values)) as [s2 v2].
            destruct H as [H1 [H2 H3]]; [split; auto|].
            cbn [fst snd] in *. split; [|auto]. eapply swidens_trans; [exact H1|apply swidens_upd].
    Qed.

    Lemma next_seeks asc (c : cursor V) : k_seeks (next asc c) = k_seeks c.
    Proof.
      unfold next. destruct (k_cur c); [reflexivity|].
      destruct (negb _); [reflexivity|].
      destruct asc; [destruct (next_asc _ _)|destruct (next_desc _ _)]; reflexivity.
    Qed.

    Lemma run_loop_inv asc s0 : data_sorted s0 -> forall fuel (k : cursor V) bs, swidens s0 (k_seeks k) ->
      run_loop mrg fuel asc k = Some bs ->
      Forall (fun v => v <> [] /\ ssorted v /\ Forall (ok_pt s0) v) bs.
    Proof.
      intro Hds. induction fuel as [|fuel IH]; intros k bs Hw Hr; [discriminate|].
      cbn [run_loop] in Hr.
      pose proof (read_block_inv asc s0 (k_cur k) Hds (k_seeks k) Hw) as Hrb.
      destruct (read_block mrg asc (k_seeks k) (k_cur k)) as [[v s'] cur'].
      destruct Hrb as [H1 [H2 H3]].
      destruct (Nat.eqb (length v) 0) eqn:El; [inversion Hr; constructor|].
      destruct (run_loop mrg fuel asc _) as [r|] eqn:Er; [|discriminate].
      inversion Hr; subst. constructor.
      - split; [|auto]. intro Hv; subst v; discriminate.
      - eapply IH; [|exact Er]. rewrite next_seeks. cbn. exact H1.
    Qed.
  End WithMerge.

  (** ** where locations come from *)
  Lemma ins_rev_In asc x rp c : In c (ins_rev asc x rp) <-> c = x \/ In c rp.
  Proof.
    induction rp as [|y r IH]; cbn; [intuition|].
    destruct (loc_less asc x y); cbn; rewrite ?IH; intuition.
  Qed.
  Lemma sort_locs_In asc (l : list loc) c : In c (sort_locs asc l) <-> In c l.
  Proof.
    unfold sort_locs. rewrite <- in_rev.
    assert (H : forall rp, In c (fold_left (fun rp x => ins_rev asc x rp) l rp) <-> In c l \/ In c rp).
    { induction l as [|x l IH]; intro rp; cbn [fold_left]; [cbn; tauto|].
      rewrite IH, ins_rev_In. cbn. intuition. }
    rewrite H. cbn. tauto.
  Qed.

  Definition from_block (asc : bool) (t : Z) (fs : list (tfile V)) (c : loc) : Prop :=
    exists fi f (b : block V), nth_error fs fi = Some f /\ In b (f_blocks f) /\
      l_file c = fi /\ l_min c = b_min b /\ l_max c = b_max b /\ l_data c = b_data b /\
      l_tombs c = f_tombs f /\
      l_rmin c = init_rmin asc t /\ l_rmax c = init_rmax asc t.

  Lemma locations_from_block asc t fs c : In c (locations fs t asc) -> from_block asc t fs c.
  Proof.
    unfold locations.
    assert (H : forall fs k, In c (locations_from asc t k fs) ->
      exists fi f (b : block V), nth_error fs fi = Some f /\ In b (f_blocks f) /\
        l_file c = (k + fi)%nat /\ l_min c = b_min b /\ l_max c = b_max b /\ l_data c = b_data b /\
        l_tombs c = f_tombs f /\
        l_rmin c = init_rmin asc t /\ l_rmax c = init_rmax asc t).
    { clear fs. induction fs as [|f fs IH]; intros k Hin; cbn in Hin; [tauto|].
      apply in_app_or in Hin as [Hin|Hin].
      - unfold file_locs in Hin.
        destruct (asc && _); [contradiction|]. destruct (negb asc && _); [contradiction|].
        apply in_flat_map in Hin as [b [Hb Hin]]. unfold block_locs in Hin.
        destruct (fully_tombstoned _ _); [contradiction|].
        destruct (asc && _); [contradiction|]. destruct (negb asc && _); [contradiction|].
        destruct Hin as [<-|[]]. exists 0%nat, f, b. cbn. rewrite Nat.add_0_r. repeat split; auto.
      - apply IH in Hin as (fi & f' & b & H1 & H2 & H3 & H4).
        exists (S fi), f', b. cbn. split; [auto|]. split; [auto|]. split; [lia|auto]. }
    intro Hin. apply H in Hin. exact Hin.
  Qed.

  Definition files_sorted (fs : list (tfile V)) : Prop :=
    Forall (fun f => Forall (fun bk : block V => ssorted (b_data bk)) (f_blocks f)) fs.

  Lemma new_cursor_data_sorted fs t asc : files_sorted fs -> data_sorted (k_seeks (new_cursor fs t asc)).
  Proof.
    intro H. unfold data_sorted, new_cursor. cbn [k_seeks]. apply Forall_forall. intros c Hc.
    apply sort_locs_In, locations_from_block in Hc as (fi & f & b & Hf & Hb & _ & _ & _ & Hd & _).
    rewrite Hd. unfold files_sorted in H. rewrite Forall_forall in H.
    apply nth_error_In in Hf. specialize (H f Hf). rewrite Forall_forall in H. auto.
  Qed.

  (** ** the safety theorem *)
  Definition sound_point (fs : list (tfile V)) (t : Z) (asc : bool) (p : Z * V) : Prop :=
    exists f (b : block V), In f fs /\ In b (f_blocks f) /\ In p (b_data b) /\ dead (f_tombs f) p = false /\
      ~ (init_rmin asc t <= tm p <= init_rmax asc t).

  Lemma run_cursor_sound (mrg : arr -> arr -> arr) :
    (forall a b, ssorted a -> ssorted b -> ssorted (mrg a b)) ->
    (forall a b p, ssorted a -> ssorted b -> In p (mrg a b) -> In p a \/ In p b) ->
    forall fs t asc bs, files_sorted fs -> run_cursor mrg fs t asc = Some bs ->
    Forall (fun v => v <> [] /\ ssorted v /\ Forall (sound_point fs t asc) v) bs.
  Proof.
    intros Hm1 Hm2 fs t asc bs Hfs Hr. unfold run_cursor in Hr.
    pose proof (run_loop_inv mrg Hm1 Hm2 asc _ (new_cursor_data_sorted fs t asc Hfs) _ _ _
                  (swidens_refl _) Hr) as H.
    eapply Forall_impl; [|exact H]. intros v (H1 & H2 & H3). split; [auto|]. split; [auto|].
    eapply Forall_impl; [|exact H3]. intros p (c & Hc & Hd & Hl & Hrng).
    unfold new_cursor in Hc. cbn [k_seeks] in Hc.
    apply sort_locs_In, locations_from_block in Hc as (fi & f & b & Hf & Hb & _ & _ & _ & Hdat & Htb & Hmin & Hmax).
    exists f, b. rewrite <- Hdat, <- Htb. apply nth_error_In in Hf. repeat split; auto.
    rewrite Hmin, Hmax in Hrng. exact Hrng.
  Qed.

  (** outside the initial read range = at/after (at/before) the seek time, for EVERY int64 seek time *)
  Lemma init_range_seek asc t x : MinInt64 <= t <= MaxInt64 -> MinInt64 <= x <= MaxInt64 ->
    (~ (init_rmin asc t <= x <= init_rmax asc t) <-> if asc then t <= x else x <= t).
  Proof.
    unfold init_rmin, init_rmax, MinInt64, MaxInt64. intros Ht Hx.
    destruct asc; [destruct (t =? -9223372036854775808) eqn:E|destruct (t =? 9223372036854775807) eqn:E]; lia.
  Qed.
End Safety.

Lemma arr_merge_In_weak {V} (a b : arr V) p : ssorted a -> ssorted b -> In p (arr_merge a b) -> In p a \/ In p b.
Proof. intros Ha Hb H. apply merge_In in H; auto. tauto. Qed.
Lemma vals_merge_In_weak {V} (a b : arr V) p : ssorted a -> ssorted b -> In p (vals_merge a b) -> In p a \/ In p b.
Proof. intros Ha Hb H. apply vals_merge_In in H; auto. tauto. Qed.
Lemma vals_merge_sorted {V} (a b : arr V) : ssorted a -> ssorted b -> ssorted (vals_merge a b).
Proof. intros Ha Hb. apply vals_merge_spec; auto. Qed.
