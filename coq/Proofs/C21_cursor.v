(** C21 — the multi-shard array cursor as a state machine ([Next] / [nextArrayCursor]):
    draining it yields the concatenation of all per-shard batches, in shard order. *)
From Coq Require Import String Ascii.
From Verif Require Import Base.Prelude Model.C21.

Definition nonempty_batches (c : batches) : Prop := Forall (fun b : list point => b <> []) c.
Definition remaining (cur : batches) (rest : list batches) : nat :=
  length cur + list_sum (map (@length _) rest).
Definition all_points_of (cur : batches) (rest : list batches) : list point :=
  concat cur ++ concat (map (@concat _) rest).

Lemma ms_next_spec rest : forall cur,
  nonempty_batches cur -> Forall nonempty_batches rest ->
  let '(b, cur', rest') := ms_next cur rest in
  b ++ all_points_of cur' rest' = all_points_of cur rest /\
  nonempty_batches cur' /\ Forall nonempty_batches rest' /\
  (b = [] -> all_points_of cur' rest' = []) /\
  (b <> [] -> remaining cur' rest' < remaining cur rest).
Proof.
  induction rest as [|c rest IH]; intros cur Hc Hr.
  - destruct cur as [|b r]; cbn.
    + repeat split; auto. intro H; congruence.
    + inversion Hc as [|? ? Hb Hr']; subst. destruct b as [|x bs]; [congruence|].
      cbn. unfold all_points_of, remaining; cbn.
      repeat split; auto; try discriminate; try (rewrite <- ?app_assoc; reflexivity);
        try (intros _; lia).
  - destruct cur as [|b r].
    + cbn [ms_next cur_next]. inversion Hr as [|? ? Hc' Hr']; subst.
      specialize (IH c Hc' Hr'). destruct (ms_next c rest) as [[b cur'] rest'].
      destruct IH as [E [N1 [N2 [X D]]]]. unfold all_points_of, remaining in *. cbn.
      repeat split; auto; try (intro H; specialize (D H); lia).
    + inversion Hc as [|? ? Hb Hr']; subst. destruct b as [|x bs]; [congruence|].
      cbn [ms_next cur_next]. unfold all_points_of, remaining; cbn.
      repeat split; auto; try discriminate; try (rewrite <- ?app_assoc; reflexivity);
        try (intros _; lia).
Qed.

Lemma ms_drain_all fuel : forall cur rest,
  nonempty_batches cur -> Forall nonempty_batches rest ->
  remaining cur rest < fuel ->
  ms_drain fuel cur rest = Some (all_points_of cur rest).
Proof.
  induction fuel as [|n IH]; intros cur rest Hc Hr Hf; [lia|].
  cbn [ms_drain]. pose proof (ms_next_spec rest cur Hc Hr) as S.
  destruct (ms_next cur rest) as [[b cur'] rest'].
  destruct S as [E [N1 [N2 [X D]]]].
  destruct b as [|x bs].
  - rewrite <- E, (X eq_refl). reflexivity.
  - rewrite (IH cur' rest' N1 N2).
    + rewrite E. reflexivity.
    + assert (x :: bs <> []) as NE by discriminate. specialize (D NE). lia.
Qed.
