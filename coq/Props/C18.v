(** C18 — Each point lands in one shard group that contains it, also after restart.
    Property theorems only (definitions: Model/C18.v, proofs: Proofs/C18.v). *)
From Verif Require Import Base.Prelude Model.C18 Proofs.C18.
Local Open Scope Z_scope.

(** (1) Routing.  For EVERY state (any existing groups, deleted or not), every
    shard-group duration d > 0 and every timestamp in [MinNanoTime, MaxNanoTime],
    [Client.CreateShardGroup] returns a live group of the new state whose
    [start, end) contains the timestamp. *)
Theorem C18_routed_group_contains :
  forall st t, 0 < st_d st -> MinNano <= t <= MaxNano ->
    exists g, snd (client_create st t) = Some g /\ contains g t = true /\ live g = true /\
              In g (st_gs (fst (client_create st t))).
Proof.
  intros st t Hd Ht. destruct (client_create_spec st t Hd Ht) as (g & A & B & C & D & _).
  exists g; auto.
Qed.
Print Assumptions C18_routed_group_contains.

(** (1') [PointsWriter.MapShards] (infinite retention) never fails and maps every
    point of any batch to a live group of the resulting state that contains it. *)
Theorem C18_mapshards_routes_every_point :
  forall st ts, Inv st -> Forall (fun t => MinNano <= t <= MaxNano) ts ->
    exists st' lst, ms_collect st [] ts = Some (st', lst) /\
      forall t, In t ts -> exists g, sg_at lst t = Some g /\ contains g t = true /\
                                     live g = true /\ In g (st_gs st').
Proof.
  intros st ts HI HT. destruct (write_routes_all st ts HI HT) as (st' & lst & E & _ & H).
  exists st', lst; auto.
Qed.
Print Assumptions C18_mapshards_routes_every_point.

(** (2) Disjointness, as an invariant of ANY history of duration changes (d > 0),
    creates, batch writes, lookups, range queries, group deletions and
    persist+reload steps and injected metadata-store failures ([OFailNext]: the next
    commit fails), starting from the empty policy: live groups are pairwise
    separated, hence no instant lies in two live groups. *)
Theorem C18_groups_disjoint :
  forall d ops f, 0 < d -> Forall valid_op ops ->
    let gs := st_gs (fst (final_f (init d, f) ops)) in
    DisjL gs /\ forall t, (length (filter (fun g => contains g t && live g) gs) <= 1)%nat.
Proof.
  intros d ops f Hd Hv gs. pose proof (final_f_inv ops (init d) f (init_inv d Hd) Hv) as (HD & _).
  split; [exact HD|]. intro t. apply DisjL_unique. exact HD.
Qed.
Print Assumptions C18_groups_disjoint.

(** (3) Reload (full, since the start clamp of commit f8af500a39; before it the
    statement was refuted by t = MinNanoTime, d = 1h, whose window starts before
    MinInt64 ns — former finding shardgroup-start-before-int64-range).
    After ANY history of duration changes, creates, batch writes, deletions and
    earlier reloads, for all timestamps in [MinNanoTime, MaxNanoTime] and all
    d > 0, persist + reload leaves every group of the policy unchanged. *)
Theorem C18_reload_preserves_bounds :
  forall d ops f, 0 < d -> Forall valid_op ops ->
    let gs := st_gs (fst (final_f (init d, f) ops)) in map reload_group gs = gs.
Proof.
  intros d ops f Hd Hv gs. pose proof (final_f_inv ops (init d) f (init_inv d Hd) Hv) as (_ & HG & _).
  apply reload_all_id. exact HG.
Qed.
Print Assumptions C18_reload_preserves_bounds.

(** The group created for ANY timestamp in [MinNanoTime, MaxNanoTime] and any
    d > 0 has int64 bounds and survives persist + reload — whatever groups exist
    already (even ill-formed ones): its start lies in [MinNanoTime, t], its end in
    (t, MaxNanoTime + 1]. *)
Theorem C18_created_group_survives_reload :
  forall gs d t id, 0 < d -> MinNano <= t <= MaxNano ->
    let g := {| g_id := id; g_start := fst (new_bounds gs d t); g_end := snd (new_bounds gs d t);
                g_del := false |} in
    reload_group g = g /\ contains (reload_group g) t = true.
Proof.
  intros gs d t id Hd Ht g.
  assert (E : reload_group g = g) by (apply reload_group_id, created_in_int64; assumption).
  split; [exact E|]. rewrite E. unfold contains, g; cbn.
  pose proof (new_bounds_contains gs d t Hd Ht). lia.
Qed.
Print Assumptions C18_created_group_survives_reload.

(** persist + reload is the identity on every policy whose bounds are int64 instants *)
Theorem C18_reload_identity_on_int64_bounds :
  forall gs, Forall GInv gs -> map reload_group gs = gs.
Proof. exact reload_all_id. Qed.
Print Assumptions C18_reload_identity_on_int64_bounds.

(** A metadata commit is atomic: with a store failure pending, a step either fails
    and leaves the state (groups, next group id, duration) exactly as it was, or
    does what it does without a failure.  In the model the state IS the persisted
    metadata (commit writes the snapshot before swapping the cache), so nothing an
    operation reported as failed is visible later, and an accepted create is
    persisted; that cache = store is tied by the reload steps of the driver. *)
Theorem C18_failed_commit_is_atomic :
  forall st f o,
    fst (fst (step_f (st, f) o)) = fst (step st o) \/ fst (fst (step_f (st, f) o)) = st.
Proof. exact step_f_cases. Qed.
Print Assumptions C18_failed_commit_is_atomic.

(** DESIGN.md candidate F4 is NOT present in this tree: a bound exactly at the Unix
    epoch marshals to 0 and [ShardGroupInfo.unmarshal] maps 0 back to time.Unix(0,0). *)
Theorem C18_epoch_bounds_roundtrip :
  forall id s e del, MinInt64 <= s <= MaxInt64 -> MinInt64 <= e <= MaxInt64 -> (s = 0 \/ e = 0) ->
    reload_group {| g_id := id; g_start := s; g_end := e; g_del := del |} =
    {| g_id := id; g_start := s; g_end := e; g_del := del |}.
Proof. intros id s e del Hs He _. apply reload_group_id. split; assumption. Qed.
Print Assumptions C18_epoch_bounds_roundtrip.

(** (4) Time-range queries find every live group holding a point of the range. *)
Theorem C18_range_query_finds :
  forall gs g t lo hi, In g gs -> live g = true -> contains g t = true -> lo <= t <= hi ->
    In (g_id g) (range_ids gs lo hi).
Proof. exact range_finds. Qed.
Print Assumptions C18_range_query_finds.

(** Non-vacuity: a history with a duration change (clipping), a deletion, a reload
    and a batch write meets the hypotheses; the state has several live groups. *)
Example C18_nonvacuous :
  let ops := [OCreate 1005; OSetD 7; OCreate 998; OFailNext; OCreate 1012; OCreate 1012; ODelete 2%N;
              OReload; OWrite [998; 1020; 0; -1]] in
  Forall valid_op ops /\
  map (fun g => (g_start g, g_end g, g_del g)) (st_gs (fst (final_f (init 10, false) ops))) =
    [(1000, 1010, false); (998, 1000, true); (1012, 1019, false); (998, 1000, false);
     (1019, 1026, false); (-3, 4, false)].
Proof.
  split; [|vm_compute; reflexivity].
  repeat constructor; unfold in_range, MinNano, MaxNano, MinInt64, MaxInt64; cbn; lia.
Qed.

(** The former refutation witness (d = 1h, t = MinNanoTime) now round-trips: the
    group is [MinNanoTime, 1677-09-21T01:00Z) before and after reload. *)
Example C18_former_witness_fixed :
  map (fun g => (g_start g, g_end g))
      (st_gs (fst (final_f (init 3600000000000, false) [OCreate MinNano; OReload]))) =
  [(MinNano, -9223369200000000000)].
Proof. vm_compute. reflexivity. Qed.
