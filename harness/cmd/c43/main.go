// C43 driver: the REAL dbrp.Service (dbrp.NewService) on an in-memory kv store
// (inmem.NewKVStore + all kv migrations) with the REAL tenant bucket service
// (tenant.NewService(tenant.NewStore(kv))) behind it for virtual mappings, and the REAL
// dbrp.BucketService wrapper (dbrp.NewBucketService) for bucket deletion.
//
// A case = a bucket table (created at set-up in two orgs) + a history of
// Create/Update/Delete/DeleteBucket operations.  After EVERY operation the driver records
// the operation's error class and the results of FindMany for a fixed family of filters
// ({}, {org}, {org,db}, {org,db,default=true}, {org,db,rp}, {org,bucket}, {bucket}) and of
// FindByID for every id that can exist, for both orgs.  The Coq judge recomputes all of it
// from the operation list with the mirror model and evaluates the property oracle on the
// observed listings.
//
// ID generators are replaced by incrementing ones (orgs 1,2; buckets from 10: 10-13 are the
// four system buckets, user buckets from 14; mappings from 100), so ids are deterministic.
// Virtual mappings of the system buckets (_tasks, _monitoring) are dropped from the
// observed listings (their database names never interact with the generated ones).
package main

import (
	"context"
	"fmt"
	"sort"
	"strings"

	influxdb "github.com/influxdata/influxdb/v2"
	"github.com/influxdata/influxdb/v2/dbrp"
	"github.com/influxdata/influxdb/v2/inmem"
	"github.com/influxdata/influxdb/v2/kit/platform"
	"github.com/influxdata/influxdb/v2/kit/platform/errors"
	"github.com/influxdata/influxdb/v2/kv/migration/all"
	"github.com/influxdata/influxdb/v2/mock"
	"github.com/influxdata/influxdb/v2/tenant"
	"go.uber.org/zap"
	"verifh/vh"
)

const (
	firstBucketID  = 10
	firstUserBkt   = 14
	firstMappingID = 100
	sigGhost       = "update-of-virtual-mapping-persists-unindexed-record"
	sigShadow      = "plain-bucket-virtual-not-shadowed-after-default"
)

// ---- case format ----
type jbucket struct {
	Org  uint64 `json:"org"`  // 1 | 2
	Name string `json:"name"` // "db" or "db/rp"
	ID   uint64 `json:"id"`   // id the tenant service assigned (14, 15, ... in creation order)
}
type jop struct {
	Op   string `json:"op"` // create | update | delete | delbucket
	Org  uint64 `json:"org,omitempty"`
	DB   string `json:"db,omitempty"`
	RP   string `json:"rp,omitempty"`
	Bkt  uint64 `json:"bucket,omitempty"`
	ID   uint64 `json:"id,omitempty"`
	Def  bool   `json:"default,omitempty"`
	Virt bool   `json:"virtual,omitempty"`
}
type jm struct {
	ID   uint64 `json:"id"`
	Org  uint64 `json:"org"`
	DB   string `json:"db"`
	RP   string `json:"rp"`
	Bkt  uint64 `json:"bucket"`
	Def  bool   `json:"default"`
	Virt bool   `json:"virtual"`
}
type jres struct {
	Q     string `json:"q"`
	Class int    `json:"class"` // 0 ok, 1 invalid, 2 not found, 3 conflict, 4 internal, 5 panic, 6 other
	Ms    []jm   `json:"ms"`
}
type jobs struct {
	Err   int    `json:"err"`
	Lists []jres `json:"lists"`
	ByID  []*jm  `json:"byid"`
}
type jcase struct {
	Buckets []jbucket `json:"buckets"`
	Ops     []jop     `json:"ops"`
	Obs     []jobs    `json:"impl_obs"`
}

var (
	orgs = []uint64{1, 2}
	dbs  = []string{"db", "db2"}
	rps  = []string{"autogen", "r1", "r2"}
)

const badName = 255

func dbCode(s string) uint64 {
	switch s {
	case "db":
		return 1
	case "db2":
		return 2
	case "zz":
		return 3
	}
	return badName
}
func rpCode(s string) uint64 {
	switch s {
	case "autogen":
		return 0
	case "r1":
		return 1
	case "r2":
		return 2
	}
	return badName
}

func class(err error) int {
	if err == nil {
		return 0
	}
	switch errors.ErrorCode(err) {
	case errors.EInvalid:
		return 1
	case errors.ENotFound:
		return 2
	case errors.EConflict:
		return 3
	case errors.EInternal:
		return 4
	}
	return 6
}

// ---- the system under test ----
type sys struct {
	ctx  context.Context
	ten  *tenant.Service
	svc  influxdb.DBRPMappingService
	bsvc *dbrp.BucketService
}

func newSys(bks []jbucket) (*sys, error) {
	ctx := context.Background()
	s := inmem.NewKVStore()
	if err := all.Up(ctx, zap.NewNop(), s); err != nil {
		return nil, err
	}
	st := tenant.NewStore(s)
	st.OrgIDGen = mock.NewIncrementingIDGenerator(1)
	st.BucketIDGen = mock.NewIncrementingIDGenerator(firstBucketID)
	st.IDGen = mock.NewIncrementingIDGenerator(0x3000)
	ten := tenant.NewService(st)
	for i := range orgs {
		o := &influxdb.Organization{Name: fmt.Sprintf("org%d", i+1)}
		if err := ten.CreateOrganization(ctx, o); err != nil {
			return nil, err
		}
		if uint64(o.ID) != orgs[i] {
			return nil, fmt.Errorf("unexpected org id %d", uint64(o.ID))
		}
	}
	for i := range bks {
		b := &influxdb.Bucket{OrgID: platform.ID(bks[i].Org), Name: bks[i].Name}
		if err := ten.CreateBucket(ctx, b); err != nil {
			return nil, err
		}
		if uint64(b.ID) != uint64(firstUserBkt+i) {
			return nil, fmt.Errorf("unexpected bucket id %d", uint64(b.ID))
		}
		bks[i].ID = uint64(b.ID)
	}
	svc := dbrp.NewService(ctx, ten, s)
	svc.(*dbrp.Service).IDGen = mock.NewIncrementingIDGenerator(firstMappingID)
	return &sys{ctx: ctx, ten: ten, svc: svc, bsvc: dbrp.NewBucketService(zap.NewNop(), ten, svc)}, nil
}

func pid(v uint64) *platform.ID { id := platform.ID(v); return &id }

func (s *sys) apply(o jop) (cls int) {
	var err error
	p := vh.Guard(func() {
		switch o.Op {
		case "create":
			err = s.svc.Create(s.ctx, &influxdb.DBRPMapping{OrganizationID: platform.ID(o.Org), Database: o.DB,
				RetentionPolicy: o.RP, BucketID: platform.ID(o.Bkt), Default: o.Def})
		case "update":
			// Database and BucketID are overwritten by Update; they only have to pass Validate
			err = s.svc.Update(s.ctx, &influxdb.DBRPMapping{ID: platform.ID(o.ID), OrganizationID: platform.ID(o.Org),
				Database: "ignored", RetentionPolicy: o.RP, BucketID: platform.ID(1), Default: o.Def, Virtual: o.Virt})
		case "delete":
			err = s.svc.Delete(s.ctx, platform.ID(o.Org), platform.ID(o.ID))
		case "delbucket":
			err = s.bsvc.DeleteBucket(s.ctx, platform.ID(o.ID))
		default:
			panic("bad op " + o.Op)
		}
	})
	if p != "" {
		return 5
	}
	return class(err)
}

func conv(m *influxdb.DBRPMapping) jm {
	return jm{ID: uint64(m.ID), Org: uint64(m.OrganizationID), DB: m.Database, RP: m.RetentionPolicy,
		Bkt: uint64(m.BucketID), Def: m.Default, Virt: m.Virtual}
}

func (s *sys) find(q string, f influxdb.DBRPMappingFilter) jres {
	var ms []*influxdb.DBRPMapping
	var err error
	p := vh.Guard(func() { ms, _, err = s.svc.FindMany(s.ctx, f) })
	r := jres{Q: q, Ms: []jm{}}
	if p != "" {
		r.Class = 5
		return r
	}
	r.Class = class(err)
	for _, m := range ms {
		if m.Virtual && strings.HasPrefix(m.Database, "_") {
			continue // system buckets
		}
		r.Ms = append(r.Ms, conv(m))
	}
	return r
}

func (s *sys) observe(errc int, bids, ids []uint64) jobs {
	ob := jobs{Err: errc}
	tr := true
	ob.Lists = append(ob.Lists, s.find("{}", influxdb.DBRPMappingFilter{}))
	for _, o := range orgs {
		ob.Lists = append(ob.Lists, s.find(fmt.Sprintf("{org=%d}", o), influxdb.DBRPMappingFilter{OrgID: pid(o)}))
	}
	for _, o := range orgs {
		for _, d := range dbs {
			d := d
			ob.Lists = append(ob.Lists, s.find(fmt.Sprintf("{org=%d,db=%s}", o, d), influxdb.DBRPMappingFilter{OrgID: pid(o), Database: &d}))
			ob.Lists = append(ob.Lists, s.find(fmt.Sprintf("{org=%d,db=%s,default}", o, d), influxdb.DBRPMappingFilter{OrgID: pid(o), Database: &d, Default: &tr}))
			for _, rp := range rps {
				rp := rp
				ob.Lists = append(ob.Lists, s.find(fmt.Sprintf("{org=%d,db=%s,rp=%s}", o, d, rp), influxdb.DBRPMappingFilter{OrgID: pid(o), Database: &d, RetentionPolicy: &rp}))
			}
		}
	}
	for _, o := range orgs {
		for _, b := range bids {
			ob.Lists = append(ob.Lists, s.find(fmt.Sprintf("{org=%d,bucket=%d}", o, b), influxdb.DBRPMappingFilter{OrgID: pid(o), BucketID: pid(b)}))
		}
	}
	for _, b := range bids {
		ob.Lists = append(ob.Lists, s.find(fmt.Sprintf("{bucket=%d}", b), influxdb.DBRPMappingFilter{BucketID: pid(b)}))
	}
	for _, o := range orgs {
		for _, id := range ids {
			var m *influxdb.DBRPMapping
			var err error
			p := vh.Guard(func() { m, err = s.svc.FindByID(s.ctx, platform.ID(o), platform.ID(id)) })
			if p != "" || err != nil || m == nil {
				if p != "" || (err != nil && class(err) != 2) {
					// not representable: FindByID only ever fails with not-found in the model
					ob.ByID = append(ob.ByID, &jm{ID: 0, DB: "?" + p + fmt.Sprint(err)})
					continue
				}
				ob.ByID = append(ob.ByID, nil)
				continue
			}
			j := conv(m)
			ob.ByID = append(ob.ByID, &j)
		}
	}
	return ob
}

// ---- Gallina rendering ----
func dbPack(s string) uint64 {
	if c := dbCode(s); c != badName {
		return c
	}
	return 0
}
func rpPack(s string) uint64 {
	if c := rpCode(s); c != badName {
		return c
	}
	return 3
}
func b2u(b bool) uint64 {
	if b {
		return 1
	}
	return 0
}

// pack: one number per returned mapping (see "wire format" in coq/Model/C43.v)
func pack(q int, m jm) uint64 {
	if m.ID == 0 || m.ID > 127 || m.Bkt > 127 || m.Org > 3 {
		panic(fmt.Sprintf("mapping not representable: %+v", m))
	}
	return uint64(q)<<22 | m.ID<<15 | m.Org<<13 | dbPack(m.DB)<<11 | rpPack(m.RP)<<9 | m.Bkt<<2 | b2u(m.Def)<<1 | b2u(m.Virt)
}
func marker(q, class int) uint64 { return uint64(q)<<22 | uint64(class)<<2 }

func obsTerm(ob jobs) string {
	var xs []string
	add := func(v uint64) { xs = append(xs, fmt.Sprint(v)) }
	for q, r := range ob.Lists {
		if r.Class != 0 {
			add(marker(q, r.Class))
			if r.Class == 5 {
				continue
			}
		}
		for _, m := range r.Ms {
			add(pack(q, m))
		}
	}
	for k, m := range ob.ByID {
		q := len(ob.Lists) + k
		if m == nil {
			continue
		}
		if m.ID == 0 {
			add(marker(q, 6))
			continue
		}
		add(pack(q, *m))
	}
	return fmt.Sprintf("(%d, %s)", ob.Err, vh.List(xs))
}
func splitName(name string) (string, string, bool) {
	if i := strings.Index(name, "/"); i >= 0 {
		return name[:i], name[i+1:], false
	}
	return name, "autogen", true
}
func opTerm(o jop) string {
	switch o.Op {
	case "create":
		return fmt.Sprintf("Create %d %d %d %d %s", o.Org, dbCode(o.DB), rpCode(o.RP), o.Bkt, vh.Bool(o.Def))
	case "update":
		return fmt.Sprintf("Update %d %d %d %s %s", o.Org, o.ID, rpCode(o.RP), vh.Bool(o.Def), vh.Bool(o.Virt))
	case "delete":
		return fmt.Sprintf("Delete %d %d", o.Org, o.ID)
	}
	return fmt.Sprintf("DelBucket %d", o.ID)
}

// sigOf names the SHAPE (decided from the inputs only) of the two defects repaired by /repo commits
// "fix: ..." (findings.d/C43.json, status fixed); it is only counted in the input distribution: cases of
// these shapes are judged like any other, so a regression is a VIOLATION.
func sigOf(c *jcase) string {
	for _, o := range c.Ops {
		if o.Op == "update" && o.ID < firstMappingID {
			return sigGhost
		}
	}
	for _, b := range c.Buckets {
		d, _, plain := splitName(b.Name)
		if !plain {
			continue
		}
		// a plain bucket "d" of org o, and a physical (o, d, autogen) mapping may come to exist ...
		for _, o := range c.Ops {
			if (o.Op == "create" && o.Org == b.Org && o.DB == d && o.RP == "autogen") || (o.Op == "update" && o.RP == "autogen") {
				return sigShadow
			}
		}
		// ... or a second virtual (o, d, autogen) from a bucket "d/autogen", un-shadowed by a default physical
		// mapping of a database NAMED d in any org (the loop compares database names only)
		for _, b2 := range c.Buckets {
			d2, r2, plain2 := splitName(b2.Name)
			if plain2 || b2.Org != b.Org || d2 != d || r2 != "autogen" {
				continue
			}
			for _, o := range c.Ops {
				if o.Op == "create" && o.DB == d {
					return sigShadow
				}
			}
		}
	}
	return ""
}

func run(w *vh.W, c *jcase) {
	s, err := newSys(c.Buckets)
	if err != nil {
		fmt.Println("driver error: set-up:", err)
		panic(err)
	}
	// bucket name ranks (bytewise order of the names)
	names := map[string]bool{}
	for _, b := range c.Buckets {
		names[b.Name] = true
	}
	sorted := vh.SortedKeys(names)
	rank := map[string]int{}
	for i, n := range sorted {
		rank[n] = i
	}
	var bids []uint64
	bt := make([]string, len(c.Buckets))
	for i, b := range c.Buckets {
		bids = append(bids, b.ID)
		d, r, plain := splitName(b.Name)
		bt[i] = fmt.Sprintf("B %d %d %d %d %s %d", b.ID, b.Org, dbCode(d), rpCode(r), vh.Bool(plain), rank[b.Name])
	}
	sort.Slice(bids, func(i, j int) bool { return bids[i] < bids[j] })
	ids := append([]uint64{}, bids...)
	for i := range c.Ops {
		ids = append(ids, uint64(firstMappingID+i))
	}
	c.Obs = nil
	ops := make([]string, len(c.Ops))
	obs := make([]string, len(c.Ops))
	okCreates, okOther := 0, 0
	for i, o := range c.Ops {
		e := s.apply(o)
		ob := s.observe(e, bids, ids)
		c.Obs = append(c.Obs, ob)
		ops[i] = opTerm(o)
		obs[i] = obsTerm(ob)
		w.Count("op", o.Op)
		w.Count("err", fmt.Sprintf("%s:%d", o.Op, e))
		if e == 0 {
			if o.Op == "create" {
				okCreates++
			} else {
				okOther++
			}
		}
	}
	sig := sigOf(c)
	t := fmt.Sprintf("{| c_bks := %s; c_base := %d; c_orgs := [1; 2]; c_dbs := [1; 2]; c_rps := [0; 1; 2]; c_ops := %s; c_obs := %s |}",
		vh.List(bt), firstMappingID, vh.List(ops), vh.List(obs))
	w.Add(t, c, okCreates >= 2 && okOther >= 1, "")
	w.Count("len", fmt.Sprint(len(c.Ops)))
	w.Count("buckets", fmt.Sprint(len(c.Buckets)))
	if sig != "" {
		w.Count("shape", sig)
	}
}

var bucketMenu = []jbucket{
	{Org: 1, Name: "db"}, {Org: 1, Name: "db/r1"}, {Org: 1, Name: "db/autogen"}, {Org: 1, Name: "db2/r2"}, {Org: 1, Name: "db2"},
	{Org: 2, Name: "db"}, {Org: 2, Name: "db/r1"}, {Org: 2, Name: "db2/autogen"}, {Org: 1, Name: "zz"}, {Org: 2, Name: "zz"},
}

func bk(ix ...int) []jbucket {
	r := make([]jbucket, len(ix))
	for i, k := range ix {
		r[i] = bucketMenu[k]
	}
	return r
}
func cr(org uint64, db, rp string, b uint64, def bool) jop {
	return jop{Op: "create", Org: org, DB: db, RP: rp, Bkt: b, Def: def}
}
func up(org, id uint64, rp string, def, virt bool) jop {
	return jop{Op: "update", Org: org, ID: id, RP: rp, Def: def, Virt: virt}
}
func del(org, id uint64) jop { return jop{Op: "delete", Org: org, ID: id} }
func delb(id uint64) jop     { return jop{Op: "delbucket", ID: id} }

// hand-picked histories (bucket ids: 14, 15, ... in table order; mapping ids: 100 + index of the create op)
func handPicked() []jcase {
	return []jcase{
		// first mapping becomes default; duplicate (org,db,rp) conflicts; explicit default switches
		{Buckets: bk(8), Ops: []jop{cr(1, "db", "r1", 14, false), cr(1, "db", "r1", 14, true), cr(1, "db", "r2", 14, true), cr(1, "db2", "r1", 14, false), cr(2, "db", "r1", 14, false)}},
		// delete the default: the mapping with the smallest id is promoted
		{Buckets: bk(8), Ops: []jop{cr(1, "db", "r1", 14, false), cr(1, "db", "r2", 14, false), cr(1, "db", "autogen", 14, true), del(1, 102), del(1, 100), del(1, 101), del(1, 101)}},
		// update: unset the only default (stays), unset with another (first other promoted), rename into a conflict
		{Buckets: bk(8), Ops: []jop{cr(1, "db", "r1", 14, false), up(1, 100, "r1", false, false), cr(1, "db", "r2", 14, false), up(1, 100, "r1", false, false), up(1, 100, "r2", false, false), up(1, 101, "r1", true, false), up(2, 100, "r1", true, false)}},
		// invalid names / bucket, unknown bucket, wrong org, unknown id
		{Buckets: bk(8), Ops: []jop{cr(1, "", "r1", 14, false), cr(1, "db", "a/b", 14, false), cr(1, "db", "r1", 0, false), cr(1, "db", "r1", 77, false), cr(1, "db", "r1", 14, false), up(1, 104, "", true, false), up(1, 105, "r1", true, false), del(2, 104), del(1, 104)}},
		// deleting a bucket deletes its mappings (promotion among the rest); mapping of another org on it survives
		{Buckets: bk(8, 9), Ops: []jop{cr(1, "db", "r1", 14, false), cr(1, "db", "r2", 15, false), cr(1, "db", "autogen", 14, false), cr(2, "db", "r1", 14, false), delb(14), delb(14), delb(15)}},
		// virtual mappings: physical shadows virtual of the same rp; plain bucket's virtual default yields to a physical default
		{Buckets: bk(0, 1, 3), Ops: []jop{cr(1, "db", "r1", 14, false), cr(1, "db2", "r2", 16, false), del(1, 100), delb(15)}},
		// deleting by the id of a plain bucket (virtual default) re-elects the first physical mapping as default, even from another org
		{Buckets: bk(0, 8), Ops: []jop{cr(1, "db", "r1", 15, false), cr(1, "db", "r2", 15, true), del(2, 14), del(1, 15)}},
		// regression (fixed finding, shadow): default (db,r2) precedes non-default (db,autogen); plain bucket "db" must not be listed as a second (db,autogen)
		{Buckets: bk(0, 8), Ops: []jop{cr(1, "db", "r2", 15, false), cr(1, "db", "autogen", 15, false)}},
		{Buckets: bk(2, 0), Ops: []jop{cr(1, "db", "r2", 14, false)}},
		// regression (fixed finding, ghost): updating a virtual mapping must be rejected (it used to store an un-indexed record; db lost its default in the listing)
		{Buckets: bk(1, 8), Ops: []jop{cr(1, "db", "r2", 15, false), cr(1, "db", "autogen", 15, false), up(1, 14, "r1", true, true), del(1, 14)}},
		// regression (fixed finding, ghost): FindMany{} used to dereference a nil default id
		{Buckets: bk(6), Ops: []jop{up(2, 14, "r1", false, true), cr(2, "db", "r1", 14, false)}},
	}
}

func main() {
	w := vh.New("C43", "From Verif Require Import Base.Prelude Model.C43.\nLocal Open Scope N_scope.", "case", "check")
	w.Rule = "hand-picked edge histories first, then (n>=20000: all 12^4 histories of length 4 over a 12-operation alphabet on a fixed 3-bucket table (org 1: 'db', 'db/r1'; org 2: 'db/r1'), then) random histories of length 1-8 of create/update/delete/delete-bucket over 2 orgs x 2 databases x 3 retention policies on a random 1-5 bucket table drawn from a 10-entry menu of plain ('db') and 'db/rp' bucket names; ids target existing mappings, bucket ids (virtual mappings) and a few unknown ids; a few invalid names/bucket ids. Non-trivial: at least two successful creates and one other successful operation. Distinct: distinct Gallina terms."
	var rc jcase
	if w.ReplayCase(&rc) {
		run(w, &rc)
		w.Finish()
		return
	}
	for _, c := range handPicked() {
		c := c
		run(w, &c)
	}
	w.Extra["hand_picked"] = w.Len()
	if w.N >= 20000 {
		alpha := []jop{
			cr(1, "db", "autogen", 16, false), cr(1, "db", "r1", 14, false), cr(1, "db", "r2", 15, true), cr(1, "db2", "r1", 14, false),
			up(1, 100, "r1", false, false), up(1, 101, "autogen", true, false), up(1, 100, "r2", true, false),
			del(1, 100), del(1, 101), del(1, 14), delb(14), up(1, 15, "r2", true, true),
		}
		const L = 4
		idx := make([]int, L)
		cnt := 0
		for {
			c := jcase{Buckets: bk(0, 1, 6)}
			// 14 = org 1 "db" (plain), 15 = org 1 "db/r1", 16 = org 2 "db/r1"
			for _, k := range idx {
				c.Ops = append(c.Ops, alpha[k])
			}
			run(w, &c)
			cnt++
			p := L - 1
			for p >= 0 {
				idx[p]++
				if idx[p] < len(alpha) {
					break
				}
				idx[p] = 0
				p--
			}
			if p < 0 {
				break
			}
		}
		w.Extra["exhaustive_len4_histories"] = cnt
	}
	r := w.Rng
	for w.Len() < w.N {
		var c jcase
		perm := r.Perm(len(bucketMenu))
		nb := 1 + r.IntN(5)
		for _, k := range perm[:nb] {
			c.Buckets = append(c.Buckets, bucketMenu[k])
		}
		bid := func() uint64 { return uint64(firstUserBkt + r.IntN(nb)) }
		n := 1 + r.IntN(8)
		creates := 0
		org := func() uint64 {
			if r.IntN(10) < 7 {
				return 1
			}
			return 2
		}
		name := func(xs []string, bias int) string {
			if r.IntN(40) == 0 {
				return []string{"", "a/b"}[r.IntN(2)]
			}
			if r.IntN(100) < bias {
				return xs[0]
			}
			return xs[r.IntN(len(xs))]
		}
		mid := func() uint64 {
			k := r.IntN(12)
			switch {
			case k == 0:
				return uint64(firstMappingID + creates) // not yet created
			case k <= 2:
				return bid() // a bucket id: virtual mapping
			case creates == 0:
				return firstMappingID
			}
			return uint64(firstMappingID + r.IntN(creates))
		}
		for i := 0; i < n; i++ {
			k := r.IntN(100)
			switch {
			case k < 45 || creates == 0 && k < 80:
				b := bid()
				if q := r.IntN(40); q == 0 {
					b = 0
				} else if q == 1 {
					b = 77
				}
				c.Ops = append(c.Ops, cr(org(), name(dbs, 50), name(rps, 0), b, r.IntN(10) < 3))
				creates++
			case k < 67:
				c.Ops = append(c.Ops, up(org(), mid(), name(rps, 0), r.IntN(10) < 4, r.IntN(10) == 0))
			case k < 93:
				c.Ops = append(c.Ops, del(org(), mid()))
			default:
				c.Ops = append(c.Ops, delb(bid()))
			}
		}
		run(w, &c)
	}
	w.Finish()
}
