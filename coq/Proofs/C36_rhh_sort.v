(** C36 (rhh) — [bytes_sort] (insertion sort by [bytes.Compare]) gives the same list on
    permutations: [bytes_ltb] is a strict total order, so insertions commute. *)
From Verif Require Import Base.Prelude Model.C36_rhh.
From Coq Require Import Permutation.

Lemma bytes_ltb_irrefl a : bytes_ltb a a = false.
Proof. induction a as [|x a IH]; simpl; auto. rewrite N.ltb_irrefl. auto. Qed.

Lemma bytes_ltb_tricho a : forall b,
  bytes_ltb a b = false -> bytes_ltb b a = false -> a = b.
Proof.
  induction a as [|x a IH]; intros [|y b]; simpl; try discriminate; auto.
  destruct (N.ltb_spec x y), (N.ltb_spec y x); try discriminate; try lia.
  intros H1 H2. assert (x = y) by lia. subst. f_equal; auto.
Qed.

Lemma bytes_ltb_trans a : forall b c,
  bytes_ltb a b = true -> bytes_ltb b c = true -> bytes_ltb a c = true.
Proof.
  induction a as [|x a IH]; intros [|y b] [|z c]; simpl; try discriminate; auto.
  destruct (N.ltb_spec x y), (N.ltb_spec y x), (N.ltb_spec y z), (N.ltb_spec z y),
    (N.ltb_spec x z), (N.ltb_spec z x); try discriminate; try lia; auto.
  apply IH.
Qed.

Lemma bytes_ltb_asym a b : bytes_ltb a b = true -> bytes_ltb b a = false.
Proof.
  intros H. destruct (bytes_ltb b a) eqn:E; auto.
  pose proof (bytes_ltb_trans _ _ _ H E) as C. rewrite bytes_ltb_irrefl in C. discriminate.
Qed.

Lemma bytes_ltb_mixed z x y :
  bytes_ltb z x = false -> bytes_ltb z y = true -> bytes_ltb x y = true.
Proof.
  intros H1 H2. destruct (bytes_ltb x y) eqn:E; auto.
  destruct (bytes_ltb y x) eqn:E2.
  - rewrite (bytes_ltb_trans _ _ _ H2 E2) in H1. discriminate.
  - assert (x = y) by (apply bytes_ltb_tricho; auto). subst. congruence.
Qed.

Lemma bytes_insert_two x y r :
  (if bytes_ltb y x then y :: x :: r else x :: y :: r)
  = (if bytes_ltb x y then x :: y :: r else y :: x :: r).
Proof.
  destruct (bytes_ltb y x) eqn:E1, (bytes_ltb x y) eqn:E2; auto.
  - rewrite (bytes_ltb_asym _ _ E1) in E2. discriminate.
  - assert (x = y) by (apply bytes_ltb_tricho; auto). subst. auto.
Qed.

Lemma bytes_insert_comm x y l :
  bytes_insert_sorted x (bytes_insert_sorted y l) = bytes_insert_sorted y (bytes_insert_sorted x l).
Proof.
  induction l as [|z r IH]; cbn [bytes_insert_sorted].
  - apply bytes_insert_two.
  - destruct (bytes_ltb z y) eqn:Ey, (bytes_ltb z x) eqn:Ex; cbn [bytes_insert_sorted];
      rewrite ?Ey, ?Ex.
    + f_equal. apply IH.
    + rewrite (bytes_ltb_mixed _ _ _ Ex Ey). auto.
    + rewrite (bytes_ltb_mixed _ _ _ Ey Ex). auto.
    + apply bytes_insert_two.
Qed.

Lemma bytes_sort_perm l l' : Permutation l l' -> bytes_sort l = bytes_sort l'.
Proof.
  unfold bytes_sort. induction 1 as [| x l l' Hp IH | x y l | l l' l'' H1 IH1 H2 IH2]; cbn [fold_right].
  - auto.
  - rewrite IH. auto.
  - apply bytes_insert_comm.
  - congruence.
Qed.
