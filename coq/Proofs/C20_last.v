(** C20 — the windowed [last] cursor: it never indexes res[-1], terminates, and the
    concatenated output arrays are the last point of every window. *)
From Coq Require Import ZifyBool Sorting.Sorted.
From Verif Require Import Base.Prelude Model.C20 Proofs.C20 Proofs.C20_ref Proofs.C20_sel.
Open Scope Z_scope.

Section LastProofs.
Context {V : Type}.
Notation pt := (Z * V)%type.
Variable stop_of : Z -> Z.
Variable B : Z.
Hypothesis HB : 1 <= B.

Notation last_inner := (last_inner stop_of B).
Notation last_outer := (last_outer stop_of B).
Notation next_last := (next_last stop_of B).
Notation run_last := (run_last stop_of B).
Notation scan_last := (scan_last stop_of).

Definition head_ge (wend : Z) (l : list pt) : Prop :=
  match l with p :: _ => wend <= fst p | [] => True end.

(** cursor-local invariant: [cur] slots are in use; before the first point of a call
    ([cur = -1]) the next point starts a new slot *)
Definition linv (cur : Z) (pending : option pt) (wend : Z) (a : list pt) : Prop :=
  cur < B /\ (0 <= cur -> pending <> None)
  /\ (cur < 0 -> cur = -1 /\ pending = None /\ head_ge wend a).

Lemma last_inner_spec (a : list pt) : forall cur wend pending o r,
  linv cur pending wend a ->
  last_inner a cur wend pending = (o, r) ->
  match r with
  | LCont cur' wend' pending' =>
      (forall s, scan_last (a ++ s) wend pending = o ++ scan_last s wend' pending')
      /\ cur' < B /\ (0 <= cur -> 0 <= cur') /\ (a <> [] -> 0 <= cur') /\ (0 <= cur' -> pending' <> None)
  | LFull wend' tmp =>
      (forall s, scan_last (a ++ s) wend pending = o ++ scan_last (tmp ++ s) wend' None)
      /\ o <> [] /\ tmp <> [] /\ (length tmp <= length a)%nat
      /\ (cur < B - 1 -> (length tmp < length a)%nat) /\ head_ge wend' tmp
  | LPanic => False
  end.
Proof.
  induction a as [|p a' IH]; intros cur wend pending o r Hi E; cbn [C20.last_inner] in E.
  - injection E as <- <-. destruct Hi as (H1 & H2 & H3). repeat split; auto; congruence.
  - destruct Hi as (H1 & H2 & H3).
    set (newwin := wend <=? fst p) in *.
    set (cur' := if newwin then cur + 1 else cur) in *.
    assert (Hc' : 0 <= cur').
    { subst cur'. destruct newwin eqn:En; [lia|].
      destruct (Z_lt_ge_dec cur 0) as [Hn|Hn]; [|lia].
      destruct (H3 Hn) as (_ & _ & Hh). cbn [head_ge] in Hh. subst newwin. lia. }
    destruct (cur' =? B) eqn:Ef.
    + injection E as <- <-.
      assert (En : newwin = true).
      { subst cur'. destruct newwin; [reflexivity|lia]. }
      assert (Hcur : cur = B - 1) by (subst cur'; rewrite En in Ef; lia).
      assert (Hp : pending <> None) by (apply H2; lia).
      repeat split.
      * intro s. cbn [app C20.scan_last]. fold newwin. rewrite En. cbn [opt_list app]. reflexivity.
      * destruct pending; [discriminate|congruence].
      * discriminate.
      * lia.
      * lia.
      * cbn [head_ge]. subst newwin. lia.
    + replace (cur' <? 0) with false in E by lia.
      destruct (C20.last_inner stop_of B a' cur' (stop_of (fst p)) (Some p)) as [o1 r1] eqn:E1.
      injection E as <- <-. apply IH in E1.
      2:{ repeat split; [lia|discriminate|lia|lia|lia]. }
      destruct r1 as [cur2 wend2 pending2|wend2 tmp|].
      * destruct E1 as (F1 & F2 & F3 & F4 & F5). repeat split; auto.
        -- intro s. cbn [app C20.scan_last]. fold newwin. rewrite F1, app_assoc. reflexivity.
      * destruct E1 as (F1 & F2 & F3 & F4 & F5 & F6). repeat split; auto.
        -- intro s. cbn [app C20.scan_last]. fold newwin. rewrite F1, app_assoc. reflexivity.
        -- intro X. apply app_eq_nil in X as [_ X]. exact (F2 X).
        -- cbn [length]. lia.
        -- intros _. cbn [length]. lia.
      * exact E1.
Qed.

Lemma last_outer_spec (rest : list (list pt)) : forall (a : list pt) cur wend pending,
  Forall nonempty rest -> a <> [] -> linv cur pending wend a ->
  exists o st', last_outer rest a cur wend pending = Some (o, st')
    /\ scan_last (a ++ concat rest) wend pending = o ++ scan_last (flat3 st') (snd st') None
    /\ o <> [] /\ Forall nonempty (snd (fst st'))
    /\ (length (flat3 st') <= length (a ++ concat rest))%nat
    /\ (cur < B - 1 -> (length (flat3 st') < length (a ++ concat rest))%nat)
    /\ head_ge (snd st') (flat3 st').
Proof.
  induction rest as [|c rest' IH]; intros a cur wend pending Hne Ha Hi; cbn [C20.last_outer].
  - destruct (C20.last_inner stop_of B a cur wend pending) as [o r] eqn:E.
    apply last_inner_spec in E; [|exact Hi].
    destruct r as [cur' wend' pending'|wend' tmp|]; [| |contradiction].
    + destruct E as (F1 & F2 & F3 & F4 & F5).
      assert (Hp : pending' <> None) by (apply F5, F4, Ha).
      eexists _, _; split; [reflexivity|]. unfold flat3; cbn [fst snd concat app length head_ge].
      repeat split; auto.
      * rewrite F1. cbn [C20.scan_last opt_list]. rewrite app_nil_r. reflexivity.
      * intro X. apply app_eq_nil in X as [_ X]. destruct pending'; [discriminate|congruence].
      * lia.
      * intros _. destruct a; [congruence|]. cbn [length app]. lia.
    + destruct E as (F1 & F2 & F3 & F4 & F5 & F6).
      eexists _, _; split; [reflexivity|]. unfold flat3; cbn [fst snd concat].
      rewrite !app_nil_r. repeat split; auto.
      rewrite <- (app_nil_r a) at 1. rewrite F1, app_nil_r. reflexivity.
  - destruct (C20.last_inner stop_of B a cur wend pending) as [o r] eqn:E.
    apply last_inner_spec in E; [|exact Hi].
    destruct r as [cur' wend' pending'|wend' tmp|]; [| |contradiction].
    + destruct E as (F1 & F2 & F3 & F4 & F5).
      inversion Hne as [|? ? Hc Hr]; subst.
      destruct c as [|q c']; [exfalso; apply Hc; reflexivity|].
      destruct (IH (q :: c') cur' wend' pending' Hr) as (o' & st' & Eo & Es & Eno & Ene & Ele & _ & Ehd).
      { discriminate. }
      { specialize (F4 Ha). repeat split; [exact F2|intros _; apply F5; exact F4|lia|lia|lia]. }
      rewrite Eo. eexists _, _; split; [reflexivity|]. repeat split; auto.
      * cbn [concat]. rewrite F1, Es, app_assoc. reflexivity.
      * intro X. apply app_eq_nil in X as [_ X]. exact (Eno X).
      * cbn [concat]. rewrite app_length. lia.
      * intros _. cbn [concat]. rewrite app_length. destruct a; [congruence|]. cbn [length]. lia.
    + destruct E as (F1 & F2 & F3 & F4 & F5 & F6).
      eexists _, _; split; [reflexivity|]. unfold flat3; cbn [fst snd].
      repeat split; auto.
      * rewrite !app_length. lia.
      * intro Hh. rewrite !app_length. specialize (F5 Hh). lia.
      * destruct tmp; [congruence|exact F6].
Qed.

Definition stinv (st : list pt * list (list pt) * Z) : Prop :=
  Forall nonempty (snd (fst st)) /\ head_ge (snd st) (flat3 st).

Lemma next_last_spec (st : list pt * list (list pt) * Z) :
  stinv st ->
  exists o st', next_last st = Some (o, st')
    /\ scan_last (flat3 st) (snd st) None = o ++ scan_last (flat3 st') (snd st') None
    /\ (flat3 st <> [] -> o <> [] /\ (length (flat3 st') < length (flat3 st))%nat)
    /\ (flat3 st = [] -> o = [])
    /\ stinv st'.
Proof.
  destruct st as [[tmp rest] wend]. unfold stinv, flat3. cbn [fst snd]. intros [Hne Hh].
  unfold C20.next_last, take_input.
  assert (G : forall (a : list pt) rest1, a <> [] -> Forall nonempty rest1 -> head_ge wend (a ++ concat rest1) ->
     exists o st', last_outer rest1 a (-1) wend None = Some (o, st')
       /\ scan_last (a ++ concat rest1) wend None = o ++ scan_last (flat3 st') (snd st') None
       /\ o <> [] /\ (length (flat3 st') < length (a ++ concat rest1))%nat /\ stinv st').
  { intros a rest1 Ha Hr Hhd.
    destruct (last_outer_spec rest1 a (-1) wend None Hr Ha) as (o & st' & Eo & Es & Eno & Ene & _ & Elt & Ehd).
    { repeat split; try lia; try discriminate. destruct a; [congruence|exact Hhd]. }
    exists o, st'. repeat split; auto. apply Elt. lia. }
  destruct tmp as [|p tmp'].
  - destruct rest as [|c rest']; cbn [pull].
    + eexists _, _; split; [reflexivity|]. cbn. repeat split; auto. congruence.
    + inversion Hne as [|? ? Hc Hr]; subst. destruct c as [|p c']; [exfalso; apply Hc; reflexivity|].
      destruct (G (p :: c') rest' ltac:(discriminate) Hr Hh) as (o & st' & Eo & Es & Eno & Elt & Ei).
      exists o, st'. cbn [app concat] in *. repeat split; auto; try apply Ei. discriminate.
  - destruct (G (p :: tmp') rest ltac:(discriminate) Hne Hh) as (o & st' & Eo & Es & Eno & Elt & Ei).
    exists o, st'. repeat split; auto; try apply Ei. discriminate.
Qed.

Lemma run_last_scan : forall fuel st,
  stinv st -> (length (flat3 st) < fuel)%nat ->
  exists arrs, run_last fuel st = Some arrs /\ concat arrs = scan_last (flat3 st) (snd st) None.
Proof.
  induction fuel as [|f IH]; intros st Hi Hf; [lia|].
  cbn [C20.run_last].
  destruct (next_last_spec st Hi) as (o & st' & En & Es & Ep & Ez & Ei). rewrite En.
  destruct (flat3 st) as [|p l] eqn:Efl.
  - rewrite (Ez eq_refl). exists []. split; reflexivity.
  - destruct Ep as [Eno Elt]; [discriminate|].
    destruct o as [|x o']; [congruence|].
    destruct (IH st' Ei) as (arrs & Er & Ec). { cbn [length] in *. lia. }
    rewrite Er. exists ((x :: o') :: arrs). split; [reflexivity|].
    cbn [concat]. rewrite Ec, <- Es. reflexivity.
Qed.

(** scan_last = the last point of every group of the one-pass grouping (needs the window
    function to be constant on a window, because the cursor re-reads the window stop at
    every point) *)
Hypothesis H1 : forall t, t < stop_of t.
Hypothesis H2 : forall t u, t <= u < stop_of t -> stop_of u = stop_of t.

Definition lastl (g : list pt) : list pt := firstn 1 (rev g).

Lemma scan_last_groups_aux (l : list pt) : forall w cur t0,
  cur <> [] -> stop_of t0 = w -> (forall q, In q l -> t0 <= fst q) -> time_sorted l ->
  scan_last l w (hd_error cur)
  = concat (map (fun wg : Z * list pt => lastl (snd wg)) (groups_aux stop_of w cur l)).
Proof.
  induction l as [|p l IH]; intros w cur t0 Hc Ht0 Hlo Hs; cbn [C20.scan_last groups_aux map concat snd].
  - unfold lastl. rewrite rev_involutive, app_nil_r. destruct cur; [congruence|reflexivity].
  - inversion Hs as [|p0 l0 Hs' Hall [Ep El]]. rewrite Forall_forall in Hall.
    destruct (w <=? fst p) eqn:Ew.
    + cbn [map concat snd]. f_equal.
      * unfold lastl. rewrite rev_involutive. destruct cur; [congruence|reflexivity].
      * apply (IH (stop_of (fst p)) [p] (fst p)); auto; discriminate.
    + cbn [app].
      assert (E : stop_of (fst p) = w).
      { rewrite <- Ht0. apply H2. specialize (Hlo p (or_introl eq_refl)). lia. }
      rewrite E. apply (IH w (p :: cur) t0); auto; try discriminate.
      intros q Hq. apply Hlo. right; exact Hq.
Qed.

Lemma scan_last_groups (l : list pt) :
  time_sorted l -> (forall p, In p l -> MinI64 <= fst p) ->
  scan_last l MinI64 None
  = concat (map (fun wg : Z * list pt => lastl (snd wg)) (groups stop_of l)).
Proof.
  intros Hs Hlo. destruct l as [|p l]; [reflexivity|]. cbn [C20.scan_last groups].
  specialize (Hlo p (or_introl eq_refl)). replace (MinI64 <=? fst p) with true by lia.
  cbn [opt_list app].
  inversion Hs as [|p0 l0 Hs' Hall [Ep El]]. rewrite Forall_forall in Hall.
  apply (scan_last_groups_aux l (stop_of (fst p)) [p] (fst p)); auto. discriminate.
Qed.
End LastProofs.

(** assembled: windowed last *)
From Verif Require Import Proofs.C20_inst.

Lemma lastl_agg t w (g : list (Z * val)) : lastl g = agg_spec t Last w g.
Proof.
  destruct g as [|p0 g']; [reflexivity|]. cbn [agg_spec]. unfold lastl.
  destruct g' as [|y g''] eqn:Eg; [reflexivity|]. rewrite <- Eg.
  assert (Hne : g' <> []) by (rewrite Eg; discriminate).
  destruct (exists_last Hne) as (l & x & ->).
  rewrite last_last. cbn [rev]. rewrite rev_app_distr. reflexivity.
Qed.

Lemma pushdown_last (stop_of : Z -> Z)
  (H1 : forall t, t < stop_of t)
  (H2 : forall t u, t <= u < stop_of t -> stop_of u = stop_of t)
  (B : N) t (chunks : list (list (Z * val))) :
  (1 <= B)%N -> Forall nonempty chunks -> time_sorted (concat chunks) ->
  (forall p, In p (concat chunks) -> MinI64 <= fst p) ->
  exists arrs, run_model stop_of false B t Last chunks = Some arrs
    /\ concat arrs = oracle stop_of false t Last (concat chunks).
Proof.
  intros HB Hne Hs Hlo. cbn [run_model].
  destruct (run_last_scan stop_of (Z.of_N B) ltac:(lia) (fuel_for chunks) ([], chunks, MinI64))
    as (arrs & Er & Ec).
  { split; [exact Hne|]. unfold flat3. cbn [fst snd app]. unfold head_ge.
    destruct (concat chunks) as [|p l] eqn:E; [exact I|]. apply Hlo. left; reflexivity. }
  { apply fuel_ok. }
  exists arrs. split; [exact Er|]. rewrite Ec. unfold flat3. cbn [fst snd app].
  rewrite (scan_last_groups stop_of H2) by assumption.
  rewrite (groups_ref stop_of H1 H2) by exact Hs.
  unfold oracle, reference. f_equal. apply map_ext. intro wg. apply lastl_agg.
Qed.
