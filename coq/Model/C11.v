(** C11 / C12 — line protocol: mirror of the scanners, the parser and the printer of
    /repo/models/points.go (plus pkg/escape/bytes.go, models/time.go,
    models/inline_strconv_parse.go).

    Bytes are [N]; a buffer is a [list N].  The Go scanners walk an index [i] over
    [buf] and look back at [buf[i-1]] (and [buf[i-2]]); the mirrors are structural
    recursions over the remaining list that carry the previous byte(s) as arguments.
    Quirks of the Go code are mirrored, not repaired (see the comments marked QUIRK).

    No proofs in this file. *)
From Verif Require Import Base.Prelude.
From Coq Require Import DecimalN.
Local Open Scope N_scope.

(** * Bytes *)
Definition SP : N := 32.      Definition COMMA : N := 44.   Definition EQ : N := 61.
Definition BSL : N := 92.     Definition DQ : N := 34.      Definition NL : N := 10.
Definition TAB : N := 9.      Definition HASH : N := 35.    Definition MINUS : N := 45.
Definition PLUS : N := 43.    Definition DOT : N := 46.

Definition bytes := list N.
Definition bytes_eqb : bytes -> bytes -> bool := list_eqb N.eqb.
Definition blen (l : bytes) : N := N.of_nat (length l).
(** linear-time reverse ([List.rev] is quadratic) *)
Definition frev (l : bytes) : bytes := rev_append l [].

(** Run-length compressed byte strings, used only to ship long buffers in cases. *)
Inductive seg := L (l : bytes) | R (n : N) (b : N).
Definition expand1 (s : seg) : bytes :=
  match s with L l => l | R n b => repeat b (N.to_nat n) end.
Definition expand (ss : list seg) : bytes := flat_map expand1 ss.

(** bytes.Compare *)
Fixpoint bcompare (a b : bytes) : comparison :=
  match a, b with
  | [], [] => Eq
  | [], _ => Lt
  | _, [] => Gt
  | x :: a', y :: b' => match N.compare x y with Eq => bcompare a' b' | c => c end
  end.

Inductive res (A : Type) := Ok (a : A) | Err (e : N).
Arguments Ok {A} a.
Arguments Err {A} e.

(** Error classes (the Go error strings in comments). *)
Definition E_MISSING_MEAS : N := 1.      (* "missing measurement" *)
Definition E_MISSING_FIELDS : N := 2.    (* "missing fields" *)
Definition E_MISSING_TAG_KEY : N := 3.   (* "missing tag key" *)
Definition E_MISSING_TAG_VALUE : N := 4. (* "missing tag value" *)
Definition E_INVALID_TAG_FORMAT : N := 5. (* "invalid tag format" *)
Definition E_RESERVED_TAG : N := 6.      (* "cannot use reserved tag key" *)
Definition E_DUP_TAGS : N := 7.          (* "duplicate tags" *)
Definition E_MAX_KEY : N := 8.           (* "max key length exceeded" *)
Definition E_MISSING_FIELD_KEY : N := 9. (* "missing field key" *)
Definition E_MISSING_FIELD_VALUE : N := 10. (* "missing field value" *)
Definition E_INVALID_NUMBER : N := 11.   (* ErrInvalidNumber *)
Definition E_INT_RANGE : N := 12.        (* "unable to parse integer" *)
Definition E_UINT_RANGE : N := 13.       (* "unable to parse unsigned" *)
Definition E_INVALID_FLOAT : N := 14.    (* "invalid float" *)
Definition E_INVALID_BOOL : N := 15.     (* "invalid boolean" *)
Definition E_UNBALANCED : N := 16.       (* "unbalanced quotes" *)
Definition E_INVALID_FIELD_FORMAT : N := 17. (* "invalid field format" *)
Definition E_INVALID_VALUE : N := 18.    (* walkFields "invalid value: field-key=" *)
Definition E_BAD_TIMESTAMP : N := 19.    (* "bad timestamp" *)
Definition E_TS_PARSE : N := 20.         (* strconv.ParseInt error on the timestamp *)
Definition E_TIME_RANGE : N := 21.       (* ErrTimeOutOfRange *)
Definition E_INVALID_POINT : N := 22.    (* ErrInvalidPoint (trailing garbage) *)

Definition MaxKeyLength : N := 65535.
Definition MinInt64 : Z := (- 2 ^ 63)%Z.
Definition MaxInt64 : Z := (2 ^ 63 - 1)%Z.
Definition MaxUint64 : N := 2 ^ 64 - 1.
Definition MinNanoTime : Z := (MinInt64 + 2)%Z.
Definition MaxNanoTime : Z := (MaxInt64 - 1)%Z.

(** * Decimal integers (strconv.ParseInt / ParseUint / FormatInt, base 10) *)
Definition is_digit (c : N) : bool := (48 <=? c) && (c <=? 57).

Fixpoint uint_bytes (u : Decimal.uint) : bytes :=
  match u with
  | Decimal.Nil => []
  | Decimal.D0 r => 48 :: uint_bytes r | Decimal.D1 r => 49 :: uint_bytes r
  | Decimal.D2 r => 50 :: uint_bytes r | Decimal.D3 r => 51 :: uint_bytes r
  | Decimal.D4 r => 52 :: uint_bytes r | Decimal.D5 r => 53 :: uint_bytes r
  | Decimal.D6 r => 54 :: uint_bytes r | Decimal.D7 r => 55 :: uint_bytes r
  | Decimal.D8 r => 56 :: uint_bytes r | Decimal.D9 r => 57 :: uint_bytes r
  end.

Fixpoint bytes_uint (l : bytes) : option Decimal.uint :=
  match l with
  | [] => Some Decimal.Nil
  | c :: t =>
    match bytes_uint t with
    | None => None
    | Some r =>
      if c =? 48 then Some (Decimal.D0 r) else if c =? 49 then Some (Decimal.D1 r)
      else if c =? 50 then Some (Decimal.D2 r) else if c =? 51 then Some (Decimal.D3 r)
      else if c =? 52 then Some (Decimal.D4 r) else if c =? 53 then Some (Decimal.D5 r)
      else if c =? 54 then Some (Decimal.D6 r) else if c =? 55 then Some (Decimal.D7 r)
      else if c =? 56 then Some (Decimal.D8 r) else if c =? 57 then Some (Decimal.D9 r)
      else None
    end
  end.

(** FormatUint / FormatInt *)
Definition print_nat (n : N) : bytes := uint_bytes (N.to_uint n).
Definition print_int (z : Z) : bytes :=
  match z with
  | Zneg p => MINUS :: print_nat (Npos p)
  | _ => print_nat (Z.to_N z)
  end.

(** digits -> number; [None] on the empty string or a non-digit (strconv syntax error). *)
Definition parse_digits (l : bytes) : option N :=
  match l with
  | [] => None
  | _ => match bytes_uint l with Some u => Some (N.of_uint u) | None => None end
  end.

(** strconv.ParseUint(s, 10, 64): no sign allowed. *)
Definition parse_uint64 (l : bytes) : option N :=
  match parse_digits l with
  | Some n => if n <=? MaxUint64 then Some n else None
  | None => None
  end.

(** strconv.ParseInt(s, 10, 64): optional '+' or '-'. *)
Definition parse_int64 (l : bytes) : option Z :=
  match l with
  | [] => None
  | c :: t =>
    let '(neg, ds) := if c =? MINUS then (true, t) else if c =? PLUS then (false, t) else (false, l) in
    match parse_digits ds with
    | None => None
    | Some n =>
      let z := if neg then (- Z.of_N n)%Z else Z.of_N n in
      if (MinInt64 <=? z)%Z && (z <=? MaxInt64)%Z then Some z else None
    end
  end.

(** * strconv.ParseFloat(s, 64) restricted to the plain decimal grammar
      [-+]? digits [. digits] ([eE] [-+]? digits)?   (at least one mantissa digit).
    Hex floats, underscores, inf/nan never reach ParseFloat from the scanners
    (scanNumber rejects those bytes).  The result is the IEEE-754 binary64 bit
    pattern of the correctly rounded (nearest-even) value, or [None] for a syntax
    error or overflow to infinity ("value out of range"). *)
Definition span_digits := fix go (l : bytes) : bytes * bytes :=
  match l with
  | c :: t => if is_digit c then let (a, b) := go t in (c :: a, b) else ([], l)
  | [] => ([], [])
  end.

Definition digits_val (l : bytes) : N := fold_left (fun a c => a * 10 + (c - 48)) l 0.

(** position of the highest set bit + 1 *)
Definition nbits (n : N) : Z := Z.of_N (N.size n).

(** [m * 10^e], m > 0, to bits (without sign); None on overflow *)
Definition round_to_bits (m : N) (e : Z) : option N :=
  let '(num, den) := if (0 <=? e)%Z then ((Z.of_N m * 10 ^ e)%Z, 1%Z) else (Z.of_N m, (10 ^ (- e))%Z) in
  (* estimate k with 2^52 <= num / den / 2^k < 2^53 *)
  let k0 := (nbits (Z.to_N num) - nbits (Z.to_N den) - 53)%Z in
  let quo (k : Z) : Z * Z * Z := (* q, r, d with num/den/2^k = q + r/d *)
    if (0 <=? k)%Z then let d := (den * 2 ^ k)%Z in (num / d, num mod d, d)%Z
    else let n := (num * 2 ^ (- k))%Z in (n / den, n mod den, den)%Z in
  let k1 := let '(q, _, _) := quo (k0 + 1)%Z in
            if (2 ^ 52 <=? q)%Z then
              (let '(q2, _, _) := quo (k0 + 2)%Z in if (2 ^ 52 <=? q2)%Z then k0 + 2 else k0 + 1)%Z
            else k0 in
  let k := Z.max k1 (-1074) in
  let '(q, r, d) := quo k in
  let q' := (if (d <? 2 * r)%Z then q + 1
             else if (2 * r =? d)%Z then (if Z.odd q then q + 1 else q) else q)%Z in
  let '(q'', k') := if (q' =? 2 ^ 53)%Z then ((2 ^ 52)%Z, (k + 1)%Z) else (q', k) in
  if (q'' <? 2 ^ 52)%Z then Some (Z.to_N q'')                       (* subnormal or zero *)
  else if (1023 <? k' + 52)%Z then None                             (* overflow *)
  else Some (Z.to_N ((k' + 1075) * 2 ^ 52 + (q'' - 2 ^ 52))%Z).

Definition SIGN_BIT : N := 2 ^ 63.

Definition parse_float (l : bytes) : option N :=
  let '(neg, l1) := match l with
                    | c :: t => if c =? MINUS then (true, t) else if c =? PLUS then (false, t) else (false, l)
                    | [] => (false, []) end in
  let '(ip, l2) := span_digits l1 in
  let '(fp, l3) := match l2 with
                   | c :: t => if c =? DOT then span_digits t else ([], l2)
                   | [] => ([], []) end in
  match ip ++ fp with
  | [] => None
  | _ =>
    let ex : option Z :=
      match l3 with
      | [] => Some 0%Z
      | c :: t =>
        if (c =? 101) || (c =? 69) then
          let '(eneg, t1) := match t with
                             | s :: t' => if s =? MINUS then (true, t') else if s =? PLUS then (false, t') else (false, t)
                             | [] => (false, []) end in
          let '(ed, t2) := span_digits t1 in
          match ed, t2 with
          | _ :: _, [] => let v := Z.of_N (digits_val ed) in Some (if eneg then (- v)%Z else v)
          | _, _ => None
          end
        else None
      end in
    match ex with
    | None => None
    | Some e =>
      let m := digits_val (ip ++ fp) in
      let sign := if neg then SIGN_BIT else 0 in
      if m =? 0 then Some sign
      else
        let e10 := (e - Z.of_nat (length fp))%Z in
        let mag := (Z.of_nat (length (ip ++ fp)) + e10)%Z in   (* value < 10^mag *)
        if (400 <? mag)%Z then None                             (* certainly overflows *)
        else if (mag <? -400)%Z then Some sign                   (* certainly rounds to zero *)
        else match round_to_bits m e10 with
             | None => None
             | Some b => Some (sign + b)
             end
    end
  end.

(** * Scanners of models/points.go *)

(** skipWhitespace: spaces, tabs and NUL bytes. *)
Definition is_ws (c : N) : bool := (c =? SP) || (c =? TAB) || (c =? 0).
Fixpoint skip_ws (l : bytes) : bytes :=
  match l with
  | c :: t => if is_ws c then skip_ws t else l
  | [] => []
  end.
(** last whitespace byte skipped ([d] if none) — what [buf[i-1]] is afterwards *)
Fixpoint skip_ws_last (d : N) (l : bytes) : N :=
  match l with
  | c :: t => if is_ws c then skip_ws_last c t else d
  | [] => d
  end.

Definition pcons {B} (c : N) (r : bytes * B) : bytes * B := (c :: fst r, snd r).

(** scanLine(buf, i): the block and the rest of the buffer (beginning at the
    terminating newline, if any).
    QUIRK: a backslash skips the next byte only if at least TWO more bytes follow
    ([i+2 < len(buf)]), and the skipped byte may be a newline.
    QUIRK: quote tracking starts after the first unescaped space and counts '=' and
    ',' on its own. *)
Fixpoint scan_line (quoted fields : bool) (eq cm : N) (l : bytes) {struct l} : bytes * bytes :=
  match l with
  | [] => ([], [])
  | c :: t =>
    let normal := fun _ : unit =>
      let fields' := fields || (c =? SP) in
      if fields' && negb quoted && (c =? EQ) then pcons c (scan_line quoted fields' (eq + 1) cm t)
      else if fields' && negb quoted && (c =? COMMA) then pcons c (scan_line quoted fields' eq (cm + 1) t)
      else if fields' && (c =? DQ) && (cm <? eq) then pcons c (scan_line (negb quoted) fields' eq cm t)
      else if (c =? NL) && negb quoted then ([], l)
      else pcons c (scan_line quoted fields' eq cm t) in
    if c =? BSL then
      match t with
      | a :: ((_ :: _) as t2) => pcons c (pcons a (scan_line quoted fields eq cm t2))
      | _ => normal tt
      end
    else normal tt
  end.

(** The blocks visited by the loop of ParsePointsWithPrecision ([pos++] after each). *)
Fixpoint split_blocks (fuel : nat) (buf : bytes) : list bytes :=
  match fuel with
  | O => []
  | S f =>
    match buf with
    | [] => []
    | _ => let (block, rest) := scan_line false false 0 0 buf in
           block :: split_blocks f (tl rest)
    end
  end.

(** What the loop does with a block: [None] = skipped (empty, all whitespace, comment);
    [Some text] = the text handed to parsePoint (and quoted in the error). *)
Definition strip_nl (l : bytes) : bytes :=
  match frev l with
  | c :: r => if c =? NL then frev r else l
  | [] => l
  end.
Definition candidate (block : bytes) : option bytes :=
  match skip_ws block with
  | [] => None
  | (c :: _) as b => if c =? HASH then None else Some (strip_nl b)
  end.

(** scanMeasurement *)
Inductive mres := MTag (m rest : bytes) | MFld (m rest : bytes) | MNoMeas | MNoFields.
Definition mcons (c : N) (r : mres) : mres :=
  match r with MTag m rest => MTag (c :: m) rest | MFld m rest => MFld (c :: m) rest | x => x end.
Fixpoint scan_meas_loop (prev : N) (l : bytes) : mres :=
  match l with
  | [] => MNoFields
  | c :: t =>
    if prev =? BSL then mcons c (scan_meas_loop c t)
    else if c =? COMMA then MTag [] t
    else if c =? SP then MFld [] l
    else mcons c (scan_meas_loop c t)
  end.
Definition scan_meas (l : bytes) : mres :=
  match l with
  | [] => MNoMeas
  | c :: t => if c =? COMMA then MNoMeas else mcons c (scan_meas_loop c t)
  end.

(** scanTags / scanTagsKey / scanTagsValue as one state machine.  The result is the
    list of raw tag segments "key=value" ([buf[indices[j]:indices[j+1]-1]]) and the
    rest of the buffer starting at the unescaped space. *)
Inductive tstate := KFirst | KLoop | VFirst | VLoop.
Definition tres := res (list bytes * bytes).
Definition push (c : N) (r : tres) : tres :=
  match r with
  | Ok (s :: ss, rest) => Ok ((c :: s) :: ss, rest)
  | Ok ([], rest) => Ok ([[c]], rest)
  | Err e => Err e
  end.
Definition newseg (r : tres) : tres :=
  match r with Ok (ss, rest) => Ok ([] :: ss, rest) | Err e => Err e end.

Fixpoint scan_tags (st : tstate) (prev : N) (l : bytes) {struct l} : tres :=
  match st, l with
  | KFirst, [] => Err E_MISSING_TAG_KEY
  | KFirst, c :: t =>
    if (c =? SP) || (c =? COMMA) || (c =? EQ) then Err E_MISSING_TAG_KEY
    else push c (scan_tags KLoop c t)
  | KLoop, [] => Err E_MISSING_TAG_VALUE
  | KLoop, c :: t =>
    if ((c =? SP) || (c =? COMMA)) && negb (prev =? BSL) then Err E_MISSING_TAG_VALUE
    else if (c =? EQ) && negb (prev =? BSL) then push c (scan_tags VFirst c t)
    else push c (scan_tags KLoop c t)
  | VFirst, [] => Err E_MISSING_TAG_VALUE
  | VFirst, c :: t =>
    if (c =? COMMA) || (c =? SP) then Err E_MISSING_TAG_VALUE
    else push c (scan_tags VLoop c t)
  | VLoop, [] => Err E_MISSING_FIELDS
  | VLoop, c :: t =>
    if (c =? EQ) && negb (prev =? BSL) then Err E_INVALID_TAG_FORMAT
    else if (c =? COMMA) && negb (prev =? BSL) then newseg (scan_tags KFirst c t)
    else if (c =? SP) && negb (prev =? BSL) then Ok ([[]], l)
    else push c (scan_tags VLoop c t)
  end.

(** scanTo(buf, 0, stop): bytes before the first [stop] that is at index 0 or not
    preceded by a backslash; and the rest (starting at that [stop]). *)
Fixpoint scan_to_loop (stop : N) (first : bool) (prev : N) (l : bytes) : bytes * bytes :=
  match l with
  | [] => ([], [])
  | c :: t =>
    if (c =? stop) && (first || negb (prev =? BSL)) then ([], l)
    else pcons c (scan_to_loop stop false c t)
  end.
Definition scan_to (stop : N) (l : bytes) : bytes * bytes := scan_to_loop stop true 0 l.
Definition tag_key (seg : bytes) : bytes := fst (scan_to EQ seg).

Definition reserved_keys : list bytes :=
  [ [255]; [0]; [95;102;105;101;108;100] (* _field *);
    [95;109;101;97;115;117;114;101;109;101;110;116] (* _measurement *);
    [116;105;109;101] (* time *) ].
Definition is_reserved (k : bytes) : bool := existsb (bytes_eqb k) reserved_keys.

(** First pass of scanKey over adjacent tags: stops at the first descent. *)
Inductive fpres := FPSorted | FPUnsorted | FPDup.
Fixpoint first_pass (tags : list bytes) : fpres :=
  match tags with
  | a :: ((b :: _) as t) =>
    match bcompare (tag_key a) (tag_key b) with
    | Gt => FPUnsorted
    | Eq => FPDup
    | Lt => first_pass t
    end
  | _ => FPSorted
  end.

(** insertionSort on the tag indices (stable; [less] compares tag keys only). *)
Fixpoint insert_tag (x : bytes) (sorted_rev : list bytes) : list bytes :=
  (* [sorted_rev] is the already sorted prefix, last element first; move x left
     while it is strictly less than its left neighbour *)
  match sorted_rev with
  | y :: r => match bcompare (tag_key x) (tag_key y) with
              | Lt => y :: insert_tag x r
              | _ => x :: sorted_rev
              end
  | [] => [x]
  end.
Definition insertion_sort (tags : list bytes) : list bytes :=
  rev (fold_left (fun acc x => insert_tag x acc) tags []).

Fixpoint adjacent_dup (tags : list bytes) : bool :=
  match tags with
  | a :: ((b :: _) as t) => bytes_eqb (tag_key a) (tag_key b) || adjacent_dup t
  | _ => false
  end.

Definition build_key (m : bytes) (tags : list bytes) : bytes :=
  m ++ flat_map (fun t => COMMA :: t) tags.

(** scanKey: the (possibly re-sorted) series key and the rest (at the space). *)
Definition scan_key (buf : bytes) : res (bytes * bytes) :=
  match scan_meas (skip_ws buf) with
  | MNoMeas => Err E_MISSING_MEAS
  | MNoFields => Err E_MISSING_FIELDS
  | MFld m rest => Ok (m, rest)
  | MTag m rest0 =>
    match scan_tags KFirst 0 rest0 with
    | Err e => Err e
    | Ok (tags, rest) =>
      if existsb (fun t => is_reserved (tag_key t)) tags then Err E_RESERVED_TAG
      else match first_pass tags with
           | FPDup => Err E_DUP_TAGS
           | FPSorted => Ok (build_key m tags, rest)
           | FPUnsorted =>
             let st := insertion_sort tags in
             if adjacent_dup st then Err E_DUP_TAGS else Ok (build_key m st, rest)
           end
    end
  end.

(** scanNumber on the token [buf[start:i]] (bytes up to the next ',' or ' ').  The Go
    loop returns ErrInvalidNumber as soon as it meets an offending byte; the checks
    after the loop only run if the loop reached the end of the token. *)
Definition is_numeric (c : N) : bool := is_digit c || (c =? DOT).
Definition is_e (c : N) : bool := (c =? 101) || (c =? 69).

Fixpoint num_loop (first : bool) (prev : N) (isI isU dc sc : bool) (l : bytes)
  : option (bool * bool * bool * bool) :=
  match l with
  | [] => Some (isI, isU, dc, sc)
  | c :: t =>
    if (c =? 105) && negb first && negb (isI || isU) then num_loop false c true isU dc sc t
    else if (c =? 117) && negb first && negb (isI || isU) then num_loop false c isI true dc sc t
    else if (c =? DOT) && dc then None
    else
      let dc' := dc || (c =? DOT) in
      if negb first && is_e c then num_loop false c isI isU dc' true t
      else if ((c =? PLUS) || (c =? MINUS)) && is_e prev then num_loop false c isI isU dc' sc t
      else if negb (is_numeric c) then None
      else num_loop false c isI isU dc' sc t
  end.

Definition check_number (tok : bytes) : res unit :=
  let neg := match tok with c :: _ => c =? MINUS | [] => false end in
  let r := match tok with
           | c :: t => if c =? MINUS then num_loop false c false false false false t
                       else num_loop true EQ false false false false tok
           | [] => Some (false, false, false, false)
           end in
  match r with
  | None => Err E_INVALID_NUMBER
  | Some (isI, isU, dc, sc) =>
    if (isI || isU) && (dc || sc) then Err E_INVALID_NUMBER
    else
      let nd := (Z.of_nat (length tok) - (if isI then 1 else 0) - (if dc then 1 else 0)
                 - (if neg then 1 else 0))%Z in
      if (nd =? 0)%Z then Err E_INVALID_NUMBER
      else
        let lastc := last tok 0 in
        let body := removelast tok in
        if isI then
          if negb (lastc =? 105) then Err E_INVALID_NUMBER
          else if (19 <=? blen body) then
            match parse_int64 body with Some _ => Ok tt | None => Err E_INT_RANGE end
          else Ok tt
        else if isU then
          if negb (lastc =? 117) then Err E_INVALID_NUMBER
          else if neg then Err E_INVALID_NUMBER
          else if (20 <=? blen body) then
            match parse_uint64 body with Some _ => Ok tt | None => Err E_UINT_RANGE end
          else Ok tt
        else
          if sc || (25 <=? blen tok) then
            match parse_float tok with Some _ => Ok tt | None => Err E_INVALID_FLOAT end
          else Ok tt
  end.

(** scanBoolean on the token. *)
Definition B_true : bytes := [116;114;117;101].      Definition B_True : bytes := [84;114;117;101].
Definition B_TRUE : bytes := [84;82;85;69].          Definition B_false : bytes := [102;97;108;115;101].
Definition B_False : bytes := [70;97;108;115;101].   Definition B_FALSE : bytes := [70;65;76;83;69].

Definition check_bool (tok : bytes) : res unit :=
  match tok with
  | [] => Err E_INVALID_BOOL
  | c :: t =>
    if negb ((c =? 116) || (c =? 102) || (c =? 84) || (c =? 70)) then Err E_INVALID_BOOL
    else match t with
         | [] => Ok tt
         | _ =>
           if bytes_eqb tok B_true || bytes_eqb tok B_false || bytes_eqb tok B_TRUE
              || bytes_eqb tok B_True || bytes_eqb tok B_FALSE || bytes_eqb tok B_False
           then Ok tt else Err E_INVALID_BOOL
         end
  end.

Definition check_token (isnum : bool) (tok : bytes) : res unit :=
  if isnum then check_number tok else check_bool tok.

(** scanFields.  [FTok] = inside scanNumber/scanBoolean (they scan raw bytes to the
    next ',' or ' '); the token is validated when its end is reached, and the byte
    that ended it is then treated as the main loop treats it. [p1], [p2] = buf[i-1],
    buf[i-2]. *)
Inductive fmode := FNorm | FTok (isnum : bool) (racc : bytes).
Definition fres := res (bytes * bytes).
Definition fcons (c : N) (r : fres) : fres :=
  match r with Ok (a, rest) => Ok (c :: a, rest) | Err e => Err e end.

Definition fields_fin (quoted : bool) (eq cm : N) (rest : bytes) : fres :=
  if quoted then Err E_UNBALANCED
  else if (eq =? 0) || negb (cm =? eq - 1) then Err E_INVALID_FIELD_FORMAT
  else Ok ([], rest).

Definition num_start (c : N) : bool := is_numeric c || (c =? MINUS) || (c =? 78) || (c =? 110).

Fixpoint scan_fields_st (m : fmode) (quoted : bool) (eq cm : N) (p1 p2 : N) (l : bytes) {struct l} : fres :=
  match m with
  | FTok isnum racc =>
    match l with
    | [] => match check_token isnum (frev racc) with
            | Err e => Err e
            | Ok _ => fields_fin false eq cm []
            end
    | c :: t =>
      if (c =? COMMA) || (c =? SP) then
        match check_token isnum (frev racc) with
        | Err e => Err e
        | Ok _ =>
          if c =? COMMA then fcons c (scan_fields_st FNorm false eq (cm + 1) c (hd 0 racc) t)
          else fields_fin false eq cm l
        end
      else fcons c (scan_fields_st (FTok isnum (c :: racc)) false eq cm c p1 t)
    end
  | FNorm =>
    match l with
    | [] => fields_fin quoted eq cm []
    | c :: t =>
      let other := fun _ : unit =>
        if (c =? DQ) && (cm <? eq) then fcons c (scan_fields_st FNorm (negb quoted) eq cm c p1 t)
        else if (c =? EQ) && negb quoted then
          if (p1 =? SP) && negb (p2 =? BSL) then Err E_MISSING_FIELD_KEY
          else if (p1 =? COMMA) && negb (p2 =? BSL) then Err E_MISSING_FIELD_KEY
          else match t with
               | [] => Err E_MISSING_FIELD_VALUE
               | n :: _ =>
                 if (n =? COMMA) || (n =? SP) then Err E_MISSING_FIELD_VALUE
                 else if num_start n then fcons c (scan_fields_st (FTok true []) false (eq + 1) cm c p1 t)
                 else if negb (n =? DQ) then fcons c (scan_fields_st (FTok false []) false (eq + 1) cm c p1 t)
                 else fcons c (scan_fields_st FNorm false (eq + 1) cm c p1 t)
               end
        else if (c =? COMMA) && negb quoted then fcons c (scan_fields_st FNorm quoted eq (cm + 1) c p1 t)
        else if (c =? SP) && negb quoted then fields_fin quoted eq cm l
        else fcons c (scan_fields_st FNorm quoted eq cm c p1 t) in
      if c =? BSL then
        match t with
        | a :: t2 => fcons c (fcons a (scan_fields_st FNorm quoted eq cm a c t2))
        | [] => other tt
        end
      else other tt
    end
  end.

(** scanFields(buf, pos) with buf[pos] the unescaped space that ended the key: at the
    first byte after the skipped whitespace, buf[i-1] is the last whitespace byte and
    buf[i-2] is whitespace or the last byte of the key, which is never a backslash
    (the space would have been escaped). *)
Definition scan_fields (rest : bytes) : fres :=
  (* an '=' that is the very first byte of the fields section ([i == start]) has no key,
     whatever whitespace byte (space, TAB, NUL) was skipped before it *)
  if match skip_ws rest with c :: _ => c =? EQ | [] => false end then Err E_MISSING_FIELD_KEY
  else scan_fields_st FNorm false 0 0 (skip_ws_last 0 rest) 0 (skip_ws rest).

(** walkFields: split the raw fields into (raw key, raw value) with scanTo('=') and
    scanFieldValue, checking "invalid value" and the series-key size per field. *)
Inductive wmode := WKey (first : bool) (prev : N) (n : N) | WVal (quoted : bool).
Definition wres := res (list (bytes * bytes)).
Definition pushk (c : N) (r : wres) : wres :=
  match r with
  | Ok ((k, v) :: ps) => Ok ((c :: k, v) :: ps)
  | Ok [] => Ok [([c], [])]
  | Err e => Err e
  end.
Definition pushv (c : N) (r : wres) : wres :=
  match r with
  | Ok ((k, v) :: ps) => Ok ((k, c :: v) :: ps)
  | Ok [] => Ok [([], [c])]
  | Err e => Err e
  end.
Definition newpair (r : wres) : wres :=
  match r with Ok ps => Ok (([], []) :: ps) | Err e => Err e end.

Fixpoint split_fields_st (klen : N) (m : wmode) (l : bytes) {struct l} : wres :=
  match m with
  | WKey first prev n =>
    match l with
    | [] => Err E_INVALID_VALUE
    | c :: t =>
      if (c =? EQ) && (first || negb (prev =? BSL)) then
        match t with
        | [] => Err E_INVALID_VALUE
        | _ => if MaxKeyLength <? klen + 4 + n then Err E_MAX_KEY
               else split_fields_st klen (WVal false) t
        end
      else pushk c (split_fields_st klen (WKey false c (n + 1)) t)
    end
  | WVal quoted =>
    match l with
    | [] => Ok [([], [])]
    | c :: t =>
      let other := fun _ : unit =>
        if c =? DQ then pushv c (split_fields_st klen (WVal (negb quoted)) t)
        else if (c =? COMMA) && negb quoted then
          match t with
          | [] => Ok [([], [])]
          | _ => newpair (split_fields_st klen (WKey true 0 0) t)
          end
        else pushv c (split_fields_st klen (WVal quoted) t) in
      if c =? BSL then
        match t with
        | a :: t2 => if (a =? DQ) || (a =? BSL)
                     then pushv c (pushv a (split_fields_st klen (WVal quoted) t2))
                     else other tt
        | [] => other tt
        end
      else other tt
    end
  end.
Definition split_fields (klen : N) (fields : bytes) : wres :=
  match fields with
  | [] => Ok []
  | _ => split_fields_st klen (WKey true 0 0) fields
  end.

(** scanTime *)
Fixpoint scan_time_loop (first : bool) (l : bytes) : fres :=
  match l with
  | [] => Ok ([], [])
  | c :: t =>
    if (c =? NL) || (c =? SP) then Ok ([], l)
    else if first && (c =? MINUS) then fcons c (scan_time_loop false t)
    else if negb (is_digit c) then Err E_BAD_TIMESTAMP
    else fcons c (scan_time_loop false t)
  end.
Definition scan_time (rest : bytes) : fres := scan_time_loop true (skip_ws rest).

(** * Precision, SafeCalcTime, SetPrecision *)
Inductive precision := P_ns | P_n | P_us | P_u | P_ms | P_s | P_m | P_h | P_other.
(** GetPrecisionMultiplier.  QUIRK: "u" is not known here (multiplier 1) although
    SetPrecision truncates to microseconds for it. *)
Definition prec_mult (p : precision) : Z :=
  match p with P_us => 1000 | P_ms => 1000000 | P_s => 1000000000 | _ => 1 end%Z.
Definition prec_trunc (p : precision) : Z :=
  match p with
  | P_us | P_u => 1000 | P_ms => 1000000 | P_s => 1000000000
  | P_m => 60000000000 | P_h => 3600000000000 | _ => 1
  end%Z.
Definition wrap64 (z : Z) : Z := ((z + 2 ^ 63) mod 2 ^ 64 - 2 ^ 63)%Z.
Definition safe_signed_mult (a b : Z) : option Z :=
  if (a =? 0)%Z || (b =? 0)%Z || (a =? 1)%Z || (b =? 1)%Z then Some (a * b)%Z
  else if (a =? MinNanoTime)%Z || (b =? MaxNanoTime)%Z then None
  else let c := wrap64 (a * b) in if (Z.quot c b =? a)%Z then Some c else None.
Definition time_ok (t : Z) : bool := (MinNanoTime <=? t)%Z && (t <=? MaxNanoTime)%Z.
Definition safe_calc_time (ts : Z) (p : precision) : option Z :=
  match safe_signed_mult ts (prec_mult p) with
  | Some t => if time_ok t then Some t else None
  | None => None
  end.
(** time.Truncate on a Unix time: floor to a multiple of d (the zero Time is a whole
    number of hours before the Unix epoch). *)
(** (UnixNano() of the truncated time wraps if the floor falls below MinInt64.) *)
Definition trunc_time (t : Z) (p : precision) : Z := wrap64 (t - t mod prec_trunc p)%Z.

(** * parsePoint *)
Record rawpoint := { rp_key : bytes; rp_fields : bytes; rp_time : Z }.

Definition parse_point (prec : precision) (dflt : Z) (buf : bytes) : res rawpoint :=
  match scan_key buf with
  | Err e => Err e
  | Ok (key, r1) =>
    match key with
    | [] => Err E_MISSING_MEAS
    | _ =>
      if MaxKeyLength <? blen key then Err E_MAX_KEY
      else match scan_fields r1 with
           | Err e => Err e
           | Ok (fields, r2) =>
             match fields with
             | [] => Err E_MISSING_FIELDS
             | _ =>
               match split_fields (blen key) fields with
               | Err e => Err e
               | Ok _ =>
                 match scan_time r2 with
                 | Err e => Err e
                 | Ok (ts, r3) =>
                   match ts with
                   | [] => Ok {| rp_key := key; rp_fields := fields; rp_time := trunc_time dflt prec |}
                   | _ =>
                     match parse_int64 ts with
                     | None => Err E_TS_PARSE
                     | Some v =>
                       match safe_calc_time v prec with
                       | None => Err E_TIME_RANGE
                       | Some t =>
                         if forallb (N.eqb SP) r3
                         then Ok {| rp_key := key; rp_fields := fields; rp_time := t |}
                         else Err E_INVALID_POINT
                       end
                     end
                   end
                 end
               end
             end
           end
    end
  end.

(** * ParsePointsWithPrecision: accepted points and rejected lines (text + class), in order. *)
Fixpoint parse_lines (prec : precision) (dflt : Z) (lines : list bytes)
  : list rawpoint * list (bytes * N) :=
  match lines with
  | [] => ([], [])
  | t :: r =>
    let (ps, es) := parse_lines prec dflt r in
    match parse_point prec dflt t with
    | Ok p => (p :: ps, es)
    | Err e => (ps, (t, e) :: es)
    end
  end.

Fixpoint filter_some {A} (l : list (option A)) : list A :=
  match l with [] => [] | Some a :: r => a :: filter_some r | None :: r => filter_some r end.

Definition candidate_lines (buf : bytes) : list bytes :=
  filter_some (map candidate (split_blocks (S (length buf)) buf)).

Definition parse_points (prec : precision) (dflt : Z) (buf : bytes) : list rawpoint * list (bytes * N) :=
  parse_lines prec dflt (candidate_lines buf).

(** * Views of a point: Name(), Tags(), FieldIterator *)

(** bytes.Replace(in, [a;b], [r], -1) and bytes.Replace(in, [k], [\;k], -1) *)
Fixpoint replace2 (a b r : N) (l : bytes) : bytes :=
  match l with
  | x :: ((y :: t) as l') => if (x =? a) && (y =? b) then r :: replace2 a b r t else x :: replace2 a b r l'
  | _ => l
  end.
Definition escape1 (k : N) (l : bytes) : bytes :=
  flat_map (fun c => if c =? k then [BSL; c] else [c]) l.

Definition escape_meas (l : bytes) : bytes := escape1 SP (escape1 COMMA l).
Definition unescape_meas (l : bytes) : bytes := replace2 BSL SP SP (replace2 BSL COMMA COMMA l).
Definition escape_tag (l : bytes) : bytes := escape1 EQ (escape1 SP (escape1 COMMA l)).
Definition unescape_tag (l : bytes) : bytes :=
  replace2 BSL EQ EQ (replace2 BSL SP SP (replace2 BSL COMMA COMMA l)).

(** pkg/escape: Codes = comma, double quote, space, equals  *)
Definition is_esc_char (c : N) : bool := (c =? COMMA) || (c =? DQ) || (c =? SP) || (c =? EQ).
(** escape.String *)
Definition escape_string (l : bytes) : bytes :=
  flat_map (fun c => if is_esc_char c then [BSL; c] else [c]) l.
(** escape.Unescape / escape.AppendUnescaped: drop every backslash that is
    immediately followed by one of comma, double quote, space, equals *)
Fixpoint unescape4 (l : bytes) : bytes :=
  match l with
  | c :: t =>
    if c =? BSL then
      match t with
      | a :: t2 => if is_esc_char a then a :: unescape4 t2 else c :: unescape4 t
      | [] => [c]
      end
    else c :: unescape4 t
  | [] => []
  end.

(** EscapeStringField / unescapeStringField *)
Definition escape_string_field (l : bytes) : bytes :=
  flat_map (fun c => if (c =? DQ) || (c =? BSL) then [BSL; c] else [c]) l.
Fixpoint unescape_string_field (l : bytes) : bytes :=
  match l with
  | c :: t =>
    if c =? BSL then
      match t with
      | a :: t2 => if (a =? BSL) || (a =? DQ) then a :: unescape_string_field t2
                   else c :: unescape_string_field t
      | [] => [c]
      end
    else c :: unescape_string_field t
  | [] => []
  end.

(** point.Name() *)
Definition name_of (key : bytes) : bytes := unescape4 (fst (scan_to COMMA key)).

(** walkTags.  [TK]: scanning a tag key with scanTo('='), [TV]: a value with
    scanTagValue.  QUIRK: after an empty value the loop `continue`s WITHOUT skipping
    the comma, so the next key starts with that comma. *)
Inductive wtmode := TK (first : bool) (prev : N) (rk : bytes) | TV (prev : N) (k : bytes) (rv : bytes).
Fixpoint walk_tags_st (m : wtmode) (l : bytes) {struct l} : list (bytes * bytes) :=
  match m with
  | TK first prev rk =>
    match l with
    | [] => []   (* no '=': scanTagValue(buf, len+1) returns nil; loop ends *)
    | c :: t =>
      if (c =? EQ) && (first || negb (prev =? BSL)) then walk_tags_st (TV c (frev rk) []) t
      else walk_tags_st (TK false c (c :: rk)) t
    end
  | TV prev k rv =>
    match l with
    | [] => match rv with [] => [] | _ => [(unescape_tag k, unescape_tag (frev rv))] end
    | c :: t =>
      if (c =? COMMA) && negb (prev =? BSL) then
        match rv with
        | [] => walk_tags_st (TK false c [c]) t
        | _ => (unescape_tag k, unescape_tag (frev rv)) :: walk_tags_st (TK false c []) t
        end
      else walk_tags_st (TV c k (c :: rv)) t
    end
  end.
Definition walk_tags (key : bytes) : list (bytes * bytes) :=
  match key with
  | [] => []
  | _ => let (name, rest) := scan_to COMMA key in
         match name, rest with
         | [], _ => []
         | _, [] => []
         | _, _ :: t => walk_tags_st (TK false COMMA []) t
         end
  end.

(** Field values as the iterator types them. *)
Inductive fval :=
| VInt (z : Z) | VUint (n : N) | VFloat (bits : N) | VBool (b : bool) | VStr (s : bytes)
| VEmpty | VErr (ty : N).

Definition fval_eqb (a b : fval) : bool :=
  match a, b with
  | VInt x, VInt y => Z.eqb x y
  | VUint x, VUint y => N.eqb x y
  | VFloat x, VFloat y => N.eqb x y
  | VBool x, VBool y => Bool.eqb x y
  | VStr x, VStr y => bytes_eqb x y
  | VEmpty, VEmpty => true
  | VErr x, VErr y => N.eqb x y
  | _, _ => false
  end.

(** strconv.ParseBool *)
Definition parse_bool (l : bytes) : option bool :=
  if bytes_eqb l [49] || bytes_eqb l [116] || bytes_eqb l [84] || bytes_eqb l B_TRUE
     || bytes_eqb l B_true || bytes_eqb l B_True then Some true
  else if bytes_eqb l [48] || bytes_eqb l [102] || bytes_eqb l [70] || bytes_eqb l B_FALSE
          || bytes_eqb l B_false || bytes_eqb l B_False then Some false
  else None.

Definition num_type_start (c : N) : bool :=   (* strings.IndexByte(`0123456789-.nNiIu`, c) >= 0 *)
  is_digit c || (c =? MINUS) || (c =? DOT) || (c =? 110) || (c =? 78) || (c =? 105) || (c =? 73) || (c =? 117).

(** point.Next() typing + the typed accessor for that type. *)
Definition field_value (v : bytes) : fval :=
  match v with
  | [] => VEmpty
  | c :: _ =>
    if c =? DQ then
      (* StringValue(): "" when the value is a lone double quote (len < 2), else valueBuf[1:len-1] *)
      match tl v with
      | [] => VStr []
      | _ => VStr (unescape_string_field (removelast (tl v)))
      end
    else if num_type_start c then
      let lastc := last v 0 in
      if lastc =? 105 then match parse_int64 (removelast v) with Some z => VInt z | None => VErr 0 end
      else if lastc =? 117 then match parse_uint64 (removelast v) with Some n => VUint n | None => VErr 5 end
      else match parse_float v with Some b => VFloat b | None => VErr 1 end
    else match parse_bool v with Some b => VBool b | None => VErr 2 end
  end.

Definition fields_of (fields : bytes) : list (bytes * fval) :=
  match split_fields 0 fields with
  | Ok ps => map (fun kv => (unescape4 (fst kv), field_value (snd kv))) ps
  | Err _ => []
  end.

Record pview := { v_key : bytes; v_name : bytes; v_tags : list (bytes * bytes);
                  v_fields : list (bytes * fval); v_time : Z }.
Definition view (p : rawpoint) : pview :=
  {| v_key := rp_key p; v_name := name_of (rp_key p); v_tags := walk_tags (rp_key p);
     v_fields := fields_of (rp_fields p); v_time := rp_time p |}.

Definition tag_eqb (a b : bytes * bytes) : bool := bytes_eqb (fst a) (fst b) && bytes_eqb (snd a) (snd b).
Definition field_eqb (a b : bytes * fval) : bool := bytes_eqb (fst a) (fst b) && fval_eqb (snd a) (snd b).
Definition pview_eqb (a b : pview) : bool :=
  bytes_eqb (v_key a) (v_key b) && bytes_eqb (v_name a) (v_name b)
  && list_eqb tag_eqb (v_tags a) (v_tags b) && list_eqb field_eqb (v_fields a) (v_fields b)
  && Z.eqb (v_time a) (v_time b).

(** * Series keys: MakeKey / ParseKeyBytes *)
(** Tags.AppendHashKey(dst, true): empty-valued tags are skipped. *)
Definition hash_key (tags : list (bytes * bytes)) : bytes :=
  flat_map (fun kv => match escape_tag (snd kv) with
                      | [] => []
                      | v => COMMA :: escape_tag (fst kv) ++ EQ :: v
                      end) tags.
(** QUIRK: the name is unescaped first ("to avoid double escaping"). *)
Definition make_key (name : bytes) (tags : list (bytes * bytes)) : bytes :=
  escape_meas (unescape_meas name) ++ hash_key tags.

Definition parse_key (buf : bytes) : bytes * list (bytes * bytes) :=
  match scan_meas buf with
  | MTag m _ => (unescape_meas m, walk_tags buf)
  | MFld m _ => (unescape_meas m, [])
  | MNoMeas => ([], [])
  | MNoFields => (unescape_meas buf, [])
  end.

(** * The printer: NewPoint, Fields.MarshalBinary, String / PrecisionString *)
Record apoint := { a_name : bytes; a_tags : list (bytes * bytes);
                   a_fields : list (bytes * fval); a_time : option Z }.

Section Printer.
  (** strconv.AppendFloat(v, 'f', -1, 64) is not re-implemented: it is a parameter
      (bit pattern -> text). *)
  Variable pf : N -> bytes.

  Definition print_value (v : fval) : bytes :=
    match v with
    | VInt z => print_int z ++ [105]
    | VUint n => print_nat n ++ [117]
    | VFloat b => pf b
    | VBool true => B_true
    | VBool false => B_false
    | VStr s => DQ :: escape_string_field s ++ [DQ]
    | _ => []
    end.

  Fixpoint print_fields (fs : list (bytes * fval)) : bytes :=
    match fs with
    | [] => []
    | [(k, v)] => escape_string k ++ EQ :: print_value v
    | (k, v) :: r => escape_string k ++ EQ :: print_value v ++ COMMA :: print_fields r
    end.

  (** point.PrecisionString(prec) (= String() for ns): UnixNano()/mult, Go's
      truncating division. *)
  Definition print_point (prec : precision) (p : apoint) : bytes :=
    make_key (a_name p) (a_tags p) ++ SP :: print_fields (a_fields p)
    ++ match a_time p with
       | None => []
       | Some t => SP :: print_int (Z.quot t (prec_mult prec))
       end.
End Printer.

Definition float_is_finite (b : N) : bool := negb ((b / 2 ^ 52) mod 2048 =? 2047).

(** NewPoint / pointKey validation (fields come from a Go map: the list is the
    sorted, duplicate-free enumeration that Fields.MarshalBinary produces). *)
Definition new_point_ok (p : apoint) : bool :=
  negb (match a_fields p with [] => true | _ => false end)
  && match a_time p with Some t => time_ok t | None => true end
  && forallb (fun kv => match snd kv with VFloat b => float_is_finite b | _ => true end
                        && negb (match fst kv with [] => true | _ => false end)) (a_fields p)
  && forallb (fun kv => blen (make_key (a_name p) (a_tags p)) + 4 + blen (fst kv) <=? MaxKeyLength)
             (a_fields p).

(** * The guard of the round-trip theorems.
    NewPoint performs no validation of the tokens; the printer does not escape
    backslashes.  [valid] = what NewPoint enforces + representation invariants of the Go
    types (tags sorted by key without duplicates; fields a map) + the GUARD. *)

(** no backslash immediately before one of [stops], and no trailing backslash *)
Fixpoint bsl_safe (stops : N -> bool) (l : bytes) : bool :=
  match l with
  | c :: t => (if c =? BSL then match t with a :: _ => negb (stops a) | [] => false end else true)
              && bsl_safe stops t
  | [] => true
  end.
Definition is_meas_stop (c : N) : bool := (c =? COMMA) || (c =? SP).
Definition is_tag_stop (c : N) : bool := (c =? COMMA) || (c =? SP) || (c =? EQ).

Definition no_nl (l : bytes) : bool := forallb (fun c => negb (c =? NL)) l.
Definition nonempty (l : bytes) : bool := match l with [] => false | _ => true end.

Fixpoint strictly_sorted (ks : list bytes) : bool :=
  match ks with
  | a :: ((b :: _) as t) => match bcompare a b with Lt => strictly_sorted t | _ => false end
  | _ => true
  end.

(** name: non-empty, does not start like a comment or with skipped whitespace, no
    newline, backslash-safe w.r.t. comma, double quote, space, equals (Name() unescapes all four) *)
Definition name_ok (n : bytes) : bool :=
  match n with
  | [] => false
  | c :: _ => negb ((c =? HASH) || (c =? TAB) || (c =? 0))
  end && no_nl n && bsl_safe is_esc_char n.
Definition tagtok_ok (s : bytes) : bool := nonempty s && no_nl s && bsl_safe is_tag_stop s.
Definition tags_ok (ts : list (bytes * bytes)) : bool :=
  forallb (fun kv => tagtok_ok (fst kv) && tagtok_ok (snd kv) && negb (is_reserved (fst kv))) ts
  && strictly_sorted (map fst ts)
  && strictly_sorted (map (fun kv => escape_tag (fst kv)) ts).
Definition fieldkey_ok (k : bytes) : bool := nonempty k && no_nl k && bsl_safe is_esc_char k.

Definition value_ok (pf : N -> bytes) (v : fval) : bool :=
  match v with
  | VInt z => (MinInt64 <=? z)%Z && (z <=? MaxInt64)%Z
  | VUint n => n <=? MaxUint64
  | VFloat b =>
    (* hypothesis on the external float printer, in executable form *)
    let t := pf b in
    float_is_finite b
    && match t with c :: _ => is_numeric c || (c =? MINUS) | [] => false end
    && forallb (fun c => is_digit c || (c =? DOT) || (c =? MINUS)) t
    && match check_number t with Ok _ => true | Err _ => false end
    && match field_value t with VFloat b' => b' =? b | _ => false end
  | VBool _ => true
  | VStr _ => true
  | _ => false
  end.

Definition fields_ok (pf : N -> bytes) (fs : list (bytes * fval)) : bool :=
  negb (match fs with [] => true | _ => false end)
  && forallb (fun kv => fieldkey_ok (fst kv) && value_ok pf (snd kv)) fs
  && strictly_sorted (map fst fs)
  && match fs with (c :: _, _) :: _ => negb ((c =? TAB) || (c =? 0)) | _ => true end.

Definition valid (pf : N -> bytes) (prec : precision) (p : apoint) : bool :=
  new_point_ok p && name_ok (a_name p) && tags_ok (a_tags p) && fields_ok pf (a_fields p)
  (* NewPoint checks the size limit on the UNESCAPED field key, parsePoint on the escaped one *)
  && forallb (fun kv => blen (make_key (a_name p) (a_tags p)) + 4 + blen (escape_string (fst kv)) <=? MaxKeyLength)
             (a_fields p)
  && match a_time p with
     | Some t => (t mod prec_mult prec =? 0)%Z
     | None => true
     end.

(** the point the parser should return for [p] *)
Definition expected_view_fields (p : apoint) := a_fields p.
Definition expected_time (prec : precision) (dflt : Z) (p : apoint) : Z :=
  match a_time p with
  | Some t => (Z.quot t (prec_mult prec) * prec_mult prec)%Z   (* = t for valid points *)
  | None => trunc_time dflt prec
  end.

(** guard of the key round trip *)
Definition key_name_ok (n : bytes) : bool := nonempty n && bsl_safe is_meas_stop n.
Definition key_tags_ok (ts : list (bytes * bytes)) : bool :=
  forallb (fun kv => nonempty (snd kv) && bsl_safe is_tag_stop (fst kv) && bsl_safe is_tag_stop (snd kv)) ts.

(** * Correspondence case for C11 *)
Definition prec_of_code (c : N) : precision :=
  match c with
  | 0 => P_ns | 1 => P_n | 2 => P_us | 3 => P_u | 4 => P_ms | 5 => P_s | 6 => P_m | 7 => P_h
  | _ => P_other
  end.

Record spview := { sv_key : list seg; sv_name : list seg; sv_tags : list (list seg * list seg);
                   sv_fields : list (list seg * fval); sv_time : Z }.
Definition un_spview (s : spview) : pview :=
  {| v_key := expand (sv_key s); v_name := expand (sv_name s);
     v_tags := map (fun kv => (expand (fst kv), expand (snd kv))) (sv_tags s);
     v_fields := map (fun kv => (expand (fst kv), snd kv)) (sv_fields s); v_time := sv_time s |}.

Record case := {
  k_pt : apoint; k_prec : N; k_dflt : Z;
  k_ftab : list (N * bytes);          (* Go's AppendFloat text of every float value of the point *)
  k_np_ok : bool;                     (* NewPoint returned no error *)
  k_printed : bytes;                  (* String() / PrecisionString(prec) *)
  k_points : list spview;             (* ParsePointsWithPrecision(printed, dflt, prec) *)
  k_rejected : list bytes;            (* ... lines named in its error *)
  k_key : bytes;                      (* MakeKey(name, tags) *)
  k_pk_name : bytes; k_pk_tags : list (bytes * bytes)   (* ParseKeyBytes(MakeKey ...) *)
}.

Definition ftab_lookup (tab : list (N * bytes)) (b : N) : bytes :=
  match find (fun e => fst e =? b) tab with Some e => snd e | None => [] end.

Definition check (c : case) : verdict :=
  let p := k_pt c in
  let prec := prec_of_code (k_prec c) in
  let pf := ftab_lookup (k_ftab c) in
  let pts := map un_spview (k_points c) in
  let m_ok := new_point_ok p in
  let m_printed := print_point pf prec p in
  let '(m_pts, m_errs) := parse_points prec (k_dflt c) (k_printed c) in
  let m_key := make_key (a_name p) (a_tags p) in
  let '(m_pkn, m_pkt) := parse_key (k_key c) in
  let same_key :=
      bytes_eqb (k_key c) m_key && bytes_eqb (k_pk_name c) m_pkn
      && list_eqb tag_eqb (k_pk_tags c) m_pkt in
  let same :=
      Bool.eqb (k_np_ok c) m_ok && same_key
      && (if k_np_ok c then
            bytes_eqb (k_printed c) m_printed
            && list_eqb pview_eqb pts (map view m_pts)
            && list_eqb bytes_eqb (k_rejected c) (map fst m_errs)
          else true) in
  (* oracle: the round trips, stated directly on the implementation's outputs *)
  let lp_ok :=
      match pts, k_rejected c with
      | [q], [] =>
        bytes_eqb (v_name q) (a_name p)
        && list_eqb tag_eqb (v_tags q) (a_tags p)
        && list_eqb field_eqb (v_fields q) (a_fields p)
        && Z.eqb (v_time q) (expected_time prec (k_dflt c) p)
      | _, _ => false
      end in
  let key_ok := bytes_eqb (k_pk_name c) (a_name p) && list_eqb tag_eqb (k_pk_tags c) (a_tags p) in
  let ok := if k_np_ok c then lp_ok && key_ok else true in
  judge same ok.
