(** C08 — TSM files and tombstones read back what was written: the correspondence judge.
    The models are in [Model/C08_File.v] (bytes) and [Model/C08_Index.v] (parsed index, deletes).
    This file holds the independent oracles (specifications) and [check]. No proofs here. *)
From Verif Require Import Base.Prelude Base.C08_BE Model.C08_File Model.C08_Index.

(** byte strings in case terms: 8-byte big-endian words, the last one of [lastn] bytes *)
Fixpoint hx_aux (n : nat) (v : N) (acc : bytes) : bytes :=
  match n with O => acc | S n' => hx_aux n' (N.shiftr v 8) (N.land v 255 :: acc) end.
Fixpoint hb (ws : list N) (lastn : nat) : bytes :=
  match ws with
  | [] => []
  | [w] => hx_aux lastn w []
  | w :: r => hx_aux 8 w [] ++ hb r lastn
  end.

(** ** Specifications over the written content [all] (linear scans, no binary search, no merge walk) *)
Definition sp_find (all : list ikey) (k : key) : option ikey := find (fun ik => keqb (ik_key ik) k) all.
Definition sp_entries all k : list entry := match sp_find all k with Some ik => ik_ents ik | None => [] end.
Definition sp_seek (all : list ikey) (k : key) : N := N.of_nat (length (filter (fun ik => kltb (ik_key ik) k) all)).
Definition all_entries (all : list ikey) : list entry := flat_map ik_ents all.
Definition sp_min_time all : Z := fold_left (fun m e => Z.min m (emin e)) (all_entries all) MaxInt64.
Definition sp_max_time all : Z := fold_left (fun m e => Z.max m (emax e)) (all_entries all) MinInt64.
Definition sp_min_key (all : list ikey) : key :=
  match all with [] => [] | ik :: r => fold_left (fun m x => if kltb (ik_key x) m then ik_key x else m) r (ik_key ik) end.
Definition sp_max_key (all : list ikey) : key :=
  match all with [] => [] | ik :: r => fold_left (fun m x => if kltb m (ik_key x) then ik_key x else m) r (ik_key ik) end.

Definition del := (list key * Z * Z)%type.
Definition kmem (k : key) (ks : list key) : bool := existsb (keqb k) ks.
Definition deleted (hist : list del) (k : key) (t : Z) : bool :=
  existsb (fun d => kmem k (fst (fst d)) && (snd (fst d) <=? t)%Z && (t <=? snd d)%Z) hist.
(** a point (k,t) is visible: some block of k written to the file spans t and no delete covers it *)
Definition sp_visible (all : list ikey) (hist : list del) (k : key) (t : Z) : bool :=
  existsb (fun e => e_contains e t) (sp_entries all k) && negb (deleted hist k t).
Definition sp_read_all (pts : list (N * list Z)) (all : list ikey) (hist : list del) (k : key) : list Z :=
  flat_map (fun e => filter (fun t => negb (deleted hist k t)) (pts_of pts (eoff e))) (sp_entries all k).

(** ** Operations on an open reader, with the implementation's observed results *)
Inductive op :=
| ODeleteRange (ks : list key) (lo hi : Z)
| ODelete (ks : list key)
| OReopen
| QContains (k : key) (r : bool)
| QContainsValue (k : key) (t : Z) (r : bool)
| QSeek (k : key) (r : N)
| QKeyAt (i : Z) (r : option (key * N))
| QEntries (k : key) (r : list entry)
| QEntry (k : key) (t : Z) (r : option entry)
| QType (k : key) (r : option N)
| QKeyCount (r : N)
| QTimeRange (mn mx : Z)
| QKeyRange (a b : key)
| QOverlapsTime (lo hi : Z) (r : bool)
| QOverlapsKey (a b : key) (r : bool)
| QTombRange (k : key) (r : list trange)
| QHasTomb (r : bool)
| QReadAll (k : key) (r : list Z)
| QTombFile (r : list trec).

Definition zz_eqb (a b : Z * Z) : bool := Z.eqb (fst a) (fst b) && Z.eqb (snd a) (snd b).
Definition kt_eqb (a b : key * N) : bool := bytes_eqb (fst a) (fst b) && N.eqb (snd a) (snd b).

(** model answer = implementation answer *)
Definition q_same (pts : list (N * list Z)) (s : rstate) (o : op) : bool :=
  let ix := r_ix s in
  match o with
  | QContains k r => Bool.eqb r (contains ix k)
  | QContainsValue k t r => Bool.eqb r (contains_value ix k t)
  | QSeek k r => N.eqb r (N.of_nat (search_offset (ix_keys ix) k))
  | QKeyAt i r => option_eqb kt_eqb r (key_at ix i)
  | QEntries k r => list_eqb entry_eqb r (entries ix k)
  | QEntry k t r => option_eqb entry_eqb r (entry_at ix k t)
  | QType k r => option_eqb N.eqb r (type_of ix k)
  | QKeyCount r => N.eqb r (key_count ix)
  | QTimeRange mn mx => Z.eqb mn (ix_mintime ix) && Z.eqb mx (ix_maxtime ix)
  | QKeyRange a b => bytes_eqb a (ix_minkey ix) && bytes_eqb b (ix_maxkey ix)
  | QOverlapsTime lo hi r => Bool.eqb r (overlaps_time ix lo hi)
  | QOverlapsKey a b r => Bool.eqb r (overlaps_key ix a b)
  | QTombRange k r => list_eqb zz_eqb r (tomb_get k (ix_tombs ix))
  | QHasTomb r => Bool.eqb r (has_tombstones s)
  | QReadAll k r => list_eqb Z.eqb r (read_all pts ix k)
  | QTombFile r => list_eqb trec_eqb r (concat (r_file s))
  | _ => true
  end.

(** oracle: the answer satisfies the property.  [fresh]: nothing has been deleted yet, so every
    lookup must agree with the written content; afterwards the oracle constrains what the
    property talks about: visibility ([ContainsValue], [ReadAll]), that dropped keys have nothing
    visible, and that reported tombstone ranges are recorded deletes. *)
Definition q_ok (pts : list (N * list Z)) (all : list ikey) (fresh : bool) (hist : list del) (o : op) : bool :=
  match o with
  | QContainsValue k t r => Bool.eqb r (sp_visible all hist k t)
  | QReadAll k r => list_eqb Z.eqb r (sp_read_all pts all hist k)
  | QContains k r =>
      if fresh then Bool.eqb r (match sp_entries all k with [] => false | _ => true end)
      else if r then (match sp_find all k with Some _ => true | None => false end)
      else (match sp_read_all pts all hist k with [] => true | _ => false end)
  | QTombRange k r =>
      forallb (fun tr => existsb (fun d => kmem k (fst (fst d)) && zz_eqb tr (snd (fst d), snd d)) hist) r
  | QHasTomb r => if r then (match hist with [] => false | _ => true end) else true
  | QSeek k r => if fresh then N.eqb r (sp_seek all k) else true
  | QKeyAt i r =>
      if fresh then option_eqb kt_eqb r
        (if (i <? 0)%Z then None else
         match nth_error all (Z.to_nat i) with Some ik => Some (ik_key ik, ik_typ ik) | None => None end)
      else true
  | QEntries k r => if fresh then list_eqb entry_eqb r (sp_entries all k) else true
  | QEntry k t r =>
      if fresh then
        match r with
        | Some e => existsb (entry_eqb e) (sp_entries all k) && e_contains e t
        | None => negb (existsb (fun e => e_contains e t) (sp_entries all k))
        end
      else true
  | QType k r => if fresh then option_eqb N.eqb r (match sp_find all k with Some ik => Some (ik_typ ik) | None => None end) else true
  | QKeyCount r => if fresh then N.eqb r (N.of_nat (length all)) else true
  | QTimeRange mn mx => Z.eqb mn (sp_min_time all) && Z.eqb mx (sp_max_time all)
  | QKeyRange a b => bytes_eqb a (sp_min_key all) && bytes_eqb b (sp_max_key all)
  | QOverlapsTime lo hi r => Bool.eqb r ((sp_min_time all <=? hi)%Z && (lo <=? sp_max_time all)%Z)
  | QOverlapsKey a b r => Bool.eqb r (kleb (sp_min_key all) b && kleb a (sp_max_key all))
  | _ => true
  end.

Fixpoint run_ops (pts : list (N * list Z)) (all : list ikey) (s : rstate) (fresh : bool) (hist : list del)
         (ops : list op) : bool * bool :=
  match ops with
  | [] => (true, true)
  | o :: r =>
      match o with
      | ODeleteRange ks lo hi => run_ops pts all (reader_delete_range s ks lo hi) false ((ks, lo, hi) :: hist) r
      | ODelete ks => run_ops pts all (reader_delete s ks) false ((ks, MinInt64, MaxInt64) :: hist) r
      | OReopen => run_ops pts all (reader_reopen s) fresh hist r
      | q => let '(a, b) := run_ops pts all s fresh hist r in
             (q_same pts s q && a, q_ok pts all fresh hist q && b)
      end
  end.

(** ** File-level oracle: what must be read back from a sequence of WriteBlock calls *)
Definition flat_blk := (key * N * entry * N * bytes)%type.   (* key, type of key, entry, crc, data *)
Definition flat_eqb (a b : flat_blk) : bool :=
  let '(k1, t1, e1, c1, d1) := a in let '(k2, t2, e2, c2, d2) := b in
  bytes_eqb k1 k2 && N.eqb t1 t2 && entry_eqb e1 e2 && N.eqb c1 c2 && bytes_eqb d1 d2.

Definition call_valid (c : call) : bool :=
  let '(k, mn, mx, b) := c in
  negb (key_too_long (N.of_nat (length k))) && match k with [] => false | _ => true end
  && match b with [] => true | t :: _ => (t <=? 4)%N end.
Definition call_nonempty (c : call) : bool := match snd c with [] => false | _ => true end.
Fixpoint keys_nondecr (cs : list call) : bool :=
  match cs with
  | (k1, _, _, _) :: (((k2, _, _, _) :: _) as r) => kleb k1 k2 && keys_nondecr r
  | _ => true
  end.
(** expected blocks, in call order, with running file offset and the type of the key's first block *)
Fixpoint expect_flat (crc : bytes -> N) (cs : list call) (off : N) (prevk : key) (prevt : N) : list flat_blk :=
  match cs with
  | [] => []
  | (k, mn, mx, b) :: r =>
      let ty := if keqb k prevk then prevt else hd 0%N b in
      let sz := N.of_nat (4 + length b) in
      (k, ty, E mn mx off sz, crc b, b) :: expect_flat crc r (off + sz) k ty
  end.
Definition flat_le (a b : flat_blk) : bool :=
  let '(k1, _, e1, _, _) := a in let '(k2, _, e2, _, _) := b in
  match kcmp k1 k2 with Lt => true | Gt => false | Eq => (emin e1 <=? emin e2)%Z end.
Fixpoint ins_flat (a : flat_blk) (l : list flat_blk) : list flat_blk :=
  match l with [] => [a] | x :: r => if flat_le x a then x :: ins_flat a r else a :: l end.
Definition sort_flat (l : list flat_blk) : list flat_blk := fold_left (fun acc a => ins_flat a acc) l [].
Definition flatten_read (r : list (key * N * list (entry * N * bytes))) : list flat_blk :=
  flat_map (fun kb => map (fun b => (fst (fst kb), snd (fst kb), fst (fst b), snd (fst b), snd b)) (snd kb)) r.
Fixpoint keys_incr (r : list (key * N * list (entry * N * bytes))) : bool :=
  match r with
  | a :: ((b :: _) as t) => kltb (fst (fst a)) (fst (fst b)) && keys_incr t
  | _ => true
  end.

(** ** Crash judge instance of gzip: a length-prefixed copy satisfies the round-trip hypothesis *)
Definition toy_gz (p : bytes) : bytes := u32 (N.of_nat (length p)) ++ p.
Definition toy_gunz (b : bytes) : option (bytes * bytes) :=
  do (l, r) <- take 4 b; take (N.to_nat (unbe l)) r.
Definition obytes_eqb := option_eqb bytes_eqb.
Definition disk_eqb (a b : disk) : bool := obytes_eqb (d_tomb a) (d_tomb b) && obytes_eqb (d_tmp a) (d_tmp b).

(** the disk the driver constructed for crash point ([step] operations done, [variant] 0 = rename not
    durable / 1 = rename durable, [cut] = how much of an unsynced tmp survived) *)
Definition crash_disk_at (old : list (list trec)) (new : list trec) (step variant cut : N) : disk :=
  let prog := commit_prog toy_gz old new in
  let d0 := D (tomb_file toy_gz old) None in
  let s := fexec (fs_init d0) (firstn (N.to_nat step) prog) in
  match s_tmp s with
  | None => s_dur s
  | Some c =>
      if s_renamed s && (variant =? 1)%N then D (Some c) None
      else D (d_tomb (s_dur s)) (Some (if s_synced s then c else firstn (N.to_nat cut) c))
  end.

(** ** Cases *)
Inductive case :=
| CFile (calls : list call) (i_status : list N) (i_file : option bytes)
        (i_read : option (list (key * N * list (entry * N * bytes))))
| CIdx (all : list ikey) (pts : list (N * list Z)) (ops : list op)
| CTomb (batches : list (list trec)) (i_header : bytes) (i_payloads : list bytes) (i_walk : option (list trec))
| CCrash (old : list (list trec)) (new : list trec) (step variant cut : N) (i_read : option (list trec))
| CLimit (klen blen cnt_after : N) (i_status : N) (i_index_ok : bool).

Definition blk3_eqb (a b : entry * N * bytes) : bool :=
  entry_eqb (fst (fst a)) (fst (fst b)) && N.eqb (snd (fst a)) (snd (fst b)) && bytes_eqb (snd a) (snd b).
Definition rkey_eqb (a b : key * N * list (entry * N * bytes)) : bool :=
  bytes_eqb (fst (fst a)) (fst (fst b)) && N.eqb (snd (fst a)) (snd (fst b)) && list_eqb blk3_eqb (snd a) (snd b).

Definition check (c : case) : verdict :=
  match c with
  | CFile calls i_status i_file i_read =>
      let '(_, m_status) := run_calls crc32_ieee w0 calls in
      let m_file := tsm_write crc32_ieee calls in
      let m_read := match i_file with Some f => tsm_read f | None => None end in
      let same := list_eqb N.eqb i_status m_status && obytes_eqb i_file m_file
                  && option_eqb (list_eqb rkey_eqb) i_read m_read in
      (* a call with an empty block is a no-op by contract ("nothing to write") *)
      let calls' := filter call_nonempty calls in
      let valid := forallb call_valid calls && keys_nondecr calls' && match calls' with [] => false | _ => true end in
      let ok :=
        if valid then
          match i_file, i_read with
          | Some _, Some r => list_eqb flat_eqb (flatten_read r) (sort_flat (expect_flat crc32_ieee calls' 5 [] 0))
                              && keys_incr r
          | _, _ => false
          end
        else match i_file with None => true | Some _ => false end in
      judge same ok
  | CIdx all pts ops =>
      let '(same, ok) := run_ops pts all (reader_open all []) true [] ops in judge same ok
  | CTomb batches i_header i_payloads i_walk =>
      let m_walk := fold_right (fun p acc => do rs <- parse_trecs (length p) p; do a <- acc; Some (rs ++ a))
                               (Some []) i_payloads in
      let same := bytes_eqb i_header tomb_header && list_eqb bytes_eqb i_payloads (map enc_trecs batches)
                  && option_eqb (list_eqb trec_eqb) i_walk m_walk in
      let ok := option_eqb (list_eqb trec_eqb) i_walk (Some (concat batches)) in
      judge same ok
  | CCrash old new step variant cut i_read =>
      let d := crash_disk_at old new step variant cut in
      let prog := commit_prog toy_gz old new in
      let s := fexec (fs_init (D (tomb_file toy_gz old) None)) (firstn (N.to_nat step) prog) in
      let m_read := tomb_read toy_gunz (d_tomb (recover d)) in
      let same := existsb (disk_eqb d) (crash_disks s) && option_eqb (list_eqb trec_eqb) i_read m_read in
      let ok := option_eqb (list_eqb trec_eqb) i_read (Some (concat old))
                || option_eqb (list_eqb trec_eqb) i_read (Some (concat old ++ new)) in
      judge same ok
  | CLimit klen blen cnt i_status i_index_ok =>
      let m_status := if key_too_long klen then 1%N else if (blen =? 0)%N then 0%N else status_after cnt in
      let m_index_ok := (1 <=? cnt)%N && negb (max_entries <? cnt)%N in
      let same := N.eqb i_status m_status && Bool.eqb i_index_ok m_index_ok in
      let ok := (if (65535 <? klen)%N then N.eqb i_status 1 else negb (N.eqb i_status 1))
                && Bool.eqb i_index_ok ((1 <=? cnt)%N && (cnt <=? 65535)%N) in
      judge same ok
  end.
