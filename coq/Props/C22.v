(** C22 — InfluxQL SELECT results match the language semantics.  Property theorems only.

    The property is conformance of the engine to a reference evaluator.  The reference evaluator is
    [eval] (Model/C22.v); these theorems are laws of the language that [eval] satisfies for ALL
    datasets and ALL queries of the subset (unbounded), and that the engine must therefore satisfy
    wherever the differential check (harness/cmd/c22) finds it equal to [eval].  The engine's
    planner and iterators are NOT modelled: the tie is differential execution only.
    [eval_engine] is [eval] with the observed engine deviations switched on; the [_refuted]
    theorems show by concrete witnesses (replayed on the real engine by the driver's corpus) that
    the deviating engine breaks the corresponding law. *)
From Verif Require Import Base.Prelude Model.C22 Proofs.C22.
From Coq Require Import Permutation.
Open Scope Z_scope.

(** 1. LIMIT n OFFSET m: per series, [firstn n (skipn m rows)] of the unlimited result; series left
    without rows are not shown. *)
Theorem C22_limit_offset : forall d q, eval d q = cut_rows q (eval d (no_limits q)).
Proof. exact limit_offset. Qed.
Print Assumptions C22_limit_offset.

(** 2. ORDER BY time DESC is the ascending result reversed (series order and rows), for raw
    selections. *)
Theorem C22_desc_is_rev_asc_raw : forall d q,
  is_raw q = true ->
  q_limit q = 0%nat -> q_offset q = 0%nat -> q_slimit q = 0%nat -> q_soffset q = 0%nat ->
  eval d (set_desc q true) = rev_result (eval d (set_desc q false)).
Proof. exact desc_is_rev_asc_raw. Qed.
Print Assumptions C22_desc_is_rev_asc_raw.

(** 2'. Full statement for aggregates: the same equation for every query with calls.  Proved here
    for each function COLUMN of a GROUP BY time query (all fill modes except linear, whose float
    interpolation is direction dependent) and for the lifting from series to results; the join of
    several columns (sorting/deduplicating the row times) is not proved to commute with [rev]. *)
Theorem C22_desc_is_rev_asc_column_partial : forall d q alone c k,
  q_every q <> 0 -> q_fill q <> FLinear ->
  call_rows spec_mode (set_desc q true) d alone c k = rev (call_rows spec_mode (set_desc q false) d alone c k).
Proof. exact desc_is_rev_asc_column. Qed.
Print Assumptions C22_desc_is_rev_asc_column_partial.

Theorem C22_desc_lift : forall d q,
  q_limit q = 0%nat -> q_offset q = 0%nat -> q_slimit q = 0%nat -> q_soffset q = 0%nat ->
  (forall k, series_rows spec_mode (schema d) (set_desc q true) d k = rev (series_rows spec_mode (schema d) (set_desc q false) d k)) ->
  eval d (set_desc q true) = rev_result (eval d (set_desc q false)).
Proof. exact desc_lift. Qed.
Print Assumptions C22_desc_lift.

(** 3. GROUP BY time(every, offset) partitions the time line: the window of [t] contains [t], is
    aligned to the offset, is the only aligned window containing [t]; the window of every in-range
    time is one of the enumerated windows; every row time of a GROUP BY time column is an
    (aligned) window start. *)
Theorem C22_group_by_time_partitions : forall every off t,
  0 < every ->
  (wstart every off t <= t < wstart every off t + every)
  /\ (wstart every off t - off) mod every = 0
  /\ (forall w, (w - off) mod every = 0 -> w <= t < w + every -> w = wstart every off t).
Proof.
  intros every off t H. split; [apply wstart_contains; exact H|].
  split; [apply wstart_aligned; exact H|]. intros w. apply wstart_unique; exact H.
Qed.
Print Assumptions C22_group_by_time_partitions.

Theorem C22_in_range_point_has_window : forall q t,
  0 < q_every q -> in_range q t = true -> In (qwstart q t) (windows q).
Proof. exact window_in_windows. Qed.
Print Assumptions C22_in_range_point_has_window.

Theorem C22_row_time_is_window_start : forall md q d alone c k r,
  0 < q_every q -> In r (call_rows md q d alone c k) ->
  In (fst r) (windows q) /\ (fst r - eff_offset q) mod q_every q = 0.
Proof.
  intros md q d alone c k r H Hin. pose proof (call_rows_times md q d alone c k r H Hin) as W.
  split; [exact W|]. apply windows_aligned; assumption.
Qed.
Print Assumptions C22_row_time_is_window_start.

(** 4. fill(none) shows exactly the fill(null) rows that have a value (for count(): that are not 0). *)
Theorem C22_fill_none_subset_of_fill_null : forall fn e cs,
  fn <> Count -> Forall cell_ok cs ->
  fill_cells fn FNone e cs = filter (fun r => negb (row_null r)) (fill_cells fn FNull e cs).
Proof. exact fill_none_subset_null. Qed.
Print Assumptions C22_fill_none_subset_of_fill_null.

Theorem C22_fill_none_subset_of_fill_null_count : forall e cs,
  Forall (fun c => snd c <> Some (VInt 0)) cs ->
  fill_cells Count FNone e cs
  = filter (fun r => match snd r with [VInt 0] => false | _ => true end) (fill_cells Count FNull e cs).
Proof. exact fill_none_subset_null_count. Qed.
Print Assumptions C22_fill_none_subset_of_fill_null_count.

(** 5. The WHERE time bounds commute with every other part of the query.
    Full statement: [forall d q, eval (time_filter q d) q = eval d q].  The faithful evaluator
    REFUTES it: points outside the bounds still contribute the measurement's SCHEMA (a field that
    only out-of-range points carry exists, so sum/min/max/first/last on it are typed columns and
    get fill(<value>); once those points are removed the field does not exist and the column is
    null).  The real engine behaves the same way (driver corpus: schema cases), so this is the
    defined behaviour and no finding.  Proved: the law for a fixed schema, and the law for [eval]
    whenever removing the out-of-range points does not change the schema. *)
Theorem C22_where_time_commutes_fixed_schema : forall kn d q,
  evalk spec_mode kn 0 (time_filter q d) q = evalk spec_mode kn 0 d q.
Proof. exact where_time_commutes_schema. Qed.
Print Assumptions C22_where_time_commutes_fixed_schema.

Theorem C22_where_time_commutes_with_filter_partial : forall d q,
  (forall f, schema (time_filter q d) f = schema d f) -> eval (time_filter q d) q = eval d q.
Proof. exact where_time_commutes. Qed.
Print Assumptions C22_where_time_commutes_with_filter_partial.

Theorem C22_where_time_commutes_with_filter_refuted : exists d q, eval (time_filter q d) q <> eval d q.
Proof.
  eexists. eexists. destruct where_time_schema_needed as [H1 H2]. cbv zeta in H1, H2.
  rewrite H1, H2. discriminate.
Qed.
Print Assumptions C22_where_time_commutes_with_filter_refuted.

(** 6. An aggregate/selector over a tag set is the aggregate over the union of the points of its
    member series, in whatever order (series, shards) they are met. *)
Theorem C22_aggregate_order_independent : forall fn l l', Permutation l l' -> reduce fn l = reduce fn l'.
Proof. exact reduce_perm. Qed.
Print Assumptions C22_aggregate_order_independent.

Theorem C22_aggregate_over_tagset_union : forall fn q fld k d1 d2,
  call_pts q (d1 ++ d2) fld k = call_pts q d1 fld k ++ call_pts q d2 fld k
  /\ reduce fn (call_pts q (d1 ++ d2) fld k) = reduce fn (call_pts q d2 fld k ++ call_pts q d1 fld k).
Proof. intros. split; [apply call_pts_app|apply aggregate_over_union]. Qed.
Print Assumptions C22_aggregate_over_tagset_union.

Theorem C22_mean_combines_partial_sums : forall l1 l2,
  reduce Mean (l1 ++ l2)
  = (None, VMean (sumZ (map snd l1) + sumZ (map snd l2)) (Z.of_nat (length l1) + Z.of_nat (length l2))).
Proof. exact reduce_mean_app. Qed.
Print Assumptions C22_mean_combines_partial_sums.

(** 7. SLIMIT n SOFFSET m: [firstn n (skipn m ...)] of the series list in ascending tag order. *)
Theorem C22_slimit_soffset : forall d q,
  q_limit q = 0%nat -> q_offset q = 0%nat -> q_desc q = false ->
  eval d q = limoff (q_slimit q) (q_soffset q) (eval d (no_slimit q)).
Proof. exact slimit_soffset_asc. Qed.
Print Assumptions C22_slimit_soffset.

Theorem C22_slimit_soffset_desc : forall d q,
  q_limit q = 0%nat -> q_offset q = 0%nat -> q_desc q = true ->
  eval d q = rev (limoff (q_slimit q) (q_soffset q) (rev (eval d (no_slimit q)))).
Proof. exact slimit_soffset_desc. Qed.
Print Assumptions C22_slimit_soffset_desc.

(** Engine deviations (findings.d/C22.json): the mirror of the observed engine behaviour breaks
    the laws above on these witnesses; each witness is a hand-picked case of the driver and is
    reproduced by the real engine on every run (verdict 3). *)
Theorem C22_engine_slimit_refuted :
  (length (eval_engine 10000000000 d_two q_slimit_w) = 2%nat /\ length (eval d_two q_slimit_w) = 1%nat)
  /\ (eval_engine 0 d_two q_slimit_w2 = [] /\ length (eval d_two q_slimit_w2) = 1%nat).
Proof. split; [exact engine_slimit_more_series|exact engine_slimit_no_series]. Qed.
Print Assumptions C22_engine_slimit_refuted.

Theorem C22_engine_fill_previous_desc_refuted :
  eval_engine 0 d_two q_prev_w <> rev_result (eval_engine 0 d_two (set_desc q_prev_w false))
  /\ eval d_two q_prev_w = rev_result (eval d_two (set_desc q_prev_w false)).
Proof. exact engine_fill_previous_desc. Qed.
Print Assumptions C22_engine_fill_previous_desc_refuted.

Theorem C22_engine_limit_per_column_refuted :
  map (fun kr => length (snd kr)) (eval_engine 0 d_cols q_cols_w) = [2%nat]
  /\ map (fun kr => length (snd kr)) (eval d_cols q_cols_w) = [1%nat].
Proof. exact engine_limit_per_column. Qed.
Print Assumptions C22_engine_limit_per_column_refuted.

Theorem C22_engine_first_tie_refuted :
  eval_engine 0 d_tie q_first_w = [([], [(1000000000, [VAny [1; 2; 3]])])]
  /\ eval d_tie q_first_w = [([], [(1000000000, [VInt 3])])].
Proof. exact engine_first_tie. Qed.
Print Assumptions C22_engine_first_tie_refuted.

(** Non-vacuity: a two-series dataset and a GROUP BY time/tag query with a non-trivial result. *)
Example C22_nonvacuous :
  eval [mk 1 1 1 (Some 1) (Some 10); mk 1 2 3 (Some 4) None; mk 1 1 7 (Some 5) None]
       {| q_sel := [(Sum, Ff); (Mean, Ff)]; q_cond := None; q_min_incl := true; q_min := 0; q_max_incl := false;
          q_max := 10000000000; q_every := 5000000000; q_goffset := 0; q_gtags := [T1]; q_fill := FNull;
          q_desc := false; q_limit := 0; q_offset := 0; q_slimit := 0; q_soffset := 0 |}
  = [([(T1, 1%N)], [(0, [VInt 5; VMean 5 2]); (5000000000, [VInt 5; VMean 5 1])])].
Proof. vm_compute. reflexivity. Qed.
