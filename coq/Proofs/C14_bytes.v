(** C14 — byte level of the L0 log file: uvarint / field / entry round trips, every strict
    prefix of an entry is "short buffer", recovery of a log with a torn tail. *)
From Verif Require Import Base.Prelude Model.C14.
From Coq Require Import ZifyBool ZifyNat ZifyN.
Local Open Scope N_scope.

Lemma lor_disjoint x y m : x < 2 ^ m -> N.lor x (y * 2 ^ m) = x + y * 2 ^ m.
Proof.
  intro H.
  assert (E : N.land x (y * 2 ^ m) = 0).
  { rewrite <- N.shiftl_mul_pow2. apply N.bits_inj. intro i.
    rewrite N.land_spec, N.bits_0.
    destruct (N.ltb_spec i m) as [Hi | Hi].
    - rewrite N.shiftl_spec_low by exact Hi. apply andb_false_r.
    - rewrite <- (N.mod_small x (2 ^ m)) by exact H.
      rewrite N.mod_pow2_bits_high by exact Hi. reflexivity. }
  rewrite <- N.lxor_lor by exact E. symmetry. apply N.add_nocarry_lxor. exact E.
Qed.

Lemma land_127 r : r < 128 -> N.land (128 + r) 127 = r.
Proof.
  intro H. change 127 with (N.ones 7). rewrite N.land_ones.
  change (2 ^ 7) with 128. rewrite N.add_comm, <- (N.mul_1_l 128) at 1.
  rewrite N.mod_add by discriminate. apply N.mod_small. exact H.
Qed.

Lemma pow2_pos n : 0 < 2 ^ n.
Proof. apply N.neq_0_lt_0, N.pow_nonzero. discriminate. Qed.

(** ** uvarint *)

Lemma uv_roundtrip f : forall i s x n rest,
  (i + f = 9)%nat -> s = 7 * N.of_nat i -> x < 2 ^ s -> n * 2 ^ s < 2 ^ 64 ->
  uv_dec i s x (uv_enc f n ++ rest) = UOk (x + n * 2 ^ s) rest.
Proof.
  induction f as [|f IH]; intros i s x n rest Hi Hs Hx Hn.
  - assert (i = 9%nat) by lia. subst i. cbn [uv_enc app uv_dec].
    assert (s = 63) by lia. subst s.
    assert (n < 2).
    { change (2 ^ 64) with (2 * 2 ^ 63) in Hn. pose proof (pow2_pos 63). nia. }
    replace (Nat.eqb 9 10) with false by reflexivity.
    replace (N.ltb n 128) with true by (symmetry; apply N.ltb_lt; lia).
    replace (Nat.eqb 9 9 && N.ltb 1 n) with false by (symmetry; apply andb_false_iff; right; apply N.ltb_ge; lia).
    rewrite N.shiftl_mul_pow2. rewrite lor_disjoint by exact Hx. reflexivity.
  - cbn [uv_enc]. destruct (N.ltb n 128) eqn:E.
    + cbn [app uv_dec]. rewrite E.
      replace (Nat.eqb i 10) with false by (symmetry; apply Nat.eqb_neq; lia).
      replace (Nat.eqb i 9) with false by (symmetry; apply Nat.eqb_neq; lia).
      cbn [andb]. rewrite N.shiftl_mul_pow2, lor_disjoint by exact Hx. reflexivity.
    + cbn [app uv_dec]. apply N.ltb_ge in E.
      replace (Nat.eqb i 10) with false by (symmetry; apply Nat.eqb_neq; lia).
      assert (Hr : n mod 128 < 128) by (apply N.mod_lt; discriminate).
      replace (N.ltb (128 + n mod 128) 128) with false by (symmetry; apply N.ltb_ge; lia).
      rewrite land_127 by exact Hr.
      rewrite N.shiftl_mul_pow2, lor_disjoint by exact Hx.
      assert (Hp : 2 ^ (s + 7) = 128 * 2 ^ s).
      { rewrite N.pow_add_r. change (2 ^ 7) with 128. apply N.mul_comm. }
      pose proof (N.div_mod n 128 ltac:(discriminate)) as Hdm.
      pose proof (pow2_pos s) as Hps.
      rewrite IH.
      * f_equal. rewrite Hp. nia.
      * lia.
      * lia.
      * rewrite Hp. nia.
      * rewrite Hp. nia.
Qed.

Lemma uvarint_roundtrip n rest : n < 2 ^ 64 -> uvarint_dec (uvarint n ++ rest) = UOk n rest.
Proof.
  intro H. unfold uvarint_dec, uvarint.
  rewrite (uv_roundtrip 9 0 0 0 n rest); [f_equal; cbn; lia | reflexivity | reflexivity | cbn; lia | cbn; lia].
Qed.

(** every strict prefix of an encoded uvarint is a short buffer *)
Lemma uv_prefix_short f : forall i s x n k,
  (i + f = 9)%nat -> (k < length (uv_enc f n))%nat ->
  uv_dec i s x (firstn k (uv_enc f n)) = UShort.
Proof.
  induction f as [|f IH]; intros i s x n k Hi Hk.
  - cbn in Hk. assert (k = 0%nat) by lia. subst k. reflexivity.
  - cbn [uv_enc] in *. destruct (N.ltb n 128) eqn:E.
    + cbn in Hk. assert (k = 0%nat) by lia. subst k. reflexivity.
    + destruct k as [|k]; [reflexivity|]. cbn [firstn uv_dec]. cbn [length] in Hk.
      replace (Nat.eqb i 10) with false by (symmetry; apply Nat.eqb_neq; lia).
      assert (Hr : n mod 128 < 128) by (apply N.mod_lt; discriminate).
      replace (N.ltb (128 + n mod 128) 128) with false by (symmetry; apply N.ltb_ge; lia).
      apply IH; lia.
Qed.

Lemma uvarint_prefix_short n k : (k < length (uvarint n))%nat -> uvarint_dec (firstn k (uvarint n)) = UShort.
Proof. intro H. apply (uv_prefix_short 9 0); [reflexivity | exact H]. Qed.

Lemma uvarint_nonempty n : (1 <= length (uvarint n))%nat.
Proof. unfold uvarint. cbn [uv_enc]. destruct (N.ltb n 128); cbn; lia. Qed.

(** ** fields *)

Definition wf_len (s : str) : Prop := lenN s < 2 ^ 64.

Lemma dec_field_roundtrip s rest : wf_len s -> dec_field (enc_field s ++ rest) = FOk s rest.
Proof.
  intro H. unfold dec_field, enc_field. rewrite <- app_assoc, uvarint_roundtrip by exact H.
  unfold lenN. rewrite Nat2N.id.
  replace (Nat.ltb (length (s ++ rest)) (length s)) with false
    by (symmetry; apply Nat.ltb_ge; rewrite app_length; lia).
  rewrite firstn_app, Nat.sub_diag, firstn_all, firstn_O, app_nil_r.
  rewrite skipn_app, Nat.sub_diag, skipn_all. reflexivity.
Qed.

(** a prefix of [enc_field s ++ tail] either is short, or contains the whole field *)
Lemma dec_field_prefix s tail k : wf_len s ->
  (k < length (enc_field s))%nat /\ dec_field (firstn k (enc_field s ++ tail)) = FShort
  \/ (length (enc_field s) <= k)%nat /\
     dec_field (firstn k (enc_field s ++ tail)) = FOk s (firstn (k - length (enc_field s)) tail).
Proof.
  intro H. destruct (Nat.lt_ge_cases k (length (enc_field s))) as [Hk | Hk]; [left | right]; split; try exact Hk.
  - rewrite firstn_app. replace (k - length (enc_field s))%nat with 0%nat by lia. rewrite firstn_O, app_nil_r.
    unfold enc_field in *. rewrite app_length in Hk. unfold dec_field.
    rewrite firstn_app.
    destruct (Nat.lt_ge_cases k (length (uvarint (lenN s)))) as [Hu | Hu].
    + replace (k - length (uvarint (lenN s)))%nat with 0%nat by lia. rewrite firstn_O, app_nil_r.
      rewrite uvarint_prefix_short by exact Hu. reflexivity.
    + rewrite firstn_all2 by exact Hu. rewrite uvarint_roundtrip by exact H.
      unfold lenN. rewrite Nat2N.id.
      replace (Nat.ltb _ _) with true; [reflexivity|].
      symmetry. apply Nat.ltb_lt. rewrite firstn_length. apply Nat.min_lt_iff. left. unfold lenN in *. lia.
  - rewrite firstn_app, firstn_all2 by exact Hk. apply dec_field_roundtrip. exact H.
Qed.

(** ** entries *)

Definition wf_entry (e : entry) : Prop :=
  e_id e < 2 ^ 64 /\ wf_len (e_name e) /\ wf_len (e_key e) /\ wf_len (e_val e).

Lemma be32_roundtrip c : c < 2 ^ 32 -> be32_dec (be32 c) = c.
Proof.
  intro H. unfold be32, be32_dec. change (2 ^ 32) with 4294967296 in H.
  Ltac Zify.zify_post_hook ::= Z.div_mod_to_equations. lia.
Qed.

Lemma be32_length c : length (be32 c) = 4%nat.
Proof. reflexivity. Qed.

Section Bytes.
  Variable crc : list N -> N.
  Hypothesis crc_range : forall l, crc l < 2 ^ 32.   (* it is a uint32 *)

  Lemma enc_entry_length e : length (enc_entry crc e) = entry_size e.
  Proof. unfold enc_entry, entry_size. rewrite app_length. reflexivity. Qed.

  Lemma firstn_app_exact {A} (a b : list A) : firstn (length a) (a ++ b) = a.
  Proof. rewrite firstn_app, Nat.sub_diag, firstn_all, firstn_O, app_nil_r. reflexivity. Qed.

  (** what append wrote, parse reads back *)
  Lemma parse_entry_roundtrip e rest : wf_entry e -> parse_entry crc (enc_entry crc e ++ rest) = POk e rest.
  Proof.
    intros (Hid & Hn & Hk & Hv). unfold enc_entry.
    assert (Eb : (enc_body e ++ be32 (crc (enc_body e))) ++ rest
                 = e_flag e :: uvarint (e_id e) ++ enc_field (e_name e) ++ enc_field (e_key e) ++ enc_field (e_val e)
                   ++ be32 (crc (enc_body e)) ++ rest).
    { unfold enc_body. cbn [app]. rewrite <- !app_assoc. reflexivity. }
    rewrite Eb. unfold parse_entry.
    rewrite uvarint_roundtrip by exact Hid.
    rewrite dec_field_roundtrip by exact Hn.
    rewrite dec_field_roundtrip by exact Hk.
    rewrite dec_field_roundtrip by exact Hv.
    rewrite <- Eb.
    replace (length ((enc_body e ++ be32 (crc (enc_body e))) ++ rest) - length (be32 (crc (enc_body e)) ++ rest))%nat
      with (length (enc_body e)) by (rewrite !app_length; lia).
    rewrite <- app_assoc, firstn_app_exact.
    replace (Nat.ltb (length (be32 (crc (enc_body e)) ++ rest)) 4) with false
      by (symmetry; apply Nat.ltb_ge; rewrite app_length, be32_length; lia).
    change 4%nat with (length (be32 (crc (enc_body e)))).
    rewrite firstn_app_exact, be32_roundtrip by apply crc_range.
    rewrite N.eqb_refl. rewrite skipn_app, Nat.sub_diag, skipn_all. cbn [app skipn].
    destruct e; reflexivity.
  Qed.

  (** every strict prefix of an entry is a short buffer: the checksum is never consulted *)
  Lemma parse_entry_prefix_short e k : wf_entry e -> (k < length (enc_entry crc e))%nat ->
    parse_entry crc (firstn k (enc_entry crc e)) = PShort.
  Proof.
    intros (Hid & Hn & Hk & Hv) Hlt. unfold enc_entry in *.
    set (c := be32 (crc (enc_body e))) in *.
    assert (Eb : enc_body e ++ c
                 = e_flag e :: uvarint (e_id e) ++ enc_field (e_name e) ++ enc_field (e_key e) ++ enc_field (e_val e) ++ c).
    { unfold enc_body. cbn [app]. rewrite <- !app_assoc. reflexivity. }
    rewrite Eb in *. destruct k as [|k]; [reflexivity|].
    cbn [firstn]. unfold parse_entry. cbn [length] in Hlt.
    rewrite firstn_app.
    destruct (Nat.lt_ge_cases k (length (uvarint (e_id e)))) as [Hu | Hu].
    { replace (k - length (uvarint (e_id e)))%nat with 0%nat by lia. rewrite firstn_O, app_nil_r.
      rewrite uvarint_prefix_short by exact Hu. reflexivity. }
    rewrite firstn_all2 by exact Hu. rewrite uvarint_roundtrip by exact Hid.
    set (k1 := (k - length (uvarint (e_id e)))%nat).
    destruct (dec_field_prefix (e_name e) (enc_field (e_key e) ++ enc_field (e_val e) ++ c) k1 Hn) as [[_ E] | [L1 E]];
      rewrite E; [reflexivity|].
    set (k2 := (k1 - length (enc_field (e_name e)))%nat).
    destruct (dec_field_prefix (e_key e) (enc_field (e_val e) ++ c) k2 Hk) as [[_ E2] | [L2 E2]];
      rewrite E2; [reflexivity|].
    set (k3 := (k2 - length (enc_field (e_key e)))%nat).
    destruct (dec_field_prefix (e_val e) c k3 Hv) as [[_ E3] | [L3 E3]];
      rewrite E3; [reflexivity|].
    replace (Nat.ltb (length (firstn (k3 - length (enc_field (e_val e))) c)) 4) with true; [reflexivity|].
    symmetry. apply Nat.ltb_lt. rewrite firstn_length. rewrite !app_length in Hlt.
    subst c. rewrite be32_length in *. unfold k3, k2, k1 in *. lia.
  Qed.

  Lemma parse_log_nil_tail fuel : parse_log crc fuel [] = ([], false).
  Proof. destruct fuel; reflexivity. Qed.

  Lemma enc_entry_nonempty e : enc_entry crc e <> [].
  Proof. unfold enc_entry, enc_body. discriminate. Qed.

  (** the replay loop: complete entries, then a tail on which replay stops *)
  Lemma parse_log_app es : forall fuel tail,
    (length es <= fuel)%nat -> Forall wf_entry es ->
    (forall f, parse_log crc f tail = ([], false)) ->
    parse_log crc fuel (enc_log crc es ++ tail) = (es, false).
  Proof.
    induction es as [|e es IH]; intros fuel tail Hf Hwf Ht.
    - apply Ht.
    - inversion Hwf as [|? ? He Hes]; subst. cbn [length] in Hf.
      destruct fuel as [|fuel]; [lia|].
      cbn [enc_log flat_map]. fold (enc_log crc es). rewrite <- app_assoc.
      cbn [parse_log].
      destruct (enc_entry crc e ++ enc_log crc es ++ tail) eqn:Ed.
      { apply app_eq_nil in Ed as [Ed _]. exfalso. exact (enc_entry_nonempty e Ed). }
      rewrite <- Ed. rewrite parse_entry_roundtrip by exact He.
      rewrite IH; [reflexivity | lia | exact Hes | exact Ht].
  Qed.

  Lemma enc_log_length_ge es : (length es <= length (enc_log crc es))%nat.
  Proof.
    induction es as [|e es IH]; [cbn; lia|].
    cbn [enc_log flat_map length]. fold (enc_log crc es). rewrite app_length.
    pose proof (enc_entry_length e). unfold entry_size in *. lia.
  Qed.

  (** reopen of an intact log recovers exactly its entries *)
  Theorem recover_roundtrip es : Forall wf_entry es -> recover crc (enc_log crc es) = (es, false).
  Proof.
    intro H. unfold recover. rewrite <- (app_nil_r (enc_log crc es)) at 2.
    apply parse_log_app; [apply enc_log_length_ge | exact H | apply parse_log_nil_tail].
  Qed.

  (** torn tail: for every entry list, every further entry and EVERY strict prefix of its
      bytes, recovery returns exactly the earlier entries (all recovered, nothing invented)
      and does not fail *)
  Theorem recover_torn_tail es e k : Forall wf_entry es -> wf_entry e ->
    (k < length (enc_entry crc e))%nat ->
    recover crc (enc_log crc es ++ firstn k (enc_entry crc e)) = (es, false).
  Proof.
    intros H He Hk. unfold recover. apply parse_log_app.
    - rewrite app_length. pose proof (enc_log_length_ge es). lia.
    - exact H.
    - intro f. destruct f as [|f]; [reflexivity|]. cbn [parse_log].
      destruct (firstn k (enc_entry crc e)) eqn:Ed; [reflexivity|].
      rewrite <- Ed. rewrite parse_entry_prefix_short by assumption. reflexivity.
  Qed.
End Bytes.

Lemma crc32_range l : crc32 l < 2 ^ 32.
Proof. unfold crc32. apply N.mod_lt. discriminate. Qed.
