(** C13 — Series IDs are unique, stable and never reused.

    Mirror of tsdb/series_segment.go (entry framing, [ReadSeriesEntry], [ForEachEntry] /
    [InitForWrite] scan), tsdb/series_index.go (in-memory index: [execEntry], [FindOffsetByID],
    [IsDeleted], [FindIDBySeriesKey]), tsdb/series_partition.go ([insert], [DeleteSeriesID],
    [CreateSeriesListIfNotExists], [openSegments] recomputing [seq], [Recover]) and
    tsdb/series_file.go (8 partitions, routing of ids by [(id-1) mod 8]).

    Byte level: a segment is the list of bytes written after its 5-byte header; the file is
    pre-allocated and zero-filled, so every read past the written bytes yields 0 ([take0],
    [hd 0]).  An entry is [flag(1) id(8, big endian) key] where a key is
    [uvarint(len body) body]; a tombstone has no key.  There is no checksum.

    Abstractions (stated in checks/C13.json): one segment per partition (a second segment needs
    > 4 MiB of entries); the index is the single in-memory layer that [Recover] builds by
    folding [execEntry] over the scanned entries, the on-disk robin-hood maps written by
    [compactIndexTo] are represented by the same fold (compaction = rebuild), so
    [SeriesKey] of a DELETED id (which the real code answers from whichever layer still holds the
    id) is not compared; a batch create is the sequential composition of single creates (the
    [newIDs] map of the real loop plays the role of the index lookups of the later keys). *)
From Verif Require Import Base.Prelude.
Open Scope N_scope.

Definition key := list N.
Definition key_eqb : key -> key -> bool := list_eqb N.eqb.

(** ** Bytes *)

(** [take0 n l]: the first [n] bytes of the zero-filled file whose written part is [l]. *)
Fixpoint take0 (n : nat) (l : list N) : list N :=
  match n with
  | O => []
  | S n' => match l with
            | [] => 0 :: take0 n' []
            | x :: r => x :: take0 n' r
            end
  end.

Definition be_dec (l : list N) : N := fold_left (fun a b => a * 256 + b) l 0.
Definition byte_at (x i : N) : N := (x / 2 ^ (8 * i)) mod 256.
(** [binary.BigEndian.PutUint64] *)
Definition be64 (x : N) : list N := map (byte_at x) [7; 6; 5; 4; 3; 2; 1; 0].

(** [binary.Uvarint] on the zero-filled file: [Some (value, bytes read)], [None] = overflow. *)
Fixpoint uvarint_go (fuel : nat) (l : list N) (x s i : N) : option (N * N) :=
  match fuel with
  | O => None
  | S f =>
      let b := hd 0 l in
      if b <? 128 then
        (if (i =? 9) && (1 <? b) then None else Some (x + b * 2 ^ s, i + 1))
      else uvarint_go f (tl l) (x + (b mod 128) * 2 ^ s) (s + 7) (i + 1)
  end.
Definition uvarint (l : list N) : option (N * N) := uvarint_go 10 l 0 0 0.

(** [binary.PutUvarint] *)
Fixpoint put_uvarint_go (fuel : nat) (x : N) : list N :=
  match fuel with
  | O => []
  | S f => if x <? 128 then [x] else (128 + x mod 128) :: put_uvarint_go f (x / 128)
  end.
Definition put_uvarint (x : N) : list N := put_uvarint_go 10 x.

(** A well-formed series key: total length prefix + body ([AppendSeriesKey]). *)
Definition mk_key (body : list N) : key := put_uvarint (N.of_nat (length body)) ++ body.

(** [ReadSeriesKey]: [data[:sz+n]]. *)
Definition read_key (data : list N) : key :=
  match uvarint data with
  | Some (sz, n) => take0 (N.to_nat (sz + n)) data
  | None => []
  end.

(** ** Entries *)
Inductive entry := Ins (id : N) (k : key) | Tomb (id : N).

Definition FLAG_INS : N := 1.
Definition FLAG_TOMB : N := 2.
Definition valid_flag (f : N) : bool := (f =? FLAG_INS) || (f =? FLAG_TOMB).

(** [AppendSeriesEntry] *)
Definition enc (e : entry) : list N :=
  match e with
  | Ins id k => FLAG_INS :: be64 id ++ k
  | Tomb id => FLAG_TOMB :: be64 id
  end.
Definition bytes_of (L : list entry) : list N := flat_map enc L.

Definition HDR : N := 5. (* SeriesSegmentHeaderSize *)

(** A scanned entry: what [ForEachEntry] hands to its callback. *)
Record sentry := { se_flag : N; se_id : N; se_off : N; se_key : key }.
Definition se_size (e : sentry) : N := 9 + N.of_nat (length (se_key e)).

(** [ForEachEntry] / the loop of [InitForWrite]: decode entries from [pos] until the first
    invalid flag.  [l] is the written part of the file from [pos] on. *)
Fixpoint scan_go (fuel : nat) (l : list N) (pos : N) : list sentry :=
  match fuel with
  | O => []
  | S f =>
      match l with
      | [] => []
      | flag :: r =>
          if valid_flag flag then
            let id := be_dec (take0 8 r) in
            let k := if flag =? FLAG_INS then read_key (skipn 8 r) else [] in
            {| se_flag := flag; se_id := id; se_off := pos; se_key := k |}
              :: scan_go f (skipn (8 + length k) r) (pos + 9 + N.of_nat (length k))
          else []
      end
  end.
Definition scan (l : list N) : list sentry := scan_go (length l) l HDR.

(** What a scan of the encoding of a log yields. *)
Fixpoint with_offsets (L : list entry) (pos : N) : list sentry :=
  match L with
  | [] => []
  | e :: r =>
      let se := match e with
                | Ins id k => {| se_flag := FLAG_INS; se_id := id; se_off := pos; se_key := k |}
                | Tomb id => {| se_flag := FLAG_TOMB; se_id := id; se_off := pos; se_key := [] |}
                end in
      se :: with_offsets r (pos + N.of_nat (length (enc e)))
  end.

(** ** Index (in-memory layer of SeriesIndex) *)
Record index := { keyid : list (key * N); idoff : list (N * N); tombs : list N }.
Definition empty_ix : index := {| keyid := []; idoff := []; tombs := [] |}.

Fixpoint assoc_key (l : list (key * N)) (k : key) : option N :=
  match l with
  | [] => None
  | (k', v) :: r => if key_eqb k' k then Some v else assoc_key r k
  end.
Fixpoint assoc_id (l : list (N * N)) (i : N) : option N :=
  match l with
  | [] => None
  | (i', v) :: r => if i' =? i then Some v else assoc_id r i
  end.
Definition memN (x : N) (l : list N) : bool := existsb (N.eqb x) l.

(** [execEntry]; an insert entry with id 0 ("no series": can only be the remains of a torn
    append) is not indexed — the same filter is in [compactIndexTo]. *)
Definition exec (ix : index) (e : sentry) : index :=
  if se_flag e =? FLAG_INS then
    if se_id e =? 0 then ix else
    {| keyid := (se_key e, se_id e) :: keyid ix;
       idoff := (se_id e, se_off e) :: idoff ix;
       tombs := tombs ix |}
  else
    {| keyid := keyid ix; idoff := idoff ix; tombs := se_id e :: tombs ix |}.

Definition replay (ents : list sentry) : index := fold_left exec ents empty_ix.

Definition find_off (ix : index) (id : N) : N :=
  match assoc_id (idoff ix) id with Some o => o | None => 0 end.
Definition is_deleted (ix : index) (id : N) : bool :=
  memN id (tombs ix) || (find_off ix id =? 0).
Definition find_id (ix : index) (k : key) : N :=
  match assoc_key (keyid ix) k with
  | Some id => if negb (id =? 0) && negb (is_deleted ix id) then id else 0
  | None => 0
  end.

(** ** Partition *)
Record part := { seg : list N; seq : N; ix : index }.

Definition init_part (p : N) : part := {| seg := []; seq := p + 1; ix := empty_ix |}.

(** [seriesKeyByOffset]: read the key back from the (flushed, mmapped) segment. *)
Definition key_at (sg : list N) (off : N) : key :=
  read_key (skipn (N.to_nat (off - HDR) + 9) sg).

Definition end_off (st : part) : N := HDR + N.of_nat (length (seg st)).

(** One key of [CreateSeriesListIfNotExists]: lookup, else [insert] + [index.Insert]. *)
Definition create1 (st : part) (k : key) : part * N :=
  let id := find_id (ix st) k in
  if negb (id =? 0) then (st, id)
  else
    let id := seq st in
    let off := end_off st in
    let sg := seg st ++ enc (Ins id k) in
    ({| seg := sg; seq := seq st + 8;
        ix := exec (ix st) {| se_flag := FLAG_INS; se_id := id; se_off := off; se_key := key_at sg off |} |},
     id).

(** [DeleteSeriesID] *)
Definition delete1 (st : part) (id : N) : part :=
  if is_deleted (ix st) id then st
  else {| seg := seg st ++ enc (Tomb id); seq := seq st;
          ix := exec (ix st) {| se_flag := FLAG_TOMB; se_id := id; se_off := 0; se_key := [] |} |}.

(** [MaxSeriesID] *)
Definition max_ins (ents : list sentry) : N :=
  fold_left (fun m e => if (se_flag e =? FLAG_INS) && (m <? se_id e) then se_id e else m) ents 0.

Definition scan_end (ents : list sentry) : N :=
  fold_left (fun _ e => se_off e + se_size e) ents HDR.

(** [NewSeriesPartition] + [Open]: [openSegments] (seq from the max id found), [InitForWrite]
    (size = end of the scan), [Recover] (index = replay of the scanned entries). *)
Definition open_part (p : N) (bytes : list N) : part :=
  let ents := scan bytes in
  let m := max_ins ents in
  {| seg := take0 (N.to_nat (scan_end ents - HDR)) bytes;
     seq := if p + 1 <=? m then m + 8 else p + 1;
     ix := replay ents |}.

Definition reopen1 (p : N) (st : part) : part := open_part p (seg st).

(** [SeriesPartitionCompactor.Compact]: the index is rebuilt from the segment entries. *)
Definition compact1 (st : part) : part :=
  {| seg := seg st; seq := seq st; ix := replay (scan (seg st)) |}.

(** Crash while the entry [e] is being appended: only its first [n] bytes reach the file; restart. *)
Definition crash_append (p : N) (st : part) (e : entry) (n : nat) : part :=
  open_part p (seg st ++ firstn n (enc e)).

(** [SeriesPartition.SeriesKey] *)
Definition key_of (st : part) (id : N) : key :=
  if id =? 0 then []
  else let off := find_off (ix st) id in
       if off =? 0 then [] else key_at (seg st) off.

(** ** Series file: partitions indexed by number (the real file has 0..7) *)
Definition PARTN : N := 8.
Definition fstate := N -> part.
Definition init_file : fstate := init_part.
Definition upd (s : fstate) (p : N) (st : part) : fstate := fun q => if q =? p then st else s q.
(** [SeriesIDPartitionID]: [(id - 1) % 8] in uint64 arithmetic (id 0 wraps to 7). *)
Definition id_part (id : N) : N := if id =? 0 then 7 else (id - 1) mod PARTN.

Inductive op :=
| OCreate (ks : list (N * key))          (* (partition of the key, key) *)
| ODelete (id : N)
| OReopen
| OCompact
| OCrashCreate (p : N) (k : key) (n : nat)
| OCrashDelete (id : N) (n : nat).

Fixpoint create_list (s : fstate) (ks : list (N * key)) : fstate * list N :=
  match ks with
  | [] => (s, [])
  | (p, k) :: r =>
      let '(st, id) := create1 (s p) k in
      let '(s', ids) := create_list (upd s p st) r in
      (s', id :: ids)
  end.

Definition step (s : fstate) (o : op) : fstate * list N :=
  match o with
  | OCreate ks => create_list s ks
  | ODelete id => let p := id_part id in (upd s p (delete1 (s p) id), [])
  | OReopen => (fun p => reopen1 p (s p), [])
  | OCompact => (fun p => compact1 (s p), [])
  | OCrashCreate p k n =>
      let st := s p in
      let s1 := if negb (find_id (ix st) k =? 0) then s
                else upd s p {| seg := seg st ++ firstn n (enc (Ins (seq st) k)); seq := seq st; ix := ix st |} in
      (fun q => reopen1 q (s1 q), [])
  | OCrashDelete id n =>
      let p := id_part id in
      let st := s p in
      let s1 := if is_deleted (ix st) id then s
                else upd s p {| seg := seg st ++ firstn n (enc (Tomb id)); seq := seq st; ix := ix st |} in
      (fun q => reopen1 q (s1 q), [])
  end.

Fixpoint run (s : fstate) (ops : list op) : fstate :=
  match ops with
  | [] => s
  | o :: r => run (fst (step s o)) r
  end.

(** File-level observables. *)
Definition f_find (s : fstate) (pk : N * key) : N := find_id (ix (s (fst pk))) (snd pk).
Definition f_deleted (s : fstate) (id : N) : bool := is_deleted (ix (s (id_part id))) id.
Definition f_key (s : fstate) (id : N) : key := key_of (s (id_part id)) id.

(** ** Correspondence case

    Compact encoding (Coq parses literals slowly): a byte string is [length :: 7-byte big-endian
    chunks] ([unpack]); ops name keys by their index in the key domain; a table row is one
    number; the id table of a step lists only the rows that are new or changed since the
    previous step (the driver's candidate id set only grows); an empty [s_ids] means "same as
    after the previous step"; the final segment contents are compared through a polynomial
    hash ([bhash]) computed by both sides. *)
Definition chunk7 (x : N) : list N := map (byte_at x) [6; 5; 4; 3; 2; 1; 0].
Definition unpack (l : list N) : list N :=
  match l with
  | [] => []
  | len :: chunks => firstn (N.to_nat len) (flat_map chunk7 chunks)
  end.

Definition HMOD : N := 2305843009213693951. (* 2^61 - 1 *)
Definition bhash (l : list N) : N :=
  fold_left (fun h b => (h * 257 + b + 1) mod HMOD) l (N.of_nat (length l)).

Inductive cop :=
| CCreate (ks : list N) | CDelete (id : N) | CReopen | CCompact
| CCrashCreate (k n : N) | CCrashDelete (id n : N).

(** A table row [(id * 2 + d) * 4096 + c]: id, d = IsDeleted(id) (0/1), c = SeriesKey(id) as a
    code: 0 = nil, i+1 = key i of the domain (i < 1000), 1001+j = the j-th raw key of the step. *)
Definition trow := N.
Record srec := { s_op : cop; s_res : list N;
                 s_ids : list N;      (* SeriesID of every key of the domain *)
                 s_tab : list trow;   (* new/changed rows *)
                 s_raw : list (list N) }. (* packed raw (garbage) keys *)
Record case := { c_keys : list (N * list N);   (* key domain: (partition, packed series key) *)
                 c_steps : list srec;
                 c_final : list N;        (* bhash of bytes [5,size) of the segment of partitions 0..7 *)
                 c_mode : N }.
(** [c_mode = 1]: "segment roll-over" histories (a partition's first 4 MiB segment is filled with
    ~64 KiB keys so that entries land in segment 0001).  The model has one segment per
    partition and the key bytes are not shipped (keys are interned as short placeholders), so
    such a case is judged by the trace ORACLE only; the model comparison is skipped. *)

Definition keydom := list (N * key).
Definition kth (K : keydom) (i : N) : N * key := nth (N.to_nat i) K (0, []).

Definition resolve (K : keydom) (o : cop) : op :=
  match o with
  | CCreate ks => OCreate (map (kth K) ks)
  | CDelete id => ODelete id
  | CReopen => OReopen
  | CCompact => OCompact
  | CCrashCreate k n => OCrashCreate (fst (kth K k)) (snd (kth K k)) (N.to_nat n)
  | CCrashDelete id n => OCrashDelete id (N.to_nat n)
  end.

(** Observed row with the key decoded: (id, deleted, key bytes). *)
Definition orow := (N * (bool * key))%type.
Definition decode_row (K : keydom) (raw : list (list N)) (r : trow) : orow :=
  let c := r mod 4096 in
  let d := (r / 4096) mod 2 in
  let id := r / 8192 in
  (id, (negb (d =? 0),
        if c =? 0 then []
        else if c <=? 1000 then snd (kth K (c - 1))
        else unpack (nth (N.to_nat (c - 1001)) raw []))).

Fixpoint overlay1 (T : list orow) (r : orow) : list orow :=
  match T with
  | [] => [r]
  | x :: T' => if fst x =? fst r then r :: T' else x :: overlay1 T' r
  end.
Definition overlay (T : list orow) (rs : list orow) : list orow := fold_left overlay1 rs T.

Definition Ns_eqb := list_eqb N.eqb.

(** Evaluation device only: tabulate a file state on partitions 0..7 so that [vm_compute]
    (call by value) computes each partition once per step instead of re-running the closures
    of all earlier steps at every lookup.  [tab s p = s p] for every [p]. *)
Definition tab (s : fstate) : fstate :=
  let l := map s [0; 1; 2; 3; 4; 5; 6; 7] in
  fun q => if q <? 8 then nth (N.to_nat q) l (s q) else s q.

(** Model side of one observation. *)
Definition row_same (s : fstate) (row : orow) : bool :=
  let '(id, (del, kb)) := row in
  let d := f_deleted s id in
  Bool.eqb del d && (d || key_eqb kb (f_key s id)).

Definition ids_of (prev : list N) (r : srec) : list N :=
  match s_ids r with [] => prev | l => l end.

Fixpoint steps_same (K : keydom) (s : fstate) (prev : list N) (T : list orow) (l : list srec) : bool * fstate :=
  match l with
  | [] => (true, s)
  | r :: rest =>
      let '(s0, res) := step s (resolve K (s_op r)) in
      let s' := tab s0 in
      let T' := overlay T (map (decode_row K (s_raw r)) (s_tab r)) in
      if Ns_eqb (s_res r) res && Ns_eqb (ids_of prev r) (map (f_find s') K) && forallb (row_same s') T'
      then steps_same K s' (ids_of prev r) T' rest
      else (false, s')
  end.

(** ** Oracle: the property, stated on the observed trace alone (no model state). *)
Definition in_keys (k : key) (ks : list (N * key)) : bool := existsb (fun pk => key_eqb (snd pk) k) ks.

(** May the id of key [k] change from [a] to [b] under [o]?  [issued]: every id seen before. *)
Definition change_ok (issued : list N) (o : op) (k : key) (a b : N) : bool :=
  let fresh := negb (b =? 0) && negb (memN b issued) in
  match o with
  | OCreate ks =>
      if in_keys k ks then (if a =? 0 then fresh else b =? a) else b =? a
  | ODelete id => if (a =? id) then b =? 0 else b =? a
  | OReopen | OCompact => b =? a
  | OCrashCreate _ k' _ => if key_eqb k' k && (a =? 0) then (b =? 0) || fresh else b =? a
  | OCrashDelete id _ => if a =? id then (b =? 0) || (b =? a) else b =? a
  end.

Fixpoint all_change_ok (issued : list N) (o : op) (K : keydom) (A B : list N) : bool :=
  match K, A, B with
  | [], [], [] => true
  | pk :: K', a :: A', b :: B' => change_ok issued o (snd pk) a b && all_change_ok issued o K' A' B'
  | _, _, _ => false
  end.

(** The ids returned by a create are the ids the keys have afterwards. *)
Fixpoint res_ok (K : keydom) (B : list N) (ks : list (N * key)) (res : list N) : bool :=
  match ks, res with
  | [], [] => true
  | pk :: ks', r :: res' =>
      negb (r =? 0) &&
      existsb (fun kb => key_eqb (snd (fst kb)) (snd pk) && (snd kb =? r)) (combine K B) &&
      res_ok K B ks' res'
  | _, _ => false
  end.

Fixpoint nodup_nz (l : list N) : bool :=
  match l with
  | [] => true
  | x :: r => ((x =? 0) || negb (memN x r)) && nodup_nz r
  end.

(** [owners]: (id, key) for every id ever observed as the id of a key.  A live id shows its
    key and is not deleted; an id that was a key's id and no longer is reads as deleted and
    shows either no key or still that key — never another one. *)
Definition row_ok (owners : list (N * key)) (live : list N) (row : orow) : bool :=
  let '(id, (del, b)) := row in
  forallb (fun ok : N * key =>
             if fst ok =? id then
               if memN id live then negb del && key_eqb b (snd ok)
               else del && (match b with [] => true | _ => key_eqb b (snd ok) end)
             else true) owners.

Fixpoint steps_ok (K : keydom) (prev : list N) (issued : list N) (owners : list (N * key))
         (T : list orow) (l : list srec) : bool :=
  match l with
  | [] => true
  | r :: rest =>
      let B := ids_of prev r in
      let o := resolve K (s_op r) in
      let T' := overlay T (map (decode_row K (s_raw r)) (s_tab r)) in
      let owners' := filter (fun ok => negb (fst ok =? 0)) (combine B (map snd K)) ++ owners in
      all_change_ok issued o K prev B
      && (match o with OCreate ks => res_ok K B ks (s_res r) | _ => match s_res r with [] => true | _ => false end end)
      && nodup_nz B
      && forallb (row_ok owners' B) T'
      && steps_ok K B (B ++ s_res r ++ issued) owners' T' rest
  end.

(** mode 1: keys are interned by their position in the domain *)
Fixpoint number_keys (i : N) (l : list (N * list N)) : keydom :=
  match l with
  | [] => []
  | pk :: r => (fst pk, [i]) :: number_keys (i + 1) r
  end.

Definition check (c : case) : verdict :=
  let K := if c_mode c =? 1 then number_keys 0 (c_keys c)
           else map (fun pk => (fst pk, unpack (snd pk))) (c_keys c) in
  let same :=
    if c_mode c =? 1 then true
    else
      let '(sm, s) := steps_same K init_file (map (fun _ => 0) K) [] (c_steps c) in
      sm && Ns_eqb (c_final c) (map (fun p => bhash (seg (s p))) [0; 1; 2; 3; 4; 5; 6; 7]) in
  let ok := steps_ok K (map (fun _ => 0) K) [] [] [] (c_steps c) in
  judge same ok.
