// C18 driver: histories on the REAL meta.Client (in-memory KV store) and the real
// coordinator.PointsWriter.MapShards: set shard-group duration, CreateShardGroup,
// ShardGroupByTimestamp, ShardGroupsByTimeRange, DeleteShardGroup, persist + reload
// (new Client opened on the same store, or Client.Reload), MapShards of a batch.
// After every step the shard groups of the retention policy (id, start, end, deleted)
// are observed; instants are rendered as unbounded integers (ns since 1970) because
// time.Time holds start times outside the int64 nanosecond range.
package main

import (
	"context"
	"errors"
	"fmt"
	"math/big"
	"sort"
	"strings"
	"time"

	"github.com/influxdata/influxdb/v2/inmem"
	"github.com/influxdata/influxdb/v2/kv"
	"github.com/influxdata/influxdb/v2/models"
	"github.com/influxdata/influxdb/v2/v1/coordinator"
	"github.com/influxdata/influxdb/v2/v1/services/meta"
	"verifh/vh"
)

const (
	minNano = models.MinNanoTime
	maxNano = models.MaxNanoTime
	sigWrap = "shardgroup-start-before-int64-range"
)

type jop struct {
	K    string  `json:"k"` // setd create lookup range delete reload write failnext (= the next store Update fails once)
	T    int64   `json:"t"`
	Lo   int64   `json:"lo,omitempty"`
	Hi   int64   `json:"hi,omitempty"`
	ID   uint64  `json:"id,omitempty"`
	D    int64   `json:"d,omitempty"`
	Ts   []int64 `json:"ts,omitempty"`
	Mode int     `json:"mode,omitempty"` // reload: 0 new client on the same store, 1 Client.Reload
}
type jgroup struct {
	ID    uint64 `json:"id"`
	Start string `json:"start"`
	End   string `json:"end"`
	Del   bool   `json:"deleted"`
}
type jres struct {
	Kind   string   `json:"kind"` // unit err group id ids map
	Group  *jgroup  `json:"group,omitempty"`
	ID     *uint64  `json:"gid,omitempty"`
	IDs    []uint64 `json:"ids,omitempty"`
	Map    []int64  `json:"map,omitempty"` // group id per point, -1 = dropped/unmapped
	Err    string   `json:"err,omitempty"`
	Groups []jgroup `json:"groups_after"`
}
type jcase struct {
	D   int64  `json:"d0"`
	Ops []jop  `json:"ops"`
	Res []jres `json:"impl"`
}

var off = new(big.Int).Mul(big.NewInt(62135596800), big.NewInt(1000000000))

func bigOf(t time.Time) *big.Int {
	z := new(big.Int).Mul(big.NewInt(t.Unix()), big.NewInt(1000000000))
	return z.Add(z, big.NewInt(int64(t.Nanosecond())))
}
func zlit(s string) string {
	v, ok := new(big.Int).SetString(s, 10)
	if !ok {
		panic("bad integer " + s)
	}
	return zfast(v)
}

// truncated start (relative to year 1) as a big integer, from the inputs only
func truncBig(t, d int64) *big.Int {
	bt := big.NewInt(t)
	if d <= 0 {
		return bt
	}
	m := new(big.Int).Add(bt, off)
	m.Mod(m, big.NewInt(d)) // t+off > 0 for all int64 t
	return new(big.Int).Sub(bt, m)
}

type nopStore struct{}

func (nopStore) CreateShard(ctx context.Context, database, retentionPolicy string, shardID uint64, enabled bool) error {
	return nil
}
func (nopStore) WriteToShard(ctx context.Context, shardID uint64, points []models.Point) error {
	return nil
}

// flakyStore is the in-memory kv store with fault injection: while failNext > 0 an Update
// transaction fails before anything is written (disk full / I/O error during a metadata commit).
type flakyStore struct {
	*inmem.KVStore
	failNext int
}

func (s *flakyStore) Update(ctx context.Context, fn func(kv.Tx) error) error {
	if s.failNext > 0 {
		s.failNext--
		return errors.New("injected: no space left on device")
	}
	return s.KVStore.Update(ctx, fn)
}

type env struct {
	store *flakyStore
	c     *meta.Client
	pw    *coordinator.PointsWriter
}

// zfast renders an integer as a Gallina Z term.  Coq 8.16 elaborates a 19-digit decimal
// literal in ~5 ms but the explicit binary constructor form in ~0.5 ms, which dominates the
// run time of a shard (the judge itself runs in microseconds), so large values are written
// as Zpos/Zneg constructor terms.
func zfast(v *big.Int) string {
	if v.IsInt64() && v.Int64() > -1000000 && v.Int64() < 1000000 {
		if v.Sign() < 0 {
			return fmt.Sprintf("(%d)%%Z", v.Int64())
		}
		return fmt.Sprintf("%d%%Z", v.Int64())
	}
	a := new(big.Int).Abs(v)
	bits := a.Text(2)
	var b strings.Builder
	if v.Sign() < 0 {
		b.WriteString("(Zneg ")
	} else {
		b.WriteString("(Zpos ")
	}
	// most significant bit is xH, innermost; least significant bit is the outermost constructor
	for i := len(bits) - 1; i >= 1; i-- {
		if bits[i] == '1' {
			b.WriteString("(xI ")
		} else {
			b.WriteString("(xO ")
		}
	}
	b.WriteString("xH")
	b.WriteString(strings.Repeat(")", len(bits)))
	return b.String()
}
func zz(v int64) string { return zfast(big.NewInt(v)) }
func zzs(vs []int64) string {
	xs := make([]string, len(vs))
	for i, v := range vs {
		xs[i] = zz(v)
	}
	return vh.List(xs)
}

func must(err error) {
	if err != nil {
		panic(err)
	}
}

func newEnv(d int64) *env {
	e := &env{}
	e.store = &flakyStore{KVStore: inmem.NewKVStore()}
	must(e.store.CreateBucket(context.Background(), meta.BucketName))
	cfg := meta.NewConfig()
	cfg.RetentionAutoCreate = false
	e.c = meta.NewClient(cfg, e.store)
	must(e.c.Open())
	_, err := e.c.CreateDatabase("db")
	must(err)
	zero := time.Duration(0)
	_, err = e.c.CreateRetentionPolicy("db", &meta.RetentionPolicySpec{Name: "rp", Duration: &zero, ShardGroupDuration: time.Hour}, true)
	must(err)
	e.setD(d)
	e.pw = coordinator.NewPointsWriter(time.Second, "verif-c18")
	e.pw.MetaClient = e.c
	e.pw.TSDBStore = nopStore{}
	return e
}

// the shard group duration is set directly in the Data (CreateRetentionPolicy /
// UpdateRetentionPolicy normalise durations below 1h to 1h; the property quantifies
// over all durations)
func (e *env) setD(d int64) {
	// harness manipulation, not under test: never failed (a pending failure stays pending)
	pending := e.store.failNext
	e.store.failNext = 0
	defer func() { e.store.failNext = pending }()
	data := e.c.Data()
	data.Databases[0].RetentionPolicies[0].ShardGroupDuration = time.Duration(d)
	must(e.c.SetData(&data))
}

func (e *env) groups() []jgroup {
	data := e.c.Data()
	var out []jgroup
	for _, g := range data.Databases[0].RetentionPolicies[0].ShardGroups {
		out = append(out, jgroup{ID: g.ID, Start: bigOf(g.StartTime).String(), End: bigOf(g.EndTime).String(), Del: g.Deleted()})
	}
	sort.Slice(out, func(i, j int) bool { return out[i].ID < out[j].ID })
	return out
}

func (e *env) reload(mode int) {
	if mode == 1 {
		must(e.c.Reload())
		return
	}
	cfg := meta.NewConfig()
	cfg.RetentionAutoCreate = false
	c2 := meta.NewClient(cfg, e.store)
	must(c2.Open())
	e.c = c2
	e.pw.MetaClient = c2
}

func (e *env) exec(o jop) (r jres) {
	switch o.K {
	case "setd":
		e.setD(o.D)
		r.Kind = "unit"
	case "create":
		g, err := e.c.CreateShardGroup("db", "rp", time.Unix(0, o.T))
		if err != nil {
			r.Kind, r.Err = "err", err.Error()
		} else {
			r.Kind = "group"
			if g != nil {
				r.Group = &jgroup{ID: g.ID, Start: bigOf(g.StartTime).String(), End: bigOf(g.EndTime).String(), Del: g.Deleted()}
			}
		}
	case "lookup":
		data := e.c.Data()
		g, err := data.ShardGroupByTimestamp("db", "rp", time.Unix(0, o.T))
		if err != nil {
			r.Kind, r.Err = "err", err.Error()
		} else {
			r.Kind = "id"
			if g != nil {
				id := g.ID
				r.ID = &id
			}
		}
	case "range":
		gs, err := e.c.ShardGroupsByTimeRange("db", "rp", time.Unix(0, o.Lo), time.Unix(0, o.Hi))
		if err != nil {
			r.Kind, r.Err = "err", err.Error()
		} else {
			r.Kind = "ids"
			r.IDs = []uint64{}
			for _, g := range gs {
				r.IDs = append(r.IDs, g.ID)
			}
			sort.Slice(r.IDs, func(i, j int) bool { return r.IDs[i] < r.IDs[j] })
		}
	case "delete":
		if err := e.c.DeleteShardGroup("db", "rp", o.ID); err != nil {
			r.Kind, r.Err = "err", err.Error()
		} else {
			r.Kind = "unit"
		}
	case "reload":
		e.reload(o.Mode)
		r.Kind = "unit"
	case "failnext":
		e.store.failNext = 1
		r.Kind = "unit"
	case "write":
		pts := make([]models.Point, len(o.Ts))
		for i, t := range o.Ts {
			pts[i] = models.MustNewPoint("m", models.NewTags(map[string]string{"i": fmt.Sprint(i)}), models.Fields{"v": 1.0}, time.Unix(0, t))
		}
		m, err := e.pw.MapShards(&coordinator.WritePointsRequest{Database: "db", RetentionPolicy: "rp", Points: pts})
		if err != nil {
			r.Kind, r.Err = "err", err.Error()
			break
		}
		r.Kind = "map"
		// shard id -> group id, from the meta data
		data := e.c.Data()
		sh2g := map[uint64]uint64{}
		for _, g := range data.Databases[0].RetentionPolicies[0].ShardGroups {
			for _, s := range g.Shards {
				sh2g[s.ID] = g.ID
			}
		}
		r.Map = make([]int64, len(pts))
		for i, p := range pts {
			r.Map[i] = -1
			for sid, ps := range m.Points {
				for _, q := range ps {
					if string(q.Key()) == string(p.Key()) && q.UnixNano() == p.UnixNano() {
						if gid, ok := sh2g[sid]; ok {
							r.Map[i] = int64(gid)
						}
					}
				}
			}
		}
	default:
		panic("bad op " + o.K)
	}
	r.Groups = e.groups()
	return r
}

func gterm(g jgroup) string {
	return fmt.Sprintf("{| g_id := %s; g_start := %s; g_end := %s; g_del := %s |}", vh.N(g.ID), zlit(g.Start), zlit(g.End), vh.Bool(g.Del))
}
func opTerm(o jop) string {
	switch o.K {
	case "setd":
		return "OSetD " + zz(o.D)
	case "create":
		return "OCreate " + zz(o.T)
	case "lookup":
		return "OLookup " + zz(o.T)
	case "range":
		return "ORange " + zz(o.Lo) + " " + zz(o.Hi)
	case "delete":
		return "ODelete " + vh.N(o.ID)
	case "reload":
		return "OReload"
	case "failnext":
		return "OFailNext"
	case "write":
		return "OWrite " + zzs(o.Ts)
	}
	panic("bad op")
}
func resTerm(r jres, prev *jres) string {
	var ob string
	switch r.Kind {
	case "unit":
		ob = "RUnit"
	case "err":
		ob = "RErr"
	case "group":
		if r.Group == nil {
			ob = "(RGroup None)"
		} else {
			ob = fmt.Sprintf("(RGroup (Some (%s, %s, %s)))", vh.N(r.Group.ID), zlit(r.Group.Start), zlit(r.Group.End))
		}
	case "id":
		ob = "(RId " + vh.OptN(r.ID) + ")"
	case "ids":
		ob = "(RIds " + vh.Ns(r.IDs) + ")"
	case "map":
		xs := make([]string, len(r.Map))
		for i, v := range r.Map {
			if v < 0 {
				xs[i] = "None"
			} else {
				xs[i] = vh.Some(vh.N(uint64(v)))
			}
		}
		ob = "(RMap " + vh.List(xs) + ")"
	}
	if prev != nil && fmt.Sprint(prev.Groups) == fmt.Sprint(r.Groups) {
		return vh.Pair(ob, "None")
	}
	gs := make([]string, len(r.Groups))
	for i, g := range r.Groups {
		gs[i] = gterm(g)
	}
	return vh.Pair(ob, vh.Some(vh.List(gs)))
}

var minInt64Big = new(big.Int).SetInt64(-1 << 63)

// the FORMER known-finding shape (now only counted), decided from the inputs only: some create/write timestamp
// whose window start (truncation with the duration in force) is before MinInt64 ns,
// followed later by a reload.
func shapeSig(c *jcase) string {
	d := c.D
	pending := false
	for _, o := range c.Ops {
		switch o.K {
		case "setd":
			d = o.D
		case "create":
			if truncBig(o.T, d).Cmp(minInt64Big) < 0 {
				pending = true
			}
		case "write":
			for _, t := range o.Ts {
				if truncBig(t, d).Cmp(minInt64Big) < 0 {
					pending = true
				}
			}
		case "reload":
			if pending {
				return sigWrap
			}
		}
	}
	return ""
}

func run(w *vh.W, c *jcase) {
	c.Res = nil
	var e *env
	if p := vh.Guard(func() {
		e = newEnv(c.D)
		for _, o := range c.Ops {
			c.Res = append(c.Res, e.exec(o))
		}
	}); p != "" {
		idx := w.Add(fmt.Sprintf("{| c_d := %s; c_ops := []; c_res := [] |}", zz(c.D)), c, false, "")
		w.Fail(idx, "panic on the real code: "+p, "")
		return
	}
	ops := make([]string, len(c.Ops))
	res := make([]string, len(c.Res))
	ncreate, nreload, ngroups := 0, 0, 0
	for i, o := range c.Ops {
		ops[i] = opTerm(o)
		var prev *jres
		if i > 0 {
			prev = &c.Res[i-1]
		}
		res[i] = resTerm(c.Res[i], prev)
		w.Count("op", o.K)
		switch o.K {
		case "create", "write":
			ncreate++
		case "reload":
			nreload++
		}
	}
	if len(c.Res) > 0 {
		ngroups = len(c.Res[len(c.Res)-1].Groups)
	}
	// former finding shape (fixed by /repo commit f8af500a39): still generated and counted, no longer tolerated
	sig := shapeSig(c)
	t := fmt.Sprintf("{| c_d := %s; c_ops := %s; c_res := %s |}", zz(c.D), vh.List(ops), vh.List(res))
	w.Add(t, c, ngroups >= 2 && nreload >= 1 && ncreate >= 2, "")
	w.Count("groups_final", fmt.Sprint(min(ngroups, 8)))
	w.Count("window_start_before_minint64_then_reload", fmt.Sprint(sig != ""))
}

var durations = []int64{1, 2, 3, 7, 10, 999, 1000, 1e6, 1e9, 60e9, 3600e9, 86400e9, 7 * 86400e9, 30 * 86400e9,
	365 * 86400e9, 3155760000000000000, 1 << 62, 1<<63 - 1, 1<<63 - 2, 1 << 61, 4611686018427387905}

func clampNano(b *big.Int) int64 {
	if b.Cmp(big.NewInt(minNano)) < 0 {
		return minNano
	}
	if b.Cmp(big.NewInt(maxNano)) > 0 {
		return maxNano
	}
	return b.Int64()
}

func main() {
	w := vh.New("C18", "From Verif Require Import Base.Prelude Model.C18.\nLocal Open Scope Z_scope.", "case", "check")
	w.Rule = "histories of 3-9 ops (setd/create/lookup/range/delete/reload/write, plus failnext = the next kv-store Update fails once, usually followed by a create/write that needs a new group, its retry and a reload) on one retention policy of a real meta.Client; durations from 1ns to MaxInt64 ns, changed mid-history so that clipping against existing groups happens; timestamps: MinNanoTime/MaxNanoTime and neighbours, 0 and +-1, +-1 around window boundaries relative to year 1 (Go's Truncate) and relative to 1970, +-1 around bounds of earlier windows, a small cluster around a random centre. Hand-picked histories first. Non-trivial: >=2 creates/writes, >=2 groups at the end and >=1 reload. Distinct: distinct Gallina terms."
	var rc jcase
	if w.ReplayCase(&rc) {
		run(w, &rc)
		w.Finish()
		return
	}
	r := w.Rng
	h := 3600e9
	hand := []jcase{
		// F4 candidate (bounds exactly at Unix 0): must round-trip
		{D: int64(h), Ops: []jop{{K: "create", T: 0}, {K: "create", T: -1}, {K: "reload"}, {K: "lookup", T: 0}, {K: "lookup", T: -1}, {K: "range", Lo: -5, Hi: 5}, {K: "write", Ts: []int64{0, -1, 1}}}},
		// former finding (fixed in f8af500a39): window start before MinInt64 ns, then restart
		{D: int64(h), Ops: []jop{{K: "create", T: minNano}, {K: "reload"}, {K: "lookup", T: minNano}, {K: "range", Lo: minNano, Hi: minNano}, {K: "create", T: minNano}}},
		{D: 7 * 86400e9, Ops: []jop{{K: "write", Ts: []int64{minNano + 5, minNano + 86400e9}}, {K: "reload", Mode: 1}, {K: "write", Ts: []int64{minNano + 5}}}},
		// upper extreme: end clamped to MaxNanoTime+1
		{D: int64(h), Ops: []jop{{K: "create", T: maxNano}, {K: "create", T: maxNano - 1}, {K: "reload"}, {K: "lookup", T: maxNano}, {K: "range", Lo: maxNano, Hi: maxNano}}},
		{D: 1<<63 - 1, Ops: []jop{{K: "create", T: maxNano}, {K: "create", T: 0}, {K: "create", T: minNano}, {K: "reload"}, {K: "write", Ts: []int64{maxNano, 0, minNano}}}},
		// clipping after a duration change
		{D: 10, Ops: []jop{{K: "create", T: 1005}, {K: "setd", D: 7}, {K: "create", T: 998}, {K: "create", T: 1012}, {K: "setd", D: 100}, {K: "create", T: 950}, {K: "reload"}, {K: "range", Lo: 900, Hi: 1100}}},
		// store failure exactly during the commit that creates a group, retry, further write, restart, look-ups, new window
		{D: int64(h), Ops: []jop{{K: "create", T: 1000 * int64(h)}, {K: "failnext"}, {K: "create", T: 2000*int64(h) + 5}, {K: "create", T: 2000*int64(h) + 5}, {K: "write", Ts: []int64{2000*int64(h) + 9}}, {K: "reload"}, {K: "lookup", T: 2000*int64(h) + 5}, {K: "range", Lo: 2000 * int64(h), Hi: 2000*int64(h) + 10}, {K: "create", T: 3000 * int64(h)}}},
		{D: 1000, Ops: []jop{{K: "failnext"}, {K: "write", Ts: []int64{5500, 7500}}, {K: "write", Ts: []int64{5500, 7500}}, {K: "reload", Mode: 1}, {K: "write", Ts: []int64{5501, 9000}}, {K: "failnext"}, {K: "delete", ID: 1}, {K: "lookup", T: 5500}, {K: "reload"}, {K: "lookup", T: 5500}}},
		// delete then re-create the same window
		{D: 1000, Ops: []jop{{K: "create", T: 5500}, {K: "delete", ID: 1}, {K: "create", T: 5500}, {K: "delete", ID: 9}, {K: "reload"}, {K: "lookup", T: 5500}, {K: "write", Ts: []int64{5000, 5999, 6000, 4999}}}},
	}
	for i := range hand {
		run(w, &hand[i])
	}
	for w.Len() < w.N {
		d := durations[r.IntN(len(durations))]
		if r.IntN(5) == 0 {
			d = 1 + r.Int64N(1<<uint(1+r.IntN(62)))
		}
		c := jcase{D: d}
		// centre of the cluster
		var centre int64
		switch r.IntN(8) {
		case 0:
			centre = minNano
		case 1:
			centre = maxNano
		case 2:
			centre = 0
		case 3:
			centre = minNano + r.Int64N(1<<uint(1+r.IntN(62)))
		case 4:
			centre = maxNano - r.Int64N(1<<uint(1+r.IntN(62)))
		case 5:
			centre = r.Int64N(1<<uint(1+r.IntN(62))) - r.Int64N(1<<uint(1+r.IntN(62)))
		case 6:
			centre = -r.Int64N(1 << uint(1+r.IntN(62)))
		default:
			centre = 1600000000e9 + r.Int64N(1e17)
		}
		var seen []int64 // timestamps and bounds seen so far
		curD := d
		pick := func() int64 {
			var b *big.Int
			switch r.IntN(9) {
			case 0: // extremes
				return []int64{minNano, minNano + 1, maxNano, maxNano - 1, 0, -1, 1}[r.IntN(7)]
			case 1, 2: // +-1 around a window boundary relative to year 1
				b = truncBig(centre, curD)
				b.Add(b, new(big.Int).Mul(big.NewInt(curD), big.NewInt(int64(r.IntN(4)-1))))
				b.Add(b, big.NewInt(int64(r.IntN(3)-1)))
			case 3: // +-1 around a multiple of d relative to 1970
				b = big.NewInt(centre)
				m := new(big.Int).Mod(b, big.NewInt(curD))
				b = new(big.Int).Sub(b, m)
				b.Add(b, new(big.Int).Mul(big.NewInt(curD), big.NewInt(int64(r.IntN(3)-1))))
				b.Add(b, big.NewInt(int64(r.IntN(3)-1)))
			case 4, 5: // near something seen before
				if len(seen) > 0 {
					b = big.NewInt(seen[r.IntN(len(seen))])
					b.Add(b, big.NewInt(int64(r.IntN(5)-2)))
				} else {
					b = big.NewInt(centre)
				}
			default: // cluster within a few windows of the centre
				b = big.NewInt(centre)
				span := new(big.Int).Mul(big.NewInt(curD), big.NewInt(3))
				if span.IsInt64() && span.Int64() > 0 && span.Int64() < 1<<61 {
					b.Add(b, big.NewInt(r.Int64N(2*span.Int64())-span.Int64()))
				} else {
					b.Add(b, big.NewInt(r.Int64N(1<<62)-(1<<61)))
				}
			}
			return clampNano(b)
		}
		nops := 3 + r.IntN(7)
		ngroups := uint64(0)
		for i := 0; i < nops; i++ {
			var o jop
			if r.IntN(7) == 0 { // store failure during the next commit, then (usually) the same request again
				c.Ops = append(c.Ops, jop{K: "failnext"})
				var f jop
				if r.IntN(3) == 0 {
					f = jop{K: "write", Ts: []int64{pick(), pick()}}
					seen = append(seen, f.Ts...)
					ngroups += 2
				} else {
					f = jop{K: "create", T: pick()}
					seen = append(seen, f.T)
					ngroups++
				}
				c.Ops = append(c.Ops, f)
				if r.IntN(5) != 0 {
					c.Ops = append(c.Ops, f)
				}
				if r.IntN(2) == 0 {
					c.Ops = append(c.Ops, jop{K: "reload", Mode: r.IntN(2)})
				}
				continue
			}
			switch k := r.IntN(20); {
			case k < 6:
				o = jop{K: "create", T: pick()}
				seen = append(seen, o.T)
				ngroups++
			case k < 9:
				n := 1 + r.IntN(4)
				o = jop{K: "write"}
				for j := 0; j < n; j++ {
					o.Ts = append(o.Ts, pick())
				}
				seen = append(seen, o.Ts...)
				ngroups += uint64(n)
			case k < 11:
				o = jop{K: "lookup", T: pick()}
			case k < 13:
				a, b := pick(), pick()
				if a > b && r.IntN(8) != 0 {
					a, b = b, a
				}
				o = jop{K: "range", Lo: a, Hi: b}
			case k < 14:
				o = jop{K: "delete", ID: 1 + uint64(r.IntN(int(ngroups)+2))}
			case k < 17:
				o = jop{K: "reload", Mode: r.IntN(2)}
			default:
				nd := durations[r.IntN(len(durations))]
				if r.IntN(2) == 0 { // a nearby duration so that windows interleave
					nd = curD/2 + 1 + r.Int64N(curD/2+2)
				}
				if nd <= 0 {
					nd = 1
				}
				o = jop{K: "setd", D: nd}
				curD = nd
			}
			c.Ops = append(c.Ops, o)
		}
		run(w, &c)
	}
	w.Finish()
}
