// C12 mode: models.ParsePointsWithPrecision (and its http/points wrapper) on structured
// near-valid lines and on raw random bytes; the accepted points (through their public
// accessors) and the lines named in the error go to the Coq judge of Model/C12.v.
package main

import (
	"bytes"
	"context"
	"errors"
	"fmt"
	"io"
	"sort"
	"strings"
	"time"

	"github.com/influxdata/influxdb/v2/http/points"
	errors2 "github.com/influxdata/influxdb/v2/kit/platform/errors"
	"github.com/influxdata/influxdb/v2/models"
	"verifh/vh"
)

const sigTokenMismatch = "field-tokenization-mismatch-escaped-backslash"

type j12 struct {
	Body    []byte   `json:"body"`
	BodyQ   string   `json:"body_q"`
	Prec    string   `json:"precision"`
	Dflt    int64    `json:"default_time"`
	Stream  string   `json:"stream"`
	Points  []jview  `json:"impl_points"`
	Rej     [][]byte `json:"impl_rejected"`
	RejQ    []string `json:"impl_rejected_q"`
	Reasons []string `json:"impl_reasons"`
	HErr    bool     `json:"http_err"`
	HRej    [][]byte `json:"http_rejected"`
	HN      int      `json:"http_npoints"`
}

func run12(w *vh.W, c *j12) {
	idx := w.Len()
	c.BodyQ = q(c.Body)
	c.Points, c.Rej, c.RejQ, c.Reasons, c.HRej = nil, nil, nil, nil, nil
	body := clone(c.Body)
	var pts []models.Point
	var err error
	fail := guarded(func() {
		pts, err = models.ParsePointsWithPrecision(body, time.Unix(0, c.Dflt).UTC(), c.Prec)
		for _, p := range pts {
			c.Points = append(c.Points, render(p))
		}
	})
	if fail != "" {
		w.Fail(idx, "ParsePointsWithPrecision: "+fail, "")
	}
	if err != nil {
		texts, reasons, ok := splitErr(err.Error())
		if !ok {
			w.Fail(idx, "error of ParsePointsWithPrecision does not have the form unable to parse '<line>': <reason> per rejected line: "+q([]byte(err.Error())), "")
		}
		c.Rej, c.Reasons = texts, reasons
		for _, t := range texts {
			c.RejQ = append(c.RejQ, q(t))
		}
	}
	// the http wrapper on the same body
	var pp *points.ParsedPoints
	var herr error
	fail = guarded(func() {
		pp, herr = points.NewParser(c.Prec).Parse(context.Background(), 1, 2, io.NopCloser(bytes.NewReader(clone(c.Body))))
	})
	if fail != "" {
		w.Fail(idx, "http/points Parser.Parse: "+fail, "")
	}
	c.HErr = herr != nil
	c.HN = 0
	if herr != nil {
		var pe *errors2.Error
		if !errors.As(herr, &pe) || pe.Err == nil || pe.Code != errors2.EInvalid {
			w.Fail(idx, "http/points Parser.Parse: unexpected error shape "+herr.Error(), "")
		} else {
			texts, _, ok := splitErr(pe.Err.Error())
			if !ok {
				w.Fail(idx, "http/points Parser.Parse: inner error format", "")
			}
			c.HRej = texts
		}
		if pp != nil {
			w.Fail(idx, "http/points Parser.Parse returned points together with an error", "")
		}
	} else if pp != nil {
		c.HN = len(pp.Points)
		if pp.RawSize != len(c.Body) {
			w.Fail(idx, "http/points Parser.Parse RawSize differs from the body length", "")
		}
		// same points as the direct call (time only compared when the line carried one: the wrapper uses time.Now)
		if len(pp.Points) == len(pts) {
			for i := range pts {
				if !bytes.Equal(pp.Points[i].Key(), pts[i].Key()) {
					w.Fail(idx, "http/points Parser.Parse returned a different point than models.ParsePointsWithPrecision", "")
				}
			}
		}
	}

	pv := make([]string, len(c.Points))
	for i, v := range c.Points {
		pv[i] = viewTerm(v)
	}
	rj := make([]string, len(c.Rej))
	for i, t := range c.Rej {
		rj[i] = segs(t)
	}
	hr := make([]string, len(c.HRej))
	for i, t := range c.HRej {
		hr[i] = segs(t)
	}
	term := fmt.Sprintf("{| c_body := %s; c_prec := %s; c_dflt := %s; c_points := %s; c_rejected := %s; c_http_err := %s; c_http_rejected := %s; c_http_npoints := %s |}",
		segs(c.Body), vh.N(precCode(c.Prec)), vh.Z(c.Dflt), vh.List(pv), vh.List(rj), vh.Bool(c.HErr), vh.List(hr), vh.N(uint64(c.HN)))
	sig := ""
	// (bodies with TAB/NUL right before '=' are still generated - the repaired empty-field-key
	// defect - but carry no signature any more: a regression is a VIOLATION again)
	if bytes.IndexByte(c.Body, '\\') >= 0 && bytes.IndexByte(c.Body, '"') >= 0 {
		sig = sigTokenMismatch // scanFields and walkFields/FieldIterator can tokenize differently only with a backslash and a quote
	}
	nontrivial := len(c.Points) > 0 && len(c.Rej) > 0 || len(c.Points) > 1 || (len(c.Rej) > 0 && len(c.Body) > 8)
	w.Add(term, c, nontrivial, sig)
	w.Count("stream", c.Stream)
	w.Count("precision", c.Prec)
	w.Count("accepted", fmt.Sprint(min(len(c.Points), 4)))
	w.Count("rejected", fmt.Sprint(min(len(c.Rej), 4)))
	for _, r := range c.Reasons {
		w.Count("reason", reasonClass(r))
	}
	if sig != "" {
		w.Count("sig", sig)
	}
}

// ---- generators ----

type gen12 struct {
	w     *vh.W
	clean bool // pick only well-formed components
}

// the well-formed members of the component tables (classified by the real parser; input generation only)
var goodValues, goodStamps []string

func init() {
	okLine := func(l string) bool {
		ok := false
		vh.Guard(func() {
			pts, err := models.ParsePointsWithPrecision([]byte(l), time.Unix(0, 0), "ns")
			ok = err == nil && len(pts) == 1
		})
		return ok
	}
	for _, tab := range [][]string{numbers, bools, strs} {
		for _, v := range tab {
			if okLine("m f=" + v + " 1") {
				goodValues = append(goodValues, v)
			}
		}
	}
	for _, v := range stamps {
		if okLine("m f=1 " + v) {
			goodStamps = append(goodStamps, v)
		}
	}
}

func (g gen12) pick(xs ...string) string { return xs[g.w.Rng.IntN(len(xs))] }
func (g gen12) n(k int) int              { return g.w.Rng.IntN(k) }

var tokAlpha = []string{"a", "b", "a", "m", " ", ",", "=", `"`, `\`, "é", "x y", `a\ b`, `a\,b`, `a\=b`, `\\`, "0"}

func (g gen12) token(maxLen int) string {
	var b strings.Builder
	k := 1 + g.n(maxLen)
	for i := 0; i < k; i++ {
		b.WriteString(g.pick("a", "b", "c", "m", "t", "é", "0", "7", `\ `, `\,`, `\=`, "a", "b", `"`, "_"))
	}
	return b.String()
}

var numbers = []string{"0", "1", "-1", "42", "1.5", "-0", "-0.0", ".5", "5.", "-.5", "1e5", "1E+5", "1e-5", "1.e5", "1e", "1ee5", "1e+", ".e5", "+1", "-", "--1", "1-", "1.1.1", "..",
	"1i", "-1i", "0i", "9223372036854775807i", "9223372036854775808i", "-9223372036854775808i", "-9223372036854775809i", "123456789012345678i", "1234567890123456789i", "99999999999999999999i",
	"0000000000000000000001i", "1.5i", "1e5i", "i", "-i", "1i5", "1ii", "1iu", "1ui", "i1",
	"1u", "0u", "-1u", "-u", "18446744073709551615u", "18446744073709551616u", "00000000000000000000001u", "99999999999999999999u", "1.5u", "1e5u", "u", "1u1",
	"1e308", "1.8e308", "1.7976931348623157e308", "1.7976931348623158e308", "1.7976931348623159e308", "-1.7976931348623159e308", "4.9e-324", "2.4703282292062327e-324", "2.4703282292062328e-324", "1e-400", "1e400", "1e999999999999", "1e-999999999999", "0e999999999999",
	"1234567890123456789012345", "0000000000000000000000001", "0.000000000000000000000001", "123456789012345678901234.5", "9007199254740993", "9007199254740992.5", "0.1", "0.30000000000000004", "123456.789e3", "1E400", "0x10", "1_000", "NaN", "nan", "n", "N", "Inf", "-Inf", "1n", "1N5",
	"1e5e5", "1e+-5", "1+5", "1e5.5", "1.5e5.5"}
var bools = []string{"t", "T", "true", "True", "TRUE", "f", "F", "false", "False", "FALSE", "tr", "tRUE", "truE", "fals", "falsee", "tt", "yes", "no", "0t", "t0", "tru e", "True1", "FALSe"}
var strs = []string{`""`, `"a"`, `"a b"`, `"a,b=c"`, `"a\"b"`, `"a\\"`, `"\\\""`, `"a\nb"`, "\"a\nb\"", `"é"`, `"a"b`, `"a"b"c"`, `"a"\"`, `"a\`, `"a`, `a"`, `"a""b"`, `"a" "b"`, `"a\\\"`, `"`, `"\"`, `"a=1,b=2 3"`}
var stamps = []string{"", "", "0", "1", "-1", "5", "1700000000000000000", "-9223372036854775806", "-9223372036854775807", "-9223372036854775808", "-9223372036854775809", "9223372036854775806", "9223372036854775807", "9223372036854775808",
	"9223372036", "9223372037", "-9223372036", "-9223372037", "9223372036854", "9223372036855", "9223372036854775", "9223372036854776", "-9223372036854775", "-9223372036854776", "00000000000000000000000000001", "-", "--1", "1-", "+1", "1.5", "1e3", "12a", "1 ", " 1", "1 2", "1  ", "1\t", "\t1"}

func (g gen12) value() string {
	if g.clean {
		return g.pick(goodValues...)
	}
	switch g.n(10) {
	case 0, 1, 2, 3:
		return g.pick(numbers...)
	case 4, 5:
		return g.pick(bools...)
	case 6, 7, 8:
		return g.pick(strs...)
	}
	return g.token(3)
}

func (g gen12) tagKey() string {
	if !g.clean && g.n(12) == 0 {
		return g.pick("time", "_field", "_measurement", "\xff", "\x00", "tim", "time2", `ti\me`)
	}
	return g.pick("a", "b", "c", "host", `a\ b`, `a\,`, `a\=`, "é", "A", "a!", `a"`, "aa", "ab") + g.pick("", "", "", "1", "b")
}

// a structurally valid line (before mutation)
func (g gen12) line() string {
	var b strings.Builder
	b.WriteString(g.pick("m", "m", "cpu", "a", `m\ x`, `m\,x`, "é", `m"`, "m=1", "time", `\m`, `m\\x`, "#m"[1:], `m#`))
	nt := g.n(4)
	if g.n(3) == 0 {
		nt = 0
	}
	keys := map[string]bool{}
	var ks []string
	for i := 0; i < nt; i++ {
		k := g.tagKey()
		if keys[k] && g.n(4) != 0 {
			continue
		}
		keys[k] = true
		ks = append(ks, k)
	}
	if g.n(3) != 0 {
		// mostly sorted
		for i := 1; i < len(ks); i++ {
			for j := i; j > 0 && ks[j] < ks[j-1]; j-- {
				ks[j], ks[j-1] = ks[j-1], ks[j]
			}
		}
	}
	for _, k := range ks {
		b.WriteString("," + k + "=" + g.pick("v", "x", "1", `a\ b`, `a\,b`, `a\=b`, "é", `"q"`, "v w"[:1], `\v`))
	}
	b.WriteString(" ")
	nf := 1 + g.n(3)
	for i := 0; i < nf; i++ {
		if i > 0 {
			b.WriteString(",")
		}
		b.WriteString(g.pick("f", "g", "value", `f\ x`, `f\,x`, `f\=x`, `f"`, `f\"`, "é", "time", "f", `f\\`, `\f`) + "=" + g.value())
	}
	ts := g.pick(stamps...)
	if g.clean {
		ts = g.pick(goodStamps...)
	}
	if ts != "" {
		b.WriteString(" " + ts)
	}
	return b.String()
}

func (g gen12) mutate(s string) string {
	if len(s) == 0 {
		return s
	}
	b := []byte(s)
	pos := func(set string) int { // a random position of one of the bytes in set (or random)
		var ps []int
		for i, c := range b {
			if strings.IndexByte(set, c) >= 0 {
				ps = append(ps, i)
			}
		}
		if len(ps) == 0 {
			return g.n(len(b))
		}
		return ps[g.n(len(ps))]
	}
	ins := func(i int, x string) []byte { return append(append(append([]byte{}, b[:i]...), x...), b[i:]...) }
	switch g.n(16) {
	case 0: // drop a delimiter
		i := pos(`,= "`)
		b = append(append([]byte{}, b[:i]...), b[i+1:]...)
	case 1: // duplicate a delimiter
		i := pos(`,= "`)
		b = ins(i, string(b[i]))
	case 2: // move a quote
		i := pos(`"`)
		c := b[i]
		b = append(append([]byte{}, b[:i]...), b[i+1:]...)
		j := g.n(len(b) + 1)
		b = append(append(append([]byte{}, b[:j]...), c), b[j:]...)
	case 3: // append a backslash
		b = append(b, '\\')
	case 4: // backslash before a delimiter / anywhere
		b = ins(pos(`,= "`), `\`)
	case 5:
		b = ins(g.n(len(b)+1), `\`)
	case 6: // tab / NUL / CR somewhere (often before '=')
		b = ins(pos("= ,"), g.pick("\t", "\x00", "\t", "\r", " "))
	case 7: // newline somewhere
		b = ins(g.n(len(b)+1), "\n")
	case 8: // leading garbage
		b = ins(0, g.pick(" ", "\t", "#", ",", "  #", "\x00", "=", "\\"))
	case 9: // trailing garbage
		b = append(b, g.pick(" ", "  ", " x", "\t", ",", " 1", "=", "\r")...)
	case 10: // swap two bytes
		i := g.n(len(b))
		j := g.n(len(b))
		b[i], b[j] = b[j], b[i]
	case 11: // delete a random byte
		i := g.n(len(b))
		b = append(append([]byte{}, b[:i]...), b[i+1:]...)
	case 12: // replace a byte
		b[g.n(len(b))] = g.pick(",", "=", " ", `"`, `\`, "a", "1", "i", "e", "-", ".", "#", "t")[0]
	case 13: // duplicate a tag / field section
		i := pos(",")
		j := i + 1
		for j < len(b) && b[j] != ',' && b[j] != ' ' {
			j++
		}
		b = ins(i, string(b[i:j]))
	default: // cut
		b = b[:g.n(len(b)+1)]
	}
	return string(b)
}

// tagLine: 3-5 tags in RANDOM order (so that scanKey's sort path runs) over keys that are
// proper prefixes of one another with continuations below and above '=' ; optionally one key is
// duplicated (the smallest, a middle or the greatest of the set) at a random position.
var prefixKeys = []string{"host", "host2", "host-1", "host.x", "ho", "host:a", "h", "hosts", "host_", "hostA", "zone", "a", "z", "region", "host!", `host\ x`, `host\,`}

func (g gen12) tagLine() string {
	n := 3 + g.n(3)
	perm := g.w.Rng.Perm(len(prefixKeys))
	keys := make([]string, 0, n+1)
	for _, i := range perm[:n] {
		keys = append(keys, prefixKeys[i])
	}
	if g.n(3) == 0 { // mostly keys around one stem
		stem := []string{"host", "host2", "host-1", "host.x", "ho", "host:a", "hosts", "host_", "hostA", "host!"}
		p2 := g.w.Rng.Perm(len(stem))
		keys = keys[:0]
		for _, i := range p2[:n] {
			keys = append(keys, stem[i])
		}
	}
	if g.n(2) == 0 { // duplicate one key: min / middle / max of the set
		sorted := append([]string{}, keys...)
		sort.Strings(sorted)
		dup := sorted[[]int{0, len(sorted) / 2, len(sorted) - 1}[g.n(3)]]
		pos := g.n(len(keys) + 1)
		keys = append(keys[:pos], append([]string{dup}, keys[pos:]...)...)
	}
	if g.n(4) == 0 {
		sort.Strings(keys)
	}
	var b strings.Builder
	b.WriteString(g.pick("cpu", "m", `m\ x`))
	for i, k := range keys {
		b.WriteString("," + k + "=" + g.pick("a", "b", "c", "1", "x") + fmt.Sprint(i))
	}
	b.WriteString(" value=" + g.pick("1", "1i", "t", `"s"`))
	if g.n(2) == 0 {
		b.WriteString(" " + g.pick("1", "1000000000", "-5"))
	}
	return b.String()
}

func (g gen12) tagBody() j12 {
	var lines []string
	for i := 1 + g.n(2); i > 0; i-- {
		lines = append(lines, g.tagLine())
	}
	return j12{Body: []byte(strings.Join(lines, "\n")), Prec: g.pick("ns", "ns", "s", "ms"), Dflt: defaults[g.n(3)], Stream: "tags"}
}

var defaults = []int64{1700000000123456789, 0, -1234567890123456, 1, models.MaxNanoTime, models.MinNanoTime + 3600000000000, 59999999999, -1}

func (g gen12) prec() string {
	if g.n(3) == 0 {
		return g.pick("ns", "us", "ms", "s", "n", "u", "m", "h", "", "x", "S", "us ")
	}
	return g.pick("ns", "ns", "ns", "us", "ms", "s")
}

func (g gen12) structured() j12 {
	var lines []string
	k := 1 + g.n(3)
	for i := 0; i < k; i++ {
		g.clean = g.n(2) == 0
		l := g.line()
		nm := g.n(3)
		if g.clean && g.n(3) != 0 {
			nm = 0
		}
		for m := nm; m > 0; m-- {
			l = g.mutate(l)
		}
		if g.n(15) == 0 {
			l = g.pick("", " ", "# comment", "   # c", "\t", "#", " \t\x00 ")
		}
		lines = append(lines, l)
	}
	body := strings.Join(lines, g.pick("\n", "\n", "\n", "\r\n", "\n\n"))
	if g.n(3) == 0 {
		body += "\n"
	}
	body = strings.ReplaceAll(body, "'", "")
	return j12{Body: []byte(body), Prec: g.prec(), Dflt: defaults[g.n(len(defaults))], Stream: "structured"}
}

var rawAlpha = []string{"a", "m", "f", "t", "e", "i", "u", "0", "1", "9", ".", "-", "+", ",", ",", "=", "=", " ", " ", `"`, `"`, `\`, `\`, "\n", "\n", "#", "\t", "\x00", "T", "true", "false", "é", "\r"}

func (g gen12) raw() j12 {
	var b strings.Builder
	k := g.n(28)
	for i := 0; i < k; i++ {
		b.WriteString(g.pick(rawAlpha...))
	}
	return j12{Body: []byte(b.String()), Prec: g.prec(), Dflt: defaults[g.n(len(defaults))], Stream: "raw"}
}

// semi-raw: a skeleton "m,a=1 f=<v> <ts>" whose parts are random short strings
func (g gen12) semi() j12 {
	rs := func(max int) string {
		var b strings.Builder
		for i := g.n(max + 1); i > 0; i-- {
			b.WriteString(g.pick("a", "b", " ", ",", "=", `"`, `\`, "é", "1", "i", "t"))
		}
		return b.String()
	}
	var b strings.Builder
	k := 1 + g.n(2)
	for i := 0; i < k; i++ {
		if i > 0 {
			b.WriteString("\n")
		}
		b.WriteString("m" + rs(2))
		if g.n(2) == 0 {
			b.WriteString(",a" + rs(2) + "=" + "v" + rs(2))
		}
		b.WriteString(" f" + rs(2) + "=" + g.pick("1", "1i", "t", `"s`+rs(3)+`"`, rs(3)))
		if g.n(2) == 0 {
			b.WriteString(" " + g.pick("1", "5", rs(2)))
		}
	}
	return j12{Body: []byte(b.String()), Prec: g.prec(), Dflt: defaults[g.n(len(defaults))], Stream: "semi"}
}

func rep(c byte, n int) string { return strings.Repeat(string(c), n) }

func corpus12() []j12 {
	mk := func(body, prec string) j12 {
		return j12{Body: []byte(body), Prec: prec, Dflt: 1700000000123456789, Stream: "corpus"}
	}
	cs := []j12{
		mk("cpu,host=a,region=b value=1i,f=2.5,s=\"x y\",b=t 1700000000000000000", "ns"),
		mk("m f=1\nbad\n# comment\n\n  \nm,b=1,a=2 f=1 5\nm,a=1,a=2 f=1\nm f=1 x", "ns"),
		mk("m \t=1", "ns"),             // repaired defect (was: accepted with an empty field key); must be rejected
		mk("m \x00=1,b=2 7", "ns"),     // same shape, second field named; must be rejected
		mk("m a\\\\=\"x=t,b=\"", "ns"), // accepted (open finding: tokenization mismatch); StringValue() used to panic on the lone quote
		mk("m a\\\\=\"x=-i,b=1\" 5", "ns"),
		mk("m f=\"a\nb\" 1\nm2 f=1", "ns"),
		mk("m f=1\\\nx\nm f=2", "ns"), // backslash swallows the newline in scanLine
		mk("m f=1\\\n", "ns"),
		mk("m,time=1 f=1\nm,_field=1 f=1\nm,_measurement=1 f=1\nm,\xff=1 f=1\nm,\x00=1 f=1", "ns"),
		mk("m,b=1,a=2,c=3,a=4 f=1", "ns"),
		mk("cpu,zone=c,host2=b,host=a value=1 1", "ns"), // prefix keys, unsorted: sort must compare KEYS
		mk("cpu,z=1,a=2,z=3 value=1i 1000000000", "ns"), // unsorted, the GREATEST key duplicated
		mk("cpu,b=1,a=2,a=3 value=1i", "ns"), mk("cpu,c=1,b=2,a=3,b=4 value=1i", "ns"),
		mk("cpu,host.x=1,host=2,host-1=3,host2=4,ho=5,host:a=6 value=1", "ns"),
		mk("m,a\\ =x,a\"=y f=1i 5", "ns"),
		mk("m f=1 9223372036", "s"), mk("m f=1 9223372037", "s"), mk("m f=1 -9223372036854775806", "ns"), mk("m f=1 -9223372036854775807", "ns"),
		mk("m f=1 9223372036854775", "us"), mk("m f=1 9223372036854776", "us"), mk("m f=1 5", "u"), mk("m f=1", "h"), mk("m f=1", "m"), mk("m f=1", "u"),
		// key length limits (MaxKeyLength = 65535): len(key), and len(key)+4+len(field key)
		mk(rep('m', 65535)+" f=1", "ns"), mk(rep('m', 65536)+" f=1", "ns"),
		mk(rep('m', 65530)+" f=1", "ns"), mk(rep('m', 65531)+" f=1", "ns"),
		mk(rep('m', 65000)+" "+rep('f', 531)+"=1", "ns"), mk(rep('m', 65000)+" "+rep('f', 532)+"=1", "ns"),
		mk("m,t="+rep('v', 65529)+" f=1", "ns"), mk("m,t="+rep('v', 65527)+" f=1,gg=2", "ns"),
		mk("m f="+rep('1', 400), "ns"), mk("m f=0."+rep('0', 400)+"1", "ns"), mk("m f="+rep('9', 308)+"e0", "ns"), mk("m f="+rep('9', 309), "ns"),
	}
	return cs
}

func main12(w *vh.W) {
	w.Rule = "bodies of 1-3 lines in three streams: (structured) grammatically valid lines over escape-heavy names/tags/fields, numbers at every limit of scanNumber (19/20/25-digit windows, int64/uint64/float64 range edges, malformed exponents), all boolean spellings, quoted strings with escapes/newlines, timestamps at the int64 and precision-multiplication edges, then 0-2 mutations (drop/duplicate a delimiter, move a quote, append/insert a backslash, TAB/NUL/CR/newline insertion, duplicate a tag, cut, swap, replace); (semi) skeleton m<r>,a<r>=v<r> f<r>=<value> <ts> with random short strings over {a b space , = \" \\ é 1 i t}; (raw) up to 27 random tokens over a small alphabet incl. newline, #, quotes, backslash, TAB, NUL; (tags) lines with 3-5 tags in random order over keys that are proper prefixes of one another (host host2 host-1 host.x ho host:a ...), half of them with one key (min/middle/max) duplicated at a random position; all precisions incl. unsupported spellings; hand-picked corpus first (key-length limits with 65k-byte keys, reserved tag keys, the known finding shape). Non-trivial: >=2 points, or points and rejections, or a rejection on a body longer than 8 bytes. Distinct: distinct Gallina terms."
	var rc j12
	if w.ReplayCase(&rc) {
		run12(w, &rc)
		w.Finish()
		return
	}
	for _, c := range corpus12() {
		c := c
		run12(w, &c)
	}
	g := gen12{w: w}
	for w.Len() < w.N {
		var c j12
		switch x := g.n(10); {
		case x < 2:
			c = g.tagBody()
		case x < 6:
			c = g.structured()
		case x < 8:
			c = g.semi()
		default:
			c = g.raw()
		}
		run12(w, &c)
	}
	w.Finish()
}
