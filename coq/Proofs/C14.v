From Verif Require Import Base.Prelude Model.C14.
