(** C06 — part 2: what insertion sort with the NON-transitive comparator [loc_less] guarantees.

    [ascLocations.Less]/[descLocations.Less] compare by file path when the two entries overlap in
    time and by time otherwise; this is not a strict weak order, so "sorted" means nothing in
    general.  What the cursor needs for newest-wins is only this: two locations that overlap in
    time appear in [seeks] in generation order.  [sort_locs_newer_after] proves it for the insertion
    sort that Go's [sort.Sort] performs on up to 12 elements — for ANY number of locations (so the
    12-element limit is a limit of Go's algorithm choice, not of this lemma). *)
From Coq Require Import ZifyBool Permutation.
From Verif Require Import Base.Prelude Model.C37 Proofs.C37 Model.C06 Proofs.C06.
Local Open Scope Z_scope.

Section Pairwise.
  Context {A : Type}.
  Fixpoint pairwise (R : A -> A -> Prop) (l : list A) : Prop :=
    match l with
    | [] => True
    | x :: r => Forall (R x) r /\ pairwise R r
    end.

  Lemma pairwise_app R l1 l2 :
    pairwise R (l1 ++ l2) <->
    pairwise R l1 /\ pairwise R l2 /\ (forall a b, In a l1 -> In b l2 -> R a b).
  Proof.
    induction l1 as [|x l1 IH]; cbn.
    - intuition.
    - rewrite IH, Forall_app, !Forall_forall. split.
      + intros [[H1 H2] [H3 [H4 H5]]]. repeat split; auto.
        intros a b [<-|Ha] Hb; auto.
      + intros [[H1 H2] [H3 H4]]. repeat split; auto.
  Qed.

  Lemma pairwise_rev R l : pairwise R l -> pairwise (fun a b => R b a) (rev l).
  Proof.
    induction l as [|x l IH]; cbn; [auto|]. intros [H1 H2]. apply pairwise_app.
    split; [auto|]. split; [cbn; auto|]. intros a b Ha [<-|[]]. apply in_rev in Ha.
    rewrite Forall_forall in H1. auto.
  Qed.

  Lemma pairwise_impl (R R' : A -> A -> Prop) l :
    (forall a b, In a l -> In b l -> R a b -> R' a b) -> pairwise R l -> pairwise R' l.
  Proof.
    induction l as [|x l IH]; cbn; [auto|]. intros H [H1 H2]. split.
    - rewrite Forall_forall in *. intros y Hy. apply H; auto.
    - apply IH; auto.
  Qed.
End Pairwise.

Section Sort.
  Context {V : Type}.
  Notation loc := (loc V).
  Implicit Types (x y z a c : loc) (rp : list loc).

  (** the two entries overlap in time (the test made by [Less]; symmetric) *)
  Definition lov (x y : loc) : bool := overlaps x (l_min y) (l_max y).
  Lemma lov_sym x y : lov x y = lov y x.
  Proof. unfold lov, overlaps. lia. Qed.

  (** input order of [locations]: by file, and inside a file by (disjoint) time *)
  Definition gen_before (a b : loc) : Prop :=
    (l_file a < l_file b)%nat \/ (l_file a = l_file b /\ l_max a < l_min b).
  (** the guarantee: of two overlapping locations the one from the older file comes first *)
  Definition newer_after (y x : loc) : Prop := lov y x = true -> (l_file y < l_file x)%nat.

  Lemma ins_rev_split asc x rp :
    exists rp1 rp2, rp = rp1 ++ rp2 /\ ins_rev asc x rp = rp1 ++ x :: rp2 /\
                    Forall (fun y => loc_less asc x y = true) rp1.
  Proof.
    induction rp as [|y r IH]; cbn.
    - exists [], []. cbn. auto.
    - destruct (loc_less asc x y) eqn:E.
      + destruct IH as (rp1 & rp2 & H1 & H2 & H3). exists (y :: rp1), rp2. cbn.
        rewrite H1 at 1. rewrite H2. auto.
      + exists [], (y :: r). cbn. auto.
  Qed.

  Lemma ins_rev_perm asc x rp : Permutation (ins_rev asc x rp) (x :: rp).
  Proof.
    destruct (ins_rev_split asc x rp) as (rp1 & rp2 & H1 & H2 & _). rewrite H2, H1.
    symmetry. apply Permutation_middle.
  Qed.

  Lemma sort_locs_perm asc (l : list loc) : Permutation (sort_locs asc l) l.
  Proof.
    unfold sort_locs. rewrite <- Permutation_rev.
    assert (H : forall rp, Permutation (fold_left (fun rp x => ins_rev asc x rp) l rp) (rev l ++ rp)).
    { induction l as [|x l IH]; intro rp; cbn [fold_left]; [reflexivity|].
      rewrite IH, ins_rev_perm. cbn [rev]. rewrite <- app_assoc. cbn.
      apply Permutation_app_head. reflexivity. }
    rewrite H, app_nil_r. symmetry. apply Permutation_rev.
  Qed.

  (** one insertion keeps "reversed prefix is in newest-first order for overlapping pairs" *)
  Lemma ins_rev_keeps asc x rp :
    pairwise (fun a b => newer_after b a) rp -> Forall (fun z => gen_before z x) rp ->
    pairwise (fun a b => newer_after b a) (ins_rev asc x rp).
  Proof.
    intros Hp Hg. destruct (ins_rev_split asc x rp) as (rp1 & rp2 & H1 & H2 & H3).
    rewrite H2. subst rp. apply pairwise_app in Hp as (Hp1 & Hp2 & Hp12).
    apply Forall_app in Hg as [Hg1 Hg2]. apply pairwise_app. split; [auto|]. split.
    - cbn. split; [|auto]. apply Forall_forall. intros z Hz. rewrite Forall_forall in Hg2.
      specialize (Hg2 z Hz). unfold newer_after, gen_before in *. intro Hov.
      destruct Hg2 as [Hlt|[Heq Hdis]]; [auto|]. exfalso. unfold lov, overlaps in Hov. lia.
    - intros a b Ha [<-|Hb]; [|auto]. rewrite Forall_forall in H3. specialize (H3 a Ha).
      unfold newer_after. intro Hov. unfold loc_less in H3. fold (lov x a) in H3. rewrite Hov in H3.
      lia.
  Qed.

  Lemma sort_locs_newer_after asc (l : list loc) :
    pairwise gen_before l -> pairwise newer_after (sort_locs asc l).
  Proof.
    intro Hl. unfold sort_locs.
    assert (H : forall rp, pairwise gen_before l ->
                 (forall z x, In z rp -> In x l -> gen_before z x) ->
                 pairwise (fun a b => newer_after b a) rp ->
                 pairwise (fun a b => newer_after b a) (fold_left (fun rp x => ins_rev asc x rp) l rp)).
    { clear Hl. induction l as [|x l IH]; intros rp Hl Hz Hp; cbn [fold_left]; [auto|].
      destruct Hl as [Hl1 Hl2]. apply IH; [auto| |].
      - intros z y Hin Hy. apply ins_rev_In in Hin as [->|Hin].
        + rewrite Forall_forall in Hl1. auto.
        + apply Hz; cbn; auto.
      - apply ins_rev_keeps; [auto|]. apply Forall_forall. intros z Hin. apply Hz; cbn; auto. }
    specialize (H [] Hl (fun z x Hin => match Hin with end) I).
    apply pairwise_rev in H. exact H.
  Qed.

  (** ** [locations] lists the blocks in generation order *)
  Lemma block_locs_shape asc t fi ts (b : block V) c :
    In c (block_locs asc t fi ts b) -> l_file c = fi /\ l_min c = b_min b /\ l_max c = b_max b.
  Proof.
    unfold block_locs. destruct (fully_tombstoned ts b); [contradiction|].
    destruct (asc && _); [contradiction|]. destruct (negb asc && _); [contradiction|].
    intros [<-|[]]. cbn. auto.
  Qed.

  Lemma file_locs_ordered asc t fi (f : tfile V) :
    blocks_ordered (f_blocks f) -> pairwise gen_before (file_locs asc t fi f).
  Proof.
    unfold file_locs. destruct (asc && _); [cbn; auto|]. destruct (negb asc && _); [cbn; auto|].
    generalize (f_blocks f) as bs. induction bs as [|b bs IH]; cbn [flat_map blocks_ordered]; [cbn; auto|].
    intros [Hb Hbs]. apply pairwise_app. split.
    - unfold block_locs. destruct (fully_tombstoned _ b); [cbn; auto|].
      destruct (asc && _); [cbn; auto|]. destruct (negb asc && _); cbn; auto.
    - split; [auto|]. intros x y Hx Hy. apply block_locs_shape in Hx as (Hx1 & _ & Hx3).
      apply in_flat_map in Hy as [b' [Hb' Hy]]. apply block_locs_shape in Hy as (Hy1 & Hy2 & _).
      right. split; [congruence|]. rewrite Forall_forall in Hb. specialize (Hb b' Hb'). lia.
  Qed.

  Lemma file_locs_file asc t fi (f : tfile V) c : In c (file_locs asc t fi f) -> l_file c = fi.
  Proof.
    unfold file_locs. destruct (asc && _); [contradiction|]. destruct (negb asc && _); [contradiction|].
    intro H. apply in_flat_map in H as [b [_ H]]. apply block_locs_shape in H. tauto.
  Qed.

  Lemma locations_from_ge asc t (fs : list (tfile V)) : forall k c,
    In c (locations_from asc t k fs) -> (k <= l_file c)%nat.
  Proof.
    induction fs as [|f fs IH]; intros k c H; cbn in H; [contradiction|].
    apply in_app_or in H as [H|H].
    - apply file_locs_file in H. lia.
    - apply IH in H. lia.
  Qed.

  Lemma locations_ordered (fs : list (tfile V)) t asc :
    Forall (fun f => blocks_ordered (f_blocks f)) fs -> pairwise gen_before (locations fs t asc).
  Proof.
    unfold locations. generalize 0%nat as k. induction fs as [|f fs IH]; intros k H; cbn; [auto|].
    inversion H; subst. apply pairwise_app. split; [apply file_locs_ordered; auto|].
    split; [apply IH; auto|]. intros a b Ha Hb. left.
    apply file_locs_file in Ha. apply locations_from_ge in Hb. lia.
  Qed.

  (** In the cursor's [seeks], of two locations that overlap in time the earlier one is from the
      strictly older file. *)
  Lemma seeks_newer_after (fs : list (tfile V)) t asc :
    Forall (fun f => blocks_ordered (f_blocks f)) fs ->
    pairwise newer_after (k_seeks (new_cursor fs t asc)).
  Proof. intro H. cbn. apply sort_locs_newer_after, locations_ordered, H. Qed.
End Sort.
