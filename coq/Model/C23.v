(** C23 — InfluxQL transformation functions follow their definitions.

    Mirror models of the integer-input reducers of /repo/influxql/query/functions.go,
    functions.gen.go and the slice reducers of call_iterator.go, next to their
    list-level ("textbook") definitions.

    Values and times are Go [int64]: modelled as [Z] with explicit two's-complement
    wrapping [wrap64] wherever the Go code adds or subtracts.  Several reducers of integer
    input compute in [float64] (derivative, moving_average, integral, median, mean,
    stddev).  Every such function is written once, generically over a record [fops] of
    float operations, and is instantiated twice:
      - [SF64]: IEEE-754 binary64 via the axiom-free [Coq.Floats.SpecFloat]
        (prec 53, emax 1024; round-to-nearest-even; NaN, infinities, signed zeros) —
        the bit-exact mirror the real Go output is compared with;
      - [QX]: exact rationals — the textbook definition, used by the oracle (with a
        relative tolerance on float-valued outputs, exactly on integer outputs).
    The theorems of Props/C23.v hold for EVERY [fops] (hence for both).

    No proofs in this file. *)
From Coq Require Import QArith Qabs Floats.SpecFloat.
From Verif Require Import Base.Prelude.
Open Scope Z_scope.

(* ------------------------------------------------------------------ *)
(** * int64 *)
Definition two63 : Z := 9223372036854775808.
Definition two64 : Z := 18446744073709551616.
Definition wrap64 (z : Z) : Z := (z + two63) mod two64 - two63.
Definition MinI64 : Z := - two63.
Definition MaxI64 : Z := two63 - 1.
Definition in_i64 (z : Z) : Prop := MinI64 <= z <= MaxI64.
Definition ZeroTime : Z := MinI64.           (* query.ZeroTime *)
Definition MinTime : Z := MinI64 + 2.        (* influxql.MinTime *)
Definition MaxTime : Z := MaxI64 - 1.        (* influxql.MaxTime *)

(** An input point (IntegerPoint: Time, Value; Nil points never reach a reducer). *)
Record pt := { pt_t : Z; pt_v : Z }.
Definition P := Build_pt.

(* ------------------------------------------------------------------ *)
(** * float operations *)
Record fops (F : Type) := {
  f_ofZ : Z -> F;               (* float64(int64) *)
  f_add : F -> F -> F; f_sub : F -> F -> F; f_mul : F -> F -> F; f_div : F -> F -> F;
  f_sqrt : F -> F;
  f_neg0 : F -> bool;           (* x < 0 *)
  f_half : F;                   (* 0.5 *)
  f_nan : F
}.
Arguments f_ofZ {F}. Arguments f_add {F}. Arguments f_sub {F}. Arguments f_mul {F}.
Arguments f_div {F}. Arguments f_sqrt {F}. Arguments f_neg0 {F}. Arguments f_half {F}.
Arguments f_nan {F}.

(** binary64 *)
Definition sf := spec_float.
Definition SFofZ (z : Z) : sf := binary_normalize 53 1024 z 0 false.
Definition SF64 : fops sf := {|
  f_ofZ := SFofZ;
  f_add := SFadd 53 1024; f_sub := SFsub 53 1024; f_mul := SFmul 53 1024; f_div := SFdiv 53 1024;
  f_sqrt := SFsqrt 53 1024;
  f_neg0 := fun x => SFltb x (S754_zero false);
  f_half := S754_finite false 4503599627370496 (-53);
  f_nan := S754_nan |}.

(** exact rationals (sqrt is not rational: the oracle compares squares, see [ok_stddev]) *)
Definition QX : fops Q := {|
  f_ofZ := inject_Z;
  f_add := Qplus; f_sub := Qminus; f_mul := Qmult; f_div := Qdiv;
  f_sqrt := fun x => x;
  f_neg0 := fun x => negb (Qle_bool 0 x);
  f_half := (1 # 2)%Q;
  f_nan := 0%Q |}.

(* ------------------------------------------------------------------ *)
(** * generic stream runner: Aggregate(p); Emit() after every point, outputs concatenated *)
Fixpoint run_stream {St Out} (step : St -> pt -> St * list Out) (s : St) (ps : list pt) : list Out :=
  match ps with
  | [] => []
  | p :: r => let '(s', o) := step s p in o ++ run_stream step s' r
  end.

(** list helpers for the definitions *)
Fixpoint adj {Out} (g : pt -> pt -> list Out) (ps : list pt) : list Out :=
  match ps with
  | a :: r => match r with b :: _ => g a b ++ adj g r | [] => [] end
  | [] => []
  end.

(** keep the FIRST point of every run of equal consecutive timestamps *)
Fixpoint dedup_from (last : Z) (ps : list pt) : list pt :=
  match ps with
  | [] => []
  | p :: r => if pt_t p =? last then dedup_from last r else p :: dedup_from (pt_t p) r
  end.
Definition dedup_first (ps : list pt) : list pt :=
  match ps with [] => [] | p :: r => p :: dedup_from (pt_t p) r end.

Definition sumZ (l : list Z) : Z := fold_right Z.add 0 l.

(* ------------------------------------------------------------------ *)
(** * prev/curr reducers: derivative, difference (functions.go:340-395, 509-556)

    State: prev and curr points with their Nil flags ([None] = Nil).
    AggregateInteger: [if !curr.Nil && curr.Time == p.Time {return}; prev = curr; curr = *p].
    Emit: [if prev.Nil {return nil}]; compute from (prev, curr); the function-specific
    part [g prev curr] returns (mark prev as read?, emitted points). *)
Record pstate := { ps_prev : option pt; ps_curr : option pt }.
Definition pstate0 : pstate := {| ps_prev := None; ps_curr := None |}.

Definition pr_agg (s : pstate) (p : pt) : pstate :=
  match ps_curr s with
  | Some c => if pt_t c =? pt_t p then s else {| ps_prev := ps_curr s; ps_curr := Some p |}
  | None => {| ps_prev := ps_curr s; ps_curr := Some p |}
  end.

Definition pr_emit {Out} (g : pt -> pt -> bool * list Out) (s : pstate) : pstate * list Out :=
  match ps_prev s, ps_curr s with
  | Some a, Some c =>
      let '(mark, out) := g a c in
      ((if mark then {| ps_prev := None; ps_curr := ps_curr s |} else s), out)
  | _, _ => (s, [])
  end.

Definition pr_step {Out} (g : pt -> pt -> bool * list Out) (s : pstate) (p : pt) := pr_emit g (pr_agg s p).

Section Generic.
Context {F : Type} (fo : fops F).

(** IntegerDerivativeReducer.Emit *)
Definition deriv_g (unit : Z) (nonneg asc : bool) (a c : pt) : bool * list (Z * F) :=
  let diff := f_ofZ fo (wrap64 (pt_v c - pt_v a)) in
  let el0 := wrap64 (pt_t c - pt_t a) in
  let el := if asc then el0 else wrap64 (- el0) in
  let value := f_div fo diff (f_div fo (f_ofZ fo el) (f_ofZ fo unit)) in
  (true, if nonneg && f_neg0 fo diff then [] else [(pt_t c, value)]).

Definition derivative_run unit nonneg asc (ps : list pt) : list (Z * F) :=
  run_stream (pr_step (deriv_g unit nonneg asc)) pstate0 ps.

(** definition: over the series with repeated timestamps removed (first kept), one point per
    consecutive pair, at the later time, value (v2-v1)/((t2-t1)/unit); pairs with v2<v1
    are dropped by non_negative_derivative. *)
Definition derivative_def unit nonneg asc (ps : list pt) : list (Z * F) :=
  adj (fun a c => snd (deriv_g unit nonneg asc a c)) (dedup_first ps).

(* ---------------- moving_average (functions.go:655-700) ---------------- *)
Record mstate := { ma_pos : nat; ma_sum : Z; ma_time : Z; ma_buf : list Z }.
Definition mstate0 : mstate := {| ma_pos := 0; ma_sum := 0; ma_time := 0; ma_buf := [] |}.

Fixpoint set_nth (i : nat) (x : Z) (l : list Z) : list Z :=
  match l, i with
  | [], _ => []
  | _ :: r, O => x :: r
  | y :: r, S j => y :: set_nth j x r
  end.

Definition ma_agg (n : nat) (s : mstate) (p : pt) : mstate :=
  let '(sum1, buf1) :=
    if negb (Nat.eqb (length (ma_buf s)) n) then (ma_sum s, ma_buf s ++ [pt_v p])
    else (wrap64 (ma_sum s - nth (ma_pos s) (ma_buf s) 0), set_nth (ma_pos s) (pt_v p) (ma_buf s)) in
  let pos1 := S (ma_pos s) in
  {| ma_pos := if Nat.leb n pos1 then O else pos1;
     ma_sum := wrap64 (sum1 + pt_v p); ma_time := pt_t p; ma_buf := buf1 |}.

Definition ma_emit (n : nat) (s : mstate) : list (Z * F) :=
  if negb (Nat.eqb (length (ma_buf s)) n) then []
  else [(ma_time s, f_div fo (f_ofZ fo (ma_sum s)) (f_ofZ fo (Z.of_nat (length (ma_buf s)))))].

Definition ma_step n s p := let s' := ma_agg n s p in (s', ma_emit n s').
Definition movavg_run (n : nat) ps := run_stream (ma_step n) mstate0 ps.

(** definition: for every window of n consecutive points, at the time of its last point,
    (int64 sum of the n values) / n. *)
Definition movavg_def (n : nat) (ps : list pt) : list (Z * F) :=
  map (fun k => (pt_t (nth (k + n - 1) ps {| pt_t := 0; pt_v := 0 |}),
                 f_div fo (f_ofZ fo (wrap64 (sumZ (map pt_v (firstn n (skipn k ps)))))) (f_ofZ fo (Z.of_nat n))))
      (seq 0 (length ps + 1 - n)).

(** the same definition as a sliding window: [w] holds the last (at most n) values, oldest
    first; a point is emitted whenever the window holds n values. *)
Fixpoint movavg_win (n : nat) (w : list Z) (ps : list pt) : list (Z * F) :=
  match ps with
  | [] => []
  | p :: r =>
      let w1 := w ++ [pt_v p] in
      let w' := if Nat.ltb n (length w1) then tl w1 else w1 in
      (if Nat.eqb (length w') n
       then [(pt_t p, f_div fo (f_ofZ fo (wrap64 (sumZ w'))) (f_ofZ fo (Z.of_nat n)))] else [])
      ++ movavg_win n w' r
  end.

(* ---------------- integral (functions.go:1666-1773) ---------------- *)
(** IteratorOptions.Window (iterator.go:791) with Location = nil and Interval.Offset = 0.
    [interval = 0]: no GROUP BY time: [opt.StartTime, opt.EndTime+1]. *)
Definition window (interval tstart tend : Z) (t : Z) : Z * Z :=
  if interval =? 0 then (tstart, wrap64 (tend + 1)) else
  let dt0 := Z.rem t interval in
  let dt := if dt0 <? 0 then dt0 + interval else dt0 in
  let start := if MinTime + dt >=? t then MinTime else t - dt in
  let dt' := interval - dt in
  let end_ := if MaxTime - dt' <=? t then MaxTime else t + dt' in
  (start, end_).

Record iopt := { io_unit : Z; io_asc : bool; io_interval : Z; io_start : Z; io_end : Z }.
Record istate := { i_sum : F; i_prev : option pt; i_ws : Z; i_we : Z }.
Definition istate0 : istate := {| i_sum := f_ofZ fo 0; i_prev := None; i_ws := 0; i_we := 0 |}.

Definition iwindow (o : iopt) (t : Z) : Z * Z :=
  let '(a, b) := window (io_interval o) (io_start o) (io_end o) t in
  if io_asc o then (a, b) else (b, a).

(** linear.go: linearFloat *)
Definition linearFloat (wt pt_ nt : Z) (pv nv : F) : F :=
  let m := f_div fo (f_sub fo nv pv) (f_ofZ fo (wrap64 (nt - pt_))) in
  let x := f_ofZ fo (wrap64 (wt - pt_)) in
  f_add fo (f_mul fo m x) pv.

Definition trapez (o : iopt) (sum value pv : F) (dt : Z) : F :=
  let elapsed := f_div fo (f_ofZ fo dt) (f_ofZ fo (io_unit o)) in
  f_add fo sum (f_mul fo (f_mul fo (f_half fo) (f_add fo value pv)) elapsed).

(** AggregateInteger; the second component is what was pushed on the channel (drained by
    the Emit that follows every Aggregate). *)
Definition int_agg (o : iopt) (s : istate) (p : pt) : istate * list (Z * F) :=
  match i_prev s with
  | None =>
      let '(ws, we) := iwindow o (pt_t p) in
      ({| i_sum := i_sum s; i_prev := Some p; i_ws := (if ws =? MinTime then 0 else ws); i_we := we |}, [])
  | Some a =>
      let value := f_ofZ fo (pt_v p) in
      let pv := f_ofZ fo (pt_v a) in
      if pt_t a =? pt_t p then
        ({| i_sum := i_sum s; i_prev := Some p; i_ws := i_ws s; i_we := i_we s |}, [])
      else if (io_asc o && (pt_t p >=? i_we s)) || (negb (io_asc o) && (pt_t p <=? i_we s)) then
        (* the point is past the end of the current window *)
        let '(sum1, prevt, value1) :=
          if negb (pt_t a =? i_we s) then
            let v' := linearFloat (i_we s) (pt_t a) (pt_t p) pv value in
            (trapez o (i_sum s) v' pv (wrap64 (i_we s - pt_t a)), i_we s, v')
          else (i_sum s, pt_t a, value) in
        let out := [(i_ws s, sum1)] in
        let '(ws, we) := iwindow o (pt_t p) in
        (* note: [value1] (the interpolated value when interpolation happened) and the OLD
           prev.Value are used below, exactly as the Go code does *)
        ({| i_sum := trapez o (f_ofZ fo 0) value1 pv (wrap64 (pt_t p - prevt));
            i_prev := Some p; i_ws := ws; i_we := we |}, out)
      else
        ({| i_sum := trapez o (i_sum s) value pv (wrap64 (pt_t p - pt_t a));
            i_prev := Some p; i_ws := i_ws s; i_we := i_we s |}, [])
  end.

(** Close(); Emit() *)
Definition int_close (s : istate) : list (Z * F) :=
  match i_prev s with
  | Some a => if negb (pt_t a =? i_ws s) then [(i_ws s, i_sum s)] else []
  | None => []
  end.

Fixpoint int_loop (o : iopt) (s : istate) (ps : list pt) : list (Z * F) :=
  match ps with
  | [] => int_close s
  | p :: r => let '(s', out) := int_agg o s p in out ++ int_loop o s' r
  end.
Definition integral_run (o : iopt) (ps : list pt) := int_loop o istate0 ps.

(** definition without GROUP BY time: the trapezoid sum over all consecutive pairs of points
    with DIFFERENT timestamps (a pair with equal timestamps contributes nothing; so within a
    run of equal timestamps the first point closes the previous trapezoid and the last one
    opens the next), in units of [unit]; reported at the start of the query window (0 when
    that is MinTime; descending: EndTime+1); nothing is reported for an empty series or when
    the last point is exactly at that reported time (quirk of Close). *)
Fixpoint trapz_from (o : iopt) (acc : F) (ps : list pt) : F :=
  match ps with
  | a :: r => match r with
              | b :: _ =>
                  trapz_from o (if pt_t a =? pt_t b then acc
                                else trapez o acc (f_ofZ fo (pt_v b)) (f_ofZ fo (pt_v a)) (wrap64 (pt_t b - pt_t a))) r
              | [] => acc
              end
  | [] => acc
  end.
Definition int_start (o : iopt) : Z :=
  let s := if io_asc o then io_start o else wrap64 (io_end o + 1) in
  if s =? MinTime then 0 else s.
Definition int_wend (o : iopt) : Z := if io_asc o then wrap64 (io_end o + 1) else io_start o.
(** no GROUP BY time, and every point lies inside the query's time range *)
Definition no_cross (o : iopt) (ps : list pt) : Prop :=
  io_interval o = 0 /\
  Forall (fun p => if io_asc o then pt_t p < int_wend o else int_wend o < pt_t p) ps.
Definition integral_def (o : iopt) (ps : list pt) : list (Z * F) :=
  match ps with
  | [] => []
  | _ => if last (map pt_t ps) 0 =? int_start o then [] else [(int_start o, trapz_from o (f_ofZ fo 0) ps)]
  end.

(* ---------------- median / mean / stddev ---------------- *)
End Generic.

(** sort.Sort(integerPointsByValue) — for at most 12 elements Go's pdqsort is a plain
    insertion sort, which is stable; [isort] is the stable insertion sort by value. *)
Fixpoint insert_by (le : pt -> pt -> bool) (x : pt) (l : list pt) : list pt :=
  match l with
  | [] => [x]
  | y :: r => if le y x then y :: insert_by le x r else x :: l
  end.
Definition isort_by (le : pt -> pt -> bool) (l : list pt) : list pt :=
  fold_left (fun acc x => insert_by le x acc) l [].
Definition le_val (a b : pt) : bool := pt_v a <=? pt_v b.
Definition isort := isort_by le_val.
Definition pt0 : pt := {| pt_t := 0; pt_v := 0 |}.

Section Generic2.
Context {F : Type} (fo : fops F).

(** IntegerMedianReduceSlice (call_iterator.go:593) *)
Definition median_run (ps : list pt) : list (Z * F) :=
  match ps with
  | [p] => [(ZeroTime, f_ofZ fo (pt_v p))]
  | _ =>
      let s := isort ps in
      let n := length s in
      if Nat.even n then
        let lo := nth (n / 2 - 1) s pt0 in let hi := nth (n / 2) s pt0 in
        [(ZeroTime, f_add fo (f_ofZ fo (pt_v lo))
                      (f_div fo (f_ofZ fo (wrap64 (pt_v hi - pt_v lo))) (f_ofZ fo 2)))]
      else [(ZeroTime, f_ofZ fo (pt_v (nth (n / 2) s pt0)))]
  end.

(** IntegerMeanReducer (functions.go:135-163), Aggregated <= 1 on raw points *)
Definition mean_run (ps : list pt) : list (Z * F) :=
  let sum := fold_left (fun acc p => wrap64 (acc + pt_v p)) ps 0 in
  [(ZeroTime, f_div fo (f_ofZ fo sum) (f_ofZ fo (Z.of_nat (length ps))))].

(** IntegerStddevReduceSlice (call_iterator.go:885); math.Pow(x, 2) = x*x *)
Definition stddev_run (ps : list pt) : list (Z * F) :=
  if Nat.ltb (length ps) 2 then [(ZeroTime, f_nan fo)] else
  let '(mean, _) :=
    fold_left (fun '(mean, count) p =>
                 let count' := count + 1 in
                 (f_add fo mean (f_div fo (f_sub fo (f_ofZ fo (pt_v p)) mean) (f_ofZ fo count')), count'))
              ps (f_ofZ fo 0, 0) in
  let variance :=
    fold_left (fun acc p => let d := f_sub fo (f_ofZ fo (pt_v p)) mean in f_add fo acc (f_mul fo d d))
              ps (f_ofZ fo 0) in
  [(ZeroTime, f_sqrt fo (f_div fo variance (f_ofZ fo (Z.of_nat (length ps) - 1))))].
End Generic2.

(* ------------------------------------------------------------------ *)
(** * integer-valued reducers *)

(** difference / non_negative_difference (IntegerDifferenceReducer.Emit) *)
Definition diff_g (nonneg : bool) (a c : pt) : bool * list (Z * Z) :=
  let v := wrap64 (pt_v c - pt_v a) in
  if nonneg && (v <? 0) then (false, []) else (true, [(pt_t c, v)]).
Definition difference_run nonneg ps := run_stream (pr_step (diff_g nonneg)) pstate0 ps.
Definition difference_def nonneg ps :=
  adj (fun a c => snd (diff_g nonneg a c)) (dedup_first ps).

(** elapsed (IntegerElapsedReducer, functions.gen.go:936-966): no timestamp
    de-duplication, prev is never marked read; Go's / truncates toward zero. *)
Record estate := { e_prev : option pt; e_curr : option pt }.
Definition el_g (unit : Z) (a c : pt) : list (Z * Z) :=
  [(pt_t c, wrap64 (Z.quot (wrap64 (pt_t c - pt_t a)) unit))].
Definition el_step (unit : Z) (s : estate) (p : pt) : estate * list (Z * Z) :=
  let s' := {| e_prev := e_curr s; e_curr := Some p |} in
  (s', match e_prev s', e_curr s' with Some a, Some c => el_g unit a c | _, _ => [] end).
Definition elapsed_run unit ps := run_stream (el_step unit) {| e_prev := None; e_curr := None |} ps.
Definition elapsed_def unit ps := adj (el_g unit) ps.

(** cumulative_sum (IntegerCumulativeSumReducer, functions.go:1162-1185) *)
Definition cs_step (acc : Z) (p : pt) : Z * list (Z * Z) :=
  let acc' := wrap64 (acc + pt_v p) in (acc', [(pt_t p, acc')]).
Definition cumsum_run ps := run_stream cs_step 0 ps.
(** definition: the k-th output is (t_k, the int64 image of v_0 + ... + v_k) *)
Definition cumsum_def (ps : list pt) : list (Z * Z) :=
  map (fun k => (pt_t (nth k ps pt0), wrap64 (sumZ (map pt_v (firstn (S k) ps))))) (seq 0 (length ps)).

(** spread (IntegerSpreadReducer, functions.go:222-250) *)
Definition spread_run (ps : list pt) : list (Z * Z) :=
  let '(mn, mx) :=
    fold_left (fun '(mn, mx) p =>
                 ((if pt_v p <? mn then pt_v p else mn), (if pt_v p >? mx then pt_v p else mx)))
              ps (MaxI64, MinI64) in
  [(ZeroTime, wrap64 (mx - mn))].
Definition list_min (l : list Z) (d : Z) := fold_right Z.min d l.
Definition list_max (l : list Z) (d : Z) := fold_right Z.max d l.
Definition spread_def (ps : list pt) : list (Z * Z) :=
  match map pt_v ps with
  | [] => [(ZeroTime, 1)]
  | v :: r => [(ZeroTime, wrap64 (list_max r v - list_min r v))]
  end.

(** percentile (NewIntegerPercentileReduceSliceFunc, call_iterator.go:1069):
    [i := int(math.Floor(float64(length)*percentile/100.0+0.5)) - 1]; the index is computed
    by [pidx] below from the percentile (a float64, given exactly). *)
Definition pctl_at (i : Z) (ps : list pt) : list (Z * Z) :=
  if (i <? 0) || (i >=? Z.of_nat (length ps)) then []
  else let p := nth (Z.to_nat i) (isort ps) pt0 in [(pt_t p, pt_v p)].

(** floor of a finite binary64 *)
Definition SFfloor (x : sf) : option Z :=
  match x with
  | S754_zero _ => Some 0
  | S754_finite s m e =>
      let mz := Zpos m in
      let a := if 0 <=? e then mz * 2 ^ e else mz / 2 ^ (- e) in
      let exact := if 0 <=? e then true else (mz mod 2 ^ (- e) =? 0) in
      Some (if s then (if exact then - a else - a - 1) else a)
  | _ => None
  end.
Definition pidx_sf (len : nat) (p : sf) : option Z :=
  let x := SFadd 53 1024 (SFdiv 53 1024 (SFmul 53 1024 (SFofZ (Z.of_nat len)) p) (SFofZ 100))
                 (S754_finite false 4503599627370496 (-53)) in
  match SFfloor x with Some z => Some (z - 1) | None => None end.
Definition Qfloor (q : Q) : Z := Z.div (Qnum q) (Zpos (Qden q)).
Definition pidx_q (len : nat) (p : Q) : Z :=
  Qfloor (inject_Z (Z.of_nat len) * p / 100 + (1 # 2))%Q - 1.

(** mode (IntegerModeReduceSlice, call_iterator.go:701) *)
Fixpoint mode_loop (ps : list pt) (mostFreq currFreq currMode mostMode mostTime currTime : Z) : Z :=
  match ps with
  | [] => mostMode
  | p :: r =>
      if negb (pt_v p =? currMode) then mode_loop r mostFreq 1 (pt_v p) mostMode mostTime (pt_t p)
      else
        let cf := currFreq + 1 in
        if (mostFreq >? cf) || ((mostFreq =? cf) && (currTime >? mostTime))
        then mode_loop r mostFreq cf currMode mostMode mostTime currTime
        else mode_loop r cf cf currMode (pt_v p) (pt_t p) currTime
  end.
Definition mode_run (ps : list pt) : list (Z * Z) :=
  match ps with
  | [p] => [(pt_t p, pt_v p)]          (* len(a) == 1: returns a itself, with its own time *)
  | _ => match isort ps with
         | [] => []
         | h :: tl => [(ZeroTime, mode_loop (h :: tl) 0 0 (pt_v h) (pt_v h) (pt_t h) (pt_t h))]
         end
  end.
Definition count_v (v : Z) (ps : list pt) : Z :=
  Z.of_nat (length (filter (fun p => pt_v p =? v) ps)).

(** distinct (IntegerDistinctReducer, functions.gen.go:909-933): first point per value,
    emitted sorted by (time, value). *)
Definition dist_agg (m : list pt) (p : pt) : list pt :=
  if existsb (fun q => pt_v q =? pt_v p) m then m else m ++ [p].
Definition le_tv (a b : pt) : bool :=
  if pt_t a =? pt_t b then pt_v a <=? pt_v b else pt_t a <? pt_t b.
Definition distinct_run (ps : list pt) : list (Z * Z) :=
  map (fun p => (pt_t p, pt_v p)) (isort_by le_tv (fold_left dist_agg ps [])).

(** top / bottom (IntegerTopReducer / IntegerBottomReducer, functions.go:1930-2112).
    The container/heap of capacity n is abstracted to a bag kept sorted best-first; the heap
    root points[0] is its worst element.  [better] is the strict order of the output:
    top: larger value first, ties by earlier time; bottom: smaller value first, ties by
    earlier time. *)
Definition better (top : bool) (a b : pt) : bool :=
  if pt_v a =? pt_v b then pt_t a <? pt_t b
  else if top then pt_v a >? pt_v b else pt_v a <? pt_v b.
(** insert keeping best-first order; an element equal in (value,time) is indistinguishable *)
Fixpoint ins_best (top : bool) (x : pt) (l : list pt) : list pt :=
  match l with
  | [] => [x]
  | y :: r => if better top x y then x :: l else y :: ins_best top x r
  end.
Definition tb_agg (top : bool) (n : nat) (st : list pt) (p : pt) : list pt :=
  if Nat.eqb (length st) n then
    (* cmp(points[0], p): the heap minimum is strictly worse than p *)
    if better top p (last st pt0) then ins_best top p (removelast st) else st
  else ins_best top p st.
Definition topbottom_run (top : bool) (n : nat) (ps : list pt) : list (Z * Z) :=
  map (fun p => (pt_t p, pt_v p)) (fold_left (tb_agg top n) ps []).
Definition sort_best (top : bool) (ps : list pt) : list pt :=
  fold_left (fun acc x => ins_best top x acc) ps [].
Definition topbottom_def (top : bool) (n : nat) (ps : list pt) : list (Z * Z) :=
  map (fun p => (pt_t p, pt_v p)) (firstn n (sort_best top ps)).

(* ------------------------------------------------------------------ *)
(** * correspondence cases *)
Inductive kind :=
| KDerivative (unit : Z) (nonneg asc : bool)
| KDifference (nonneg : bool)
| KMovAvg (n : nat)
| KCumSum
| KElapsed (unit : Z)
| KIntegral (o : iopt)
| KPercentile (p : sf)
| KMedian | KMean | KStddev | KMode | KSpread | KDistinct
| KTopBottom (top : bool) (n : nat).

Inductive outs := OInt (l : list (Z * Z)) | OFlt (l : list (Z * sf)).
Record case := { c_kind : kind; c_in : list pt; c_out : outs }.

Definition mirror (k : kind) (ps : list pt) : outs :=
  match k with
  | KDerivative u nn asc => OFlt (derivative_run SF64 u nn asc ps)
  | KDifference nn => OInt (difference_run nn ps)
  | KMovAvg n => OFlt (movavg_run SF64 n ps)
  | KCumSum => OInt (cumsum_run ps)
  | KElapsed u => OInt (elapsed_run u ps)
  | KIntegral o => OFlt (integral_run SF64 o ps)
  | KPercentile p => match pidx_sf (length ps) p with Some i => OInt (pctl_at i ps) | None => OInt [] end
  | KMedian => OFlt (median_run SF64 ps)
  | KMean => OFlt (mean_run SF64 ps)
  | KStddev => OFlt (stddev_run SF64 ps)
  | KMode => OInt (mode_run ps)
  | KSpread => OInt (spread_run ps)
  | KDistinct => OInt (distinct_run ps)
  | KTopBottom top n => OInt (topbottom_run top n ps)
  end.

(** structural equality of binary64 values; the driver canonicalises: every NaN is
    [S754_nan]; +0 and -0 are distinguished. *)
Definition sf_eqb (a b : sf) : bool :=
  match a, b with
  | S754_zero s, S754_zero s' => Bool.eqb s s'
  | S754_infinity s, S754_infinity s' => Bool.eqb s s'
  | S754_nan, S754_nan => true
  | S754_finite s m e, S754_finite s' m' e' => Bool.eqb s s' && Pos.eqb m m' && Z.eqb e e'
  | _, _ => false
  end.
Definition zz_eqb := pair_eqb Z.eqb Z.eqb.
Definition zf_eqb := pair_eqb Z.eqb sf_eqb.
Definition outs_eqb (a b : outs) : bool :=
  match a, b with
  | OInt x, OInt y => list_eqb zz_eqb x y
  | OFlt x, OFlt y => list_eqb zf_eqb x y
  | _, _ => false
  end.

(** exact value of a finite binary64 *)
Definition sf2q (x : sf) : option Q :=
  match x with
  | S754_zero _ => Some 0%Q
  | S754_finite s m e =>
      let q := if 0 <=? e then inject_Z (Zpos m * 2 ^ e) else (Zpos m # Pos.pow 2 (Z.to_pos (- e)))%Q in
      Some (if s then Qopp q else q)
  | _ => None
  end.
(** |x - y| <= 2^-30 * (|y| + A)  (float-valued outputs against the exact definition; A = 0
    except for the integral, a sum of terms of both signs) *)
Definition q_close_abs (A x y : Q) : bool :=
  Qle_bool (Qabs (x - y)) ((Qabs y + A) * (1 # 1073741824))%Q.
Definition q_close := q_close_abs 0.
Definition f_close_abs (A : Q) (x : sf) (y : Q) : bool :=
  match sf2q x with Some q => q_close_abs A q y | None => false end.
Definition zq_close_abs (A : Q) (a : Z * sf) (b : Z * Q) : bool :=
  Z.eqb (fst a) (fst b) && f_close_abs A (snd a) (snd b).
Definition zq_close := zq_close_abs 0.
Fixpoint list_rel {A B} (r : A -> B -> bool) (a : list A) (b : list B) : bool :=
  match a, b with
  | [], [] => true
  | x :: a', y :: b' => r x y && list_rel r a' b'
  | _, _ => false
  end.
Definition flt_ok_abs (A : Q) (impl : outs) (def : list (Z * Q)) : bool :=
  match impl with OFlt l => list_rel (zq_close_abs A) l def | _ => false end.
(** total absolute area of an integral's trapezoids *)
Definition abs_area (unit : Z) (ps : list pt) : Q :=
  let tot := sumZ (adj (fun a b => [(Z.abs (pt_v a) + Z.abs (pt_v b)) * Z.abs (pt_t b - pt_t a)]) ps) in
  (inject_Z tot / inject_Z (Z.abs unit))%Q.
Definition flt_ok (impl : outs) (def : list (Z * Q)) : bool :=
  match impl with OFlt l => list_rel zq_close l def | _ => false end.
Definition int_ok (impl : outs) (def : list (Z * Z)) : bool :=
  match impl with OInt l => list_eqb zz_eqb l def | _ => false end.

(** ** oracles that are not simply "the definition" *)

(** integral with GROUP BY time (ascending): exact area of the piecewise-linear interpolant.
    A window is reported iff it contains a point; the area between the end of the previously
    reported window (or the first point) and the end of this window (or the last point) is
    attributed to it. *)
Definition seg_area (a b : pt) (lo hi : Z) : Q :=
  (* area under segment a--b restricted to [lo,hi], lo/hi already clipped into [ta,tb] *)
  let ta := inject_Z (pt_t a) in let tb := inject_Z (pt_t b) in
  let va := inject_Z (pt_v a) in let vb := inject_Z (pt_v b) in
  let f := fun x : Q => (va + (vb - va) * (x - ta) / (tb - ta))%Q in
  let l := inject_Z lo in let h := inject_Z hi in
  ((f l + f h) * (h - l) / 2)%Q.
Fixpoint area_between (ps : list pt) (lo hi : Z) : Q :=
  match ps with
  | a :: r => match r with
              | b :: _ =>
                  let l := Z.max lo (pt_t a) in let h := Z.min hi (pt_t b) in
                  ((if l <? h then seg_area a b l h else 0) + area_between r lo hi)%Q
              | [] => 0%Q
              end
  | [] => 0%Q
  end.
(** windows (start) that contain a point, in order, with the time where their area starts *)
Fixpoint win_list (o : iopt) (ps : list pt) (cur : option (Z * Z)) : list (Z * Z) :=
  match ps with
  | [] => []
  | p :: r =>
      let '(ws, we) := window (io_interval o) (io_start o) (io_end o) (pt_t p) in
      match cur with
      | Some (cs, ce) => if pt_t p <? ce then win_list o r cur else (ws, we) :: win_list o r (Some (ws, we))
      | None => (ws, we) :: win_list o r (Some (ws, we))
      end
  end.
Fixpoint win_areas (o : iopt) (d : list pt) (from : Z) (ws : list (Z * Z)) (lastt : Z) : list (Z * Q) :=
  match ws with
  | [] => []
  | (s, e) :: r =>
      let hi := Z.min e lastt in
      match r with
      | [] => if lastt =? s then [] else [(s, (area_between d from hi / inject_Z (io_unit o))%Q)]
      | _ => (s, (area_between d from e / inject_Z (io_unit o))%Q) :: win_areas o d e r lastt
      end
  end.
Definition integral_windows_def (o : iopt) (ps : list pt) : list (Z * Q) :=
  let d := ps in
  match d with
  | [] => []
  | p :: _ => win_areas o d (pt_t p) (win_list o d None) (last (map pt_t d) 0)
  end.

(** mode oracle: the reported value occurs in the input with maximal frequency *)
Definition ok_mode (ps : list pt) (impl : outs) : bool :=
  match impl with
  | OInt [(t, v)] =>
      (0 <? count_v v ps) && forallb (fun p => count_v (pt_v p) ps <=? count_v v ps) ps
      && (match ps with [p] => t =? pt_t p | _ => t =? ZeroTime end)
  | _ => false
  end.

(** percentile oracle: exact nearest-rank index; value = that order statistic; the time is
    the time of SOME input point with that value. *)
Definition ok_percentile (p : sf) (ps : list pt) (impl : outs) : bool :=
  match sf2q p, impl with
  | Some q, OInt l =>
      let i := pidx_q (length ps) q in
      if (i <? 0) || (i >=? Z.of_nat (length ps)) then match l with [] => true | _ => false end
      else match l with
           | [(t, v)] => (v =? pt_v (nth (Z.to_nat i) (isort ps) pt0))
                         && existsb (fun x => (pt_t x =? t) && (pt_v x =? v)) ps
           | _ => false
           end
  | _, _ => false
  end.

(** distinct oracle: outputs sorted strictly by (time,value), values pairwise distinct, every
    input value present, every output point is the first input point with that value. *)
Fixpoint first_with (v : Z) (ps : list pt) : option pt :=
  match ps with [] => None | p :: r => if pt_v p =? v then Some p else first_with v r end.
Fixpoint strictly_sorted_tv (l : list (Z * Z)) : bool :=
  match l with
  | a :: r => match r with
              | b :: _ => ((fst a <? fst b) || ((fst a =? fst b) && (snd a <? snd b))) && strictly_sorted_tv r
              | [] => true
              end
  | [] => true
  end.
Definition ok_distinct (ps : list pt) (impl : outs) : bool :=
  match impl with
  | OInt l =>
      strictly_sorted_tv l
      && forallb (fun tv => match first_with (snd tv) ps with
                            | Some p => pt_t p =? fst tv | None => false end) l
      && forallb (fun p => existsb (fun tv => snd tv =? pt_v p) l) ps
      && Nat.eqb (length l) (length (fold_left dist_agg ps []))
  | _ => false
  end.

(** stddev oracle: sample standard deviation; compare squares with the exact variance *)
Definition ok_stddev (ps : list pt) (impl : outs) : bool :=
  match impl with
  | OFlt [(t, x)] =>
      (t =? ZeroTime) &&
      if Nat.ltb (length ps) 2 then (match x with S754_nan => true | _ => false end)
      else
        let n := inject_Z (Z.of_nat (length ps)) in
        let mean := (inject_Z (sumZ (map pt_v ps)) / n)%Q in
        let var := (fold_right (fun p acc => (inject_Z (pt_v p) - mean) * (inject_Z (pt_v p) - mean) + acc) 0 ps / (n - 1))%Q in
        match sf2q x with Some q => Qle_bool 0 q && q_close (q * q) var | None => false end
  | _ => false
  end.

Definition mean_def (ps : list pt) : list (Z * Q) :=
  [(ZeroTime, (inject_Z (wrap64 (sumZ (map pt_v ps))) / inject_Z (Z.of_nat (length ps)))%Q)].

Definition oracle (k : kind) (ps : list pt) (impl : outs) : bool :=
  match k with
  | KDerivative u nn asc => flt_ok impl (derivative_def QX u nn asc ps)
  | KDifference nn => int_ok impl (difference_def nn ps)
  | KMovAvg n => flt_ok impl (movavg_def QX n ps)
  | KCumSum => int_ok impl (cumsum_def ps)
  | KElapsed u => int_ok impl (elapsed_def u ps)
  | KIntegral o =>
      if io_interval o =? 0 then flt_ok_abs (abs_area (io_unit o) ps) impl (integral_def QX o ps)
      else flt_ok_abs (abs_area (io_unit o) ps) impl (integral_windows_def o ps)
  | KPercentile p => ok_percentile p ps impl
  | KMedian => flt_ok impl (median_run QX ps)
  | KMean => flt_ok impl (mean_def ps)
  | KStddev => ok_stddev ps impl
  | KMode => ok_mode ps impl
  | KSpread => int_ok impl (spread_def ps)
  | KDistinct => ok_distinct ps impl
  | KTopBottom top n => int_ok impl (topbottom_def top n ps)
  end.

Definition check (c : case) : verdict :=
  judge (outs_eqb (c_out c) (mirror (c_kind c) (c_in c))) (oracle (c_kind c) (c_in c) (c_out c)).
