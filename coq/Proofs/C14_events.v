(** C14 — every schedule event of the model (roll of the active log, compaction of a log file,
    compaction of any contiguous run of index files to any level) leaves every query answer of
    the index unchanged. *)
From Verif Require Import Base.Prelude Model.C14 Proofs.C14_sets Proofs.C14_compact Proofs.C14_merge.
Local Open Scope N_scope.

(** a partition transformer that is a splice (or the identity) on the file list *)
Definition splice_of (p p' : part) : Prop :=
  p_files p' = p_files p \/
  exists x run pre post, p_files p' = pre ++ x :: post /\ p_files p = pre ++ run ++ post /\ replaces x run.

Lemma no_key_tomb_sub run fs : (forall f, In f run -> In f fs) -> no_key_tomb fs -> no_key_tomb run.
Proof. intros H NT f m k x Hf. apply NT. apply H. exact Hf. Qed.

Lemma replaces_empty : replaces empty_log [].
Proof.
  constructor; try reflexivity.
  - intros m y. split; [intros [mm [H _]]; discriminate | intros [f [[] _]]].
  - intros m k v y. split; [intros [tv [H _]]; discriminate | intros [f [[] _]]].
  - intros y [].
Qed.

Lemma roll_splice p : splice_of p (p_roll p).
Proof. right. exists empty_log, [], [], (p_files p). cbn. auto using replaces_empty. Qed.

Lemma upd_nth_split {A} (g : A -> A) n : forall (l : list A) a, nth_error l n = Some a ->
  upd_nth n g l = firstn n l ++ g a :: skipn (S n) l /\ l = firstn n l ++ [a] ++ skipn (S n) l.
Proof.
  unfold upd_nth. induction n as [|n IH]; intros [|b l] a H; cbn in H; try discriminate.
  - inversion H; subst. cbn. auto.
  - destruct (IH l a H) as [E1 E2]. cbn [firstn skipn app]. split; [f_equal; exact E1 | f_equal; exact E2].
Qed.
Lemma upd_nth_none {A} (g : A -> A) n : forall (l : list A), nth_error l n = None -> upd_nth n g l = l.
Proof.
  unfold upd_nth. induction n as [|n IH]; intros [|b l] H; cbn in H; try discriminate; try reflexivity.
  cbn. f_equal. apply IH. exact H.
Qed.

Lemma compact_log_splice i p : no_key_tomb (p_files p) -> splice_of p (p_compact_log i p).
Proof.
  intro NT. unfold p_compact_log. destruct i as [|i]; [left; reflexivity|]. cbn [p_files].
  destruct (nth_error (p_files p) (S i)) as [f|] eqn:E.
  - destruct (upd_nth_split (fun f => if N.eqb (f_level f) 0 then log_to_index f else f) (S i) _ _ E) as [E1 E2].
    cbn beta in E1. destruct (N.eqb (f_level f) 0) eqn:L.
    + right. exists (log_to_index f), [f], (firstn (S i) (p_files p)), (skipn (S (S i)) (p_files p)).
      split; [rewrite E1; reflexivity|]. split; [exact E2|]. apply log_replaces.
      apply (no_key_tomb_sub _ (p_files p)); [|exact NT]. intros g [<- | []]. eapply nth_error_In. exact E.
    + left. rewrite E1. symmetry. exact E2.
  - left. apply upd_nth_none. exact E.
Qed.

Lemma skipn_add {A} n : forall i (l : list A), skipn n (skipn i l) = skipn (i + n) l.
Proof.
  induction i as [|i IH]; intros l; [reflexivity|]. destruct l as [|a l]; cbn [skipn Nat.add].
  - destruct n; reflexivity.
  - apply IH.
Qed.

Lemma firstn_in {A} n : forall (l : list A) a, In a (firstn n l) -> In a l.
Proof. induction n as [|n IH]; intros [|b l] a H; cbn in H; try tauto. destruct H as [<- | H]; cbn; auto. Qed.
Lemma skipn_in {A} n : forall (l : list A) a, In a (skipn n l) -> In a l.
Proof. induction n as [|n IH]; intros l a H; [exact H|]. destruct l as [|b l]; [exact H|]. cbn in H. cbn. right. apply IH. exact H. Qed.

Lemma compact_run_splice i n lvl p : no_key_tomb (p_files p) -> splice_of p (p_compact_run i n lvl p).
Proof.
  intro NT. unfold p_compact_run.
  destruct (Nat.leb 1 i && Nat.leb 2 n && Nat.eqb (length (firstn n (skipn i (p_files p)))) n &&
            forallb (fun f => negb (N.eqb (f_level f) 0)) (firstn n (skipn i (p_files p)))); [|left; reflexivity].
  right. cbn [p_files].
  exists (merge_run lvl (firstn n (skipn i (p_files p)))), (firstn n (skipn i (p_files p))),
         (firstn i (p_files p)), (skipn (i + n) (p_files p)).
  split; [reflexivity|]. split.
  - rewrite <- (firstn_skipn i (p_files p)) at 1. f_equal.
    rewrite <- (firstn_skipn n (skipn i (p_files p))) at 1. f_equal.
    apply skipn_add.
  - apply merge_replaces. apply (no_key_tomb_sub _ (p_files p)); [|exact NT].
    intros f Hf. apply firstn_in in Hf. eapply skipn_in. exact Hf.
Qed.

(** ** queries of a partition under a splice *)
Section PartQueries.
  Variables p p' : part.
  Hypothesis S : splice_of p p'.

  Lemma sp_meas m : In m (q_meas (p_files p')) <-> In m (q_meas (p_files p)).
  Proof. destruct S as [-> | (x & run & pre & post & -> & -> & R)]; [tauto | apply splice_meas; exact R]. Qed.
  Lemma sp_keys m k : In k (q_keys (p_files p') m) <-> In k (q_keys (p_files p) m).
  Proof. destruct S as [-> | (x & run & pre & post & -> & -> & R)]; [tauto | apply splice_keys; exact R]. Qed.
  Lemma sp_vals m k v : In v (q_vals (p_files p') m k) <-> In v (q_vals (p_files p) m k).
  Proof. destruct S as [-> | (x & run & pre & post & -> & -> & R)]; [tauto | apply splice_vals; exact R]. Qed.
  Lemma sp_mseries m y : In y (q_mseries (p_files p') m) <-> In y (q_mseries (p_files p) m).
  Proof. destruct S as [-> | (x & run & pre & post & -> & -> & R)]; [tauto | apply splice_mseries; exact R]. Qed.
  Lemma sp_kseries m k y : In y (q_kseries (p_files p') m k) <-> In y (q_kseries (p_files p) m k).
  Proof. destruct S as [-> | (x & run & pre & post & -> & -> & R)]; [tauto | apply splice_kseries; exact R]. Qed.
  Lemma sp_vseries (dead : N -> Prop) m k v y :
    (forall f z, In f (p_files p) -> In z (f_ts f) -> dead z) -> ~ dead y ->
    (In y (q_vseries (p_files p') m k v) <-> In y (q_vseries (p_files p) m k v)).
  Proof.
    destruct S as [-> | (x & run & pre & post & -> & -> & R)]; [tauto|].
    intros. apply (splice_vseries x run pre post R dead); assumption.
  Qed.
End PartQueries.

(** ** index level *)
Definition is_event (o : op) : Prop :=
  match o with ORoll _ | OCompactLog _ _ | OCompactRun _ _ _ _ => True | _ => False end.

(** crash-free states: no tag key carries a tombstone; every id that is tombstoned in some file
    is deleted in the series file (the drop operations of the histories guarantee both) *)
Definition st_ok (st : index) : Prop :=
  (forall p, In p (i_parts st) -> no_key_tomb (p_files p)) /\
  (forall p f z, In p (i_parts st) -> In f (p_files p) -> In z (f_ts f) -> In z (i_sdel st)).

Lemma in_upd_nth {A} (g : A -> A) n : forall (l : list A) a, In a (upd_nth n g l) -> In a l \/ exists b, In b l /\ a = g b.
Proof.
  unfold upd_nth. induction n as [|n IH]; intros [|b l] a H; cbn in H; try tauto.
  - destruct H as [<- | H]; [right; exists b; cbn; auto | left; cbn; auto].
  - destruct H as [<- | H]; [left; cbn; auto|]. apply IH in H as [H | [c [Hc ->]]]; [left; cbn; auto | right; exists c; cbn; auto].
Qed.

Lemma ex_upd_nth {A} (P : A -> Prop) (Q : A -> Prop) (g : A -> A) n : forall (l : list A),
  (forall a, In a l -> Q a) -> (forall a, Q a -> (P (g a) <-> P a)) ->
  ((exists a, In a (upd_nth n g l) /\ P a) <-> exists a, In a l /\ P a).
Proof.
  unfold upd_nth. induction n as [|n IH]; intros [|b l] HQ H; cbn [In]; try tauto.
  - assert (Hb : P (g b) <-> P b) by (apply H, HQ; cbn; auto).
    split.
    + intros [a [[E | Ha] Pa]]; [subst a; exists b; tauto | exists a; tauto].
    + intros [a [[E | Ha] Pa]]; [subst a; exists (g b); tauto | exists a; tauto].
  - assert (HQ' : forall a, In a l -> Q a) by (intros a Ha; apply HQ; cbn; auto).
    pose proof (IH l HQ' H) as [I1 I2].
    split.
    + intros [a [[E | Ha] Pa]]; [exists a; tauto|]. destruct I1 as [c [Hc Pc]]; [eauto|]. exists c. tauto.
    + intros [a [[E | Ha] Pa]]; [exists a; tauto|]. destruct I2 as [c [Hc Pc]]; [eauto|]. exists c. tauto.
Qed.

Definition event_fun (o : op) : option (nat * (part -> part)) :=
  match o with
  | ORoll p => Some (p, p_roll)
  | OCompactLog p i => Some (p, p_compact_log i)
  | OCompactRun p i n lvl => Some (p, p_compact_run i n lvl)
  | _ => None
  end.

Lemma event_step o : is_event o -> exists n g, event_fun o = Some (n, g) /\
  (forall st, step st o = set_parts st (upd_nth n g (i_parts st))) /\
  (forall p, no_key_tomb (p_files p) -> splice_of p (g p)).
Proof.
  destruct o; cbn; try tauto; intros _.
  - exists p, p_roll. split; [reflexivity|]. split; [reflexivity|]. intros. apply roll_splice.
  - exists p, (p_compact_log i). split; [reflexivity|]. split; [reflexivity|]. intros. apply compact_log_splice. assumption.
  - exists p, (p_compact_run i n lvl). split; [reflexivity|]. split; [reflexivity|]. intros. apply compact_run_splice. assumption.
Qed.

(** membership in the index-level queries *)
Lemma flat_parts_in {B} (q : list file -> list B) ps y :
  In y (flat_map q (map p_files ps)) <-> exists p, In p ps /\ In y (q (p_files p)).
Proof.
  rewrite in_flat_map. split.
  - intros [fs [Hfs Hy]]. apply in_map_iff in Hfs as [p [<- Hp]]. eauto.
  - intros [p [Hp Hy]]. exists (p_files p). split; [apply in_map; exact Hp | exact Hy].
Qed.
Lemma sunions_parts_in (q : list file -> list N) ps y :
  In y (sunions (map q (map p_files ps))) <-> exists p, In p ps /\ In y (q (p_files p)).
Proof.
  rewrite map_map, sunions_map_in. tauto.
Qed.

Lemma i_meas_in st m : In m (i_meas st) <-> exists p, In p (i_parts st) /\ In m (q_meas (p_files p)).
Proof. unfold i_meas, parts_files. rewrite str_set_in. apply flat_parts_in. Qed.
Lemma i_keys_in st m k : In k (i_keys st m) <-> exists p, In p (i_parts st) /\ In k (q_keys (p_files p) m).
Proof. unfold i_keys, parts_files. rewrite str_set_in. apply (flat_parts_in (fun fs => q_keys fs m)). Qed.
Lemma i_vals_in st m k v : In v (i_vals st m k) <-> exists p, In p (i_parts st) /\ In v (q_vals (p_files p) m k).
Proof. unfold i_vals, parts_files. rewrite str_set_in. apply (flat_parts_in (fun fs => q_vals fs m k)). Qed.
Lemma i_mseries_in st m y :
  In y (i_mseries st m) <-> not_deleted st y = true /\ exists p, In p (i_parts st) /\ In y (q_mseries (p_files p) m).
Proof. unfold i_mseries, parts_files. rewrite filter_In, (sunions_parts_in (fun fs => q_mseries fs m)). tauto. Qed.
Lemma i_kseries_in st m k y :
  In y (i_kseries st m k) <-> not_deleted st y = true /\ exists p, In p (i_parts st) /\ In y (q_kseries (p_files p) m k).
Proof. unfold i_kseries, parts_files. rewrite filter_In, (sunions_parts_in (fun fs => q_kseries fs m k)). tauto. Qed.
Lemma i_vseries_in st m k v y : i_cache st = None ->
  (In y (snd (i_vseries st m k v)) <->
   not_deleted st y = true /\ exists p, In p (i_parts st) /\ In y (q_vseries (p_files p) m k v)).
Proof.
  intro C. unfold i_vseries. rewrite C. cbn [snd]. unfold raw_vseries, parts_files.
  rewrite filter_In, (sunions_parts_in (fun fs => q_vseries fs m k v)). tauto.
Qed.

Section Events.
  Variables (st : index) (o : op).
  Hypothesis EV : is_event o.
  Hypothesis OK : st_ok st.

  Let Q (p : part) : Prop := In p (i_parts st).

  Lemma ev_parts (P : part -> Prop) :
    (forall p p', In p (i_parts st) -> splice_of p p' -> (P p' <-> P p)) ->
    ((exists p, In p (i_parts (step st o)) /\ P p) <-> exists p, In p (i_parts st) /\ P p).
  Proof.
    intro H. destruct (event_step o EV) as (n & g & _ & E & SP). rewrite E. cbn [i_parts set_parts].
    apply (ex_upd_nth P Q g n); [auto|]. intros p Hp. apply H; [exact Hp|]. apply SP. apply OK. exact Hp.
  Qed.

  Lemma ev_not_deleted y : not_deleted (step st o) y = not_deleted st y.
  Proof. destruct (event_step o EV) as (n & g & _ & E & _). rewrite E. reflexivity. Qed.
  Lemma ev_cache : i_cache (step st o) = i_cache st.
  Proof. destruct (event_step o EV) as (n & g & _ & E & _). rewrite E. reflexivity. Qed.

  Theorem event_meas m : In m (i_meas (step st o)) <-> In m (i_meas st).
  Proof. rewrite !i_meas_in. apply ev_parts. intros p p' _ S. apply sp_meas. exact S. Qed.
  Theorem event_keys m k : In k (i_keys (step st o) m) <-> In k (i_keys st m).
  Proof. rewrite !i_keys_in. apply ev_parts. intros p p' _ S. apply sp_keys. exact S. Qed.
  Theorem event_vals m k v : In v (i_vals (step st o) m k) <-> In v (i_vals st m k).
  Proof. rewrite !i_vals_in. apply ev_parts. intros p p' _ S. apply sp_vals. exact S. Qed.
  Theorem event_mseries m y : In y (i_mseries (step st o) m) <-> In y (i_mseries st m).
  Proof.
    rewrite !i_mseries_in, ev_not_deleted.
    rewrite (ev_parts (fun p => In y (q_mseries (p_files p) m))); [tauto|]. intros p p' _ S. apply sp_mseries. exact S.
  Qed.
  Theorem event_kseries m k y : In y (i_kseries (step st o) m k) <-> In y (i_kseries st m k).
  Proof.
    rewrite !i_kseries_in, ev_not_deleted.
    rewrite (ev_parts (fun p => In y (q_kseries (p_files p) m k))); [tauto|]. intros p p' _ S. apply sp_kseries. exact S.
  Qed.
  Theorem event_vseries m k v y : i_cache st = None ->
    (In y (snd (i_vseries (step st o) m k v)) <-> In y (snd (i_vseries st m k v))).
  Proof.
    intro C. rewrite !i_vseries_in by (try rewrite ev_cache; exact C). rewrite ev_not_deleted.
    destruct (not_deleted st y) eqn:ND; [|split; intros [? _]; discriminate].
    assert (Hy : ~ In y (i_sdel st)).
    { unfold not_deleted in ND. apply andb_true_iff in ND as [ND _]. apply negb_true_iff, smem_false in ND. exact ND. }
    rewrite (ev_parts (fun p => In y (q_vseries (p_files p) m k v))); [tauto|].
    intros p p' Hp S. apply (sp_vseries p p' S (fun z => In z (i_sdel st))); [|exact Hy].
    intros f z Hf Hz. destruct OK as [_ D]. exact (D p f z Hp Hf Hz).
  Qed.
End Events.
