// C41 driver: the REAL Flux storage reader (storageflux.NewReader(store).ReadWindowAggregate
// -> windowAggregateIterator.Do/handleRead -> *WindowTable / *WindowSelectorTable /
// *EmptyWindowSelectorTable -> splitWindows) over a fake reads.Store whose WindowAggregate
// is, like the real store's, reads.NewWindowAggregateResultSet over a series cursor; the
// series cursor and array cursors are the mocks of harness/cmd/c20/wmock (prepared series,
// prepared arrays, time-range filtering like the tsm1 cursors).  Observed: the rows of every
// flux table (_start, _stop, _time?, _value|null), in order.
package main

import (
	"context"
	"errors"
	"fmt"
	"math"
	"time"

	"github.com/influxdata/flux"
	"github.com/influxdata/flux/execute"
	"github.com/influxdata/flux/memory"
	"github.com/influxdata/flux/plan"
	"github.com/influxdata/flux/values"
	"github.com/influxdata/influxdb/v2/models"
	"github.com/influxdata/influxdb/v2/query"
	storageflux "github.com/influxdata/influxdb/v2/storage/flux"
	"github.com/influxdata/influxdb/v2/storage/reads"
	"github.com/influxdata/influxdb/v2/storage/reads/datatypes"
	"github.com/influxdata/influxdb/v2/tsdb/cursors"
	"google.golang.org/protobuf/proto"
	"google.golang.org/protobuf/types/known/emptypb"
	"verifh/cmd/c20/wmock"
	"verifh/vh"
)

type jrow struct {
	Start   int64  `json:"start"`
	Stop    int64  `json:"stop"`
	HasTime bool   `json:"has_time"`
	Time    int64  `json:"time,omitempty"`
	Null    bool   `json:"null"`
	Kind    string `json:"kind,omitempty"`
	V       uint64 `json:"v,omitempty"`
}
type jcase struct {
	S       wmock.Series `json:"series"`
	Agg     string       `json:"agg"`
	Bs      int64        `json:"bounds_start"`
	Be      int64        `json:"bounds_stop"`
	Every   int64        `json:"every"`
	Off     int64        `json:"offset"`
	CE      bool         `json:"create_empty"`
	TC      string       `json:"time_column"`
	FA      bool         `json:"force_aggregate"`
	Sizes   []int        `json:"array_sizes"`
	Shards  []int        `json:"arrays_per_shard"`
	Served  [][]int      `json:"served_arrays(index ranges)"`
	Rows    []jrow       `json:"impl_rows"`
	Endless bool         `json:"impl_table_did_not_end"`
}

// ---- fake store
type store struct {
	row func(desc bool) reads.SeriesRow
}

func (s *store) ReadFilter(ctx context.Context, req *datatypes.ReadFilterRequest) (reads.ResultSet, error) {
	return nil, errors.New("not used")
}
func (s *store) ReadGroup(ctx context.Context, req *datatypes.ReadGroupRequest) (reads.GroupResultSet, error) {
	return nil, errors.New("not used")
}
func (s *store) WindowAggregate(ctx context.Context, req *datatypes.ReadWindowAggregateRequest) (reads.ResultSet, error) {
	desc := reads.IsLastDescendingAggregateOptimization(req)
	return reads.NewWindowAggregateResultSet(ctx, req, &wmock.SeriesCursor{Rows: []reads.SeriesRow{s.row(desc)}})
}
func (s *store) TagKeys(ctx context.Context, req *datatypes.TagKeysRequest) (cursors.StringIterator, error) {
	return nil, errors.New("not used")
}
func (s *store) TagValues(ctx context.Context, req *datatypes.TagValuesRequest) (cursors.StringIterator, error) {
	return nil, errors.New("not used")
}
func (s *store) ReadSeriesCardinality(ctx context.Context, req *datatypes.ReadSeriesCardinalityRequest) (cursors.Int64Iterator, error) {
	return nil, errors.New("not used")
}
func (s *store) SupportReadSeriesCardinality(ctx context.Context) bool { return false }
func (s *store) GetSource(orgID, bucketID uint64) proto.Message        { return &emptypb.Empty{} }

var errTooMany = errors.New("verif: row limit reached")

func colIdx(cols []flux.ColMeta, label string) int { return execute.ColIdx(label, cols) }

func valOf(cr flux.ColReader, j, i int) (null bool, kind string, v uint64) {
	switch cr.Cols()[j].Type {
	case flux.TInt:
		a := cr.Ints(j)
		if a.IsNull(i) {
			return true, "int", 0
		}
		return false, "int", uint64(a.Value(i))
	case flux.TUInt:
		a := cr.UInts(j)
		if a.IsNull(i) {
			return true, "uint", 0
		}
		return false, "uint", a.Value(i)
	case flux.TFloat:
		a := cr.Floats(j)
		if a.IsNull(i) {
			return true, "float", 0
		}
		return false, "float", math.Float64bits(a.Value(i))
	case flux.TBool:
		a := cr.Bools(j)
		if a.IsNull(i) {
			return true, "bool", 0
		}
		if a.Value(i) {
			return false, "bool", 1
		}
		return false, "bool", 0
	case flux.TString:
		a := cr.Strings(j)
		if a.IsNull(i) {
			return true, "str", 0
		}
		for k, s := range wmock.StrPool {
			if s == a.Value(i) {
				return false, "str", uint64(k)
			}
		}
		return false, "str", 99
	}
	return true, "?", 0
}

func keyTime(k flux.GroupKey, label string) (int64, bool) {
	j := execute.ColIdx(label, k.Cols())
	if j < 0 {
		return 0, false
	}
	return int64(k.ValueTime(j)), true
}

// readAll runs the query and collects the rows; limit bounds the number of rows.
func readAll(c *jcase, limit int) (rows []jrow, endless bool, served [][]int, errs string) {
	n := len(c.S.T)
	ranges := wmock.Ranges(n, c.Sizes)
	tags := models.NewTags(map[string]string{"_measurement": "m", "_field": "f", "t0": "a"})
	st := &store{row: func(desc bool) reads.SeriesRow { return wmock.Row(&c.S, ranges, c.Shards, desc, tags, &served) }}
	spec := query.ReadWindowAggregateSpec{
		ReadFilterSpec: query.ReadFilterSpec{OrganizationID: 1, BucketID: 2,
			Bounds: execute.Bounds{Start: values.Time(c.Bs), Stop: values.Time(c.Be)}},
		Window: execute.Window{
			Every:  values.ConvertDurationNsecs(time.Duration(c.Every)),
			Period: values.ConvertDurationNsecs(time.Duration(c.Every)),
			Offset: values.ConvertDurationNsecs(time.Duration(c.Off)),
		},
		Aggregates:     []plan.ProcedureKind{plan.ProcedureKind(c.Agg)},
		CreateEmpty:    c.CE,
		TimeColumn:     c.TC,
		ForceAggregate: c.FA,
	}
	ctx, cancel := context.WithCancel(context.Background())
	defer cancel()
	ti, err := storageflux.NewReader(st).ReadWindowAggregate(ctx, spec, memory.DefaultAllocator)
	if err != nil {
		return nil, false, served, "ReadWindowAggregate: " + err.Error()
	}
	err = ti.Do(func(tbl flux.Table) error {
		ks, okS := keyTime(tbl.Key(), execute.DefaultStartColLabel)
		ke, okE := keyTime(tbl.Key(), execute.DefaultStopColLabel)
		if !okS || !okE {
			errs = "table without _start/_stop in its group key"
		}
		if tbl.Empty() {
			// an empty table stands for a window without a selected row
			rows = append(rows, jrow{Start: ks, Stop: ke, Null: true})
			tbl.Done()
			return nil
		}
		return tbl.Do(func(cr flux.ColReader) error {
			js, je := colIdx(cr.Cols(), execute.DefaultStartColLabel), colIdx(cr.Cols(), execute.DefaultStopColLabel)
			jt, jv := colIdx(cr.Cols(), execute.DefaultTimeColLabel), colIdx(cr.Cols(), execute.DefaultValueColLabel)
			if js < 0 || je < 0 || jv < 0 {
				errs = "missing _start/_stop/_value column"
				return errTooMany
			}
			for i := 0; i < cr.Len(); i++ {
				r := jrow{Start: cr.Times(js).Value(i), Stop: cr.Times(je).Value(i)}
				if r.Start != ks || r.Stop != ke {
					errs = fmt.Sprintf("row (_start,_stop)=(%d,%d) differs from its table's group key (%d,%d)", r.Start, r.Stop, ks, ke)
				}
				if jt >= 0 && !cr.Times(jt).IsNull(i) {
					r.HasTime, r.Time = true, cr.Times(jt).Value(i)
				}
				r.Null, r.Kind, r.V = valOf(cr, jv, i)
				rows = append(rows, r)
				if len(rows) > limit {
					endless = true
					return errTooMany
				}
			}
			return nil
		})
	})
	if err != nil && !errors.Is(err, errTooMany) && errs == "" {
		errs = "table iterator: " + err.Error()
	}
	return rows, endless, served, errs
}

var coqAgg = map[string]string{"count": "Count", "sum": "Sum", "min": "Min", "max": "Max", "mean": "Mean", "first": "First", "last": "Last"}

func isSel(a string) bool { return a == "min" || a == "max" || a == "first" || a == "last" }

func floorDiv(a, b int64) int64 {
	q := a / b
	if a%b != 0 && (a < 0) != (b < 0) {
		q--
	}
	return q
}

func run(w *vh.W, c *jcase) {
	n := len(c.S.T)
	idx := w.Len()
	ws0 := floorDiv(c.Bs-c.Off, c.Every)*c.Every + c.Off
	nwin := int((c.Be - ws0 + c.Every - 1) / c.Every)
	limit := 3*(nwin+n) + 3000
	var rows []jrow
	var endless bool
	var served [][]int
	var errs string
	done := make(chan struct{})
	var p string
	go func() {
		p = vh.Guard(func() { rows, endless, served, errs = readAll(c, limit) })
		close(done)
	}()
	select {
	case <-done:
	case <-time.After(60 * time.Second):
		errs = "timeout: the table iterator did not finish within 60 s"
	}
	if p != "" {
		errs = "panic: " + p
	}
	c.Rows, c.Endless, c.Served = rows, endless, served
	// in-range points and windows (for the finding shapes and the distribution)
	inr := 0
	lastIn := int64(math.MinInt64)
	for _, t := range c.S.T {
		if t >= c.Bs && t < c.Be {
			inr++
			lastIn = t
		}
	}
	// The two former findings (selector+ForceAggregate without createEmpty never ended;
	// selector+createEmpty dropped the empty windows after a 1000-row block) are repaired:
	// the shapes are still generated and any failure on them is a violation again.
	sig := ""
	shape := ""
	if isSel(c.Agg) && c.FA && !c.CE && inr > 0 {
		shape = "selector+forceAggregate, no createEmpty"
	}
	if isSel(c.Agg) && !c.FA && c.CE && c.TC == "" && inr > 0 && nwin > 1000 {
		k := int(floorDiv(lastIn-ws0, c.Every)) // index of the last non-empty window
		if (k/1000+1)*1000 < nwin {
			shape = "selector+createEmpty, empty windows after the data's 1000-row block"
		}
	}
	if errs != "" {
		w.Fail(idx, errs, sig)
	}
	if endless {
		w.Fail(idx, fmt.Sprintf("the flux table never ended: more than %d rows were produced for %d windows / %d points", limit, nwin, inr), sig)
	}

	// ---- term
	var all []string
	for i := range c.S.T {
		all = append(all, ptTerm(c.S.Ty, c.S.T[i], c.S.V[i]))
	}
	var chunks []string
	for _, a := range served {
		var ps []string
		for _, i := range a {
			ps = append(ps, ptTerm(c.S.Ty, c.S.T[i], c.S.V[i]))
		}
		chunks = append(chunks, vh.List(ps))
	}
	rowsT := "None"
	if !endless && errs == "" {
		var rs []string
		for _, r := range rows {
			tm, v := "None", "None"
			if r.HasTime {
				tm = vh.Some(vh.Z(r.Time))
			}
			if !r.Null {
				v = "(Some (" + valTerm(r.Kind, r.V) + "))"
			}
			rs = append(rs, fmt.Sprintf("R %s %s %s %s", vh.Z(r.Start), vh.Z(r.Stop), tm, v))
		}
		rowsT = vh.Some(vh.List(rs))
	}
	tyc := map[string]string{"int": "TInt", "uint": "TUint", "float": "TFloat", "bool": "TBool", "str": "TStr"}[c.S.Ty]
	tcc := map[string]string{"": "TNone", "_start": "TStart", "_stop": "TStop"}[c.TC]
	t := fmt.Sprintf("{| c_ty := %s; c_k := %s; c_bs := %s; c_be := %s; c_every := %s; c_off := %s; c_ce := %s; c_tc := %s; c_fa := %s; c_all := %s; c_chunks := %s; c_rows := %s |}",
		tyc, coqAgg[c.Agg], vh.Z(c.Bs), vh.Z(c.Be), vh.Z(c.Every), vh.Z(c.Off), vh.Bool(c.CE), tcc, vh.Bool(c.FA), vh.List(all), vh.List(chunks), rowsT)
	variant := "WindowTable"
	if isSel(c.Agg) && !c.FA {
		if c.CE && c.TC == "" {
			variant = "EmptyWindowSelectorTable"
		} else {
			variant = "WindowSelectorTable"
		}
	}
	w.Count("table", variant)
	w.Count("agg", c.Agg)
	w.Count("type", c.S.Ty)
	w.Count("create_empty", fmt.Sprint(c.CE))
	w.Count("time_column", "\""+c.TC+"\"")
	w.Count("force_aggregate", fmt.Sprint(c.FA))
	w.Count("points_in_bounds", cls(inr))
	w.Count("windows_in_bounds", cls(nwin))
	w.Count("formerly_failing_shape", shape)
	if endless || errs != "" {
		// the failure is reported through w.Fail; give the judge a case it accepts
		t = fmt.Sprintf("{| c_ty := %s; c_k := %s; c_bs := 0; c_be := 1; c_every := 1; c_off := 0; c_ce := false; c_tc := TNone; c_fa := false; c_all := []; c_chunks := []; c_rows := Some [] |}", tyc, coqAgg[c.Agg])
	}
	w.Add(t, c, inr >= 2 && nwin >= 2, sig)
}

func cls(k int) string {
	switch {
	case k == 0:
		return "0"
	case k == 1:
		return "1"
	case k < 1000:
		return "2-999"
	case k == 1000:
		return "1000"
	}
	return ">1000"
}

func sfTerm(f float64) string {
	b := math.Float64bits(f)
	s := vh.Bool(b>>63 != 0)
	e := int64((b >> 52) & 0x7ff)
	fr := b & (1<<52 - 1)
	switch {
	case e == 0x7ff && fr != 0:
		return "S754_nan"
	case e == 0x7ff:
		return "(S754_infinity " + s + ")"
	case e == 0 && fr == 0:
		return "(S754_zero " + s + ")"
	case e == 0:
		return fmt.Sprintf("(S754_finite %s %d%%positive (-1074))", s, fr)
	}
	return fmt.Sprintf("(S754_finite %s %d%%positive (%d))", s, fr|1<<52, e-1075)
}
func valTerm(kind string, v uint64) string {
	switch kind {
	case "int":
		return "VI " + vh.Z(int64(v))
	case "uint":
		return fmt.Sprintf("VU %d%%Z", v)
	case "float":
		return "VF " + sfTerm(math.Float64frombits(v))
	case "bool":
		return "VB " + vh.Bool(v != 0)
	}
	return "VS " + vh.N(v)
}
func ptTerm(kind string, t int64, v uint64) string {
	return "(" + vh.Z(t) + ", " + valTerm(kind, v) + ")"
}

func supported(ty, agg string) bool {
	switch agg {
	case "count", "first", "last":
		return true
	}
	return ty == "int" || ty == "uint" || ty == "float"
}

var floatPool = []float64{0, 1, -1, 2, 0.5, 0.1, 0.2, 0.3, 1e16, -1e16, 3, 1e308, 5e-324, math.Copysign(0, -1), 1.5, 7}

// values whose float64 sums are inexact / order dependent
var inexactPool = []float64{0.1, 0.2, 0.3, 1e16, -1e16, 1, 1e-9, 3.3, 0.7, -0.1, 1e-7, 123456.789, 1.0 / 3.0, 2.5e15}
var intPool = []int64{0, 1, -1, 2, 3, -7, 10, 100, math.MaxInt64, math.MinInt64, 1<<53 + 1, 1 << 62}
var uintPool = []uint64{0, 1, 2, 3, 9, 100, math.MaxUint64, 1 << 63, 1<<53 + 1}

// mode: 0 small exact values, 1 extremes, 2 (floats) values with inexact sums
func genVal(w *vh.W, ty string, mode int) uint64 {
	r := w.Rng
	wild := mode == 1
	if ty == "float" && mode == 2 {
		return math.Float64bits(inexactPool[r.IntN(len(inexactPool))])
	}
	switch ty {
	case "int":
		if wild {
			return uint64(intPool[r.IntN(len(intPool))])
		}
		return uint64(int64(r.IntN(11) - 5))
	case "uint":
		if wild {
			return uintPool[r.IntN(len(uintPool))]
		}
		return uint64(r.IntN(6))
	case "float":
		if wild {
			return math.Float64bits(floatPool[r.IntN(len(floatPool))])
		}
		return math.Float64bits(float64(r.IntN(9)-4) / 2)
	case "bool":
		return uint64(r.IntN(2))
	}
	return uint64(r.IntN(len(wmock.StrPool)))
}

// gen: n points from t0 on; gap modes as in c20
func gen(w *vh.W, n int, t0, every int64, gapMode int, ty string, forceMode ...int) wmock.Series {
	r := w.Rng
	s := wmock.Series{Ty: ty}
	t := t0
	mode := []int{0, 0, 1, 2}[r.IntN(4)]
	if ty == "float" {
		mode = []int{0, 1, 2, 2}[r.IntN(4)]
	} else if mode == 2 {
		mode = 0
	}
	if len(forceMode) > 0 {
		mode = forceMode[0]
	}
	for i := 0; i < n; i++ {
		s.T = append(s.T, t)
		s.V = append(s.V, genVal(w, ty, mode))
		var g int64
		switch gapMode {
		case 0:
			g = 1
		case 1:
			g = every + int64(r.IntN(3)-1)
		case 2:
			g = 1 + r.Int64N(3*every)
		default:
			g = every
		}
		if g < 1 {
			g = 1
		}
		t += g
	}
	return s
}

var aggNames = []string{"count", "sum", "min", "max", "mean", "first", "last"}

func main() {
	w := vh.New("C41", "From Coq Require Import Floats.SpecFloat.\nFrom Verif Require Import Base.Prelude Model.C20 Model.C41.\nOpen Scope Z_scope.", "case", "check")
	w.Rule = "one series (0-60 points, some 1100-2300; 5 field types; half of the float series draw values with inexact, order-dependent sums {0.1,0.2,0.3,1e16,-1e16,1,1e-9,3.3,..} and half are dense inside wide windows; strictly increasing times, also outside the bounds) behind a fake reads.Store; query bounds placed around the data and around window boundaries (clipped first/last window, bounds inside one window, data before/after the bounds); every in {1,2,3,5,10,60,1000} ns, offset in {0,+-1,every-1,every,every+1,-every-1}; aggregate in count/sum/min/max/mean/first/last (supported for the type), createEmpty on/off, timeColumn in {\"\",_start,_stop}, forceAggregate on/off (all 3 table implementations); arrays of 1..1500 points over 1-3 shards. Hand-picked cases first: >1000 windows with createEmpty for each table kind, bounds inside one window, no data in bounds. Rows of all flux tables are recorded in order; a table that produces more than 3*(windows+points)+3000 rows is reported as never ending. Non-trivial: >=2 points in bounds and >=2 windows in bounds. Distinct: distinct terms."
	var rc jcase
	if w.ReplayCase(&rc) {
		run(w, &rc)
		w.Finish()
		return
	}
	r := w.Rng
	// ---- hand-picked
	hp := []jcase{
		// bounds inside one window, data on both sides
		{S: wmock.Series{Ty: "int", T: []int64{1, 12, 13, 17, 25}, V: []uint64{1, 2, 3, 4, 5}}, Agg: "sum", Bs: 12, Be: 18, Every: 10, CE: true, TC: ""},
		{S: wmock.Series{Ty: "int", T: []int64{1, 12, 13, 17, 25}, V: []uint64{1, 2, 3, 4, 5}}, Agg: "min", Bs: 12, Be: 18, Every: 10, CE: true, TC: ""},
		// no data in bounds
		{S: wmock.Series{Ty: "float", T: []int64{1, 2}, V: []uint64{0, 0}}, Agg: "mean", Bs: 10, Be: 40, Every: 10, CE: true, TC: "_stop"},
		// the storage/flux unit-test shape: clipped first and last window, empty middle
		{S: wmock.Series{Ty: "float", T: []int64{15}, V: []uint64{math.Float64bits(2)}}, Agg: "count", Bs: 5, Be: 25, Every: 10, CE: true, TC: ""},
		{S: wmock.Series{Ty: "float", T: []int64{15}, V: []uint64{math.Float64bits(2)}}, Agg: "max", Bs: 5, Be: 25, Every: 10, CE: true, TC: ""},
		// table.fill() after window |> first (forceAggregate), with and without createEmpty
		{S: wmock.Series{Ty: "int", T: []int64{3, 4, 25}, V: []uint64{7, 8, 9}}, Agg: "first", Bs: 0, Be: 40, Every: 10, CE: true, TC: "_stop", FA: true},
		{S: wmock.Series{Ty: "int", T: []int64{3, 4, 25}, V: []uint64{7, 8, 9}}, Agg: "first", Bs: 0, Be: 40, Every: 10, CE: false, TC: "", FA: true},
		{S: wmock.Series{Ty: "int", T: []int64{3, 4, 25}, V: []uint64{7, 8, 9}}, Agg: "last", Bs: 0, Be: 40, Every: 10, CE: false, TC: "_start", FA: true},
	}
	fb := func(vs ...float64) []uint64 {
		var o []uint64
		for _, v := range vs {
			o = append(o, math.Float64bits(v))
		}
		return o
	}
	// float sum/mean with array boundaries inside a window and order-dependent sums
	for _, a := range []string{"sum", "mean"} {
		hp = append(hp,
			jcase{S: wmock.Series{Ty: "float", T: []int64{0, 1, 2}, V: fb(0.1, 0.2, 0.3)}, Agg: a, Bs: 0, Be: 10, Every: 10, CE: false, TC: "", Sizes: []int{1, 2}},
			jcase{S: wmock.Series{Ty: "float", T: []int64{0, 1, 2, 3}, V: fb(1e16, 1, -1e16, 1)}, Agg: a, Bs: -5, Be: 25, Every: 10, CE: true, TC: "_stop", Sizes: []int{1, 3}},
			jcase{S: wmock.Series{Ty: "float", T: []int64{-3, -2, 1, 2, 3, 4, 6, 7, 8, 11, 12, 13, 14},
				V: fb(0.1, 0.2, 0.3, 0.7, 1e-9, 3.3, 1e16, 1, -1e16, 1.0/3.0, 0.1, 0.2, 0.3)}, Agg: a, Bs: -4, Be: 15, Every: 5, Off: 1, CE: a == "sum", TC: "", Sizes: []int{1, 2, 2, 3, 2, 3}, Shards: []int{2}})
	}
	for i := range hp {
		run(w, &hp[i])
	}
	// > 1000 windows: data in the first windows only / everywhere, each table kind
	for i, a := range []string{"count", "min", "last"} {
		n := []int{5, 5, 1100}[i]
		c := jcase{S: gen(w, n, 3, 2, 3, []string{"int", "float", "int"}[i]), Agg: a, Bs: 0,
			Be: []int64{2500, 2500, 2300}[i], Every: 2, Off: int64(i % 2), CE: i != 2, TC: "", Sizes: []int{700}}
		run(w, &c)
	}
	everys := []int64{1, 2, 3, 5, 10, 60, 1000}
	tys := []string{"int", "int", "int", "float", "float", "float", "uint", "uint", "bool", "str"}
	for w.Len() < w.N {
		every := everys[r.IntN(len(everys))]
		offs := []int64{0, 1, -1, every - 1, every, every + 1, -every - 1}
		off := offs[r.IntN(len(offs))]
		n := r.IntN(31)
		gm := r.IntN(3)
		big := r.IntN(200) < 3
		if big {
			n = 1100 + r.IntN(1200)
			gm = 1
			if every > 10 {
				every = 3
			}
		} else if r.IntN(12) == 0 {
			n = 60 + r.IntN(200)
		}
		ty := tys[r.IntN(len(tys))]
		denseFloat := ty == "float" && !big && r.IntN(2) == 0
		if denseFloat { // dense points with inexact sums inside wide windows
			gm = 0
			if n < 4 {
				n = 4 + r.IntN(20)
			}
			if every < 10 {
				every = []int64{10, 60}[r.IntN(2)]
			}
		}
		t0 := []int64{0, -50, 3, 1000, -1000000007}[r.IntN(5)]
		if r.IntN(3) == 0 {
			t0 = off + every*int64(r.IntN(5)-2) + int64(r.IntN(3)-1)
		}
		s := gen(w, n, t0, every, gm, ty)
		if denseFloat {
			s = gen(w, n, t0, every, gm, ty, 2)
		}
		// bounds: around the data, boundary-biased
		lo, hi := t0, t0+every
		if n > 0 {
			lo, hi = s.T[0], s.T[n-1]+1
		}
		pick := func(base int64) int64 {
			switch r.IntN(5) {
			case 0:
				return base
			case 1:
				return floorDiv(base-off, every)*every + off // on the window grid
			case 2:
				return base + int64(r.IntN(5)) - 2
			case 3:
				return base - every*int64(r.IntN(4)) - int64(r.IntN(3))
			}
			return base + every*int64(r.IntN(4)) + int64(r.IntN(3))
		}
		bs, be := pick(lo), pick(hi)
		if r.IntN(6) == 0 && n > 2 { // bounds strictly inside the data
			bs, be = s.T[r.IntN(n/2)], s.T[n/2+r.IntN(n-n/2)]+int64(r.IntN(2))
		}
		if be <= bs {
			be = bs + 1 + int64(r.IntN(int(3*every)))
		}
		if !big && (be-bs)/every > 400 { // keep the number of (empty) windows moderate
			be = bs + every*int64(50+r.IntN(100))
		}
		var as []string
		for _, a := range aggNames {
			if supported(ty, a) {
				as = append(as, a)
			}
		}
		agg := as[r.IntN(len(as))]
		if denseFloat && r.IntN(3) != 0 {
			agg = []string{"sum", "mean"}[r.IntN(2)]
		}
		c := jcase{S: s, Agg: agg, Bs: bs, Be: be, Every: every, Off: off,
			CE: r.IntN(2) == 0, TC: []string{"", "", "_start", "_stop"}[r.IntN(4)], FA: r.IntN(5) == 0}
		if c.FA && c.TC == "" && r.IntN(2) == 0 {
			c.TC = "_stop"
		}
		mx := 1 + r.IntN(8)
		if denseFloat {
			mx = 4
		}
		if n > 50 {
			mx = 1 + r.IntN(1500)
		}
		for tot := 0; tot < n; {
			k := 1 + r.IntN(mx)
			c.Sizes = append(c.Sizes, k)
			tot += k
		}
		ns := 1 + r.IntN(3)
		for i := 0; i < ns-1; i++ {
			c.Shards = append(c.Shards, 1+r.IntN(1+len(c.Sizes)/ns))
		}
		run(w, &c)
	}
	w.Finish()
}
